(* C30: executable model of pony.utils.parse_expr (the scanner that delimits a $expression in raw SQL), written as
   deterministic scanner functions that mirror the three regular expressions expr1_re / expr2_re / expr3_re and the loop
   around them.  Tied to /repo by correspondence (the real parse_expr / adapt_sql / parse_raw_sql on generated texts).
   The character classes \w and \s of Python's re (Unicode aware) are parameters: the theorems hold for every
   classification, the correspondence run instantiates them with the classes CPython reports.  Definitions only. *)
Require Import PonyV.Base.PyBase PonyV.Model.C06Str.

Section Scan.
Variable is_w : Z -> bool.     (* \w *)
Variable is_sp : Z -> bool.    (* \s *)

(* [A-Za-z_] *)
Definition is_id_start (c : Z) : bool :=
  ((65 <=? c) && (c <=? 90)) || ((97 <=? c) && (c <=? 122)) || (c =? 95).

Fixpoint skip_w (s : str) : str := match s with c :: r => if is_w c then skip_w r else s | [] => [] end.
Fixpoint skip_sp (s : str) : str := match s with c :: r => if is_sp c then skip_sp r else s | [] => [] end.

(* '(?:[^'\\]|\\.)*?'  after the opening quote q: text after the closing quote.  A backslash takes the next character
   with it (any character but a newline: `.` without DOTALL); the lazy star stops at the first unescaped q. *)
Fixpoint str1 (q : Z) (s : str) : option str :=
  match s with
  | [] => None
  | c :: r =>
      if c =? 92 then match r with d :: r' => if d =? 10 then None else str1 q r' | [] => None end
      else if c =? q then Some r
      else str1 q r
  end.

(* '''(?:[^\\]|\\.)*?'''  after the opening three quotes *)
Fixpoint str3 (q : Z) (s : str) : option str :=
  match s with
  | [] => None
  | c :: r =>
      if c =? 92 then match r with d :: r' => if d =? 10 then None else str3 q r' | [] => None end
      else match r with
           | b :: c3 :: r3 => if (c =? q) && (b =? q) && (c3 =? q) then Some r3 else str3 q r
           | _ => str3 q r
           end
  end.

(* at a quote character q (r = the text after it): the alternatives of expr3_re in order: triple-quoted, then single-quoted *)
Definition try_string (q : Z) (r : str) : option str :=
  match r with
  | a :: b :: r2 =>
      if (a =? q) && (b =? q) then match str3 q r2 with Some x => Some x | None => str1 q r end else str1 q r
  | _ => str1 q r
  end.

Definition is_bracket (c : Z) : bool := (c =? 40) || (c =? 41) || (c =? 91) || (c =? 93).
Definition closer (c : Z) : Z := if c =? 40 then 41 else 93.

(* expr3_re.search(s, pos): the next token from the current position on -- a bracket character (Some c) or a complete string
   literal (None) -- and the text after it.  A quote that starts no complete literal is skipped as an ordinary character.
   None = no token left. *)
Fixpoint next_tok (s : str) : option (option Z * str) :=
  match s with
  | [] => None
  | c :: r =>
      if is_bracket c then Some (Some c, r)
      else if (c =? 39) || (c =? 34) then
        match try_string c r with
        | Some r' => Some (None, r')
        | None => next_tok r
        end
      else next_tok r
  end.

(* the inner loop of parse_expr: tokens are taken until the bracket that was opened is closed.  depth = counter - 1.  Only
   brackets of the opening kind are counted; brackets of the other kind and string literals are matched and skipped.
   None = ValueError (no token left). *)
Fixpoint scan_br (fuel : nat) (opn cls : Z) (depth : nat) (s : str) : option str :=
  match fuel with
  | O => None
  | S f =>
      match next_tok s with
      | None => None
      | Some (Some c, r) =>
          if c =? opn then scan_br f opn cls (S depth) r
          else if c =? cls then match depth with O => Some r | S d => scan_br f opn cls d r end
          else scan_br f opn cls depth r
      | Some (None, r) => scan_br f opn cls depth r
      end
  end.

(* expr1_re.match(s, pos): group 1 = identifier (position after it), group 2 = an opening parenthesis *)
Definition head1 (s : str) : option (nat * str) :=
  match s with
  | [] => None
  | c :: r => if is_id_start c then Some (1%nat, skip_w r) else if c =? 40 then Some (2%nat, r) else None
  end.

(* expr2_re.match(s, pos): optional white space and then  ;  (group 1)   .identifier  (group 2)   ( or [  (group 3) *)
Inductive trailer_t : Type := TrSemi (rest : str) | TrAttr (rest : str) | TrOpen (c : Z) (rest : str).
Definition trailer (s : str) : option trailer_t :=
  match skip_sp s with
  | c :: r =>
      if c =? 59 then Some (TrSemi r)
      else if c =? 46 then
        match skip_sp r with
        | d :: v => if is_id_start d then Some (TrAttr (skip_w v)) else None
        | [] => None
        end
      else if (c =? 40) || (c =? 91) then Some (TrOpen c r)
      else None
  | [] => None
  end.

(* the outer loop: trailers are taken while expr2_re matches; a semicolon ends the expression explicitly (and is consumed);
   when nothing matches the expression ends in front of the white space.  Result: the text after the expression. *)
Fixpoint tails (fuel : nat) (s : str) : option str :=
  match fuel with
  | O => None
  | S f =>
      match trailer s with
      | None => Some s
      | Some (TrSemi r) => Some r
      | Some (TrAttr r) => tails f r
      | Some (TrOpen c r) =>
          match scan_br (length r) c (closer c) 0 r with
          | Some rest => tails f rest
          | None => None
          end
      end
  end.

(* parse_expr(s, pos) for s = the text from pos on: the text after the expression; None = ValueError *)
Definition parse_expr_rest (s : str) : option str :=
  match head1 s with
  | None => None
  | Some (g, r) => if Nat.eqb g 1 then tails (S (length s)) r else tails (S (length s)) s     (* group 2: pos is not advanced *)
  end.

(* the expression text itself: s[start:pos] *)
Definition parse_expr (s : str) : option (str * str) :=
  match parse_expr_rest s with
  | Some rest => Some (firstn (length s - length rest) s, rest)
  | None => None
  end.

End Scan.
