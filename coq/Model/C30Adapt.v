(* C30: executable model of pony.orm.core.adapt_sql (scan for $, $$, $expression; placeholder per paramstyle; % doubling for
   format / pyformat; the process-wide adapted_sql_cache) and of ormtypes.parse_raw_sql
   (same scanner, no styles).  Hand-written; tied to /repo by correspondence.  Definitions only. *)
Require Import PonyV.Base.PyBase PonyV.Model.C06Str PonyV.Model.C06Params PonyV.Model.C30Scan.

(* error classes *)
Definition E_VALUE : nat := 1%nat.     (* ValueError from parse_expr (no expression after $, unbalanced bracket) *)
Definition E_INDEX : nat := 2%nat.     (* IndexError: sql[i+1] when $ is the last character *)
Definition E_TYPE : nat := 3%nat.      (* TypeError: parse_raw_sql on an empty string *)

Inductive item : Type := IText (t : str) | IExpr (e : str).

(* sql.index('$', pos): the text before the first $ and, if there is one, the text after it *)
Fixpoint split_dollar (s : str) : str * option str :=
  match s with
  | [] => ([], None)
  | c :: r => if c =? 36 then ([], Some r) else let (t, o) := split_dollar r in (c :: t, o)
  end.

(* if expr.endswith(';'): expr = expr[:-1] *)
Definition strip_semi (e : str) : str :=
  match rev e with c :: r => if c =? 59 then rev r else e | [] => e end.

Section Adapt.
Variable is_w : Z -> bool.
Variable is_sp : Z -> bool.

(* the while-loop shared by adapt_sql and parse_raw_sql: the statement as a list of text pieces and expressions *)
Fixpoint scan_items (fuel : nat) (s : str) : result (list item) :=
  match fuel with
  | O => Err E_VALUE
  | S f =>
      match split_dollar s with
      | (t, None) => Ok [IText t]
      | (t, Some r) =>
          match r with
          | [] => Err E_INDEX
          | c :: r' =>
              if c =? 36 then
                match scan_items f r' with Ok l => Ok (IText t :: IText [36] :: l) | Err e => Err e end
              else
                match parse_expr is_w is_sp r with
                | None => Err E_VALUE
                | Some (e, rest) =>
                    match scan_items f rest with Ok l => Ok (IText t :: IExpr (strip_semi e) :: l) | Err e => Err e end
                end
          end
      end
  end.

Definition items_of (s : str) : result (list item) := scan_items (S (length s)) s.

Definition exprs_of (l : list item) : list str :=
  flat_map (fun i => match i with IExpr e => [e] | IText _ => [] end) l.

(* decimal digits of a positive number (for :N, :pN, %(pN)s) *)
Fixpoint dec_go (fuel : nat) (n : Z) (acc : str) : str :=
  match fuel with
  | O => acc
  | S f => let acc' := (48 + n mod 10) :: acc in if n <? 10 then acc' else dec_go f (n / 10) acc'
  end.
Definition dec (n : Z) : str := dec_go (S (Z.to_nat n)) n [].

Definition ptok_text (p : ptok) : str :=
  match p with
  | PQ => [63]
  | PF => [37; 115]
  | PNum n => 58 :: dec n
  | PNam n => 58 :: 112 :: dec n
  | PPy n => [37; 40; 112] ++ dec n ++ [41; 115]
  | PErr => []
  end.

(* the placeholder written for the n-th expression (n counted from 1) *)
Definition placeholder (st : paramstyle) (n : Z) : ptok :=
  match st with Qmark => PQ | Format => PF | Numeric => PNum n | Named => PNam n | Pyformat => PPy n end.

Inductive otok : Type := OText (t : str) | OPh (p : ptok).

Fixpoint out_toks (st : paramstyle) (n : Z) (l : list item) : list otok :=
  match l with
  | [] => []
  | IText t :: r => OText t :: out_toks st n r
  | IExpr _ :: r => OPh (placeholder st (n + 1)) :: out_toks st (n + 1) r
  end.

Definition otok_text (o : otok) : str := match o with OText t => t | OPh p => ptok_text p end.
Definition toks_text (l : list otok) : str := flat_map otok_text l.
Definition toks_placeholders (l : list otok) : list ptok :=
  flat_map (fun o => match o with OPh p => [p] | OText _ => [] end) l.

(* the source of the argument object: a tuple display, a dict display (p<N> : expr), or None *)
Inductive argsrc : Type :=
| SrcNone
| SrcTuple (es : list str)
| SrcDict (kvs : list (Z * str)).

Fixpoint number_from (n : Z) (es : list str) : list (Z * str) :=
  match es with [] => [] | e :: r => (n + 1, e) :: number_from (n + 1) r end.

Definition argsrc_of (st : paramstyle) (es : list str) : argsrc :=
  match st with
  | Qmark | Format | Numeric => SrcTuple es
  | Named | Pyformat => SrcDict (number_from 0 es)
  end.

(* Python: s.replace('$$', '$') *)
Fixpoint replace_dd (s : str) : str :=
  match s with
  | a :: t =>
      match t with
      | b :: r => if (a =? 36) && (b =? 36) then 36 :: replace_dd r else a :: replace_dd t
      | [] => s
      end
  | [] => []
  end.

Definition is_fmt (st : paramstyle) : bool := style_in st [Format; Pyformat].

(* if paramstyle in ('format', 'pyformat'): sql = sql.replace('%', '%%')  -- the WHOLE statement, before scanning *)
Definition rewrite (st : paramstyle) (sql : str) : str :=
  if is_fmt st then replace_all 37 [37; 37] sql else sql.

Definition adapted : Type := (str * argsrc)%type.

(* adapt_sql without the cache *)
Definition adapt (st : paramstyle) (sql : str) : result adapted :=
  match items_of (rewrite st sql) with
  | Err e => Err e
  | Ok l =>
      match exprs_of l with
      | [] => Ok (replace_dd sql, SrcNone)                      (* original_sql.replace('$$', '$'), arguments None *)
      | es => Ok (toks_text (out_toks st 0 l), argsrc_of st es)
      end
  end.

(* parse_raw_sql: the items and the expressions; an empty fragment is a TypeError *)
Definition parse_raw (sql : str) : result (list item) :=
  match sql with [] => Err E_TYPE | _ => items_of sql end.

(* ---------------------------------------------------------------------------------------------------------------
   the cache (as of /repo bfddd57):
       result = adapted_sql_cache.get((sql, paramstyle)) ... adapted_sql_cache[(original_sql, paramstyle)] = result
   looked up and stored under the same key, the statement as the caller wrote it.  Most recent entry first; lookup takes the
   first match (dict overwrite).  Nothing is stored when adapt_sql raises. *)
Definition ckey : Type := (str * paramstyle)%type.
Definition ckey_eqb (a b : ckey) : bool := str_eqb (fst a) (fst b) && style_eqb (snd a) (snd b).

Fixpoint cache_get (k : ckey) (c : list (ckey * adapted)) : option adapted :=
  match c with
  | [] => None
  | (k', v) :: r => if ckey_eqb k' k then Some v else cache_get k r
  end.

Definition cached_adapt (c : list (ckey * adapted)) (rq : ckey) : result adapted * list (ckey * adapted) :=
  match cache_get rq c with
  | Some v => (Ok v, c)
  | None =>
      match adapt (snd rq) (fst rq) with
      | Ok v => (Ok v, (rq, v) :: c)
      | Err e => (Err e, c)
      end
  end.

(* a history of requests against one process-wide cache: the answers *)
Fixpoint run_history (c : list (ckey * adapted)) (h : list ckey) : list (result adapted) :=
  match h with
  | [] => []
  | rq :: r => let (a, c') := cached_adapt c rq in a :: run_history c' r
  end.

(* ---------------------------------------------------------------------------------------------------------------
   evaluation of the argument source in the caller's scope (ev : expression text -> value) and what reaches the driver *)
Section Eval.
Variable V : Type.
Variable ev : str -> V.

Definition eval_args (a : argsrc) : option (dbargs V) :=
  match a with
  | SrcNone => None
  | SrcTuple es => Some (ATuple (map ev es))
  | SrcDict kvs => Some (ADict (map (fun kv => (fst kv, ev (snd kv))) kvs))
  end.
End Eval.

End Adapt.

(* ---------------------------------------------------------------------------------------------------------------
   specification side: a statement as the author means it *)
Inductive seg : Type :=
| SText (t : str)                       (* text without $ *)
| SDollar                               (* $$ *)
| SExpr (e : str) (semi : option str).  (* $e   or   $e<ws>;   (the white space ws belongs to the expression text) *)

Definition seg_text (s : seg) : str :=
  match s with
  | SText t => t
  | SDollar => [36; 36]
  | SExpr e None => 36 :: e
  | SExpr e (Some ws) => 36 :: e ++ ws ++ [59]
  end.
Definition render (l : list seg) : str := flat_map seg_text l.

Definition seg_item (s : seg) : item :=
  match s with
  | SText t => IText t
  | SDollar => IText [36]
  | SExpr e None => IExpr e
  | SExpr e (Some ws) => IExpr (e ++ ws)
  end.

(* %-doubling of a segment (what `rewrite` does to the statement, seen segment-wise) *)
Definition dbl_seg (s : seg) : seg :=
  match s with
  | SText t => SText (replace_all 37 [37; 37] t)
  | SDollar => SDollar
  | SExpr e o => SExpr (replace_all 37 [37; 37] e) (match o with Some ws => Some (replace_all 37 [37; 37] ws) | None => None end)
  end.
Definition dbl (st : paramstyle) (l : list seg) : list seg := if is_fmt st then map dbl_seg l else l.

Definition seg_has_expr (s : seg) : bool := match s with SExpr _ _ => true | _ => false end.

(* ---------------------------------------------------------------------------------------------------------------
   concrete character classes: CPython's \w and \s restricted to ASCII (exact there), extended by explicit tables of the
   non-ASCII characters of a case (the correspondence run fills the tables from CPython's re module) *)
Definition ascii_w (c : Z) : bool := is_id_start c || ((48 <=? c) && (c <=? 57)).
Definition ascii_sp (c : Z) : bool := (c =? 32) || ((9 <=? c) && (c <=? 13)) || ((28 <=? c) && (c <=? 31)).
Definition tab_w (extra : list Z) (c : Z) : bool := ascii_w c || existsb (Z.eqb c) extra.
Definition tab_sp (extra : list Z) (c : Z) : bool := ascii_sp c || existsb (Z.eqb c) extra.

(* comparisons for the correspondence run *)
Definition item_eqb (a b : item) : bool :=
  match a, b with IText x, IText y | IExpr x, IExpr y => str_eqb x y | _, _ => false end.
Definition argsrc_eqb (a b : argsrc) : bool :=
  match a, b with
  | SrcNone, SrcNone => true
  | SrcTuple x, SrcTuple y => list_eqb str_eqb x y
  | SrcDict x, SrcDict y => list_eqb (pair_eqb Z.eqb str_eqb) x y
  | _, _ => false
  end.
Definition res_eqb {A} (f : A -> A -> bool) (a b : result A) : bool :=
  match a, b with Ok x, Ok y => f x y | Err x, Err y => Nat.eqb x y | _, _ => false end.
Definition adapted_eqb (a b : adapted) : bool := str_eqb (fst a) (fst b) && argsrc_eqb (snd a) (snd b).
