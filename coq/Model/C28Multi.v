(* C28 - several owners: a world is a list of slots, slot i holding the Json value of one (object, attribute) pair.  In session k the
   owner of slot i is (k, i).  Besides the single-owner operations (Model/C28Tracked.v) a nested container READ from one slot can be
   STORED into another slot (item assignment, append, insert, extend, +=, update, setdefault, |=, or embedded in a new plain document):
   every storing method goes through TrackedValue.make, which builds new Tracked* objects for the receiving owner even when the value
   is already tracked by somebody else (copy on store) -- so the model stores `untrack` of the subtree, wrapped for the new owner, and no
   aliasing between slots arises.  Definitions only. *)
From Coq Require Import ZArith List Bool.
Require Import PonyV.Base.PyBase PonyV.Base.Seg PonyV.Model.C28Tracked.
#[local] Open Scope Z_scope.

(* v = obj.attr; v[p1][p2]... : the subtree a chain of __getitem__ calls returns *)
Fixpoint subtree (p : path) (t : tv) : option tv :=
  match p with
  | [] => Some t
  | KIdx i :: p' =>
      match t with
      | TList _ l => match norm_index (zlen l) i with
                     | Some k => match nth_error l k with Some c => subtree p' c | None => None end
                     | None => None
                     end
      | _ => None
      end
  | KKey k :: p' =>
      match t with
      | TDict _ d => match assoc k d with Some c => subtree p' c | None => None end
      | _ => None
      end
  end.

(* how the value read elsewhere is stored *)
Inductive store :=
| SSetL (i : Z) | SAppend | SInsert (i : Z) | SExtend (aslist : bool) | SIAdd
| SSetD (k : key) | SUpdate (k : key) | SSetDefault (k : key) | SIOr (k : key)
| SEmbed (k k2 : key).                       (* dst[k] = {k2: [value]} : a new plain document that embeds the value *)

Definition store_act (s : store) (v : jv) : act :=
  match s with
  | SSetL i => AL (LSetItem i v) | SAppend => AL (LAppend v) | SInsert i => AL (LInsert i v)
  | SExtend b => AL (LExtend b [v]) | SIAdd => AL (LIAdd [v])
  | SSetD k => AD (DSetItem k v) | SUpdate k => AD (DUpdate [(k, v)]) | SSetDefault k => AD (DSetDefault k v)
  | SIOr k => AD (DIOr [(k, v)])
  | SEmbed k k2 => AD (DSetItem k (JDict [(k2, JList [v])]))
  end.

Inductive wop :=
| WAct (i : nat) (p : path) (a : act)                         (* an operation inside slot i *)
| WCopy (src : nat) (sp : path) (dst : nat) (dp : path) (s : store)   (* x = slot_src[sp]; slot_dst[dp].<store>(x) *)
| WCommit                                                     (* flush / commit: every dirty slot is written *)
| WNewSession (k : nat).                                      (* leave the session, enter session k, load everything again *)

Definition world := list state.

Fixpoint upd (i : nat) (f : state -> state) (w : world) : world :=
  match w, i with
  | [], _ => []
  | st :: w', O => f st :: w'
  | st :: w', S i' => st :: upd i' f w'
  end.

Fixpoint reload_from (k base : nat) (wr : mname -> bool) (w : world) : world :=
  match w with
  | [] => []
  | st :: w' => step wr st (ONewSession (k, base)) :: reload_from k (S base) wr w'
  end.

Section WStep.
Variable wr : mname -> bool.

Definition wstep (w : world) (x : wop) : world :=
  match x with
  | WAct i p a => upd i (fun st => step wr st (OAct p a)) w
  | WCopy src sp dst dp s =>
      match nth_error w src with
      | Some ssrc => match subtree sp (root ssrc) with
                     | Some t => upd dst (fun st => step wr st (OAct dp (store_act s (untrack t)))) w
                     | None => w
                     end
      | None => w
      end
  | WCommit => map commit w
  | WNewSession k => reload_from k 0 wr w
  end.

Definition wrun (ops : list wop) (w : world) : world := fold_left wstep ops w.

Fixpoint wscan (ops : list wop) (w : world) : list world :=
  match ops with [] => [] | x :: ops' => let w' := wstep w x in w' :: wscan ops' w' end.
End WStep.

Fixpoint wload_from (k base : nat) (docs : list jv) : world :=
  match docs with [] => [] | v :: docs' => load (k, base) v :: wload_from k (S base) docs' end.

(* for the correspondence run *)
Fixpoint world_eqb (a b : world) : bool :=
  match a, b with [], [] => true | x :: a', y :: b' => state_eqb x y && world_eqb a' b' | _, _ => false end.
Fixpoint worlds_eqb (a b : list world) : bool :=
  match a, b with [], [] => true | x :: a', y :: b' => world_eqb x y && worlds_eqb a' b' | _, _ => false end.
