(* C01/C02 - a whole query over one entity, `select(<proj> for p in P if <filt>)` (optionally with .limit / offset):
   what the database returns for the SQL built by the translation model, and what the Python comprehension returns.
   A table is a list of rows; a row is an environment (attribute values; the parameter values are shared).
   Definitions only. *)
Require Import PonyV.Base.PyBase PonyV.Model.C01Expr PonyV.Model.C01Sql PonyV.Model.C01Translate PonyV.Model.C01Eqb.

Fixpoint dedup {A} (eqb : A -> A -> bool) (l : list A) : list A :=
  match l with
  | [] => []
  | x :: r => x :: filter (fun y => negb (eqb x y)) (dedup eqb r)
  end.

(* SELECT [DISTINCT] q FROM P WHERE conds, rows in table order *)
Definition sql_rows (d : dname) (distinct : bool) (conds : list qx) (q : qx) (table : list env) : list qv :=
  let l := map (fun en => qeval d (encenv d en) q) (filter (fun en => where_truth d (encenv d en) conds) table) in
  if distinct then dedup qv_eqb l else l.

(* [proj(p) for p in table if filt(p)], as a list, or without repetitions when Pony documents set semantics *)
Definition py_rows (distinct : bool) (filt proj : expr) (table : list env) : list pyv :=
  let l := map (fun en => ref_eval en proj) (filter (fun en => py_truthy filt (ref_eval en filt)) table) in
  if distinct then dedup pyv_eqb l else l.

(* LIMIT n OFFSET k as the three dialects evaluate it: a negative limit means "no limit" on SQLite only *)
Definition sem_limit (d : dname) (limit : Z) (offset : nat) {A} (rows : list A) : list A :=
  let rest := skipn offset rows in
  match d with
  | DSqlite => if limit <? 0 then rest else firstn (Z.to_nat limit) rest
  | _ => firstn (Z.to_nat limit) rest
  end.

(* SQLTranslator.construct_sql_ast: the LIMIT written when only an offset was asked for *)
Definition unbounded_limit (d : dname) : option Z :=
  match d with
  | DSqlite => Some (-1)
  | DMysql => Some 18446744073709551615
  | _ => None                      (* PostgreSQL: `LIMIT null OFFSET k`; Oracle: ROWNUM arithmetic (not modelled) *)
  end.

(* what the statement with that limit section returns *)
Definition offset_only (d : dname) (offset : nat) {A} (rows : list A) : list A :=
  match unbounded_limit d with
  | Some l => sem_limit d l offset rows
  | None => skipn offset rows      (* LIMIT NULL = LIMIT ALL *)
  end.
