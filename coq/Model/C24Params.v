(* C24 - the parameter environment of chained lambda steps (filter / where / order_by with a lambda).  A lambda that captures a
   value is translated once per code object; the captured value travels in Query._vars under the key (filter_num, src, code_key).
   Steps that share one code object (a helper function applied several times) are told apart by the filter number only, which
   Query._process_lambda advances for every step (next_filter_num, clone_passes_filter_num: scanned from /repo, Gen/C24Window.v).
   Definitions only. *)
Require Import PonyV.Base.PyBase PonyV.Gen.C24Window.

Section Params.
Context {A : Type}.

Definition vkey := (nat * nat)%type.                       (* (filter number, code object); src is fixed per code object *)
Definition vkey_eqb (a b : vkey) : bool := Nat.eqb (fst a) (fst b) && Nat.eqb (snd a) (snd b).

Record pquery := {
  pq_rows : list A;                                        (* list(q0) of the query the steps are applied to, in order *)
  pq_filter_num : nat;                                     (* Query._filter_num *)
  pq_vars : vkey -> option Z;                              (* Query._vars *)
  pq_steps : list (vkey * (Z -> A -> bool))                (* conditions of the translator, each reading its parameter by key *)
}.

Definition pq_keep (q : pquery) (x : A) : bool :=
  forallb (fun s => match pq_vars q (fst s) with Some v => snd s v x | None => false end) (pq_steps q).
Definition pq_list (q : pquery) : list A := filter (pq_keep q) (pq_rows q).

Definition pq_base (rows : list A) : pquery := {| pq_rows := rows; pq_filter_num := 0; pq_vars := fun _ => None; pq_steps := [] |}.

(* q.filter(lambda x: p(v, x)) where the lambda is code object `code` and captures the value v *)
Definition process_lambda (code : nat) (p : Z -> A -> bool) (v : Z) (q : pquery) : pquery :=
  let new_num := next_filter_num (pq_filter_num q) in
  let key := (new_num, code) in
  {| pq_rows := pq_rows q;
     pq_filter_num := if clone_passes_filter_num then new_num else pq_filter_num q;
     pq_vars := fun k => if vkey_eqb k key then Some v else pq_vars q k;
     pq_steps := pq_steps q ++ [(key, p)] |}.

(* a chain of steps, each with its own captured value; and the Python counterpart: successive filters of the list *)
Definition step := (nat * (Z -> A -> bool) * Z)%type.
Definition apply_steps (l : list step) (q : pquery) : pquery :=
  fold_left (fun q s => process_lambda (fst (fst s)) (snd (fst s)) (snd s) q) l q.
Definition py_filters (l : list step) (R : list A) : list A :=
  fold_left (fun R s => filter (snd (fst s) (snd s)) R) l R.

End Params.
