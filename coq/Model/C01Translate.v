(* C01/C02 - hand-written model of the monad translation of pony/orm/sqltranslation.py for the grammar of
   Model/C01Expr.v: which monad class an expression becomes (AttrMonad / ConstMonad / ParamMonad / ExprMonad /
   BoolExprMonad / CmpMonad / AndMonad / OrMonad / NotMonad / NoneMonad), its type and `nullable` flag, and the SQL
   AST `getsql()` returns.  Tied to the code by the structural correspondence of check C01 (translator.conditions and
   expr_columns of the real translator on the sqlite / postgres / mysql / oracle providers are compared node for
   node with [tr_filter] / [tr_project]).  Definitions only.

   Source anchors: postAdd..postNot, preCompare, postIfExp, coerce_monads, make_numeric_binop, NumericMixin (__neg__,
   abs, nonzero, negate), make_string_binop, StringMixin (negate, nonzero, len), ListMonad.contains, AttrMonad,
   ParamMonad, ExprMonad, ConstMonad / NoneMonad, BoolExprMonad.negate, CmpMonad (__init__, negate, getsql),
   LogicalBinOpMonad, NotMonad, FuncAbsMonad, FuncLenMonad, FuncCoalesceMonad, minmax, SQLTranslator.init (ifs). *)
Require Import PonyV.Base.PyBase PonyV.Model.C01Expr PonyV.Model.C01Sql.

Inductive mkind : Type := KAttr | KConst | KParam | KExpr.

Inductive monad : Type :=
| MVal (k : mkind) (t : vty) (nullable : bool) (sql : qx)   (* Numeric/String Attr | Const | Param | Expr Monad *)
| MNone                                                      (* NoneMonad                                    *)
| MBoolExpr (sql : qx) (nullable : bool)                     (* BoolExprMonad                                *)
| MCmp (op : cop) (l r : monad)                              (* CmpMonad (operands after coerce_monads)      *)
| MAnd (items : list monad) | MOr (items : list monad)       (* AndMonad / OrMonad (operands after flattening) *)
| MNot (m : monad)                                           (* NotMonad                                     *)
| MErr.                                                      (* the translator raises                        *)

(* monad.type restricted to {int, str, bool}; NoneType and errors have none *)
Definition mvty (m : monad) : option vty :=
  match m with
  | MVal _ t _ _ => Some t
  | MBoolExpr _ _ | MCmp _ _ _ | MAnd _ | MOr _ | MNot _ => Some TBool
  | MNone | MErr => None
  end.

Definition is_boolm (m : monad) : bool := match mvty m with Some TBool => true | _ => false end.
Definition is_err (m : monad) : bool := match m with MErr => true | _ => false end.
Definition is_nonem (m : monad) : bool := match m with MNone => true | _ => false end.

Fixpoint mnullable (m : monad) : bool :=
  match m with
  | MVal _ _ n _ => n
  | MNone => true
  | MBoolExpr _ n => n
  | MCmp _ l r => mnullable l || mnullable r
  | MAnd items | MOr items => existsb mnullable items
  | MNot m => mnullable m
  | MErr => false
  end.

Definition qbin_of (op : cop) : qbin :=
  match op with CEq | CIs => QEq | CNe | CIsNot => QNe | CLt => QLt | CLe => QLe | CGt => QGt | CGe => QGe end.

Fixpoint getsql (m : monad) : qx :=
  match m with
  | MVal _ _ _ sql => sql
  | MNone => QVal QLNone
  | MBoolExpr sql _ => sql
  | MCmp op l r =>
      match op with
      | CIs => QUn QIsNull (getsql l)
      | CIsNot => QUn QIsNotNull (getsql l)
      | _ => QBin (qbin_of op) (getsql l) (getsql r)
      end
  | MAnd items => QAnd (map getsql items)
  | MOr items => QOr (map getsql items)
  | MNot m => QUn QNot (getsql m)
  | MErr => QVal QLNone
  end.

Definition qlit_of (l : lit) : qlit := match l with LInt z => QLInt z | LStr s => QLStr s end.

Section Translate.
Variable d : dname.

(* NumericExprMonad(int, ['TO_INT', m.getsql()[0]], nullable=m.nullable) *)
Definition to_int (m : monad) : monad := MVal KExpr TInt (mnullable m) (QUn QToInt (getsql m)).

(* coerce_monads: (result type, m1, m2) *)
Definition coerce_monads (for_cmp : bool) (m1 m2 : monad) : option vty * monad * monad :=
  match mvty m1, mvty m2 with
  | Some t1, Some t2 =>
      let rt := coerce_vty t1 t2 in
      let numeric := match rt with Some TInt | Some TBool => true | _ => false end in
      let has_bool := vty_eqb t1 TBool || vty_eqb t2 TBool in
      let rt_is_bool := match rt with Some TBool => true | _ => false end in
      if numeric && has_bool && (negb rt_is_bool || negb for_cmp) && pg d
      then (Some TInt, (if vty_eqb t1 TBool then to_int m1 else m1), (if vty_eqb t2 TBool then to_int m2 else m2))
      else (rt, m1, m2)
  | _, _ => (None, m1, m2)
  end.

(* are_comparable_types for op in ==, != and for the ordering operators, on {int, str, bool} *)
Definition comparable (ordering : bool) (t1 t2 : vty) : bool :=
  match t1, t2 with
  | TStr, TStr => true
  | TStr, _ | _, TStr => negb ordering          (* int == str is accepted by are_comparable_types *)
  | _, _ => true
  end.

(* CmpMonad.__init__ *)
Definition mk_cmp (op : cop) (l r : monad) : monad :=
  if is_err l || is_err r then MErr else
  let '(l, r) := if is_nonem l then (r, l) else (l, r) in
  if is_nonem r then
    if is_nonem l then MErr else
    match op with
    | CEq | CIs => MCmp CIs l MNone
    | CNe | CIsNot => MCmp CIsNot l MNone
    | _ => MErr
    end
  else
    let op := match op with CIs => CEq | CIsNot => CNe | o => o end in
    match mvty l, mvty r with
    | Some t1, Some t2 =>
        if comparable (is_ordering op) t1 t2
        then let '(_, l', r') := coerce_monads true l r in MCmp op l' r'
        else MErr
    | _, _ => MErr
    end.

Definition neg_cop (op : cop) : cop :=
  match op with CEq => CNe | CNe => CEq | CLt => CGe | CGe => CLt | CLe => CGt | CGt => CLe | CIs => CIsNot | CIsNot => CIs end.

Definition empty_str : qx := QVal (QLStr []).
Definition zero : qx := QVal (QLInt 0).

(* NumericMixin.nonzero / StringMixin.nonzero / BoolMonad.nonzero / NoneMonad.nonzero *)
Definition m_nonzero (m : monad) : monad :=
  match m with
  | MVal _ TStr _ sql => MBoolExpr (if oracle d then QUn QIsNotNull sql else QBin QNe sql empty_str) false
  | MVal _ t _ sql => MBoolExpr (if pg d && vty_eqb t TBool then sql else QBin QNe sql zero) false
  | _ => m
  end.

(* NumericMixin.negate / StringMixin.negate / BoolExprMonad.negate / CmpMonad.negate / Monad.negate / NotMonad.negate /
   NoneMonad.negate *)
Definition m_negate (m : monad) : monad :=
  match m with
  | MVal k TStr n sql =>
      if oracle d then MBoolExpr (QUn QIsNull sql) false
      else if n then
        match k with
        | KAttr => MBoolExpr (QOr [QBin QEq sql empty_str; QUn QIsNull sql]) false
        | _ => MBoolExpr (QBin QEq (QCoalesce [sql; empty_str]) empty_str) false
        end
      else MBoolExpr (QBin QEq sql empty_str) false
  | MVal k t n sql =>
      let pg_bool := pg d && vty_eqb t TBool in
      let plain := if pg_bool then QUn QNot sql else QBin QEq sql zero in
      if n then
        match k with
        | KAttr => MBoolExpr (QOr [plain; QUn QIsNull sql]) false
        | _ => if pg_bool then MBoolExpr (QUn QNot (QCoalesce [sql; QVal (QLBool true)])) false
               else MBoolExpr (QBin QEq (QCoalesce [sql; zero]) zero) false
        end
      else MBoolExpr plain false
  | MBoolExpr sql n =>
      match sql with
      | QIn neg a items => MBoolExpr (QIn (negb neg) a items) n
      | QUn QIsNull a => MBoolExpr (QUn QIsNotNull a) n
      | QUn QIsNotNull a => MBoolExpr (QUn QIsNull a) n
      | _ => MNot m
      end
  | MCmp op l r => MCmp (neg_cop op) l r
  | MAnd _ | MOr _ => MNot m
  | MNot m' => m'
  | MNone => MNone
  | MErr => MErr
  end.

(* LogicalBinOpMonad.__init__ *)
Definition logical_items (is_and : bool) (ms : list monad) : list monad :=
  flat_map (fun m =>
    if negb (is_boolm m) then [m_nonzero m]
    else match m, is_and with
         | MAnd its, true => its
         | MOr its, false => its
         | _, _ => [m]
         end) ms.

Definition m_logical (is_and : bool) (ms : list monad) : monad :=
  if existsb (fun m => is_err m || is_nonem m) ms then MErr
  else if is_and then MAnd (logical_items true ms) else MOr (logical_items false ms).

Definition qbin_of_aop (op : aop) : qbin :=
  match op with Add => QAdd | Sub => QSub | Mul => QMul | FloorDiv => QFloorDiv | Mod => QMod | TrueDiv => QDiv end.

(* make_numeric_binop *)
Definition m_arith (op : aop) (l r : monad) : monad :=
  match l with
  | MVal _ tl _ _ =>
      if is_numeric tl then
        match coerce_monads false l r with
        | (Some rt, l', r') => if is_numeric rt then MVal KExpr rt true (QBin (qbin_of_aop op) (getsql l') (getsql r')) else MErr
        | _ => MErr
        end
      else MErr
  | _ => MErr
  end.

(* NumericMixin.__neg__ / abs *)
Definition m_unary (op : qun) (m : monad) : monad :=
  match m with
  | MVal _ t n sql => if is_numeric t then MVal KExpr t n (QUn op sql) else MErr
  | _ => MErr
  end.

(* make_string_binop('+', 'CONCAT') *)
Definition m_concat (l r : monad) : monad :=
  match l, r with
  | MVal _ TStr n1 s1, MVal _ TStr n2 s2 => MVal KExpr TStr (n1 || n2) (QBin QConcat s1 s2)
  | _, _ => MErr
  end.

(* StringMixin.len / StringConstMonad.len *)
Definition m_len (m : monad) : monad :=
  match m with
  | MVal KConst TStr _ (QVal (QLStr s)) => MVal KConst TInt false (QVal (QLInt (zlen s)))
  | MVal _ TStr _ sql => MVal KExpr TInt true (QUn QLen sql)
  | _ => MErr
  end.

(* ListMonad.contains for a list of literal constants *)
Definition m_in (neg : bool) (x : monad) (items : list lit) : monad :=
  match x with
  | MVal _ t n sql =>
      if forallb (fun l => comparable false t (lit_vty l)) items
      then MBoolExpr (QIn neg sql (map (fun l => QVal (qlit_of l)) items)) n
      else MErr
  | _ => MErr
  end.

(* postIfExp *)
Definition m_if (c t f : monad) : monad :=
  if is_err c || is_err t || is_err f || is_nonem c then MErr else
  let c' := if is_boolm c then Some c
            else match c with MVal _ _ _ _ => Some (m_nonzero c) | _ => None end in      (* a value as test: tested for truth *)
  match c', mvty t, mvty f with
  | Some c', Some t1, Some t2 =>
      match coerce_vty t1 t2 with
      | Some rt => MVal KExpr rt (mnullable c' || mnullable t || mnullable f) (QCase (getsql c') (getsql t) (getsql f))
      | None => MErr
      end
  | _, _, _ => MErr
  end.

(* FuncCoalesceMonad.call *)
Fixpoint coalesce_type (t : vty) (ms : list monad) : option vty :=
  match ms with
  | [] => Some t
  | m :: r => match mvty m with
              | Some t2 => if vty_eqb t t2 then coalesce_type t r
                           else match coerce_vty t t2 with Some t3 => coalesce_type t3 r | None => None end
              | None => None
              end
  end.

Definition m_coalesce (ms : list monad) : monad :=
  match ms with
  | m :: (_ :: _) as r =>
      match mvty m with
      | Some t => match coalesce_type t r with
                  | Some rt => MVal KExpr rt (forallb mnullable ms) (QCoalesce (map getsql ms))
                  | None => MErr
                  end
      | None => MErr
      end
  | _ => MErr
  end.

(* minmax *)
Definition m_minmax (is_max : bool) (ms : list monad) : monad :=
  match ms with
  | m :: (_ :: _) as r =>
      match mvty m with
      | Some t =>
          match coalesce_type t r with          (* the same left-to-right coerce_types chain *)
          | Some rt =>
              let ms' := if is_numeric rt && pg d
                         then map (fun a => match mvty a with Some TBool => to_int a | _ => a end) ms
                         else ms in
              MVal KExpr rt (existsb mnullable ms) (QMinMax is_max (map getsql ms'))
          | None => MErr
          end
      | None => MErr
      end
  | _ => MErr
  end.

Fixpoint tr (e : expr) : monad :=
  match e with
  | EAttr a => MVal KAttr (a_ty a) (a_null a) (QCol (a_id a))
  | EInt z => MVal KConst TInt false (QVal (QLInt z))
  | EStr s => MVal KConst TStr false (QVal (QLStr s))
  | EBool b => MVal KConst TBool false (QVal (QLBool b))
  | ENone => MNone
  | EParam i (Some t) => MVal KParam t false (QParam i)
  | EParam _ None => MNone
  | ECol i t n => MVal KExpr t n (QCol i)              (* ExprMonad.new(t, <scalar subquery>, nullable=n) *)
  | ESub i => MBoolExpr (QCol i) false               (* BoolExprMonad(['EXISTS' | 'IN', ...], nullable=False) *)
  | EArith op a b => m_arith op (tr a) (tr b)
  | ENeg a => m_unary QNeg (tr a)
  | EAbs a => m_unary QAbs (tr a)
  | EConcat a b => m_concat (tr a) (tr b)
  | ELen a => m_len (tr a)
  | ECmp op a b => mk_cmp op (tr a) (tr b)
  | EAnd a b => m_logical true [tr a; tr b]
  | EOr a b => m_logical false [tr a; tr b]
  | ENot a => m_negate (tr a)
  | EIn neg a items => m_in neg (tr a) items
  | EIf c t f => m_if (tr c) (tr t) (tr f)
  | ECoalesce args => m_coalesce (map tr args)
  | EMinMax is_max args => m_minmax is_max (map tr args)
  end.

(* SQLTranslator.init, `for if_ in generator.ifs`: the WHERE conditions contributed by one `if` *)
Definition tr_filter (e : expr) : option (list qx) :=
  let m := tr e in
  let m' := if is_boolm m then m else m_nonzero m in
  match m' with
  | MErr | MNone => None
  | MAnd items => Some (map getsql items)
  | _ => Some [getsql m']
  end.

(* expr_columns of a scalar result expression *)
Definition tr_project (e : expr) : option qx :=
  match tr e with MErr | MNone => None | m => Some (getsql m) end.
End Translate.

(* the DISTINCT decision of SQLTranslator.init for a query over the single entity P with primary key attribute
   [pk]: a scalar result list is DISTINCT unless the primary key is among the result expressions *)
Definition is_attr_id (id : nat) (e : expr) : bool := match e with EAttr a => Nat.eqb (a_id a) id | _ => false end.
Definition tr_distinct (pk : nat) (proj : list expr) : bool :=
  match proj with [] => false | _ => negb (existsb (is_attr_id pk) proj) end.
