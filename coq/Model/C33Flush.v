(* C33 - model of SessionCache.flush (rounds), Entity._save_ with _save_principal_objects_, call_after_save_hooks and
   Entity.flush (single object) of pony/orm/core.py, with the lifecycle hooks as oracle functions that may modify any
   object or create objects.  Definitions only; the hooks are a Section variable (never an axiom). *)
Require Import PonyV.Base.PyBase.
Open Scope nat_scope.

Inductive status : Type := SLoaded | SCreated | SModified | SMarked | SInserted | SUpdated | SDeleted | SCancelled.
Inductive kind : Type := KIns | KUpd | KDel.

Definition kind_eqb (a b : kind) : bool :=
  match a, b with KIns, KIns | KUpd, KUpd | KDel, KDel => true | _, _ => false end.

(* obj._status_ in ('created', 'modified', 'marked_to_delete'): what _before_save_ / _save_ dispatch on *)
Definition pending_kind (s : status) : option kind :=
  match s with SCreated => Some KIns | SModified => Some KUpd | SMarked => Some KDel | _ => None end.
Definition saved_status (k : kind) : status :=
  match k with KIns => SInserted | KUpd => SUpdated | KDel => SDeleted end.
Definition clean (s : status) : bool :=
  match s with SLoaded | SInserted | SUpdated => true | _ => false end.

Record obj : Type := mkobj {
  o_status : status;
  o_val : nat;              (* version of the in-memory attribute values *)
  o_dbval : option nat;     (* version last written to the database *)
  o_princ : list nat        (* objects referenced through this object's foreign-key columns *)
}.
Definition no_obj : obj := mkobj SCancelled 0 None [].

Inductive ev : Type :=
| EB (k : kind) (o : nat)    (* before_insert / before_update / before_delete of object o *)
| ES (k : kind) (o : nat)    (* INSERT / UPDATE / DELETE statement of object o *)
| EA (k : kind) (o : nat).   (* after_insert / after_update / after_delete *)

(* what a hook body may do (reading is invisible) *)
Inductive action : Type :=
| AModify (o : nat)              (* assign an attribute of object o (the hook's own object or another one) *)
| ACreate (princ : list nat).    (* create an object whose foreign keys refer to princ *)

Record state : Type := mkst {
  objs : nat -> obj;
  next : nat;                    (* ids below next exist *)
  ots : list nat;                (* cache.objects_to_save (None slots omitted) *)
  saved : list (nat * kind);     (* cache.saved_objects *)
  modified : bool;               (* cache.modified *)
  log : list ev
}.

Definition upd (f : nat -> obj) (o : nat) (x : obj) : nat -> obj := fun i => if Nat.eqb i o then x else f i.

Definition add_log (e : ev) (s : state) : state :=
  mkst (objs s) (next s) (ots s) (saved s) (modified s) (log s ++ [e]).

(* Attribute.__set__ / Entity.__init__ as far as the save bookkeeping is concerned *)
Definition apply_action (s : state) (a : action) : state :=
  match a with
  | AModify o =>
      let x := objs s o in
      if clean (o_status x) then
        mkst (upd (objs s) o (mkobj SModified (S (o_val x)) (o_dbval x) (o_princ x))) (next s) (ots s ++ [o]) (saved s) true (log s)
      else match o_status x with
           | SCreated | SModified =>
               mkst (upd (objs s) o (mkobj (o_status x) (S (o_val x)) (o_dbval x) (o_princ x))) (next s) (ots s) (saved s) (modified s) (log s)
           | _ => s       (* deleted / unknown object: the assignment raises inside the hook; not modelled as a change *)
           end
  | ACreate ps =>
      mkst (upd (objs s) (next s) (mkobj SCreated 1 None ps)) (S (next s)) (ots s ++ [next s]) (saved s) true (log s)
  end.

(* the statement of object o: _save_created_ / _save_updated_ / _save_deleted_ and the bookkeeping at the end of _save_ *)
Definition write (o : nat) (k : kind) (s : state) : state :=
  let x := objs s o in
  mkst (upd (objs s) o (mkobj (saved_status k) (o_val x) (match k with KDel => None | _ => Some (o_val x) end) (o_princ x)))
       (next s) (filter (fun x => negb (Nat.eqb x o)) (ots s))     (* objects_to_save[save_pos] = None *)
       (saved s ++ [(o, k)]) (modified s) (log s ++ [ES k o]).

Section Flush.
  (* hooks true k o s = what before_<k> of object o does in state s; hooks false k o s = after_<k> *)
  Variable hooks : bool -> kind -> nat -> state -> list action.

  Definition run_hook (before : bool) (k : kind) (o : nat) (s : state) : state :=
    fold_left apply_action (hooks before k o s) s.

  (* phase 1:  for obj in cache.objects_to_save: obj._before_save_()      -- the list can grow during the iteration *)
  Fixpoint before_loop (fuel : nat) (todo : list nat) (s : state) : option state :=
    match fuel with
    | O => None
    | S f =>
        match todo with
        | [] => Some s
        | o :: rest =>
            match pending_kind (o_status (objs s o)) with
            | None => before_loop f rest s
            | Some k =>
                let s1 := add_log (EB k o) s in
                let s2 := run_hook true k o s1 in
                before_loop f (rest ++ skipn (length (ots s1)) (ots s2)) s2
            end
        end
    end.

  (* Entity._save_ : principals first (_save_principal_objects_: referenced objects that are still 'created'), then the
     statement.  fuel bounds the recursion (a cyclic chain is UnresolvableCyclicDependency in the implementation). *)
  Fixpoint save_obj (fuel : nat) (o : nat) (s : state) : option state :=
    match fuel with
    | O => None
    | S f =>
        match pending_kind (o_status (objs s o)) with
        | None => Some s
        | Some k =>
            let ps := match k with KDel => [] | _ => o_princ (objs s o) end in
            let r := fold_left (fun acc p => match acc with
                                             | None => None
                                             | Some s' => match o_status (objs s' p) with SCreated => save_obj f p s' | _ => Some s' end
                                             end) ps (Some s) in
            match r with
            | None => None
            | Some s1 => match pending_kind (o_status (objs s1 o)) with
                         | Some k' => Some (write o k' s1)
                         | None => Some s1
                         end
            end
        end
    end.

  (* phase 2:  for obj in cache.objects_to_save: if obj is not None: obj._save_() *)
  Definition save_loop (fuel : nat) (s : state) : option state :=
    fold_left (fun acc o => match acc with None => None | Some s' => save_obj fuel o s' end) (ots s) (Some s).

  (* call_after_save_hooks *)
  Definition after_loop (s : state) : state :=
    let sv := saved s in
    fold_left (fun s' ok => run_hook false (snd ok) (fst ok) (add_log (EA (snd ok) (fst ok)) s')) sv
              (mkst (objs s) (next s) (ots s) [] (modified s) (log s)).

  Definition round (fuel : nat) (s : state) : option state :=
    match before_loop fuel (ots s) s with
    | None => None
    | Some s1 =>
        match save_loop fuel s1 with
        | None => None
        | Some s2 => Some (after_loop (mkst (objs s2) (next s2) [] (saved s2) false (log s2)))
        end
    end.

  Inductive result : Type := Ok (s : state) | ErrDepth | ErrFuel.

  (* SessionCache.flush: for i in range(rounds): if not cache.modified: return; <round>   else: TransactionError *)
  Fixpoint flush (rounds fuel : nat) (s : state) : result :=
    match rounds with
    | O => if modified s then ErrDepth else Ok s
    | S r => if negb (modified s) then Ok s
             else match round fuel s with None => ErrFuel | Some s' => flush r fuel s' end
    end.

  (* Entity.flush(obj): before hook of obj, obj._save_() (principals included), call_after_save_hooks *)
  Definition obj_flush (fuel : nat) (o : nat) (s : state) : option state :=
    match pending_kind (o_status (objs s o)) with
    | None => Some s
    | Some k =>
        let s1 := run_hook true k o (add_log (EB k o) s) in
        match save_obj fuel o s1 with
        | None => None
        | Some s2 => Some (after_loop s2)
        end
    end.
  (* ---- the repair proposed in proposed_fixes/C33-obj-flush-principal-before-hooks.diff:  Entity.flush calls
     obj._save_(call_before_hooks=True); _save_principal_objects_ then calls val._before_save_() right before val._save_(..)
     for every principal that is still 'created'.  deps = dependent_objects (a cyclic chain is an error). *)
  Fixpoint save_obj_h (fuel : nat) (deps : list nat) (o : nat) (s : state) : option state :=
    match fuel with
    | O => None
    | S f =>
        match pending_kind (o_status (objs s o)) with
        | None => Some s
        | Some k =>
            if existsb (Nat.eqb o) deps then None           (* UnresolvableCyclicDependency *)
            else
            let ps := match k with KDel => [] | _ => o_princ (objs s o) end in
            let r := fold_left (fun acc p => match acc with
                                             | None => None
                                             | Some s' => match o_status (objs s' p) with
                                                          | SCreated => save_obj_h f (o :: deps) p (run_hook true KIns p (add_log (EB KIns p) s'))
                                                          | _ => Some s'
                                                          end
                                             end) ps (Some s) in
            match r with
            | None => None
            | Some s1 => match pending_kind (o_status (objs s1 o)) with
                         | Some k' => Some (write o k' s1)
                         | None => Some s1
                         end
            end
        end
    end.

  Definition obj_flush_h (fuel : nat) (o : nat) (s : state) : option state :=
    match pending_kind (o_status (objs s o)) with
    | None => Some s
    | Some k =>
        let s1 := run_hook true k o (add_log (EB k o) s) in
        match save_obj_h fuel [] o s1 with
        | None => None
        | Some s2 => Some (after_loop s2)
        end
    end.
End Flush.

(* ------------------------------------------------------------------ specification side: per-object phase automaton *)
Inductive ph : Type := Idle | PB (k : kind) | PS (k : kind) | Bad.

Definition step (o : nat) (p : ph) (e : ev) : ph :=
  match e with
  | EB k o' => if Nat.eqb o' o then match p with Idle => PB k | _ => Bad end else p
  | ES k o' => if Nat.eqb o' o then match p with PB k' => if kind_eqb k k' then PS k else Bad | _ => Bad end else p
  | EA k o' => if Nat.eqb o' o then match p with PS k' => if kind_eqb k k' then Idle else Bad | _ => Bad end else p
  end.
(* Idle exactly when the events of object o form a sequence of complete (before_k, statement_k, after_k) triples *)
Definition phase (l : list ev) (o : nat) : ph := fold_left (step o) l Idle.

Definition pending (s : state) (o : nat) : Prop := pending_kind (o_status (objs s o)) <> None.

(* executable comparisons for the correspondence run *)
Definition ev_eqb (a b : ev) : bool :=
  match a, b with
  | EB k o, EB k' o' | ES k o, ES k' o' | EA k o, EA k' o' => kind_eqb k k' && Nat.eqb o o'
  | _, _ => false
  end.
Fixpoint log_eqb (a b : list ev) : bool :=
  match a, b with [], [] => true | x :: r, y :: t => ev_eqb x y && log_eqb r t | _, _ => false end.
Definition status_eqb (a b : status) : bool :=
  match a, b with
  | SLoaded, SLoaded | SCreated, SCreated | SModified, SModified | SMarked, SMarked | SInserted, SInserted
  | SUpdated, SUpdated | SDeleted, SDeleted | SCancelled, SCancelled => true
  | _, _ => false
  end.
Fixpoint statuses_eqb (f : nat -> obj) (n : nat) (l : list status) : bool :=
  match l with [] => true | x :: r => status_eqb (o_status (f n)) x && statuses_eqb f (S n) r end.
Definition optnat_eqb (a b : option nat) : bool :=
  match a, b with None, None => true | Some x, Some y => Nat.eqb x y | _, _ => false end.
Fixpoint dbvals_eqb (f : nat -> obj) (n : nat) (l : list (option nat)) : bool :=
  match l with [] => true | x :: r => optnat_eqb (o_dbval (f n)) x && dbvals_eqb f (S n) r end.
Definition result_log (r : result) : list ev := match r with Ok s => log s | _ => [] end.
Fixpoint all_idle (l : list ev) (n : nat) : bool :=
  match n with O => true | S m => match phase l m with Idle => all_idle l m | _ => false end end.

(* hooks given as a table: (before?, kind, object, how many hook calls of this object happened before) -> actions *)
Definition count_calls (l : list ev) (o : nat) : nat :=
  length (filter (fun e => match e with EB _ o' | EA _ o' => Nat.eqb o o' | _ => false end) l).
Definition table_hooks (t : list (bool * kind * nat * nat * list action)) (before : bool) (k : kind) (o : nat) (s : state) : list action :=
  (* the current call is already in the log when the hook runs *)
  let n := count_calls (log s) o in
  match find (fun r => match r with (b, k', o', n', _) => Bool.eqb b before && kind_eqb k k' && Nat.eqb o o' && Nat.eqb (S n') n end) t with
  | Some (_, _, _, _, acts) => acts
  | None => []
  end.

Fixpoint failing_from (n : nat) (l : list bool) : list nat :=
  match l with [] => [] | b :: r => (if b then [] else [n]) ++ failing_from (S n) r end.
Definition failing (l : list bool) : list nat := failing_from 0 l.
