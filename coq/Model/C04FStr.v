(* C04 - the text of an f-string body (what stands between the quotes), character level.
   A value is a list of parts: literal text, or a replacement field {src!conv:spec} whose expression source is opaque
   text without braces, '!' and ':' (the expression itself is handled at token level by Model/C04Expr.v / C04Parse.v).
   print_f esc keep: esc = literal braces are doubled, keep = the format spec is printed.  The unchanged postJoinedStr
   is print_f false false.  parse_f is Python's reading of the body: a one-character-at-a-time scanner.  Definitions only. *)
From Coq Require Import ZArith List Bool.
Import ListNotations.
Require Import PonyV.Model.C04Expr.
Open Scope Z_scope.

Inductive fpart := FLit (s : str) | FField (src : str) (conv : option Z) (spec : option str).

Definition is_lbrace (c : Z) : bool := c =? 123.
Definition is_rbrace (c : Z) : bool := c =? 125.
Definition is_bang (c : Z) : bool := c =? 33.
Definition is_colon (c : Z) : bool := c =? 58.
(* characters of an (opaque) expression source / of a format spec *)
Definition plain (c : Z) : bool := negb (is_lbrace c || is_rbrace c || is_bang c || is_colon c).
Definition plain_spec (c : Z) : bool := negb (is_lbrace c || is_rbrace c).

Definition print_field (keep : bool) (src : str) (conv : option Z) (spec : option str) : str :=
  [123] ++ src ++ match conv with Some c => [33; c] | None => [] end
        ++ match (if keep then spec else None) with Some s => 58 :: s | None => [] end ++ [125].

Fixpoint print_f (esc keep : bool) (v : list fpart) : str :=
  match v with
  | [] => []
  | FLit s :: r => (if esc then escape_braces s else s) ++ print_f esc keep r
  | FField src conv spec :: r => print_field keep src conv spec ++ print_f esc keep r
  end.

(* scanner states; accumulators are reversed *)
Inductive fmode :=
| MLit (acc : str)                           (* in literal text *)
| MOpen (acc : str)                          (* a '{' seen in literal text *)
| MClose (acc : str)                         (* a '}' seen in literal text *)
| MSrc (src : str)                           (* in the expression of a field *)
| MConv (src : str)                          (* after '!' *)
| MConvDone (src : str) (c : Z)              (* after the conversion character *)
| MSpec (src : str) (conv : option Z) (sp : str).   (* in the format spec *)

Definition flush (acc : str) (out : list fpart) : list fpart :=
  match acc with [] => out | _ => FLit (rev acc) :: out end.

Fixpoint scan (m : fmode) (out : list fpart) (s : str) : option (list fpart) :=
  match s with
  | [] => match m with MLit acc => Some (rev (flush acc out)) | _ => None end
  | c :: r =>
      match m with
      | MLit acc => if is_lbrace c then scan (MOpen acc) out r
                    else if is_rbrace c then scan (MClose acc) out r
                    else scan (MLit (c :: acc)) out r
      | MOpen acc => if is_lbrace c then scan (MLit (c :: acc)) out r
                     else if plain c then scan (MSrc [c]) (flush acc out) r
                     else None
      | MClose acc => if is_rbrace c then scan (MLit (c :: acc)) out r else None
      | MSrc src => if is_rbrace c then scan (MLit []) (FField (rev src) None None :: out) r
                    else if is_bang c then scan (MConv src) out r
                    else if is_colon c then scan (MSpec src None []) out r
                    else if plain c then scan (MSrc (c :: src)) out r
                    else None
      | MConv src => scan (MConvDone src c) out r
      | MConvDone src cv => if is_rbrace c then scan (MLit []) (FField (rev src) (Some cv) None :: out) r
                            else if is_colon c then scan (MSpec src (Some cv) []) out r
                            else None
      | MSpec src conv sp => if is_rbrace c then scan (MLit []) (FField (rev src) conv (Some (rev sp)) :: out) r
                             else if plain_spec c then scan (MSpec src conv (c :: sp)) out r
                             else None
      end
  end.

Definition parse_f (s : str) : option (list fpart) := scan (MLit []) [] s.

(* normal form of an f-string value (what Python's AST holds): no empty literal, no two literals in a row,
   field sources non-empty and free of braces, '!' and ':', specs free of braces *)
Definition field_ok (src : str) (spec : option str) : bool :=
  match src with [] => false | _ => forallb plain src end && match spec with Some s => forallb plain_spec s | None => true end.

Fixpoint normal_f (prev_lit : bool) (v : list fpart) : bool :=
  match v with
  | [] => true
  | FLit s :: r => negb prev_lit && match s with [] => false | _ => true end && normal_f true r
  | FField src _ spec :: r => field_ok src spec && normal_f false r
  end.

(* what the unchanged code prints faithfully: no brace in a literal, no format spec *)
Fixpoint brace_free (v : list fpart) : bool :=
  match v with
  | [] => true
  | FLit s :: r => forallb plain_spec s && brace_free r
  | FField _ _ _ :: r => brace_free r
  end.
Fixpoint no_spec (v : list fpart) : bool :=
  match v with
  | [] => true
  | FLit _ :: r => no_spec r
  | FField _ _ spec :: r => match spec with None => true | Some _ => false end && no_spec r
  end.
