(* C31 - which primary keys to_dict can report.  Objects are numbers; `pk o` is the key an object has in the session (None: created
   in this session with an automatic key and not saved yet); `assign o` is the key the database gives it when it is saved.
   Whether Entity.to_dict / Bag.to_dict save the whole session first is scanned from /repo (Gen/C31Reduce.v).  Definitions only. *)
Require Import PonyV.Base.PyBase PonyV.Model.C31Codec PonyV.Gen.C31Reduce.

Section Flush.
Context {K : Type}.
Variable assign : nat -> K.
Variable pk : nat -> option K.

(* key of o as seen after a flush that saves every pending object (whole = true) or only the objects in `scope` *)
Definition pk_after_flush (whole : bool) (scope : nat -> bool) (o : nat) : option K :=
  match pk o with
  | Some k => Some k
  | None => if whole || scope o then Some (assign o) else None
  end.

(* Entity.to_dict(with_collections=True): the keys reported for the members of a collection *)
Definition reported_members (scope : nat -> bool) (members : list nat) : list (option K) :=
  map (pk_after_flush to_dict_flushes_session scope) members.

(* Bag.to_dict: the dictionary keys of the objects it reports *)
Definition bag_result_keys (objs : list nat) : list (option K) :=
  map (pk_after_flush bag_to_dict_flushes_session (fun _ => false)) objs.

(* Database.to_json: the "pk" written for the instances of the data section and the keys of the objects section *)
Definition db_to_json_keys (objs : list nat) : list (option K) :=
  map (pk_after_flush db_to_json_flushes_session (fun _ => false)) objs.

Definition final_key (o : nat) : K := match pk o with Some k => k | None => assign o end.

End Flush.

Fixpoint ozlist_eqb (a b : list (option Z)) : bool :=
  match a, b with
  | [], [] => true
  | Some x :: r, Some y :: s => (x =? y) && ozlist_eqb r s
  | None :: r, None :: s => ozlist_eqb r s
  | _, _ => false
  end.
