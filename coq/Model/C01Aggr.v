(* C01/C02 - an aggregate as the whole result of a query over one entity, without GROUP BY:

       select(count() for p in P if c)          COUNT( * )
       select(count(p) for p in P if c)         COUNT(DISTINCT p.id)
       select(count(e) for p in P if c)         COUNT(DISTINCT e)            e of type int / str
       select(sum(e) for p in P if c)           coalesce(SUM(e), 0)          e of type int / bool; sum(distinct(e)) -> SUM(DISTINCT e)
       select(avg(e) for p in P if c)           AVG(e)                       likewise
       select(min(e) / max(e) for p in P if c)  MIN(e) / MAX(e)              e of type int / str

   The scalar expression e and the condition c are those of Model/C01Expr.v, translated by Model/C01Translate.v; this file
   adds the aggregate node the translator emits (Monad.count / Monad.aggregate, FuncCountMonad: ['COUNT', None],
   ['COUNT', True, x], ['SUM' | 'AVG', distinct, x], ['MIN' | 'MAX', False, x]; the `coalesce(.., 0)` around SUM is written by
   the SQL builder), the SQL meaning of the aggregate over the rows the WHERE keeps, and the Python meaning as documented
   for Pony's aggregate functions: None values are skipped; sum of nothing is 0; min / max / avg of nothing is None;
   count(e) counts the different non-None values.  The average is kept as the exact quotient (sum, count).  Definitions only. *)
Require Import PonyV.Base.PyBase PonyV.Model.C01Expr PonyV.Model.C01Sql PonyV.Model.C01Translate PonyV.Model.C01Eqb
               PonyV.Model.C01Query.

Inductive afn : Type := FCount | FSum | FMin | FMax | FAvg.

Inductive aggr : Type :=
| GCountRows                                   (* count()  *)
| GCountObj                                    (* count(p) *)
| GAgg (f : afn) (distinct : bool) (e : expr). (* count(e) | sum(e) | sum(distinct(e)) | min(e) | max(e) | avg(e) | avg(distinct(e)) *)

Inductive qaggr : Type :=
| QCountAll                                    (* ['COUNT', None]           *)
| QAgg (f : afn) (distinct : bool) (q : qx).   (* [f, distinct, q]          *)

Definition aggr_ty_ok (f : afn) (t : vty) : bool :=
  match f, t with
  | (FCount | FMin | FMax), (TInt | TStr) => true
  | (FSum | FAvg), (TInt | TBool) => true
  | _, _ => false
  end.
(* count(e) is always COUNT(DISTINCT e); min / max never carry DISTINCT *)
Definition dist_ok (f : afn) (distinct : bool) : bool :=
  match f with FCount => distinct | FMin | FMax => negb distinct | FSum | FAvg => true end.

Definition tr_aggr (d : dname) (pk : nat) (g : aggr) : option qaggr :=
  match g with
  | GCountRows => Some QCountAll
  | GCountObj => Some (QAgg FCount true (QCol pk))
  | GAgg f distinct e =>
      match ty_of e, tr_project d e with
      | Some (TV t), Some q => if aggr_ty_ok f t && dist_ok f distinct then Some (QAgg f distinct q) else None
      | _, _ => None
      end
  end.

Definition afn_eqb (a b : afn) : bool :=
  match a, b with FCount, FCount | FSum, FSum | FMin, FMin | FMax, FMax | FAvg, FAvg => true | _, _ => false end.
Definition oqaggr_eqb (a : option qaggr) (b : qaggr) : bool :=
  match a, b with
  | Some QCountAll, QCountAll => true
  | Some (QAgg f s q), QAgg f' s' q' => afn_eqb f f' && Bool.eqb s s' && qx_eqb q q'
  | _, _ => false
  end.

(* ------------------------------------------------------------------------------------------- SQL side *)
Fixpoint ints_of (l : list qv) : option (list Z) :=
  match l with
  | [] => Some []
  | IntV z :: r => match ints_of r with Some zs => Some (z :: zs) | None => None end
  | _ :: _ => None                              (* SUM / AVG of a string, or of a PostgreSQL boolean: no such function *)
  end.
Definition zsum (l : list Z) : Z := fold_right Z.add 0 l.

(* the aggregate over the values of its argument on the rows the WHERE keeps *)
Definition qaggr_vals (f : afn) (distinct : bool) (vals : list qv) : qv :=
  if existsb is_bad vals then ErrV
  else
    let nn := filter (fun v => negb (is_null v)) vals in            (* aggregates skip NULL *)
    let l := if distinct then dedup qv_eqb nn else nn in
    match f with
    | FCount => IntV (Z.of_nat (length l))
    | FSum =>
        match ints_of l with
        | Some zs => let s := match zs with [] => NullV | _ => IntV (zsum zs) end in     (* SUM over no rows is NULL ... *)
                     match s with NullV => IntV 0 | v => v end                           (* ... the builder writes coalesce(SUM(x), 0) *)
        | None => ErrV
        end
    | FAvg =>
        match ints_of l with
        | Some [] => NullV
        | Some zs => FracV (zsum zs) (Z.of_nat (length zs))
        | None => ErrV
        end
    | FMin | FMax =>
        match l with
        | [] => NullV
        | v :: r => match v with IntV _ | StrV _ => fold_left (qminmax2 (match f with FMax => true | _ => false end)) r v | _ => ErrV end
        end
    end.

(* SELECT <aggregate> FROM P WHERE conds: one value *)
Definition sql_aggr (d : dname) (qa : qaggr) (conds : list qx) (table : list env) : qv :=
  let kept := filter (fun en => where_truth d (encenv d en) conds) table in
  match qa with
  | QCountAll => IntV (Z.of_nat (length kept))
  | QAgg f distinct q => qaggr_vals f distinct (map (fun en => qeval d (encenv d en) q) kept)
  end.

(* ------------------------------------------------------------------------------------------- Python side *)
Inductive aval : Type := AVal (v : pyv) | AFrac (n c : Z).        (* AFrac: the average sum / count, count > 0 *)
Definition enca (d : dname) (a : aval) : qv := match a with AVal v => enc d v | AFrac n c => FracV n c end.
Definition aval_eqb (a b : aval) : bool :=
  match a, b with
  | AVal x, AVal y => pyv_eqb x y
  | AFrac n c, AFrac n' c' => (n * c' =? n' * c) && negb (c =? 0) && negb (c' =? 0)
  | _, _ => false
  end.

Definition intval (v : pyv) : Z := match int_of v with Some z => z | None => 0 end.

Definition py_aggr_vals (f : afn) (distinct : bool) (vals : list pyv) : aval :=
  let nn := filter (fun v => negb (is_none v)) vals in
  let l := if distinct then dedup pyv_eqb nn else nn in
  match f with
  | FCount => AVal (PInt (Z.of_nat (length l)))
  | FSum => AVal (PInt (zsum (map intval l)))
  | FAvg => match l with [] => AVal PNone | _ => AFrac (zsum (map intval l)) (Z.of_nat (length l)) end
  | FMin | FMax => AVal (minmax_list (match f with FMax => true | _ => false end) l)
  end.

(* the optional `if` part *)
Definition tr_where (d : dname) (c : option expr) : option (list qx) := match c with None => Some [] | Some c => tr_filter d c end.
Definition keeps (c : option expr) (en : env) : bool := match c with None => true | Some c => py_truthy c (ref_eval en c) end.

Definition py_aggr (g : aggr) (filt : option expr) (table : list env) : aval :=
  let kept := filter (keeps filt) table in
  match g with
  | GCountRows | GCountObj => AVal (PInt (Z.of_nat (length kept)))
  | GAgg f distinct e => py_aggr_vals f distinct (map (fun en => ref_eval en e) kept)
  end.

(* what the caller gets: the converter of the result type decodes the value - the type of the argument for min / max and for sum
   (Monad.aggregate: result_type = expr_type; int for the sum of a boolean since repo commit ebd2f10), int for count, float for
   avg (kept as the exact quotient) *)
Definition rty (f : afn) (t : vty) : vty :=
  match f with FCount => TInt | FSum => match t with TBool => TInt | _ => t end | _ => t end.
Definition deca (f : afn) (t : vty) (v : qv) : aval :=
  match f with
  | FAvg => match v with FracV n c => AFrac n c | _ => AVal PNone end
  | _ => AVal (dec (TV (rty f t)) v)
  end.
Definition deca_g (g : aggr) (v : qv) : aval :=
  match g with
  | GAgg f _ e => match ty_of e with Some (TV t) => deca f t v | _ => AVal PNone end
  | _ => AVal (dec (TV TInt) v)
  end.

(* known bad, per dialect: on PostgreSQL there is no sum / avg of a boolean *)
Definition is_boolty (e : expr) : bool := match ty_of e with Some (TV TBool) => true | _ => false end.
Definition aggr_safe (d : dname) (g : aggr) : bool :=
  match g with
  | GAgg (FSum | FAvg) _ e => negb (pg d && is_boolty e)
  | _ => true
  end.

(* primary key values: integers, pairwise different *)
Fixpoint keys_ok (ks : list pyv) : bool :=
  match ks with
  | [] => true
  | k :: r => match k with PInt _ => true | _ => false end && negb (existsb (pyv_eqb k) r) && keys_ok r
  end.
