(* C07: hand-written models of the codec pieces that are not translated (their source text is pinned by
   tools/py2coq/codecs.py: a change of the source refuses the run), the per-type "write, commit, read in a new session"
   compositions, and the defect flags computed from the translated code.  Definitions only. *)
Require Import PonyV.Base.PyBase PonyV.Model.C07Base PonyV.Model.C07Fmt PonyV.Gen.C07Codec.
Open Scope Z_scope.

(* ---- pony.converting.str2timedelta (pinned) -------------------------------------------------------------------------- *)
Definition zeros6 : str := [48; 48; 48; 48; 48; 48].

Definition str2timedelta (s : str) : option td_v :=
  let negative := match s with c :: _ => c =? c_minus | [] => false end in
  let parts :=
    if contains c_dot s
    then match split_all c_dot s with
         | [a; f] => match int_of_str (firstn 6 (f ++ zeros6)) with Some us => Some (a, us) | None => None end
         | _ => None                                    (* ValueError: too many values to unpack *)
         end
    else Some (s, 0) in
  match parts with
  | Some (hms, us) =>
      match split_all c_colon hms with
      | [a; b; c] =>
          match parse_int a, parse_int b, parse_int c with
          | Some h, Some m, Some x =>
              let td := td_make (Z.abs h) m x us in
              Some (if negative then td_neg td else td)
          | _, _, _ => None
          end
      | _ => None
      end
  | None => None
  end.

Definition td_str (t : td_v) : str := timedelta2str (td_days t) (td_secs t) (td_us t).

(* ---- precision rounding as the validate methods apply it (pinned) ------------------------------------------------------ *)
Definition round_to (p us : Z) : Z := match round_us p us with Some r => r | None => us end.
Definition validate_time (p : Z) (t : time_v) : time_v := mk_time (th t) (tmi t) (ts t) (round_to p (tus t)).
Definition validate_datetime (p : Z) (d : datetime_v) : datetime_v := mk_dt (dt_date d) (validate_time p (dt_time d)).
Definition validate_td (p : Z) (t : td_v) : td_v := mk_td (td_days t) (td_secs t) (round_to p (td_us t)).

(* ---- what a new session reads after the value was written (SQLite; the database returns the text it was given) --------- *)
Definition reload_time (p : Z) (t : time_v) : dbres time_v := sqlite_time_sql2py (sqlite_time_py2sql (validate_time p t)).
Definition reload_date (d : date_v) : dbres date_v := sqlite_date_sql2py (sqlite_date_py2sql d).
Definition reload_datetime (p : Z) (d : datetime_v) : dbres datetime_v :=
  sqlite_datetime_sql2py (sqlite_datetime_py2sql (validate_datetime p d)).

(* does the translated SQLiteTimeConverter.sql2py hand back the raw string for a well-formed time? *)
Definition time_reloads_as_str : bool :=
  match sqlite_time_sql2py (sqlite_time_py2sql (mk_time 1 2 3 0)) with RStr _ => true | RVal _ => false end.

(* does the translated SQLiteDateConverter.py2sql write the year with four digits (date(999, 12, 31) as 10 characters)? *)
Definition date_text_pads_year : bool := Nat.eqb (length (sqlite_date_py2sql (mk_date 999 12 31))) 10.

(* ---- Decimal: value = coefficient * 10^exponent; quantize to `scale` digits, ROUND_HALF_EVEN (pinned) ------------------- *)
Definition dec : Type := (Z * Z)%type.
Definition quantize (scale : Z) (d : dec) : dec :=
  let (c, e) := d in
  if e >=? - scale then (c * 10 ^ (e + scale), - scale)
  else let p := 10 ^ (- scale - e) in
       let q := Z.abs c / p in
       let r := Z.abs c mod p in
       let q' := if (2 * r >? p) || ((2 * r =? p) && Z.odd q) then q + 1 else q in
       (Z.sgn c * q', - scale).
(* numeric equality of two decimals (Python's ==) *)
Definition dec_eqb (a b : dec) : bool :=
  let m := Z.min (snd a) (snd b) in
  fst a * 10 ^ (snd a - m) =? fst b * 10 ^ (snd b - m).
(* SQLiteDecimalConverter: py2sql = str(quantize v); sql2py = quantize (Decimal(str(dbval))); the database is assumed to hand
   back the number it was given (true for values SQLite can hold exactly; precision loss through REAL storage is a tested finding) *)
Definition dec_py2sql (scale : Z) (d : dec) : dec := quantize scale d.
Definition dec_sql2py (scale : Z) (d : dec) : dec := quantize scale d.
Definition dec_reload (scale : Z) (d : dec) : dec := dec_sql2py scale (dec_py2sql scale d).

(* ---- UUID: py2sql = the 16 bytes, big endian; sql2py = UUID(bytes=...) ---------------------------------------------------- *)
Fixpoint to_bytes (k : nat) (n : Z) : list Z :=
  match k with
  | O => []
  | S k' => to_bytes k' (n / 256) ++ [n mod 256]
  end.
Definition of_bytes (l : list Z) : Z := fold_left (fun acc b => acc * 256 + b) l 0.
Definition uuid_py2sql (n : Z) : list Z := to_bytes 16 n.
Definition uuid_sql2py (l : list Z) : option Z := if Nat.eqb (length l) 16 then Some (of_bytes l) else None.

(* ---- bool / int / str / bytes: the converters are the identity on values of the attribute type (pinned Converter.py2sql,
        BoolConverter.sql2py = bool(val), IntConverter.sql2py = int(val)); SQLite stores True/False as 1/0 ------------------- *)
Definition bool_py2sql (b : bool) : Z := if b then 1 else 0.
Definition bool_sql2py (z : Z) : bool := negb (z =? 0).
