(* C36 - observation functions for the real-fork correspondence run (definitions only). Parent = pid 1, child = pid 2. *)
From Coq Require Import ZArith List Bool.
Import ListNotations.
Require Import PonyV.Model.C36Base PonyV.Gen.C36Pool PonyV.Model.C36Fork.
Open Scope Z_scope.

Definition ev_eqb (a b : ev) : bool :=
  match a, b with
  | ECreate p c, ECreate p' c' => (p =? p') && conn_eqb c c'
  | EUse p c, EUse p' c' => (p =? p') && conn_eqb c c'
  | EClose p c, EClose p' c' => (p =? p') && conn_eqb c c'
  | EAssertFail p, EAssertFail p' => p =? p'
  | _, _ => false
  end.

Fixpoint list_eqb {A} (f : A -> A -> bool) (a b : list A) : bool :=
  match a, b with
  | [], [] => true
  | x :: a', y :: b' => f x y && list_eqb f a' b'
  | _, _ => false
  end.

(* consecutive repetitions of the same event are one observation (the driver performs several calls per statement) *)
Fixpoint dedup (l : list ev) : list ev :=
  match l with
  | [] => []
  | x :: r => match r with
              | y :: _ => if ev_eqb x y then dedup r else x :: dedup r
              | [] => [x]
              end
  end.

(* run ops one by one, collecting the events of each *)
Fixpoint run_each (s : proc) (ops : list op) : proc * list (list ev) :=
  match ops with
  | [] => (s, [])
  | o :: r => let s1 := step s o in
              let e := skipn (length (log s)) (log s1) in
              let '(s2, es) := run_each s1 r in (s2, dedup e :: es)
  end.

Definition optc_eqb (a b : option conn) : bool :=
  match a, b with Some x, Some y => conn_eqb x y | None, None => true | _, _ => false end.

Definition book := (option conn * option Z * list (conn * option Z) * option conn * nat)%type.
Definition book_of (s : proc) : book := (pcon s, ppid s, forked s, ccon s, depthc s).
Definition book_eqb (a b : book) : bool :=
  let '(pc, pp, fk, cc, d) := a in let '(pc', pp', fk', cc', d') := b in
  optc_eqb pc pc'
  && (match pc with Some _ => optz_eqb pp pp' | None => true end)     (* pool.pid is meaningful only while pool.con is set *)
  && list_eqb (fun x y => conn_eqb (fst x) (fst y) && optz_eqb (snd x) (snd y)) fk fk'
  && optc_eqb cc cc' && Nat.eqb d d'.

Definition events_eqb (a b : list (list ev)) : bool := list_eqb (list_eqb ev_eqb) a b.

(* one scenario: parent history, fork, child program, parent continuation *)
Definition scenario (before child after : list op) :=
  let '(par, eb) := run_each (init 1) before in
  let '(ch, ec) := run_each (fork par 2) child in
  let '(par2, ea) := run_each par after in
  (eb, book_of par, ec, book_of ch, ea, book_of par2).

Definition scenario_eqb (before child after : list op)
  (eb : list (list ev)) (bb : book) (ec : list (list ev)) (bc : book) (ea : list (list ev)) (ba : book) : bool :=
  let '(eb', bb', ec', bc', ea', ba') := scenario before child after in
  events_eqb eb' eb && book_eqb bb' bb && events_eqb ec' ec && book_eqb bc' bc && events_eqb ea' ea && book_eqb ba' ba.

Fixpoint failing_from (i : nat) (l : list bool) : list nat :=
  match l with [] => [] | b :: r => if b then failing_from (S i) r else i :: failing_from (S i) r end.
Definition failing (l : list bool) : list nat := failing_from 0 l.
