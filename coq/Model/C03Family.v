(* C03 - the unbounded sub-family of and/or/not expressions for which the round trip is proved (Proofs/C03Roundtrip.v):
   disjunctive normal form - an `or` of `and`s of literals, any number of alternatives of any widths.
   (A single `and` of n literals and a single `or` of n literals are the instances with one alternative, resp. with all
   widths 1.)  Definitions only. *)
From Coq Require Import List Bool Arith.
Import ListNotations.
Require Import PonyV.Model.C03Bexp PonyV.Model.C03Decomp.

Inductive lit : Type := Lit (neg : bool) (n : nat).        (* a  |  not a *)

Definition lit_bexp (l : lit) : bexp := match l with Lit false n => Atom n | Lit true n => Not (Atom n) end.

(* Python has no one-operand `and` / `or`: a group of width 1 is the operand itself *)
Definition mk_and (ls : list lit) : bexp := match ls with [x] => lit_bexp x | _ => And (map lit_bexp ls) end.
Definition mk_or_of (es : list bexp) : bexp := match es with [x] => x | _ => Or es end.
Definition dnf (alts : list (list lit)) : bexp := mk_or_of (map mk_and alts).

Definition wf_alts (alts : list (list lit)) : Prop := alts <> [] /\ Forall (fun ls => ls <> []) alts.

(* the instruction stream of `(x for x in T if <dnf alts>)` after Pony's normalisation, written out:
   every literal is LOAD ; conditional jump.  In the last alternative every literal jumps back to the loop top when it is
   false; in an earlier alternative the last literal jumps to the body when true, the others to the next alternative when false. *)
Fixpoint and_back (ls : list lit) : list instr :=
  match ls with [] => [] | Lit neg n :: r => ILoad n :: IBack neg :: and_back r end.

Fixpoint alt_fwd (ls : list lit) (nextalt body : nat) : list instr :=
  match ls with
  | [] => []
  | Lit neg n :: r => match r with
                      | [] => [ILoad n; IJump (negb neg) body]
                      | _ :: _ => ILoad n :: IJump neg nextalt :: alt_fwd r nextalt body
                      end
  end.

Fixpoint dnf_code (alts : list (list lit)) (p body : nat) : list instr :=
  match alts with
  | [] => []
  | ls :: r => match r with
               | [] => and_back ls
               | _ :: _ => alt_fwd ls (p + 2 * length ls) body ++ dnf_code r (p + 2 * length ls) body
               end
  end.

Fixpoint total_lits (alts : list (list lit)) : nat :=
  match alts with [] => 0 | ls :: r => length ls + total_lits r end.

(* ------------------------------------------------------------------------------------------------
   class of expressions of the compile-soundness theorem (Proofs/C03CompileSound.v) *)
(* expressions covered: no conditional expression (their JUMP_FORWARDs are subject to jump threading) and no empty and/or
   (which Python cannot express) *)
Fixpoint simple (e : bexp) : bool :=
  match e with
  | Atom _ | Const _ => true
  | Not e1 | IsNone _ e1 => simple e1
  | And l | Or l => match l with [] => false | _ => (fix go (l : list bexp) : bool := match l with [] => true | x :: r => simple x && go r end) l end
  | IfExp _ _ _ => false
  | Cmp _ a b => simple a && simple b
  end.


(* ------------------------------------------------------------------------------------------------
   the dual family: conjunctive normal form - an `and` of `or`s of literals (Proofs/C03RoundtripCnf.v) *)
Definition mk_or (ls : list lit) : bexp := match ls with [x] => lit_bexp x | _ => Or (map lit_bexp ls) end.
Definition mk_and_of (es : list bexp) : bexp := match es with [x] => x | _ => And es end.
Definition cnf (cls : list (list lit)) : bexp := mk_and_of (map mk_or cls).

(* stream of one clause: every literal but the last jumps to the next clause when true; the last jumps back when false *)
Fixpoint or_fwd (ls : list lit) (nextcl : nat) : list instr :=
  match ls with
  | [] => []
  | Lit neg n :: r => match r with
                      | [] => [ILoad n; IBack neg]
                      | _ :: _ => ILoad n :: IJump (negb neg) nextcl :: or_fwd r nextcl
                      end
  end.

Fixpoint cnf_code (cls : list (list lit)) (p : nat) : list instr :=
  match cls with
  | [] => []
  | ls :: r => or_fwd ls (p + 2 * length ls) ++ cnf_code r (p + 2 * length ls)
  end.
