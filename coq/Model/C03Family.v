(* C03 - the unbounded sub-family of and/or/not expressions for which the round trip is proved (Proofs/C03Roundtrip.v):
   disjunctive normal form - an `or` of `and`s of literals, any number of alternatives of any widths.
   (A single `and` of n literals and a single `or` of n literals are the instances with one alternative, resp. with all
   widths 1.)  Definitions only. *)
From Coq Require Import List Bool Arith.
Import ListNotations.
Require Import PonyV.Model.C03Bexp PonyV.Model.C03Decomp.

(* literals: an operand that contains no and/or/if-else.  Names in a, b, n are atoms. *)
Inductive lit : Type :=
| Lit (neg : bool) (n : nat)                    (* a        |  not a *)
| LCmp (neg : bool) (ne : bool) (a b : nat)     (* a == b   |  a != b   |  not a == b  |  not a != b *)
| LIsN (isnot : bool) (a : nat).                (* a is None  |  a is not None *)

Definition lit_bexp (l : lit) : bexp :=
  match l with
  | Lit false n => Atom n
  | Lit true n => Not (Atom n)
  | LCmp false ne a b => Cmp ne (Atom a) (Atom b)
  | LCmp true ne a b => Not (Cmp ne (Atom a) (Atom b))
  | LIsN isnot a => IsNone isnot (Atom a)
  end.

(* code of a literal as a condition: its value, then ONE conditional jump *)
Definition lval (l : lit) : list instr :=
  match l with
  | Lit _ n => [ILoad n]
  | LCmp _ ne a b => [ILoad a; ILoad b; ICmp ne]
  | LIsN _ a => [ILoad a]
  end.
(* the jump of compiler_jump_if(l, next, c): taken when the truth value of l is c *)
Definition ljmp (l : lit) (c : bool) (next : tgt) : instr :=
  match l with
  | Lit neg _ => jump_to (if neg then negb c else c) next
  | LCmp neg _ _ _ => jump_to (if neg then negb c else c) next
  | LIsN isnot _ => jump_none_to (if isnot then negb c else c) next
  end.
Definition lw (l : lit) : nat := length (lval l) + 1.
Fixpoint lws (ls : list lit) : nat := match ls with [] => 0 | l :: r => lw l + lws r end.

(* Python has no one-operand `and` / `or`: a group of width 1 is the operand itself *)
Definition mk_and (ls : list lit) : bexp := match ls with [x] => lit_bexp x | _ => And (map lit_bexp ls) end.
Definition mk_or_of (es : list bexp) : bexp := match es with [x] => x | _ => Or es end.
Definition dnf (alts : list (list lit)) : bexp := mk_or_of (map mk_and alts).

Definition wf_alts (alts : list (list lit)) : Prop := alts <> [] /\ Forall (fun ls => ls <> []) alts.

(* the instruction stream of `(x for x in T if <dnf alts>)` after Pony's normalisation, written out:
   every literal is its value followed by a conditional jump.  In the last alternative every literal jumps back to the loop
   top when it is false; in an earlier alternative the last literal jumps to the body when true, the others to the next
   alternative when false. *)
Fixpoint and_back (ls : list lit) : list instr :=
  match ls with [] => [] | l :: r => lval l ++ ljmp l false TTop :: and_back r end.

Fixpoint alt_fwd (ls : list lit) (nextalt body : nat) : list instr :=
  match ls with
  | [] => []
  | l :: r => match r with
              | [] => lval l ++ [ljmp l true (TAt body)]
              | _ :: _ => lval l ++ ljmp l false (TAt nextalt) :: alt_fwd r nextalt body
              end
  end.

Fixpoint dnf_code (alts : list (list lit)) (p body : nat) : list instr :=
  match alts with
  | [] => []
  | ls :: r => match r with
               | [] => and_back ls
               | _ :: _ => alt_fwd ls (p + lws ls) body ++ dnf_code r (p + lws ls) body
               end
  end.

(* number of instructions of all literals *)
Fixpoint total_lits (alts : list (list lit)) : nat :=
  match alts with [] => 0 | ls :: r => lws ls + total_lits r end.

(* ------------------------------------------------------------------------------------------------
   class of expressions of the compile-soundness theorem (Proofs/C03CompileSound.v) *)
(* expressions covered: no conditional expression (their JUMP_FORWARDs are subject to jump threading) and no empty and/or
   (which Python cannot express) *)
Fixpoint simple (e : bexp) : bool :=
  match e with
  | Atom _ | Const _ => true
  | Not e1 | IsNone _ e1 => simple e1
  | And l | Or l => match l with [] => false | _ => (fix go (l : list bexp) : bool := match l with [] => true | x :: r => simple x && go r end) l end
  | IfExp _ _ _ => false
  | Cmp _ a b => simple a && simple b
  end.


(* ------------------------------------------------------------------------------------------------
   the dual family: conjunctive normal form - an `and` of `or`s of literals (Proofs/C03RoundtripCnf.v) *)
Definition mk_or (ls : list lit) : bexp := match ls with [x] => lit_bexp x | _ => Or (map lit_bexp ls) end.
Definition mk_and_of (es : list bexp) : bexp := match es with [x] => x | _ => And es end.
Definition cnf (cls : list (list lit)) : bexp := mk_and_of (map mk_or cls).

(* stream of one clause: every literal but the last jumps to the next clause when true; the last jumps back when false *)
Fixpoint or_fwd (ls : list lit) (nextcl : nat) : list instr :=
  match ls with
  | [] => []
  | l :: r => match r with
              | [] => lval l ++ [ljmp l false TTop]
              | _ :: _ => lval l ++ ljmp l true (TAt nextcl) :: or_fwd r nextcl
              end
  end.

Fixpoint cnf_code (cls : list (list lit)) (p : nat) : list instr :=
  match cls with
  | [] => []
  | ls :: r => or_fwd ls (p + lws ls) ++ cnf_code r (p + lws ls)
  end.

(* well-formed expressions: every and/or has at least one operand (Python cannot express an empty one); conditional
   expressions allowed *)
Fixpoint wfe (e : bexp) : bool :=
  match e with
  | Atom _ | Const _ => true
  | Not e1 | IsNone _ e1 => wfe e1
  | And l | Or l => match l with [] => false | _ => (fix go (l : list bexp) : bool := match l with [] => true | x :: r => wfe x && go r end) l end
  | IfExp c a b => wfe c && wfe a && wfe b
  | Cmp _ a b => wfe a && wfe b
  end.

(* ------------------------------------------------------------------------------------------------
   a family with one conditional expression, in ELEMENT position (Proofs/C03RoundtripIf.v):
       (xa if t1 and ... and tn else xb  for x in T)        n >= 1, all operands plain names *)
Definition mk_and_atoms (ts : list nat) : bexp := match ts with [t] => Atom t | _ => And (map Atom ts) end.
Definition if_and (ts : list nat) (xa xb : nat) : bexp := IfExp (mk_and_atoms ts) (Atom xa) (Atom xb).

(* ------------------------------------------------------------------------------------------------
   nesting depth 3 (Proofs/C03Roundtrip3.v): an `or` of alternatives; an alternative is an `and` of conjuncts; a conjunct
   is a literal or an `or`-clause of literals.  (One alternative = the CNF family; all conjuncts literals = the DNF family.) *)
Definition mk_alt3 (cs : list (list lit)) : bexp := mk_and_of (map mk_or cs).
Definition dnf3 (alts : list (list (list lit))) : bexp := mk_or_of (map mk_alt3 alts).

(* an alternative with a single conjunct must be a literal: an `or` directly under the outer `or` is flattened by Python *)
Definition wf_alt3 (cs : list (list lit)) : Prop :=
  cs <> [] /\ Forall (fun c => c <> []) cs /\ match cs with [c] => length c = 1 | _ => True end.
Definition wf3 (alts : list (list (list lit))) : Prop := 2 <= length alts /\ Forall wf_alt3 alts.

(* a run of literals that all jump on the same truth value c to the same target *)
Fixpoint chain_code (c : bool) (tg : tgt) (ls : list lit) : list instr :=
  match ls with [] => [] | l :: r => lval l ++ ljmp l c tg :: chain_code c tg r end.

(* a clause: every literal but the last jumps to the end of the clause when true; the last jumps to tg when false *)
Fixpoint or_fwd_to (ls : list lit) (nextcl : nat) (tg : tgt) : list instr :=
  match ls with
  | [] => []
  | l :: r => match r with
              | [] => lval l ++ [ljmp l false tg]
              | _ :: _ => lval l ++ ljmp l true (TAt nextcl) :: or_fwd_to r nextcl tg
              end
  end.

Fixpoint conj_code (cs : list (list lit)) (p : nat) (tg : tgt) : list instr :=
  match cs with
  | [] => []
  | c :: r => or_fwd_to c (p + lws c) tg ++ conj_code r (p + lws c) tg
  end.

(* an alternative that is not the last: conjuncts jump to the next alternative when false, except the last conjunct, all
   of whose literals jump to the body when true *)
Fixpoint alt3_fwd (cs : list (list lit)) (p nextalt body : nat) : list instr :=
  match cs with
  | [] => []
  | c :: r => match r with
              | [] => chain_code true (TAt body) c
              | _ :: _ => or_fwd_to c (p + lws c) (TAt nextalt) ++ alt3_fwd r (p + lws c) nextalt body
              end
  end.

Fixpoint dnf3_code (alts : list (list (list lit))) (p body : nat) : list instr :=
  match alts with
  | [] => []
  | cs :: r => match r with
               | [] => conj_code cs p TTop
               | _ :: _ => alt3_fwd cs p (p + total_lits cs) body ++ dnf3_code r (p + total_lits cs) body
               end
  end.

Fixpoint tot3 (alts : list (list (list lit))) : nat :=
  match alts with [] => 0 | cs :: r => total_lits cs + tot3 r end.
