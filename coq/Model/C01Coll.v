(* C01/C02 - conditions over a to-many collection.  Queries over G of the schema of Model/C01Join.v whose `if` part is a
   conjunction of atoms about `g.members` (Set(P), the reverse side of P.group):

       <e>                                                     a scalar condition over g's own attributes
       exists(m for m in g.members if c) / g.members            and their negations  (EXISTS / NOT EXISTS subquery)
       v in (m.a for m in g.members if c) / v not in (...)      IN / NOT IN subquery over `... AND m.a IS NOT NULL` (a optional)
       v in g.members.a / v not in g.members.a                  attribute lifting: `a IS NOT NULL` whenever a is optional
       not (v in (m.a for m in g.members if c))                 the negation flips IN to NOT IN (same subquery)
       <e> mentioning count(m for m in g.members if c)          scalar subquery SELECT COUNT(DISTINCT m.id)

   Column ids: 0..8 the member m (a row of P), 10..14 g (a row of G), 30 the value of the atom's count-subquery.  The
   inner conditions c may mention both m and g (correlated subquery).  The translation of the scalar parts is the one of
   Model/C01Translate.v; this file adds the subquery shapes the translator emits around them (QuerySetMonad.contains /
   nonzero / negate / count, AttrSetMonad.contains / nonzero / negate, construct_sql_ast's is_not_null_checks), the
   relational meaning of those subqueries, and the Python meaning of the atoms over the object graph.  Definitions only. *)
Require Import PonyV.Base.PyBase PonyV.Model.C01Expr PonyV.Model.C01Sql PonyV.Model.C01Translate PonyV.Model.C01Eqb
               PonyV.Model.C01Query PonyV.Model.C01Join.

Definition cnt_col : nat := 30.

(* [(m.a for m in g.members if c)] | [g.members.a] *)
Inductive setform : Type := SGen (c : option expr) | SAttr.

Inductive atom : Type :=
| APlain (e : expr)
| AExists (neg : bool) (c : option expr)
| AIn (neg over : bool) (v : expr) (a : attr) (s : setform)   (* over: written `not (v in ...)` (then neg = true) *)
| ACount (c : option expr) (e : expr).               (* e mentions column 30 = count(m for m in g.members if c) *)

(* ------------------------------------------------------------------------------------------- SQL side *)
(* FROM P m WHERE g.<outer> = m.<inner> AND conds *)
Definition sub : Type := ((nat * nat) * list qx)%type.
Definition sub_join : nat * nat := (10, 8)%nat.       (* g.id = m.group *)

Inductive cx : Type :=
| XPlain (conds : list qx)
| XExists (neg : bool) (s : sub)                      (* ['EXISTS' | 'NOT_EXISTS', from, where]                        *)
| XIn (neg : bool) (v item : qx) (s : sub)            (* ['IN' | 'NOT_IN', v, ['SELECT', ['ALL', item], from, where]]   *)
| XCount (s : sub) (conds : list qx).                 (* conds mention ['SELECT', ['AGGREGATES', ['COUNT', True, m.id]], from, where] as column 30 *)

Section Translate.
Variable d : dname.

Definition tr_conds (c : option expr) : option (list qx) := match c with None => Some [] | Some c => tr_filter d c end.

(* construct_sql_ast(is_not_null_checks=True) for a nullable expression monad (QuerySetMonad.contains; before repo commit 2e4b5c8 only
   for `not in`); AttrSetMonad._subselect for an optional attribute *)
Definition not_null_check (a : attr) (need : bool) : list qx :=
  if need && a_null a then [QUn QIsNotNull (QCol (a_id a))] else [].

Definition tr_atom (x : atom) : option cx :=
  match x with
  | APlain e => option_map XPlain (tr_filter d e)
  | AExists neg c => option_map (fun cs => XExists neg (sub_join, cs)) (tr_conds c)
  | AIn neg over v a s =>
      match tr_project d v, ty_of v with
      | Some q, Some (TV t) =>
          if vty_eqb t (a_ty a) then
            match s with
            | SGen c => option_map (fun cs => XIn neg q (QCol (a_id a)) (sub_join, cs ++ not_null_check a true)) (tr_conds c)
            | SAttr => Some (XIn neg q (QCol (a_id a)) (sub_join, not_null_check a true))
            end
          else None
      | _, _ => None
      end
  | ACount c e =>
      match tr_conds c, tr_filter d e with
      | Some cs, Some conds => Some (XCount (sub_join, cs) conds)
      | _, _ => None
      end
  end.

Fixpoint tr_atoms (l : list atom) : option (list cx) :=
  match l with
  | [] => Some []
  | x :: r => match tr_atom x, tr_atoms r with Some c, Some cs => Some (c :: cs) | _, _ => None end
  end.
End Translate.

(* the shape translator.conditions has: one entry per condition; a condition that contains the count-subquery carries it *)
Inductive fx : Type :=
| FQ (q : qx) (s : option sub)
| FExists (neg : bool) (s : sub)
| FIn (neg : bool) (v item : qx) (s : sub).

Fixpoint mentions (i : nat) (q : qx) : bool :=
  match q with
  | QVal _ | QParam _ => false
  | QCol j => Nat.eqb i j
  | QBin _ a b => mentions i a || mentions i b
  | QUn _ a => mentions i a
  | QAnd l | QOr l | QCoalesce l | QMinMax _ l => existsb (mentions i) l
  | QIn _ a l => mentions i a || existsb (mentions i) l
  | QCase c t f => mentions i c || mentions i t || mentions i f
  end.

Definition flatten1 (x : cx) : list fx :=
  match x with
  | XPlain conds => map (fun q => FQ q None) conds
  | XExists neg s => [FExists neg s]
  | XIn neg v item s => [FIn neg v item s]
  | XCount s conds => map (fun q => FQ q (if mentions cnt_col q then Some s else None)) conds
  end.
Definition flatten (l : list cx) : list fx := flat_map flatten1 l.

Definition sub_eqb (a b : sub) : bool :=
  Nat.eqb (fst (fst a)) (fst (fst b)) && Nat.eqb (snd (fst a)) (snd (fst b)) && oqxs_eqb (Some (snd a)) (Some (snd b)).
Definition fx_eqb (a b : fx) : bool :=
  match a, b with
  | FQ q None, FQ q' None => qx_eqb q q'
  | FQ q (Some s), FQ q' (Some s') => qx_eqb q q' && sub_eqb s s'
  | FExists n s, FExists n' s' => Bool.eqb n n' && sub_eqb s s'
  | FIn n v i s, FIn n' v' i' s' => Bool.eqb n n' && qx_eqb v v' && qx_eqb i i' && sub_eqb s s'
  | _, _ => false
  end.
Fixpoint fxs_eqb (a b : list fx) : bool :=
  match a, b with [], [] => true | x :: a', y :: b' => fx_eqb x y && fxs_eqb a' b' | _, _ => false end.
Definition ofxs_eqb (a : option (list cx)) (b : list fx) : bool :=
  match a with Some l => fxs_eqb (flatten l) b | None => false end.

(* attribute environment: the member (if any), g, the count *)
Definition cenv (params : nat -> pyv) (g : row) (om : option row) (cnt : pyv) : env :=
  mkenv (fun i => if (i <? 10)%nat then match om with Some m => m i | None => PNone end
                  else if (i <? 20)%nat then g (i - 10)%nat
                  else if (i =? cnt_col)%nat then cnt else PNone) params.

Section Sem.
Variable d : dname.
Variable params : nat -> pyv.
Variable db : jdb.

Definition genv (g : row) : env := cenv params g None PNone.
Definition menv (g m : row) : env := cenv params g (Some m) PNone.

(* the rows of P the join condition selects for g *)
Definition joined (j : nat * nat) (g : row) : list row :=
  filter (fun m => match m (snd j), g (fst j - 10)%nat with PInt a, PInt b => a =? b | _, _ => false end) (tP db).

Definition sub_rows (g : row) (s : sub) : list row :=
  filter (fun m => where_truth d (encenv d (menv g m)) (snd s)) (joined (fst s) g).

(* COUNT(DISTINCT x): the number of different non-NULL values *)
Definition count_distinct (l : list qv) : nat := length (dedup qv_eqb (filter (fun v => negb (is_null v)) l)).

Definition xtruth (g : row) (x : cx) : bool :=
  match x with
  | XPlain conds => where_truth d (encenv d (genv g)) conds
  | XExists neg s => xorb neg (match sub_rows g s with [] => false | _ => true end)
  | XIn neg v item s =>
      sql_truth d (qin d neg (qeval d (encenv d (genv g)) v) (map (fun m => qeval d (encenv d (menv g m)) item) (sub_rows g s)))
  | XCount s conds =>
      let n := count_distinct (map (fun m => enc d (m 0%nat)) (sub_rows g s)) in
      where_truth d (encenv d (cenv params g None (PInt (Z.of_nat n)))) conds
  end.

(* SELECT [DISTINCT] q FROM G g WHERE x1 AND ... AND xn *)
Definition sql_coll_rows (distinct : bool) (xs : list cx) (q : qx) : list qv :=
  let l := map (fun g => qeval d (encenv d (genv g)) q) (filter (fun g => forallb (xtruth g) xs) (tG db)) in
  if distinct then dedup qv_eqb l else l.

(* ------------------------------------------------------------------------------------------- the Python side *)
(* g.members: the P objects whose `group` is g *)
Definition members (g : row) : list row := filter (fun m => fk_eq (m col_group) g) (tP db).

Definition cond_holds (c : option expr) (g m : row) : bool :=
  match c with None => true | Some c => py_truthy c (ref_eval (menv g m) c) end.

Definition tv_true (t : tv) : bool := match t with T => true | _ => false end.

(* `x in items` over a collection: None items never match (the collection of values skips them), a None x makes every
   comparison unknown *)
Definition in_coll (neg : bool) (x : pyv) (items : list pyv) : tv :=
  let r := fold_right or3 F (map (cmp3 CEq x) (filter (fun i => negb (is_none i)) items)) in if neg then not3 r else r.

Definition holds (g : row) (x : atom) : bool :=
  match x with
  | APlain e => py_truthy e (ref_eval (genv g) e)
  | AExists neg c => xorb neg (existsb (cond_holds c g) (members g))
  | AIn neg _ v a s =>
      let c := match s with SGen c => c | SAttr => None end in
      tv_true (in_coll neg (ref_eval (genv g) v) (map (fun m => m (a_id a)) (filter (cond_holds c g) (members g))))
  | ACount c e =>
      let n := length (filter (cond_holds c g) (members g)) in
      py_truthy e (ref_eval (cenv params g None (PInt (Z.of_nat n))) e)
  end.

(* [proj(g) for g in G if atom1 and ... and atomn] *)
Definition py_coll_rows (distinct : bool) (atoms : list atom) (proj : expr) : list pyv :=
  let l := map (fun g => ref_eval (genv g) proj) (filter (fun g => forallb (holds g) atoms) (tG db)) in
  if distinct then dedup pyv_eqb l else l.
End Sem.

(* primary keys of P: integers, pairwise different *)
Fixpoint pk_ok (T : list row) : bool :=
  match T with
  | [] => true
  | t :: r => match t 0%nat with PInt _ => true | _ => false end && negb (existsb (fun u => pyv_eqb (t 0%nat) (u 0%nat)) r) && pk_ok r
  end.
