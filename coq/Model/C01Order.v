(* C01/C02 - ordering: select(<proj> for p in P [if c]).order_by(k1, ..., kn), every key a scalar expression, optionally desc(..):

       SELECT <proj> FROM P WHERE <c> ORDER BY k1 [DESC], ..., kn [DESC]

   SQL: the kept rows sorted by the key values, integers numerically, strings by code point (binary collation), false < true, and NULL
   as the smallest value on SQLite and MySQL, as the largest on PostgreSQL (and Oracle); DESC reverses the whole order of that key
   (so it also moves the NULLs to the other end).  Rows with equal keys: SQL leaves their order open; the model keeps the table order
   (a stable sort) on both sides, the correspondence harness always ends the key list with the primary key.
   Python: the comprehension sorted by the key values - Python cannot compare None with a value, so where the None keys go is a
   parameter of the reference ([nulls_first]) and the theorem says: on dialect d they go where d puts NULL.  Definitions only. *)
Require Import PonyV.Base.PyBase PonyV.Model.C01Expr PonyV.Model.C01Sql PonyV.Model.C01Translate PonyV.Model.C01Eqb
               PonyV.Model.C01Query PonyV.Model.C01Aggr.

Definition okey : Type := (expr * bool)%type.             (* (key expression, descending) *)

Fixpoint tr_order (d : dname) (ks : list okey) : option (list (qx * bool)) :=
  match ks with
  | [] => Some []
  | (e, desc) :: r =>
      match ty_of e, tr_project d e, tr_order d r with
      | Some (TV _), Some q, Some qs => Some ((q, desc) :: qs)
      | _, _, _ => None
      end
  end.

Fixpoint okeys_eqb (a b : list (qx * bool)) : bool :=
  match a, b with
  | [], [] => true
  | (q, s) :: a', (q', s') :: b' => qx_eqb q q' && Bool.eqb s s' && okeys_eqb a' b'
  | _, _ => false
  end.
Definition ookeys_eqb (a : option (list (qx * bool))) (b : list (qx * bool)) : bool := match a with Some l => okeys_eqb l b | None => false end.

(* stable insertion sort *)
Fixpoint insert {A} (le : A -> A -> bool) (x : A) (l : list A) : list A :=
  match l with [] => [x] | y :: r => if le x y then x :: y :: r else y :: insert le x r end.
Definition sort_by {A} (le : A -> A -> bool) (l : list A) : list A := fold_right (insert le) [] l.

Definition not_gt (c : comparison) : bool := match c with Gt => false | _ => true end.
Definition flip_if (desc : bool) (c : comparison) : comparison := if desc then CompOpp c else c.

(* where NULL sorts *)
Definition nulls_first (d : dname) : bool := match d with DSqlite | DMysql => true | _ => false end.

(* ------------------------------------------------------------------------------------------- SQL side *)
Definition qcompare (nf : bool) (a b : qv) : comparison :=
  match a, b with
  | NullV, NullV => Eq
  | NullV, _ => if nf then Lt else Gt
  | _, NullV => if nf then Gt else Lt
  | IntV x, IntV y => x ?= y
  | StrV x, StrV y => str_compare x y
  | BoolV x, BoolV y => bool_compare x y
  | _, _ => Eq
  end.

Fixpoint sql_lex (d : dname) (ks : list (qx * bool)) (x y : env) : comparison :=
  match ks with
  | [] => Eq
  | (q, desc) :: r =>
      match flip_if desc (qcompare (nulls_first d) (qeval d (encenv d x) q) (qeval d (encenv d y) q)) with
      | Eq => sql_lex d r x y
      | c => c
      end
  end.

Definition sql_order_rows (d : dname) (ks : list (qx * bool)) (conds : list qx) (q : qx) (table : list env) : list qv :=
  map (fun en => qeval d (encenv d en) q)
      (sort_by (fun x y => not_gt (sql_lex d ks x y)) (filter (fun en => where_truth d (encenv d en) conds) table)).

(* ------------------------------------------------------------------------------------------- Python side *)
Definition py_compare (nf : bool) (a b : pyv) : comparison :=
  match a, b with
  | PNone, PNone => Eq
  | PNone, _ => if nf then Lt else Gt
  | _, PNone => if nf then Gt else Lt
  | PInt x, PInt y => x ?= y
  | PStr x, PStr y => str_compare x y
  | PBool x, PBool y => bool_compare x y
  | _, _ => Eq
  end.

Fixpoint py_lex (nf : bool) (ks : list okey) (x y : env) : comparison :=
  match ks with
  | [] => Eq
  | (e, desc) :: r =>
      match flip_if desc (py_compare nf (ref_eval x e) (ref_eval y e)) with
      | Eq => py_lex nf r x y
      | c => c
      end
  end.

Definition py_order_rows (nf : bool) (ks : list okey) (filt : option expr) (proj : expr) (table : list env) : list pyv :=
  map (fun en => ref_eval en proj) (sort_by (fun x y => not_gt (py_lex nf ks x y)) (filter (keeps filt) table)).

(* no key is None on a kept row: then the placement of NULL does not matter *)
Definition keys_not_none (ks : list okey) (filt : option expr) (table : list env) : bool :=
  forallb (fun en => forallb (fun k => negb (is_none (ref_eval en (fst k)))) ks) (filter (keeps filt) table).
