(* C36 - executable model of one process' connection bookkeeping across os.fork() (definitions only).

   Anchors: pony/orm/dbapiprovider.py Pool.connect (generated: Gen/C36Pool.v pool_connect) / release / drop / disconnect,
   pony/orm/dbproviders/sqlite.py SQLitePool, pony/orm/core.py SessionCache.connect / prepare_connection_for_query_execution /
   close, Database.disconnect.  A process is: its pid, the thread's pool record (con, pid, forked_connections), the live session's
   cached connection (cache.connection), the db_session nesting counter, a serial for new connection objects, and the log of what
   it did to which connection object.  fork() copies all of it into the child except the pid (and the child starts a new log). *)
From Coq Require Import ZArith List Bool.
Import ListNotations.
Require Import PonyV.Model.C36Base PonyV.Gen.C36Pool.
Open Scope Z_scope.

Inductive ev :=
| ECreate (by_pid : Z) (c : conn)       (* dbapi_module.connect(...) *)
| EUse (by_pid : Z) (c : conn)          (* cursor / execute / commit / rollback on c *)
| EClose (by_pid : Z) (c : conn)        (* c.close() *)
| EAssertFail (by_pid : Z).             (* `assert con is pool.con` failed *)

Record proc := mkproc {
  pid : Z;
  pcon : option conn;                   (* pool.con *)
  ppid : option Z;                      (* pool.pid (None: not set yet) *)
  forked : list (conn * option Z);      (* Pool.forked_connections *)
  ccon : option conn;                   (* local.db2cache[db].connection of the live session *)
  depthc : nat;                         (* local.db_context_counter *)
  serial : Z;
  log : list ev }.

Definition init (p : Z) : proc := mkproc p None None [] None 0 0 [].

Inductive op :=
| OBegin          (* db_session.__enter__ *)
| OQuery          (* any statement of the session: prepare_connection_for_query_execution + execute *)
| OQueryFail      (* a statement at a moment when the DB-API connect fails: if the session has to connect, pool._connect() raises *)
| OEnd            (* db_session.__exit__: commit or rollback, then release the connection to the pool *)
| OFail           (* the session's connection is dropped: provider.drop -> pool.drop(con) -> con.close() *)
| ODisconnect.    (* db.disconnect() outside a session: Pool.disconnect (whether it compares pids is read from the source) *)

Definition is_session_op (o : op) : bool := match o with ODisconnect => false | _ => true end.

Definition add (e : list ev) (s : proc) : proc :=
  mkproc (pid s) (pcon s) (ppid s) (forked s) (ccon s) (depthc s) (serial s) (log s ++ e).

Definition step (s : proc) (o : op) : proc :=
  match o with
  | OBegin => mkproc (pid s) (pcon s) (ppid s) (forked s) (ccon s) (S (depthc s)) (serial s) (log s)
  | OQuery =>
    match depthc s with
    | O => s                                              (* TransactionError: db_session is required *)
    | S _ =>
      match ccon s with
      | Some c => add [EUse (pid s) c] s                  (* the cached connection is used as it is: no pid check here *)
      | None =>                                           (* SessionCache.connect -> provider.connect -> Pool.connect *)
        let fresh := (pid s, serial s + 1) in
        let '(pc, pp, fk, is_new, _) := pool_connect true (pid s) (pcon s) (ppid s) (forked s) fresh in
        match pc with
        | Some c => mkproc (pid s) pc pp fk (Some c) (depthc s) (if is_new then serial s + 1 else serial s)
                           (log s ++ (if is_new then [ECreate (pid s) c] else []) ++ [EUse (pid s) c])
        | None => s
        end
      end
    end
  | OQueryFail =>
    match depthc s with
    | O => s
    | S _ =>
      match ccon s with
      | Some c => add [EUse (pid s) c] s                  (* no connect needed: the statement runs on the cached connection *)
      | None =>                                           (* Pool.connect raises out of pool._connect(); the session stays without connection *)
        let fresh := (pid s, serial s + 1) in
        let '(pc, pp, fk, _, ok) := pool_connect false (pid s) (pcon s) (ppid s) (forked s) fresh in
        if ok
        then match pc with                                (* Pool.connect did not need to connect: it handed out the pooled connection *)
             | Some c => mkproc (pid s) pc pp fk (Some c) (depthc s) (serial s) (log s ++ [EUse (pid s) c])
             | None => s
             end
        else mkproc (pid s) pc pp fk None (depthc s) (serial s) (log s)
      end
    end
  | OEnd =>
    match depthc s with
    | O => s
    | S O =>
      match ccon s with
      | None => mkproc (pid s) (pcon s) (ppid s) (forked s) None 0 (serial s) (log s)
      | Some c =>                                          (* commit/rollback on c, then pool.release(c): assert, c.rollback() *)
        mkproc (pid s) (pcon s) (ppid s) (forked s) None 0 (serial s)
               (log s ++ [EUse (pid s) c] ++
                match pcon s with
                | Some c' => if conn_eqb c c' then [EUse (pid s) c] else [EAssertFail (pid s)]
                | None => [EAssertFail (pid s)]
                end)
      end
    | S d => mkproc (pid s) (pcon s) (ppid s) (forked s) (ccon s) d (serial s) (log s)
    end
  | OFail =>
    match ccon s with
    | None => s
    | Some c =>
      match pcon s with
      | Some c' => if conn_eqb c c'
                   then mkproc (pid s) None (ppid s) (forked s) None (depthc s) (serial s) (log s ++ [EClose (pid s) c])
                   else mkproc (pid s) (pcon s) (ppid s) (forked s) None (depthc s) (serial s) (log s ++ [EAssertFail (pid s)])
      | None => mkproc (pid s) None (ppid s) (forked s) None (depthc s) (serial s) (log s ++ [EAssertFail (pid s)])
      end
    end
  | ODisconnect =>
    match depthc s with
    | S _ => s                                             (* TransactionError: disconnect() inside db_session *)
    | O => match pcon s with
           | None => s
           | Some c =>
             if disconnect_checks_pid && negb (optz_eqb (ppid s) (Some (pid s)))
             then mkproc (pid s) None (ppid s) (forked s ++ [(c, ppid s)]) (ccon s) 0 (serial s) (log s)   (* inherited: parked, not closed *)
             else mkproc (pid s) None (ppid s) (forked s) (ccon s) 0 (serial s) (log s ++ [EClose (pid s) c])
           end
    end
  end.

Definition run (s : proc) (ops : list op) : proc := fold_left step ops s.

(* os.fork(): the child is a copy with its own pid; its log starts empty *)
Definition fork (parent : proc) (child_pid : Z) : proc :=
  mkproc child_pid (pcon parent) (ppid parent) (forked parent) (ccon parent) (depthc parent) (serial parent) [].

(* an event touches only a connection object created by process q *)
Definition own (q : Z) (e : ev) : Prop :=
  match e with
  | ECreate _ c | EUse _ c | EClose _ c => creator c = q
  | EAssertFail _ => False
  end.

Definition ownb (q : Z) (e : ev) : bool :=
  match e with
  | ECreate _ c | EUse _ c | EClose _ c => creator c =? q
  | EAssertFail _ => false
  end.

(* ---------------------------------------------------------------------------------------------
   OraPool: pid recorded at construction, a new cx_Oracle.SessionPool per process (generated: ora_connect) *)
Record oproc := mkoproc { opid_self : Z; cx : cxpool; opid : Z; oforked : list (cxpool * Z); occon : option conn; oserial : Z }.

(* a session connects; pool_ok / acquire_ok: do creating the SessionPool / acquiring a connection succeed *)
Definition ora_session_connect (pool_ok acquire_ok : bool) (s : oproc) : oproc * option conn :=
  let fresh := (opid_self s, oserial s + 1) in
  let '(c, cx', pid', fk, _) := ora_connect pool_ok acquire_ok (opid_self s) (cx s) (opid s) (oforked s) fresh in
  (mkoproc (opid_self s) cx' pid' fk c (oserial s + 1), c).
