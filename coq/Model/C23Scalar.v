(* C23 - scalar attributes of one object: which value a read returns, whichever path loaded it (pony/orm/core.py:
   Attribute.get -> attr.load: a lazy attribute by its own SELECT, any other by obj._load_(); Entity._db_set_ merging a fetched row
   -- from a query, a seed batch, prefetch -- into _vals_: attributes written in this session (wbits) keep the written value).
   Definitions only.  Attributes are numbered; db a = the value of column a in the row of the object. *)
Require Import PonyV.Base.PyBase.
Open Scope nat_scope.

Record sobj : Type := mkso {
  so_vals : nat -> option Z;      (* obj._vals_ *)
  so_written : nat -> bool        (* obj._wbits_ *)
}.

(* Entity._db_set_(avdict) for the attributes of a fetched row:  obj._vals_.update(new_vals) minus the written ones *)
Definition db_set (db : nat -> Z) (attrs : list nat) (o : sobj) : sobj :=
  mkso (fun a => if existsb (Nat.eqb a) attrs && negb (so_written o a) then Some (db a) else so_vals o a) (so_written o).

(* Attribute.get: present -> that value; else load (lazy: just this attribute; otherwise the row with `others`) and read again *)
Definition read (db : nat -> Z) (lazy : nat -> bool) (others : list nat) (a : nat) (o : sobj) : Z * sobj :=
  match so_vals o a with
  | Some v => (v, o)
  | None => let o' := db_set db (if lazy a then [a] else a :: others) o in
            (match so_vals o' a with Some v => v | None => db a end, o')
  end.

(* obj.attr = v *)
Definition write (a : nat) (v : Z) (o : sobj) : sobj :=
  mkso (fun b => if Nat.eqb b a then Some v else so_vals o b) (fun b => if Nat.eqb b a then true else so_written o b).

(* consistency: a present value is the database value unless it was written here; a written attribute has a value *)
Definition sinv (db : nat -> Z) (o : sobj) : Prop :=
  forall a, (forall v, so_vals o a = Some v -> so_written o a = false -> v = db a) /\ (so_written o a = true -> so_vals o a <> None).

(* what the program must see *)
Definition expected (db : nat -> Z) (o : sobj) (a : nat) : Z :=
  if so_written o a then match so_vals o a with Some v => v | None => db a end else db a.
