(* C08: compact checkers used by the correspondence run (evaluated by vm_compute against outputs of the real classes).
   Definitions only. *)
Require Import PonyV.Base.PyBase PonyV.Model.C08Base PonyV.Gen.C08Conv PonyV.Model.C08Spec.
Open Scope Z_scope.

(* short literals for numbers: m * base^e as an exact rational *)
Definition mkn (base m e : Z) : num :=
  match e with
  | Zneg p => NFin m (Z.to_pos (base ^ Zpos p))
  | _ => NFin (m * base ^ e) 1
  end.

(* outcome code of a validation: 0 = accepted and returned unchanged, n > 0 = raised exception class n *)
Definition code_of {A} (eqb : A -> A -> bool) (r : result A) (v : A) : Z :=
  match r with
  | Ok v' => if eqb v' v then 0 else (-1)
  | Err c => Z.of_nat c
  end.

(* one int declaration: expected result of IntConverter.init, then (value, expected code) pairs *)
Definition chk_int (loose_err_class : bool) (uint64 : bool) (size : option Z) (uns : option bool) (mn mx : option Z)
                   (exp_init : result int_conv) (cases : list (Z * Z)) : bool :=
  match int_init uint64 size uns mn mx, exp_init with
  | Ok c, Ok c' =>
      int_conv_eqb c c' && forallb (fun p => code_of Z.eqb (int_validate (ic_min c) (ic_max c) (fst p)) (fst p) =? snd p) cases
  | Err a, Err b => (loose_err_class || Nat.eqb a b) && match cases with [] => true | _ => false end
  | _, _ => false
  end.

Definition chk_real (mn mx : option num) (cases : list (num * Z)) : bool :=
  forallb (fun p => code_of num_eqb (real_validate mn mx (fst p)) (fst p) =? snd p) cases.
Definition chk_dec (mn mx : option num) (cases : list (num * Z)) : bool :=
  forallb (fun p => code_of num_eqb (dec_validate mn mx (fst p)) (fst p) =? snd p) cases.

(* str: (input, expected) where expected = Ok normalised | Err class *)
Definition chk_str (autostrip : bool) (max_len : option Z) (cases : list (str * result str)) : bool :=
  forallb (fun p => res_eqb str_eqb (str_validate autostrip max_len (fst p)) (snd p)) cases.

(* Attribute.validate / Required.validate on an attribute value abstracted to: None | a str | an int
   (conv: strip / identity as declared; the converter's own bound checks are covered by chk_int / chk_str) *)
Inductive aval : Type := AStr (s : str) | AInt (z : Z).
Definition aval_eqb (a b : aval) : bool :=
  match a, b with AStr x, AStr y => str_eqb x y | AInt x, AInt y => x =? y | _, _ => false end.
Definition aval_is_empty (a : aval) : bool := match a with AStr [] => true | _ => false end.
Definition aval_conv (autostrip : bool) (a : aval) : result aval :=
  match a with AStr s => Ok (AStr (if autostrip then py_strip s else s)) | AInt z => Ok (AInt z) end.
(* py_check used by the run: "is not the int 13 and not the string 'bad'" *)
Definition aval_check (a : aval) : bool :=
  match a with AInt z => negb (z =? 13) | AStr s => negb (str_eqb s [98; 97; 100]) end.

Definition chk_attr (is_required : bool) (nullable : option bool) (auto vol sqld with_check autostrip : bool)
                    (cases : list (option aval * result (option aval))) : bool :=
  forallb (fun p =>
    res_eqb (opt_eqb aval_eqb)
      (if is_required
       then required_validate (aval_conv autostrip) (if with_check then Some aval_check else None) aval_is_empty nullable auto vol sqld (fst p)
       else attribute_validate (aval_conv autostrip) (if with_check then Some aval_check else None) nullable false (fst p))
      (snd p)) cases.

(* reference checks: is_space against chr(c).isspace(), py_strip against str.strip() *)
Definition chk_space (cases : list (Z * bool)) : bool := forallb (fun p => Bool.eqb (is_space (fst p)) (snd p)) cases.
(* every code point in [lo, lo + n): is_space c  <->  c is in the list of code points CPython reports as whitespace *)
Definition chk_space_range (lo n : Z) (spaces : list Z) : bool :=
  match n with
  | Zpos p => snd (Pos.iter (fun st => (fst st + 1, snd st && Bool.eqb (is_space (fst st)) (existsb (Z.eqb (fst st)) spaces))) (lo, true) p)
  | _ => true
  end.
Definition chk_strip (cases : list (str * str)) : bool := forallb (fun p => str_eqb (py_strip (fst p)) (snd p)) cases.

(* an assignment obj.attr = v to an int attribute of an object currently holding `held` *)
Definition chk_assign_int (mn mx : option Z) (held v code : Z) : bool :=
  code_of Z.eqb (attr_set_outcome (int_validate mn mx) held v) v =? code.

(* type dispatch: the table interpreted from source vs the outcome of the real validate on the same representative *)
Definition chk_type (c : convkind) (t : pytag) (expected : tyout) : bool := tyout_eqb (type_dispatch c t) expected.
Definition chk_dec_init (p s : Z) (expected : result (Z * Z)) : bool :=
  res_eqb (fun a b => (fst a =? fst b) && (snd a =? snd b)) (dec_init p s) expected.
