(* Session model, base layer: values, small list utilities, association lists (definitions only, no proofs).
   Shared by Model/SessionDb.v and Model/Session.v (C09-C14). *)
From Coq Require Export ZArith List Bool Lia.
Export ListNotations.
Open Scope Z_scope.

Definition oid := nat.

(* In-memory attribute values.  Strings are code-point lists.  VRef o : the Python object with identity o.
   In database rows references are stored as VInt pk / VNone. *)
Inductive val : Type := VNone | VInt (z : Z) | VStr (s : list Z) | VRef (o : oid).

Fixpoint lz_eqb (a b : list Z) : bool :=
  match a, b with
  | [], [] => true
  | x :: a', y :: b' => Z.eqb x y && lz_eqb a' b'
  | _, _ => false
  end.

Definition val_eqb (a b : val) : bool :=
  match a, b with
  | VNone, VNone => true
  | VInt x, VInt y => Z.eqb x y
  | VStr x, VStr y => lz_eqb x y
  | VRef x, VRef y => Nat.eqb x y
  | _, _ => false
  end.

Definition is_vnone (v : val) : bool := match v with VNone => true | _ => false end.

Definition oval_eqb (a b : option val) : bool :=
  match a, b with
  | None, None => true
  | Some x, Some y => val_eqb x y
  | _, _ => false
  end.

Definition oz_eqb (a b : option Z) : bool :=
  match a, b with
  | None, None => true
  | Some x, Some y => Z.eqb x y
  | _, _ => false
  end.

(* ---------------------------------------------------------------- lists *)

Fixpoint upd_nth {A} (l : list A) (i : nat) (x : A) : list A :=
  match l, i with
  | [], _ => []
  | _ :: t, O => x :: t
  | h :: t, S j => h :: upd_nth t j x
  end.

Fixpoint mem_nat (x : nat) (l : list nat) : bool :=
  match l with
  | [] => false
  | y :: t => Nat.eqb x y || mem_nat x t
  end.

Definition remove_nat (x : nat) (l : list nat) : list nat := filter (fun y => negb (Nat.eqb x y)) l.

(* set-like insertion: keeps the list duplicate free *)
Definition add_nat (x : nat) (l : list nat) : list nat := if mem_nat x l then l else l ++ [x].

Definition union_nat (l m : list nat) : list nat := fold_left (fun acc x => add_nat x acc) m l.
Definition diff_nat (l m : list nat) : list nat := filter (fun x => negb (mem_nat x m)) l.
Definition inter_nat (l m : list nat) : list nat := filter (fun x => mem_nat x m) l.
Definition dedup_nat (l : list nat) : list nat := union_nat [] l.

Fixpoint list_eqb {A} (eqb : A -> A -> bool) (a b : list A) : bool :=
  match a, b with
  | [], [] => true
  | x :: a', y :: b' => eqb x y && list_eqb eqb a' b'
  | _, _ => false
  end.

Definition subset_nat (l m : list nat) : bool := forallb (fun x => mem_nat x m) l.
Definition seteq_nat (l m : list nat) : bool := subset_nat l m && subset_nat m l.

(* insertion sort on a key *)
Fixpoint insert_by {A} (le : A -> A -> bool) (x : A) (l : list A) : list A :=
  match l with
  | [] => [x]
  | y :: t => if le x y then x :: l else y :: insert_by le x t
  end.
Definition sort_by {A} (le : A -> A -> bool) (l : list A) : list A := fold_right (insert_by le) [] l.

(* ---------------------------------------------------------------- association lists with a decidable key *)

Section Assoc.
  Context {K V : Type} (keqb : K -> K -> bool).
  Fixpoint aget (k : K) (l : list (K * V)) : option V :=
    match l with
    | [] => None
    | (k', v) :: t => if keqb k' k then Some v else aget k t
    end.
  Definition adel (k : K) (l : list (K * V)) : list (K * V) := filter (fun p => negb (keqb (fst p) k)) l.
  Definition aset (k : K) (v : V) (l : list (K * V)) : list (K * V) := (k, v) :: adel k l.
End Assoc.

(* ---------------------------------------------------------------- schema (Stage 1 space, DESIGN Appendix A.1)
   entity e = class E<e> with `id = PrimaryKey(int[, auto=True])` followed by the attributes in list order.
   KRef tgt rev : Required/Optional(E<tgt>, reverse=a<rev>)  (many-to-one)
   KSet tgt rev : Set(E<tgt>, reverse=a<rev>)                (its one-to-many reverse)
   cascade_delete keeps Pony's default: a Set whose reverse is Required deletes its items, otherwise unlinks them. *)
Inductive akind : Type := KInt | KStr | KRef (tgt rev : nat) | KSet (tgt rev : nat).
Record attr : Type := mkAttr { a_kind : akind; a_req : bool; a_uniq : bool }.
Record ent : Type := mkEnt { e_auto : bool; e_attrs : list attr }.
Definition schema := list ent.

Definition get_attr (sch : schema) (e a : nat) : option attr :=
  match nth_error sch e with Some en => nth_error (e_attrs en) a | None => None end.
Definition nattrs (sch : schema) (e : nat) : nat :=
  match nth_error sch e with Some en => length (e_attrs en) | None => O end.
Definition ent_auto (sch : schema) (e : nat) : bool :=
  match nth_error sch e with Some en => e_auto en | None => false end.
Definition attr_uniq (sch : schema) (e a : nat) : bool :=
  match get_attr sch e a with Some at_ => a_uniq at_ | None => false end.
Definition is_set_kind (k : akind) : bool := match k with KSet _ _ => true | _ => false end.
Definition is_ref_kind (k : akind) : bool := match k with KRef _ _ => true | _ => false end.
Definition is_scalar_kind (k : akind) : bool := match k with KInt | KStr => true | _ => false end.

(* well-formed Stage 1 schema: relationships are paired, no self relations, only scalar attributes are unique,
   optional strings are not unique *)
Definition wf_attr (sch : schema) (e : nat) (a : nat) (at_ : attr) : bool :=
  match a_kind at_ with
  | KInt => true
  | KStr => negb (a_uniq at_) || a_req at_
  | KRef t r => negb (a_uniq at_) && negb (Nat.eqb t e) &&
                match get_attr sch t r with Some (mkAttr (KSet t' r') _ _) => Nat.eqb t' e && Nat.eqb r' a | _ => false end
  | KSet t r => negb (a_uniq at_) && negb (a_req at_) && negb (Nat.eqb t e) &&
                match get_attr sch t r with Some (mkAttr (KRef t' r') _ _) => Nat.eqb t' e && Nat.eqb r' a | _ => false end
  end.
Fixpoint forallb_i {A} (f : nat -> A -> bool) (i : nat) (l : list A) : bool :=
  match l with [] => true | x :: t => f i x && forallb_i f (S i) t end.
Definition wf_schema (sch : schema) : bool :=
  forallb_i (fun e en => forallb_i (fun a at_ => wf_attr sch e a at_) O (e_attrs en)) O sch.
