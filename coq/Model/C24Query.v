(* C24 - list-semantics model of Pony's query methods.  Definitions only (the proofs are in Proofs/C24*.v).

   Translated from /repo on every run (Gen/C24Window.v): combine_limit_and_offset, Query.__getitem__, page, limit, fetch,
   and the DISTINCT decision of construct_sql_ast.  Hand-written here (tied by the correspondence run of tools/props/c24.py):
   how those pieces are composed by Query._actual_fetch / construct_sql_ast / process_query_qual / first / get / exists /
   _aggregate / delete, and the SQL meaning of LIMIT/OFFSET, DISTINCT and ORDER BY on a list of rows. *)
Require Import PonyV.Base.PyBase PonyV.Base.Seg PonyV.Gen.C24Window.

(* (limit, offset); None = clause absent *)
Definition window := (option Z * option Z)%type.
Definition no_window : window := (None, None).

Definition onat (x : option Z) : bool := match x with None => true | Some v => 0 <=? v end.
Definition window_ok (w : window) : bool := onat (fst w) && onat (snd w).

Definition combine (w1 w2 : window) : window := combine_limit_and_offset (fst w1) (snd w1) (fst w2) (snd w2).

(* the three ways construct_sql_ast spells "no limit" when only an offset is present, and what each engine does with the section
   it gets:  ['LIMIT', limit]  or  ['LIMIT', limit, offset]  (offset appended only when truthy) *)
Inductive dialect3 := DSQLite | DPostgreSQL | DMySQL.
Definition mysql_no_limit : Z := 18446744073709551615.

Definition limit_section (d : dialect3) (w : window) : option (option Z * option Z) :=
  match w with
  | (None, None) => None
  | (l, o) =>
      let l' := match l with
                | Some v => Some v
                | None => match d with DSQLite => Some (-1) | DMySQL => Some mysql_no_limit | DPostgreSQL => None end
                end in
      let o' := match o with Some v => if v =? 0 then None else Some v | None => None end in
      Some (l', o')
  end.

Section Win.
Context {A : Type}.

(* SQL: ... LIMIT l OFFSET o over an ordered row list *)
Definition win (w : window) (R : list A) : list A :=
  let R' := match snd w with None => R | Some o => skipn (Z.to_nat o) R end in
  match fst w with None => R' | Some l => firstn (Z.to_nat l) R' end.

(* engine semantics of the emitted section: SQLite treats a negative LIMIT as "no limit"; PostgreSQL LIMIT NULL likewise *)
Definition sem_limit_section (d : dialect3) (s : option (option Z * option Z)) (R : list A) : list A :=
  match s with
  | None => R
  | Some (l, o) =>
      let R' := match o with None => R | Some v => skipn (Z.to_nat v) R end in
      match l with
      | None => R'
      | Some v => match d with
                  | DSQLite => if v <? 0 then R' else firstn (Z.to_nat v) R'
                  | _ => firstn (Z.to_nat v) R'
                  end
      end
  end.

End Win.

(* ------------------------------------------------------------------------------------------------ queries *)

Section Query.
Context {A : Type}.
Variable eqb : A -> A -> bool.          (* row equality, as SQL DISTINCT sees it *)

(* keep the first occurrence of every row *)
Fixpoint remove_all (x : A) (l : list A) : list A :=
  match l with [] => [] | y :: r => if eqb x y then remove_all x r else y :: remove_all x r end.
Fixpoint dedup (l : list A) : list A :=
  match l with [] => [] | x :: r => x :: remove_all x (dedup r) end.
Definition dedup_if (b : bool) (l : list A) : list A := if b then dedup l else l.

(* ORDER BY: every term is an integer-valued key of the row (DESC = negated key); lexicographic; stable insertion sort *)
Fixpoint lex_leb (a b : list Z) : bool :=
  match a, b with
  | [], _ => true
  | _ :: _, [] => false
  | x :: a', y :: b' => (x <? y) || ((x =? y) && lex_leb a' b')
  end.
Definition keyvec (ks : list (A -> Z)) (x : A) : list Z := map (fun k => k x) ks.
Definition row_leb (ks : list (A -> Z)) (x y : A) : bool := lex_leb (keyvec ks x) (keyvec ks y).
Fixpoint insert (ks : list (A -> Z)) (x : A) (l : list A) : list A :=
  match l with [] => [x] | y :: r => if row_leb ks x y then x :: y :: r else y :: insert ks x r end.
Fixpoint isort (ks : list (A -> Z)) (l : list A) : list A :=
  match l with [] => [] | x :: r => insert ks x (isort ks r) end.

Record query := {
  q_rows : list A;              (* rows of FROM after projection, in scan order *)
  q_keep : A -> bool;           (* conjunction of the WHERE conditions *)
  q_order : list (A -> Z);      (* translator.order, most significant first *)
  q_tdistinct : bool;           (* translator.distinct *)
  q_distinct : option bool;     (* Query._distinct *)
  q_window : window             (* translator.limit, translator.offset *)
}.

Definition has_order (q : query) : bool := match q_order q with [] => false | _ => true end.
(* construct_sql_ast, translated: DISTINCT or ALL *)
Definition eff_distinct (q : query) : bool := select_distinct (q_distinct q) (has_order q) (q_tdistinct q).

(* SELECT [DISTINCT] .. WHERE .. ORDER BY ..  without its LIMIT section *)
Definition full (q : query) : list A :=
  isort (q_order q) (dedup_if (eff_distinct q) (filter (q_keep q) (q_rows q))).

(* Query._actual_fetch(limit, offset): construct_sql_ast combines translator.limit/offset with the arguments *)
Definition fetch (q : query) (w : window) : list A := win (combine (q_window q) w) (full q).
Definition q_list (q : query) : list A := fetch q no_window.            (* list(q), q[:] *)

Definition fetch_res (q : query) (r : result window) : result (list A) :=
  match r with Ok w => Ok (fetch q w) | Err e => Err e end.
Definition q_getitem (q : query) (a b : option Z) : result (list A) := fetch_res q (query_getitem true a b None).
Definition q_limit (q : query) (l o : option Z) : result (list A) := fetch_res q (query_limit l o).
Definition q_page (q : query) (n size : Z) : result (list A) := fetch_res q (query_page n size).

(* query-rewriting methods *)
Definition add_filter (p : A -> bool) (q : query) : query :=
  {| q_rows := q_rows q; q_keep := fun x => q_keep q x && p x; q_order := q_order q; q_tdistinct := q_tdistinct q;
     q_distinct := q_distinct q; q_window := q_window q |}.
Definition add_order (ks : list (A -> Z)) (q : query) : query :=      (* order[:0] = new_order *)
  {| q_rows := q_rows q; q_keep := q_keep q; q_order := ks ++ q_order q; q_tdistinct := q_tdistinct q;
     q_distinct := q_distinct q; q_window := q_window q |}.
Definition set_distinct (d : bool) (q : query) : query :=              (* distinct() / without_distinct() *)
  {| q_rows := q_rows q; q_keep := q_keep q; q_order := q_order q; q_tdistinct := q_tdistinct q;
     q_distinct := Some d; q_window := q_window q |}.
(* select(x for x in q.limit(l, o)) / q.page(..): process_query_qual with try_extend_prev_query re-uses the translator of q *)
Definition nest (q : query) (w : window) : query :=
  {| q_rows := q_rows q; q_keep := q_keep q; q_order := q_order q; q_tdistinct := q_tdistinct q;
     q_distinct := None; q_window := combine (q_window q) w |}.

(* exists(): bool(query[:1]);  get(): query[:2];  first(): order if unordered, without_distinct()[:1] *)
Definition ok_list (r : result (list A)) : list A := match r with Ok l => l | Err _ => [] end.
Definition q_exists (q : query) : bool := match ok_list (q_getitem q None (Some 1)) with [] => false | _ => true end.
Definition q_get (q : query) : result (option A) :=
  match ok_list (q_getitem q None (Some 2)) with
  | [] => Ok None
  | [x] => Ok (Some x)
  | _ => Err 1%nat                         (* MultipleObjectsFoundError *)
  end.
Definition q_first (dflt : list (A -> Z)) (q : query) : option A :=
  let q1 := if has_order q then q else add_order dflt q in
  hd_error (ok_list (q_getitem (set_distinct false q1) None (Some 1))).

(* delete(bulk=True): a query that carries a LIMIT/OFFSET (it iterates over a limited subquery) takes the per-object path
   (`if not bulk or translator.limit is not None or translator.offset is not None`); otherwise construct_delete_sql_ast deletes the
   rows that satisfy translator.conditions.  delete(): _actual_fetch() then obj._delete_() *)
Definition bulk_deleted (q : query) : list A :=
  match q_window q with
  | (None, None) => filter (q_keep q) (q_rows q)
  | _ => q_list q
  end.
Definition plain_deleted (q : query) : list A := q_list q.

End Query.

Arguments q_rows {A}. Arguments q_keep {A}. Arguments q_order {A}. Arguments q_tdistinct {A}. Arguments q_distinct {A}. Arguments q_window {A}.
Arguments Build_query {A}.

(* ------------------------------------------------------------------------------------------------ aggregates (single integer column) *)

(* what the SQL aggregate returns for the rows it sees: NULL (None) over no rows, except COUNT *)
Definition zsum (l : list Z) : Z := fold_right Z.add 0 l.
Fixpoint zmin (l : list Z) : option Z :=
  match l with [] => None | x :: r => match zmin r with None => Some x | Some m => Some (Z.min x m) end end.
Fixpoint zmax (l : list Z) : option Z :=
  match l with [] => None | x :: r => match zmax r with None => Some x | Some m => Some (Z.max x m) end end.

Inductive aggr := ASum | AMin | AMax | AAvg | ACount.
(* AVG is reported as the exact pair (sum, count) *)
Inductive aggval := VNone | VInt (z : Z) | VRat (num den : Z).

Definition sql_aggregate (f : aggr) (l : list Z) : aggval :=
  match f with
  | ACount => VInt (zlen l)
  | ASum => match l with [] => VNone | _ => VInt (zsum l) end
  | AMin => match zmin l with None => VNone | Some m => VInt m end
  | AMax => match zmax l with None => VNone | Some m => VInt m end
  | AAvg => match l with [] => VNone | _ => VRat (zsum l) (zlen l) end
  end.

(* Query._aggregate post-processing: `if result is None and aggr_func_name == 'SUM': result = 0` *)
Definition aggregate_post (f : aggr) (v : aggval) : aggval :=
  match f, v with ASum, VNone => VInt 0 | _, _ => v end.

(* the aggregate branch of construct_sql_ast for a query whose expression is one scalar column: the rows the aggregate function
   sees are the WHERE-filtered rows; DISTINCT inside the function is decided by the method's own `distinct` argument only
   (COUNT: default DISTINCT, or -- count_default_follows_query -- the query's own), otherwise never by the query's DISTINCT; ORDER BY is dropped; a window is refused (assert) *)
Definition aggr_distinct (f : aggr) (arg : option bool) (q : query (A:=Z)) : bool :=
  match arg with
  | Some d => d
  | None => match f with
            | ACount => if count_default_follows_query then eff_distinct q else true      (* scanned from /repo *)
            | _ => false
            end
  end.
Definition q_aggregate (f : aggr) (arg : option bool) (q : query (A:=Z)) : result aggval :=
  match combine (q_window q) no_window with
  | (None, None) => Ok (aggregate_post f (sql_aggregate f (dedup_if Z.eqb (aggr_distinct f arg q) (filter (q_keep q) (q_rows q)))))
  | _ => Err 2%nat                         (* AssertionError in construct_sql_ast *)
  end.
(* the Python operation on R = list(q) *)
Definition py_aggregate (f : aggr) (R : list Z) : aggval :=
  match f with
  | ACount => VInt (zlen R)
  | ASum => VInt (zsum R)
  | AMin => match zmin R with None => VNone | Some m => VInt m end
  | AMax => match zmax R with None => VNone | Some m => VInt m end
  | AAvg => match R with [] => VNone | _ => VRat (zsum R) (zlen R) end
  end.

(* count() of an entity query: COUNT( * ) (or COUNT(DISTINCT pk)) over the WHERE-filtered rows; primary keys are unique *)
Definition q_count_rows {A} (q : query (A:=A)) : result Z :=
  match combine (q_window q) no_window with
  | (None, None) => Ok (zlen (filter (q_keep q) (q_rows q)))
  | _ => Err 2%nat
  end.

(* group_concat(): an aggregate query has no ORDER BY, so the values are concatenated in scan order; DISTINCT only by the
   method's own argument (modelled as the list of concatenated values) *)
Definition q_group_concat (arg : option bool) (q : query (A:=Z)) : result (list Z) :=
  match combine (q_window q) no_window with
  | (None, None) => Ok (dedup_if Z.eqb (match arg with Some d => d | None => false end) (filter (q_keep q) (q_rows q)))
  | _ => Err 2%nat
  end.

(* count() of a query whose expression is a tuple (here: two integer columns).  construct_sql_ast: when the query is executed with
   DISTINCT the count is taken over a subquery, SELECT COUNT( * ) FROM (SELECT DISTINCT ...) -- count(distinct=True) is refused there by
   `assert len(expr_columns) == 1`; without DISTINCT it is COUNT( * ), or COUNT(DISTINCT <first column>) for count(distinct=True) *)
Definition zz_eqb (x y : Z * Z) : bool := (fst x =? fst y) && (snd x =? snd y).
Definition q_count_pair (arg : option bool) (q : query (A:=Z * Z)) : result Z :=
  match combine (q_window q) no_window with
  | (None, None) =>
      let L := filter (q_keep q) (q_rows q) in
      if eff_distinct q then match arg with Some true => Err 2%nat | _ => Ok (zlen (dedup zz_eqb L)) end
      else match arg with Some true => Ok (zlen (dedup Z.eqb (map fst L))) | _ => Ok (zlen L) end
  | _ => Err 2%nat
  end.

(* ------------------------------------------------------------------------------------------------ boolean equalities for the correspondence run *)

Definition oz_eqb (a b : option Z) : bool := match a, b with None, None => true | Some x, Some y => x =? y | _, _ => false end.
Definition window_eqb (a b : window) : bool := oz_eqb (fst a) (fst b) && oz_eqb (snd a) (snd b).
Definition rwindow_eqb (a b : result window) : bool :=
  match a, b with Ok x, Ok y => window_eqb x y | Err i, Err j => Nat.eqb i j | _, _ => false end.
Fixpoint zlist_eqb (a b : list Z) : bool :=
  match a, b with [], [] => true | x :: r, y :: s => (x =? y) && zlist_eqb r s | _, _ => false end.
Definition osection_eqb (a b : option (option Z * option Z)) : bool :=
  match a, b with None, None => true | Some x, Some y => window_eqb x y | _, _ => false end.
Definition aggval_eqb (a b : aggval) : bool :=
  match a, b with
  | VNone, VNone => true | VInt x, VInt y => x =? y | VRat a1 a2, VRat b1 b2 => (a1 =? b1) && (a2 =? b2) | _, _ => false end.
Definition raggval_eqb (a b : result aggval) : bool :=
  match a, b with Ok x, Ok y => aggval_eqb x y | Err i, Err j => Nat.eqb i j | _, _ => false end.
Definition rzlist_eqb (a b : result (list Z)) : bool :=
  match a, b with Ok x, Ok y => zlist_eqb x y | Err i, Err j => Nat.eqb i j | _, _ => false end.

Fixpoint failing_from (n : nat) (l : list bool) : list nat :=
  match l with [] => [] | b :: r => (if b then [] else [n]) ++ failing_from (S n) r end.
Definition failing (l : list bool) : list nat := failing_from 0 l.

(* concrete integer-row queries used by the correspondence run and the witnesses: rows are integers, the sort key is the row *)
Definition rz_eqb (a b : result Z) : bool :=
  match a, b with Ok x, Ok y => x =? y | Err i, Err j => Nat.eqb i j | _, _ => false end.
Definition zquery (rows : list Z) (keep : Z -> bool) (ordered tdistinct : bool) (d : option bool) (w : window) : query (A:=Z) :=
  Build_query rows keep (if ordered then [fun x => x] else []) tdistinct d w.

Definition zzquery (rows : list (Z * Z)) (keep : Z * Z -> bool) (ordered tdistinct : bool) (d : option bool) (w : window) : query (A:=Z * Z) :=
  Build_query rows keep (if ordered then [fun x => fst x; fun x => snd x] else []) tdistinct d w.
