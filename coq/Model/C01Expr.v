(* C01 - the scalar filter/projection grammar over one entity, Python values, static types and the reference
   semantics (the documented meaning of a declarative query).  Definitions only; proofs are in Proofs/C01*.v.

   Reference semantics, exactly:
   * a missing attribute value is None; None as operand of an arithmetic / string / len / abs / min / max operation
     makes the result None;
   * a comparison (== != < <= > >=, in, not in) with a None operand is UNKNOWN; `x == None`, `x is None`,
     `x != None`, `x is not None` (None written in the query, or an external parameter whose value is None) are
     two-valued tests;
   * and / or / not over comparison results follow Kleene's three-valued logic;
   * a *value* (attribute, arithmetic result, ...) used where a truth value is needed (operand of and/or/not, test
     of an if-expression, the filter itself) is tested as Python does: None, 0, '' and False are false
     (`not None` is True);
   * a filter keeps a row iff the condition is TRUE (unknown and false drop it);
   * x if c else y takes y unless c is TRUE; coalesce returns the first argument that is not None.
   [reval false] is this semantics.  [reval true] is the variant that Pony implements: a None *value* used as an
   operand of and/or or as a test is UNKNOWN instead of false (it differs from the reference only below a `not`;
   see Proofs/C01Ref.v and the finding not-over-truth-test-of-null-value). *)
Require Import PonyV.Base.PyBase.

Definition str := list Z.

Inductive vty : Type := TInt | TStr | TBool.
Inductive ty : Type := TV (t : vty) | TCond | TNone.

Record attr : Type := mkattr { a_id : nat; a_ty : vty; a_null : bool }.

Inductive aop : Type := Add | Sub | Mul | FloorDiv | Mod | TrueDiv.
Inductive cop : Type := CEq | CNe | CLt | CLe | CGt | CGe | CIs | CIsNot.
Inductive lit : Type := LInt (z : Z) | LStr (s : str).

Inductive expr : Type :=
| EAttr (a : attr)                         (* p.a                                   *)
| EInt (z : Z) | EStr (s : str) | EBool (b : bool) | ENone     (* literals           *)
| EParam (i : nat) (t : option vty)        (* external name; t = None: its value is None (vartype NoneType) *)
| ECol (i : nat) (t : vty) (nullable : bool)   (* the value of a scalar subquery (count / sum / min / max over a collection, Model/C01Form.v),
                                              held by column i of the environment: an ExprMonad, not an attribute *)
| ESub (i : nat)                           (* the truth value of a subquery condition (EXISTS / IN over a collection, Model/C01Coll.v),
                                              held by column i of the environment *)
| EArith (op : aop) (a b : expr)           (* a + b, a - b, a * b, a // b, a % b, a / b *)
| ENeg (a : expr) | EAbs (a : expr)        (* -a, abs(a)                            *)
| EConcat (a b : expr)                     (* a + b on strings                      *)
| ELen (a : expr)                          (* len(a)                                *)
| ECmp (op : cop) (a b : expr)             (* a == b, ..., a is None                *)
| EAnd (a b : expr) | EOr (a b : expr) | ENot (a : expr)
| EIn (neg : bool) (a : expr) (items : list lit)   (* a in (c1, ..., cn) / a not in (...) *)
| EIf (c t f : expr)                       (* t if c else f                         *)
| ECoalesce (args : list expr)             (* coalesce(a1, ..., an), n >= 2         *)
| EMinMax (is_max : bool) (args : list expr).      (* min(a1, ..., an) / max(...), n >= 2 *)

(* ------------------------------------------------------------------------------------------- static types *)

Definition vty_eqb (a b : vty) : bool :=
  match a, b with TInt, TInt | TStr, TStr | TBool, TBool => true | _, _ => false end.

Definition ty_eqb (a b : ty) : bool :=
  match a, b with TV x, TV y => vty_eqb x y | TCond, TCond | TNone, TNone => true | _, _ => false end.

Definition is_numeric (t : vty) : bool := match t with TStr => false | _ => true end.

(* coerce_types of pony.orm.ormtypes on {int, str, bool} *)
Definition coerce_vty (a b : vty) : option vty :=
  match a, b with
  | TInt, TInt | TInt, TBool | TBool, TInt => Some TInt
  | TBool, TBool => Some TBool
  | TStr, TStr => Some TStr
  | _, _ => None
  end.

Definition lit_vty (l : lit) : vty := match l with LInt _ => TInt | LStr _ => TStr end.

Definition is_ordering (op : cop) : bool := match op with CLt | CLe | CGt | CGe => true | _ => false end.
Definition is_identity (op : cop) : bool := match op with CIs | CIsNot => true | _ => false end.

(* type of `a op b` given the operand types *)
Definition cmp_ty (op : cop) (ta tb : ty) : option ty :=
  match ta, tb with
  | TV x, TV y =>
      if is_identity op then None
      else match x, y with
           | TStr, TStr => Some TCond
           | TStr, _ | _, TStr => None
           | _, _ => Some TCond
           end
  | TV _, TNone | TNone, TV _ => if is_ordering op then None else Some TCond
  | _, _ => None
  end.

Definition boolable (t : ty) : bool := match t with TV _ | TCond => true | TNone => false end.

Definition all_same (t : vty) (l : list (option ty)) : bool :=
  forallb (fun o => match o with Some (TV u) => vty_eqb t u | _ => false end) l.

Fixpoint ty_of (e : expr) : option ty :=
  match e with
  | EAttr a => Some (TV (a_ty a))
  | EInt _ => Some (TV TInt)
  | EStr _ => Some (TV TStr)
  | EBool _ => Some (TV TBool)
  | ENone => Some TNone
  | EParam _ (Some t) => Some (TV t)
  | EParam _ None => Some TNone
  | ECol _ t _ => Some (TV t)
  | ESub _ => Some TCond
  | EArith _ a b =>
      match ty_of a, ty_of b with
      | Some (TV TInt), Some (TV TInt) | Some (TV TInt), Some (TV TBool) | Some (TV TBool), Some (TV TInt) => Some (TV TInt)
      | _, _ => None
      end
  | ENeg a | EAbs a => match ty_of a with Some (TV TInt) => Some (TV TInt) | _ => None end
  | EConcat a b => match ty_of a, ty_of b with Some (TV TStr), Some (TV TStr) => Some (TV TStr) | _, _ => None end
  | ELen a => match ty_of a with Some (TV TStr) => Some (TV TInt) | _ => None end
  | ECmp op a b => match ty_of a, ty_of b with Some ta, Some tb => cmp_ty op ta tb | _, _ => None end
  | EAnd a b | EOr a b =>
      match ty_of a, ty_of b with Some ta, Some tb => if boolable ta && boolable tb then Some TCond else None | _, _ => None end
  | ENot a => match ty_of a with Some ta => if boolable ta then Some TCond else None | None => None end
  | EIn _ a items =>
      match ty_of a with
      | Some (TV TInt) => if forallb (fun l => vty_eqb (lit_vty l) TInt) items then Some TCond else None
      | Some (TV TStr) => if forallb (fun l => vty_eqb (lit_vty l) TStr) items then Some TCond else None
      | _ => None
      end
  | EIf c t f =>
      match ty_of c, ty_of t, ty_of f with
      | Some tc, Some (TV x), Some (TV y) =>
          match tc with
          | TCond | TV _ => if vty_eqb x y then Some (TV x) else None      (* an int test raised before repo commit 809623a *)
          | _ => None
          end
      | _, _, _ => None
      end
  | ECoalesce args =>
      match map ty_of args with
      | Some (TV t) :: (_ :: _) as rest => if all_same t rest then Some (TV t) else None
      | _ => None
      end
  | EMinMax _ args =>
      match map ty_of args with
      | Some (TV t) :: (_ :: _) as rest =>
          match t with TBool => None | _ => if all_same t rest then Some (TV t) else None end
      | _ => None
      end
  end.

Definition typed (e : expr) : Prop := ty_of e <> None.

(* ------------------------------------------------------------------------------------------- values *)

Inductive pyv : Type := PNone | PInt (z : Z) | PStr (s : str) | PBool (b : bool).
Inductive tv : Type := T | F | U.

Definition and3 (a b : tv) : tv :=
  match a, b with F, _ | _, F => F | T, T => T | _, _ => U end.
Definition or3 (a b : tv) : tv :=
  match a, b with T, _ | _, T => T | F, F => F | _, _ => U end.
Definition not3 (a : tv) : tv := match a with T => F | F => T | U => U end.
Definition tv_of_bool (b : bool) : tv := if b then T else F.

(* a comparison result as a Python-side value: True / False / None (= unknown) *)
Definition py_of_tv (t : tv) : pyv := match t with T => PBool true | F => PBool false | U => PNone end.
Definition tv_of_py (v : pyv) : tv := match v with PBool true => T | PBool false => F | _ => U end.

(* Python truth test of a value *)
Definition truthy (v : pyv) : bool :=
  match v with PNone => false | PInt z => negb (z =? 0) | PStr s => match s with [] => false | _ => true end | PBool b => b end.

Definition b2z (b : bool) : Z := if b then 1 else 0.

(* numeric reading of an int / bool value *)
Definition int_of (v : pyv) : option Z :=
  match v with PInt z => Some z | PBool b => Some (b2z b) | _ => None end.

Fixpoint str_compare (a b : str) : comparison :=
  match a, b with
  | [], [] => Eq
  | [], _ :: _ => Lt
  | _ :: _, [] => Gt
  | x :: a', y :: b' => match x ?= y with Eq => str_compare a' b' | c => c end
  end.

Definition cmp_res (op : cop) (c : comparison) : bool :=
  match op, c with
  | (CEq | CIs), Eq => true | (CEq | CIs), _ => false
  | (CNe | CIsNot), Eq => false | (CNe | CIsNot), _ => true
  | CLt, Lt => true | CLt, _ => false
  | CLe, Gt => false | CLe, _ => true
  | CGt, Gt => true | CGt, _ => false
  | CGe, Lt => false | CGe, _ => true
  end.

(* three-valued comparison of two values of comparable types *)
Definition cmp3 (op : cop) (a b : pyv) : tv :=
  match a, b with
  | PNone, _ | _, PNone => U
  | PStr x, PStr y => tv_of_bool (cmp_res op (str_compare x y))
  | _, _ => match int_of a, int_of b with
            | Some x, Some y => tv_of_bool (cmp_res op (x ?= y))
            | _, _ => U
            end
  end.

Definition is_none (v : pyv) : bool := match v with PNone => true | _ => false end.

(* `v == None` / `v != None` *)
Definition none_test (op : cop) (v : pyv) : tv :=
  match op with CEq | CIs => tv_of_bool (is_none v) | _ => tv_of_bool (negb (is_none v)) end.

Definition py_arith (op : aop) (x y : Z) : Z :=
  match op with
  | Add => x + y | Sub => x - y | Mul => x * y
  | FloorDiv => py_floordiv x y | Mod => py_mod x y
  | TrueDiv => x / y                       (* only meaningful when y divides x (see [safe]) *)
  end.

Definition lit_val (l : lit) : pyv := match l with LInt z => PInt z | LStr s => PStr s end.

Fixpoint first_some (l : list pyv) : pyv :=
  match l with [] => PNone | PNone :: r => first_some r | v :: _ => v end.

Definition pick (is_max : bool) (lt : bool) (a b : pyv) : pyv :=
  (* lt = (a < b) *) if is_max then (if lt then b else a) else (if lt then a else b).

Definition minmax2 (is_max : bool) (a b : pyv) : pyv :=
  match a, b with
  | PInt x, PInt y => pick is_max (x <? y) a b
  | PStr x, PStr y => pick is_max (match str_compare x y with Lt => true | _ => false end) a b
  | _, _ => PNone
  end.

Definition minmax_list (is_max : bool) (l : list pyv) : pyv :=
  match l with [] => PNone | v :: r => fold_left (minmax2 is_max) r v end.

Record env : Type := mkenv { attr_val : nat -> pyv; param_val : nat -> pyv }.

Section Ref.
(* k3 = true : a None value in a truth-test position is UNKNOWN (Pony's reading); false : it is false (reference) *)
Variable k3 : bool.
Variable en : env.

(* truth value of the evaluated operand e (static type decides whether v is a condition or a value) *)
Definition truth3 (te : option ty) (v : pyv) : tv :=
  match te with
  | Some TCond => tv_of_py v
  | _ => match v with PNone => if k3 then U else F | _ => tv_of_bool (truthy v) end
  end.

Fixpoint reval (e : expr) : pyv :=
  match e with
  | EAttr a => attr_val en (a_id a)
  | EInt z => PInt z
  | EStr s => PStr s
  | EBool b => PBool b
  | ENone => PNone
  | EParam i _ => param_val en i
  | ECol i _ _ => attr_val en i
  | ESub i => attr_val en i
  | EArith op a b =>
      match int_of (reval a), int_of (reval b) with
      | Some x, Some y => PInt (py_arith op x y)
      | _, _ => PNone
      end
  | ENeg a => match reval a with PInt x => PInt (- x) | _ => PNone end
  | EAbs a => match reval a with PInt x => PInt (Z.abs x) | _ => PNone end
  | EConcat a b => match reval a, reval b with PStr x, PStr y => PStr (x ++ y) | _, _ => PNone end
  | ELen a => match reval a with PStr x => PInt (zlen x) | _ => PNone end
  | ECmp op a b =>
      match ty_of a, ty_of b with
      | _, Some TNone => py_of_tv (none_test op (reval a))
      | Some TNone, _ => py_of_tv (none_test op (reval b))
      | _, _ => py_of_tv (cmp3 op (reval a) (reval b))
      end
  | EAnd a b => py_of_tv (and3 (truth3 (ty_of a) (reval a)) (truth3 (ty_of b) (reval b)))
  | EOr a b => py_of_tv (or3 (truth3 (ty_of a) (reval a)) (truth3 (ty_of b) (reval b)))
  | ENot a =>
      match ty_of a with
      | Some TCond => py_of_tv (not3 (tv_of_py (reval a)))
      | _ => PBool (negb (truthy (reval a)))          (* not None = True *)
      end
  | EIn neg a items =>
      let v := reval a in
      let r := fold_right (fun l acc => or3 (cmp3 CEq v (lit_val l)) acc) F items in
      py_of_tv (if neg then not3 r else r)
  | EIf c t f => match truth3 (ty_of c) (reval c) with T => reval t | _ => reval f end
  | ECoalesce args => first_some (map reval args)
  | EMinMax is_max args => minmax_list is_max (map reval args)
  end.
End Ref.

Definition ref_eval := reval false.      (* the reference (documented) meaning *)
Definition pony_eval := reval true.      (* the three-valued reading implemented by the translator *)

(* does a filter keep the row? *)
Definition py_truthy (e : expr) (v : pyv) : bool :=
  match ty_of e with Some TCond => match v with PBool true => true | _ => false end | _ => truthy v end.

(* ------------------------------------------------------------------------------------------- environments *)

Definition has_vty (v : pyv) (t : vty) : bool :=
  match v, t with
  | PNone, _ => true
  | PInt _, TInt | PStr _, TStr | PBool _, TBool => true
  | _, _ => false
  end.

(* every attribute and parameter occurrence is given a value of its declared type; None only where allowed *)
Fixpoint env_ok (en : env) (e : expr) : bool :=
  match e with
  | EAttr a => has_vty (attr_val en (a_id a)) (a_ty a) && (a_null a || negb (is_none (attr_val en (a_id a))))
  | EParam i (Some t) => has_vty (param_val en i) t && negb (is_none (param_val en i))
  | EParam i None => is_none (param_val en i)
  | ECol i t n => has_vty (attr_val en i) t && (n || negb (is_none (attr_val en i)))
  | ESub i => match attr_val en i with PBool _ | PNone => true | _ => false end
  | EInt _ | EStr _ | EBool _ | ENone => true
  | EArith _ a b | EConcat a b | ECmp _ a b | EAnd a b | EOr a b => env_ok en a && env_ok en b
  | ENeg a | EAbs a | ELen a | ENot a | EIn _ a _ => env_ok en a
  | EIf c t f => env_ok en c && env_ok en t && env_ok en f
  | ECoalesce args | EMinMax _ args => forallb (env_ok en) args
  end.

(* ------------------------------------------------------------------------------------------- positions where
   the reference and Pony's reading may differ: a None *value* tested for truth.
   [clean]  : no such test anywhere that matters -> both readings give the same result;
   [pos_ok] : such tests occur only in positive and/or positions of the (filter) condition -> same kept rows. *)

Definition value_typed (e : expr) : bool := match ty_of e with Some (TV _) => true | _ => false end.
Definition cond_typed (e : expr) : bool := match ty_of e with Some TCond => true | _ => false end.

Fixpoint clean (en : env) (e : expr) : bool :=
  let operand x := clean en x && (cond_typed x || negb (is_none (reval true en x))) in
  match e with
  | EAttr _ | EInt _ | EStr _ | EBool _ | ENone | EParam _ _ | ECol _ _ _ | ESub _ => true
  | EArith _ a b | EConcat a b | ECmp _ a b => clean en a && clean en b
  | ENeg a | EAbs a | ELen a | EIn _ a _ => clean en a
  | ENot a => clean en a                                   (* `not value` is translated exactly *)
  | EAnd a b | EOr a b => operand a && operand b
  | EIf c t f => clean en c && clean en t && clean en f      (* a None test value itself selects the else branch in both readings *)
  | ECoalesce args | EMinMax _ args => forallb (clean en) args
  end.

Fixpoint pos_ok (en : env) (c : expr) : bool :=
  match c with
  | EAnd a b | EOr a b => pos_ok en a && pos_ok en b
  | _ => clean en c
  end.
