(* C20 - model `Life`: ONE db_session that runs several transactions (explicit commit() in the middle, the session goes on),
   on one object that it either loads, locks with get_for_update() or creates, while other sessions commit changes of the
   row whenever they can.  Definitions only.

   Mirrored code (core.py): SessionCache.for_update (objects created in the session or fetched FOR UPDATE;
   `_save_updated_` adds NO optimistic criteria for them), its lifetime (`cache.for_update.clear()` in SessionCache.commit,
   the whole cache dies on rollback), SessionCache.commit (flush; provider.commit; for_update.clear(); `immediate = True`
   - with one object already in the cache the session issues no further SELECT, so the flag only matters for get_for_update and
   the flush, which open the IMMEDIATE transaction (SQLite's process-wide write lock) anyway),
   Entity._find_in_cache_/_find_in_db_ for get_for_update (a cached object not yet in for_update is fetched again under the
   lock and compared by _db_set_), Entity._save_created_ (INSERT; rbits = all, wbits = 0, dbvals = inserted values),
   Entity._save_updated_ (rbits |= wbits; wbits = 0; dbvals of the written attributes = written values).
   Read and write bits and dbvals are NOT reset by commit(): attributes read in an earlier transaction stay protected.

   `ltxn = Some r` : the session holds the write lock and r is its uncommitted view of the row; other sessions can neither
   commit (they block on the lock) nor see r. *)
From Coq Require Import ZArith List Bool.
Import ListNotations.
Require Import PonyV.Model.C20Opt.

Open Scope Z_scope.

Inductive lev :=
| LCreate (vs : list Z)             (* obj = P(id=1, a=.., b=..): all attributes given, not None *)
| LForUpd                           (* P.get_for_update(id=1) *)
| LRead (a : nat)
| LWrite (a : nat) (e : expr)
| LCommit                           (* commit() - the db_session continues; also the commit at the end of the db_session *)
| LExt (a : nat) (v : val).         (* another session commits row.a := v (possible only while this session does not hold the lock) *)

Inductive ltev :=
| LObs (a : nat) (v : val)
| LInsert (vs : list val)
| LUpdate (sets wher : list (nat * val)) (applied : bool)
| LFail (e : nat).                  (* 1 OptimisticCheckError, 2 TypeError, 3 UnrepeatableReadError *)
Definition E_UNREP : nat := 3%nat.

Record lstate := {
  ldb : option row;                 (* committed row (None: the row does not exist yet) *)
  ltxn : option row;                (* Some r: this session is inside a write transaction (holds the lock), r = its view *)
  lx : sess;                        (* loaded / vals / dbvals / rbits / wbits / status of the object in the session cache *)
  lcreated : bool;                  (* status 'created': INSERT not yet executed *)
  lforupd : bool;                   (* obj in cache.for_update *)
  ltrace : list ltev }.             (* newest first *)

Definition linit (d : option row) : lstate :=
  {| ldb := d; ltxn := None; lx := sess0; lcreated := false; lforupd := false; ltrace := [] |}.

Definition none_row : row := fun _ => None.
Definition committed (s : lstate) : row := match ldb s with Some r => r | None => none_row end.
Definition view (s : lstate) : row := match ltxn s with Some r => r | None => committed s end.

Definition with_x (s : lstate) (x : sess) : lstate :=
  {| ldb := ldb s; ltxn := ltxn s; lx := x; lcreated := lcreated s; lforupd := lforupd s; ltrace := ltrace s |}.
Definition with_txn (s : lstate) (t : option row) : lstate :=
  {| ldb := ldb s; ltxn := t; lx := lx s; lcreated := lcreated s; lforupd := lforupd s; ltrace := ltrace s |}.
Definition log (s : lstate) (evs : list ltev) : lstate :=
  {| ldb := ldb s; ltxn := ltxn s; lx := lx s; lcreated := lcreated s; lforupd := lforupd s; ltrace := evs ++ ltrace s |}.

(* BEGIN IMMEDIATE (acquire the write lock) unless already inside the transaction *)
Definition begin_lock (s : lstate) : lstate := match ltxn s with Some _ => s | None => with_txn s (Some (committed s)) end.

(* the session ends with an error: ROLLBACK, the cache is dead *)
Definition lfail (s : lstate) (e : nat) : lstate :=
  {| ldb := ldb s; ltxn := None; lx := set_status (lx s) (Failed e); lcreated := lcreated s; lforupd := false;
     ltrace := LFail e :: ltrace s |}.

(* first access to the object: SELECT of the row *)
Definition l_load (s : lstate) : lstate :=
  if loaded (lx s) || lcreated s then s
  else with_x s (do_load (view s) (lx s)).

(* Entity._save_updated_ + bookkeeping after a successful UPDATE *)
Definition after_update (k : nat) (sch : schema) (x : sess) : sess :=
  {| loaded := loaded x; vals := vals x;
     dbvals := fun a => if (a <? k)%nat && wbits x a then vals x a else dbvals x a;
     rbits := fun a => if (a <? k)%nat && wbits x a && negb (a_vol (sch a)) then true else rbits x a;
     wbits := fun a => if (a <? k)%nat then false else wbits x a; st := st x |}.

(* cache.flush(): INSERT of a created object, or UPDATE of a modified one (optimistic criteria unless the object is in
   for_update).  Returns None after a failure (the state is then the failed one). *)
Definition l_flush (k : nat) (sch : schema) (s : lstate) : lstate * bool :=
  let x := lx s in
  if lcreated s then
    let s1 := begin_lock s in
    let r := vals x in
    let x' := {| loaded := true; vals := r; dbvals := r; rbits := fun a => (a <? k)%nat && negb (a_vol (sch a)); wbits := fun _ => false; st := st x |} in
    (log {| ldb := ldb s1; ltxn := Some r; lx := x'; lcreated := false; lforupd := lforupd s1; ltrace := ltrace s1 |}
         [LInsert (map r (seq 0 k))], true)
  else
    match set_list k x with
    | [] => (s, true)
    | sets =>
        let s1 := begin_lock s in
        let w := if lforupd s then [] else criteria k sch x in
        if matches (view s1) w
        then (log (with_x (with_txn s1 (Some (apply_sets (view s1) sets))) (after_update k sch x)) [LUpdate sets w true], true)
        else (lfail (log s1 [LUpdate sets w false]) E_OPT, false)
    end.

(* Entity._db_set_ of a row fetched again: None = UnrepeatableReadError *)
Fixpoint reload_attrs (d : row) (x : sess) (attrs : list nat) : option sess :=
  match attrs with
  | [] => Some x
  | a :: rest =>
      if val_eqb (dbvals x a) (d a) then reload_attrs d x rest
      else if rbits x a then None
      else reload_attrs d {| loaded := loaded x; vals := if wbits x a then vals x else upd (vals x) a (d a);
                             dbvals := upd (dbvals x) a (d a); rbits := rbits x; wbits := wbits x; st := st x |} rest
  end.

Definition lstep (k : nat) (sch : schema) (s : lstate) (e : lev) : lstate :=
  match e with
  | LExt a v =>
      match ltxn s, ldb s with
      | None, Some r => {| ldb := Some (upd r a v); ltxn := None; lx := lx s; lcreated := lcreated s; lforupd := lforupd s; ltrace := ltrace s |}
      | _, _ => s                                   (* the other session blocks on the lock / the row does not exist *)
      end
  | _ =>
    match st (lx s) with
    | Active =>
      match e with
      | LCreate vs =>
          if loaded (lx s) || lcreated s then s
          else {| ldb := ldb s; ltxn := ltxn s;
                  lx := {| loaded := true; vals := fun a => match nth_error vs a with Some z => Some z | None => None end;
                           dbvals := none_row; rbits := fun _ => false; wbits := fun _ => false; st := Active |};
                  lcreated := true; lforupd := true; ltrace := ltrace s |}
      | LRead a =>
          let s1 := l_load s in
          if lcreated s1 then log s1 [LObs a (vals (lx s1) a)]
          else let '(x2, v, _) := do_get sch (lx s1) a in log (with_x s1 x2) [LObs a v]
      | LWrite a (EConst v) =>
          let s1 := l_load s in with_x s1 (do_set (lx s1) a v)
      | LWrite a (EPlus b d) =>
          let s1 := l_load s in
          let '(x2, v, _) := if lcreated s1 then (lx s1, vals (lx s1) b, true) else do_get sch (lx s1) b in
          match v with
          | Some z => log (with_x s1 (do_set x2 a (Some (z + d)))) [LObs b v]
          | None => lfail (log (with_x s1 x2) [LObs b v]) E_TYPE
          end
      | LForUpd =>
          if lcreated s || lforupd s then s                  (* found in the cache (already in for_update): no statement *)
          else
            let s0 := begin_lock s in
            let '(s1, ok) := l_flush k sch s0 in
            if negb ok then s1
            else if loaded (lx s1)
                 then match reload_attrs (view s1) (lx s1) (seq 0 k) with
                      | Some x' => {| ldb := ldb s1; ltxn := ltxn s1; lx := x'; lcreated := false; lforupd := true; ltrace := ltrace s1 |}
                      | None => lfail s1 E_UNREP
                      end
                 else {| ldb := ldb s1; ltxn := ltxn s1; lx := do_load (view s1) (lx s1); lcreated := false; lforupd := true; ltrace := ltrace s1 |}
      | LCommit =>
          if negb (loaded (lx s)) && negb (lcreated s) then s     (* nothing has touched the database yet: there is no session cache to commit *)
          else
          let '(s1, ok) := l_flush k sch s in
          if negb ok then s1
          else {| ldb := match ltxn s1 with Some r => Some r | None => ldb s1 end; ltxn := None; lx := lx s1; lcreated := lcreated s1;
                  lforupd := false; ltrace := ltrace s1 |}
      | LExt _ _ => s
      end
    | _ => s
    end
  end.

Definition lrun (k : nat) (sch : schema) (s : lstate) (evs : list lev) : lstate := fold_left (lstep k sch) evs s.

(* an UPDATE issued now would be applied *)
Definition update_applies (k : nat) (sch : schema) (s : lstate) : bool :=
  negb (lcreated s) && negb (list_eqb pair_eqb (set_list k (lx s)) []) &&
  (lforupd s || matches (view s) (criteria k sch (lx s))).

(* ---------------------------------------------------------------- executable interface *)
Definition ltev_eqb (x y : ltev) : bool :=
  match x, y with
  | LObs a v, LObs b w => Nat.eqb a b && val_eqb v w
  | LInsert l, LInsert m => list_eqb val_eqb l m
  | LUpdate s w ap, LUpdate s' w' ap' => list_eqb pair_eqb s s' && list_eqb pair_eqb w w' && Bool.eqb ap ap'
  | LFail e, LFail f => Nat.eqb e f
  | _, _ => false
  end.

(* (row at the end (None if absent), lock held at the end, events oldest first) *)
Definition loutcome (k : nat) (schl : list attr) (d0 : option (list val)) (evs : list lev) : option (list val) * bool * list ltev :=
  let f := lrun k (schema_of schl) (linit (match d0 with Some l => Some (row_of l) | None => None end)) evs in
  (match ldb f with Some r => Some (row_list k r) | None => None end,
   match ltxn f with Some _ => true | None => false end, rev (ltrace f)).
Definition loutcome_eqb (x y : option (list val) * bool * list ltev) : bool :=
  (match fst (fst x), fst (fst y) with Some l, Some m => list_eqb val_eqb l m | None, None => true | _, _ => false end)
  && Bool.eqb (snd (fst x)) (snd (fst y)) && list_eqb ltev_eqb (snd x) (snd y).
