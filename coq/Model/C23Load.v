(* C23 - model of how a many-to-many collection of one owner is loaded and observed (pony/orm/core.py): Set.load (whole
   collection; also what every member of an nplus1 batch and of prefetch_load_all receives), Set.load(obj, items) (only the
   asked items), SetInstance.count / is_empty / __contains__ / copy (iteration, len), add / remove with their internal loads,
   and the effect of a flush on the SetData.  State = the rows of the owner in the link table + its SetData.  Definitions only. *)
Require Import PonyV.Base.PyBase PonyV.Model.C23SetData PonyV.Gen.ContainsOrder.
Open Scope nat_scope.

Definition diff (a b : list nat) : list nat := filter (fun y => negb (memn y b)) a.

(* what the program must see: the rows of the database, minus the unflushed removals, plus the unflushed additions *)
Definition abstract (rows : list nat) (sd : setdata) : list nat := diff rows (sd_removed sd) ++ sd_added sd.

(* Set.load(obj) / the per-object part of a batch load / prefetch_load_all:
     items -= setdata; if setdata.removed: items -= setdata.removed; setdata |= items
     setdata.is_fully_loaded = True; setdata.absent = None; setdata.count = len(setdata)            (its OWN length) *)
Definition load_full (rows : list nat) (sd : setdata) : setdata :=
  let items' := sd_items sd ++ diff (diff rows (sd_items sd)) (sd_removed sd) in
  mksd items' true (sd_added sd) (sd_removed sd) None (Some (Z.of_nat (length items'))).

(* a batch (nplus1 prefetching, prefetch_load_all): every collection of the batch gets its own rows *)
Definition load_batch (batch : list (list nat * setdata)) : list setdata := map (fun rs => load_full (fst rs) (snd rs)) batch.

(* Set.load(obj, xs):  xs = set(xs) - setdata - removed; nothing left -> return; setdata empty -> fetch just those; else full load *)
Definition load_for (rows xs : list nat) (sd : setdata) : setdata :=
  let ask := diff (diff xs (sd_items sd)) (sd_removed sd) in
  match ask with
  | [] => sd
  | _ => match sd_items sd with
         | [] => mksd (filter (fun y => memn y rows) ask) (sd_full sd) (sd_added sd) (sd_removed sd) (sd_absent sd) (sd_count sd)
         | _ => load_full rows sd
         end
  end.

(* flush of the pending link changes of this collection: the rows become the abstract collection *)
Definition flush_rows (rows : list nat) (sd : setdata) : list nat := abstract rows sd.
Definition flush_sd (sd : setdata) : setdata :=
  mksd (sd_items sd) (sd_full sd) [] [] None (sd_count sd).
(* a query issued outside flush_disabled() flushes first when this collection has pending changes *)
Definition pending (sd : setdata) : bool := match sd_added sd, sd_removed sd with [], [] => false | _, _ => true end.
Definition autoflush (rows : list nat) (sd : setdata) : list nat * setdata :=
  if pending sd then (flush_rows rows sd, flush_sd sd) else (rows, sd).

(* ---- the operations of the program: result, new rows, new SetData *)

(* iteration / len / copy:  if not fully loaded: attr.load(obj) (a query: flush first) *)
Definition do_copy (rows : list nat) (sd : setdata) : list nat * (list nat * setdata) :=
  if sd_full sd then (sd_items sd, (rows, sd))
  else let (rows1, sd1) := autoflush rows sd in
       let sd2 := load_full rows1 sd1 in (sd_items sd2, (rows1, sd2)).

(* count(): known -> return it; else SELECT COUNT under flush_disabled, corrected by the pending changes *)
Definition do_count (rows : list nat) (sd : setdata) : Z * setdata :=
  match sd_count sd with
  | Some n => (n, sd)
  | None => let n := (Z.of_nat (length rows) + Z.of_nat (length (sd_added sd)) - Z.of_nat (length (sd_removed sd)))%Z in
            (n, mksd (sd_items sd) (sd_full sd) (sd_added sd) (sd_removed sd) (sd_absent sd) (Some n))
  end.

(* __contains__ (many-to-many branch): the checks in source order, else load(obj, (item,)) under no flush protection *)
Definition do_contains (x : nat) (rows : list nat) (sd : setdata) : bool * (list nat * setdata) :=
  match contains_local contains_checks sd x with
  | Some b => (b, (rows, sd))
  | None =>
      let (rows1, sd1) := match diff (diff [x] (sd_items sd)) (sd_removed sd) with [] => (rows, sd) | _ => autoflush rows sd end in
      let sd2 := load_for rows1 [x] sd1 in
      if memn x (sd_items sd2) then (true, (rows1, sd2))
      else (false, (rows1, mksd (sd_items sd2) (sd_full sd2) (sd_added sd2) (sd_removed sd2)
                               (Some (x :: match sd_absent sd2 with Some a => a | None => [] end)) (sd_count sd2)))
  end.

(* is_empty(): fully loaded -> not items; items -> False; count known -> count == 0; else SELECT .. LIMIT 1 (flushes first);
   first = the row the database happened to return *)
Definition do_is_empty (first : list nat -> option nat) (rows : list nat) (sd : setdata) : bool * (list nat * setdata) :=
  if sd_full sd then (match sd_items sd with [] => true | _ => false end, (rows, sd))
  else match sd_items sd with
       | _ :: _ => (false, (rows, sd))
       | [] => match sd_count sd with
               | Some n => (Z.eqb n 0, (rows, sd))
               | None =>
                   let (rows1, sd1) := autoflush rows sd in
                   match first rows1 with
                   | Some r => (false, (rows1, mksd [r] (sd_full sd1) (sd_added sd1) (sd_removed sd1) (sd_absent sd1) (sd_count sd1)))
                   | None => (true, (rows1, mksd [] true (sd_added sd1) (sd_removed sd1) None (Some 0%Z)))
                   end
               end
       end.

(* add(x), inside flush_disabled():  known member -> (full load if not fully loaded, nothing else); else make sure (load just x), then link *)
Definition do_add (x : nat) (rows : list nat) (sd : setdata) : setdata :=
  if memn x (sd_items sd) then (if sd_full sd then sd else load_full rows sd)    (* load(obj, {}) with nothing to ask: a full load *)
  else let sd1 := if sd_full sd then sd else load_for rows [x] sd in
       if memn x (sd_items sd1) then sd1 else sd_add sd1 x.

(* remove(x): already removed -> nothing; make sure (load just x); not a member -> nothing; else unlink *)
Definition do_remove (x : nat) (rows : list nat) (sd : setdata) : setdata :=
  if memn x (sd_removed sd) then sd
  else let sd1 := if sd_full sd then sd else load_for rows [x] sd in
       if memn x (sd_items sd1) then sd_remove sd1 x else sd1.

(* ---- one-to-many collections (g.students / s.group): the SetData part of Set.load is the same code (load_full, do_copy, do_count,
   do_is_empty apply as they are: fetched items whose reference was re-pointed in this session are not merged, which is what
   `items -= removed` expresses).  What differs: Set.load(obj, items) asks only for items whose reference attribute is not loaded
   yet (loaded x = `reverse in item._vals_`), membership is answered from the item's own attribute, and add / remove go through
   Attribute.__set__ of the item (reverse_add / reverse_remove on this SetData). *)
Definition load_for_o (loaded : nat -> bool) (rows xs : list nat) (sd : setdata) : setdata :=
  match filter (fun y => negb (loaded y)) xs with
  | [] => sd
  | ask => match sd_items sd with
           | [] => mksd (filter (fun y => memn y rows && negb (memn y (sd_removed sd))) ask) (sd_full sd) (sd_added sd) (sd_removed sd) (sd_absent sd) (sd_count sd)
           | _ => load_full rows sd
           end
  end.

Definition do_add_o (loaded : nat -> bool) (x : nat) (rows : list nat) (sd : setdata) : setdata :=
  if memn x (sd_items sd) then (if sd_full sd then sd else load_full rows sd)
  else let sd1 := if sd_full sd then sd else load_for_o loaded rows [x] sd in
       if memn x (sd_items sd1) then sd1 else sd_add sd1 x.

(* SetInstance.remove on a one-to-many collection as the code was BEFORE /repo 11753a1 (kept so that a revert is recognised; the tie uses it
   only when core.py lacks the repair): reverse.__set__(item, None) already updates this SetData through
   reverse_remove (item out, count - 1, added / removed), and then remove()'s common tail does it a second time:
   count - 1 again, and the item is put into `removed` even when it had only been added in this session. *)
Definition sd_remove_o (sd : setdata) (x : nat) : setdata :=
  let sd1 := sd_remove sd x in
  mksd (sd_items sd1) (sd_full sd1) (sd_added sd1)
       (if memn x (sd_removed sd1) then sd_removed sd1 else x :: sd_removed sd1) (sd_absent sd1) (option_map Z.pred (sd_count sd1)).

Definition do_remove_o (loaded : nat -> bool) (x : nat) (rows : list nat) (sd : setdata) : setdata :=
  if memn x (sd_removed sd) then sd
  else let sd1 := if sd_full sd then sd else load_for_o loaded rows [x] sd in
       if memn x (sd_items sd1) then sd_remove_o sd1 x else sd1.

(* the code since /repo 11753a1: the tail is skipped for one-to-many collections *)
Definition do_remove_o_fixed (loaded : nat -> bool) (x : nat) (rows : list nat) (sd : setdata) : setdata :=
  if memn x (sd_removed sd) then sd
  else let sd1 := if sd_full sd then sd else load_for_o loaded rows [x] sd in
       if memn x (sd_items sd1) then sd_remove sd1 x else sd1.

(* ---- the other side of a one-to-many relationship: which items have their reference attribute loaded, and what loading an item
   does to the owner's SetData (Entity._db_set_ -> Attribute.db_update_reverse -> Set.db_reverse_add) *)
Record ostate : Type := mkos { os_rows : list nat; os_sd : setdata; os_loaded : list nat }.

(* an item's row is fetched for the first time (any query that returns it): if it points to this owner it becomes a known member *)
Definition load_item (x : nat) (st : ostate) : ostate :=
  if memn x (os_loaded st) then st
  else mkos (os_rows st)
            (if memn x (os_rows st) && negb (memn x (sd_items (os_sd st)))
             then mksd (sd_items (os_sd st) ++ [x]) (sd_full (os_sd st)) (sd_added (os_sd st)) (sd_removed (os_sd st))
                       (sd_absent (os_sd st)) (sd_count (os_sd st))
             else os_sd st)
            (x :: os_loaded st).

Definition is_loaded (st : ostate) (y : nat) : bool := memn y (os_loaded st).
Definition o_add (x : nat) (st : ostate) : ostate :=
  mkos (os_rows st) (do_add_o (is_loaded st) x (os_rows st) (os_sd st))
       (if sd_full (os_sd st) then os_loaded st else if memn x (sd_items (os_sd st)) then os_loaded st ++ diff (os_rows st) (os_loaded st) else os_loaded st).
Definition o_remove (x : nat) (st : ostate) : ostate :=
  mkos (os_rows st) (do_remove_o_fixed (is_loaded st) x (os_rows st) (os_sd st)) (os_loaded st).
Definition o_flush (st : ostate) : ostate :=
  mkos (flush_rows (os_rows st) (os_sd st)) (flush_sd (os_sd st)) (os_loaded st).
(* a whole-collection load fetches every row of the owner: those items are loaded afterwards *)
Definition o_load_full (st : ostate) : ostate :=
  mkos (os_rows st) (load_full (os_rows st) (os_sd st)) (os_loaded st ++ diff (os_rows st) (os_loaded st)).

(* ---- invariant, as a boolean for the correspondence run and as the hypothesis of the theorems *)
Fixpoint nodupb (l : list nat) : bool := match l with [] => true | x :: r => negb (memn x r) && nodupb r end.
Definition subsetb (a b : list nat) : bool := forallb (fun x => memn x b) a.
Definition disjointb (a b : list nat) : bool := forallb (fun x => negb (memn x b)) a.
Definition inv_b (rows : list nat) (sd : setdata) : bool :=
  nodupb rows && nodupb (sd_items sd) && nodupb (sd_added sd) && nodupb (sd_removed sd) &&
  subsetb (sd_items sd) (abstract rows sd) &&
  subsetb (sd_added sd) (sd_items sd) && disjointb (sd_added sd) rows &&
  subsetb (sd_removed sd) rows &&
  (negb (sd_full sd) || subsetb (abstract rows sd) (sd_items sd)) &&
  match sd_absent sd with Some a => forallb (fun x => memn x (sd_items sd) || negb (memn x (abstract rows sd))) a | None => true end &&
  match sd_count sd with Some n => Z.eqb n (Z.of_nat (length (abstract rows sd))) | None => true end.

Definition same_elems (a b : list nat) : bool := subsetb a b && subsetb b a.
Definition optn_eqb (a b : option Z) : bool := match a, b with None, None => true | Some x, Some y => Z.eqb x y | _, _ => false end.
(* comparison of a model SetData with a recorded one (absent is compared through inv_b only) *)
Definition sd_same (a b : setdata) : bool :=
  same_elems (sd_items a) (sd_items b) && Bool.eqb (sd_full a) (sd_full b) && same_elems (sd_added a) (sd_added b) &&
  same_elems (sd_removed a) (sd_removed b) && optn_eqb (sd_count a) (sd_count b).

(* a query that returns item x (S.get, a select): flushes the pending changes first *)
Definition o_autoflush (st : ostate) : ostate := if pending (os_sd st) then o_flush st else st.
Definition query_item (x : nat) (st : ostate) : ostate := if memn x (os_loaded st) then st else load_item x (o_autoflush st).   (* found in the identity map: no SQL *)

Definition linv_b (st : ostate) : bool :=
  inv_b (os_rows st) (os_sd st) &&
  forallb (fun x => negb (memn x (os_rows st)) || memn x (sd_items (os_sd st)) || memn x (sd_removed (os_sd st))) (os_loaded st) &&
  subsetb (sd_added (os_sd st)) (os_loaded st) && subsetb (sd_removed (os_sd st)) (os_loaded st).

Definition os_same (a b : ostate) : bool :=
  same_elems (os_rows a) (os_rows b) && sd_same (os_sd a) (os_sd b) && same_elems (os_loaded a) (os_loaded b).
(* the recorded state may have MORE loaded items than the model step predicts when the whole-collection load was batched with other
   owners (nplus1): those extra items do not point to this owner (load_item is then a no-op on the SetData) *)
Definition os_same_ext (model real : ostate) : bool :=
  same_elems (os_rows model) (os_rows real) && sd_same (os_sd model) (os_sd real) &&
  subsetb (os_loaded model) (os_loaded real) &&
  forallb (fun y => memn y (os_loaded model) || negb (memn y (os_rows real))) (os_loaded real).
