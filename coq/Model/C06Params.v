(* C06: hand-written model of SQLBuilder.__init__ (parameter numbering, layout, the five adapters), make_param
   (one Param object per paramkey) and of what a DB-API driver binds to each placeholder (documentation model of
   PEP 249 paramstyles).  Tied to /repo by the correspondence run (real SQLBuilder on a DBAPIProvider with a pool mock-up,
   all five styles).  Definitions only. *)
Require Import PonyV.Base.PyBase PonyV.Model.C06Str.

(* a placeholder as it appears in the statement text (Param.__str__; rendered by Gen/C06Quote.param_str) *)
Inductive ptok : Type :=
| PQ                 (* ?        qmark    *)
| PF                 (* %s       format   *)
| PNum (id : Z)      (* :<id>    numeric  *)
| PNam (id : Z)      (* :p<id>   named    *)
| PPy (id : Z)       (* %(p<id>)s pyformat *)
| PErr.              (* throw(NotImplementedError) *)

Definition ptok_eqb (a b : ptok) : bool :=
  match a, b with
  | PQ, PQ | PF, PF | PErr, PErr => true
  | PNum x, PNum y | PNam x, PNam y | PPy x, PPy y => x =? y
  | _, _ => false
  end.

(* paramkeys are compared by equality only: the harness numbers the distinct keys of a statement *)
Definition key := Z.

Fixpoint lookup {V} (k : Z) (tbl : list (Z * V)) : option V :=
  match tbl with
  | [] => None
  | (k', v) :: r => if k' =? k then Some v else lookup k r
  end.

(* SQLBuilder.__init__:   for i, param in enumerate(params): if param.id is None: param.id = i + 1
   where params are the Param objects in text order and make_param hands out ONE object per paramkey
   (builder.keys).  tbl maps the keys seen so far to the id of their object; the result is the id of each occurrence. *)
Fixpoint assign_ids (i : Z) (tbl : list (key * Z)) (keys : list key) : list Z :=
  match keys with
  | [] => []
  | k :: r =>
      match lookup k tbl with
      | Some id => id :: assign_ids (i + 1) tbl r
      | None => (i + 1) :: assign_ids (i + 1) ((k, i + 1) :: tbl) r
      end
  end.

Definition ids_of (keys : list key) : list Z := assign_ids 0 [] keys.

(* builder.layout *)
Definition layout (keys : list key) : list key := keys.

Section Adapter.
Variable V : Type.

(* what the adapter hands to cursor.execute *)
Inductive dbargs : Type :=
| ATuple (vs : list V)
| ADict (kvs : list (Z * V))    (* 'p<id>' -> value, in insertion order; a later entry for the same name replaces the earlier *)
| ANone.                        (* throw(NotImplementedError, paramstyle) *)

(* adapter(values): param.eval(values) is the value of the paramkey, env *)
Definition adapter (st : paramstyle) (keys : list key) (env : key -> V) : dbargs :=
  match st with
  | Qmark | Format => ATuple (map env keys)
  | Numeric => ATuple (map env keys)
  | Named | Pyformat => ADict (combine (ids_of keys) (map env keys))
  end.

(* Python dict built by inserting the pairs in order: the last pair for a name wins *)
Definition dict_get (name : Z) (kvs : list (Z * V)) : option V := lookup name (rev kvs).

(* PEP 249: what the driver binds to the placeholder that is the pos-th (0-based) placeholder of the text *)
Definition bind1 (a : dbargs) (pos : nat) (p : ptok) : option V :=
  match p, a with
  | PQ, ATuple vs | PF, ATuple vs => nth_error vs pos
  | PNum id, ATuple vs => if 1 <=? id then nth_error vs (Z.to_nat (id - 1)) else None
  | PNam id, ADict kvs | PPy id, ADict kvs => dict_get id kvs
  | _, _ => None
  end.

Fixpoint bind_from (a : dbargs) (pos : nat) (ps : list ptok) : list (option V) :=
  match ps with
  | [] => []
  | p :: r => bind1 a pos p :: bind_from a (S pos) r
  end.

Definition bind_all (a : dbargs) (ps : list ptok) : list (option V) := bind_from a 0 ps.

End Adapter.

Arguments ATuple {V} vs.
Arguments ADict {V} kvs.
Arguments ANone {V}.
Arguments adapter {V} st keys env.
Arguments dict_get {V} name kvs.
Arguments bind1 {V} a pos p.
Arguments bind_from {V} a pos ps.
Arguments bind_all {V} a ps.
