(* C17 - what a trace of driver calls does to the database file: an abstract SQLite connection semantics (definitions only).
   Trusted and validated on every run against real SQLite files (error injection and real process crashes):
   a write outside BEGIN..COMMIT is committed at once (autocommit); a write inside is pending until COMMIT; COMMIT publishes all
   pending writes atomically; ROLLBACK, close, and a crash discard them.  A write is identified by the position of its
   call in the trace.  Traces are newest-first, as in Model/C19Txn.v; `scan` recomputes the live connection and its
   transaction flag from the events. *)
From Coq Require Import List Bool Arith.
Import ListNotations.
Require Import PonyV.Model.C19Txn.

(* (committed writes, pending writes of the open transaction) after the calls in tr *)
Fixpoint db_of (tr : list event) : list nat * list nat :=
  match tr with
  | [] => ([], [])
  | e :: older =>
      let (comm, pend) := db_of older in
      let intx := txn_of (scan older) (e_con e) in
      let i := length older in
      match e_call e with
      | KClose => (comm, [])
      | KConnect => if e_ok e then (comm, []) else (comm, pend)
      | KExecute SWrite | KExecMany SWrite => if e_ok e then (if intx then (comm, pend ++ [i]) else (comm ++ [i], pend)) else (comm, pend)
      | KCommit => if e_ok e then (if intx then (comm ++ pend, []) else (comm, pend)) else (comm, pend)
      | KRollback => if e_ok e then (comm, []) else (comm, pend)
      | _ => (comm, pend)
      end
  end.
(* the database content if the process dies after the calls in tr (SQLite discards the open transaction) *)
Definition crash_db (tr : list event) : list nat := fst (db_of tr).

Definition ok_commit (e : event) : bool := match e_call e with KCommit => e_ok e | _ => false end.
(* the contents right after each successful COMMIT, and the initial content *)
Fixpoint commit_points (tr : list event) : list (list nat) :=
  match tr with
  | [] => [[]]
  | e :: older => (if ok_commit e then [crash_db (e :: older)] else []) ++ commit_points older
  end.

(* every write is issued inside an open transaction *)
Definition bracketed (tr : list event) : bool := forallb (fun e => if is_write e then e_txn e else true) tr.

(* writes of the trace that are successful, by position *)
Fixpoint ok_writes (tr : list event) : list nat :=
  match tr with
  | [] => []
  | e :: older => ok_writes older ++ (if is_write e && e_ok e then [length older] else [])
  end.

(* every COMMIT is issued inside an open transaction and after all pending ORM changes were flushed *)
Definition commits_flushed (tr : list event) : bool :=
  forallb (fun e => match e_call e with KCommit => e_txn e && (e_pend e =? 0) | _ => true end) tr.
