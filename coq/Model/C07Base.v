(* C07: reference functions for the text codecs (decimal printing/parsing, fixed-width fields, splitting).
   Strings are lists of code points.  Definitions only.  Every function here is compared with CPython on every run. *)
Require Import PonyV.Base.PyBase.
From Coq Require Import DecimalN DecimalPos Decimal.
Open Scope Z_scope.

Definition str := list Z.

Definition c_minus : Z := 45.   (* '-' *)
Definition c_dot : Z := 46.     (* '.' *)
Definition c_colon : Z := 58.   (* ':' *)
Definition c_space : Z := 32.
Definition c_zero : Z := 48.

Definition is_digit (c : Z) : bool := (48 <=? c) && (c <=? 57).

(* ---- fixed-width fields: '%02d' '%04d' '%06d' of a number known to fit ------------------------------------------- *)
Definition d2 (n : Z) : str := [48 + n / 10; 48 + n mod 10].
Definition d4 (n : Z) : str := [48 + n / 1000; 48 + n / 100 mod 10; 48 + n / 10 mod 10; 48 + n mod 10].
Definition d6 (n : Z) : str :=
  [48 + n / 100000; 48 + n / 10000 mod 10; 48 + n / 1000 mod 10; 48 + n / 100 mod 10; 48 + n / 10 mod 10; 48 + n mod 10].

Definition all_digits (s : str) : bool := forallb is_digit s.

(* int(s) for a non-empty string of ASCII digits (leading zeros allowed) *)
Definition digits_value (s : str) : Z := fold_left (fun acc c => acc * 10 + (c - 48)) s 0.
Definition parse_digits (s : str) : option Z :=
  match s with
  | [] => None
  | _ => if all_digits s then Some (digits_value s) else None
  end.

(* ---- '%d' of an arbitrary natural number, through the standard library's decimal representation ------------------ *)
Fixpoint codes_of_uint (u : Decimal.uint) : str :=
  match u with
  | Nil => []
  | D0 r => 48 :: codes_of_uint r | D1 r => 49 :: codes_of_uint r | D2 r => 50 :: codes_of_uint r
  | D3 r => 51 :: codes_of_uint r | D4 r => 52 :: codes_of_uint r | D5 r => 53 :: codes_of_uint r
  | D6 r => 54 :: codes_of_uint r | D7 r => 55 :: codes_of_uint r | D8 r => 56 :: codes_of_uint r
  | D9 r => 57 :: codes_of_uint r
  end.

Definition print_nat (n : Z) : str := codes_of_uint (N.to_uint (Z.to_N n)).

(* signed int(): optional '-' then digits *)
Definition parse_int (s : str) : option Z :=
  match s with
  | c :: r => if c =? c_minus then option_map Z.opp (parse_digits r) else parse_digits s
  | [] => None
  end.

(* ---- str.split(c) -------------------------------------------------------------------------------------------------- *)
Fixpoint split_all (c : Z) (s : str) : list str :=
  match s with
  | [] => [[]]
  | x :: r =>
      if x =? c then [] :: split_all c r
      else match split_all c r with
           | h :: t => (x :: h) :: t
           | [] => [[x]]
           end
  end.

Definition contains (c : Z) (s : str) : bool := existsb (Z.eqb c) s.

Fixpoint str_eqb (a b : str) : bool :=
  match a, b with
  | [], [] => true
  | x :: a', y :: b' => (x =? y) && str_eqb a' b'
  | _, _ => false
  end.

Definition zlen_s (s : str) : Z := Z.of_nat (length s).

(* s[:n], s[a:b] for 0 <= a <= b *)
Definition take (n : nat) (s : str) : str := firstn n s.
Definition slice (a b : nat) (s : str) : str := firstn (b - a) (skipn a s).

Fixpoint failing_from (n : nat) (l : list bool) : list nat :=
  match l with
  | [] => []
  | b :: r => if b then failing_from (S n) r else n :: failing_from (S n) r
  end.
Definition failing (l : list bool) : list nat := failing_from 0 l.
