(* C04 - model of PreTranslator (pony/orm/asttranslation.py): which subexpressions of a query are "external", i.e. evaluated in the
   caller's scope and passed to the database as parameters, and of create_extractors / extract_vars (pony/orm/core.py): which source
   texts are evaluated and under which keys.  Definitions only.

   A query body is an expression tree of Model/C04Expr.v together with the context ctx: the names bound by the generator's
   for-clauses (PreTranslator.contexts); lambda parameters extend the context inside the lambda body.
   What a callee evaluates to in the caller's scope (special function, raw_sql, const function, anything else) is an oracle argument:
   PreTranslator.postCall evaluates the dotted callee name with eval(). *)
From Coq Require Import ZArith List Bool Arith.
Import ListNotations.
Require Import PonyV.Model.C04Expr.

Definition path := list nat.

Definition mem (x : str) (l : list str) : bool := existsb (str_eqb x) l.

(* ---------------------------------------------------------------- specification side *)

(* some name occurring in e (as a Name node) is in ctx *)
Fixpoint mentions (ctx : list str) (e : expr) : bool :=
  match e with Node l cs => match l with LName s => mem s ctx | _ => false end || existsb (mentions ctx) cs end.

Fixpoint lambda_free (e : expr) : bool :=
  match e with Node l cs => match l with LLambda _ => false | _ => true end && forallb lambda_free cs end.

(* names bound for the k-th child of a generator expression: the iterable of a clause sees the targets of the clauses before it,
   its conditions also its own targets, the element sees all of them (PreTranslator.preGeneratorExp) *)
Fixpoint gen_ctx (clauses : list (list str * nat)) (k : nat) (acc : list str) : list str :=
  match clauses with
  | [] => acc
  | (ts, n) :: r => match k with
                    | 0 => acc
                    | S k' => if k' <? n then ts ++ acc else gen_ctx r (k' - n) (ts ++ acc)
                    end
  end.

(* the context of the k-th child: lambda parameters and generator targets are added to the context of the node *)
Definition child_ctx (l : label) (ctx : list str) (k : nat) : list str :=
  match l with LLambda args => args ++ ctx | LGen cl => gen_ctx cl k ctx | _ => ctx end.

(* the subtree at a path, with the context that holds there *)
Fixpoint sub_ctx (ctx : list str) (e : expr) (p : path) : option (list str * expr) :=
  match p with
  | [] => Some (ctx, e)
  | i :: p' => match e with Node l cs =>
                 match nth_error cs i with
                 | Some c => sub_ctx (child_ctx l ctx i) c p'
                 | None => None
                 end end
  end.

(* the shape the marking relies on (weaker than wf of Model/C04Expr.v: dict / set displays and generator expressions are admitted) *)
Fixpoint mwf (e : expr) : bool :=
  match e with Node l cs =>
    match l with
    | LName _ | LConst _ | LNegConst _ | LSlice false false false => length cs =? 0
    | LFormatted _ _ => length cs =? 1
    | _ => true
    end && forallb mwf cs
  end.

(* ---------------------------------------------------------------- the marking, as coded *)

Inductive callclass := FPlain | FSpecial | FRawSql | FConst.

(* attribute chain ending in a name: a.b.c -> [a; b; c] (postCall's while-loop) *)
Fixpoint dotted (e : expr) : option (list str) :=
  match e with
  | Node (LName s) _ => Some [s]
  | Node (LAttribute n) cs => match cs with
                              | [v] => match dotted v with Some p => Some (p ++ [n]) | None => None end
                              | _ => None
                              end
  | _ => None
  end.

(* a tree annotated with node.external (None / True / False), node.constant, node.raw_sql *)
Inductive atree := ANode (l : label) (ext : option bool) (cst raw : bool) (cs : list atree).

Definition a_label (a : atree) := match a with ANode l _ _ _ _ => l end.
Definition a_ext (a : atree) := match a with ANode _ e _ _ _ => e end.
Definition a_cst (a : atree) := match a with ANode _ _ c _ _ => c end.
Definition a_raw (a : atree) := match a with ANode _ _ _ r _ => r end.
Definition a_kids (a : atree) := match a with ANode _ _ _ _ cs => cs end.

Definition is_true (o : option bool) : bool := match o with Some true => true | _ => false end.

(* `getattr(child, 'external', False) and not getattr(child, 'raw_sql', False)` *)
Definition ext_child (a : atree) : bool := is_true (a_ext a) && negb (a_raw a).

(* does the Python node have any child node (get_child_nodes)?  Children the tree model keeps in labels: the literal segments of an
   f-string are Constant children, the format spec of a field is a JoinedStr child *)
Definition has_children (l : label) (n : nat) : bool :=
  match l with
  | LJoined lits => negb (n =? 0) || existsb (fun s => negb (length s =? 0)) lits
  | _ => negb (n =? 0)
  end.

(* children of the Python node that the tree model does not represent, and that are not external: arguments of a lambda (never
   dispatched), an empty format spec (a JoinedStr without children) *)
Definition hidden_child_blocks (l : label) : bool :=
  match l with
  | LLambda _ => true
  | LGen _ => true                      (* the comprehension nodes of a generator expression are never dispatched *)
  | LFormatted _ (Some []) => true
  | _ => false
  end.

Section Mark.
Variable fclass : list str -> callclass.

(* what the post<Node> method of PreTranslator sets: (external, constant, raw_sql) *)
Definition post (ctx : list str) (l : label) (cs : list expr) (acs : list atree) : option bool * bool * bool :=
  match l with
  | LName s => (if mem s ctx then None else Some true, false, false)
  | LConst _ | LNegConst _ => (Some true, true, false)
  | LSlice false false false => (Some true, true, false)
  | LOp KList | LDict => (match cs with [] => Some true | _ => None end, false, false)     (* postList, postDict: only the empty display is marked by itself *)
  | LKeyword _ => (None, match acs with [v] => a_cst v | _ => false end, false)
  | LOp KCall =>
      match cs, acs with
      | f :: _, af :: aargs =>
          if is_true (a_ext af) then
            match dotted f with
            | Some p =>
                match fclass p with
                | FSpecial => (Some false, false, false)
                | FRawSql => (None, false, true)
                | FConst => (None, forallb (fun a => match a_label a with LKeyword (Some _) => true | _ => a_cst a end) aargs, false)
                | FPlain => (None, false, false)
                end
            | None => (None, false, false)
            end
          else (None, false, false)
      | _, _ => (None, false, false)
      end
  | _ => (None, false, false)
  end.

Definition mark_kids (mk : list str -> expr -> atree) (l : label) (ctx : list str) : nat -> list expr -> list atree :=
  fix go (k : nat) (cs : list expr) : list atree :=
    match cs with [] => [] | c :: r => mk (child_ctx l ctx k) c :: go (S k) r end.

Fixpoint mark (ctx : list str) (e : expr) : atree :=
  match e with Node l cs =>
    let acs := mark_kids mark l ctx 0 cs in
    let '(e0, c0, r0) := post ctx l cs acs in
    let e1 := match e0 with
              | Some b => Some b
              | None => if has_children l (length cs) && negb (hidden_child_blocks l) && forallb ext_child acs then Some true else None
              end in
    ANode l e1 c0 r0 acs
  end.

End Mark.

(* the set PreTranslator.externals after the tree walk: a node that is external and not constant replaces its direct children *)
Definition prefix_all (i : nat) (ps : list path) : list path := map (cons i) ps.

Definition spec_pseudo (l : label) : list path :=
  match l with LFormatted _ (Some (_ :: _)) => [[1]] | _ => [] end.      (* the JoinedStr of a non-empty format spec: external, never constant *)

Fixpoint eset (a : atree) : list path :=
  match a with ANode l ext cst raw cs =>
    let below := (fix go (i : nat) (cs : list atree) : list path :=
                    match cs with [] => [] | c :: cs' => prefix_all i (eset c) ++ go (S i) cs' end) 0 cs ++ spec_pseudo l in
    if is_true ext && negb cst then filter (fun p => negb (length p =? 1)) below ++ [[]] else below
  end.

Fixpoint asub (a : atree) (p : path) : option atree :=
  match p with
  | [] => Some a
  | i :: p' => match nth_error (a_kids a) i with Some c => asub c p' | None => None end
  end.

Definition nonexternalizable (l : label) : bool :=
  match l with
  | LKeyword _ | LSlice _ _ _ | LOp KStarArg | LOp KStarElt | LOp KList | LOp KTuple | LOp KIdxTuple => true
  | _ => false
  end.
Definition is_constant_node (l : label) : bool := match l with LConst _ | LNegConst _ => true | _ => false end.

Fixpoint kid_paths (p : path) (i : nat) (cs : list atree) : list path :=
  match cs with
  | [] => []
  | c :: cs' => (if is_true (a_ext c) && negb (a_cst c) then [p ++ [i]] else []) ++ kid_paths p (S i) cs'
  end.

(* the loop at the end of PreTranslator.__init__ (one pass over a copy of the set) *)
Definition final_paths (a : atree) : list path :=
  flat_map (fun p => match asub a p with
                     | Some n => if nonexternalizable (a_label n) || (a_cst n && negb (is_constant_node (a_label n)))
                                 then kid_paths p 0 (a_kids n) else [p]
                     | None => [p]
                     end) (eset a).

Definition externals (fclass : list str -> callclass) (ctx : list str) (e : expr) : list path := final_paths (mark fclass ctx e).

(* ---------------------------------------------------------------- create_extractors / extract_vars *)

(* one extractor per distinct source text: `extractors[src] = extractor` *)
Fixpoint dedup (xs : list str) : list str :=
  match xs with [] => [] | x :: r => if existsb (str_eqb x) r then dedup r else x :: dedup r end.

(* key of a query parameter: (filter_num, src, code_key) *)
Definition varkey : Type := (nat * str * nat)%type.
Definition varkeys (filter_num code_key : nat) (srcs : list str) : list varkey := map (fun s => (filter_num, s, code_key)) (dedup srcs).

(* source text of the external at path p, as create_extractors computes it with ast2src (st: the printing style of the code);
   the pseudo path of a format spec denotes the JoinedStr f'<spec>' *)
Definition ext_src (st : style) (esc : bool) (ctx : list str) (e : expr) (p : path) : option str :=
  match sub_ctx ctx e p with
  | Some (_, Node (LFormatted c sp) cs) =>         (* a replacement field on its own is printed as a one-field f-string *)
      Some ([102; 39]%Z ++ render esc (print st (Node (LFormatted c sp) cs)) ++ [39]%Z)
  | Some (_, s) => Some (render esc (print st s))
  | None =>
      match sub_ctx ctx e (removelast p) with
      | Some (_, Node (LFormatted _ (Some sp)) _) => Some ([102; 39]%Z ++ (if esc then escape_braces sp else sp) ++ [39]%Z)
      | _ => None
      end
  end.

Definition ext_srcs (st : style) (esc : bool) (fclass : list str -> callclass) (ctx : list str) (e : expr) : list (option str) :=
  map (ext_src st esc ctx e) (externals fclass ctx e).
