(* C31 - Database.to_json (core.py): the three sections of the front-end format.
     "data":    the value handed in, every entity instance replaced by {"class": .., "pk": ..}
     "objects": entity name -> primary key (nested, one level per key part) -> attribute values, for every instance met in the data and
                every instance reachable from those through the attributes listed in `include` (worklist over object_list)
     "schema" / "schema_hash": the schema description unless with_schema=False; only the hash when the caller's hash matches.
   Hand-written model, tied by correspondence with the real function.  Definitions only.  Objects are numbers; `succ o` lists the
   objects o refers to through included relationship attributes, in attribute order. *)
Require Import PonyV.Base.PyBase.

Inductive section := SData | SObjects | SSchema | SSchemaHash.
Definition to_json_sections (with_schema hash_matches : bool) : list section :=
  SData :: SObjects :: (if with_schema then (if hash_matches then [SSchemaHash] else [SSchema; SSchemaHash]) else []).

Definition mem (x : nat) (l : list nat) : bool := existsb (Nat.eqb x) l.

(* `if item not in object_set: object_set.add(item); object_list.append(item)` for every item, in order.  state = (to do, seen) *)
Definition add_items (items : list nat) (st : list nat * list nat) : list nat * list nat :=
  fold_left (fun st x => if mem x (snd st) then st else (fst st ++ [x], snd st ++ [x])) items st.

(* `for obj in object_list:` while the list grows *)
Fixpoint close (fuel : nat) (succ : nat -> list nat) (st : list nat * list nat) : list nat * list nat :=
  match fuel with
  | O => st
  | S f => match fst st with
           | [] => st
           | o :: r => close f succ (add_items (succ o) (r, snd st))
           end
  end.

(* roots = list(object_set) after the data section has been written *)
Definition to_json_objects (fuel : nat) (succ : nat -> list nat) (roots : list nat) : list nat * list nat :=
  close fuel succ (roots, roots).

(* can_view: to_json refuses (PermissionError) as soon as an instance of the data section, or one reached through an included
   attribute, may not be viewed by the current user; otherwise it ships exactly the instances of the worklist *)
Definition to_json_checked (fuel : nat) (succ : nat -> list nat) (roots : list nat) (viewable : nat -> bool) : result (list nat) :=
  let shipped := snd (to_json_objects fuel succ roots) in
  if forallb viewable shipped then Ok shipped else Err 5%nat.

Definition section_eqb (a b : section) : bool :=
  match a, b with SData, SData | SObjects, SObjects | SSchema, SSchema | SSchemaHash, SSchemaHash => true | _, _ => false end.
Fixpoint sections_eqb (a b : list section) : bool :=
  match a, b with [], [] => true | x :: r, y :: s => section_eqb x y && sections_eqb r s | _, _ => false end.
