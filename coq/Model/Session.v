(* Session model (Stage 1): an executable model of Pony's in-memory session (pony/orm/core.py: SessionCache,
   Attribute.__set__/db_set, Set/SetInstance, Entity.__init__/_delete_/set/_db_set_/_save_created_ etc.), mechanism level.
   Definitions only; lemmas are in Proofs/Session*.v.  Tied to /repo by the history fuzzer (tools/session_*.py).

   Three kinds of steps are distinguished (flags in the state, sticky until the session cache dies):
   * clean     : modelled and compared with the implementation;
   * dirty     : the code raises after it has mutated the cache and its undo is incomplete (known findings), or it
                 loads a row over a written-but-never-loaded reference; the model mirrors the damaged state as far as
                 the recorded replays need, theorems hold for histories without a dirty step;
   * declined  : outside the modelled domain (e.g. a deleted object used as a reference value); comparison stops. *)
Require Import PonyV.Model.SessionBase PonyV.Model.SessionDb PonyV.Gen.SessionFlags.

(* ------------------------------------------------------------------------------------------------ operations *)

Inductive arg : Type := ANone | AInt (z : Z) | AStr (s : list Z) | AObj (h : nat) | AObjs (hs : list nat).

Inductive op : Type :=
| ONew (e : nat) (pk : option Z) (kw : list (nat * arg))
| OSet (h a : nat) (v : arg)
| OSetMany (h : nat) (kw : list (nat * arg))
| ODelete (h : nat)
| OAdd (h a : nat) (hs : list nat)
| ORemove (h a : nat) (hs : list nat)
| OAssign (h a : nat) (hs : list nat)
| ORead (h a : nat)
| OPk (h : nat)
| OCount (h a : nat)
| OIsEmpty (h a : nat)
| OContains (h a h2 : nat)
| OGetPk (e : nat) (v : arg)
| OGetBy (e a : nat) (v : arg)
| OSelect (e a : nat) (v : arg)
| OSelectAll (e : nat)
| OFlush | OCommit | ORollback | ONewSession
| OFlushObj (h : nat).                    (* obj.flush(): save this object (and the created objects it refers to) now *)

Inductive errkind : Type :=
| EConstraint | ECacheIndex | EValue | EType | ETxnIntegrity | EIntegrity | ECyclic | EObjectNotFound | EMultiple
| EDeleted | ESessionOver | EUnrepeatable | EOptimistic | EBadHandle | EBadAttr | EKeyError | EAssertion | EOther.

Inductive res : Type :=
| ROk | RVal (v : val) | RObj (h : nat) | RNoneObj | RObjs (hs : list nat) | RBool (b : bool) | RInt (z : Z)
| RErr (e : errkind) | RDecline.

(* ------------------------------------------------------------------------------------------------ state *)

Inductive status : Type :=
| SCreated | SLoaded | SModified | SInserted | SUpdated | SMarked | SDeleted | SCancelled.

Definition status_eqb (a b : status) : bool :=
  match a, b with
  | SCreated, SCreated | SLoaded, SLoaded | SModified, SModified | SInserted, SInserted
  | SUpdated, SUpdated | SMarked, SMarked | SDeleted, SDeleted | SCancelled, SCancelled => true
  | _, _ => false
  end.

(* del_statuses of core.py *)
Definition is_del (st : status) : bool := match st with SMarked | SDeleted | SCancelled => true | _ => false end.
(* deleted / cancelled: gone from the primary-key index too *)
Definition is_gone (st : status) : bool := match st with SDeleted | SCancelled => true | _ => false end.

(* SetData: items (the loaded view), added / removed (pending view), is_fully_loaded, count *)
Record setdata : Type := mkSd { sd_items : list oid; sd_added : list oid; sd_removed : list oid; sd_full : bool; sd_count : option Z }.
Definition sd_empty : setdata := mkSd [] [] [] false None.

(* o_vals / o_dbvals: per attribute index, None = NOT_LOADED.  o_sets: per attribute index, None = no SetData yet.
   o_wbits is meaningful when o_st <> SCreated (Pony: _wbits_ is None for created objects).  o_pos = _save_pos_. *)
Record obj : Type := mkObj {
  o_ent : nat; o_pk : option Z; o_st : status;
  o_vals : list (option val); o_dbvals : list (option val); o_wbits : list bool;
  o_sets : list (option setdata); o_pos : option nat;
  o_seed : bool }.                        (* member of cache.seeds: known by primary key only, never _db_set_ *)

Definition ikey : Type := (nat * nat * val)%type.          (* entity, slot (0 = primary key, S a = attribute a), value *)
Definition ikey_eqb (x y : ikey) : bool :=
  let '(e1, k1, v1) := x in let '(e2, k2, v2) := y in Nat.eqb e1 e2 && Nat.eqb k1 k2 && val_eqb v1 v2.

Record sess : Type := mkSess {
  s_objs : list obj;                      (* the cache: oid = position *)
  s_idx : list (ikey * oid);              (* cache.indexes *)
  s_tosave : list (option oid);           (* cache.objects_to_save (saved slots become None) *)
  s_modcoll : list (oid * nat);           (* cache.modified_collections *)
  s_modified : bool;                      (* cache.modified *)
  s_savedpend : bool;                     (* cache.saved_objects non-empty (left behind by a failed flush) *)
  s_handles : list oid;                   (* the program's variables *)
  s_db : db;                              (* database as seen inside the current transaction *)
  s_committed : db;                       (* database as last committed *)
  s_dirty : nat;                          (* 0 = clean; otherwise the first dirty site reached (table below) *)
  s_declined : bool;
  s_collstat : list (nat * nat);
  s_ordsens : bool }.                     (* >= 2 objects were processed in Python-set iteration order since the last flush *)        (* cache.collection_statistics: (entity, attribute) pairs loaded in full once *)

Definition set_objs s x := mkSess x (s_idx s) (s_tosave s) (s_modcoll s) (s_modified s) (s_savedpend s) (s_handles s) (s_db s) (s_committed s) (s_dirty s) (s_declined s) (s_collstat s) (s_ordsens s).
Definition set_idx s x := mkSess (s_objs s) x (s_tosave s) (s_modcoll s) (s_modified s) (s_savedpend s) (s_handles s) (s_db s) (s_committed s) (s_dirty s) (s_declined s) (s_collstat s) (s_ordsens s).
Definition set_tosave s x := mkSess (s_objs s) (s_idx s) x (s_modcoll s) (s_modified s) (s_savedpend s) (s_handles s) (s_db s) (s_committed s) (s_dirty s) (s_declined s) (s_collstat s) (s_ordsens s).
Definition set_modcoll s x := mkSess (s_objs s) (s_idx s) (s_tosave s) x (s_modified s) (s_savedpend s) (s_handles s) (s_db s) (s_committed s) (s_dirty s) (s_declined s) (s_collstat s) (s_ordsens s).
Definition set_modified s x := mkSess (s_objs s) (s_idx s) (s_tosave s) (s_modcoll s) x (s_savedpend s) (s_handles s) (s_db s) (s_committed s) (s_dirty s) (s_declined s) (s_collstat s) (s_ordsens s).
Definition set_savedpend s x := mkSess (s_objs s) (s_idx s) (s_tosave s) (s_modcoll s) (s_modified s) x (s_handles s) (s_db s) (s_committed s) (s_dirty s) (s_declined s) (s_collstat s) (s_ordsens s).
Definition set_handles s x := mkSess (s_objs s) (s_idx s) (s_tosave s) (s_modcoll s) (s_modified s) (s_savedpend s) x (s_db s) (s_committed s) (s_dirty s) (s_declined s) (s_collstat s) (s_ordsens s).
Definition set_db s x := mkSess (s_objs s) (s_idx s) (s_tosave s) (s_modcoll s) (s_modified s) (s_savedpend s) (s_handles s) x (s_committed s) (s_dirty s) (s_declined s) (s_collstat s) (s_ordsens s).
Definition set_committed s x := mkSess (s_objs s) (s_idx s) (s_tosave s) (s_modcoll s) (s_modified s) (s_savedpend s) (s_handles s) (s_db s) x (s_dirty s) (s_declined s) (s_collstat s) (s_ordsens s).
Definition mark_dirty s (site : nat) := mkSess (s_objs s) (s_idx s) (s_tosave s) (s_modcoll s) (s_modified s) (s_savedpend s) (s_handles s) (s_db s) (s_committed s) (match s_dirty s with O => site | n => n end) (s_declined s) (s_collstat s) (s_ordsens s).
Definition set_collstat s x := mkSess (s_objs s) (s_idx s) (s_tosave s) (s_modcoll s) (s_modified s) (s_savedpend s) (s_handles s) (s_db s) (s_committed s) (s_dirty s) (s_declined s) x (s_ordsens s).
Definition set_ordsens s x := mkSess (s_objs s) (s_idx s) (s_tosave s) (s_modcoll s) (s_modified s) (s_savedpend s) (s_handles s) (s_db s) (s_committed s) (s_dirty s) (s_declined s) (s_collstat s) x.
Definition mark_declined s := mkSess (s_objs s) (s_idx s) (s_tosave s) (s_modcoll s) (s_modified s) (s_savedpend s) (s_handles s) (s_db s) (s_committed s) (s_dirty s) true (s_collstat s) (s_ordsens s).

Definition init_sess (sch : schema) : sess :=
  mkSess [] [] [] [] false false [] (db_init sch) (db_init sch) O false [] false.

(* Dirty sites.  Finding sites (the code fails after a partial mutation or corrupts the cache; known findings or legitimate
   partial failures): 1 failed creation leaves a phantom object; 2 Entity.set fails on a later key after an earlier index update;
   3 Entity.set fails in a collection argument after index / collection updates; 4 collection assignment fails after cascaded
   removals; 5 auto-generated id clashes with a cached object, the inserted row stays; 6 a row is loaded over a reference that was
   written but never loaded; 7 unique-index conflict while loading a row; 8 the row of a created object is loaded;
   9 delete() raised (a load conflict, an assertion of a damaged session) after its cascade may have started: the undo is partial.
   Assertion sites (believed unreachable in a clean state, checked only while no other dirty site was reached; a hit during the
   correspondence run is reported as a broken tie): 20 the database value
   of a loaded attribute changed; 21 an unwritten attribute has a value but no database value; 22 a row appears in a fully loaded
   collection; 23 remove: an item survived reverse_remove; 24 assign: items differ after processing; 25 add: a linked item is
   missing from the collection; 26 a deleted object is a member of a collection;
   27 the status of an object changed while its principals were being saved (or while it was loaded in Entity.set);
   28 a key conflict after the preliminary scan of Entity.set found none. *)

(* a fresh cache over the database d (rollback, failed commit, new db_session) *)
Definition reset_sess (d : db) : sess := mkSess [] [] [] [] false false [] d d O false [] false.

(* object field setters *)
Definition ob_set_st ob x := mkObj (o_ent ob) (o_pk ob) x (o_vals ob) (o_dbvals ob) (o_wbits ob) (o_sets ob) (o_pos ob) (o_seed ob).
Definition ob_set_pk ob x := mkObj (o_ent ob) x (o_st ob) (o_vals ob) (o_dbvals ob) (o_wbits ob) (o_sets ob) (o_pos ob) (o_seed ob).
Definition ob_set_vals ob x := mkObj (o_ent ob) (o_pk ob) (o_st ob) x (o_dbvals ob) (o_wbits ob) (o_sets ob) (o_pos ob) (o_seed ob).
Definition ob_set_dbvals ob x := mkObj (o_ent ob) (o_pk ob) (o_st ob) (o_vals ob) x (o_wbits ob) (o_sets ob) (o_pos ob) (o_seed ob).
Definition ob_set_wbits ob x := mkObj (o_ent ob) (o_pk ob) (o_st ob) (o_vals ob) (o_dbvals ob) x (o_sets ob) (o_pos ob) (o_seed ob).
Definition ob_set_sets ob x := mkObj (o_ent ob) (o_pk ob) (o_st ob) (o_vals ob) (o_dbvals ob) (o_wbits ob) x (o_pos ob) (o_seed ob).
Definition ob_set_pos ob x := mkObj (o_ent ob) (o_pk ob) (o_st ob) (o_vals ob) (o_dbvals ob) (o_wbits ob) (o_sets ob) x (o_seed ob).
Definition ob_set_seed ob x := mkObj (o_ent ob) (o_pk ob) (o_st ob) (o_vals ob) (o_dbvals ob) (o_wbits ob) (o_sets ob) (o_pos ob) x.

Definition oval (ob : obj) (a : nat) : option val := nth a (o_vals ob) None.
Definition odbval (ob : obj) (a : nat) : option val := nth a (o_dbvals ob) None.
Definition owbit (ob : obj) (a : nat) : bool := nth a (o_wbits ob) false.
Definition oset (ob : obj) (a : nat) : option setdata := nth a (o_sets ob) None.
Definition ob_put_val ob a (v : option val) := ob_set_vals ob (upd_nth (o_vals ob) a v).
Definition ob_put_dbval ob a (v : option val) := ob_set_dbvals ob (upd_nth (o_dbvals ob) a v).
Definition ob_put_wbit ob a (b : bool) := ob_set_wbits ob (upd_nth (o_wbits ob) a b).
Definition ob_put_set ob a (sd : option setdata) := ob_set_sets ob (upd_nth (o_sets ob) a sd).

Definition get_obj (s : sess) (o : oid) : option obj := nth_error (s_objs s) o.
Definition put_obj (s : sess) (o : oid) (ob : obj) : sess := set_objs s (upd_nth (s_objs s) o ob).
Definition upd_obj (s : sess) (o : oid) (f : obj -> obj) : sess :=
  match get_obj s o with Some ob => put_obj s o (f ob) | None => s end.
Definition push_obj (s : sess) (ob : obj) : sess * oid := (set_objs s (s_objs s ++ [ob]), length (s_objs s)).

Definition obj_st (s : sess) (o : oid) : status := match get_obj s o with Some ob => o_st ob | None => SCancelled end.
Definition obj_ent (s : sess) (o : oid) : nat := match get_obj s o with Some ob => o_ent ob | None => O end.
Definition obj_pk (s : sess) (o : oid) : option Z := match get_obj s o with Some ob => o_pk ob | None => None end.
Definition obj_val (s : sess) (o : oid) (a : nat) : option val := match get_obj s o with Some ob => oval ob a | None => None end.

(* indexes *)
Definition idx_get (s : sess) (e k : nat) (v : val) : option oid := aget ikey_eqb (e, k, v) (s_idx s).
Definition idx_put (s : sess) (e k : nat) (v : val) (o : oid) : sess := set_idx s (aset ikey_eqb (e, k, v) o (s_idx s)).
Definition idx_del (s : sess) (e k : nat) (v : val) : sess := set_idx s (adel ikey_eqb (e, k, v) (s_idx s)).

(* objects_to_save *)
Definition queue (s : sess) (o : oid) : sess :=
  let pos := length (s_tosave s) in
  set_modified (set_tosave (upd_obj s o (fun ob => ob_set_pos ob (Some pos))) (s_tosave s ++ [Some o])) true.
Definition unqueue_slot (s : sess) (pos : option nat) : sess :=
  match pos with Some p => set_tosave s (upd_nth (s_tosave s) p None) | None => s end.

(* the `wbits` / status part of Attribute.__set__, Entity.set and _attr_changed_ *)
Definition mark_written (s : sess) (o : oid) (a : nat) : sess :=
  match get_obj s o with
  | Some ob =>
    if status_eqb (o_st ob) SCreated then s
    else
      let s1 := put_obj s o (ob_put_wbit ob a true) in
      if status_eqb (o_st ob) SModified then s1
      else queue (upd_obj s1 o (fun ob1 => ob_set_st ob1 SModified)) o
  | None => s
  end.

(* modified_collections *)
Definition pair_nat_eqb (x y : nat * nat) : bool := Nat.eqb (fst x) (fst y) && Nat.eqb (snd x) (snd y).
Definition modcoll_add (s : sess) (o : oid) (a : nat) : sess :=
  if existsb (pair_nat_eqb (o, a)) (s_modcoll s) then s else set_modcoll s (s_modcoll s ++ [(o, a)]).

(* Set.reverse_add((owner,), item) / Set.reverse_remove((owner,), item) on the SetData of owner.a *)
Definition opt_add (c : option Z) (d : Z) : option Z := match c with Some n => Some (n + d) | None => None end.

Definition sd_rev_add (sd : setdata) (item : oid) : setdata :=
  let in_removed := mem_nat item (sd_removed sd) in
  mkSd (add_nat item (sd_items sd))
       (if in_removed then sd_added sd else add_nat item (sd_added sd))
       (if in_removed then remove_nat item (sd_removed sd) else sd_removed sd)
       (sd_full sd) (opt_add (sd_count sd) 1).

Definition sd_rev_remove (sd : setdata) (item : oid) : setdata :=
  let in_added := mem_nat item (sd_added sd) in
  mkSd (remove_nat item (sd_items sd))
       (if in_added then remove_nat item (sd_added sd) else sd_added sd)
       (if in_added then sd_removed sd else add_nat item (sd_removed sd))
       (sd_full sd) (opt_add (sd_count sd) (-1)).

Definition rev_add (s : sess) (owner : oid) (a : nat) (item : oid) : sess :=
  modcoll_add (upd_obj s owner (fun ob =>
    ob_put_set ob a (Some (sd_rev_add (match oset ob a with Some sd => sd | None => sd_empty end) item)))) owner a.

Definition rev_remove (s : sess) (owner : oid) (a : nat) (item : oid) : sess :=
  modcoll_add (upd_obj s owner (fun ob =>
    match oset ob a with
    | Some sd => ob_put_set ob a (Some (sd_rev_remove sd item))
    | None => ob
    end)) owner a.

(* the reverse attribute of a reference attribute: (target entity, attribute index of the Set) *)
Definition ref_info (sch : schema) (e a : nat) : option (nat * nat) :=
  match get_attr sch e a with
  | Some at_ => match a_kind at_ with KRef t r => Some (t, r) | _ => None end
  | None => None
  end.
Definition set_info (sch : schema) (e a : nat) : option (nat * nat) :=
  match get_attr sch e a with
  | Some at_ => match a_kind at_ with KSet t r => Some (t, r) | _ => None end
  | None => None
  end.
(* cascade_delete default of a Set attribute: its reverse is Required *)
Definition set_cascade (sch : schema) (e a : nat) : bool :=
  match set_info sch e a with
  | Some (t, r) => match get_attr sch t r with Some at_ => a_req at_ | None => false end
  | None => false
  end.

(* outcome of the internal functions *)
Inductive out (A : Type) : Type := Ok (s : sess) (x : A) | Err (s : sess) (e : errkind).
Arguments Ok {A} s x.
Arguments Err {A} s e.
Definition out_state {A} (r : out A) : sess := match r with Ok s _ => s | Err s _ => s end.
Definition bind {A B} (r : out A) (f : sess -> A -> out B) : out B :=
  match r with Ok s x => f s x | Err s e => Err s e end.

(* ------------------------------------------------------------------------------------------------ loading rows
   EntityMeta._fetch_objects / _parse_row_ / _get_from_identity_map_(pk, 'loaded') / Entity._db_set_ /
   Attribute.db_update_reverse / Set.db_reverse_add.  Loads never flush by themselves: the caller does (or does
   not, inside `with cache.flush_disabled()`). rbits / optimistic checks are not modelled (single writer). *)

Definition new_loaded (sch : schema) (e : nat) (pk : Z) : obj :=
  let n := nattrs sch e in
  mkObj e (Some pk) SLoaded (repeat None n) (repeat None n) (repeat false n) (repeat None n) None true.

(* _get_from_identity_map_(pkval, 'loaded'): the object registered under the pk, or a new seed *)
Definition get_or_seed (sch : schema) (s : sess) (e : nat) (pk : Z) : sess * oid :=
  match idx_get s e O (VInt pk) with
  | Some o => (s, o)
  | None => let '(s1, o) := push_obj s (new_loaded sch e pk) in (idx_put s1 e O (VInt pk) o, o)
  end.

(* parse_value: reference columns become (seed) objects *)
Fixpoint parse_cols (sch : schema) (s : sess) (e a : nat) (cols : list val) : sess * list val :=
  match cols with
  | [] => (s, [])
  | c :: t =>
    let '(s1, v) := match ref_info sch e a, c with
                    | Some (tgt, _), VInt z => let '(s1, o) := get_or_seed sch s tgt z in (s1, VRef o)
                    | Some _, VRef _ => (s, VNone)          (* a row never holds an object identity *)
                    | _, _ => (s, c)
                    end in
    let '(s2, vs) := parse_cols sch s1 e (S a) t in (s2, v :: vs)
  end.

Definition db_rev_add (s : sess) (owner : oid) (a : nat) (item : oid) : out unit :=
  match get_obj s owner with
  | Some ob =>
    match oset ob a with
    | Some sd => if sd_full sd then Err s EUnrepeatable
                 else Ok (put_obj s owner (ob_put_set ob a (Some (mkSd (add_nat item (sd_items sd)) (sd_added sd) (sd_removed sd) false (sd_count sd))))) tt
    | None => Ok (put_obj s owner (ob_put_set ob a (Some (mkSd [item] [] [] false None)))) tt
    end
  | None => Ok s tt
  end.

Definition db_rev_remove (s : sess) (owner : oid) (a : nat) (item : oid) : sess :=
  upd_obj s owner (fun ob => match oset ob a with
                             | Some sd => ob_put_set ob a (Some (mkSd (remove_nat item (sd_items sd)) (sd_added sd) (sd_removed sd) (sd_full sd) (sd_count sd)))
                             | None => ob end).

(* _db_set_ for one attribute.  The code runs three loops (reverse sides and dbvals; unique indexes; vals); they touch
   disjoint data, so the model does all three per attribute.  old = dbvals.get(attr, NOT_LOADED). *)
Definition dbset_index (sch : schema) (s : sess) (o : oid) (e a : nat) (v : val) : sess :=
  let old := obj_val s o a in
  if attr_uniq sch e a && negb (oval_eqb old (Some v)) then
    let s' := if is_vnone v then s else idx_put s e (S a) v o in
    match old with
    | Some ov => if is_vnone ov then s' else idx_del s' e (S a) ov
    | None => s'
    end
  else s.

Definition dbset_attr (sch : schema) (s : sess) (o : oid) (e a : nat) (v : val) : out unit :=
  match get_obj s o, get_attr sch e a with
  | Some ob, Some at_ =>
    if is_set_kind (a_kind at_) then Ok s tt
    else
      match odbval ob a with
      | Some old => if val_eqb old v then Ok s tt else Err (mark_dirty s 20) EUnrepeatable
      | None =>
        if owbit ob a then
          (* written, never loaded: dbvals is filled in, vals keeps the written value; for a reference db_update_reverse
             still links the database value (known finding) *)
          match a_kind at_, v with
          | KRef _ r, VRef y =>
            match db_rev_add s y r o with
            | Ok s1 _ => Ok (mark_dirty (upd_obj s1 o (fun ob2 => ob_put_dbval ob2 a (Some v))) 6) tt
            | Err s1 er => Err (mark_dirty s1 6) er
            end
          | _, _ => Ok (upd_obj s o (fun ob2 => ob_put_dbval ob2 a (Some v))) tt
          end
        else
          match oval ob a with
          | Some _ => Err (mark_dirty s 21) EAssertion
          | None =>
            let conflict := attr_uniq sch e a && negb (is_vnone v) &&
                            match idx_get s e (S a) v with Some o2 => negb (Nat.eqb o2 o) | None => false end in
            if conflict then Err (mark_dirty s 7) ETxnIntegrity
            else
              let r1 := match a_kind at_, v with
                        | KRef _ r, VRef y => db_rev_add s y r o
                        | _, _ => Ok s tt
                        end in
              match r1 with
              | Err s1 er => Err (mark_dirty s1 22) er
              | Ok s1 _ =>
                Ok (upd_obj (dbset_index sch s1 o e a v) o (fun ob2 => ob_put_val (ob_put_dbval ob2 a (Some v)) a (Some v))) tt
              end
          end
      end
  | _, _ => Ok s tt
  end.

Fixpoint dbset_loop (sch : schema) (s : sess) (o : oid) (e a : nat) (vals : list val) : out unit :=
  match vals with
  | [] => Ok s tt
  | v :: t =>
    match dbset_attr sch s o e a v with
    | Ok s1 _ => dbset_loop sch s1 o e (S a) t
    | Err s1 er => Err s1 er
    end
  end.

Definition db_set_obj (sch : schema) (s : sess) (o : oid) (e : nat) (vals : list val) : out unit :=
  dbset_loop sch (upd_obj s o (fun ob => ob_set_seed ob false)) o e O vals.

(* one fetched row: Some o when the object takes part in the result (objects marked for deletion are skipped) *)
Definition load_row (sch : schema) (s : sess) (e : nat) (r : row) : out (option oid) :=
  let '(s1, vals) := parse_cols sch s e O (r_cols r) in
  let '(s2, o) := get_or_seed sch s1 e (r_pk r) in
  if is_del (obj_st s2 o) then Ok s2 None
  else if status_eqb (obj_st s2 o) SCreated then Err (mark_dirty s2 8) EAssertion   (* _db_set_: assert obj._status_ not in created_or_deleted_statuses *)
  else match db_set_obj sch s2 o (obj_ent s2 o) vals with
       | Ok s3 _ => Ok s3 (Some o)
       | Err s3 er => Err s3 er
       end.

Fixpoint load_rows (sch : schema) (s : sess) (e : nat) (rows : list row) : out (list oid) :=
  match rows with
  | [] => Ok s []
  | r :: t =>
    match load_row sch s e r with
    | Ok s1 x =>
      match load_rows sch s1 e t with
      | Ok s2 rest => Ok s2 (match x with Some o => o :: rest | None => rest end)
      | Err s2 er => Err s2 er
      end
    | Err s1 er => Err s1 er
    end
  end.

(* Entity._load_ without the flush: one query for the object and every seed of its entity (cache.seeds) *)
Definition seed_pks (s : sess) (e : nat) : list Z :=
  flat_map (fun ob => if o_seed ob && Nat.eqb (o_ent ob) e then match o_pk ob with Some z => [z] | None => [] end else []) (s_objs s).

Definition load_obj_noflush (sch : schema) (s : sess) (o : oid) : out unit :=
  match get_obj s o with
  | Some ob =>
    match o_pk ob with
    | Some pk =>
      let pks := pk :: seed_pks s (o_ent ob) in
      match load_rows sch s (o_ent ob) (filter (fun r => existsb (Z.eqb (r_pk r)) pks) (tab (s_db s) (o_ent ob))) with
      | Ok s1 os => if mem_nat o os then Ok s1 tt else Err s1 EUnrepeatable
      | Err s1 er => Err s1 er
      end
    | None => Err s EUnrepeatable
    end
  | None => Err s EOther
  end.

(* Set.load(obj) (full) without the flush, one-to-many: fetch the rows that reference obj, mark fully loaded *)
Definition coll_mark_full (s : sess) (o : oid) (a : nat) : sess :=
  upd_obj s o (fun ob =>
    let sd := match oset ob a with Some sd => sd | None => sd_empty end in
    ob_put_set ob a (Some (mkSd (sd_items sd) (sd_added sd) (sd_removed sd) true (Some (Z.of_nat (length (sd_items sd))))))).

Definition coll_ensure (s : sess) (o : oid) (a : nat) : sess :=
  upd_obj s o (fun ob => match oset ob a with Some _ => ob | None => ob_put_set ob a (Some sd_empty) end).

Definition coll_full (s : sess) (o : oid) (a : nat) : bool :=
  match get_obj s o with
  | Some ob => match oset ob a with Some sd => sd_full sd | None => false end
  | None => false
  end.

Definition coll_items (s : sess) (o : oid) (a : nat) : list oid :=
  match get_obj s o with
  | Some ob => match oset ob a with Some sd => sd_items sd | None => [] end
  | None => []
  end.

(* Set.load(obj): from the second full load of an attribute in a session on (nplus1_threshold = 1) Pony loads the collections of
   every object of the entity that is in the primary-key index and not yet fully loaded (prefetching) *)
Definition prefetch_owners (s : sess) (e a : nat) (self : oid) : list oid :=
  filter (fun o2 => negb (Nat.eqb o2 self) &&
            match get_obj s o2 with
            | Some ob => Nat.eqb (o_ent ob) e && negb (status_eqb (o_st ob) SCreated) && negb (is_del (o_st ob)) &&
                         match o_pk ob with Some _ => true | None => false end &&
                         match oset ob a with Some sd => negb (sd_full sd) | None => true end
            | None => false
            end) (seq O (length (s_objs s))).

Definition coll_load_noflush (sch : schema) (s : sess) (o : oid) (a : nat) : out unit :=
  let s0 := coll_ensure s o a in
  if coll_full s0 o a then Ok s0 tt
  else
    match get_obj s0 o, set_info sch (obj_ent s0 o) a with
    | Some ob, Some (t, r) =>
      let e := o_ent ob in
      let prefetching := existsb (pair_nat_eqb (e, a)) (s_collstat s0) in
      let owners := o :: (if prefetching then prefetch_owners s0 e a o else []) in
      let s1 := fold_left (fun acc o2 => coll_ensure acc o2 a) owners s0 in
      let pks := flat_map (fun o2 => match obj_pk s1 o2 with Some z => [z] | None => [] end) owners in
      match load_rows sch s1 t (filter (fun r_ => match col r_ r with VInt z => existsb (Z.eqb z) pks | _ => false end) (tab (s_db s1) t)) with
      | Ok s2 _ => Ok (set_collstat (fold_left (fun acc o2 => coll_mark_full acc o2 a) owners s2)
                                    (if prefetching then s_collstat s2 else (e, a) :: s_collstat s2)) tt
      | Err s2 er => Err s2 er
      end
    | _, _ => Ok s0 tt
    end.

(* ------------------------------------------------------------------------------------------------ flush
   SessionCache.flush / _calc_modified_m2m / Entity._save_ / _save_principal_objects_ / _save_created_ /
   _save_updated_ / _save_deleted_ / _update_dbvals_ *)

Definition val_to_db (s : sess) (v : val) : val :=
  match v with
  | VRef o => match obj_pk s o with Some z => VInt z | None => VNone end
  | _ => v
  end.

Definition attr_is_set (sch : schema) (e a : nat) : bool :=
  match get_attr sch e a with Some at_ => is_set_kind (a_kind at_) | None => true end.
Definition attr_is_ref (sch : schema) (e a : nat) : bool :=
  match get_attr sch e a with Some at_ => is_ref_kind (a_kind at_) | None => false end.

Definition row_of_obj (sch : schema) (s : sess) (ob : obj) : list val :=
  map (fun a => if attr_is_set sch (o_ent ob) a then VNone
                else match oval ob a with Some v => val_to_db s v | None => VNone end)
      (seq O (nattrs sch (o_ent ob))).

(* _update_dbvals_(after_create=True): a None value is dropped from vals (the database may have filled in a default) *)
Definition after_insert_vals (sch : schema) (ob : obj) : obj :=
  fold_left (fun acc a =>
     if attr_is_set sch (o_ent ob) a then acc
     else match oval acc a with
          | Some VNone => ob_put_dbval (ob_put_val acc a None) a None
          | Some v => ob_put_dbval acc a (Some v)
          | None => acc
          end) (seq O (nattrs sch (o_ent ob))) ob.

Definition save_created (sch : schema) (s : sess) (o : oid) : out unit :=
  match get_obj s o with
  | Some ob =>
    if negb (status_eqb (o_st ob) SCreated) then Err (mark_dirty s 27) EAssertion else
    let e := o_ent ob in
    match db_insert sch (s_db s) e (o_pk ob) (row_of_obj sch s ob) with
    | inl DbIntegrity => Err s ETxnIntegrity
    | inl _ => Err s EOther
    | inr (d', newpk) =>
      let s1 := set_db s d' in
      let finish (s2 : sess) :=
        Ok (upd_obj s2 o (fun ob2 =>
              after_insert_vals sch (ob_set_wbits (ob_set_st (ob_set_pk ob2 (Some newpk)) SInserted) (repeat false (nattrs sch e))))) tt in
      match o_pk ob with
      | Some _ => finish s1
      | None =>
        match idx_get s1 e O (VInt newpk) with
        | Some o2 => if Nat.eqb o2 o then finish s1
                     else Err (mark_dirty s1 5) ETxnIntegrity     (* the inserted row stays in the transaction: known finding *)
        | None => finish (idx_put s1 e O (VInt newpk) o)
        end
      end
    end
  | None => Err s EOther
  end.

Definition written_asg (sch : schema) (s : sess) (ob : obj) : list (nat * val) :=
  flat_map (fun a => if negb (attr_is_set sch (o_ent ob) a) && owbit ob a
                     then [(a, match oval ob a with Some v => val_to_db s v | None => VNone end)] else [])
           (seq O (nattrs sch (o_ent ob))).

Definition after_update_vals (sch : schema) (ob : obj) : obj :=
  fold_left (fun acc a => if owbit ob a then match oval acc a with Some v => ob_put_dbval acc a (Some v) | None => acc end else acc)
            (seq O (nattrs sch (o_ent ob))) ob.

Definition save_updated (sch : schema) (s : sess) (o : oid) : out unit :=
  match get_obj s o with
  | Some ob =>
    if negb (status_eqb (o_st ob) SModified) then Err (mark_dirty s 27) EAssertion else
    let e := o_ent ob in
    let asg := written_asg sch s ob in
    let missing := existsb (fun a => negb (attr_is_set sch e a) && owbit ob a && match oval ob a with None => true | Some _ => false end)
                           (seq O (nattrs sch e)) in
    let finish (s1 : sess) :=
      Ok (upd_obj s1 o (fun ob2 => ob_set_wbits (ob_set_st (after_update_vals sch ob2) SUpdated) (repeat false (nattrs sch e)))) tt in
    if missing then Err s EKeyError       (* obj._vals_[attr] for a written attribute that was never loaded *)
    else
    match asg, o_pk ob with
    | [], _ => finish s
    | _, Some pk =>
      match db_update sch (s_db s) e pk asg with
      | inr d' => finish (set_db s d')
      | inl DbNoRow => Err s EOptimistic
      | inl DbIntegrity => Err s EIntegrity
      | inl DbUnmodelled => Err (mark_declined s) EOther
      end
    | _, None => Err s EOther
    end
  | None => Err s EOther
  end.

Definition save_deleted (sch : schema) (s : sess) (o : oid) : out unit :=
  match get_obj s o with
  | Some ob =>
    if negb (status_eqb (o_st ob) SMarked) then Err (mark_dirty s 27) EAssertion else
    match o_pk ob with
    | Some pk =>
      match db_delete sch (s_db s) (o_ent ob) pk with
      | inr d' => Ok (idx_del (upd_obj (set_db s d') o (fun ob2 => ob_set_st ob2 SDeleted)) (o_ent ob) O (VInt pk)) tt
      | inl _ => Err (mark_declined s) EOther
      end
    | None => Err s EOther
    end
  | None => Err s EOther
  end.

(* reference attributes whose target has to exist in the database first *)
Definition principal_attrs (sch : schema) (ob : obj) : list nat :=
  filter (fun a => attr_is_ref sch (o_ent ob) a && (status_eqb (o_st ob) SCreated || owbit ob a)) (seq O (nattrs sch (o_ent ob))).

(* _save_principal_objects_: created objects that this one references are saved first; rec = _save_ with the remaining fuel *)
Fixpoint save_principals (rec : sess -> oid -> out unit) (ob : obj) (s0 : sess) (l : list nat) : out unit :=
  match l with
  | [] => Ok s0 tt
  | a :: t =>
    match oval ob a with
    | Some (VRef p) =>
      if status_eqb (obj_st s0 p) SCreated then
        match rec s0 p with
        | Ok s1 _ => save_principals rec ob s1 t
        | Err s1 er => Err s1 er
        end
      else save_principals rec ob s0 t
    | _ => save_principals rec ob s0 t
    end
  end.

Fixpoint save_obj (fuel : nat) (sch : schema) (s : sess) (o : oid) (deps : list oid) : out unit :=
  match fuel with
  | O => Err s EOther
  | S f =>
    match get_obj s o with
    | Some ob =>
      let st := o_st ob in
      let r0 :=
        if status_eqb st SCreated || status_eqb st SModified then
          if mem_nat o deps then Err s ECyclic
          else save_principals (fun s0 p => save_obj f sch s0 p (deps ++ [o])) ob s (principal_attrs sch ob)
        else Ok s tt in
      match r0 with
      | Err s1 er => Err s1 er
      | Ok s1 _ =>
        let r1 := match st with
                  | SCreated => save_created sch s1 o
                  | SModified => save_updated sch s1 o
                  | SMarked => save_deleted sch s1 o
                  | _ => Err s1 EAssertion
                  end in
        match r1 with
        | Err s2 er => Err s2 er
        | Ok s2 _ =>
          let pos := match get_obj s2 o with Some ob2 => o_pos ob2 | None => None end in
          Ok (set_savedpend (upd_obj (unqueue_slot s2 pos) o (fun ob2 => ob_set_pos ob2 None)) true) tt
        end
      end
    | None => Err s EOther
    end
  end.

(* _calc_modified_m2m for one-to-many collections: forget added / removed, clear modified_collections *)
Definition calc_modcoll (s : sess) : sess :=
  set_modcoll (fold_left (fun acc p =>
     upd_obj acc (fst p) (fun ob => match oset ob (snd p) with
                                    | Some sd => ob_put_set ob (snd p) (Some (mkSd (sd_items sd) [] [] (sd_full sd) (sd_count sd)))
                                    | None => ob end)) (s_modcoll s) s) [].

Fixpoint flush_loop (sch : schema) (s : sess) (positions : list nat) : out unit :=
  match positions with
  | [] => Ok s tt
  | i :: t =>
    match nth i (s_tosave s) None with
    | Some o =>
      match save_obj (S (length (s_objs s))) sch s o [] with
      | Ok s1 _ => flush_loop sch s1 t
      | Err s1 er => Err s1 er
      end
    | None => flush_loop sch s t
    end
  end.

Definition flush (sch : schema) (s : sess) : out unit :=
  if s_savedpend s then Err s EAssertion
  else if negb (s_modified s) then Ok s tt
  else if s_ordsens s && Nat.leb 2 (length (filter (fun x => match x with
                                                            | Some o => status_eqb (obj_st s o) SCreated && match obj_pk s o with None => true | Some _ => false end
                                                            | None => false end) (s_tosave s)))
       then Err (mark_declined s) EOther      (* which object gets which AUTOINCREMENT id depends on set iteration order: not compared *)
  else
    let s1 := calc_modcoll s in
    match flush_loop sch s1 (seq O (length (s_tosave s1))) with
    | Ok s2 _ => Ok (set_ordsens (set_savedpend (set_modified (set_modcoll (set_tosave s2 []) []) false) false) false) tt
    | Err s2 er => Err s2 er
    end.

(* prepare_connection_for_query_execution: flush before a query unless flushing is disabled *)
Definition auto_flush (sch : schema) (s : sess) : out unit :=
  if s_modified s then flush sch s else Ok s tt.

(* ------------------------------------------------------------------------------------------------ handles, validation *)

Definition hget (s : sess) (h : nat) : option oid := nth_error (s_handles s) h.

Fixpoint index_of (x : nat) (l : list nat) (i : nat) : option nat :=
  match l with
  | [] => None
  | y :: t => if Nat.eqb x y then Some i else index_of x t (S i)
  end.

Definition handle_of (s : sess) (o : oid) : sess * nat :=
  match index_of o (s_handles s) O with
  | Some i => (s, i)
  | None => (set_handles s (s_handles s ++ [o]), length (s_handles s))
  end.

Fixpoint handles_of (s : sess) (os : list oid) : sess * list nat :=
  match os with
  | [] => (s, [])
  | o :: t => let '(s1, h) := handle_of s o in let '(s2, hs) := handles_of s1 t in (s2, h :: hs)
  end.

(* the order in which the harness numbers the members of a collection: saved objects by pk, then unsaved by age *)
Definition obj_le (s : sess) (o1 o2 : oid) : bool :=
  match obj_pk s o1, obj_pk s o2 with
  | Some a, Some b => Z.leb a b
  | Some _, None => true
  | None, Some _ => false
  | None, None => Nat.leb o1 o2
  end.
Definition objs_res (s : sess) (os : list oid) : sess * res :=
  let '(s1, hs) := handles_of s (sort_by (obj_le s) os) in (s1, RObjs hs).

Definition arg_handles (v : arg) : list nat :=
  match v with AObj h => [h] | AObjs hs => hs | _ => [] end.
Definition handles_ok (s : sess) (hs : list nat) : bool := forallb (fun h => Nat.ltb h (length (s_handles s))) hs.
Definition kw_handles_ok (s : sess) (kw : list (nat * arg)) : bool := forallb (fun p => handles_ok s (arg_handles (snd p))) kw.

Fixpoint kw_get (a : nat) (kw : list (nat * arg)) : option arg :=
  match kw with
  | [] => None
  | (b, v) :: t => if Nat.eqb a b then Some v else kw_get a t
  end.

Inductive vres (A : Type) : Type := VOk (x : A) | VErr (e : errkind) | VDecl.
Arguments VOk {A} x.
Arguments VErr {A} e.
Arguments VDecl {A}.

(* Attribute.validate / Required.validate for a scalar or reference attribute; None = DEFAULT (attribute not passed) *)
Definition validate (s : sess) (at_ : attr) (v : option arg) : vres val :=
  match a_kind at_ with
  | KInt =>
    match v with
    | None | Some ANone => if a_req at_ then VErr EValue else VOk VNone
    | Some (AInt z) => VOk (VInt z)
    | Some (AStr _) => VErr EValue
    | Some _ => VErr EType
    end
  | KStr =>
    match v with
    | None => if a_req at_ then VErr EValue else VOk (VStr [])
    | Some ANone => VErr EValue
    | Some (AStr t) => if a_req at_ && match t with [] => true | _ => false end then VErr EValue else VOk (VStr t)
    | Some _ => VErr EType
    end
  | KRef t _ =>
    match v with
    | None | Some ANone => if a_req at_ then VErr EValue else VOk VNone
    | Some (AObj h) =>
      match hget s h with
      | Some o => if Nat.eqb (obj_ent s o) t then (if is_del (obj_st s o) then VDecl else VOk (VRef o)) else VErr EType
      | None => VErr EBadHandle
      end
    | Some (AObjs _) => VErr EType
    | Some _ => VDecl
    end
  | KSet _ _ => VErr EOther
  end.

(* Set.validate *)
Definition validate_set (s : sess) (t : nat) (v : option arg) : vres (list oid) :=
  let objs hs := flat_map (fun h => match hget s h with Some o => [o] | None => [] end) hs in
  match v with
  | None => VOk []
  | Some ANone => VErr EValue
  | Some (AObj h) => let os := objs [h] in if forallb (fun o => Nat.eqb (obj_ent s o) t) os then VOk os else VErr EType
  | Some (AObjs hs) => let os := dedup_nat (objs hs) in if forallb (fun o => Nat.eqb (obj_ent s o) t) os then VOk os else VErr EType
  | Some _ => VDecl
  end.

(* ------------------------------------------------------------------------------------------------ reference assignment *)

(* Attribute.__set__(item, newv, undo_funcs) called from the collection side (is_reverse_call): status / wbits, the
   value, removal from the previous owner's collection; the caller maintains the new owner's collection *)
Definition ref_set_rev (sch : schema) (s : sess) (item : oid) (a : nat) (newv : val) : sess :=
  match ref_info sch (obj_ent s item) a with
  | None => s                      (* not a reference attribute of the item's entity: excluded by validation *)
  | Some (_, r) =>
    let old := obj_val s item a in
    let s1 := mark_written s item a in
    if oval_eqb old (Some newv) then s1
    else
      let s2 := upd_obj s1 item (fun ob => ob_put_val ob a (Some newv)) in
      match old with
      | Some (VRef x) => rev_remove s2 x r item
      | _ => s2
      end
  end.

(* Attribute.__set__(obj, newv) for a reference attribute, called by the program: both ends *)
Definition ref_set_direct (sch : schema) (s : sess) (o : oid) (a : nat) (newv : val) : sess :=
  match ref_info sch (obj_ent s o) a with
  | None => s
  | Some (t, r) =>
    (* the new target exists and belongs to the target entity: guaranteed by validation *)
    if negb (match newv with
             | VRef y => match get_obj s y with Some oby => Nat.eqb (o_ent oby) t | None => false end
             | _ => true end) then s else
    let old := obj_val s o a in
    let s1 := mark_written s o a in
    if oval_eqb old (Some newv) then s1
    else
      let s2 := upd_obj s1 o (fun ob => ob_put_val ob a (Some newv)) in
      let s3 := match old with Some (VRef x) => rev_remove s2 x r o | _ => s2 end in
      match newv with VRef y => rev_add s3 y r o | _ => s3 end
  end.

(* ------------------------------------------------------------------------------------------------ collections *)

Definition get_sd (s : sess) (o : oid) (a : nat) : setdata :=
  match get_obj s o with
  | Some ob => match oset ob a with Some sd => sd | None => sd_empty end
  | None => sd_empty
  end.
Definition has_sd (s : sess) (o : oid) (a : nat) : bool :=
  match get_obj s o with
  | Some ob => match oset ob a with Some _ => true | None => false end
  | None => false
  end.
Definition put_sd (s : sess) (o : oid) (a : nat) (sd : setdata) : sess := upd_obj s o (fun ob => ob_put_set ob a (Some sd)).

(* one item of the loops `for item in to_add: reverse.__set__(item, obj, undo_funcs)`; the code adds the items to the
   owner's SetData after the loop (`setdata |= new_items`), the model adds each at once: same final state *)
Definition sd_add_item (s : sess) (o : oid) (a : nat) (item : oid) : sess :=
  upd_obj s o (fun ob =>
    match oset ob a with
    | Some sd => ob_put_set ob a (Some (mkSd (add_nat item (sd_items sd)) (sd_added sd) (sd_removed sd) (sd_full sd) (sd_count sd)))
    | None => ob_put_set ob a (Some (mkSd [item] [] [] false None))
    end).
Definition item_link (sch : schema) (s : sess) (o : oid) (a r : nat) (item : oid) : sess :=
  match ref_info sch (obj_ent s item) r, get_obj s o with
  | Some (t', a'), Some obo =>
    if Nat.eqb a' a && Nat.eqb t' (o_ent obo) then sd_add_item (ref_set_rev sch s item r (VRef o)) o a item else s
  | _, _ => s                      (* the item's attribute r is not the reverse of o.a: excluded by validation *)
  end.

(* Set.load(obj, items) for one-to-many, without flushing *)
Definition coll_load_items (sch : schema) (s : sess) (o : oid) (a : nat) (items : list oid) : out unit :=
  let s0 := coll_ensure s o a in
  if coll_full s0 o a then Ok s0 tt
  else
    match set_info sch (obj_ent s0 o) a with
    | Some (t, r) =>
      let unl := filter (fun i => match obj_val s0 i r with None => true | Some _ => false end) items in
      match items, unl with
      | [], _ => coll_load_noflush sch s0 o a        (* `if items:` is false for an empty set: the full load follows *)
      | _, [] => Ok s0 tt
      | _, _ =>
        match sd_items (get_sd s0 o a) with
        | [] =>
          let pks := flat_map (fun i => match obj_pk s0 i with Some z => [z] | None => [] end) unl in
          match load_rows sch s0 t (filter (fun r_ => existsb (Z.eqb (r_pk r_)) pks) (tab (s_db s0) t)) with
          | Ok s1 _ => Ok s1 tt
          | Err s1 er => Err s1 er
          end
        | _ => coll_load_noflush sch s0 o a
        end
      end
    | None => Ok s0 tt
    end.

(* Pony iterates Python sets of entity instances (hash = address): when two or more objects are processed in one such
   loop the order in which they are queued for saving is not determined by the program *)
Definition note_order {A} (s : sess) (l : list A) : sess :=
  match l with _ :: _ :: _ => set_ordsens s true | _ => s end.

(* items that may not be linked: deleted objects make Attribute.__set__ raise OperationWithDeletedObjectError *)
Definition any_del (s : sess) (items : list oid) : bool := existsb (fun i => is_del (obj_st s i)) items.

Definition bookkeeping_add (sd : setdata) (items : list oid) (new_count : option Z) : setdata :=
  let items' := diff_nat items (sd_removed sd) in
  mkSd (union_nat (sd_items sd) items) (union_nat (sd_added sd) items') (diff_nat (sd_removed sd) items) (sd_full sd) new_count.

Definition bookkeeping_remove (sd : setdata) (items : list oid) (new_count : option Z) : setdata :=
  let items' := diff_nat items (sd_added sd) in
  mkSd (diff_nat (sd_items sd) items) (diff_nat (sd_added sd) items) (union_nat (sd_removed sd) items') (sd_full sd) new_count.

(* SetInstance.add *)
Definition coll_add (sch : schema) (s : sess) (o : oid) (a : nat) (items : list oid) : out unit :=
  match items with
  | [] => Ok s tt
  | _ =>
    let items1 := if has_sd s o a then diff_nat items (sd_items (get_sd s o a)) else items in
    let r := if has_sd s o a && coll_full s o a then Ok s tt else coll_load_items sch s o a items1 in
    match r with
    | Err s1 er => Err s1 er
    | Ok s1 _ =>
      let items2 := diff_nat items1 (sd_items (get_sd s1 o a)) in
      if any_del s1 items2 then Err s1 EDeleted
      else
        match set_info sch (obj_ent s1 o) a with
        | Some (_, r_) =>
          let s2 := fold_left (fun acc i => item_link sch acc o a r_ i) items2 (note_order s1 items2) in
          let sd := get_sd s2 o a in
          if Nat.eqb (s_dirty s2) O && negb (subset_nat items2 (sd_items sd)) then Err (mark_dirty s2 25) EAssertion
          else
          let s3 := put_sd s2 o a (bookkeeping_add sd items2 (opt_add (sd_count sd) (Z.of_nat (length items2)))) in
          Ok (set_modified (modcoll_add s3 o a) true) tt
        | None => Ok s1 tt
        end
    end
  end.

(* Set.copy asserts `item._wbits_ is not None` for every item that is not in setdata.added: a never-saved item that was
   unlinked and linked again sits in neither added nor removed (bookkeeping of Set.__set__ / remove), the read then fails *)
Definition copy_assert_fails (s : sess) (o : oid) (a : nat) : bool :=
  let sd := get_sd s o a in
  existsb (fun i => negb (mem_nat i (sd_added sd)) && status_eqb (obj_st s i) SCreated) (sd_items sd).

(* SetInstance.__nonzero__ without flushing *)
Definition coll_nonzero (sch : schema) (s : sess) (o : oid) (a : nat) : out bool :=
  let r := if has_sd s o a then Ok s tt else coll_load_noflush sch s o a in
  match r with
  | Err s1 er => Err s1 er
  | Ok s1 _ =>
    match sd_items (get_sd s1 o a) with
    | _ :: _ => Ok s1 true
    | [] =>
      match (if coll_full s1 o a then Ok s1 tt else coll_load_noflush sch s1 o a) with
      | Err s2 er => Err s2 er
      | Ok s2 _ => Ok s2 (match sd_items (get_sd s2 o a) with [] => false | _ => true end)
      end
    end
  end.

Fixpoint fold_out {A} (f : sess -> A -> out unit) (s : sess) (l : list A) : out unit :=
  match l with
  | [] => Ok s tt
  | x :: t => match f s x with Ok s1 _ => fold_out f s1 t | Err s1 er => Err s1 er end
  end.

(* Set.__set__(obj, new_items); del = Entity._delete_ with the remaining fuel *)
Definition coll_assign_gen (del : sess -> oid -> out unit) (sch : schema) (s : sess) (o : oid) (a : nat) (items : list oid) : out unit :=
  let r := if has_sd s o a then (if coll_full s o a then Ok s tt else coll_load_noflush sch s o a)
           else if status_eqb (obj_st s o) SCreated then Ok (put_sd s o a (mkSd [] [] [] true (Some 0))) tt
           else coll_load_noflush sch s o a in
  match r with
  | Err s1 er => Err s1 er
  | Ok s1 _ =>
    let cur := sd_items (get_sd s1 o a) in
    if seteq_nat items cur then Ok s1 tt
    else
      let to_add := diff_nat items cur in
      let to_remove := diff_nat cur items in
      if any_del s1 to_add then
        (* the code removes first and fails afterwards; the undo of a cascaded delete does not put a created object back
           into objects_to_save (known finding) *)
        Err (if set_cascade sch (obj_ent s1 o) a && match to_remove with [] => false | _ => true end then mark_dirty s1 4 else s1) EDeleted
      else
        match set_info sch (obj_ent s1 o) a with
        | Some (_, r_) =>
          let s1' := note_order (note_order s1 to_remove) to_add in
          if negb (set_cascade sch (obj_ent s1 o) a) && any_del s1 to_remove then Err (mark_dirty s1 26) EDeleted else
          let r2 := if set_cascade sch (obj_ent s1 o) a then fold_out del s1' to_remove
                    else Ok (fold_left (fun acc i => ref_set_rev sch acc i r_ VNone) to_remove s1') tt in
          match r2 with
          | Err s2 er => Err s2 er
          | Ok s2 _ =>
            if any_del s2 to_add then Err (mark_dirty s2 26) EDeleted else
            let s3 := fold_left (fun acc i => item_link sch acc o a r_ i) to_add s2 in
            let sd := get_sd s3 o a in
            if Nat.eqb (s_dirty s3) O && negb (seteq_nat (sd_items sd) items) then Err (mark_dirty s3 24) EAssertion
            else
            let cnt := match sd_count sd with Some _ => Some (Z.of_nat (length items)) | None => None end in
            let sd1 := mkSd items (sd_added sd) (sd_removed sd) (sd_full sd) cnt in
            let sd2 := match to_add with
                       | [] => sd1
                       | _ => mkSd items (union_nat (sd_added sd1) (diff_nat to_add (sd_removed sd1))) (diff_nat (sd_removed sd1) to_add) (sd_full sd1) cnt
                       end in
            let sd3 := match to_remove with
                       | [] => sd2
                       | _ => if negb assign_rebooks_one_to_many then sd2 else      (* since 11753a1 only many-to-many records to_remove here *)
                              mkSd items (diff_nat (sd_added sd2) to_remove) (union_nat (sd_removed sd2) (diff_nat to_remove (sd_added sd2))) (sd_full sd2) cnt
                       end in
            Ok (set_modified (modcoll_add (put_sd s3 o a sd3) o a) true) tt
          end
        | None => Ok s1 tt
        end
  end.

(* SetInstance.remove (the cached count is decremented by reverse_remove and then once more: as in the code) *)
Definition coll_remove_gen (del : sess -> oid -> out unit) (sch : schema) (s : sess) (o : oid) (a : nat) (items : list oid) : out unit :=
  let items0 := if has_sd s o a then diff_nat items (sd_removed (get_sd s o a)) else items in
  match items0 with
  | [] => Ok s tt
  | _ =>
    let r := if has_sd s o a && coll_full s o a then Ok s tt else coll_load_items sch s o a items0 in
    match r with
    | Err s1 er => Err s1 er
    | Ok s1 _ =>
      let items1 := inter_nat items0 (sd_items (get_sd s1 o a)) in
      match set_info sch (obj_ent s1 o) a with
      | Some (_, r_) =>
        let s1' := note_order s1 items1 in
        if negb (set_cascade sch (obj_ent s1 o) a) && any_del s1 items1 then Err (mark_dirty s1 26) EDeleted else
        let r2 := if set_cascade sch (obj_ent s1 o) a then fold_out del s1' items1
                  else Ok (fold_left (fun acc i => ref_set_rev sch acc i r_ VNone) items1 s1') tt in
        match r2 with
        | Err s2 er => Err s2 er
        | Ok s2 _ =>
          let sd := get_sd s2 o a in
          if Nat.eqb (s_dirty s2) O && existsb (fun i => mem_nat i (sd_items sd)) items1 then Err (mark_dirty s2 23) EAssertion
          else
          (* one-to-many: reverse_remove (reached through the items) has already updated this SetData.  Before commit 11753a1 the code
             recorded the removal a second time (count one too low: recorded defect); since then it returns here.
             Gen/SessionFlags.v says which shape /repo has. *)
          if remove_rebooks_one_to_many then
            let s3 := put_sd s2 o a (bookkeeping_remove sd items1 (opt_add (sd_count sd) (- Z.of_nat (length items1)))) in
            Ok (set_modified (modcoll_add s3 o a) true) tt
          else Ok s2 tt
        end
      | None => Ok s1 tt
      end
    end
  end.

(* the second half of Entity._delete_: leave the collections of the referenced objects, drop the unique keys from the
   indexes, change the status (created -> cancelled, otherwise marked_to_delete and queued) *)
Definition del_unlink (sch : schema) (s : sess) (o : oid) (e : nat) (l : list nat) : sess :=
  fold_left (fun acc a =>
               match ref_info sch e a, obj_val acc o a with
               | Some (_, r_), Some (VRef x) => rev_remove acc x r_ o
               | _, _ => acc
               end) l s.

Definition del_keys (sch : schema) (s : sess) (o : oid) (e : nat) (l : list nat) : sess :=
  fold_left (fun acc a =>
               if attr_uniq sch e a then
                 match obj_val acc o a with
                 | Some v => if is_vnone v then acc else idx_del acc e (S a) v
                 | None => acc
                 end
               else acc) l s.

Definition delete_tail (sch : schema) (s1 : sess) (o : oid) (ob : obj) : out unit :=
  match get_obj s1 o with
  | None => Err s1 EOther
  | Some ob1 =>
    (* _delete_ keeps `status` and `save_pos` from its start (ob); if the object's own cascade modified it (a child's
       collection contained it) the stale values queue it twice and the delete overtakes pending updates, which
       then fail their optimistic checks: not modelled *)
    if negb (status_eqb (o_st ob1) (o_st ob)) || negb (Nat.eqb (o_ent ob1) (o_ent ob)) then Err (mark_declined s1) EOther
    else
      let e := o_ent ob1 in
      let attrs := seq O (nattrs sch e) in
      let s3 := del_keys sch (del_unlink sch s1 o e attrs) o e attrs in
      if status_eqb (o_st ob1) SCreated then
        let s4 := upd_obj (unqueue_slot s3 (o_pos ob1)) o (fun x => ob_set_st (ob_set_pos x None) SCancelled) in
        Ok (match o_pk ob1 with Some pk => idx_del s4 e O (VInt pk) | None => s4 end) tt
      else
        let s4 := if status_eqb (o_st ob1) SModified then unqueue_slot s3 (o_pos ob1) else s3 in
        Ok (queue (upd_obj s4 o (fun x => ob_set_st x SMarked)) o) tt
  end.

(* Entity._delete_ *)
Fixpoint delete_obj (fuel : nat) (sch : schema) (s : sess) (o : oid) : out unit :=
  match fuel with
  | O => Err s EOther
  | S f =>
    match get_obj s o with
    | None => Err s EOther
    | Some ob =>
      if is_del (o_st ob) then Ok s tt
      else
        let e := o_ent ob in
        let attrs := seq O (nattrs sch e) in
        let r1 := fold_out (fun s0 a =>
                    if attr_is_set sch e a && Nat.ltb a (nattrs sch e) then
                      match coll_nonzero sch s0 o a with
                      | Err s1 er => Err s1 er
                      | Ok s1 false => Ok s1 tt
                      | Ok s1 true =>
                        if set_cascade sch e a then
                          match (if coll_full s1 o a then Ok s1 tt else coll_load_noflush sch s1 o a) with
                          | Err s2 er => Err s2 er
                          | Ok s2 _ => if copy_assert_fails s2 o a then Err s2 EAssertion
                                       else fold_out (delete_obj f sch) (note_order s2 (sd_items (get_sd s2 o a))) (sd_items (get_sd s2 o a))
                          end
                        else coll_assign_gen (delete_obj f sch) sch s1 o a []
                      end
                    else Ok s0 tt) s attrs in
        match r1 with
        | Err s1 er => Err s1 er
        | Ok s1 _ => delete_tail sch s1 o ob
        end
    end
  end.

Definition del_fuel (sch : schema) (s : sess) : nat := S (S (length (s_objs s) + length sch)).
Definition coll_assign (sch : schema) (s : sess) := coll_assign_gen (delete_obj (del_fuel sch s) sch) sch s.
Definition coll_remove (sch : schema) (s : sess) := coll_remove_gen (delete_obj (del_fuel sch s) sch) sch s.

(* ------------------------------------------------------------------------------------------------ creation: Entity.__init__ *)

Inductive cval : Type := CVal (v : val) | CSet (items : list oid).

(* validate every attribute in declaration order (kwargs.get(name, DEFAULT)) *)
Fixpoint validate_all (s : sess) (attrs : list attr) (a : nat) (kw : list (nat * arg)) : vres (list cval) :=
  match attrs with
  | [] => VOk []
  | at_ :: t =>
    let r := match a_kind at_ with
             | KSet tg _ => match validate_set s tg (kw_get a kw) with VOk l => VOk (CSet l) | VErr e => VErr e | VDecl => VDecl end
             | _ => match validate s at_ (kw_get a kw) with VOk v => VOk (CVal v) | VErr e => VErr e | VDecl => VDecl end
             end in
    match r with
    | VOk c => match validate_all s t (S a) kw with VOk cs => VOk (c :: cs) | VErr e => VErr e | VDecl => VDecl end
    | VErr e => VErr e
    | VDecl => VDecl
    end
  end.

Definition cval_val (c : cval) : option val := match c with CVal v => Some v | CSet _ => None end.

Fixpoint first_bad_set (s : sess) (cs : list cval) (a : nat) : option nat :=
  match cs with
  | [] => None
  | CSet items :: t => if any_del s items then Some a else first_bad_set s t (S a)
  | _ :: t => first_bad_set s t (S a)
  end.

(* norefs: reference values start as None; new_op links them one by one afterwards (update_reverse) *)
Definition cval_init (norefs : bool) (c : cval) : option val :=
  match c with
  | CVal (VRef x) => if norefs then Some VNone else Some (VRef x)
  | CVal v => Some v
  | CSet _ => None
  end.

Definition new_obj_record (norefs : bool) (e : nat) (pk : option Z) (cs : list cval) (upto : nat) : obj :=
  let n := length cs in
  mkObj e pk SCreated
        (map (fun p => if Nat.ltb (fst p) upto then cval_init norefs (snd p) else None) (combine (seq O n) cs))
        (repeat None n) (repeat false n)
        (map (fun p => match snd p with CSet _ => if Nat.leb (fst p) upto then Some (mkSd [] [] [] true (Some 0)) else None | CVal _ => None end)
             (combine (seq O n) cs))
        None false.

Definition key_conflicts (sch : schema) (s : sess) (e : nat) (ob0 : obj) (l : list nat) : bool :=
  existsb (fun a => attr_uniq sch e a &&
                    match oval ob0 a with
                    | Some v => negb (is_vnone v) && match idx_get s e (S a) v with Some _ => true | None => false end
                    | None => false
                    end) l.

(* register the loaded, non-None unique values of o in the indexes *)
Definition put_keys (sch : schema) (s : sess) (o : oid) (e : nat) (l : list nat) : sess :=
  fold_left (fun acc a =>
               if attr_uniq sch e a then
                 match obj_val acc o a with
                 | Some v => if is_vnone v then acc else idx_put acc e (S a) v o
                 | None => acc
                 end
               else acc) l s.

Definition new_op (sch : schema) (s : sess) (e : nat) (pk : option Z) (kw : list (nat * arg)) : sess * res :=
  match nth_error sch e with
  | None => (s, RErr EBadAttr)
  | Some en =>
    if negb (kw_handles_ok s kw) then (s, RErr EBadHandle)
    else if existsb (fun p => Nat.leb (length (e_attrs en)) (fst p)) kw then (s, RErr EBadAttr)
    else if negb (e_auto en) && match pk with None => true | Some _ => false end then (s, RErr EValue)
    else
      match validate_all s (e_attrs en) O kw with
      | VErr er => (s, RErr er)
      | VDecl => (mark_declined s, RDecline)
      | VOk cs =>
        let n := length cs in
        let ics := combine (seq O n) cs in
        let ob0 := new_obj_record true e pk cs n in
        if key_conflicts sch s e ob0 (seq O n) then (s, RErr ECacheIndex)
        else if match pk with Some z => match idx_get s e O (VInt z) with Some _ => true | None => false end | None => false end
        then (s, RErr ECacheIndex)
        else
          match first_bad_set s cs O with
          | Some j =>
            (* OperationWithDeletedObjectError after _get_from_identity_map_ registered the object: it stays in the
               primary-key index, half initialised and never queued (known finding) *)
            let '(s1, o) := push_obj s (new_obj_record false e pk cs j) in
            let s2 := match pk with Some z => idx_put s1 e O (VInt z) o | None => s1 end in
            (mark_dirty s2 1, RErr EDeleted)
          | None =>
            let '(s1, o) := push_obj s ob0 in
            (* the primary key and the unique keys enter the indexes (the code does the latter after the attribute loop;
               nothing in between reads them) *)
            let s2 := match pk with Some z => idx_put s1 e O (VInt z) o | None => s1 end in
            let s3 := put_keys sch s2 o e (seq O n) in
            (* references: update_reverse(obj, None, val); collections: Set.__set__(obj, items, undo_funcs) *)
            let s4 := fold_left (fun acc p =>
                        match snd p with
                        | CVal (VRef t) => ref_set_direct sch acc o (fst p) (VRef t)
                        | CVal _ => acc
                        | CSet [] => acc
                        | CSet items =>
                          match set_info sch e (fst p) with
                          | Some (_, r_) =>
                            let acc1 := fold_left (fun ac i => item_link sch ac o (fst p) r_ i) items (note_order acc items) in
                            let acc1 := if negb (Nat.eqb (s_dirty acc1) O) || seteq_nat (sd_items (get_sd acc1 o (fst p))) items then acc1 else mark_dirty acc1 24 in
                            set_modified (modcoll_add (put_sd acc1 o (fst p) (mkSd items items [] true (Some (Z.of_nat (length items))))) o (fst p)) true
                          | None => acc
                          end
                        end) ics s3 in
            let '(s5, h) := handle_of (queue s4 o) o in
            (s5, RObj h)
          end
      end
  end.

(* unique attribute: index and value together (update_simple_index + vals); the caller has excluded a conflict.
   The guards (deleted object, foreign entity) cannot fire after the callers' checks. *)
Definition key_set (s : sess) (o : oid) (e a : nat) (nv : val) : sess :=
  match get_obj s o with
  | Some ob =>
    if is_del (o_st ob) || negb (Nat.eqb (o_ent ob) e) then s
    else
      let old := oval ob a in
      if oval_eqb old (Some nv) then s
      else
        let s2 := if is_vnone nv then s else idx_put s e (S a) nv o in
        let s3 := match old with Some ov => if is_vnone ov then s2 else idx_del s2 e (S a) ov | None => s2 end in
        upd_obj s3 o (fun ob1 => ob_put_val ob1 a (Some nv))
  | None => s
  end.

(* the index half only: what Entity.set has done to cache.indexes when it fails later *)
Definition key_set_index_only (s : sess) (o : oid) (e a : nat) (nv : val) : sess :=
  let old := match obj_val s o a with Some ov => ov | None => VNone end in
  if val_eqb old nv then s
  else
    let s2 := if is_vnone nv then s else idx_put s e (S a) nv o in
    if is_vnone old then s2 else idx_del s2 e (S a) old.

Definition key_conflict (s : sess) (o : oid) (e a : nat) (nv : val) : bool :=
  let old := match obj_val s o a with Some ov => ov | None => VNone end in
  negb (val_eqb old nv) && negb (is_vnone nv) &&
  match idx_get s e (S a) nv with Some o2 => negb (Nat.eqb o2 o) | None => false end.

(* site 28: a conflict after the preliminary scan of Entity.set found none *)
Definition key_set_checked (sch : schema) (s : sess) (o : oid) (e a : nat) (nv : val) : sess :=
  if negb (attr_uniq sch e a) || key_conflict s o e a nv then mark_dirty s 28 else key_set s o e a nv.

(* ------------------------------------------------------------------------------------------------ obj.attr = value *)

Definition set_op (sch : schema) (s : sess) (h a : nat) (v : arg) : sess * res :=
  match hget s h with
  | None => (s, RErr EBadHandle)
  | Some o =>
    let e := obj_ent s o in
    match get_attr sch e a with
    | None => (s, RErr EBadAttr)
    | Some at_ =>
      if is_set_kind (a_kind at_) then (s, RErr EBadAttr)
      else if negb (handles_ok s (arg_handles v)) then (s, RErr EBadHandle)
      else if is_del (obj_st s o) then (s, RErr EDeleted)
      else
        match validate s at_ (Some v) with
        | VErr er => (s, RErr er)
        | VDecl => (mark_declined s, RDecline)
        | VOk nv =>
          let old := obj_val s o a in
          if is_ref_kind (a_kind at_) then (ref_set_direct sch s o a nv, ROk)
          else if negb (a_uniq at_) then (upd_obj (mark_written s o a) o (fun ob => ob_put_val ob a (Some nv)), ROk)
          else
            let s1 := mark_written s o a in
            if oval_eqb old (Some nv) then (s1, ROk)
            else if key_conflict s1 o e a nv then
              (* update_simple_index raises; undo_func restores status, wbits and the queue (cache.modified stays set);
                 if the old value was NOT_LOADED the undo itself raises KeyError *)
              (set_modified s (s_modified s || negb (status_eqb (obj_st s o) SCreated)),
               RErr (match old with None => EKeyError | Some _ => ECacheIndex end))
            else (key_set s1 o e a nv, ROk)
        end
    end
  end.

(* ------------------------------------------------------------------------------------------------ Entity.set with keyword arguments *)

Fixpoint validate_kw (sch : schema) (s : sess) (e : nat) (kw : list (nat * arg)) : vres (list (nat * cval)) :=
  match kw with
  | [] => VOk []
  | (a, v) :: t =>
    match get_attr sch e a with
    | None => VErr EBadAttr
    | Some at_ =>
      let r := match a_kind at_ with
               | KSet tg _ => match validate_set s tg (Some v) with VOk l => VOk (CSet l) | VErr er => VErr er | VDecl => VDecl end
               | _ => match validate s at_ (Some v) with VOk x => VOk (CVal x) | VErr er => VErr er | VDecl => VDecl end
               end in
      match r with
      | VOk c => match validate_kw sch s e t with VOk cs => VOk ((a, c) :: cs) | VErr er => VErr er | VDecl => VDecl end
      | VErr er => VErr er
      | VDecl => VDecl
      end
    end
  end.

(* Entity.set: the simple keys are updated in the indexes first, in declaration order; a conflict stops the loop *)
Fixpoint setmany_scan (o : oid) (e : nat) (acc : sess) (changed : bool) (l : list (nat * val)) : sess * bool * bool :=
  match l with
  | [] => (acc, changed, false)
  | (a, v) :: t =>
    if key_conflict acc o e a v then (acc, changed, true)
    else let acc' := key_set_index_only acc o e a v in
         setmany_scan o e acc' (changed || negb (val_eqb (match obj_val acc o a with Some ov => ov | None => VNone end) v)) t
  end.

(* the successful Entity.set, one attribute at a time: key (index and value), reference (both ends), plain value *)
Definition setmany_apply (sch : schema) (o : oid) (e : nat) (acc : sess) (p : nat * val) : sess :=
  if attr_uniq sch e (fst p) then key_set_checked sch acc o e (fst p) (snd p)
  else if attr_is_ref sch e (fst p) then ref_set_direct sch acc o (fst p) (snd p)
  else upd_obj acc o (fun ob => ob_put_val ob (fst p) (Some (snd p))).

Definition setmany_op (sch : schema) (s : sess) (h : nat) (kw : list (nat * arg)) : sess * res :=
  match hget s h with
  | None => (s, RErr EBadHandle)
  | Some o =>
    let e := obj_ent s o in
    if existsb (fun p => Nat.leb (nattrs sch e) (fst p)) kw then (s, RErr EBadAttr)
    else if negb (kw_handles_ok s kw) then (s, RErr EBadHandle)
    else if is_del (obj_st s o) then (s, RErr EDeleted)
    else
      match validate_kw sch s e kw with
      | VErr er => (s, RErr er)
      | VDecl => (mark_declined s, RDecline)
      | VOk cs =>
        let avs := flat_map (fun p => match snd p with CVal v => [(fst p, v)] | CSet _ => [] end) cs in
        let cavs := flat_map (fun p => match snd p with CSet l => [(fst p, l)] | CVal _ => [] end) cs in
        (* load the object if a reference that is going to be assigned is not loaded (inside flush_disabled) *)
        let r0 := match avs with
                  | [] => Ok s tt
                  | _ => if existsb (fun p => attr_is_ref sch e (fst p) && match obj_val s o (fst p) with None => true | Some _ => false end) avs
                         then load_obj_noflush sch s o else Ok s tt
                  end in
        match r0 with
        | Err s1 er => (s1, RErr er)
        | Ok s1 _ =>
          if is_del (obj_st s1 o) || negb (Nat.eqb (obj_ent s1 o) e) then (mark_dirty s1 27, RErr EAssertion) else
          let s2 := fold_left (fun acc p => mark_written acc o (fst p)) avs s1 in
          (* (the code has a shortcut for calls with plain attributes only: same result as the general path) *)
            let avs' := filter (fun p => negb (oval_eqb (obj_val s2 o (fst p)) (Some (snd p)))) avs in
            (* simple keys in declaration order *)
            let keys := flat_map (fun a => filter (fun p => Nat.eqb (fst p) a && attr_uniq sch e a) avs') (seq O (nattrs sch e)) in
            let '(s_idx_only, changed, conflict) := setmany_scan o e s2 false keys in
            (* Entity.set updates reverse sides, then collections, and only then vals: with a reference and a collection
               argument in one call the collection code observes the stale reference; not modelled *)
            if match cavs with [] => false | _ => existsb (fun p => attr_is_ref sch e (fst p)) avs' end then (mark_declined s, RDecline)
            else if conflict then
              (* update_simple_index raised.  Entity.set defines an undo closure (status, wbits, queue, index changes) but - recorded defect -
                 never appends it to undo_funcs: the written bits and earlier index updates stay.  With the proposed repair the
                 closure runs and only cache.modified stays set.  Gen/SessionFlags.v says which shape /repo has. *)
              if entity_set_registers_undo then (set_modified s1 (s_modified s1 || negb (status_eqb (obj_st s1 o) SCreated)), RErr ECacheIndex)
              else ((if changed then mark_dirty s_idx_only 2 else s2), RErr ECacheIndex)
            else
              (* success path, atomically per attribute *)
              let s3 := fold_left (setmany_apply sch o e) avs' s2 in
              match fold_out (fun acc p => coll_assign sch acc o (fst p) (snd p)) s3 cavs with
              | Ok s4 _ => (s4, ROk)
              | Err _ er =>
                (* a collection assignment failed: reverse sides are undone, cache.indexes is not (known finding) *)
                (* (objects loaded by the failing assignment stay loaded, so the state is not claimed even when nothing else changed) *)
                (mark_dirty (if changed || Nat.ltb 1 (length cavs) then s_idx_only else s2) 3, RErr er)
              end
        end
      end
  end.

(* ------------------------------------------------------------------------------------------------ the remaining operations *)

Definition lift_unit (r : out unit) : sess * res :=
  match r with Ok s _ => (s, ROk) | Err s er => (s, RErr er) end.

Definition delete_op (sch : schema) (s : sess) (h : nat) : sess * res :=
  match hget s h with
  | None => (s, RErr EBadHandle)
  | Some o =>
    match delete_obj (del_fuel sch s) sch s o with
    | Ok s1 _ => (s1, ROk)
    | Err s1 er => (mark_dirty s1 9, RErr er)     (* _delete_ raised after its cascade may have started: the undo is partial (dirty site 9) *)
    end
  end.

Inductive collop : Type := CAdd | CRemove | CAssign.

Definition coll_op (sch : schema) (s : sess) (k : collop) (h a : nat) (hs : list nat) : sess * res :=
  match hget s h with
  | None => (s, RErr EBadHandle)
  | Some o =>
    let e := obj_ent s o in
    match get_attr sch e a with
    | None => (s, RErr EBadAttr)
    | Some at_ =>
      match a_kind at_ with
      | KSet tg _ =>
        if negb (handles_ok s hs) then (s, RErr EBadHandle)
        else if is_del (obj_st s o) then (s, RErr EDeleted)
        else
          match validate_set s tg (Some (AObjs hs)) with
          | VErr er => (s, RErr er)
          | VDecl => (mark_declined s, RDecline)
          | VOk items =>
            lift_unit (match k with
                       | CAdd => coll_add sch s o a items
                       | CRemove => coll_remove sch s o a items
                       | CAssign => coll_assign sch s o a items
                       end)
          end
      | _ => (s, RErr EBadAttr)
      end
    end
  end.

(* attribute read: Attribute.__get__ / Set.copy *)
Definition read_op (sch : schema) (s : sess) (h a : nat) : sess * res :=
  match hget s h with
  | None => (s, RErr EBadHandle)
  | Some o =>
    let e := obj_ent s o in
    match get_attr sch e a with
    | None => (s, RErr EBadAttr)
    | Some at_ =>
      match a_kind at_ with
      | KSet _ _ =>
        if is_del (obj_st s o) then (s, RErr EDeleted)
        else if has_sd s o a && coll_full s o a then
          (if copy_assert_fails s o a then (s, RErr EAssertion) else objs_res s (sd_items (get_sd s o a)))
        else
          match auto_flush sch s with
          | Err s1 er => (s1, RErr er)
          | Ok s1 _ =>
            match coll_load_noflush sch s1 o a with
            | Err s2 er => (s2, RErr er)
            | Ok s2 _ => if copy_assert_fails s2 o a then (s2, RErr EAssertion) else objs_res s2 (sd_items (get_sd s2 o a))
            end
          end
      | _ =>
        if is_gone (obj_st s o) then (s, RErr EDeleted)
        else
          let finish (s1 : sess) :=
            match obj_val s1 o a with
            | Some (VRef x) => let '(s2, hx) := handle_of s1 x in (s2, RObj hx)
            | Some VNone => if is_ref_kind (a_kind at_) then (s1, RNoneObj) else (s1, RVal VNone)
            | Some v => (s1, RVal v)
            | None => (s1, RErr EKeyError)
            end in
          match obj_val s o a with
          | Some _ => finish s
          | None =>
            match auto_flush sch s with
            | Err s1 er => (s1, RErr er)
            | Ok s1 _ =>
              match load_obj_noflush sch s1 o with
              | Err s2 er => (s2, RErr er)
              | Ok s2 _ => finish s2
              end
            end
          end
      end
    end
  end.

Definition pk_op (s : sess) (h : nat) : sess * res :=
  match hget s h with
  | None => (s, RErr EBadHandle)
  | Some o => (s, RVal (match obj_pk s o with Some z => VInt z | None => VNone end))
  end.

Definition with_set_attr (sch : schema) (s : sess) (h a : nat) (k : oid -> nat -> nat -> sess * res) : sess * res :=
  match hget s h with
  | None => (s, RErr EBadHandle)
  | Some o =>
    match get_attr sch (obj_ent s o) a with
    | None => (s, RErr EBadAttr)
    | Some at_ => match a_kind at_ with KSet tg r => k o tg r | _ => (s, RErr EBadAttr) end
    end
  end.

(* SetInstance.count: the SQL COUNT runs with flushing disabled; added / removed adjust it *)
Definition count_op (sch : schema) (s : sess) (h a : nat) : sess * res :=
  with_set_attr sch s h a (fun o tg r =>
    if is_del (obj_st s o) then (s, RErr EDeleted)
    else
      let s0 := coll_ensure s o a in
      let sd := get_sd s0 o a in
      match sd_count sd with
      | Some n => if has_sd s o a then (s, RInt n)
                  else (s0, RInt n)
      | None =>
        let dbn := match obj_pk s0 o with
                   | Some pk => Z.of_nat (length (select_eq (s_db s0) tg r (VInt pk)))
                   | None => 0
                   end in
        let n := dbn + Z.of_nat (length (sd_added sd)) - Z.of_nat (length (sd_removed sd)) in
        (put_sd s0 o a (mkSd (sd_items sd) (sd_added sd) (sd_removed sd) (sd_full sd) (Some n)), RInt n)
      end).

(* SetInstance.is_empty *)
Definition isempty_op (sch : schema) (s : sess) (h a : nat) : sess * res :=
  with_set_attr sch s h a (fun o tg r =>
    if is_del (obj_st s o) then (s, RErr EDeleted)
    else
      let had := has_sd s o a in
      let s0 := coll_ensure s o a in
      let sd := get_sd s0 o a in
      if had && sd_full sd then (s0, RBool (match sd_items sd with [] => true | _ => false end))
      else if had && match sd_items sd with [] => false | _ => true end then (s0, RBool false)
      else if had && match sd_count sd with Some _ => true | None => false end then (s0, RBool (match sd_count sd with Some n => Z.eqb n 0 | None => false end))
      else
        match auto_flush sch s0 with
        | Err s1 er => (s1, RErr er)
        | Ok s1 _ =>
          let rows := match obj_pk s1 o with Some pk => firstn 1 (select_eq (s_db s1) tg r (VInt pk)) | None => [] end in
          match load_rows sch s1 tg rows with
          | Err s2 er => (s2, RErr er)
          | Ok s2 _ =>
            let sd2 := get_sd s2 o a in
            match sd_items sd2 with
            | _ :: _ => (s2, RBool false)
            | [] => (put_sd s2 o a (mkSd [] (sd_added sd2) (sd_removed sd2) true (Some 0)), RBool true)
            end
          end
        end).

(* SetInstance.__contains__ for one-to-many: compares the item's reference with the owner *)
Definition contains_op (sch : schema) (s : sess) (h a h2 : nat) : sess * res :=
  with_set_attr sch s h a (fun o tg r =>
    match hget s h2 with
    | None => (s, RErr EBadHandle)
    | Some item =>
      if is_del (obj_st s o) then (s, RErr EDeleted)
      else if negb (Nat.eqb (obj_ent s item) tg) then (s, RBool false)
      else
        let finish (s1 : sess) :=
          match obj_val s1 item r with
          | Some v => (s1, RBool (val_eqb v (VRef o)))
          | None => (s1, RErr EKeyError)
          end in
        match obj_val s item r with
        | Some _ => finish s
        | None =>
          match auto_flush sch s with
          | Err s1 er => (s1, RErr er)
          | Ok s1 _ =>
            match load_obj_noflush sch s1 item with
            | Err s2 er => (s2, RErr er)
            | Ok s2 _ => finish s2
            end
          end
        end
    end).

(* Entity[pk] *)
Definition getpk_op (sch : schema) (s : sess) (e : nat) (v : arg) : sess * res :=
  match nth_error sch e with
  | None => (s, RErr EBadAttr)
  | Some en =>
    match v with
    | ANone => if e_auto en then
                 match auto_flush sch s with
                 | Err s1 er => (s1, RErr er)
                 | Ok s1 _ => (s1, RErr EObjectNotFound)      (* WHERE id IS NULL *)
                 end
               else (s, RErr EValue)
    | AStr _ => (s, RErr EValue)
    | AInt z =>
      match idx_get s e O (VInt z) with
      | Some o => if status_eqb (obj_st s o) SMarked then (s, RErr EObjectNotFound)
                  else let '(s1, hh) := handle_of s o in (s1, RObj hh)
      | None =>
        match auto_flush sch s with
        | Err s1 er => (s1, RErr er)
        | Ok s1 _ =>
          match find_row (tab (s_db s1) e) z with
          | None => (s1, RErr EObjectNotFound)
          | Some r =>
            match load_row sch s1 e r with
            | Err s2 er => (s2, RErr er)
            | Ok s2 (Some o) => let '(s3, hh) := handle_of s2 o in (s3, RObj hh)
            | Ok s2 None => (s2, RErr EObjectNotFound)
            end
          end
        end
      end
    | _ => (mark_declined s, RDecline)
    end
  end.

(* the SQL parameter for a criterion value; None = the parameter is NULL, `col = NULL` matches nothing
   (an unsaved object has no primary key yet when the arguments are bound, before the flush: known finding) *)
Definition criterion (s : sess) (v : val) : option val :=
  match v with
  | VRef o => match obj_pk s o with Some z => Some (VInt z) | None => None end
  | _ => Some v
  end.

Definition query_rows (s_args s_db_ : sess) (e a : nat) (v : val) : list row :=
  match criterion s_args v with
  | Some c => select_eq (s_db s_db_) e a c
  | None => []
  end.

(* Entity.get(attr=value) *)
Definition getby_op (sch : schema) (s : sess) (e a : nat) (v : arg) : sess * res :=
  match get_attr sch e a with
  | None => (s, RErr EBadAttr)
  | Some at_ =>
    if negb (handles_ok s (arg_handles v)) then (s, RErr EBadHandle)
    else
      match a_kind at_ with
      | KSet tg _ =>
        match validate_set s tg (Some v) with
        | VErr er => (s, RErr er)
        | VDecl => (mark_declined s, RDecline)
        | VOk _ => (s, RErr EType)
        end
      | _ =>
        match validate s at_ (Some v) with
        | VErr er => (s, RErr er)
        | VDecl => (mark_declined s, RDecline)
        | VOk cv =>
          let cached := if a_uniq at_ && negb (is_vnone cv) then idx_get s e (S a) cv else None in
          match cached with
          | Some o =>
            if status_eqb (obj_st s o) SMarked then (s, RNoneObj)
            else if negb (oval_eqb (obj_val s o a) (Some cv)) then (s, RNoneObj)
            else let '(s1, hh) := handle_of s o in (s1, RObj hh)
          | None =>
            match auto_flush sch s with
            | Err s1 er => (s1, RErr er)
            | Ok s1 _ =>
              (* the arguments are bound before the auto-flush (recorded defect: a new object as criterion has no primary key yet) or after it *)
              let rows := query_rows (if get_binds_before_flush then s else s1) s1 e a cv in
              let uniq := a_uniq at_ && negb (is_vnone cv) in
              if negb uniq && Nat.leb 2 (length rows) then (s1, RErr EMultiple)
              else
                match load_rows sch s1 e (firstn 2 rows) with
                | Err s2 er => (s2, RErr er)
                | Ok s2 (o :: _) => let '(s3, hh) := handle_of s2 o in (s3, RObj hh)
                | Ok s2 [] => (s2, RNoneObj)
                end
            end
          end
        end
      end
  end.

(* Entity.select(attr=value)[:] and Entity.select()[:] : always a query, after the automatic flush *)
Definition select_op (sch : schema) (s : sess) (e a : nat) (v : arg) : sess * res :=
  match get_attr sch e a with
  | None => (s, RErr EBadAttr)
  | Some at_ =>
    if negb (handles_ok s (arg_handles v)) then (s, RErr EBadHandle)
    else
      match a_kind at_ with
      | KSet _ _ => (mark_declined s, RDecline)
      | _ =>
        match validate s at_ (Some v) with
        | VErr er => (s, RErr er)
        | VDecl => (mark_declined s, RDecline)
        | VOk cv =>
          match auto_flush sch s with
          | Err s1 er => (s1, RErr er)
          | Ok s1 _ =>
            match load_rows sch s1 e (query_rows (if select_binds_before_flush then s else s1) s1 e a cv) with
            | Err s2 er => (s2, RErr er)
            | Ok s2 os => objs_res s2 os
            end
          end
        end
      end
  end.

Definition selectall_op (sch : schema) (s : sess) (e : nat) : sess * res :=
  match nth_error sch e with
  | None => (s, RErr EBadAttr)
  | Some _ =>
    match auto_flush sch s with
    | Err s1 er => (s1, RErr er)
    | Ok s1 _ =>
      match load_rows sch s1 e (tab (s_db s1) e) with
      | Err s2 er => (s2, RErr er)
      | Ok s2 os => objs_res s2 os
      end
    end
  end.

(* flush() / commit() / rollback() / leaving and re-entering db_session *)
Definition flush_op (sch : schema) (s : sess) : sess * res := lift_unit (flush sch s).

(* Entity.flush(): nothing to do unless the object is created / modified / marked_to_delete; `assert obj._save_pos_ is not None`,
   `assert not cache.saved_objects`; _save_ (principals first); call_after_save_hooks empties saved_objects.  cache.modified stays set. *)
Definition flushobj_go (sch : schema) (s : sess) (o : oid) (ob : obj) : sess * res :=
  match o_pos ob with
  | None => (s, RErr EAssertion)
  | Some _ =>
    if s_savedpend s then (s, RErr EAssertion)
    else match save_obj (S (length (s_objs s))) sch s o [] with
         | Ok s1 _ => (set_savedpend s1 false, ROk)
         | Err s1 er => (s1, RErr er)
         end
  end.

(* A deleted object flushed on its own runs its DELETE before the UPDATEs of the objects that referred to it; the ON DELETE actions
   then change their rows first and their optimistic checks (not modelled) fail at the next flush: declined when any row refers to it. *)
Definition flushobj_op (sch : schema) (s : sess) (h : nat) : sess * res :=
  match hget s h with
  | None => (s, RErr EBadHandle)
  | Some o =>
    match get_obj s o with
    | None => (s, RErr EOther)
    | Some ob =>
      match o_st ob with
      | SCreated | SModified => flushobj_go sch s o ob
      | SMarked =>
        if match o_pk ob with Some pk => referenced sch (s_db s) (o_ent ob) pk | None => false end then (mark_declined s, RDecline)
        else flushobj_go sch s o ob
      | _ => (s, ROk)
      end
    end
  end.

Definition keep_declined (s0 s1 : sess) : sess := if s_declined s0 then mark_declined s1 else s1.

Definition commit_op (sch : schema) (s : sess) : sess * res :=
  match flush sch s with
  | Ok s1 _ => (set_committed s1 (s_db s1), ROk)
  | Err s1 er => (keep_declined s1 (reset_sess (s_committed s1)), RErr er)       (* rollback_and_reraise *)
  end.

Definition rollback_op (s : sess) : sess * res := (keep_declined s (reset_sess (s_committed s)), ROk).

Definition newsession_op (sch : schema) (s : sess) : sess * res :=
  match flush sch s with
  | Ok s1 _ => (keep_declined s1 (reset_sess (s_db s1)), ROk)
  | Err s1 er => (keep_declined s1 (reset_sess (s_committed s1)), RErr er)
  end.

Definition step (sch : schema) (s : sess) (o : op) : sess * res :=
  if s_declined s then (s, RDecline)
  else
    match o with
    | ONew e pk kw => new_op sch s e pk kw
    | OSet h a v => set_op sch s h a v
    | OSetMany h kw => setmany_op sch s h kw
    | ODelete h => delete_op sch s h
    | OAdd h a hs => coll_op sch s CAdd h a hs
    | ORemove h a hs => coll_op sch s CRemove h a hs
    | OAssign h a hs => coll_op sch s CAssign h a hs
    | ORead h a => read_op sch s h a
    | OPk h => pk_op s h
    | OCount h a => count_op sch s h a
    | OIsEmpty h a => isempty_op sch s h a
    | OContains h a h2 => contains_op sch s h a h2
    | OGetPk e v => getpk_op sch s e v
    | OGetBy e a v => getby_op sch s e a v
    | OSelect e a v => select_op sch s e a v
    | OSelectAll e => selectall_op sch s e
    | OFlush => flush_op sch s
    | OFlushObj h => flushobj_op sch s h
    | OCommit => commit_op sch s
    | ORollback => rollback_op s
    | ONewSession => newsession_op sch s
    end.

Definition run (sch : schema) (ops : list op) : sess := fold_left (fun s o => fst (step sch s o)) ops (init_sess sch).

Fixpoint trace (sch : schema) (s : sess) (ops : list op) : list res :=
  match ops with
  | [] => []
  | o :: t => let '(s1, r) := step sch s o in r :: trace sch s1 t
  end.
