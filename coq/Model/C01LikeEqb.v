(* C01 - boolean equality on the LIKE-family AST (structural tie of StringMixin._like). Definitions only. *)
Require Import PonyV.Base.PyBase PonyV.Model.C01Expr PonyV.Model.C01Sql PonyV.Model.C01Translate PonyV.Model.C01Eqb PonyV.Model.C01Like.

Fixpoint lx_eqb (a b : lx) {struct a} : bool :=
  let fix go (l1 l2 : list lx) : bool :=
    match l1, l2 with [], [] => true | x :: r1, y :: r2 => lx_eqb x y && go r1 r2 | _, _ => false end in
  match a, b with
  | LX p, LX q => qx_eqb p q
  | LLit s, LLit t => zlist_eqb s t
  | LReplace x c s, LReplace y e t => lx_eqb x y && (c =? e) && zlist_eqb s t
  | LConcat l1, LConcat l2 => go l1 l2
  | LCoalesceEmpty x, LCoalesceEmpty y => lx_eqb x y
  | _, _ => false
  end.

Fixpoint lcond_eqb (a b : lcond) : bool :=
  match a, b with
  | LLike n1 x1 p1 e1, LLike n2 x2 p2 e2 => Bool.eqb n1 n2 && lx_eqb x1 x2 && lx_eqb p1 p2 && Bool.eqb e1 e2
  | LOrNull c1 x1, LOrNull c2 x2 => lcond_eqb c1 c2 && lx_eqb x1 x2
  | _, _ => false
  end.

Definition olcond_eqb (a b : option lcond) : bool :=
  match a, b with None, None => true | Some x, Some y => lcond_eqb x y | _, _ => false end.

Definition otv_code (o : option tv) : Z := match o with Some T => 1 | Some F => 0 | Some U => 2 | None => 3 end.
