(* C06/C30 string library: strings are lists of code points (Z).  Definitions only (lemmas: Proofs/C06StrLemmas.v).
   These are the Python / SQL string operations the translated code uses (reference semantics, validated against
   CPython and the linked SQLite by the correspondence runs of C06 and C30). *)
Require Import PonyV.Base.PyBase.

Definition str := list Z.

(* DB-API parameter styles *)
Inductive paramstyle : Type := Qmark | Format | Numeric | Named | Pyformat.

Definition style_eqb (a b : paramstyle) : bool :=
  match a, b with
  | Qmark, Qmark | Format, Format | Numeric, Numeric | Named, Named | Pyformat, Pyformat => true
  | _, _ => false
  end.

(* Python: style in (a, b, ...) *)
Definition style_in (s : paramstyle) (l : list paramstyle) : bool := existsb (style_eqb s) l.

(* Python: s.replace(c, by) for a one-character c; SQL: replace(s, c, by) *)
Definition replace_all (c : Z) (by_ : str) (s : str) : str :=
  flat_map (fun x => if x =? c then by_ else [x]) s.

(* Python: c in s for a one-character c *)
Definition mem_char (c : Z) (s : str) : bool := existsb (fun x => x =? c) s.

(* Python truthiness of a str *)
Definition nonempty (s : str) : bool := match s with [] => false | _ => true end.

(* Python: sep.join(items) *)
Fixpoint join (sep : str) (items : list str) : str :=
  match items with
  | [] => []
  | x :: r => match r with [] => x | _ => x ++ sep ++ join sep r end
  end.

Fixpoint str_eqb (a b : str) : bool :=
  match a, b with
  | [], [] => true
  | x :: a', y :: b' => (x =? y) && str_eqb a' b'
  | _, _ => false
  end.

Definition opt_eqb {A} (f : A -> A -> bool) (a b : option A) : bool :=
  match a, b with None, None => true | Some x, Some y => f x y | _, _ => false end.

Fixpoint list_eqb {A} (f : A -> A -> bool) (a b : list A) : bool :=
  match a, b with
  | [], [] => true
  | x :: a', y :: b' => f x y && list_eqb f a' b'
  | _, _ => false
  end.

Definition pair_eqb {A B} (f : A -> A -> bool) (g : B -> B -> bool) (a b : A * B) : bool :=
  f (fst a) (fst b) && g (snd a) (snd b).

(* specification-side notions (Python: s.startswith(v), s.endswith(v), v in s) *)
Definition is_prefix (v s : str) : Prop := exists b, s = v ++ b.
Definition is_suffix (v s : str) : Prop := exists a, s = a ++ v.
Definition is_infix (v s : str) : Prop := exists a b, s = a ++ v ++ b.

(* executable versions, used by the correspondence run *)
Fixpoint prefixb (v s : str) : bool :=
  match v, s with
  | [], _ => true
  | x :: v', y :: s' => (x =? y) && prefixb v' s'
  | _ :: _, [] => false
  end.
Fixpoint infixb (v s : str) : bool :=
  prefixb v s || match s with [] => false | _ :: s' => infixb v s' end.
Definition suffixb (v s : str) : bool := prefixb (rev v) (rev s).

(* indexes (0-based) of the cases of a correspondence file that failed *)
Fixpoint failing_from (n : nat) (l : list bool) : list nat :=
  match l with [] => [] | b :: r => (if b then [] else [n]) ++ failing_from (S n) r end.
Definition failing (l : list bool) : list nat := failing_from 0 l.
