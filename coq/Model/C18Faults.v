(* C18 - one attempt of a db_session with faults in the machinery itself (definitions only):
   - the callables given as allowed_exceptions / retry_exceptions may raise instead of answering,
   - core.rollback() may raise (RollbackException) after having discarded the session cache.
   Anchors: DBSessionContextManager._commit_or_rollback (`try: can_commit = allowed_exceptions(exc) except: rollback_and_reraise(...)`,
   `try: rollback() except: if exc_type is None: raise`), _wrap_function's except block (retry_exceptions(exc), rollback()),
   rollback_and_reraise (`try: rollback() finally: reraise exc_info`), SessionCache.close (the cache is forgotten before the
   provider's rollback is attempted; on failure the connection is dropped). *)
From Coq Require Import List Bool Arith.
Import ListNotations.
Require Import PonyV.Model.C18Session.

Section Faults.
Variable exc : Type.
Variable cfail : exc.          (* a failing flush inside commit() *)
Variable rbfail : exc.         (* RollbackException *)

Notation outcome := (outcome exc).

(* what a predicate call does *)
Inductive pres := PYes | PNo | PRaises (e2 : exc).

(* core.rollback() with a failure oracle: the pending writes are gone either way *)
Definition rollback_f (rb_ok : bool) (x : st) : st * outcome :=
  (do_rollback x, if rb_ok then Ok else Raise rbfail).

(* _commit_or_rollback with the allowed-predicate's behaviour and the rollback oracle; result = what it raises itself *)
Definition commit_or_rollback_f (allowed : pres) (rb_ok : bool) (o : outcome) (x : st) : st * outcome :=
  match o with
  | Ok => do_commit exc cfail x
  | Raise _ =>
    match allowed with
    | PYes => do_commit exc cfail x
    | PNo => (fst (rollback_f rb_ok x), Ok)                 (* except: if exc_type is None: raise   -- swallowed, the body's exception goes on *)
    | PRaises e2 => (fst (rollback_f rb_ok x), Raise e2)    (* rollback_and_reraise: the predicate's exception wins even if rollback() raised *)
    end
  end.

Definition exit_f (allowed : pres) (rb_ok : bool) (o : outcome) (x : st) : st * outcome :=
  let x' := set_depth (pred (depth x)) x in
  if depth x' =? 0 then commit_or_rollback_f allowed rb_ok o x' else (x', Ok).

(* with db_session(allowed_exceptions=callable): body *)
Definition with_f (allowed : pres) (rb_ok : bool) (b : body exc) (x : st) : st * outcome :=
  let x1 := enter x in
  let '(x2, o) := b x1 in
  let '(x3, oe) := exit_f allowed rb_ok o x2 in
  (x3, after_exit exc o oe).

(* one iteration of _wrap_function's loop: either the call is over (ADone) or the loop goes on to the next attempt (ARetry) *)
Inductive ares := ADone (o : outcome) | ARetry.

Definition attempt_f (allowed retryable : pres) (rb_ok : bool) (b : body exc) (x : st) : st * ares :=
  let x1 := enter x in
  let '(x2, o) := b x1 in
  let '(x3, o3) := match o with Ok => do_commit exc cfail x2 | Raise e => (x2, Raise e) end in
  match o3 with
  | Ok => let '(x4, oe) := exit_f allowed rb_ok Ok x3 in (x4, ADone oe)
  | Raise e =>
    match retryable with
    | PRaises e2 =>                                           (* the retry predicate raises inside the except block *)
      let '(x5, oe) := exit_f allowed rb_ok (Raise e) x3 in   (* finally: __exit__(exc_type, exc, tb) still sees the body's exception *)
      (x5, ADone (after_exit exc (Raise e2) oe))
    | PNo =>
      let '(x5, oe) := exit_f allowed rb_ok (Raise e) x3 in (x5, ADone (after_exit exc (Raise e) oe))
    | PYes =>
      let '(x4, orb) := rollback_f rb_ok x3 in
      let '(x5, oe) := exit_f allowed rb_ok (Raise e) x4 in
      match orb with
      | Raise er => (x5, ADone (after_exit exc (Raise er) oe))   (* rollback() raised: no further attempt, RollbackException propagates *)
      | Ok => match oe with Raise e' => (x5, ADone (Raise e')) | Ok => (x5, ARetry) end
      end
    end
  end.

End Faults.
Arguments PYes {exc}.
Arguments PNo {exc}.
Arguments PRaises {exc} e2.
Arguments ARetry {exc}.
Arguments ADone {exc} o.
