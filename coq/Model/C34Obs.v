(* C34 - the 2-entity universe of the correspondence run (tools/c34_driver.py) as an instance of Model/C34Perm.v (definitions only).
   entities 0 = A, 1 = B; attributes 0 = A.name, 1 = A.bs, 2 = B.title, 3 = B.a (1 <-> 3 reverse); objects 0,1 : A; 2,3 : B;
   groups 0 = anybody, 1 = g1; role 1 = r1; label 1 = l1; users 0 = None, 1 = U0 (no groups), 2 = U1 (g1). *)
From Coq Require Import List Bool Arith.
Import ListNotations.
Require Import PonyV.Model.C34Perm PonyV.Gen.C34Src.

Definition attr_ent2 (a : nat) : nat := if a <? 2 then 0 else 1.
Definition attr_rev2 (a : nat) : option nat := match a with 1 => Some 3 | 3 => Some 1 | _ => None end.
Definition obj_ent2 (o : nat) : nat := if o <? 2 then 0 else 1.

Definition groups_of (u : nat) : list nat := match u with 2 => [0; 1] | _ => [0] end.
Definition roles_of (u o : nat) : list nat :=
  match u, o with
  | 1, 0 => [1] | 2, 1 => [1] | 2, 2 => [1]
  | _, _ => []
  end.
Definition labels_of (o : nat) : list nat := match o with 0 => [1] | 3 => [1] | _ => [] end.

Definition rtable := list (nat * nat * list rule).
Fixpoint rules_of (t : rtable) (e p : nat) : list rule :=
  match t with
  | [] => []
  | (e', p', l) :: r => if (e =? e') && (p =? p') then l else rules_of r e p
  end.

Definition targets : list target :=
  [TEntity 0; TEntity 1; TAttr 0; TAttr 1; TAttr 2; TAttr 3; TObj 0; TObj 1; TObj 2; TObj 3].

Section Tab.
Variable f1 f2 f3 : bool.
Variable t : rtable.

Definition hp (u p : nat) (x : target) : bool :=
  has_perm f1 f2 f3 attr_ent2 attr_rev2 (fun _ => false) obj_ent2 (rules_of t) (groups_of u) (roles_of u) labels_of p x.
Definition cv (u : nat) (x : target) : bool :=
  can_view f1 f2 f3 attr_ent2 attr_rev2 (fun _ => false) obj_ent2 (rules_of t) (groups_of u) (roles_of u) labels_of x.
Definition tj (u o : nat) : bool :=
  match to_json_objects f1 f2 f3 attr_ent2 attr_rev2 (fun _ => false) obj_ent2 (rules_of t) (groups_of u) (roles_of u) labels_of [o] with
  | Some _ => true | None => false end.

(* a1 <-> b1, a2 <-> b2 through A.bs / B.a *)
Definition related2 (o : nat) : list nat := match o with 0 => [2] | 1 => [3] | 2 => [0] | 3 => [1] | _ => [] end.
Definition tji (u o : nat) : bool :=
  match to_json_include f1 f2 f3 attr_ent2 attr_rev2 (fun _ => false) obj_ent2 (rules_of t) (groups_of u) (roles_of u) labels_of related2 o with
  | Some _ => true | None => false end.

Definition sche (u e : nat) : bool :=
  schema_entity f1 f2 f3 attr_ent2 attr_rev2 (fun _ => false) obj_ent2 (rules_of t) (groups_of u) (roles_of u) labels_of e.
Definition scha (u a : nat) : bool :=
  schema_attr f1 f2 f3 attr_ent2 attr_rev2 (fun _ => false) obj_ent2 (rules_of t) (groups_of u) (roles_of u) labels_of a.

(* ... to_json of single objects; to_json with include when everything is loaded; the same in a fresh session (the model does not
   distinguish the last two: the answer must not depend on what happens to be loaded) *)
Definition user_rows (u : nat) : list bool :=
  map (hp u 0) targets ++ map (hp u 1) targets ++ map (cv u) targets ++ map (tj u) [0; 1; 2; 3]
  ++ map (tji u) [0; 1; 2; 3] ++ map (tji u) [0; 1; 2; 3]
  ++ map (sche u) [0; 1] ++ map (scha u) [0; 1; 2; 3].
Definition table : list bool := user_rows 0 ++ user_rows 1 ++ user_rows 2.
End Tab.

(* the model with the variation points as they are in /repo now *)
Definition table_now (t : rtable) : list bool :=
  table rev_loop_iterates_reverse_rules obj_exclusion_tests_entity missing_reverse_rules_returns_false t.

Fixpoint bools_eqb (a b : list bool) : bool :=
  match a, b with
  | [], [] => true
  | x :: a', y :: b' => Bool.eqb x y && bools_eqb a' b'
  | _, _ => false
  end.

Definition R (g rl lb xe xa : list nat) : rule := mkrule g rl lb xe xa.

Fixpoint failing_from (i : nat) (l : list bool) : list nat :=
  match l with [] => [] | b :: r => if b then failing_from (S i) r else i :: failing_from (S i) r end.
Definition failing (l : list bool) : list nat := failing_from 0 l.

(* compact encodings for the generated case files: a table as the number whose binary digits (least significant first) are its cells *)
From Coq Require Import NArith.
Fixpoint pack (l : list bool) : N :=
  match l with [] => 0%N | b :: r => ((if b then 1 else 0) + 2 * pack r)%N end.

(* has_perm cells only (view, edit for every user and target) *)
Definition hp_rows (f1 f2 f3 : bool) (t : rtable) (u : nat) : list bool := map (hp f1 f2 f3 t u 0) targets ++ map (hp f1 f2 f3 t u 1) targets.
Definition hp_table_now (t : rtable) : list bool :=
  let f := hp_rows rev_loop_iterates_reverse_rules obj_exclusion_tests_entity missing_reverse_rules_returns_false t in f 0 ++ f 1 ++ f 2.

Definition same_hp (t : rtable) (expected : N) : bool := N.eqb (pack (hp_table_now t)) expected.
Definition same_full (t : rtable) (expected : N) : bool := N.eqb (pack (table_now t)) expected.

(* the specification on the same universe *)
Definition sp (t : rtable) (u p : nat) (x : target) : bool :=
  spec_b attr_ent2 attr_rev2 (fun _ => false) obj_ent2 (rules_of t) (groups_of u) (roles_of u) labels_of p x.

(* cross-session histories of the correspondence run: providers answer (g0, role table r0) until the change and (g1, r1) after it;
   the change happens at moment 1 *)
Definition groups_seq (g0 g1 : list nat) (t : nat) : list nat := if t <? 1 then g0 else g1.
Definition roles_seq (r0 r1 : bool) (t o : nat) : list nat := if (if t <? 1 then r0 else r1) then [1] else [].
Definition history_now (t : rtable) (g0 g1 : list nat) (r0 r1 : bool) (h : list hitem) : list bool :=
  history rev_loop_iterates_reverse_rules obj_exclusion_tests_entity missing_reverse_rules_returns_false
          attr_ent2 attr_rev2 (fun _ => false) obj_ent2 (rules_of t) (groups_seq g0 g1) (roles_seq r0 r1) (fun _ o => labels_of o)
          provider_caches_cleared_on_commit provider_caches_cleared_on_rollback (mkcaches None [] []) h.

(* the inheritance universe of the correspondence run: entities 0 = Base, 1 = Sub(Base), 2 = Other; attributes 0 = Base.name,
   1 = Base.secret (hidden=True), 2 = Other.title; objects 0 : Base, 1 : Sub, 2 : Other; users as above; no roles / labels *)
Definition subs3 (e : nat) : list nat := match e with 0 => [1] | _ => [] end.
Definition attr_ent3 (a : nat) : nat := match a with 2 => 2 | _ => 0 end.
Definition hidden3 (a : nat) : bool := a =? 1.
Definition obj_ent3 (o : nat) : nat := o.
Definition targets3 : list target := [TEntity 0; TEntity 1; TEntity 2; TAttr 0; TAttr 1; TAttr 2; TObj 0; TObj 1; TObj 2].
Definition inherit_table (ds : list decl) : list bool :=
  flat_map (fun u => map (has_perm rev_loop_iterates_reverse_rules obj_exclusion_tests_entity missing_reverse_rules_returns_false
                            attr_ent3 (fun _ => None) hidden3 obj_ent3 (rules_of_decls subs3 ds) (groups_of u) (fun _ => []) (fun _ => []) 0) targets3)
           [0; 2].
Definition D (ctx : list nat) (g xe xa : list nat) : decl := mkdecl ctx [0] (mkrule g [] [] xe xa).
