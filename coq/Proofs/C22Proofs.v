(* C22: lemmas over Model/C22Memo.v (generic memo table under all schedules) and Model/C22Sched.v (translator cache). *)
From Coq Require Import List Bool Arith Lia.
Import ListNotations.
Require Import PonyV.Model.C22Memo PonyV.Model.C22Sched PonyV.Model.C22Key.

(* ------------------------------------------------------------------------------------------------ generic memo theorem *)
Section MemoProofs.
  Variables I K V : Type.
  Variable keqb : K -> K -> bool.
  Variable key : I -> K.
  Variable compute : I -> V.
  Hypothesis keqb_eq : forall x y, keqb x y = true <-> x = y.
  Hypothesis key_sound : forall i j, key i = key j -> compute i = compute j.

  Notation mstate := (mstate I K V).
  Notation mstep := (mstep I K V keqb key compute).
  Notation mrun := (mrun I K V keqb key compute).

  (* invariant: the cache holds only correct entries; a client that has returned holds compute(its input);
     no client's input ever changes *)
  Definition minv (inputs : nat -> I) (s : mstate) : Prop :=
    cache_ok I K V key compute (m_cache s)
    /\ (forall t, c_in (m_cl s t) = inputs t)
    /\ (forall t, c_pc (m_cl s t) = 2 -> c_res (m_cl s t) = Some (compute (inputs t)))
    /\ (forall t, c_pc (m_cl s t) <= 2).

  Lemma cupd_same f t c : cupd I V f t c t = c.
  Proof. unfold cupd. now rewrite Nat.eqb_refl. Qed.
  Lemma cupd_other f t c u : u <> t -> cupd I V f t c u = f u.
  Proof. unfold cupd. intros H. apply Nat.eqb_neq in H. now rewrite H. Qed.

  Lemma minv_step inputs s t : minv inputs s -> minv inputs (mstep s t).
  Proof.
    intros (C & In & R & B). unfold C22Memo.mstep.
    destruct (c_pc (m_cl s t)) as [|[|n]] eqn:P.
    - destruct (m_cache s (key (c_in (m_cl s t)))) as [v|] eqn:G.
      + split; [exact C|]. cbn [m_cache m_cl]. split; [|split].
        * intros u. destruct (Nat.eq_dec u t) as [->|N]; [rewrite cupd_same; apply In | rewrite cupd_other by auto; apply In].
        * intros u. destruct (Nat.eq_dec u t) as [->|N]; [rewrite cupd_same | rewrite cupd_other by auto; apply R].
          cbn. intros _. f_equal. rewrite <- (In t). now apply C.
        * intros u. destruct (Nat.eq_dec u t) as [->|N]; [rewrite cupd_same; cbn; lia | rewrite cupd_other by auto; apply B].
      + split; [exact C|]. cbn [m_cache m_cl]. split; [|split].
        * intros u. destruct (Nat.eq_dec u t) as [->|N]; [rewrite cupd_same; apply In | rewrite cupd_other by auto; apply In].
        * intros u. destruct (Nat.eq_dec u t) as [->|N]; [rewrite cupd_same; cbn; discriminate | rewrite cupd_other by auto; apply R].
        * intros u. destruct (Nat.eq_dec u t) as [->|N]; [rewrite cupd_same; cbn; lia | rewrite cupd_other by auto; apply B].
    - split; [|split; [|split]]; cbn [m_cache m_cl].
      + intros i v H. unfold kupd in H.
        destruct (keqb (key i) (key (c_in (m_cl s t)))) eqn:E.
        * injection H as <-. apply keqb_eq in E. symmetry. now apply key_sound.
        * now apply C.
      + intros u. destruct (Nat.eq_dec u t) as [->|N]; [rewrite cupd_same; apply In | rewrite cupd_other by auto; apply In].
      + intros u. destruct (Nat.eq_dec u t) as [->|N]; [rewrite cupd_same | rewrite cupd_other by auto; apply R].
        cbn. intros _. now rewrite (In t).
      + intros u. destruct (Nat.eq_dec u t) as [->|N]; [rewrite cupd_same; cbn; lia | rewrite cupd_other by auto; apply B].
    - split; [exact C | split; [exact In | split; [exact R | exact B]]].
  Qed.

  Lemma minv_run inputs sched : forall s, minv inputs s -> minv inputs (mrun s sched).
  Proof. induction sched as [|t r IH]; intros s H; cbn; [exact H|]. apply IH. now apply minv_step. Qed.

  Lemma minv_init c0 inputs : cache_ok I K V key compute c0 -> minv inputs (minit I K V c0 inputs).
  Proof. intros C. split; [exact C | split; [reflexivity | split; [cbn; discriminate | intros t; cbn; lia]]]. Qed.

  (* every client that has returned, returned compute(its own input): under every schedule, any number of clients *)
  Lemma memo_correct c0 inputs sched t :
    cache_ok I K V key compute c0 ->
    let s := mrun (minit I K V c0 inputs) sched in
    c_pc (m_cl s t) = 2 -> c_res (m_cl s t) = Some (compute (inputs t)).
  Proof. intros C. cbn zeta. destruct (minv_run inputs sched _ (minv_init c0 inputs C)) as (_ & _ & R & _). apply R. Qed.

  (* progress: the pc of the scheduled client strictly increases until it has returned, others are untouched *)
  Lemma mstep_pc s t u : c_pc (m_cl s t) <= 2 ->
    c_pc (m_cl (mstep s t) u) = if Nat.eqb u t then (if c_pc (m_cl s t) <? 2 then (match c_pc (m_cl s t), m_cache s (key (c_in (m_cl s t))) with 0, None => 1 | _, _ => 2 end) else c_pc (m_cl s t)) else c_pc (m_cl s u).
  Proof.
    intros B. unfold C22Memo.mstep. destruct (Nat.eqb u t) eqn:E.
    - apply Nat.eqb_eq in E. subst u. destruct (c_pc (m_cl s t)) as [|[|n]] eqn:P.
      + destruct (m_cache s (key (c_in (m_cl s t)))); cbn; now rewrite cupd_same.
      + cbn. now rewrite cupd_same.
      + cbn. assert (n = 0) as -> by lia. now rewrite P.
    - apply Nat.eqb_neq in E. destruct (c_pc (m_cl s t)) as [|[|n]] eqn:P.
      + destruct (m_cache s (key (c_in (m_cl s t)))); cbn; now rewrite cupd_other.
      + cbn. now rewrite cupd_other.
      + reflexivity.
  Qed.
End MemoProofs.

(* ------------------------------------------------------------------------------------------------ translator cache *)

Lemma tupd_same f t c : tupd f t c t = c.
Proof. unfold tupd. now rewrite Nat.eqb_refl. Qed.
Lemma tupd_other f t c u : u <> t -> tupd f t c u = f u.
Proof. unfold tupd. intros H. apply Nat.eqb_neq in H. now rewrite H. Qed.

(* every finished thread either holds a translator built for ITS OWN parameter value or has failed with KeyError;
   with the repaired protocol it never fails *)
Definition tinv (safe : bool) (xs : nat -> nat) (s : tstate) : Prop :=
  forall t, t_x (t_thr s t) = xs t
            /\ (t_pc (t_thr s t) = 3 -> t_res (t_thr s t) = TGot (xs t) \/ (safe = false /\ t_res (t_thr s t) = TKeyError))
            /\ t_pc (t_thr s t) <= 3.

Lemma tinv_put safe xs s t th' c l :
  tinv safe xs s -> t_x th' = xs t ->
  (t_pc th' = 3 -> t_res th' = TGot (xs t) \/ (safe = false /\ t_res th' = TKeyError)) -> t_pc th' <= 3 ->
  tinv safe xs {| t_cache := c; t_thr := tupd (t_thr s) t th'; t_log := l |}.
Proof.
  intros H X R B u. cbn [t_thr]. destruct (Nat.eq_dec u t) as [->|N].
  - rewrite tupd_same. split; [exact X | split; [exact R | exact B]].
  - rewrite tupd_other by auto. apply H.
Qed.

Lemma tinv_step safe xs s t : tinv safe xs s -> tinv safe xs (tstep safe s t).
Proof.
  intros H. destruct (H t) as (X & R & B). unfold tstep.
  destruct (t_pc (t_thr s t)) as [|[|[|n]]] eqn:P.
  - destruct (t_cache s) as [v|].
    + destruct (Nat.eqb v (t_x (t_thr s t))) eqn:E; apply tinv_put; cbn; auto; try discriminate; try lia.
      all: try (apply Nat.eqb_eq in E; intros _; left; congruence).
    + apply tinv_put; cbn; auto; try discriminate; lia.
  - destruct (t_cache s) as [v|]; [|destruct safe]; apply tinv_put; cbn; auto; try discriminate; try lia.
  - apply tinv_put; cbn; auto; try (intros _; left; congruence).
  - exact H.
Qed.

Lemma tinv_run safe xs sched : forall s, tinv safe xs s -> tinv safe xs (trun safe s sched).
Proof. induction sched as [|t r IH]; intros s H; cbn; [exact H|]. apply IH. now apply tinv_step. Qed.

Lemma tinv_init safe warm xs : tinv safe xs (tinit warm xs).
Proof. intros t. cbn. split; [reflexivity | split; [discriminate | lia]]. Qed.

Lemma translator_own_data safe warm xs sched t :
  let s := trun safe (tinit warm xs) sched in
  t_pc (t_thr s t) = 3 -> t_res (t_thr s t) = TGot (xs t) \/ (safe = false /\ t_res (t_thr s t) = TKeyError).
Proof. cbn zeta. destruct (tinv_run safe xs sched _ (tinv_init safe warm xs) t) as (_ & R & _). exact R. Qed.

Lemma translator_fixed warm xs sched t :
  let s := trun true (tinit warm xs) sched in
  t_pc (t_thr s t) = 3 -> t_res (t_thr s t) = TGot (xs t).
Proof. cbn zeta. intros P. destruct (translator_own_data true warm xs sched t P) as [H|[H _]]; [exact H | discriminate]. Qed.

(* ------------------------------------------------------------------------------------------------ cross-thread guard table *)

Lemma guard_except_known o l : unguarded o l = false -> guard o l = true.
Proof. destruct o, l; cbn; congruence. Qed.

Lemma guard_refuted o l : unguarded o l = true -> guard o l = false.
Proof. destruct o, l; cbn; congruence. Qed.

(* ------------------------------------------------------------------------------------------------ translator cache key *)
Section KeySound.
  Variables Code VT Filt Val Tr : Type.
  Variable veqb : Val -> Val -> bool.
  Hypothesis veqb_eq : forall x y, veqb x y = true -> x = y.
  Variable translate : qinput Code VT Filt Val -> Tr.
  (* the parameters whose VALUE the translation of a query with this key depends on *)
  Variable fixed_of : Code * VT * bool * Filt -> list nat.
  (* read-set hypothesis (C05): the translation reads nothing but the key components and the values of those parameters *)
  Hypothesis read_set : forall i j, qkey _ _ _ _ i = qkey _ _ _ _ j ->
    (forall p, In p (fixed_of (qkey _ _ _ _ i)) -> q_vals _ _ _ _ i p = q_vals _ _ _ _ j p) -> translate i = translate j.

  (* an entry stored under key k by the query j that created it: it records the value of every parameter it fixed *)
  Definition entry_ok (e : tentry Val Tr) (k : Code * VT * bool * Filt) : Prop :=
    exists j, qkey _ _ _ _ j = k /\ e_tr _ _ e = translate j /\ forall p, In p (fixed_of k) -> In (p, q_vals _ _ _ _ j p) (e_fixed _ _ e).

  (* key tuple + comparison of the recorded fixed values is sound: whatever the lookup hands out is the translation of THIS query *)
  Lemma key_sound e i t : entry_ok e (qkey _ _ _ _ i) -> accept Code VT Filt Val Tr veqb e i = Some t -> t = translate i.
  Proof.
    intros (j & Hk & Ht & Hf) H. unfold accept in H.
    destruct (forallb _ (e_fixed Val Tr e)) eqn:F; [|discriminate]. injection H as <-. rewrite Ht.
    apply read_set; [exact Hk|]. intros p Hp. rewrite Hk in Hp.
    rewrite forallb_forall in F. specialize (F _ (Hf p Hp)). cbn in F. now apply veqb_eq in F.
  Qed.
End KeySound.
