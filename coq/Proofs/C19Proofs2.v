(* C19 / C17 / C35 - composition, part 2: commit / rollback, every operation, bodies, sessions. *)
From Coq Require Import List Bool Arith Lia.
Import ListNotations.
Require Import PonyV.Model.C19Txn PonyV.Proofs.C19Base PonyV.Proofs.C19Crunch PonyV.Proofs.C19Crunch2 PonyV.Proofs.C19Crunch3
               PonyV.Proofs.C19Proofs.

Lemma WF_forupd0 : forall s, WF s -> k_has s = false -> k_forupd s = 0.
Proof.
  intros s [Hw _ Hf] Hh. destruct (k_forupd s) eqn:E; auto.
  assert (Hi : k_intxn s = true) by (apply Hf; lia).
  destruct (w_intxn _ Hw Hi) as (Hh' & _). congruence.
Qed.

Lemma WF_noreg : forall s, WF s -> k_reg s = false -> k_has s = false /\ k_intxn s = false.
Proof.
  intros s [Hw _ _] Hr. pose proof (w_reg _ Hw Hr) as Hh. split; auto.
  destruct (k_intxn s) eqn:E; auto. destruct (w_intxn _ Hw E) as (Hh' & _). congruence.
Qed.
Lemma WF_set_forupd : forall v s, WF s -> k_intxn s = true -> WF (set_k_forupd v s).
Proof. intros v. destruct_st. intros [[? ? ? ? ? ? ? ? ? ? ? ? ?] ? ?] ?. norm. wf_tac. Qed.
Lemma Ext_set_forupd : forall v s, Ext s (set_k_forupd v s).
Proof. intros v. destruct_st. ext_tac. constructor. Qed.
Lemma WF_set_intxn_same : forall s, WF s -> k_intxn s = true -> WF (set_k_intxn true s).
Proof. destruct_st. intros [[? ? ? ? ? ? ? ? ? ? ? ? ?] ? ?] ?. norm. wf_tac. Qed.
Lemma Ext_set_intxn : forall b s, Ext s (set_k_intxn b s).
Proof. intros b. destruct_st. ext_tac. constructor. Qed.

Lemma WF_set_mflags : forall a b s, WF s -> WF (set_k_madd a s) /\ WF (set_k_mrem b s).
Proof. intros a b. destruct_st. intros [[? ? ? ? ? ? ? ? ? ? ? ? ?] ? ?]. split; wf_tac. Qed.
Lemma Ext_set_mflags : forall a b s, Ext s (set_k_madd a s) /\ Ext s (set_k_mrem b s).
Proof. intros a b. destruct_st. split; ext_tac; constructor. Qed.
Lemma WF_set_sess : forall sh s, WF s -> k_reg s = false -> WF (set_sess sh s).
Proof. intros sh. destruct_st. intros [[? ? ? ? ? ? ? ? ? ? ? ? ?] ? ?] ?. norm. wf_tac. Qed.

Ltac by_handler L :=
  let Hc := fresh "Hc" in
  pose proof L as Hc;
  match type of Hc with
  | match ?e with _ => _ end => let r := fresh "r" in let s' := fresh "s" in destruct e as [r s']; destruct r; [contradiction | exact Hc | exact Hc]
  end.

Section S.
Variable oracle : nat -> bool.

(* cache.rollback() from a well-formed state or from the state left by a failed COMMIT; used as an exception handler *)
Lemma close_handler_spec : forall e s0 s, WFw s -> Ext s0 s -> k_reg s = true -> (k_has s = false -> k_forupd s = 0) ->
  match (cache_close oracle true ;; raise e) s with
  | (Blocked, _) => other s0 = true
  | (Ok, _) => False
  | (Err _, s') => WF s' /\ Ext s0 s' /\ k_reg s' = false /\ k_has s' = false /\ k_intxn s' = false
  end.
Proof.
  intros e s0 s Hw Hx Hreg Hf. unfold bind, raise.
  use (cache_close_spec oracle true s Hw Hreg (or_introl eq_refl) Hf).
  - dest. splits; eauto using Ext_trans.
  - dest. splits; eauto using Ext_trans.
  - rewrite (Ext_other _ _ Hx) in H. exact H.
Qed.

Lemma cache_commit_spec : forall s, WF s -> k_reg s = true ->
  match cache_commit oracle s with
  | (Blocked, _) => other s = true
  | (Ok, s') => WF s' /\ Ext s s' /\ k_reg s' = true /\ k_intxn s' = false /\ k_pending s' = 0
  | (Err _, s') => WF s' /\ Ext s s' /\ k_reg s' = false /\ k_has s' = false /\ k_intxn s' = false
  end.
Proof.
  intros s Hwf Hreg.
  change (cache_commit oracle) with
    ((fun s => assert_ (k_reg s) s) ;;
     try_except ((fun s => when (modified s) (cache_flush oracle) s) ;; commit_step oracle)
                (fun e => cache_close oracle true ;; raise e)).
  unfold bind at 1. rewrite Hreg. cbn [assert_]. unfold ret at 1.
  unfold try_except. unfold bind at 1.
  assert (Hflush : match when (modified s) (cache_flush oracle) s with
                   | (Blocked, _) => other s = true
                   | (Ok, s1) => WF s1 /\ Ext s s1 /\ k_reg s1 = true /\ k_pending s1 = 0
                   | (Err _, s1) => WF s1 /\ Ext s s1 /\ k_reg s1 = true
                   end).
  { destruct (modified s) eqn:Hp; cbn [when].
    - use (cache_flush_spec oracle s Hwf Hreg); dest; splits; auto.
    - unfold modified in Hp. apply Bool.orb_false_elim in Hp. destruct Hp as (Hp & _). apply Bool.orb_false_elim in Hp. destruct Hp as (Hp & _).
      apply Nat.ltb_ge in Hp. unfold ret. splits; auto using Ext_refl. lia. }
  destruct (when (modified s) (cache_flush oracle) s) as [r1 s1]. destruct r1.
  - destruct Hflush as (Hwf1 & Hx1 & Hreg1 & Hp1).
    use (commit_step_spec oracle s1 Hwf1 Hreg1 Hp1).
    + dest. splits; eauto using Ext_trans; congruence.
    + destruct H as (Hw2 & Hx2 & Hreg2 & Hin2 & Hhas2).
      assert (Hx02 : Ext s s0) by eauto using Ext_trans.
      assert (Hf0 : k_has s0 = false -> k_forupd s0 = 0) by congruence.
      by_handler (close_handler_spec e s s0 Hw2 Hx02 Hreg2 Hf0).
    + rewrite (Ext_other _ _ Hx1) in H. exact H.
  - destruct Hflush as (Hwf1 & Hx1 & Hreg1).
    by_handler (close_handler_spec e s s1 (WF_WFw _ Hwf1) Hx1 Hreg1 (WF_forupd0 _ Hwf1)).
  - exact Hflush.
Qed.

Lemma core_rollback_spec : forall s, WF s ->
  match core_rollback oracle s with
  | (Blocked, _) => other s = true
  | (r, s') => WF s' /\ Ext s s' /\ k_reg s' = false /\ k_has s' = false /\ k_intxn s' = false
  end.
Proof.
  intros s Hwf. unfold core_rollback. destruct (k_reg s) eqn:Hreg.
  - unfold try_except, raise.
    use (cache_close_spec oracle true s (WF_WFw _ Hwf) Hreg (or_introl eq_refl) (WF_forupd0 _ Hwf)); auto.
  - destruct (WF_noreg s Hwf Hreg). splits; auto using Ext_refl.
Qed.

Lemma rollback_and_reraise_spec : forall e s0 s, WF s -> Ext s0 s ->
  match rollback_and_reraise oracle e s with
  | (Blocked, _) => other s0 = true
  | (Ok, _) => False
  | (Err _, s') => WF s' /\ Ext s0 s' /\ k_reg s' = false /\ k_has s' = false /\ k_intxn s' = false
  end.
Proof.
  intros e s0 s Hwf Hx. unfold rollback_and_reraise.
  use (core_rollback_spec s Hwf).
  - dest. splits; eauto using Ext_trans.
  - dest. splits; eauto using Ext_trans.
  - rewrite (Ext_other _ _ Hx) in H. exact H.
Qed.

(* module-level commit(): Ok -> the transaction is over and every change was flushed; Err -> the cache is gone *)
Lemma core_commit_spec : forall s, WF s ->
  match core_commit oracle s with
  | (Blocked, _) => other s = true
  | (Ok, s') => WF s' /\ Ext s s' /\ k_intxn s' = false /\ k_reg s' = k_reg s
  | (Err _, s') => WF s' /\ Ext s s' /\ k_reg s' = false /\ k_has s' = false /\ k_intxn s' = false
  end.
Proof.
  intros s Hwf. unfold core_commit. destruct (k_reg s) eqn:Hreg.
  - unfold bind, try_except.
    use (cache_flush_spec oracle s Hwf Hreg).
    + destruct H as (Hwf1 & Hx1 & Hreg1 & _).
      use (cache_commit_spec s0 Hwf1 Hreg1).
      * dest. splits; eauto using Ext_trans.
      * unfold raise. dest. splits; eauto using Ext_trans.
      * rewrite (Ext_other _ _ Hx1) in H. exact H.
    + destruct H as (Hwf1 & Hx1 & Hreg1 & _).
      by_handler (rollback_and_reraise_spec e s s0 Hwf1 Hx1).
    + exact H.
  - destruct (WF_noreg s Hwf Hreg). splits; auto using Ext_refl.
Qed.

Lemma db_commit_spec : forall s, WF s ->
  match db_commit oracle s with
  | (Blocked, _) => other s = true
  | (Ok, s') => WF s' /\ Ext s s' /\ k_intxn s' = false /\ k_reg s' = k_reg s
  | (Err _, s') => WF s' /\ Ext s s' /\ k_reg s' = false /\ k_has s' = false /\ k_intxn s' = false
  end.
Proof.
  intros s Hwf. unfold db_commit. destruct (k_reg s) eqn:Hreg.
  - unfold bind at 1. unfold try_except.
    use (cache_flush_spec oracle s Hwf Hreg).
    + destruct H as (Hwf1 & Hx1 & Hreg1 & _).
      use (cache_commit_spec s0 Hwf1 Hreg1).
      * dest. splits; eauto using Ext_trans.
      * unfold raise. dest. splits; eauto using Ext_trans.
      * rewrite (Ext_other _ _ Hx1) in H. exact H.
    + destruct H as (Hwf1 & Hx1 & Hreg1 & _).
      by_handler (close_handler_spec e s s0 (WF_WFw _ Hwf1) Hx1 Hreg1 (WF_forupd0 _ Hwf1)).
    + exact H.
  - destruct (WF_noreg s Hwf Hreg). splits; auto using Ext_refl.
Qed.

Lemma core_flush_spec : forall s, WF s -> Post s (core_flush oracle s).
Proof.
  intros s Hwf. unfold core_flush, Post. destruct (k_reg s) eqn:Hreg.
  - use (cache_flush_spec oracle s Hwf Hreg); dest; auto.
  - auto using Ext_refl.
Qed.

Lemma assert_spec : forall b s0 s, WF s -> Ext s0 s -> match assert_ b s with (Blocked, _) => other s0 = true | (_, s') => WF s' /\ Ext s0 s' end.
Proof. intros b s0 s Hwf Hx. destruct b; cbn; auto. Qed.

Lemma get_connection_spec : forall s, WF s -> Post s (get_connection oracle s).
Proof.
  intros s Hwf. unfold get_connection, Post. unfold bind at 1.
  destruct (get_cache_spec s Hwf) as (s1 & -> & Hwf1 & Hx1 & Hreg1 & _).
  unfold bind at 1.
  destruct (k_intxn s1) eqn:Hin; cbn [negb when].
  - unfold ret at 1. apply assert_spec; auto.
  - unfold bind at 1. unfold upd at 1.
    set (s2 := set_k_imm true s1).
    assert (Hs2 : k_reg s2 = true /\ k_imm s2 = true) by (split; [exact Hreg1 | reflexivity]).
    destruct Hs2 as (Hreg2 & Himm2).
    assert (Hwf2 : WF s2) by (apply WF_set_imm_true; exact Hwf1).
    assert (Hx2 : Ext s s2) by (eapply Ext_trans; [exact Hx1 | apply Ext_set_imm]).
    clearbody s2. unfold bind at 1.
    use (prepare_prep oracle s2 Hwf2 Hreg2).
    + destruct H as (Hwf3 & Hx3 & Hreg3 & Himm3 & _ & _ & _ & Hhas3 & Hin3).
      unfold upd at 1.
      assert (Hin3' : k_intxn s0 = true) by auto.
      apply assert_spec; [apply WF_set_intxn_same; auto | eapply Ext_trans; [|apply Ext_set_intxn]; eauto using Ext_trans].
    + dest. split; eauto using Ext_trans.
    + rewrite (Ext_other _ _ Hx2) in H. exact H.
Qed.

Lemma run_op_spec : forall o s, WF s -> Post s (run_op oracle o s).
Proof.
  intros o s Hwf. unfold Post. destruct o; cbn [run_op]; unfold exec.
  - (* OSelect *) use (exec_spec oracle false SSelect s Hwf (or_introl eq_refl)); dest; auto.
  - (* OForUpd *)
    unfold bind at 1. destruct (get_cache_spec s Hwf) as (s1 & -> & Hwf1 & Hx1 & Hreg1 & _).
    unfold bind at 1. unfold upd at 1.
    assert (Hwf2 : WF (set_k_imm true s1)) by (apply WF_set_imm_true; exact Hwf1).
    assert (Hx2 : Ext s (set_k_imm true s1)) by (eapply Ext_trans; [exact Hx1 | apply Ext_set_imm]).
    assert (Himm2 : k_imm (set_k_imm true s1) = true) by reflexivity.
    assert (Hreg2 : k_reg (set_k_imm true s1) = true) by exact Hreg1.
    set (s2 := set_k_imm true s1) in *. clearbody s2.
    unfold bind at 1.
    use (exec_spec oracle false SSelect s2 Hwf2 (or_introl eq_refl)).
    + destruct H as (Hwf3 & Hx3 & Hreg3 & _).
      assert (Hx03 : Ext s s0) by eauto using Ext_trans.
      unfold bind. destruct (k_intxn s0) eqn:Hin; cbn [assert_]; unfold ret, raise, upd.
      * split; [apply WF_set_forupd; auto | eapply Ext_trans; [exact Hx03 | apply Ext_set_forupd]].
      * auto.
    + dest. split; eauto using Ext_trans.
    + rewrite (Ext_other _ _ Hx2) in H. exact H.
  - (* ONew *)
    unfold bind. destruct (get_cache_spec s Hwf) as (s1 & -> & Hwf1 & Hx1 & Hreg1 & _).
    unfold upd. split; [apply WF_set_pending; auto | eapply Ext_trans; [exact Hx1 | apply Ext_set_pending]].
  - (* OFlush *) apply core_flush_spec; auto.
  - (* ORawWrite *) use (exec_spec oracle true SWrite s Hwf (or_intror (conj eq_refl (or_introl eq_refl)))); dest; auto.
  - (* OCommit *) use (core_commit_spec s Hwf); dest; auto.
  - (* ORollback *) use (core_rollback_spec s Hwf); dest; auto.
  - (* ODbCommit *) use (db_commit_spec s Hwf); dest; auto.
  - (* ODbRollback *) unfold db_rollback. use (core_rollback_spec s Hwf); dest; auto.
  - (* ORaise *) unfold raise. auto using Ext_refl.
  - (* OGetConn *) apply get_connection_spec; auto.
  - (* OLink *)
    unfold bind. destruct (get_cache_spec s Hwf) as (s1 & -> & Hwf1 & Hx1 & Hreg1 & _).
    unfold upd. split; [apply (WF_set_mflags true true); auto | eapply Ext_trans; [exact Hx1 | apply (Ext_set_mflags true true)]].
  - (* OUnlink *)
    unfold bind. destruct (get_cache_spec s Hwf) as (s1 & -> & Hwf1 & Hx1 & Hreg1 & _).
    unfold upd. split; [apply (WF_set_mflags true true); auto | eapply Ext_trans; [exact Hx1 | apply (Ext_set_mflags true true)]].
  - (* OGetFU *)
    destruct (cached && locked).
    { destruct (get_cache_spec s Hwf) as (s1 & -> & Hwf1 & Hx1 & _). auto. }
    unfold bind at 1. destruct (get_cache_spec s Hwf) as (s1 & -> & Hwf1 & Hx1 & Hreg1 & _).
    unfold bind at 1. unfold upd at 1.
    assert (Hwf2 : WF (set_k_imm true s1)) by (apply WF_set_imm_true; exact Hwf1).
    assert (Hx2 : Ext s (set_k_imm true s1)) by (eapply Ext_trans; [exact Hx1 | apply Ext_set_imm]).
    set (s2 := set_k_imm true s1) in *. clearbody s2.
    unfold bind at 1.
    use (exec_spec oracle false SSelect s2 Hwf2 (or_introl eq_refl)).
    + destruct H as (Hwf3 & Hx3 & Hreg3 & _).
      assert (Hx03 : Ext s s0) by eauto using Ext_trans.
      unfold bind. destruct (k_intxn s0) eqn:Hin; cbn [assert_]; unfold ret, raise, upd.
      * split; [apply WF_set_forupd; auto | eapply Ext_trans; [exact Hx03 | apply Ext_set_forupd]].
      * auto.
    + dest. split; eauto using Ext_trans.
    + rewrite (Ext_other _ _ Hx2) in H. exact H.
  - (* OGetFURev *)
    unfold bind. destruct (get_cache_spec s Hwf) as (s1 & -> & Hwf1 & Hx1 & _). destruct locked; unfold ret, raise; auto.
Qed.

Lemma run_body_spec : forall b s, WF s -> Post s (run_body oracle b s).
Proof.
  induction b as [|[o c] b IH]; intros s Hwf; unfold Post; cbn [run_body].
  - unfold ret. auto using Ext_refl.
  - pose proof (run_op_spec o s Hwf) as Ho. unfold Post in Ho.
    destruct (run_op oracle o s) as [r s1]. destruct r.
    + destruct Ho as (Hwf1 & Hx1). pose proof (IH s1 Hwf1) as Hb. unfold Post in Hb.
      destruct (run_body oracle b s1) as [r2 s2]. destruct r2; dest; eauto using Ext_trans.
      rewrite (Ext_other _ _ Hx1) in Hb. exact Hb.
    + destruct Ho as (Hwf1 & Hx1). destruct c; auto.
      pose proof (IH s1 Hwf1) as Hb. unfold Post in Hb.
      destruct (run_body oracle b s1) as [r2 s2]. destruct r2; dest; eauto using Ext_trans.
      rewrite (Ext_other _ _ Hx1) in Hb. exact Hb.
    + exact Ho.
Qed.

(* the end of a db_session, however the body ended: the cache is gone (so: no transaction, no lock, connection given back) *)
Lemma session_exit_spec : forall r s, WF s -> r <> Blocked ->
  match session_exit oracle r s with
  | (Blocked, _) => other s = true
  | (_, s') => WF s' /\ Ext s s' /\ k_reg s' = false
  end.
Proof.
  intros r s Hwf Hr. destruct r; [| |congruence]; cbn [session_exit].
  - unfold bind.
    use (core_commit_spec s Hwf).
    + destruct H as (Hwf1 & Hx1 & Hin1 & _).
      destruct (k_reg s0) eqn:Hreg1.
      * use (cache_close_spec oracle false s0 (WF_WFw _ Hwf1) Hreg1 (or_intror Hin1) (WF_forupd0 _ Hwf1)).
        -- dest. splits; eauto using Ext_trans.
        -- dest. splits; eauto using Ext_trans.
        -- rewrite (Ext_other _ _ Hx1) in H. exact H.
      * auto.
    + dest. auto.
    + exact H.
  - use (core_rollback_spec s Hwf); dest; auto.
Qed.

Lemma run_session_spec : forall sh b s, WF s -> k_reg s = false ->
  match run_session oracle sh b s with
  | (Blocked, _) => other s = true
  | (_, s') => WF s' /\ Ext (set_sess sh s) s' /\ k_reg s' = false
  end.
Proof.
  intros sh b s Hwf Hreg. unfold run_session.
  assert (Hwf0 : WF (set_sess sh s)) by (apply WF_set_sess; auto).
  assert (Hoth : other (set_sess sh s) = other s) by reflexivity.
  set (s0 := set_sess sh s) in *. clearbody s0.
  pose proof (run_body_spec b s0 Hwf0) as Hb. unfold Post in Hb.
  destruct (run_body oracle b s0) as [r s1]. destruct r.
  - destruct Hb as (Hwf1 & Hx1).
    use (session_exit_spec Ok s1 Hwf1 ltac:(discriminate)); dest; splits; eauto using Ext_trans.
    rewrite (Ext_other _ _ Hx1), Hoth in H. exact H.
  - destruct Hb as (Hwf1 & Hx1).
    use (session_exit_spec (Err e) s1 Hwf1 ltac:(discriminate)); dest; splits; eauto using Ext_trans.
    rewrite (Ext_other _ _ Hx1), Hoth in H. exact H.
  - cbn [session_exit]. congruence.
Qed.
End S.

(* ---- what "idle" means: no cache registered ---- *)
Lemma idle_facts : forall s, WF s -> k_reg s = false ->
  mine s = false /\ out s = false /\ k_has s = false /\ k_intxn s = false /\ bad s = [] /\
  (p_has s = true -> p_txn s = false) /\ lock s = other s.
Proof.
  intros s Hwf Hreg. destruct (WF_noreg s Hwf Hreg) as (Hh & Hi).
  destruct Hwf as [Hw Hp _].
  assert (Hm : mine s = false) by (rewrite (w_mine _ Hw); exact Hi).
  splits; auto.
  - rewrite (w_out _ Hw). exact Hh.
  - apply Hw.
  - unfold other. rewrite Hm. destruct (lock s); reflexivity.
Qed.

(* Database.disconnect() between sessions *)
Lemma disconnect_lemma : forall oracle s, WF s -> k_reg s = false -> lock s = false ->
  exists r s', db_disconnect oracle s = (r, s') /\ r <> Blocked /\ WF s' /\ k_reg s' = false /\ p_has s' = false /\ lock s' = false /\
    AccT false (p_id s') (next s') (closed s').
Proof.
  intros oracle s Hwf Hreg Hlock. unfold db_disconnect, bind. rewrite Hreg.
  pose proof (pool_disconnect_spec oracle s Hwf Hreg) as H.
  destruct (pool_disconnect oracle s) as [r s']. exists r, s'. split; [reflexivity|].
  destruct r; try contradiction; destruct H as (Hwf' & _ & Hreg' & Hp & Hl); splits; auto; try discriminate; try congruence.
  all: pose proof (w_acc _ (wf_w _ Hwf')) as Ha; rewrite Hp in Ha; exact Ha.
Qed.

(* C19: one session, any shape, any body, any fault sequence, started with the lock free *)
Lemma released_lemma : forall oracle sh b s, WF s -> k_reg s = false -> lock s = false ->
  exists r s', run_session oracle sh b s = (r, s') /\ r <> Blocked /\
    WF s' /\ k_reg s' = false /\ lock s' = false /\ mine s' = false /\ out s' = false /\ k_has s' = false /\
    k_intxn s' = false /\ bad s' = [] /\ (p_has s' = true -> p_txn s' = false) /\
    AccT (p_has s') (p_id s') (next s') (closed s') /\
    Suffix sh false (trace s) (trace s').
Proof.
  intros oracle sh b s Hwf Hreg Hlock.
  assert (Hoth : other s = false) by (unfold other; rewrite Hlock; reflexivity).
  pose proof (run_session_spec oracle sh b s Hwf Hreg) as H.
  destruct (run_session oracle sh b s) as [r s'].
  exists r, s'. split; [reflexivity|].
  destruct r; try congruence.
  all: destruct H as (Hwf' & Hx & Hreg');
       destruct (idle_facts s' Hwf' Hreg') as (Hm & Ho & Hh & Hi & Hb & Hp & Hl);
       assert (Hoth' : other s' = false) by (rewrite (Ext_other _ _ Hx); exact Hoth);
       splits; auto; try congruence; try discriminate; try (apply Hwf').
  all: pose proof (x_trace _ _ Hx) as Ht; change (Suffix sh (other s) (trace s) (trace s')) in Ht; rewrite Hoth in Ht; exact Ht.
Qed.

(* C19_progress: any number of consecutive sessions; none of them can block or find the lock held *)
Lemma progress_lemma : forall oracle l s, WF s -> k_reg s = false -> lock s = false ->
  exists r s', run_sessions oracle l s = (r, s') /\ r <> Blocked /\ WF s' /\ k_reg s' = false /\ lock s' = false.
Proof.
  intros oracle l. induction l as [|[sh b] l IH]; intros s Hwf Hreg Hlock.
  - exists Ok, s. cbn. splits; auto. discriminate.
  - cbn [run_sessions].
    destruct (released_lemma oracle sh b s Hwf Hreg Hlock) as (r & s1 & -> & Hr & Hwf1 & Hreg1 & Hlock1 & _).
    destruct l as [|p l'].
    + exists r, s1. destruct r; try congruence; splits; auto.
    + destruct (IH s1 Hwf1 Hreg1 Hlock1) as (r2 & s2 & E2 & ?).
      exists r2, s2. destruct r; try congruence; rewrite E2; auto.
Qed.
