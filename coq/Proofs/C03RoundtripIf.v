(* C03 - round trip on the model for a family with a conditional expression in element position:
   (xa if t1 and ... and tn else xb for x in T), any n >= 1.  After conditions_end (there is no condition in this
   generator) the decompiler classifies jumps by their sense only; JUMP_FORWARD rebuilds the conditional expression with
   a partial and a full process_target. *)
From Coq Require Import List Bool Arith Lia Sorted.
Import ListNotations.
Require Import PonyV.Model.C03Bexp PonyV.Model.C03Decomp PonyV.Model.C03Family PonyV.Proofs.C03Checker PonyV.Proofs.C03Roundtrip PonyV.Proofs.C03RoundtripCnf.

Definition pos_lits (ts : list nat) : list lit := map (Lit false) ts.

(* ------------------------------------------------------------------ code shape *)
Lemma lws_pos_lits : forall ts, lws (pos_lits ts) = 2 * length ts.
Proof. induction ts as [|t r IH]; [reflexivity|]. cbn [pos_lits map lws length] in *. fold (pos_lits r). rewrite IH. cbn. lia. Qed.

Lemma map_lit_pos : forall ts, map lit_bexp (pos_lits ts) = map Atom ts.
Proof. intro ts. unfold pos_lits. rewrite map_map. reflexivity. Qed.

Lemma comp_test : forall ts p t, ts <> [] -> comp true (mk_and_atoms ts) p (TAt t) false = chain_code false (TAt t) (pos_lits ts).
Proof.
  intros ts p t H. destruct ts as [|a [|b r]]; [congruence| |].
  - reflexivity.
  - unfold mk_and_atoms. rewrite comp_And. rewrite <- map_lit_pos. apply comp_and_chain.
Qed.

Lemma elen_test : forall ts, ts <> [] -> elen true (mk_and_atoms ts) = 2 * length ts.
Proof.
  intros ts H. destruct ts as [|a [|b r]]; [congruence|reflexivity|].
  unfold mk_and_atoms. rewrite elen_And, <- map_lit_pos, elen_list_lits. apply lws_pos_lits.
Qed.

Definition if_stream (ts : list nat) (xa xb : nat) : list instr :=
  chain_code false (TAt (2 * length ts + 4)) (pos_lits ts) ++ [ILoad xa; IFwd (2 * length ts + 5); ILoad xb; IYield].

Lemma compile_if_and : forall ts xa xb, ts <> [] -> compile PElt (if_and ts xa xb) = if_stream ts xa xb.
Proof.
  intros ts xa xb H. unfold compile, if_and. cbn [comp]. rewrite elen_test by assumption. cbn [elen].
  change (pos_of 0) with 2.
  replace (2 + 2 * length ts + 1 + 1) with (2 * length ts + 4) by lia.
  replace (2 * length ts + 4 + 1) with (2 * length ts + 5) by lia.
  rewrite comp_test by assumption.
  change ([ILoad xa] ++ [IFwd (2 * length ts + 5)] ++ [ILoad xb]) with [ILoad xa; IFwd (2 * length ts + 5); ILoad xb].
  rewrite <- app_assoc. cbn [app]. fold (if_stream ts xa xb).
  (* jump threading: no jump of this stream lands on a JUMP_FORWARD *)
  unfold thread. transitivity (map (fun i : instr => i) (if_stream ts xa xb)); [|apply map_id].
  apply map_ext_in. intros ins Hin. destruct (target_of ins) as [t|] eqn:Et; [|reflexivity].
  assert (Hlen : length (chain_code false (TAt (2 * length ts + 4)) (pos_lits ts)) = 2 * length ts).
  { rewrite length_chain. apply lws_pos_lits. }
  assert (Hft : final_target (length (if_stream ts xa xb)) (if_stream ts xa xb) t = t).
  { assert (Ht : t = 2 * length ts + 4 \/ t = 2 * length ts + 5).
    { unfold if_stream in Hin. apply in_app_or in Hin. destruct Hin as [Hin|Hin].
      - left. clear - Hin Et. revert Hin. generalize (2 * length ts + 4) as tt. intro tt.
        induction ts as [|n r IH]; intro Hin; [destruct Hin|].
        cbn [pos_lits map chain_code lval ljmp jump_to app In] in Hin. fold (pos_lits r) in Hin.
        destruct Hin as [<-|[<-|Hin]]; [discriminate Et | cbn in Et; injection Et as <-; reflexivity | exact (IH Hin)].
      - right. destruct Hin as [<-|[<-|[<-|[<-|[]]]]]; try discriminate Et. cbn in Et. injection Et as <-. reflexivity. }
    destruct (length (if_stream ts xa xb)) as [|fuel]; [reflexivity|]. cbn [final_target].
    unfold if_stream. destruct Ht as [-> | ->].
    - rewrite nth_error_app2 by lia. rewrite Hlen. replace (2 * length ts + 4 - 2 - 2 * length ts) with 2 by lia. reflexivity.
    - rewrite nth_error_app2 by lia. rewrite Hlen. replace (2 * length ts + 5 - 2 - 2 * length ts) with 3 by lia. reflexivity. }
  rewrite Hft. destruct ins; try discriminate Et; cbn in Et; injection Et as <-; reflexivity.
Qed.

(* ------------------------------------------------------------------ jumps after conditions_end are classified by their sense *)
Lemma cond_jump_after_ce : forall orj vcs p nextp endpos n s,
  has_target s nextp = false ->
  cond_jump orj 0 vcs p nextp endpos false None (push (DAtom 0 0 n) s) =
  Some (mkState (DBool (nextid s) endpos false [DAtom 0 0 n] :: stack s) (tsetdefault (targets s) endpos (nextid s)) (S (nextid s))).
Proof.
  intros orj vcs p nextp endpos n s Hnt. unfold cond_jump. cbn [pop push stack targets nextid Nat.leb orb].
  match goal with |- context [has_target ?a nextp] => change (has_target a nextp) with (has_target s nextp) end.
  rewrite Hnt. reflexivity.
Qed.

Lemma run_chain0 : forall t ts rest i s,
  (forall k, k <= 2 * length ts -> has_target s (pos_of (i + k)) = false) ->
  (forall k, k <= 2 * length ts -> t <> pos_of (i + k)) ->
  run [] 0 [] (chain_code false (TAt t) (pos_lits ts) ++ rest) i s =
  run [] 0 [] rest (i + 2 * length ts)
      (mkState (rev (cl false t (chain_items (nextid s) (pos_lits ts))) ++ stack s)
               (match ts with [] => targets s | _ => tsetdefault (targets s) t (nextid s) end)
               (nextid s + length ts)).
Proof.
  intros t ts. induction ts as [|n r IH]; intros rest i s Hnt Htt.
  - cbn [pos_lits map chain_code app length chain_items combine seq cl rev]. rewrite !Nat.add_0_r. destruct s; reflexivity.
  - cbn [pos_lits map chain_code lval ljmp jump_to app]. fold (pos_lits r).
    assert (H0 : has_target s (pos_of i) = false) by (rewrite <- (Nat.add_0_r i); apply Hnt; lia).
    assert (H1 : has_target s (pos_of (S i)) = false) by (replace (S i) with (i + 1) by lia; apply Hnt; cbn [length]; lia).
    assert (H2 : has_target s (pos_of (S (S i))) = false) by (replace (S (S i)) with (i + 2) by lia; apply Hnt; cbn [length]; lia).
    rewrite (run_cons [] 0 (ILoad n) _ i s (push (DAtom 0 0 n) s) eq_refl (step_load [] 0 n i s H0)).
    assert (Hstep : step [] 0 [] (IJump false t) (S i) (push (DAtom 0 0 n) s) =
                    Some (mkState (DBool (nextid s) t false [DAtom 0 0 n] :: stack s) (tsetdefault (targets s) t (nextid s)) (S (nextid s)))).
    { unfold step. rewrite has_target_push, H1. apply cond_jump_after_ce. exact H2. }
    rewrite (run_cons [] 0 (IJump false t) _ (S i) _ _ eq_refl Hstep).
    rewrite IH.
    + cbn [stack targets nextid length]. f_equal; [lia|].
      change (pos_lits (n :: r)) with (Lit false n :: pos_lits r). rewrite chain_items_cons. unfold cl. cbn [map rev fst snd dlit]. rewrite <- app_assoc. cbn [app].
      f_equal.
      * destruct r as [|l2 r2]; [reflexivity|].
        assert (Hg : tget (targets s) t = None \/ exists x, tget (targets s) t = Some x)
          by (destruct (tget (targets s) t); [right; eexists; reflexivity | left; reflexivity]).
        destruct Hg as [Hg|[x Hg]].
        -- apply (tsetdefault_present _ _ _ (nextid s)). apply tget_tsetdefault_same. assumption.
        -- rewrite (tsetdefault_present _ _ _ _ Hg). apply (tsetdefault_present _ _ _ _ Hg).
      * lia.
    + intros k Hk. cbn [stack targets nextid]. rewrite has_target_setdefault.
      * replace (S (S i) + k) with (i + (2 + k)) by lia. unfold has_target in *. cbn [targets] in *. apply Hnt. cbn [length]. lia.
      * replace (S (S i) + k) with (i + (2 + k)) by lia. apply Htt. cbn [length]. lia.
    + intros k Hk. replace (S (S i) + k) with (i + (2 + k)) by lia. apply Htt. cbn [length]. lia.
Qed.

(* ------------------------------------------------------------------ the stream has no condition part *)
Lemma analysis_if_stream : forall ts xa xb,
  conditions_end (if_stream ts xa xb) = 0 /\ or_jumps (if_stream ts xa xb) = [] /\ value_jumps (if_stream ts xa xb) = [].
Proof.
  intros ts xa xb.
  assert (Hce : conditions_end (if_stream ts xa xb) = 0).
  { unfold if_stream. rewrite conditions_end_from, ce_from_app, ce_from_chain_fwd. reflexivity. }
  split; [exact Hce|]. split.
  - unfold or_jumps. rewrite Hce. reflexivity.
  - rewrite value_jumps_from. apply vj_from_no_copy. unfold if_stream. intro H. apply in_app_or in H.
    destruct H as [H|[H|[H|[H|[H|[]]]]]]; try discriminate H. exact (no_copy_chain _ _ _ H).
Qed.

(* partial process_target stops at once on a clause that is pending at the processed position *)
Lemma pt_partial_stop : forall pos lim top top2 rest ts,
  simplify top = top -> same_id top lim = false -> is_comp top = false -> is_comp top2 = false ->
  ep_of top2 = pos -> pos <> 0 ->
  pt_loop true pos lim top (top2 :: rest) ts = Some (top :: top2 :: rest, ts).
Proof.
  intros pos lim top top2 rest ts Hs Hl Hc Hc2 Hep Hpos. cbn [pt_loop]. rewrite Hs, Hl, Hc, Hc2, Hep, Nat.eqb_refl.
  replace (pos =? 0) with false by (symmetry; apply Nat.eqb_neq; exact Hpos). reflexivity.
Qed.

Lemma to_bexp_list_pos : forall l tn,
  to_bexp_list (map strip (map dlit (map (Lit false) l)) ++ [PAtom tn]) = Some (map Atom (l ++ [tn])).
Proof.
  induction l as [|x l IH]; intro tn; [reflexivity|].
  cbn [map dlit strip app to_bexp_list to_bexp]. rewrite IH. reflexivity.
Qed.

Theorem roundtrip_if_and : forall ts xa xb, ts <> [] -> decompile PElt (if_and ts xa xb) = Some (if_and ts xa xb).
Proof.
  intros ts xa xb Hne. unfold decompile. rewrite compile_if_and by assumption. unfold decompile_code.
  destruct (analysis_if_stream ts xa xb) as [Hce [Horj Hvj]]. rewrite Hce, Horj, Hvj.
  set (n := length ts). set (pb := 2 * n + 4). set (pe := 2 * n + 5).
  unfold if_stream. fold n pb pe.
  rewrite run_chain0.
  2:{ intros k Hk. reflexivity. }
  2:{ intros k Hk. unfold pb, pos_of. fold n in Hk. lia. }
  cbn [init_state stack targets nextid]. fold n. rewrite Nat.add_0_l.
  destruct (exists_last Hne) as [ts0 [tn Hts]].
  set (items := chain_items 1 (pos_lits ts)).
  assert (Htargets : match ts with [] => [] | _ :: _ => tsetdefault [] pb 1 end = [(pb, 1)]) by (destruct ts; [congruence|reflexivity]).
  rewrite Htargets.
  set (s1 := {| stack := rev (cl false pb items) ++ [DComp 0 0]; targets := [(pb, 1)]; nextid := 1 + n |}).
  assert (Hpb0 : pb <> 0) by (unfold pb; lia).
  assert (Hnt1 : forall p, p <> pb -> has_target s1 p = false).
  { intros p Hp. unfold has_target, s1. cbn [targets tget]. replace (pb =? p) with false by (symmetry; apply Nat.eqb_neq; congruence). reflexivity. }
  (* LOAD xa *)
  rewrite (run_cons [] 0 (ILoad xa) _ (2 * n) s1 (push (DAtom 0 0 xa) s1) eq_refl
             (step_load [] 0 xa (2 * n) s1 ltac:(apply Hnt1; unfold pb, pos_of; lia))).
  (* the shape of the pending clauses *)
  assert (Hitems : items = chain_items 1 (pos_lits ts0) ++ [(1 + length ts0, DAtom 0 0 tn)]).
  { unfold items. rewrite Hts. unfold pos_lits. rewrite map_app. cbn [map].
    unfold chain_items. rewrite app_length, seq_app, !map_app. cbn [length seq map dlit].
    rewrite combine_app' by (rewrite seq_length, !map_length; reflexivity). rewrite map_length. reflexivity. }
  assert (Hstk1 : stack s1 = DBool (1 + length ts0) pb false [DAtom 0 0 tn] :: rev (cl false pb (chain_items 1 (pos_lits ts0))) ++ [DComp 0 0]).
  { unfold s1. cbn [stack]. rewrite Hitems. unfold cl. rewrite map_app, rev_app_distr. reflexivity. }
  set (an := DAtom 0 pb tn).
  set (test := match ts0 with [] => an | _ => DBool 1 pb false (map dlit (pos_lits ts0) ++ [an]) end).
  assert (Htest_simpl : simplify test = test).
  { unfold test. destruct ts0 as [|a0 r0]; [reflexivity|]. cbn [pos_lits map app]. destruct (map dlit (map (Lit false) r0) ++ [an]) eqn:E; [destruct r0; discriminate|]. apply simplify_multi. }
  (* JUMP_FORWARD *)
  assert (Hjf : step [] 0 [] (IFwd pe) (S (2 * n)) (push (DAtom 0 0 xa) s1) =
                Some (mkState [DIf (1 + n) pe test (DAtom 0 0 xa) None; DComp 0 0] [(pe, 1 + n)] (2 + n))).
  { unfold step. rewrite has_target_push, Hnt1 by (unfold pb, pos_of; lia).
    replace (pos_of (S (S (2 * n)))) with pb by (unfold pb, pos_of; lia).
    unfold jump_forward.
    (* partial: the `then` value stays alone on top *)
    assert (Hp1 : process_target true pb (push (DAtom 0 0 xa) s1) = Some (push (DAtom 0 0 xa) s1)).
    { unfold process_target. cbn [push stack targets nextid]. rewrite Hstk1.
      replace (pb =? 0) with false by (symmetry; apply Nat.eqb_neq; exact Hpb0). cbn [orb].
      unfold s1 at 1. cbn [targets tget]. rewrite Nat.eqb_refl.
      rewrite pt_partial_stop; try reflexivity; try assumption.
      unfold push, s1. cbn [stack targets nextid]. rewrite <- Hstk1. reflexivity. }
    rewrite Hp1. cbn [pop push stack targets nextid].
    assert (Hs1 : {| stack := stack s1; targets := targets s1; nextid := nextid s1 |} = s1) by reflexivity.
    rewrite Hs1.
    (* full: the clauses pending at pb are merged into the test *)
    assert (Hp2 : process_target false pb s1 = Some (mkState [test; DComp 0 0] [] (1 + n))).
    { rewrite (process_target_lim pb s1 _ _ 1 Hstk1 Hpb0) by (unfold s1; cbn [targets tget]; rewrite Nat.eqb_refl; reflexivity).
      unfold s1 at 1 2. cbn [targets tdel nextid]. rewrite Nat.eqb_refl. cbn [tdel].
      assert (Hsim : simplify (DBool (1 + length ts0) pb false [DAtom 0 0 tn]) = an).
      { cbn [simplify ep_of set_ep]. replace (0 <? pb) with true by (symmetry; apply Nat.ltb_lt; lia). reflexivity. }
      rewrite pt_loop_simplify; rewrite Hsim; [|reflexivity].
      destruct ts0 as [|a0 r0].
      - cbn [pos_lits map chain_items length seq combine cl rev app]. unfold test.
        rewrite pt_stop_comp; reflexivity.
      - rewrite merge_first; [| repeat split | reflexivity | | discriminate].
        + rewrite hd_chain_items by discriminate. rewrite map_snd_chain_items. cbn [ep_of an]. rewrite Nat.max_id.
          rewrite pt_stop_lim; [reflexivity | exact Htest_simpl | reflexivity].
        + intros k d Hin. change (pos_lits (a0 :: r0)) with (Lit false a0 :: pos_lits r0) in Hin. rewrite chain_items_cons in Hin.
          cbn [tl] in Hin. apply chain_items_ids in Hin. cbn [not_lim]. lia. }
    rewrite Hp2. cbn [pop stack targets nextid]. rewrite Htest_simpl. cbn [simplify tsetdefault tget app same_id id_of].
    rewrite Nat.eqb_refl. cbn [same_id id_of Nat.add Nat.eqb andb]. reflexivity. }
  rewrite (run_cons [] 0 (IFwd pe) _ (S (2 * n)) _ _ eq_refl Hjf).
  (* LOAD xb *)
  set (s2 := {| stack := [DIf (1 + n) pe test (DAtom 0 0 xa) None; DComp 0 0]; targets := [(pe, 1 + n)]; nextid := 2 + n |}).
  assert (Hl2 : step [] 0 [] (ILoad xb) (S (S (2 * n))) s2 = Some (push (DAtom 0 0 xb) s2)).
  { apply step_load. unfold has_target, s2. cbn [targets tget]. replace (pe =? pos_of (S (S (2 * n)))) with false by (symmetry; apply Nat.eqb_neq; unfold pe, pos_of; lia). reflexivity. }
  rewrite (run_cons [] 0 (ILoad xb) _ (S (S (2 * n))) _ _ eq_refl Hl2).
  (* YIELD_VALUE *)
  cbn [run is_final]. unfold finish.
  replace (pos_of (S (S (S (2 * n))))) with pe by (unfold pe, pos_of; lia).
  assert (Hht : has_target (push (DAtom 0 0 xb) s2) pe = true) by (unfold has_target, push, s2; cbn [targets tget]; rewrite Nat.eqb_refl; reflexivity).
  rewrite Hht.
  assert (Hp3 : process_target false pe (push (DAtom 0 0 xb) s2) =
                Some (mkState [DIf (1 + n) pe test (DAtom 0 0 xa) (Some (DAtom 0 0 xb)); DComp 0 0] [] (2 + n))).
  { unfold process_target, push, s2. cbn [stack targets nextid tget tdel]. rewrite Nat.eqb_refl.
    replace (pe =? 0) with false by (symmetry; apply Nat.eqb_neq; unfold pe; lia). cbn [orb tdel].
    cbn [pt_loop simplify same_id id_of is_comp ep_of Nat.eqb andb negb]. cbn [Nat.max].
    rewrite Nat.max_0_r. rewrite Nat.eqb_refl. cbn [andb negb].
    replace (1 + n =? 0) with false by reflexivity. cbn [negb andb]. reflexivity. }
  rewrite Hp3. cbn [pop stack targets nextid length yield_loop process_target Nat.eqb orb pt_loop simplify same_id is_comp].
  cbn [extract strip map conj to_bexp].
  (* the test *)
  assert (Hst : to_bexp (strip test) = Some (mk_and_atoms ts)).
  { unfold test. rewrite Hts. destruct ts0 as [|a0 r0]; [reflexivity|].
    cbn [strip]. rewrite to_bexp_PBool. rewrite map_app. cbn [map strip an].
    assert (Hl := to_bexp_list_pos (a0 :: r0) tn). fold (pos_lits (a0 :: r0)) in Hl.
    rewrite Hl. unfold mk_and_atoms. destruct ((a0 :: r0) ++ [tn]) as [|u [|v w]] eqn:E; [discriminate | destruct r0; discriminate | reflexivity]. }
  rewrite Hst. reflexivity.
Qed.
