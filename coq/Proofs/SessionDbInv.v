(* C14: primary and unique keys are never duplicated in the database, for every history.
   Part 1: the statements of the database model keep the table constraints (db_ok). *)
Require Import PonyV.Model.SessionBase PonyV.Model.SessionDb PonyV.Model.Session.
Require Import PonyV.Proofs.SessionLemmas PonyV.Proofs.SessionState.
From Coq Require Import Arith Permutation.

Definition rows_ok (en : ent) (rows : list row) : Prop :=
  NoDup (map r_pk rows) /\
  forall a at_, nth_error (e_attrs en) a = Some at_ -> a_uniq at_ = true ->
    forall r1 r2, In r1 rows -> In r2 rows -> col r1 a = col r2 a -> col r1 a <> VNone -> r_pk r1 = r_pk r2.

(* no two rows of a table share a primary key, or a non-NULL value of a unique column *)
Definition db_ok (sch : schema) (d : db) : Prop :=
  forall e en, nth_error sch e = Some en -> rows_ok en (tab d e).

Lemma tab_set_tab : forall d e rows e', tab (set_tab d e rows) e' = if Nat.eqb e e' && Nat.ltb e (length (d_tabs d)) then rows else tab d e'.
Proof.
  intros. unfold tab, set_tab. cbn [d_tabs]. destruct (Nat.eqb e e') eqn:E; simpl.
  - apply Nat.eqb_eq in E. subst e'. destruct (Nat.ltb e (length (d_tabs d))) eqn:L.
    + apply Nat.ltb_lt in L. apply nth_upd_nth_same. exact L.
    + apply Nat.ltb_ge in L. rewrite upd_nth_overflow by exact L. reflexivity.
  - apply Nat.eqb_neq in E. apply nth_upd_nth_other. exact E.
Qed.

Lemma tab_set_seq : forall d e z e', tab (set_seq d e z) e' = tab d e'.
Proof. reflexivity. Qed.

Lemma db_ok_set_tab : forall sch d e rows, db_ok sch d -> (forall en, nth_error sch e = Some en -> rows_ok en rows) -> db_ok sch (set_tab d e rows).
Proof.
  intros sch d e rows OK H e' en' N. rewrite tab_set_tab. destruct (Nat.eqb e e' && Nat.ltb e (length (d_tabs d))) eqn:C.
  - apply andb_true_iff in C. destruct C as [C _]. apply Nat.eqb_eq in C. subst e'. apply H. exact N.
  - apply OK. exact N.
Qed.

Lemma insert_by_perm : forall A (le : A -> A -> bool) x l, Permutation (insert_by le x l) (x :: l).
Proof.
  induction l as [|y l IH]; simpl. apply Permutation_refl.
  destruct (le x y). apply Permutation_refl.
  eapply Permutation_trans. apply perm_skip. exact IH. apply perm_swap.
Qed.

Lemma find_row_none_notin : forall rows pk, find_row rows pk = None -> ~ In pk (map r_pk rows).
Proof.
  induction rows as [|r t IH]; simpl; intros pk H. auto.
  destruct (Z.eqb (r_pk r) pk) eqn:E; try discriminate. apply Z.eqb_neq in E. intros [X|X]; auto. apply (IH pk H X).
Qed.

Lemma find_row_some : forall rows pk r, find_row rows pk = Some r -> In r rows /\ r_pk r = pk.
Proof.
  induction rows as [|r0 t IH]; simpl; intros pk r H. discriminate.
  destruct (Z.eqb (r_pk r0) pk) eqn:E. inversion H; subst. apply Z.eqb_eq in E. auto.
  destruct (IH pk r H). auto.
Qed.

Lemma uniq_ok_spec : forall sch e en cols others, nth_error sch e = Some en -> uniq_ok sch e cols others = true ->
  forall a at_, nth_error (e_attrs en) a = Some at_ -> a_uniq at_ = true -> nth a cols VNone <> VNone ->
  forall r, In r others -> col r a <> nth a cols VNone.
Proof.
  intros sch e en cols others N U a at_ NA UQ NN r I. unfold uniq_ok in U. rewrite N in U.
  pose proof (forallb_i_nth _ _ _ _ _ _ U NA) as H. simpl in H. rewrite UQ in H. simpl in H.
  destruct (is_vnone (nth a cols VNone)) eqn:V. destruct (nth a cols VNone); try discriminate. congruence.
  simpl in H. apply negb_true_iff in H. intro E.
  assert (existsb (fun r0 => val_eqb (col r0 a) (nth a cols VNone)) others = true).
  { apply existsb_exists. exists r. split; auto. apply val_eqb_eq. exact E. } congruence.
Qed.

Lemma db_insert_ok : forall sch d e pk cols d' pk', db_ok sch d -> db_insert sch d e pk cols = inr (d', pk') -> db_ok sch d'.
Proof.
  intros sch d e pk cols d' pk' OK H. unfold db_insert in H.
  set (pkn := match pk with Some z => z | None => Z.max (seq_of d e) (max_pk (tab d e)) + 1 end) in *.
  destruct (has_row d e pkn) eqn:HR; try discriminate.
  destruct (negb (notnull_ok sch e cols)); try discriminate.
  destruct (negb (uniq_ok sch e cols (tab d e))) eqn:UQ; try discriminate. apply negb_false_iff in UQ.
  destruct (negb (fk_ok sch d e cols)); try discriminate. inversion H; subst d' pk'. clear H.
  assert (OK1 : db_ok sch (set_tab d e (insert_by row_le (mkRow pkn cols) (tab d e)))).
  { apply db_ok_set_tab; auto. intros en N. destruct (OK e en N) as [ND UC].
    pose proof (insert_by_perm row row_le (mkRow pkn cols) (tab d e)) as PM.
    assert (FR : ~ In pkn (map r_pk (tab d e))).
    { unfold has_row in HR. destruct (find_row (tab d e) pkn) eqn:F; try discriminate. apply find_row_none_notin. exact F. }
    split.
    - eapply Permutation_NoDup. apply Permutation_sym. apply Permutation_map. exact PM. simpl. constructor; auto.
    - intros a at_ NA U r1 r2 I1 I2 EQ NN.
      apply (Permutation_in _ PM) in I1. apply (Permutation_in _ PM) in I2. simpl in I1, I2.
      destruct I1 as [I1|I1]; destruct I2 as [I2|I2]; subst; auto.
      + exfalso. unfold col in EQ at 1. simpl in EQ. unfold col in NN. simpl in NN.
        apply (uniq_ok_spec sch e en cols (tab d e) N UQ a at_ NA U NN r2 I2). symmetry. exact EQ.
      + exfalso. assert (NN2 : nth a cols VNone <> VNone) by (unfold col in EQ at 2; simpl in EQ; rewrite <- EQ; exact NN).
        apply (uniq_ok_spec sch e en cols (tab d e) N UQ a at_ NA U NN2 r1 I1). exact EQ.
      + eapply UC; eauto. }
  destruct (ent_auto sch e); [|exact OK1]. intros e' en' N. rewrite tab_set_seq. apply OK1. exact N.
Qed.

Lemma replace_row_pks : forall rows r', map r_pk (replace_row rows r') = map r_pk rows.
Proof.
  induction rows as [|r t IH]; simpl; intros; auto. rewrite IH. destruct (Z.eqb (r_pk r) (r_pk r')) eqn:E; auto.
  apply Z.eqb_eq in E. congruence.
Qed.

Lemma In_replace_row : forall rows r' x, In x (replace_row rows r') -> (x = r' /\ In (r_pk r') (map r_pk rows)) \/ (In x rows /\ r_pk x <> r_pk r').
Proof.
  induction rows as [|r t IH]; simpl; intros r' x H. destruct H.
  destruct H as [H|H].
  - destruct (Z.eqb (r_pk r) (r_pk r')) eqn:E.
    + apply Z.eqb_eq in E. left. split; auto.
    + apply Z.eqb_neq in E. right. subst x. split; auto.
  - destruct (IH r' x H) as [[A B]|[A B]]. left; auto. right; auto.
Qed.

Lemma db_update_ok : forall sch d e pk asg d', db_ok sch d -> db_update sch d e pk asg = inr d' -> db_ok sch d'.
Proof.
  intros sch d e pk asg d' OK H. unfold db_update in H.
  destruct (find_row (tab d e) pk) as [r|] eqn:F; try discriminate.
  set (cols := apply_asg (r_cols r) asg) in *. set (others := filter (fun r2 => negb (Z.eqb (r_pk r2) pk)) (tab d e)) in *.
  destruct (negb (notnull_ok sch e cols)); try discriminate.
  destruct (negb (uniq_ok sch e cols others)) eqn:UQ; try discriminate. apply negb_false_iff in UQ.
  destruct (negb (fk_ok sch d e cols)); try discriminate. inversion H; subst d'. clear H.
  apply db_ok_set_tab; auto. intros en N. destruct (OK e en N) as [ND UC]. split.
  - rewrite replace_row_pks. exact ND.
  - intros a at_ NA U r1 r2 I1 I2 EQ NN.
    assert (OTH : forall x, In x (tab d e) -> r_pk x <> pk -> In x others).
    { intros x I NE. unfold others. apply filter_In. split; auto. apply negb_true_iff. apply Z.eqb_neq. exact NE. }
    destruct (In_replace_row _ _ _ I1) as [[A1 B1]|[A1 B1]]; destruct (In_replace_row _ _ _ I2) as [[A2 B2]|[A2 B2]]; simpl in *.
    + subst. reflexivity.
    + exfalso. subst r1. unfold col in EQ at 1. simpl in EQ. unfold col in NN. simpl in NN.
      apply (uniq_ok_spec sch e en cols others N UQ a at_ NA U NN r2 (OTH r2 A2 B2)). symmetry. exact EQ.
    + exfalso. subst r2. assert (NN2 : nth a cols VNone <> VNone) by (unfold col in EQ at 2; simpl in EQ; rewrite <- EQ; exact NN).
      apply (uniq_ok_spec sch e en cols others N UQ a at_ NA U NN2 r1 (OTH r1 A1 B1)). exact EQ.
    + eapply UC; eauto.
Qed.

(* ---------------------------------------------------------------- DELETE with its foreign-key actions only removes rows and NULLs columns *)

Definition rows_refine (rows' rows : list row) : Prop :=
  (forall r', In r' rows' -> exists r, In r rows /\ r_pk r = r_pk r' /\ forall a, col r' a = col r a \/ col r' a = VNone) /\
  (NoDup (map r_pk rows) -> NoDup (map r_pk rows')).

Definition db_refine (d' d : db) : Prop := forall e, rows_refine (tab d' e) (tab d e).

Lemma rows_refine_refl : forall rows, rows_refine rows rows.
Proof. intros. split; auto. intros r' I. exists r'. repeat split; auto. Qed.

Lemma rows_refine_trans : forall r1 r2 r3, rows_refine r1 r2 -> rows_refine r2 r3 -> rows_refine r1 r3.
Proof.
  intros r1 r2 r3 [A1 A2] [B1 B2]. split; auto. intros x I. destruct (A1 x I) as (y & Iy & Py & Cy). destruct (B1 y Iy) as (z & Iz & Pz & Cz).
  exists z. split; auto. split. congruence. intros a. destruct (Cy a) as [E|E]; auto. rewrite E. apply Cz.
Qed.

Lemma db_refine_refl : forall d, db_refine d d. Proof. intros d e. apply rows_refine_refl. Qed.
Lemma db_refine_trans : forall d1 d2 d3, db_refine d1 d2 -> db_refine d2 d3 -> db_refine d1 d3.
Proof. intros d1 d2 d3 A B e. eapply rows_refine_trans; eauto. Qed.

Lemma NoDup_map_filter : forall A B (f : A -> B) (p : A -> bool) l, NoDup (map f l) -> NoDup (map f (filter p l)).
Proof.
  induction l as [|x l IH]; simpl; intros H. constructor. inversion H; subst.
  destruct (p x); simpl; auto. constructor; auto. intro I. apply H2. apply in_map_iff in I. destruct I as (y & E & Iy).
  apply in_map_iff. exists y. split; auto. apply filter_In in Iy. tauto.
Qed.

Lemma rows_refine_filter : forall p rows, rows_refine (filter p rows) rows.
Proof.
  intros. split. intros r' I. apply filter_In in I. exists r'. repeat split; tauto. apply NoDup_map_filter.
Qed.

Lemma rows_refine_null : forall (c : row -> bool) a rows, rows_refine (map (fun r => if c r then set_col r a VNone else r) rows) rows.
Proof.
  intros. split.
  - intros r' I. apply in_map_iff in I. destruct I as (r & E & I). exists r. split; auto. subst r'. destruct (c r); auto.
    split. reflexivity. intros a'. unfold col, set_col. cbn [r_cols]. destruct (Nat.eq_dec a a') as [->|N].
    + destruct (lt_dec a' (length (r_cols r))). right. apply nth_upd_nth_same. auto. left. rewrite upd_nth_overflow by lia. reflexivity.
    + left. apply nth_upd_nth_other. auto.
  - intro H. rewrite map_map. assert (E : map (fun x => r_pk (if c x then set_col x a VNone else x)) rows = map r_pk rows).
    { apply map_ext. intros x. destruct (c x); reflexivity. } rewrite E. exact H.
Qed.

Lemma db_refine_set_tab : forall d e rows', rows_refine rows' (tab d e) -> db_refine (set_tab d e rows') d.
Proof.
  intros d e rows' H e'. rewrite tab_set_tab. destruct (Nat.eqb e e' && Nat.ltb e (length (d_tabs d))) eqn:C.
  - apply andb_true_iff in C. destruct C as [C _]. apply Nat.eqb_eq in C. subst e'. exact H.
  - apply rows_refine_refl.
Qed.

Lemma db_refine_fold : forall A (f : db -> A -> db) l d, (forall d0 x, db_refine (f d0 x) d0) -> db_refine (fold_left f l d) d.
Proof.
  intros A f l. induction l as [|x l IH]; intros d H; simpl. apply db_refine_refl.
  eapply db_refine_trans. apply IH. exact H. apply H.
Qed.

Lemma db_delete_rec_refine : forall fuel sch d e pk, db_refine (db_delete_rec fuel sch d e pk) d.
Proof.
  induction fuel as [|f IH]; intros sch d e pk; simpl. apply db_refine_refl.
  eapply db_refine_trans; [|apply db_refine_set_tab; apply rows_refine_filter].
  apply db_refine_fold. intros d0 [e2 en].
  apply db_refine_fold. intros d1 [a at_]. destruct (a_kind at_); try apply db_refine_refl.
  destruct (Nat.eqb tgt e); [|apply db_refine_refl]. destruct (a_req at_).
  - apply db_refine_fold. intros d2 r. destruct (val_eqb (col r a) (VInt pk)). apply IH. apply db_refine_refl.
  - apply db_refine_set_tab. apply rows_refine_null.
Qed.

Lemma db_refine_ok : forall sch d d', db_refine d' d -> db_ok sch d -> db_ok sch d'.
Proof.
  intros sch d d' R OK e en N. destruct (OK e en N) as [ND UC]. destruct (R e) as [R1 R2]. split. auto.
  intros a at_ NA U r1 r2 I1 I2 EQ NN.
  destruct (R1 r1 I1) as (x1 & J1 & P1 & C1). destruct (R1 r2 I2) as (x2 & J2 & P2 & C2).
  rewrite <- P1, <- P2. apply (UC a at_ NA U x1 x2 J1 J2).
  - destruct (C1 a) as [E1|E1]; [|congruence]. destruct (C2 a) as [E2|E2]; [|congruence]. congruence.
  - destruct (C1 a) as [E1|E1]; congruence.
Qed.

Lemma db_delete_ok : forall sch d e pk d', db_ok sch d -> db_delete sch d e pk = inr d' -> db_ok sch d'.
Proof.
  intros sch d e pk d' OK H. unfold db_delete in H.
  assert (E : d' = db_delete_rec (S (db_rows_total d)) sch d e pk) by congruence.
  rewrite E. eapply db_refine_ok; [apply db_delete_rec_refine|exact OK].
Qed.

Lemma db_ok_init : forall sch, db_ok sch (db_init sch).
Proof.
  intros sch e en N. unfold tab, db_init. cbn [d_tabs].
  assert (E : nth e (map (fun _ : ent => @nil row) sch) [] = []).
  { destruct (nth_error (map (fun _ : ent => @nil row) sch) e) eqn:X. rewrite (nth_error_nth _ _ _ X).
    apply nth_error_In in X. apply in_map_iff in X. destruct X as (? & ? & ?). congruence. apply nth_overflow. apply nth_error_None. exact X. }
  rewrite E. split. constructor. intros a at_ _ _ r1 r2 [].
Qed.
