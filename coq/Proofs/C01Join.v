(* C01/C02 - attribute paths through to-one relationships: the FROM section (comma join with the conditions in WHERE
   for select(), LEFT JOIN for left_join()) produces exactly one joined row per P row (LEFT) / per P row whose followed
   references are set (INNER), carrying the objects reached over the object graph; with the expression theorems of
   C01Sound / C01Rows this gives: the rows returned are the Python comprehension over the object graph. *)
Require Import PonyV.Base.PyBase PonyV.Model.C01Expr PonyV.Model.C01Sql PonyV.Model.C01Translate PonyV.Model.C01Safe
               PonyV.Model.C01Eqb PonyV.Model.C01Query PonyV.Model.C01Join
               PonyV.Proofs.C01Base PonyV.Proofs.C01Ref PonyV.Proofs.C01Rows.
From Coq Require Import ZifyBool.

(* ------------------------------------------------------------------------------------------- list facts *)
Lemma flat_map_single : forall A B (f : A -> list B) (g : A -> B) l, (forall x, f x = [g x]) -> flat_map f l = map g l.
Proof. induction l as [|x l IH]; intro H; [reflexivity|]. cbn. rewrite H, IH by exact H. reflexivity. Qed.

Lemma flat_map_opt : forall A B (f : A -> list B) (c : A -> bool) (g : A -> B) l,
  (forall x, f x = if c x then [g x] else []) -> flat_map f l = map g (filter c l).
Proof. induction l as [|x l IH]; intro H; [reflexivity|]. cbn. rewrite H, IH by exact H. destruct (c x); reflexivity. Qed.

Lemma filter_map_swap : forall A B (g : A -> B) (f : B -> bool) l, filter f (map g l) = map g (filter (fun x => f (g x)) l).
Proof. induction l as [|x l IH]; [reflexivity|]. cbn. rewrite IH. destruct (f (g x)); reflexivity. Qed.

Lemma filter_filter_imp : forall A (keep c : A -> bool) l, (forall x, In x l -> keep x = true -> c x = true) ->
  filter keep (filter c l) = filter keep l.
Proof.
  induction l as [|x l IH]; intro H; [reflexivity|]. cbn.
  assert (IH' : filter keep (filter c l) = filter keep l) by (apply IH; intros y Hy; apply H; right; exact Hy).
  destruct (c x) eqn:C; cbn; rewrite IH'; [reflexivity|].
  destruct (keep x) eqn:K; [|reflexivity]. rewrite (H x (or_introl eq_refl) K) in C. discriminate.
Qed.

(* ------------------------------------------------------------------------------------------- one join step *)
Lemma extend_left : forall T v, ids_unique T -> extend JLeft T v = [deref T v].
Proof.
  intros T v U. unfold extend, deref. specialize (U v). destruct (filter (fk_eq v) T) as [|t l]; [reflexivity|].
  destruct l; [reflexivity|]. cbn in U. lia.
Qed.

Lemma extend_inner : forall T v, ids_unique T -> extend JInner T v = match deref T v with Some t => [Some t] | None => [] end.
Proof.
  intros T v U. unfold extend, deref. specialize (U v). destruct (filter (fk_eq v) T) as [|t l]; [reflexivity|].
  destruct l; [reflexivity|]. cbn in U. lia.
Qed.

Section Join.
Variable db : jdb.
Hypothesis UG : ids_unique (tG db).
Hypothesis UD : ids_unique (tD db).

Lemma from_left : forall depth, from_rows JLeft depth db = map (fun p => trunc depth (flat db p)) (tP db).
Proof.
  intro depth. unfold from_rows. apply flat_map_single. intro p. unfold flat, trunc.
  destruct depth as [|[|n]]; [reflexivity| |].
  - rewrite (extend_left _ _ UG). reflexivity.
  - rewrite (extend_left _ _ UG). cbn [flat_map]. rewrite (extend_left _ _ UD). reflexivity.
Qed.

Lemma from_inner : forall depth,
  from_rows JInner depth db = map (fun p => trunc depth (flat db p)) (filter (fun p => defined depth (flat db p)) (tP db)).
Proof.
  intro depth. unfold from_rows. apply flat_map_opt. intro p. unfold flat, trunc, defined.
  destruct depth as [|[|n]]; [reflexivity| |].
  - rewrite (extend_inner _ _ UG). destruct (deref (tG db) (p col_group)); reflexivity.
  - rewrite (extend_inner _ _ UG). destruct (deref (tG db) (p col_group)) as [g|]; [|reflexivity].
    cbn [flat_map]. rewrite (extend_inner _ _ UD). destruct (deref (tD db) (fk_of (Some g))); reflexivity.
Qed.
End Join.

(* ------------------------------------------------------------------------------------------- the part of the graph an
   expression looks at *)
Lemma reval_ext : forall k en1 en2 e,
  (forall i, In i (attr_ids e) -> attr_val en1 i = attr_val en2 i) -> (forall i, param_val en1 i = param_val en2 i) ->
  reval k en1 e = reval k en2 e.
Proof.
  intros k en1 en2 e. induction e using expr_ind'; intros Ha Hp; cbn [reval attr_ids] in *; try reflexivity.
  - apply Ha. left. reflexivity.
  - apply Hp.
  - apply Ha. left. reflexivity.
  - apply Ha. left. reflexivity.
  - rewrite (IHe1 (fun i Hi => Ha i (in_or_app _ _ i (or_introl Hi))) Hp), (IHe2 (fun i Hi => Ha i (in_or_app _ _ i (or_intror Hi))) Hp). reflexivity.
  - rewrite (IHe Ha Hp). reflexivity.
  - rewrite (IHe Ha Hp). reflexivity.
  - rewrite (IHe1 (fun i Hi => Ha i (in_or_app _ _ i (or_introl Hi))) Hp), (IHe2 (fun i Hi => Ha i (in_or_app _ _ i (or_intror Hi))) Hp). reflexivity.
  - rewrite (IHe Ha Hp). reflexivity.
  - rewrite (IHe1 (fun i Hi => Ha i (in_or_app _ _ i (or_introl Hi))) Hp), (IHe2 (fun i Hi => Ha i (in_or_app _ _ i (or_intror Hi))) Hp). reflexivity.
  - rewrite (IHe1 (fun i Hi => Ha i (in_or_app _ _ i (or_introl Hi))) Hp), (IHe2 (fun i Hi => Ha i (in_or_app _ _ i (or_intror Hi))) Hp). reflexivity.
  - rewrite (IHe1 (fun i Hi => Ha i (in_or_app _ _ i (or_introl Hi))) Hp), (IHe2 (fun i Hi => Ha i (in_or_app _ _ i (or_intror Hi))) Hp). reflexivity.
  - rewrite (IHe Ha Hp). reflexivity.
  - rewrite (IHe Ha Hp). reflexivity.
  - rewrite (IHe1 (fun i Hi => Ha i (in_or_app _ _ i (or_introl Hi))) Hp),
            (IHe2 (fun i Hi => Ha i (in_or_app _ _ i (or_intror (in_or_app _ _ i (or_introl Hi))))) Hp),
            (IHe3 (fun i Hi => Ha i (in_or_app _ _ i (or_intror (in_or_app _ _ i (or_intror Hi))))) Hp). reflexivity.
  - f_equal. apply map_ext_in. intros a Hin. rewrite Forall_forall in H. apply H; [exact Hin| |exact Hp].
    intros i Hi. apply Ha. apply in_flat_map. eauto.
  - f_equal. apply map_ext_in. intros a Hin. rewrite Forall_forall in H. apply H; [exact Hin| |exact Hp].
    intros i Hi. apply Ha. apply in_flat_map. eauto.
Qed.

Lemma table_le_depth : forall es e i, In e es -> In i (attr_ids e) -> (table_of i <= depth_of es)%nat.
Proof.
  intros es e i He Hi. unfold depth_of.
  assert (In (table_of i) (map table_of (flat_map attr_ids es))).
  { apply in_map. apply in_flat_map. eauto. }
  revert H. generalize (map table_of (flat_map attr_ids es)). induction l as [|x l IH]; intro H; [contradiction|].
  cbn. destruct H as [->|H]; [lia|]. specialize (IH H). lia.
Qed.

Lemma jattr_trunc : forall depth j i, (table_of i <= depth)%nat -> jattr (trunc depth j) i = jattr j i.
Proof.
  intros depth [[p og] od] i H. unfold table_of in H. unfold trunc, jattr.
  destruct (i <? 10)%nat eqn:E1.
  - destruct depth as [|[|n]]; reflexivity.
  - destruct (i <? 20)%nat eqn:E2; cbn in H.
    + destruct depth as [|[|n]]; [lia|reflexivity|reflexivity].
    + destruct depth as [|[|n]]; [lia|lia|reflexivity].
Qed.

Lemma reval_trunc : forall k params es e j, In e es ->
  reval k (penv params (trunc (depth_of es) j)) e = reval k (penv params j) e.
Proof.
  intros k params es e j He. apply reval_ext; [|reflexivity].
  intros i Hi. cbn. apply jattr_trunc. eapply table_le_depth; eauto.
Qed.

(* ------------------------------------------------------------------------------------------- whole queries *)
Section Queries.
Variable d : dname.
Hypothesis Hd : modelled d = true.
Variable db : jdb.
Hypothesis UG : ids_unique (tG db).
Hypothesis UD : ids_unique (tD db).
Variable params : nat -> pyv.
Variables filt proj : expr.
Variables (tf : ty) (vt : vty).
Hypothesis Hf : ty_of filt = Some tf.
Hypothesis Bf : boolable tf = true.
Hypothesis Hp : ty_of proj = Some (TV vt).
Variables (conds : list qx) (q : qx).
Hypothesis EC : tr_filter d filt = Some conds.
Hypothesis EQ : tr_project d proj = Some q.

Let depth := depth_of [filt; proj].
(* the attribute environment of the part of the object graph the query touches *)
Definition qenv_of (p : row) : env := penv params (trunc depth (flat db p)).

Lemma py_rows_trunc : forall distinct l,
  py_rows distinct filt proj (map qenv_of l) =
  (let r := map (fun p => ref_eval (penv params (flat db p)) proj)
                (filter (fun p => py_truthy filt (ref_eval (penv params (flat db p)) filt)) l) in
   if distinct then dedup pyv_eqb r else r).
Proof.
  intros distinct l. unfold py_rows. rewrite filter_map_swap, map_map.
  assert (F : filter (fun x => py_truthy filt (ref_eval (qenv_of x) filt)) l
              = filter (fun p => py_truthy filt (ref_eval (penv params (flat db p)) filt)) l).
  { apply filter_ext. intro p. unfold qenv_of, ref_eval, depth. rewrite (reval_trunc false params [filt; proj] filt); [reflexivity|left; reflexivity]. }
  rewrite F.
  assert (M : forall l', map (fun x => ref_eval (qenv_of x) proj) l' = map (fun p => ref_eval (penv params (flat db p)) proj) l').
  { intro l'. apply map_ext. intro p. unfold qenv_of, ref_eval, depth. rewrite (reval_trunc false params [filt; proj] proj); [reflexivity|right; left; reflexivity]. }
  rewrite M. reflexivity.
Qed.

(* left_join(...): every P row, None-propagating paths *)
Theorem left_join_rows : forall distinct,
  Forall (fun p => row_ok d filt proj (qenv_of p)) (tP db) ->
  sql_join_rows d JLeft depth distinct conds q params db = map (enc d) (py_join_rows distinct filt proj params db) /\
  map (dec (TV vt)) (sql_join_rows d JLeft depth distinct conds q params db) = py_join_rows distinct filt proj params db.
Proof.
  intros distinct Hall.
  assert (S : sql_join_rows d JLeft depth distinct conds q params db = sql_rows d distinct conds q (map qenv_of (tP db))).
  { unfold sql_join_rows, sql_rows. rewrite (from_left db UG UD). rewrite !filter_map_swap, !map_map. reflexivity. }
  assert (T : Forall (row_ok d filt proj) (map qenv_of (tP db))) by (rewrite Forall_map; exact Hall).
  destruct (rows_ref d Hd filt tf proj vt distinct (map qenv_of (tP db)) conds q Hf Bf Hp EC EQ T) as [R1 R2].
  rewrite S. unfold py_join_rows. rewrite <- py_rows_trunc. split; [exact R1|exact R2].
Qed.

(* select(...): the comma join keeps only the P rows whose followed references are all set *)
Theorem inner_join_rows_sql : forall distinct,
  sql_join_rows d JInner depth distinct conds q params db
  = sql_rows d distinct conds q (map qenv_of (filter (fun p => defined depth (flat db p)) (tP db))).
Proof.
  intro distinct. unfold sql_join_rows, sql_rows. rewrite (from_inner db UG UD). rewrite !filter_map_swap, !map_map. reflexivity.
Qed.

Theorem inner_join_rows : forall distinct,
  Forall (fun p => defined depth (flat db p) = true -> row_ok d filt proj (qenv_of p)) (tP db) ->
  (* known bad: a row with an unset followed reference that the Python condition keeps *)
  Forall (fun p => defined depth (flat db p) = false -> py_truthy filt (ref_eval (penv params (flat db p)) filt) = false) (tP db) ->
  sql_join_rows d JInner depth distinct conds q params db = map (enc d) (py_join_rows distinct filt proj params db) /\
  map (dec (TV vt)) (sql_join_rows d JInner depth distinct conds q params db) = py_join_rows distinct filt proj params db.
Proof.
  intros distinct Hall Hbad. rewrite inner_join_rows_sql.
  set (l := filter (fun p => defined depth (flat db p)) (tP db)).
  assert (T : Forall (row_ok d filt proj) (map qenv_of l)).
  { rewrite Forall_map. apply Forall_forall. intros p Hin. unfold l in Hin. apply filter_In in Hin. destruct Hin as [Hin Hdef].
    rewrite Forall_forall in Hall. apply Hall; assumption. }
  destruct (rows_ref d Hd filt tf proj vt distinct (map qenv_of l) conds q Hf Bf Hp EC EQ T) as [R1 R2].
  assert (E : py_join_rows distinct filt proj params db = py_rows distinct filt proj (map qenv_of l)).
  { unfold py_join_rows. rewrite py_rows_trunc. unfold l. rewrite filter_filter_imp; [reflexivity|].
  intros p Hin K. rewrite Forall_forall in Hbad. specialize (Hbad p Hin).
    destruct (defined depth (flat db p)); [reflexivity|]. rewrite (Hbad eq_refl) in K. discriminate. }
  rewrite E. split; [exact R1|exact R2].
Qed.
End Queries.
