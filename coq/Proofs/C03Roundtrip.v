(* C03 - round trip decompile (compile e) = e on the model, for the disjunctive-normal-form family of Model/C03Family.v
   (literals: a, not a, a == b, a != b, not a == b, not a != b, a is None, a is not None). *)
From Coq Require Import List Bool Arith Lia Sorted.
Import ListNotations.
Require Import PonyV.Model.C03Bexp PonyV.Model.C03Decomp PonyV.Model.C03Family PonyV.Proofs.C03Checker.

(* ------------------------------------------------------------------ named versions of the list walks inside comp / elen *)
Fixpoint comp_and (cnd : bool) (next next2 : tgt) (c : bool) (l : list bexp) (p : nat) : list instr :=
  match l with
  | [] => []
  | x :: r => match r with
              | [] => comp cnd x p next c
              | _ :: _ => if cnd then comp true x p next2 false ++ comp_and cnd next next2 c r (p + elen true x)
                          else comp false x p next c ++ [ICopy; jump_to false next2; IPopTop] ++ comp_and cnd next next2 c r (p + elen false x + 3)
              end
  end.
Fixpoint comp_or (cnd : bool) (next next2 : tgt) (c : bool) (l : list bexp) (p : nat) : list instr :=
  match l with
  | [] => []
  | x :: r => match r with
              | [] => comp cnd x p next c
              | _ :: _ => if cnd then comp true x p next2 true ++ comp_or cnd next next2 c r (p + elen true x)
                          else comp false x p next c ++ [ICopy; jump_to true next2; IPopTop] ++ comp_or cnd next next2 c r (p + elen false x + 3)
              end
  end.

Lemma comp_And : forall cnd l p next c,
  comp cnd (And l) p next c =
  comp_and cnd next (if cnd then (if c then TAt (p + elen cnd (And l)) else next) else TAt (p + elen cnd (And l))) c l p.
Proof.
  intros cnd l p next c. cbn [comp].
  set (n2 := if cnd then (if c then TAt (p + elen cnd (And l)) else next) else TAt (p + elen cnd (And l))).
  clearbody n2. revert p. induction l as [|x r IH]; intro p; [reflexivity|].
  cbn [comp_and]. destruct r as [|y s]; [reflexivity|].
  destruct cnd; rewrite <- IH; reflexivity.
Qed.

Lemma comp_Or : forall cnd l p next c,
  comp cnd (Or l) p next c =
  comp_or cnd next (if cnd then (if c then next else TAt (p + elen cnd (Or l))) else TAt (p + elen cnd (Or l))) c l p.
Proof.
  intros cnd l p next c. cbn [comp].
  set (n2 := if cnd then (if c then next else TAt (p + elen cnd (Or l))) else TAt (p + elen cnd (Or l))).
  clearbody n2. revert p. induction l as [|x r IH]; intro p; [reflexivity|].
  cbn [comp_or]. destruct r as [|y s]; [reflexivity|].
  destruct cnd; rewrite <- IH; reflexivity.
Qed.

Lemma elen_And : forall cnd l, elen cnd (And l) = elen_list cnd l.
Proof.
  intros cnd l. cbn [elen]. induction l as [|x r IH]; [reflexivity|].
  cbn [elen_list]. destruct r as [|y s]; [reflexivity|]. rewrite <- IH. reflexivity.
Qed.
Lemma elen_Or : forall cnd l, elen cnd (Or l) = elen_list cnd l.
Proof.
  intros cnd l. cbn [elen]. induction l as [|x r IH]; [reflexivity|].
  cbn [elen_list]. destruct r as [|y s]; [reflexivity|]. rewrite <- IH. reflexivity.
Qed.

Lemma elen_list_cons2 : forall cnd x y s,
  elen_list cnd (x :: y :: s) = (if cnd then elen true x else elen false x + 3) + elen_list cnd (y :: s).
Proof. reflexivity. Qed.
Lemma comp_and_cons2 : forall next next2 c x y s p,
  comp_and true next next2 c (x :: y :: s) p = comp true x p next2 false ++ comp_and true next next2 c (y :: s) (p + elen true x).
Proof. reflexivity. Qed.
Lemma comp_or_cons2 : forall next next2 c x y s p,
  comp_or true next next2 c (x :: y :: s) p = comp true x p next2 true ++ comp_or true next next2 c (y :: s) (p + elen true x).
Proof. reflexivity. Qed.

(* ------------------------------------------------------------------ literals and groups of literals *)
Lemma elen_lit : forall l, elen true (lit_bexp l) = lw l.
Proof. intros [[] n|[] ne a b|isnot a]; reflexivity. Qed.

Lemma comp_lit : forall l p next c, comp true (lit_bexp l) p next c = lval l ++ [ljmp l c next].
Proof. intros [[] n|[] ne a b|isnot a] p next c; try reflexivity. cbn [lit_bexp comp lval ljmp app]. destruct isnot, c; reflexivity. Qed.

Lemma lws_app : forall a b, lws (a ++ b) = lws a + lws b.
Proof. induction a as [|x r IH]; intro b; [reflexivity|]. cbn [app lws]. rewrite IH. lia. Qed.

Lemma lw_pos : forall l, 2 <= lw l.
Proof. intros [neg n|neg ne a b|isnot a]; cbn; lia. Qed.

Lemma lws_pos : forall ls, ls <> [] -> 2 <= lws ls.
Proof. intros [|l r] H; [congruence|]. cbn [lws]. pose proof (lw_pos l). lia. Qed.

Lemma elen_list_lits : forall ls, elen_list true (map lit_bexp ls) = lws ls.
Proof.
  induction ls as [|x r IH]; [reflexivity|].
  destruct r as [|y s].
  - cbn [map elen_list lws]. rewrite elen_lit. lia.
  - change (map lit_bexp (x :: y :: s)) with (lit_bexp x :: lit_bexp y :: map lit_bexp s).
    rewrite elen_list_cons2, elen_lit. change (lit_bexp y :: map lit_bexp s) with (map lit_bexp (y :: s)).
    rewrite IH. reflexivity.
Qed.

Lemma elen_mk_and : forall ls, ls <> [] -> elen true (mk_and ls) = lws ls.
Proof.
  intros ls H. destruct ls as [|x [|y s]]; [congruence| |].
  - cbn [mk_and lws]. rewrite elen_lit. lia.
  - unfold mk_and. rewrite elen_And. apply elen_list_lits.
Qed.

Lemma and_back_chain : forall ls, and_back ls = chain_code false TTop ls.
Proof. induction ls as [|l r IH]; [reflexivity|]. cbn [and_back chain_code]. rewrite IH. reflexivity. Qed.

Lemma app_cons_assoc : forall (A : Type) (a : list A) (x : A) (b : list A), (a ++ [x]) ++ b = a ++ x :: b.
Proof. intros. rewrite <- app_assoc. reflexivity. Qed.

(* an `and` whose falsity sends control to one target: every literal jumps there when false *)
Lemma comp_and_chain : forall ls p tg, comp_and true tg tg false (map lit_bexp ls) p = chain_code false tg ls.
Proof.
  induction ls as [|l r IH]; intros p tg; [reflexivity|].
  destruct r as [|y s].
  - cbn [map comp_and chain_code]. rewrite comp_lit. reflexivity.
  - change (map lit_bexp (l :: y :: s)) with (lit_bexp l :: lit_bexp y :: map lit_bexp s).
    rewrite comp_and_cons2, comp_lit. change (lit_bexp y :: map lit_bexp s) with (map lit_bexp (y :: s)).
    rewrite IH. cbn [chain_code]. apply app_cons_assoc.
Qed.

Lemma comp_mk_and_back : forall ls p, ls <> [] -> comp true (mk_and ls) p TTop false = and_back ls.
Proof.
  intros ls p H. rewrite and_back_chain. destruct ls as [|l [|y s]]; [congruence| |].
  - cbn [mk_and chain_code]. rewrite comp_lit. reflexivity.
  - unfold mk_and. rewrite comp_And. apply comp_and_chain.
Qed.

(* an `and` that is a non-last alternative of an `or`: false -> next alternative, true (after the last literal) -> body *)
Lemma comp_and_fwd : forall ls p nextalt body,
  comp_and true (TAt body) (TAt nextalt) true (map lit_bexp ls) p = alt_fwd ls nextalt body.
Proof.
  induction ls as [|l r IH]; intros p nextalt body; [reflexivity|].
  destruct r as [|y s].
  - cbn [map comp_and alt_fwd]. rewrite comp_lit. reflexivity.
  - change (map lit_bexp (l :: y :: s)) with (lit_bexp l :: lit_bexp y :: map lit_bexp s).
    rewrite comp_and_cons2, comp_lit. change (lit_bexp y :: map lit_bexp s) with (map lit_bexp (y :: s)).
    rewrite IH. cbn [alt_fwd]. apply app_cons_assoc.
Qed.

Lemma comp_mk_and_fwd : forall ls p body, ls <> [] ->
  comp true (mk_and ls) p (TAt body) true = alt_fwd ls (p + lws ls) body.
Proof.
  intros ls p body H. destruct ls as [|l [|y s]]; [congruence| |].
  - cbn [mk_and alt_fwd]. rewrite comp_lit. reflexivity.
  - unfold mk_and. rewrite comp_And. rewrite elen_And, elen_list_lits. apply comp_and_fwd.
Qed.

(* the `or` of the alternatives *)
Lemma elen_list_alts : forall alts, Forall (fun ls => ls <> []) alts -> elen_list true (map mk_and alts) = total_lits alts.
Proof.
  induction alts as [|ls r IH]; intro H; [reflexivity|].
  inversion H as [|? ? Hls Hr]; subst.
  destruct r as [|ls2 r2].
  - cbn [map elen_list total_lits]. rewrite elen_mk_and by assumption. lia.
  - change (map mk_and (ls :: ls2 :: r2)) with (mk_and ls :: mk_and ls2 :: map mk_and r2).
    rewrite elen_list_cons2, elen_mk_and by assumption. change (mk_and ls2 :: map mk_and r2) with (map mk_and (ls2 :: r2)).
    rewrite (IH Hr). reflexivity.
Qed.

Lemma comp_or_alts : forall alts p body, Forall (fun ls => ls <> []) alts ->
  comp_or true TTop (TAt body) false (map mk_and alts) p = dnf_code alts p body.
Proof.
  induction alts as [|ls r IH]; intros p body H; [reflexivity|].
  inversion H as [|? ? Hls Hr]; subst.
  destruct r as [|ls2 r2].
  - cbn [map comp_or dnf_code]. apply comp_mk_and_back. assumption.
  - change (map mk_and (ls :: ls2 :: r2)) with (mk_and ls :: mk_and ls2 :: map mk_and r2).
    rewrite comp_or_cons2. change (mk_and ls2 :: map mk_and r2) with (map mk_and (ls2 :: r2)).
    rewrite comp_mk_and_fwd by assumption. rewrite elen_mk_and by assumption. rewrite (IH _ _ Hr). reflexivity.
Qed.

Lemma comp_dnf : forall alts p, wf_alts alts ->
  comp true (dnf alts) p TTop false = dnf_code alts p (p + total_lits alts).
Proof.
  intros alts p [Hne Hall]. destruct alts as [|ls [|ls2 r]]; [congruence| |].
  - unfold dnf. cbn [map mk_or_of dnf_code]. inversion Hall; subst. apply comp_mk_and_back. assumption.
  - unfold dnf. set (es := map mk_and (ls :: ls2 :: r)).
    assert (Hes : mk_or_of es = Or es) by reflexivity. rewrite Hes. rewrite comp_Or.
    rewrite elen_Or. unfold es. rewrite elen_list_alts by assumption. apply comp_or_alts. assumption.
Qed.
(* ------------------------------------------------------------------ jump threading does nothing without JUMP_FORWARD *)
Definition no_fwd (code : list instr) : Prop := forall t, ~ In (IFwd t) code.

Lemma final_target_no_fwd : forall fuel code t, no_fwd code -> final_target fuel code t = t.
Proof.
  intros fuel code t H. destruct fuel as [|f]; [reflexivity|].
  cbn [final_target]. destruct (nth_error code (t - 2)) as [ins|] eqn:E; [|reflexivity].
  destruct ins; try reflexivity. exfalso. apply (H t0). eapply nth_error_In. exact E.
Qed.

Lemma thread_no_fwd : forall code, no_fwd code -> thread code = code.
Proof.
  intros code H. unfold thread. transitivity (map (fun i : instr => i) code); [|apply map_id]. apply map_ext_in. intros ins Hin.
  destruct (target_of ins) as [t|] eqn:E; [|reflexivity].
  rewrite final_target_no_fwd by assumption.
  destruct ins; try discriminate E; cbn in E; injection E as <-; reflexivity.
Qed.

Lemma no_fwd_app : forall a b, no_fwd a -> no_fwd b -> no_fwd (a ++ b).
Proof. intros a b Ha Hb t Hin. apply in_app_or in Hin. destruct Hin; [eapply Ha | eapply Hb]; eassumption. Qed.


(* facts about the instructions of one literal *)
Lemma lval_facts : forall l x, In x (lval l) -> target_of x = None /\ is_back x = false /\ x <> ICopy /\ (forall t, x <> IFwd t) /\ is_final x = false.
Proof.
  intros [neg n|neg ne a b|isnot a] x H; cbn [lval In] in H;
    repeat (destruct H as [<-|H]; [repeat split; try discriminate; intros; discriminate|]); destruct H.
Qed.

Lemma ljmp_facts : forall l c tg,
  ljmp l c tg <> ICopy /\ (forall t, ljmp l c tg <> IFwd t) /\ is_final (ljmp l c tg) = false /\
  target_of (ljmp l c tg) = (match tg with TTop => None | TAt t => Some t end) /\
  is_back (ljmp l c tg) = (match tg with TTop => true | TAt _ => false end).
Proof. intros [neg n|neg ne a b|isnot a] c [|t]; cbn [ljmp jump_to jump_none_to]; repeat split; try discriminate; intros; discriminate. Qed.

Lemma no_fwd_lval : forall l, no_fwd (lval l).
Proof. intros l t H. destruct (lval_facts l _ H) as [_ [_ [_ [Hf _]]]]. exact (Hf t eq_refl). Qed.

Lemma no_fwd_chain : forall c tg ls, no_fwd (chain_code c tg ls).
Proof.
  induction ls as [|l r IH]; [intros t H; exact H|].
  cbn [chain_code]. apply no_fwd_app; [apply no_fwd_lval|].
  intros t [H|H]; [destruct (ljmp_facts l c tg) as [_ [Hf _]]; exact (Hf t H) | exact (IH t H)].
Qed.

Lemma no_fwd_and_back : forall ls, no_fwd (and_back ls).
Proof. intro ls. rewrite and_back_chain. apply no_fwd_chain. Qed.

Lemma no_fwd_alt_fwd : forall ls a b, no_fwd (alt_fwd ls a b).
Proof.
  induction ls as [|l r IH]; intros a b; [intros t H; exact H|].
  cbn [alt_fwd]. destruct r as [|y s].
  - apply no_fwd_app; [apply no_fwd_lval|]. intros t [H|[]]. destruct (ljmp_facts l true (TAt b)) as [_ [Hf _]]. exact (Hf t H).
  - apply no_fwd_app; [apply no_fwd_lval|]. intros t [H|H]; [destruct (ljmp_facts l false (TAt a)) as [_ [Hf _]]; exact (Hf t H) | exact (IH a b t H)].
Qed.

Lemma no_fwd_dnf_code : forall alts p body, no_fwd (dnf_code alts p body).
Proof.
  induction alts as [|ls r IH]; intros p body; [intros t H; exact H|].
  cbn [dnf_code]. destruct r as [|ls2 r2]; [apply no_fwd_and_back|].
  apply no_fwd_app; [apply no_fwd_alt_fwd | apply IH].
Qed.

Lemma compile_dnf : forall alts, wf_alts alts ->
  compile PFilter (dnf alts) = dnf_code alts 2 (2 + total_lits alts) ++ [ILoadElt; IYield].
Proof.
  intros alts H. unfold compile. change (pos_of 0) with 2. rewrite comp_dnf by assumption.
  apply thread_no_fwd. apply no_fwd_app; [apply no_fwd_dnf_code|].
  intros t [Hin|[Hin|[]]]; discriminate.
Qed.

(* ------------------------------------------------------------------ conditions_end *)
Fixpoint ce_from (l : list instr) (i acc : nat) : nat :=
  match l with [] => acc | x :: r => ce_from r (S i) (if is_back x then pos_of (S i) else acc) end.

Lemma conditions_end_from : forall code, conditions_end code = ce_from code 0 0.
Proof. reflexivity. Qed.

Lemma ce_from_app : forall a b i acc, ce_from (a ++ b) i acc = ce_from b (i + length a) (ce_from a i acc).
Proof.
  induction a as [|x r IH]; intros b i acc; cbn [app ce_from length].
  - rewrite Nat.add_0_r. reflexivity.
  - rewrite IH. f_equal. lia.
Qed.

Lemma ce_from_noback : forall l i acc, (forall x, In x l -> is_back x = false) -> ce_from l i acc = acc.
Proof.
  induction l as [|x r IH]; intros i acc H; [reflexivity|].
  cbn [ce_from]. rewrite (H x (or_introl eq_refl)). apply IH. intros y Hy. apply H. right. exact Hy.
Qed.

Lemma ce_from_lval : forall l i acc, ce_from (lval l) i acc = acc.
Proof. intros l i acc. apply ce_from_noback. intros x Hx. apply (lval_facts l x Hx). Qed.

Lemma ce_from_and_back : forall ls i acc, ls <> [] -> ce_from (and_back ls) i acc = pos_of (i + lws ls).
Proof.
  induction ls as [|l r IH]; intros i acc H; [congruence|].
  cbn [and_back lws]. rewrite ce_from_app, ce_from_lval. cbn [ce_from].
  destruct (ljmp_facts l false TTop) as [_ [_ [_ [_ Hb]]]]. rewrite Hb.
  destruct r as [|y s].
  - cbn [and_back ce_from lws]. f_equal. unfold lw. lia.
  - rewrite IH by discriminate. f_equal. unfold lw. lia.
Qed.

Lemma ce_from_alt_fwd : forall ls a b i acc, ce_from (alt_fwd ls a b) i acc = acc.
Proof.
  induction ls as [|l r IH]; intros a b i acc; [reflexivity|].
  cbn [alt_fwd]. destruct r as [|y s].
  - rewrite ce_from_app, ce_from_lval. cbn [ce_from]. destruct (ljmp_facts l true (TAt b)) as [_ [_ [_ [_ Hb]]]]. rewrite Hb. reflexivity.
  - rewrite ce_from_app, ce_from_lval. cbn [ce_from]. destruct (ljmp_facts l false (TAt a)) as [_ [_ [_ [_ Hb]]]]. rewrite Hb. apply IH.
Qed.

Lemma length_chain : forall c tg ls, length (chain_code c tg ls) = lws ls.
Proof. induction ls as [|l r IH]; [reflexivity|]. cbn [chain_code lws]. rewrite app_length. cbn [length]. rewrite IH. unfold lw. lia. Qed.

Lemma length_and_back : forall ls, length (and_back ls) = lws ls.
Proof. intro ls. rewrite and_back_chain. apply length_chain. Qed.

Lemma length_alt_fwd : forall ls a b, length (alt_fwd ls a b) = lws ls.
Proof.
  induction ls as [|l r IH]; intros a b; [reflexivity|].
  cbn [alt_fwd lws]. destruct r as [|y s].
  - rewrite app_length. cbn [length lws]. unfold lw. lia.
  - rewrite app_length. cbn [length]. rewrite IH. unfold lw. lia.
Qed.

Lemma length_dnf_code : forall alts p body, length (dnf_code alts p body) = total_lits alts.
Proof.
  induction alts as [|ls r IH]; intros p body; [reflexivity|].
  cbn [dnf_code total_lits]. destruct r as [|ls2 r2].
  - rewrite length_and_back. cbn [total_lits]. lia.
  - rewrite app_length, length_alt_fwd, IH. lia.
Qed.

Lemma total_lits_cons : forall ls r, total_lits (ls :: r) = lws ls + total_lits r.
Proof. reflexivity. Qed.

Lemma ce_from_dnf_code : forall alts p body i acc, wf_alts alts ->
  ce_from (dnf_code alts p body) i acc = pos_of (i + total_lits alts).
Proof.
  induction alts as [|ls r IH]; intros p body i acc [Hne Hall]; [congruence|].
  inversion Hall as [|? ? Hls Hr]; subst.
  cbn [dnf_code]. rewrite total_lits_cons. destruct r as [|ls2 r2].
  - rewrite ce_from_and_back by assumption. cbn [total_lits]. f_equal. lia.
  - rewrite ce_from_app, ce_from_alt_fwd, length_alt_fwd.
    rewrite IH by (split; [discriminate|assumption]). f_equal. lia.
Qed.
(* ------------------------------------------------------------------ analyze_jumps *)
Fixpoint jumps_from (l : list instr) (i p : nat) : list nat :=
  match l with
  | [] => []
  | x :: r => match target_of x with
              | Some t => if Nat.eqb t p then pos_of i :: jumps_from r (S i) p else jumps_from r (S i) p
              | None => jumps_from r (S i) p
              end
  end.

Lemma jumps_to_from : forall code p, jumps_to code p = jumps_from code 0 p.
Proof.
  intros code p. unfold jumps_to. generalize 0 as i.
  induction code as [|x r IH]; intro i; [reflexivity|].
  cbn [jumps_from]. rewrite <- IH. reflexivity.
Qed.

Lemma jumps_from_app : forall a b i p, jumps_from (a ++ b) i p = jumps_from a i p ++ jumps_from b (i + length a) p.
Proof.
  induction a as [|x r IH]; intros b i p; cbn [app jumps_from length].
  - rewrite Nat.add_0_r. reflexivity.
  - replace (i + S (length r)) with (S i + length r) by lia.
    destruct (target_of x) as [t|]; [destruct (Nat.eqb t p)|]; rewrite IH; reflexivity.
Qed.

Lemma fold_add_sorted : forall js orj p,
  StronglySorted lt js -> (forall j, In j js -> j <= p) -> (forall o j, In o orj -> In j js -> o < j) ->
  fold_left (add_or_jump p) js orj = rev js ++ orj.
Proof.
  induction js as [|j r IH]; intros orj p Hs Hle Hlt; [reflexivity|].
  inversion Hs as [|? ? Hs' Hall]; subst.
  cbn [fold_left rev]. assert (Hadd : add_or_jump p orj j = j :: orj).
  { unfold add_or_jump. assert (Hj : j <= p) by (apply Hle; left; reflexivity).
    destruct (Nat.ltb p j) eqn:E; [apply Nat.ltb_lt in E; lia|].
    destruct (existsb (fun o => Nat.ltb j o && Nat.ltb o p) orj) eqn:E2; [|reflexivity].
    apply existsb_exists in E2. destruct E2 as [o [Ho Hc]]. apply andb_true_iff in Hc. destruct Hc as [Hc _].
    apply Nat.ltb_lt in Hc. specialize (Hlt o j Ho (or_introl eq_refl)). lia. }
  rewrite Hadd. rewrite IH.
  - rewrite <- app_assoc. reflexivity.
  - assumption.
  - intros j' Hj'. apply Hle. right. assumption.
  - intros o j' [Ho|Ho] Hj'.
    + subst o. rewrite Forall_forall in Hall. apply Hall. assumption.
    + apply Hlt; [assumption | right; assumption].
Qed.

Definition blocked (p : nat) (orj : list nat) (j : nat) : Prop := exists o, In o orj /\ j < o /\ o < p.

Lemma fold_add_blocked : forall js orj p, (forall j, In j js -> blocked p orj j) -> fold_left (add_or_jump p) js orj = orj.
Proof.
  induction js as [|j r IH]; intros orj p H; [reflexivity|].
  cbn [fold_left]. assert (Hadd : add_or_jump p orj j = orj).
  { unfold add_or_jump. destruct (Nat.ltb p j); [reflexivity|].
    destruct (H j (or_introl eq_refl)) as [o [Ho [H1 H2]]].
    assert (E : existsb (fun o => Nat.ltb j o && Nat.ltb o p) orj = true).
    { apply existsb_exists. exists o. split; [assumption|]. apply andb_true_iff. split; apply Nat.ltb_lt; assumption. }
    rewrite E. reflexivity. }
  rewrite Hadd. apply IH. intros j' Hj'. apply H. right. assumption.
Qed.

Lemma analyze_stable : forall code k orj,
  (forall k', k' < k -> forall j, In j (jumps_to code (pos_of k')) -> blocked (pos_of k') orj j) -> analyze code k orj = orj.
Proof.
  induction k as [|k IH]; intros orj H; [reflexivity|].
  cbn [analyze]. rewrite fold_add_blocked by (apply H; lia). apply IH. intros k' Hk. apply H. lia.
Qed.

(* general shape lemma: all or-jumps go to the body; every other forward jump has one of them between itself and its target *)
Lemma or_jumps_body_only : forall code kb es,
  conditions_end code = pos_of kb ->
  jumps_to code (pos_of kb) = es -> StronglySorted lt es -> (forall j, In j es -> j <= pos_of kb) ->
  (forall k', k' < kb -> forall j, In j (jumps_to code (pos_of k')) -> blocked (pos_of k') (rev es) j) ->
  or_jumps code = rev es.
Proof.
  intros code kb es Hce Hes Hs Hle Hbl. unfold or_jumps. rewrite Hce.
  unfold pos_of at 1. replace (kb + 2 =? 0) with false by (symmetry; apply Nat.eqb_neq; lia).
  unfold pos_of. replace (kb + 2 - 2) with kb by lia.
  cbn [analyze]. fold (pos_of kb). rewrite Hes.
  rewrite fold_add_sorted; [|assumption|assumption|intros o j []].
  rewrite app_nil_r. apply analyze_stable. assumption.
Qed.

(* ------------------------------------------------------------------ or_jumps of the DNF stream *)
(* positions of the jumps to the body: the last literal of every alternative but the last *)
(* ------------------------------------------------------------------ or_jumps of the DNF stream *)
(* positions of the jumps to the body: the last instruction of every alternative but the last *)
Fixpoint epos (alts : list (list lit)) (i : nat) : list nat :=
  match alts with
  | [] => []
  | ls :: r => match r with
               | [] => []
               | _ :: _ => pos_of (i + lws ls - 1) :: epos r (i + lws ls)
               end
  end.

Lemma jf_notarget : forall l i p, (forall x, In x l -> target_of x = None) -> jumps_from l i p = [].
Proof.
  induction l as [|x r IH]; intros i p H; [reflexivity|].
  cbn [jumps_from]. rewrite (H x (or_introl eq_refl)). apply IH. intros y Hy. apply H. right. exact Hy.
Qed.

Lemma jf_lval : forall l i p, jumps_from (lval l) i p = [].
Proof. intros l i p. apply jf_notarget. intros x Hx. apply (lval_facts l x Hx). Qed.

Lemma jf_and_back : forall ls i p, jumps_from (and_back ls) i p = [].
Proof.
  induction ls as [|l r IH]; intros i p; [reflexivity|].
  cbn [and_back]. rewrite jumps_from_app, jf_lval. cbn [app jumps_from].
  destruct (ljmp_facts l false TTop) as [_ [_ [_ [Ht _]]]]. rewrite Ht. apply IH.
Qed.

Lemma length_lval_lw : forall l, length (lval l) = lw l - 1.
Proof. intro l. unfold lw. lia. Qed.

Lemma jf_alt_body : forall ls a b i, ls <> [] -> a <> b -> jumps_from (alt_fwd ls a b) i b = [pos_of (i + lws ls - 1)].
Proof.
  induction ls as [|l r IH]; intros a b i H Hab; [congruence|].
  cbn [alt_fwd lws]. destruct r as [|y s].
  - rewrite jumps_from_app, jf_lval. cbn [app jumps_from lws].
    destruct (ljmp_facts l true (TAt b)) as [_ [_ [_ [Ht _]]]]. rewrite Ht, Nat.eqb_refl. do 2 f_equal. unfold lw. lia.
  - rewrite jumps_from_app, jf_lval. cbn [app jumps_from].
    destruct (ljmp_facts l false (TAt a)) as [_ [_ [_ [Ht _]]]]. rewrite Ht.
    replace (a =? b) with false by (symmetry; apply Nat.eqb_neq; assumption).
    rewrite IH by (try discriminate; assumption). do 2 f_equal. pose proof (lws_pos (y :: s) ltac:(discriminate)). unfold lw. lia.
Qed.

Lemma jf_alt_next : forall ls a b i j, a <> b -> In j (jumps_from (alt_fwd ls a b) i a) -> j < pos_of (i + lws ls - 1).
Proof.
  induction ls as [|l r IH]; intros a b i j Hab Hin; [destruct Hin|].
  cbn [alt_fwd lws] in *. destruct r as [|y s].
  - rewrite jumps_from_app, jf_lval in Hin. cbn [app jumps_from] in Hin.
    destruct (ljmp_facts l true (TAt b)) as [_ [_ [_ [Ht _]]]]. rewrite Ht in Hin.
    replace (b =? a) with false in Hin by (symmetry; apply Nat.eqb_neq; congruence). destruct Hin.
  - rewrite jumps_from_app, jf_lval in Hin. cbn [app jumps_from] in Hin.
    destruct (ljmp_facts l false (TAt a)) as [_ [_ [_ [Ht _]]]]. rewrite Ht, Nat.eqb_refl in Hin.
    pose proof (lws_pos (y :: s) ltac:(discriminate)) as Hp.
    destruct Hin as [Hj|Hin].
    + subst j. unfold pos_of, lw. lia.
    + apply (IH a b _ j Hab) in Hin. unfold pos_of, lw in *. lia.
Qed.

Lemma jf_alt_other : forall ls a b i p, p <> a -> p <> b -> jumps_from (alt_fwd ls a b) i p = [].
Proof.
  induction ls as [|l r IH]; intros a b i p Ha Hb; [reflexivity|].
  cbn [alt_fwd]. destruct r as [|y s].
  - rewrite jumps_from_app, jf_lval. cbn [app jumps_from]. destruct (ljmp_facts l true (TAt b)) as [_ [_ [_ [Ht _]]]]. rewrite Ht.
    replace (b =? p) with false by (symmetry; apply Nat.eqb_neq; congruence). reflexivity.
  - rewrite jumps_from_app, jf_lval. cbn [app jumps_from]. destruct (ljmp_facts l false (TAt a)) as [_ [_ [_ [Ht _]]]]. rewrite Ht.
    replace (a =? p) with false by (symmetry; apply Nat.eqb_neq; congruence). apply IH; assumption.
Qed.

Lemma total_lits_pos : forall alts, wf_alts alts -> 2 <= total_lits alts.
Proof.
  intros [|ls r] [Hne Hall]; [congruence|]. inversion Hall; subst. rewrite total_lits_cons. pose proof (lws_pos ls ltac:(assumption)). lia.
Qed.

Lemma epos_bounds : forall alts i e, Forall (fun ls => ls <> []) alts -> In e (epos alts i) ->
  pos_of i < e /\ e < pos_of (i + total_lits alts).
Proof.
  induction alts as [|ls r IH]; intros i e Hall Hin; [destruct Hin|].
  inversion Hall as [|? ? Hls Hr]; subst.
  cbn [epos] in Hin. destruct r as [|ls2 r2]; [destruct Hin|].
  assert (Hl : 2 <= lws ls) by (apply lws_pos; assumption).
  assert (Ht : 2 <= total_lits (ls2 :: r2)) by (apply total_lits_pos; split; [discriminate|assumption]).
  rewrite total_lits_cons.
  destruct Hin as [He|Hin].
  - subst e. unfold pos_of. lia.
  - apply (IH _ _ Hr) in Hin. unfold pos_of in *. lia.
Qed.

Lemma epos_sorted : forall alts i, Forall (fun ls => ls <> []) alts -> StronglySorted lt (epos alts i).
Proof.
  induction alts as [|ls r IH]; intros i Hall; [constructor|].
  inversion Hall as [|? ? Hls Hr]; subst.
  cbn [epos]. destruct r as [|ls2 r2]; [constructor|].
  constructor; [apply IH; assumption|].
  apply Forall_forall. intros e He. apply (epos_bounds _ _ _ Hr) in He. unfold pos_of in *. lia.
Qed.

(* claim A: the jumps to the body; claim B: every other forward jump is blocked by one of them *)
Lemma jf_dnf_body : forall alts i, wf_alts alts ->
  jumps_from (dnf_code alts (pos_of i) (pos_of (i + total_lits alts))) i (pos_of (i + total_lits alts)) = epos alts i.
Proof.
  induction alts as [|ls r IH]; intros i [Hne Hall]; [congruence|].
  inversion Hall as [|? ? Hls Hr]; subst.
  cbn [dnf_code epos]. destruct r as [|ls2 r2]; [apply jf_and_back|].
  assert (Ht : 2 <= total_lits (ls2 :: r2)) by (apply total_lits_pos; split; [discriminate|assumption]).
  rewrite jumps_from_app, length_alt_fwd.
  rewrite jf_alt_body; [|assumption| unfold pos_of; rewrite (total_lits_cons ls); lia].
  cbn [app]. f_equal.
  replace (pos_of i + lws ls) with (pos_of (i + lws ls)) by (unfold pos_of; lia).
  replace (i + total_lits (ls :: ls2 :: r2)) with ((i + lws ls) + total_lits (ls2 :: r2)) by (rewrite (total_lits_cons ls); lia).
  apply IH. split; [discriminate|assumption].
Qed.

Lemma jf_dnf_blocked : forall alts i p j, wf_alts alts -> p < pos_of (i + total_lits alts) ->
  In j (jumps_from (dnf_code alts (pos_of i) (pos_of (i + total_lits alts))) i p) ->
  exists e, In e (epos alts i) /\ j < e /\ e < p.
Proof.
  induction alts as [|ls r IH]; intros i p j [Hne Hall] Hp Hin; [congruence|].
  inversion Hall as [|? ? Hls Hr]; subst.
  cbn [dnf_code] in Hin. destruct r as [|ls2 r2]; [rewrite jf_and_back in Hin; destruct Hin|].
  assert (Ht : 2 <= total_lits (ls2 :: r2)) by (apply total_lits_pos; split; [discriminate|assumption]).
  assert (Hl : 2 <= lws ls) by (apply lws_pos; assumption).
  rewrite jumps_from_app, length_alt_fwd in Hin. apply in_app_or in Hin.
  replace (pos_of i + lws ls) with (pos_of (i + lws ls)) in Hin by (unfold pos_of; lia).
  replace (i + total_lits (ls :: ls2 :: r2)) with ((i + lws ls) + total_lits (ls2 :: r2)) in * by (rewrite (total_lits_cons ls); lia).
  destruct Hin as [Hin|Hin].
  - destruct (Nat.eq_dec p (pos_of (i + lws ls))) as [Hpa|Hpa].
    + subst p. apply jf_alt_next in Hin; [|unfold pos_of; lia].
      exists (pos_of (i + lws ls - 1)). split; [cbn [epos]; left; reflexivity|]. split; [assumption|]. unfold pos_of. lia.
    + rewrite jf_alt_other in Hin; [destruct Hin | assumption | lia].
  - assert (Hwf : wf_alts (ls2 :: r2)) by (split; [discriminate|assumption]).
    destruct (IH (i + lws ls) p j Hwf Hp Hin) as [e [He Hb]].
    exists e. split; [cbn [epos]; right; assumption | assumption].
Qed.

Lemma or_jumps_dnf : forall alts, wf_alts alts ->
  or_jumps (dnf_code alts 2 (2 + total_lits alts) ++ [ILoadElt; IYield]) = rev (epos alts 0).
Proof.
  intros alts H. assert (Hall : Forall (fun ls => ls <> []) alts) by (destruct H; assumption).
  change 2 with (pos_of 0) at 1. replace (2 + total_lits alts) with (pos_of (0 + total_lits alts)) by (unfold pos_of; lia).
  apply (or_jumps_body_only _ (0 + total_lits alts)).
  - rewrite conditions_end_from, ce_from_app, ce_from_dnf_code by assumption. reflexivity.
  - rewrite jumps_to_from, jumps_from_app, jf_dnf_body by assumption. cbn [jumps_from target_of]. apply app_nil_r.
  - apply epos_sorted. assumption.
  - intros j Hj. apply (epos_bounds _ _ _ Hall) in Hj. lia.
  - intros k' Hk j Hj. rewrite jumps_to_from, jumps_from_app in Hj. apply in_app_or in Hj. destruct Hj as [Hj|Hj].
    + apply jf_dnf_blocked in Hj; [|assumption| unfold pos_of; lia].
      destruct Hj as [e [He Hb]]. exists e. split; [apply -> in_rev; assumption | assumption].
    + cbn [jumps_from target_of] in Hj. destruct Hj.
Qed.

(* ------------------------------------------------------------------ the merge loop of process_target on chains of clauses *)
(* value of a literal before its jump, and the node the decompiler makes of the literal *)
Definition dval (l : lit) : dn :=
  match l with
  | Lit _ n => DAtom 0 0 n
  | LCmp _ ne a b => DCmp 0 0 ne (DAtom 0 0 a) (DAtom 0 0 b)
  | LIsN _ a => DAtom 0 0 a
  end.
Definition dlit (l : lit) : dn :=
  match l with
  | Lit false n => DAtom 0 0 n
  | Lit true n => DNot 0 0 (DAtom 0 0 n)
  | LCmp false ne a b => DCmp 0 0 ne (DAtom 0 0 a) (DAtom 0 0 b)
  | LCmp true ne a b => DNot 0 0 (DCmp 0 0 ne (DAtom 0 0 a) (DAtom 0 0 b))
  | LIsN isnot a => DIsNone 0 0 isnot (DAtom 0 0 a)
  end.

(* one-operand clauses as the conditional jumps push them: (identity, operand) in push order *)
Definition cl (o : bool) (t : nat) (l : list (nat * dn)) : list dn := map (fun x => DBool (fst x) t o [snd x]) l.

(* a node that is appended as ONE operand to a clause of kind o *)
Definition plain_for (o : bool) (d : dn) : Prop :=
  simplify d = d /\ is_comp d = false /\ match d with DBool _ _ o' _ => o' <> o | _ => True end.

Lemma simplify_multi : forall i e o x y vs, simplify (DBool i e o (x :: y :: vs)) = DBool i e o (x :: y :: vs).
Proof. intros i e [] x y vs; reflexivity. Qed.

Definition not_lim (lim : option nat) (i : nat) : Prop := match lim with Some j => i <> j | None => True end.

Lemma same_id_not_lim : forall d lim, not_lim lim (id_of d) -> same_id d lim = false.
Proof.
  intros d [j|] H; [|reflexivity]. unfold same_id. cbn in H.
  replace (id_of d =? j) with false by (symmetry; apply Nat.eqb_neq; assumption). reflexivity.
Qed.

(* a clause with at least two operands swallows a chain of one-operand clauses of the same kind below it *)
Lemma merge_chain : forall o t pos lim l i0 e x y vs below ts,
  not_lim lim i0 ->
  (forall k d, In (k, d) (tl l) -> not_lim lim k) ->
  l <> [] ->
  pt_loop false pos lim (DBool i0 e o (x :: y :: vs)) (rev (cl o t l) ++ below) ts =
  pt_loop false pos lim (DBool (fst (hd (0, x) l)) (Nat.max t e) o (map snd l ++ x :: y :: vs)) below ts.
Proof.
  intros o t pos lim l. induction l as [|[k d] r IH] using rev_ind; intros i0 e x y vs below ts Hi0 Hids Hne; [congruence|].
  unfold cl. rewrite map_app, rev_app_distr. cbn [map rev app fst snd].
  cbn [pt_loop]. rewrite simplify_multi. rewrite same_id_not_lim by assumption.
  cbn [is_comp andb]. rewrite Bool.eqb_reflx.
  destruct r as [|[k1 d1] r1].
  - cbn [app hd fst map snd rev ep_of]. reflexivity.
  - assert (Hk : not_lim lim k).
    { apply (Hids k d). cbn [app tl]. apply in_or_app. right. left. reflexivity. }
    fold (cl o t ((k1, d1) :: r1)).
    cbn [ep_of]. change ([d] ++ x :: y :: vs) with (d :: x :: y :: vs).
    rewrite (IH k (Nat.max t e) d x (y :: vs) below ts Hk); [| |discriminate].
    + cbn [app hd]. change ((k1, d1) :: r1 ++ [(k, d)]) with (((k1, d1) :: r1) ++ [(k, d)]). rewrite map_app. cbn [map snd]. rewrite <- app_assoc. cbn [app].
      rewrite Nat.max_assoc, Nat.max_id. reflexivity.
    + intros k' d' Hin. apply (Hids k' d'). cbn [app tl] in *. apply in_or_app. left. assumption.
Qed.

Lemma pt_stop_lim : forall partial pos lim top stk ts,
  simplify top = top -> same_id top lim = true -> pt_loop partial pos lim top stk ts = Some (top :: stk, ts).
Proof. intros partial pos lim top stk ts Hs Hl. destruct stk; cbn [pt_loop]; rewrite Hs, Hl; reflexivity. Qed.

Lemma pt_stop_comp : forall partial pos lim top a b r ts,
  simplify top = top -> same_id top lim = false -> is_comp top = false ->
  pt_loop partial pos lim top (DComp a b :: r) ts = Some (top :: DComp a b :: r, ts).
Proof. intros partial pos lim top a b r ts Hs Hl Hc. cbn [pt_loop]. rewrite Hs, Hl, Hc. reflexivity. Qed.

(* a plain node on top of a chain of one-operand clauses becomes the last operand of the merged clause *)
Lemma merge_first : forall o t pos lim l top below ts,
  plain_for o top -> same_id top lim = false ->
  (forall k d, In (k, d) (tl l) -> not_lim lim k) ->
  l <> [] ->
  pt_loop false pos lim top (rev (cl o t l) ++ below) ts =
  pt_loop false pos lim (DBool (fst (hd (0, top) l)) (Nat.max t (ep_of top)) o (map snd l ++ [top])) below ts.
Proof.
  intros o t pos lim l top below ts [Hs [Hc Hk]] Hl Hids Hne.
  destruct l as [|x0 l0] using rev_ind; [congruence|]. clear IHl0. destruct x0 as [k d].
  unfold cl. rewrite map_app, rev_app_distr. cbn [map rev app fst snd].
  cbn [pt_loop]. rewrite Hs, Hl, Hc. cbn [is_comp andb].
  assert (Hvs : (match top with
                 | DBool _ _ o' vs2 => if Bool.eqb o o' then [d] ++ vs2 else [d] ++ [top]
                 | _ => [d] ++ [top]
                 end) = [d; top]).
  { destruct top; try reflexivity. destruct (Bool.eqb o isor) eqn:E; [|reflexivity].
    apply eqb_prop in E. subst. congruence. }
  rewrite Hvs.
  destruct l0 as [|[k1 d1] r1].
  - cbn [app hd fst map snd rev]. reflexivity.
  - assert (Hk' : not_lim lim k).
    { apply (Hids k d). cbn [app tl]. apply in_or_app. right. left. reflexivity. }
    fold (cl o t ((k1, d1) :: r1)).
    rewrite (merge_chain o t pos lim ((k1, d1) :: r1) k (Nat.max t (ep_of top)) d top [] below ts Hk'); [| |discriminate].
    + cbn [app hd]. change ((k1, d1) :: r1 ++ [(k, d)]) with (((k1, d1) :: r1) ++ [(k, d)]). rewrite map_app. cbn [map snd].
      rewrite <- app_assoc. cbn [app]. rewrite Nat.max_assoc, Nat.max_id. reflexivity.
    + intros k' d' Hin. apply (Hids k' d'). cbn [app tl] in *. apply in_or_app. left. assumption.
Qed.

(* ------------------------------------------------------------------ single machine steps *)
Lemma run_cons : forall orj ce ins rest i s s',
  is_final ins = false -> step orj ce [] ins i s = Some s' -> run orj ce [] (ins :: rest) i s = run orj ce [] rest (S i) s'.
Proof. intros orj ce ins rest i s s' Hf Hs. cbn [run]. rewrite Hf, Hs. reflexivity. Qed.

Lemma step_load : forall orj ce n i s, has_target s (pos_of i) = false -> step orj ce [] (ILoad n) i s = Some (push (DAtom 0 0 n) s).
Proof. intros orj ce n i s H. unfold step. rewrite H. reflexivity. Qed.

Lemma has_target_push : forall d s p, has_target (push d s) p = has_target s p.
Proof. reflexivity. Qed.

(* ------------------------------------------------------------------ the `targets` table *)
Lemma tget_tsetdefault : forall ts t i p,
  tget (tsetdefault ts t i) p = match tget ts p with Some x => Some x | None => if Nat.eqb t p then (match tget ts t with Some y => None | None => Some i end) else None end.
Proof.
  intros ts t i p. unfold tsetdefault. destruct (tget ts t) as [y|] eqn:Et.
  - destruct (tget ts p) eqn:Ep; [reflexivity|]. destruct (Nat.eqb t p) eqn:E; reflexivity.
  - induction ts as [|[q j] r IH]; cbn [app tget].
    + rewrite Nat.eqb_sym. destruct (Nat.eqb t p); reflexivity.
    + cbn [tget] in Et. destruct (Nat.eqb q t) eqn:Eq; [discriminate|].
      destruct (Nat.eqb q p); [reflexivity|]. apply IH. assumption.
Qed.

Lemma has_target_setdefault : forall stk ts n t i p, t <> p ->
  has_target (mkState stk (tsetdefault ts t i) n) p = has_target (mkState stk ts n) p.
Proof.
  intros stk ts n t i p H. unfold has_target. cbn [targets]. rewrite tget_tsetdefault.
  destruct (tget ts p); [reflexivity|]. replace (t =? p) with false by (symmetry; apply Nat.eqb_neq; assumption). reflexivity.
Qed.

Lemma tsetdefault_present : forall ts t i x, tget ts t = Some x -> tsetdefault ts t i = ts.
Proof. intros ts t i x H. unfold tsetdefault. rewrite H. reflexivity. Qed.

Lemma tget_tsetdefault_same : forall ts t i, tget ts t = None -> tget (tsetdefault ts t i) t = Some i.
Proof. intros ts t i H. rewrite tget_tsetdefault, H, Nat.eqb_refl. reflexivity. Qed.

Lemma tget_tdel_same : forall ts t, tget (tdel ts t) t = None.
Proof.
  induction ts as [|[q j] r IH]; intro t; [reflexivity|].
  cbn [tdel]. destruct (Nat.eqb q t) eqn:E; [apply IH|]. cbn [tget]. rewrite E. apply IH.
Qed.

Lemma tget_tdel_other : forall ts t p, t <> p -> tget (tdel ts t) p = tget ts p.
Proof.
  induction ts as [|[q j] r IH]; intros t p H; [reflexivity|].
  cbn [tdel tget]. destruct (Nat.eqb q t) eqn:E.
  - apply Nat.eqb_eq in E. subst q. replace (t =? p) with false by (symmetry; apply Nat.eqb_neq; assumption). apply IH. assumption.
  - cbn [tget]. destruct (Nat.eqb q p); [reflexivity|]. apply IH. assumption.
Qed.

Lemma tdel_absent : forall ts t, tget ts t = None -> tdel ts t = ts.
Proof.
  induction ts as [|[q j] r IH]; intros t H; [reflexivity|].
  cbn [tget] in H. cbn [tdel]. destruct (Nat.eqb q t); [discriminate|]. f_equal. apply IH. assumption.
Qed.

Lemma tdel_tsetdefault : forall ts t i, tget ts t = None -> tdel (tsetdefault ts t i) t = ts.
Proof.
  intros ts t i H. unfold tsetdefault. rewrite H.
  induction ts as [|[q j] r IH]; cbn [app tdel].
  - rewrite Nat.eqb_refl. reflexivity.
  - cbn [tget] in H. destruct (Nat.eqb q t); [discriminate|]. f_equal. apply IH. assumption.
Qed.

Definition chain_items (id0 : nat) (ls : list lit) : list (nat * dn) := combine (seq id0 (length ls)) (map dlit ls).

Lemma chain_items_cons : forall id0 l r, chain_items id0 (l :: r) = (id0, dlit l) :: chain_items (S id0) r.
Proof. reflexivity. Qed.

Lemma map_snd_chain_items : forall ls id0, map snd (chain_items id0 ls) = map dlit ls.
Proof. induction ls as [|l r IH]; intro id0; [reflexivity|]. rewrite chain_items_cons. cbn [map snd]. rewrite IH. reflexivity. Qed.

Lemma chain_items_ids : forall ls id0 k d, In (k, d) (chain_items id0 ls) -> id0 <= k < id0 + length ls.
Proof.
  induction ls as [|l r IH]; intros id0 k d H; [destruct H|].
  rewrite chain_items_cons in H. destruct H as [H|H].
  - injection H as <- _. cbn [length]. lia.
  - apply IH in H. cbn [length]. lia.
Qed.

(* ------------------------------------------------------------------ one literal: its value, then its jump *)
Definition tpos (tg : tgt) : nat := match tg with TTop => TOP | TAt t => t end.

Lemma step_cmp : forall orj ce ne i a b s, has_target s (pos_of i) = false ->
  step orj ce [] (ICmp ne) i (push b (push a s)) = Some (push (DCmp 0 0 ne a b) s).
Proof.
  intros orj ce ne i a b s H. unfold step. rewrite !has_target_push, H. cbn [pop push stack targets nextid].
  destruct s; reflexivity.
Qed.

Lemma run_lval : forall orj ce l rest i s,
  (forall k, k < length (lval l) -> has_target s (pos_of (i + k)) = false) ->
  run orj ce [] (lval l ++ rest) i s = run orj ce [] rest (i + length (lval l)) (push (dval l) s).
Proof.
  intros orj ce l rest i s H.
  assert (H0 : has_target s (pos_of i) = false) by (rewrite <- (Nat.add_0_r i); apply H; destruct l; cbn; lia).
  destruct l as [neg n|neg ne a b|isnot a]; cbn [lval app length dval].
  - rewrite (run_cons orj ce (ILoad n) _ i s _ eq_refl (step_load orj ce n i s H0)). f_equal. lia.
  - assert (H1 : has_target s (pos_of (S i)) = false) by (replace (S i) with (i + 1) by lia; apply H; cbn; lia).
    assert (H2 : has_target s (pos_of (S (S i))) = false) by (replace (S (S i)) with (i + 2) by lia; apply H; cbn; lia).
    rewrite (run_cons orj ce (ILoad a) _ i s _ eq_refl (step_load orj ce a i s H0)).
    rewrite (run_cons orj ce (ILoad b) _ (S i) _ _ eq_refl (step_load orj ce b (S i) (push (DAtom 0 0 a) s) H1)).
    rewrite (run_cons orj ce (ICmp ne) _ (S (S i)) _ _ eq_refl (step_cmp orj ce ne (S (S i)) _ _ s H2)).
    f_equal. lia.
  - rewrite (run_cons orj ce (ILoad a) _ i s _ eq_refl (step_load orj ce a i s H0)). f_equal. lia.
Qed.

(* the conditional jump of a literal, classified OR when it jumps on true and is an or-jump, AND when it jumps on false
   and is none; whatever is pending at the next position is merged first (conditional_jump_new / _none_impl) *)
Lemma lit_jump : forall orj ce l c tg q s e2 stk' ts',
  has_target s (pos_of q) = false -> Nat.leb ce (pos_of q) = false -> existsb (Nat.eqb (pos_of q)) orj = c ->
  (if has_target s (pos_of (S q)) then process_target false (pos_of (S q)) (push (dlit l) s) else Some (push (dlit l) s))
    = Some (mkState (e2 :: stk') ts' (nextid s)) ->
  step orj ce [] (ljmp l c tg) q (push (dval l) s) =
  Some (mkState (DBool (nextid s) (tpos tg) c [e2] :: stk') (tsetdefault ts' (tpos tg) (nextid s)) (S (nextid s))).
Proof.
  intros orj ce l c tg q s e2 stk' ts' Hnt Hce Horj Hpt.
  assert (Hlt : Nat.ltb (pos_of q) ce = true) by (apply Nat.ltb_lt; apply Nat.leb_gt in Hce; exact Hce).
  assert (Hs : {| stack := stack s; targets := targets s; nextid := nextid s |} = s) by (destruct s; reflexivity).
  unfold step. rewrite has_target_push, Hnt.
  destruct l as [neg n|neg ne a b|isnot a]; destruct tg as [|t]; cbn [ljmp jump_to jump_none_to tpos dval dlit] in *;
    unfold cond_jump; cbn [pop push stack targets nextid]; rewrite ?Hs, ?Hce, ?Hlt, Horj; cbn [existsb orb negb];
    destruct c; try destruct neg; try destruct isnot; cbn [negb];
    match goal with |- context [has_target ?x (pos_of (S q))] => change (has_target x (pos_of (S q))) with (has_target s (pos_of (S q))) end;
    cbn [push] in Hpt; rewrite Hpt; reflexivity.
Qed.

(* the common case: nothing pending at the next position *)
Lemma lit_jump_plain : forall orj ce l c tg q s,
  has_target s (pos_of q) = false -> has_target s (pos_of (S q)) = false ->
  Nat.leb ce (pos_of q) = false -> existsb (Nat.eqb (pos_of q)) orj = c ->
  step orj ce [] (ljmp l c tg) q (push (dval l) s) =
  Some (mkState (DBool (nextid s) (tpos tg) c [dlit l] :: stack s) (tsetdefault (targets s) (tpos tg) (nextid s)) (S (nextid s))).
Proof.
  intros orj ce l c tg q s H0 H1 Hce Horj. apply lit_jump; try assumption. rewrite H1. destruct s; reflexivity.
Qed.

(* ------------------------------------------------------------------ a run of literals jumping on the same value to one target *)
Lemma run_chain : forall orj ce c tg ls rest i s,
  (forall k, k <= lws ls -> has_target s (pos_of (i + k)) = false) ->
  (forall k, k <= lws ls -> tpos tg <> pos_of (i + k)) ->
  (forall k, k < lws ls -> Nat.leb ce (pos_of (i + k)) = false) ->
  (forall pre l post, ls = pre ++ l :: post -> existsb (Nat.eqb (pos_of (i + lws pre + length (lval l)))) orj = c) ->
  run orj ce [] (chain_code c tg ls ++ rest) i s =
  run orj ce [] rest (i + lws ls)
      (mkState (rev (cl c (tpos tg) (chain_items (nextid s) ls)) ++ stack s)
               (match ls with [] => targets s | _ => tsetdefault (targets s) (tpos tg) (nextid s) end)
               (nextid s + length ls)).
Proof.
  intros orj ce c tg ls. induction ls as [|l r IH]; intros rest i s Hnt Htt Hce Horj.
  - cbn [chain_code app length chain_items combine seq map cl rev lws]. rewrite !Nat.add_0_r. destruct s; reflexivity.
  - cbn [chain_code lws] in *. rewrite <- app_assoc. cbn [app].
    assert (Hlw : lw l = length (lval l) + 1) by reflexivity.
    rewrite run_lval by (intros k Hk; apply Hnt; lia).
    set (q := i + length (lval l)).
    assert (Hstep : step orj ce [] (ljmp l c tg) q (push (dval l) s) =
                    Some (mkState (DBool (nextid s) (tpos tg) c [dlit l] :: stack s) (tsetdefault (targets s) (tpos tg) (nextid s)) (S (nextid s)))).
    { apply lit_jump_plain.
      - apply Hnt. lia.
      - replace (S q) with (i + lw l) by (unfold q; lia). apply Hnt. lia.
      - apply Hce. pose proof (lw_pos l). lia.
      - specialize (Horj [] l r eq_refl). cbn [lws] in Horj. rewrite Nat.add_0_r in Horj. exact Horj. }
    destruct (ljmp_facts l c tg) as [_ [_ [Hfin _]]].
    rewrite (run_cons orj ce (ljmp l c tg) _ q _ _ Hfin Hstep).
    replace (S q) with (i + lw l) by (unfold q; lia).
    rewrite IH.
    + cbn [stack targets nextid length]. f_equal; [lia|].
      rewrite chain_items_cons. unfold cl. cbn [map rev fst snd]. rewrite <- app_assoc. cbn [app].
      f_equal.
      * destruct r as [|l2 r2]; [reflexivity|].
        assert (Hg : tget (targets s) (tpos tg) = None \/ exists x, tget (targets s) (tpos tg) = Some x)
          by (destruct (tget (targets s) (tpos tg)); [right; eexists; reflexivity | left; reflexivity]).
        destruct Hg as [Hg|[x Hg]].
        -- apply (tsetdefault_present _ _ _ (nextid s)). apply tget_tsetdefault_same. assumption.
        -- rewrite (tsetdefault_present _ _ _ _ Hg). apply (tsetdefault_present _ _ _ _ Hg).
      * lia.
    + intros k Hk. cbn [stack targets nextid]. rewrite has_target_setdefault.
      * replace (i + lw l + k) with (i + (lw l + k)) by lia. unfold has_target in *. cbn [targets] in *. apply Hnt. lia.
      * replace (i + lw l + k) with (i + (lw l + k)) by lia. apply Htt. lia.
    + intros k Hk. replace (i + lw l + k) with (i + (lw l + k)) by lia. apply Htt. lia.
    + intros k Hk. replace (i + lw l + k) with (i + (lw l + k)) by lia. apply Hce. lia.
    + intros pre l0 post Heq. specialize (Horj (l :: pre) l0 post). cbn [app lws] in Horj.
      replace (i + lw l + lws pre + length (lval l0)) with (i + (lw l + lws pre) + length (lval l0)) by lia.
      apply Horj. rewrite Heq. reflexivity.
Qed.

Lemma process_target_lim : forall pos s top stk lim,
  stack s = top :: stk -> pos <> 0 -> tget (targets s) pos = Some lim ->
  process_target false pos s =
  match pt_loop false pos (Some lim) top stk (tdel (targets s) pos) with
  | Some (stk', ts') => Some (mkState stk' ts' (nextid s))
  | None => None
  end.
Proof.
  intros pos s top stk lim Hst Hpos Hl. unfold process_target. rewrite Hst, Hl.
  replace (pos =? 0) with false by (symmetry; apply Nat.eqb_neq; assumption). reflexivity.
Qed.

Lemma alt_fwd_snoc : forall ls0 l a b,
  alt_fwd (ls0 ++ [l]) a b = chain_code false (TAt a) ls0 ++ lval l ++ [ljmp l true (TAt b)].
Proof.
  induction ls0 as [|l0 r IH]; intros l a b; [reflexivity|].
  cbn [app alt_fwd chain_code]. destruct (r ++ [l]) eqn:E; [destruct r; discriminate|].
  rewrite <- E, IH. rewrite <- app_assoc. reflexivity.
Qed.

Lemma plain_dlit : forall o l, plain_for o (dlit l).
Proof. intros o [[] n|[] ne a b|isnot a]; repeat split. Qed.

Lemma same_id_dlit : forall l lim, same_id (dlit l) lim = false.
Proof. intros [[] n|[] ne a b|isnot a] [j|]; try reflexivity; unfold same_id; cbn [dlit id_of]; destruct j; reflexivity. Qed.

Lemma ep_dlit : forall l, ep_of (dlit l) = 0.
Proof. intros [[] n|[] ne a b|isnot a]; reflexivity. Qed.

(* the node an alternative decompiles to *)
Definition alt_node (id0 t : nat) (ls : list lit) : dn :=
  match ls with [l] => dlit l | _ => DBool id0 t false (map dlit ls) end.

Lemma hd_chain_items : forall id0 ls d0, ls <> [] -> fst (hd d0 (chain_items id0 ls)) = id0.
Proof. intros id0 [|l r] d0 H; [congruence|]. reflexivity. Qed.

(* scenario 1: an alternative that is not the last one *)
Lemma run_alt : forall orj ce ls body rest i s,
  ls <> [] -> 1 <= nextid s ->
  (forall k, k <= lws ls -> has_target s (pos_of (i + k)) = false) ->
  (forall k, k <= lws ls -> body <> pos_of (i + k)) ->
  (forall k, k < lws ls -> Nat.leb ce (pos_of (i + k)) = false) ->
  (forall k, k + 1 < lws ls -> existsb (Nat.eqb (pos_of (i + k))) orj = false) ->
  existsb (Nat.eqb (pos_of (i + lws ls - 1))) orj = true ->
  run orj ce [] (alt_fwd ls (pos_of (i + lws ls)) body ++ rest) i s =
  run orj ce [] rest (i + lws ls)
      (mkState (DBool (nextid s + length ls - 1) body true [alt_node (nextid s) (pos_of (i + lws ls)) ls] :: stack s)
               (tsetdefault (targets s) body (nextid s + length ls - 1))
               (nextid s + length ls)).
Proof.
  intros orj ce ls body rest i s Hne Hid Hnt Hbody Hce Hand Hor.
  destruct (exists_last Hne) as [ls0 [l Hls]]. subst ls.
  rewrite app_length, lws_app in *. cbn [length lws] in *. rewrite Nat.add_0_r in *.
  assert (Hlw : lw l = length (lval l) + 1) by reflexivity.
  set (nextalt := pos_of (i + (lws ls0 + lw l))) in *.
  rewrite alt_fwd_snoc, <- app_assoc.
  rewrite run_chain.
  2:{ intros k Hk. apply Hnt. lia. }
  2:{ intros k Hk. cbn [tpos]. unfold nextalt, pos_of. lia. }
  2:{ intros k Hk. apply Hce. lia. }
  2:{ intros pre l0 post Heq. replace (i + lws pre + length (lval l0)) with (i + (lws pre + length (lval l0))) by lia.
      apply Hand. rewrite Heq, lws_app. cbn [lws]. unfold lw. lia. }
  cbn [tpos].
  set (s1 := {| stack := rev (cl false nextalt (chain_items (nextid s) ls0)) ++ stack s;
                targets := match ls0 with [] => targets s | _ :: _ => tsetdefault (targets s) nextalt (nextid s) end;
                nextid := nextid s + length ls0 |}).
  set (i1 := i + lws ls0).
  assert (Hnt1 : forall k, k < lw l -> has_target s1 (pos_of (i1 + k)) = false).
  { intros k Hk. unfold s1. destruct ls0 as [|l0 r0].
    - unfold has_target in *. cbn [targets] in *. unfold i1. rewrite <- Nat.add_assoc. apply Hnt. lia.
    - rewrite has_target_setdefault.
      + unfold has_target in *. cbn [targets] in *. unfold i1. rewrite <- Nat.add_assoc. apply Hnt. lia.
      + unfold nextalt, i1, pos_of. lia. }
  rewrite <- app_assoc. rewrite run_lval by (intros k Hk; apply Hnt1; lia).
  set (q := i1 + length (lval l)).
  assert (Hq : S q = i + (lws ls0 + lw l)) by (unfold q, i1; lia).
  assert (Hstep : step orj ce [] (ljmp l true (TAt body)) q (push (dval l) s1) =
                  Some (mkState (DBool (nextid s + (length ls0 + 1) - 1) body true [alt_node (nextid s) nextalt (ls0 ++ [l])] :: stack s)
                                (tsetdefault (targets s) body (nextid s + (length ls0 + 1) - 1))
                                (nextid s + (length ls0 + 1)))).
  { replace (nextid s + (length ls0 + 1) - 1) with (nextid s1) by (unfold s1; cbn [nextid]; lia).
    replace (nextid s + (length ls0 + 1)) with (S (nextid s1)) by (unfold s1; cbn [nextid]; lia).
    apply (lit_jump orj ce l true (TAt body) q s1).
    - unfold q. apply Hnt1. lia.
    - replace q with (i + (lws ls0 + length (lval l))) by (unfold q, i1; lia). apply Hce. lia.
    - replace q with (i + (lws ls0 + lw l) - 1) by (unfold q, i1; lia). exact Hor.
    - rewrite Hq. fold nextalt.
      destruct ls0 as [|l0 r0].
      + (* width 1: nothing pending at the next alternative *)
        assert (Hno : has_target s1 nextalt = false).
        { unfold s1. unfold has_target in *. cbn [targets] in *. unfold nextalt. apply Hnt. cbn [lws]. lia. }
        rewrite Hno. unfold s1. cbn [push stack targets nextid chain_items length seq map combine cl rev app alt_node]. reflexivity.
      + (* width >= 2: the pending `and` clauses are merged into the first one, which becomes the operand *)
        assert (Hnone : tget (targets s) nextalt = None).
        { specialize (Hnt (lws (l0 :: r0) + lw l) (le_n _)). unfold has_target in Hnt. fold nextalt in Hnt.
          destruct (tget (targets s) nextalt); [discriminate|reflexivity]. }
        assert (Hyes : tget (targets s1) nextalt = Some (nextid s)).
        { unfold s1. cbn [targets]. apply tget_tsetdefault_same. assumption. }
        assert (Hht : has_target s1 nextalt = true) by (unfold has_target; rewrite Hyes; reflexivity).
        rewrite Hht.
        rewrite (process_target_lim nextalt (push (dlit l) s1) (dlit l) (stack s1) (nextid s) eq_refl
                   ltac:(unfold nextalt, pos_of; lia) Hyes).
        cbn [push targets nextid stack]. unfold s1 at 1 2. cbn [stack targets nextid].
        rewrite tdel_tsetdefault by assumption.
        rewrite merge_first; [| apply plain_dlit | apply same_id_dlit | | discriminate].
        * rewrite hd_chain_items by discriminate. rewrite map_snd_chain_items.
          rewrite ep_dlit, Nat.max_0_r.
          rewrite pt_stop_lim.
          -- unfold s1. cbn [nextid]. cbn [alt_node app map].
             destruct (r0 ++ [l]) eqn:E; [destruct r0; discriminate|]. rewrite <- E.
             rewrite map_app. reflexivity.
          -- cbn [map app]. destruct (map dlit r0 ++ [dlit l]) eqn:E; [destruct r0; discriminate|]. apply simplify_multi.
          -- unfold same_id. cbn [id_of]. rewrite Nat.eqb_refl. destruct (nextid s); [lia|reflexivity].
        * intros k d Hin. rewrite chain_items_cons in Hin. cbn [tl] in Hin. apply chain_items_ids in Hin. cbn [not_lim]. lia. }
  destruct (ljmp_facts l true (TAt body)) as [_ [_ [Hfin _]]].
  cbn [app].
  rewrite (run_cons orj ce (ljmp l true (TAt body)) _ q _ _ Hfin Hstep).
  f_equal. lia.
Qed.

(* ------------------------------------------------------------------ the end of the stream: LOAD_FAST x ; YIELD_VALUE *)
Lemma pt_loop_simplify : forall partial pos lim top stk ts,
  simplify (simplify top) = simplify top -> pt_loop partial pos lim top stk ts = pt_loop partial pos lim (simplify top) stk ts.
Proof. intros partial pos lim top stk ts H. destruct stk; cbn [pt_loop]; rewrite H; reflexivity. Qed.

Lemma run_elt_yield : forall orj ce i s final ts n,
  has_target s (pos_of i) = false -> has_target s (pos_of (S i)) = false ->
  2 <= length (stack s) ->
  process_target false 0 s = Some (mkState [final; DComp 0 0] ts n) -> is_comp final = false ->
  run orj ce [] [ILoadElt; IYield] i s = RGen (DElt 0 0) [[final]].
Proof.
  intros orj ce i s final ts n H0 H1 Hlen Hpt Hc.
  assert (Hstep : step orj ce [] ILoadElt i s = Some (push (DElt 0 0) s)) by (unfold step; rewrite H0; reflexivity).
  rewrite (run_cons orj ce ILoadElt _ i s _ eq_refl Hstep).
  cbn [run is_final]. unfold finish. rewrite has_target_push, H1.
  cbn [pop push stack targets nextid].
  assert (Hs : {| stack := stack s; targets := targets s; nextid := nextid s |} = s) by (destruct s; reflexivity).
  rewrite Hs.
  destruct (stack s) as [|a [|b r]] eqn:Est; cbn [length] in Hlen; try lia.
  cbn [length yield_loop]. rewrite Est. rewrite Hpt.
  cbn [pop stack targets nextid]. rewrite Hc. cbn [is_comp]. reflexivity.
Qed.

Definition lit_pt (l : lit) : ptree :=
  match l with
  | Lit false n => PAtom n
  | Lit true n => PNot (PAtom n)
  | LCmp false ne a b => PCmp ne (PAtom a) (PAtom b)
  | LCmp true ne a b => PNot (PCmp ne (PAtom a) (PAtom b))
  | LIsN isnot a => PIsNone isnot (PAtom a)
  end.
Definition alt_pt (ls : list lit) : ptree := match ls with [l] => lit_pt l | _ => PBool false (map lit_pt ls) end.

Lemma strip_dlit : forall l, strip (dlit l) = lit_pt l.
Proof. intros [[] n|[] ne a b|isnot a]; reflexivity. Qed.
Lemma strip_set_ep : forall d e0, strip (set_ep d e0) = strip d.
Proof. intros [] e0; reflexivity. Qed.
Lemma map_strip_dlit : forall ls, map strip (map dlit ls) = map lit_pt ls.
Proof. intros ls. rewrite map_map. apply map_ext. apply strip_dlit. Qed.

Lemma strip_alt_node : forall id0 t ls, strip (alt_node id0 t ls) = alt_pt ls.
Proof.
  intros id0 t [|l [|l2 r]]; cbn [alt_node alt_pt strip]; try rewrite map_strip_dlit; try reflexivity. apply strip_dlit.
Qed.

Lemma combine_app' : forall (A B : Type) (a b : list A) (c d : list B),
  length a = length c -> combine (a ++ b) (c ++ d) = combine a c ++ combine b d.
Proof.
  induction a as [|x r IH]; intros b [|y s] d H; try discriminate H; [reflexivity|].
  cbn [app combine]. f_equal. apply IH. injection H as H. exact H.
Qed.

Lemma chain_items_snoc : forall id0 ls l, chain_items id0 (ls ++ [l]) = chain_items id0 ls ++ [(id0 + length ls, dlit l)].
Proof.
  intros id0 ls l. unfold chain_items. rewrite app_length, seq_app, map_app. cbn [length seq map].
  rewrite combine_app' by (rewrite seq_length, map_length; reflexivity). reflexivity.
Qed.

(* the last operand of a chain of `and` clauses pending at the loop top, once simplified *)
Definition top_lit (l : lit) : dn := set_ep (dlit l) TOP.

Lemma top_lit_facts : forall l k,
  simplify (DBool k TOP false [dlit l]) = top_lit l /\ plain_for false (top_lit l) /\
  (forall lim, same_id (top_lit l) lim = false) /\ strip (top_lit l) = lit_pt l.
Proof.
  intros l k. unfold top_lit. split; [|split; [|split]].
  - cbn [simplify]. rewrite ep_dlit. reflexivity.
  - destruct l as [[] n|[] ne a b|isnot a]; repeat split.
  - intros [j|]; [|reflexivity]. destruct l as [[] n|[] ne a b|isnot a]; unfold same_id; cbn [dlit set_ep id_of]; destruct j; reflexivity.
  - rewrite strip_set_ep. apply strip_dlit.
Qed.

(* scenario 3: the only alternative (a plain `and` of literals, or one literal) *)
Lemma run_single : forall orj ce ls i s,
  ls <> [] -> 1 <= nextid s -> stack s = [DComp 0 0] -> targets s = [] ->
  (forall k, k < lws ls -> Nat.leb ce (pos_of (i + k)) = false /\ existsb (Nat.eqb (pos_of (i + k))) orj = false) ->
  exists final, run orj ce [] (and_back ls ++ [ILoadElt; IYield]) i s = RGen (DElt 0 0) [[final]] /\ strip final = alt_pt ls.
Proof.
  intros orj ce ls i s Hne Hid Hst Hts Hcl.
  rewrite and_back_chain. rewrite run_chain.
  2:{ intros k Hk. unfold has_target. rewrite Hts. reflexivity. }
  2:{ intros k Hk. cbn [tpos]. unfold TOP, pos_of. lia. }
  2:{ intros k Hk. apply Hcl. exact Hk. }
  2:{ intros pre l post Heq. replace (i + lws pre + length (lval l)) with (i + (lws pre + length (lval l))) by lia.
      apply Hcl. rewrite Heq, lws_app. cbn [lws]. unfold lw. lia. }
  cbn [tpos]. rewrite Hst, Hts.
  destruct (exists_last Hne) as [ls0 [l Hls]]. subst ls.
  set (s1 := {| stack := _; targets := _; nextid := _ |}).
  assert (Hts1 : targets s1 = [(TOP, nextid s)]).
  { unfold s1. cbn [targets]. destruct (ls0 ++ [l]) eqn:E; [destruct ls0; discriminate|]. reflexivity. }
  assert (Hnt : forall p, 2 <= p -> has_target s1 p = false).
  { intros p Hp. unfold has_target. rewrite Hts1. cbn [tget]. unfold TOP. destruct p as [|[|p]]; try lia. reflexivity. }
  assert (Hstk : stack s1 = DBool (nextid s + length ls0) TOP false [dlit l] :: rev (cl false TOP (chain_items (nextid s) ls0)) ++ [DComp 0 0]).
  { unfold s1. cbn [stack]. rewrite chain_items_snoc. unfold cl. rewrite map_app, rev_app_distr. reflexivity. }
  destruct (top_lit_facts l (nextid s + length ls0)) as [Hsimp [Hplain [Hsid Hstrip]]].
  set (top' := top_lit l) in *.
  destruct ls0 as [|l0 r0].
  - (* one literal *)
    exists top'. split.
    + eapply run_elt_yield.
      * apply Hnt. unfold pos_of. lia.
      * apply Hnt. unfold pos_of. lia.
      * rewrite Hstk. cbn [length app rev cl chain_items map combine seq]. lia.
      * unfold process_target. rewrite Hstk. cbn [Nat.eqb orb].
        rewrite pt_loop_simplify; rewrite Hsimp; [|destruct Hplain as [H _]; exact H].
        cbn [app rev cl chain_items map combine seq length].
        rewrite pt_stop_comp; [reflexivity | destruct Hplain as [H _]; exact H | apply Hsid | destruct Hplain as [_ [H _]]; exact H].
      * destruct Hplain as [_ [H _]]; exact H.
    + exact Hstrip.
  - (* an `and` of at least two literals *)
    exists (DBool (nextid s) (Nat.max TOP (ep_of top')) false (map dlit (l0 :: r0) ++ [top'])). split.
    + eapply run_elt_yield.
      * apply Hnt. unfold pos_of. lia.
      * apply Hnt. unfold pos_of. lia.
      * rewrite Hstk. cbn [length]. rewrite app_length. cbn [length]. lia.
      * unfold process_target. rewrite Hstk. cbn [Nat.eqb orb].
        rewrite pt_loop_simplify; rewrite Hsimp; [|destruct Hplain as [H _]; exact H].
        rewrite merge_first; [|assumption|apply Hsid|intros; exact I|discriminate].
        rewrite hd_chain_items by discriminate. rewrite map_snd_chain_items.
        rewrite pt_stop_comp; [reflexivity| | reflexivity | reflexivity].
        cbn [map app]. destruct (map dlit r0 ++ [top']) eqn:E; [destruct r0; discriminate|]. apply simplify_multi.
      * reflexivity.
    + cbn [strip]. rewrite map_app, map_strip_dlit. cbn [map]. rewrite Hstrip.
      unfold alt_pt. destruct ((l0 :: r0) ++ [l]) as [|x [|y z]] eqn:E.
      * discriminate.
      * destruct r0; discriminate.
      * rewrite <- E. rewrite map_app. reflexivity.
Qed.

(* scenario 2: the last alternative when earlier alternatives have left their `or` clauses pending at the body *)
Lemma run_last : forall orj ce ls i s ors k1 d1 orest,
  ls <> [] -> ors = (k1, d1) :: orest -> 1 <= k1 -> k1 < nextid s ->
  (forall k d, In (k, d) orest -> k <> k1) ->
  stack s = rev (cl true (pos_of (i + lws ls)) ors) ++ [DComp 0 0] ->
  targets s = [(pos_of (i + lws ls), k1)] ->
  ce = pos_of (i + lws ls) ->
  (forall k, k < lws ls -> existsb (Nat.eqb (pos_of (i + k))) orj = false) ->
  exists final, run orj ce [] (and_back ls ++ [ILoadElt; IYield]) i s = RGen (DElt 0 0) [[final]] /\
                strip final = PBool true (map strip (map snd ors) ++ [alt_pt ls]).
Proof.
  intros orj ce ls i s ors k1 d1 orest Hne Hors Hk1 Hk1n Hrest Hst Hts Hce Horj.
  destruct (exists_last Hne) as [ls0 [l Hls]]. subst ls.
  rewrite ?lws_app in *. cbn [lws] in *. rewrite ?Nat.add_0_r in *.
  assert (Hlw : lw l = length (lval l) + 1) by reflexivity.
  set (body := pos_of (i + (lws ls0 + lw l))) in *.
  rewrite and_back_chain.
  assert (Hcc : chain_code false TTop (ls0 ++ [l]) = chain_code false TTop ls0 ++ lval l ++ [ljmp l false TTop]).
  { clear. induction ls0 as [|a r IH]; [reflexivity|]. cbn [app chain_code]. rewrite IH, <- app_assoc. reflexivity. }
  rewrite Hcc, <- !app_assoc.
  assert (Hleb : forall k, k < lws ls0 + lw l -> Nat.leb ce (pos_of (i + k)) = false).
  { intros k Hk. apply Nat.leb_gt. rewrite Hce. unfold body, pos_of. lia. }
  rewrite run_chain.
  2:{ intros k Hk. unfold has_target. rewrite Hts. cbn [tget].
      replace (body =? pos_of (i + k)) with false by (symmetry; apply Nat.eqb_neq; unfold body, pos_of; lia). reflexivity. }
  2:{ intros k Hk. cbn [tpos]. unfold TOP, pos_of. lia. }
  2:{ intros k Hk. apply Hleb. lia. }
  2:{ intros pre l0 post Heq. replace (i + lws pre + length (lval l0)) with (i + (lws pre + length (lval l0))) by lia.
      apply Horj. rewrite Heq, lws_app. cbn [lws]. unfold lw. lia. }
  cbn [tpos]. rewrite Hst, Hts.
  set (s1 := {| stack := _; targets := _; nextid := _ |}).
  set (i1 := i + lws ls0).
  assert (Hb_top : (body =? TOP) = false) by (apply Nat.eqb_neq; unfold body, TOP, pos_of; lia).
  assert (Hgetb : tget (targets s1) body = Some k1).
  { unfold s1. cbn [targets]. destruct ls0.
    - cbn [tget]. rewrite Nat.eqb_refl. reflexivity.
    - rewrite tget_tsetdefault. cbn [tget]. rewrite Nat.eqb_refl. reflexivity. }
  assert (Hnt1 : forall p, p <> body -> 2 <= p -> has_target s1 p = false).
  { intros p Hp Hp2. unfold has_target, s1. cbn [targets]. destruct ls0.
    - cbn [tget]. replace (body =? p) with false by (symmetry; apply Nat.eqb_neq; congruence). reflexivity.
    - rewrite tget_tsetdefault. cbn [tget]. replace (body =? p) with false by (symmetry; apply Nat.eqb_neq; congruence).
      replace (TOP =? p) with false by (symmetry; apply Nat.eqb_neq; unfold TOP; lia). reflexivity. }
  rewrite run_lval by (intros k Hk; apply Hnt1; unfold body, i1, pos_of; lia).
  set (q := i1 + length (lval l)).
  assert (Hq : pos_of (S q) = body) by (unfold body, q, i1, pos_of; lia).
  (* the merged operand of the last alternative and the complete `or` *)
  set (dl := dlit l).
  set (lastnode := match ls0 with [] => dl | _ => DBool (nextid s) (Nat.max TOP (ep_of dl)) false (map dlit ls0 ++ [dl]) end).
  set (orall := DBool k1 (Nat.max body (ep_of lastnode)) true (map snd ors ++ [lastnode])).
  assert (Hpl_last : plain_for true lastnode).
  { unfold lastnode. destruct ls0 as [|l0 r0]; [apply plain_dlit|].
    repeat split; [|discriminate]. cbn [map app]. destruct (map dlit r0 ++ [dl]) eqn:E; [destruct r0; discriminate|]. apply simplify_multi. }
  assert (Hsid_last : same_id lastnode (Some k1) = false).
  { unfold lastnode. destruct ls0; [apply same_id_dlit|]. apply same_id_not_lim. cbn [id_of not_lim]. lia. }
  assert (Hsimp_orall : simplify orall = orall).
  { unfold orall. rewrite Hors. cbn [map snd app]. destruct (map snd orest ++ [lastnode]) eqn:E; [destruct orest; discriminate|]. apply simplify_multi. }
  assert (Hloop : pt_loop false body (Some k1) dl (stack s1) (tdel (targets s1) body) = Some ([orall; DComp 0 0], tdel (targets s1) body)).
  { unfold s1 at 1. cbn [stack].
    assert (Hm2 : forall top, plain_for true top -> same_id top (Some k1) = false ->
              pt_loop false body (Some k1) top (rev (cl true body ors) ++ [DComp 0 0]) (tdel (targets s1) body) =
              Some ([DBool k1 (Nat.max body (ep_of top)) true (map snd ors ++ [top]); DComp 0 0], tdel (targets s1) body)).
    { intros top Hp Hs. rewrite merge_first; [|assumption|assumption| |rewrite Hors; discriminate].
      - rewrite Hors. cbn [hd fst]. rewrite pt_stop_lim; [reflexivity| |].
        + cbn [map snd app]. destruct (map snd orest ++ [top]) eqn:E; [destruct orest; discriminate|]. apply simplify_multi.
        + unfold same_id. cbn [id_of]. rewrite Nat.eqb_refl. destruct k1; [lia|reflexivity].
      - rewrite Hors. cbn [tl]. intros k d Hin. cbn [not_lim]. apply (Hrest k d Hin). }
    destruct ls0 as [|l0 r0].
    - cbn [chain_items length seq map combine cl rev app]. unfold orall, lastnode. apply Hm2; [apply plain_dlit | apply same_id_dlit].
    - rewrite merge_first; [|apply plain_dlit|apply same_id_dlit| |discriminate].
      + rewrite hd_chain_items by discriminate. rewrite map_snd_chain_items. fold lastnode. unfold orall. apply Hm2; assumption.
      + intros k d Hin. rewrite chain_items_cons in Hin. cbn [tl] in Hin. apply chain_items_ids in Hin. cbn [not_lim]. lia. }
  assert (Hstep : step orj ce [] (ljmp l false TTop) q (push (dval l) s1) =
                  Some (mkState [DBool (nextid s1) TOP false [orall]; DComp 0 0] (tsetdefault (tdel (targets s1) body) TOP (nextid s1)) (S (nextid s1)))).
  { apply (lit_jump orj ce l false TTop q s1).
    - apply Hnt1; unfold body, q, i1, pos_of; lia.
    - replace q with (i + (lws ls0 + length (lval l))) by (unfold q, i1; lia). apply Hleb. lia.
    - replace q with (i + (lws ls0 + length (lval l))) by (unfold q, i1; lia). apply Horj. lia.
    - rewrite Hq. assert (Hht : has_target s1 body = true) by (unfold has_target; rewrite Hgetb; reflexivity).
      rewrite Hht. fold dl.
      rewrite (process_target_lim body (push dl s1) dl (stack s1) k1 eq_refl ltac:(unfold body, pos_of; lia) Hgetb).
      cbn [push targets nextid]. rewrite Hloop. reflexivity. }
  destruct (ljmp_facts l false TTop) as [_ [_ [Hfin _]]].
  cbn [app].
  rewrite (run_cons orj ce (ljmp l false TTop) _ q _ _ Hfin Hstep).
  exists orall. split.
  - set (s2 := {| stack := _; targets := _; nextid := _ |}).
    assert (Hnt2 : forall p, 2 <= p -> has_target s2 p = false).
    { intros p Hp. unfold has_target, s2. cbn [targets tpos]. rewrite tget_tsetdefault.
      destruct (Nat.eq_dec p body) as [->|Hpb].
      - rewrite tget_tdel_same. rewrite Nat.eqb_sym, Hb_top. reflexivity.
      - rewrite tget_tdel_other by congruence. specialize (Hnt1 p Hpb Hp). unfold has_target in Hnt1.
        destruct (tget (targets s1) p); [discriminate|]. replace (TOP =? p) with false by (symmetry; apply Nat.eqb_neq; unfold TOP; lia). reflexivity. }
    eapply run_elt_yield.
    + apply Hnt2. unfold pos_of. lia.
    + apply Hnt2. unfold pos_of. lia.
    + unfold s2. cbn [stack length]. lia.
    + unfold process_target, s2. cbn [stack targets nextid Nat.eqb orb tpos].
      assert (Hs : simplify (DBool (nextid s1) TOP false [orall]) = orall).
      { cbn [simplify]. unfold orall at 1. cbn [ep_of].
        replace (Nat.max body (ep_of lastnode) <? TOP) with false; [reflexivity|].
        symmetry. apply Nat.ltb_ge. unfold body, TOP, pos_of. lia. }
      rewrite pt_loop_simplify; rewrite Hs; [|assumption].
      rewrite pt_stop_comp; [reflexivity | assumption | reflexivity | reflexivity].
    + reflexivity.
  - unfold orall. cbn [strip]. rewrite map_app. cbn [map]. do 2 f_equal.
    unfold lastnode. destruct ls0 as [|l0 r0].
    + unfold dl. rewrite strip_dlit. reflexivity.
    + cbn [strip]. rewrite map_app, map_strip_dlit. cbn [map]. unfold dl. rewrite strip_dlit.
      unfold alt_pt. destruct ((l0 :: r0) ++ [l]) as [|x [|y z]] eqn:E.
      * discriminate.
      * destruct r0; discriminate.
      * rewrite <- E. rewrite map_app. reflexivity.
Qed.
(* ------------------------------------------------------------------ all alternatives *)
Definition expected (ors : list (nat * dn)) (alts : list (list lit)) : ptree :=
  match ors, alts with
  | [], [ls] => alt_pt ls
  | _, _ => PBool true (map strip (map snd ors) ++ map alt_pt alts)
  end.

Definition ors_ok (ors : list (nat * dn)) (n : nat) : Prop :=
  StronglySorted lt (map fst ors) /\ forall k, In k (map fst ors) -> 1 <= k < n.

Lemma existsb_false_of_not_true : forall (f : nat -> bool) l, existsb f l <> true -> existsb f l = false.
Proof. intros f l H. destruct (existsb f l); congruence. Qed.

Lemma run_dnf_from : forall alts orj ce i s ors,
  wf_alts alts ->
  ce = pos_of (i + total_lits alts) ->
  (forall p, pos_of i <= p -> (existsb (Nat.eqb p) orj = true <-> In p (epos alts i))) ->
  stack s = rev (cl true ce ors) ++ [DComp 0 0] ->
  targets s = match ors with [] => [] | x :: _ => [(ce, fst x)] end ->
  1 <= nextid s -> ors_ok ors (nextid s) ->
  exists final, run orj ce [] (dnf_code alts (pos_of i) ce ++ [ILoadElt; IYield]) i s = RGen (DElt 0 0) [[final]] /\
                strip final = expected ors alts.
Proof.
  induction alts as [|ls r IH]; intros orj ce i s ors [Hne Hall] Hce Horj Hst Hts Hid [Hsorted Hrange]; [congruence|].
  inversion Hall as [|a0 b0 Hls Hr]; subst a0 b0.
  assert (Hl : 2 <= lws ls) by (apply lws_pos; assumption).
  destruct r as [|ls2 r2].
  - (* the last alternative *)
    cbn [dnf_code]. rewrite total_lits_cons in Hce. cbn [total_lits] in Hce. rewrite Nat.add_0_r in Hce.
    assert (Hnor : forall k, k < lws ls -> existsb (Nat.eqb (pos_of (i + k))) orj = false).
    { intros k Hk. apply existsb_false_of_not_true. intro H. apply Horj in H; [destruct H | unfold pos_of; lia]. }
    destruct ors as [|[k1 d1] orest].
    + destruct (run_single orj ce ls i s Hls Hid Hst Hts) as [final [Hrun Hstrip]].
      * intros k Hk. split; [|apply Hnor; assumption]. apply Nat.leb_gt. rewrite Hce. unfold pos_of. lia.
      * exists final. split; assumption.
    + cbn [map fst] in *. inversion Hsorted as [|a1 l1 Hs' Hlt]; subst a1 l1.
      destruct (run_last orj ce ls i s ((k1, d1) :: orest) k1 d1 orest Hls eq_refl) as [final [Hrun Hstrip]].
      * apply Hrange. left. reflexivity.
      * apply Hrange. left. reflexivity.
      * intros k d Hin. rewrite Forall_forall in Hlt. assert (k1 < k); [|lia]. apply Hlt. apply in_map_iff. exists (k, d). split; [reflexivity|assumption].
      * rewrite <- Hce. assumption.
      * rewrite <- Hce. assumption.
      * assumption.
      * assumption.
      * exists final. split; [assumption|]. rewrite Hstrip. reflexivity.
  - (* an alternative followed by others *)
    assert (Hwf2 : wf_alts (ls2 :: r2)) by (split; [discriminate|assumption]).
    assert (Ht : 2 <= total_lits (ls2 :: r2)) by (apply total_lits_pos; assumption).
    rewrite total_lits_cons in Hce.
    change (dnf_code (ls :: ls2 :: r2) (pos_of i) ce) with
      (alt_fwd ls (pos_of i + lws ls) ce ++ dnf_code (ls2 :: r2) (pos_of i + lws ls) ce).
    replace (pos_of i + lws ls) with (pos_of (i + lws ls)) by (unfold pos_of; lia).
    rewrite <- app_assoc.
    assert (HE : In (pos_of (i + lws ls - 1)) (epos (ls :: ls2 :: r2) i)) by (cbn [epos]; left; reflexivity).
    assert (Hin_rest : forall p, In p (epos (ls2 :: r2) (i + lws ls)) -> pos_of (i + lws ls) < p).
    { intros p Hp. apply (epos_bounds _ _ _ Hr) in Hp. lia. }
    rewrite run_alt; try assumption.
    + (* continue with the remaining alternatives *)
      set (newid := nextid s + length ls - 1).
      set (A := alt_node (nextid s) (pos_of (i + lws ls)) ls).
      assert (Hlen : 1 <= length ls) by (destruct ls; [congruence | cbn [length]; lia]).
      destruct (IH orj ce (i + lws ls)
                   {| stack := DBool newid ce true [A] :: stack s; targets := tsetdefault (targets s) ce newid; nextid := nextid s + length ls |}
                   (ors ++ [(newid, A)]) Hwf2) as [final [Hrun Hstrip]].
      * rewrite Hce. f_equal. lia.
      * intros p Hp. rewrite Horj by (unfold pos_of in *; lia). cbn [epos]. split.
        -- intros [H|H]; [unfold pos_of in *; lia | assumption].
        -- intro H. right. assumption.
      * cbn [stack]. rewrite Hst. unfold cl. rewrite map_app, rev_app_distr. reflexivity.
      * cbn [targets]. rewrite Hts. destruct ors as [|[k1 d1] orest]; cbn [app fst].
        -- reflexivity.
        -- unfold tsetdefault. cbn [tget]. rewrite Nat.eqb_refl. reflexivity.
      * cbn [nextid]. lia.
      * cbn [nextid]. split.
        -- rewrite map_app. cbn [map fst]. clear - Hsorted Hrange Hlen. unfold newid.
           induction (map fst ors) as [|a l IHl]; cbn [app]; [repeat constructor|].
           inversion Hsorted as [|a1 l1 Hs1 Hf1]; subst a1 l1. constructor.
           ++ apply IHl; [assumption|]. intros k Hk. apply Hrange. right. assumption.
           ++ apply Forall_app. split; [assumption|]. constructor; [|constructor].
              assert (1 <= a < nextid s) by (apply Hrange; left; reflexivity). lia.
        -- intros k Hk. rewrite map_app in Hk. apply in_app_or in Hk. destruct Hk as [Hk|[Hk|[]]].
           ++ apply Hrange in Hk. lia.
           ++ subst k. cbn [fst]. unfold newid. lia.
      * exists final. split; [exact Hrun|]. rewrite Hstrip. unfold expected.
        rewrite !map_app. cbn [map snd]. unfold A. rewrite strip_alt_node.
        destruct ors as [|o1 orest]; cbn [app]; [reflexivity|].
        rewrite <- app_assoc. reflexivity.
    + (* nothing pending inside the alternative *)
      intros k Hk. unfold has_target. rewrite Hts. destruct ors as [|[k1 d1] orest]; [reflexivity|].
      cbn [tget fst]. replace (ce =? pos_of (i + k)) with false; [reflexivity|].
      symmetry. apply Nat.eqb_neq. rewrite Hce. unfold pos_of. lia.
    + intros k Hk. rewrite Hce. unfold pos_of. lia.
    + intros k Hk. apply Nat.leb_gt. rewrite Hce. unfold pos_of. lia.
    + intros k Hk. apply existsb_false_of_not_true. intro H. apply Horj in H; [|unfold pos_of; lia].
      cbn [epos] in H. destruct H as [H|H]; [unfold pos_of in H; lia|]. apply Hin_rest in H. unfold pos_of in H. lia.
    + apply Horj; [unfold pos_of; lia | assumption].
Qed.

(* ------------------------------------------------------------------ back to source expressions *)
Fixpoint to_bexp_list (l : list ptree) : option (list bexp) :=
  match l with
  | [] => Some []
  | x :: r => match to_bexp x, to_bexp_list r with Some a, Some b => Some (a :: b) | _, _ => None end
  end.

Lemma to_bexp_PBool : forall o vs,
  to_bexp (PBool o vs) = match to_bexp_list vs with Some l => Some (if o then Or l else And l) | None => None end.
Proof.
  intros o vs. cbn [to_bexp].
  assert (H : (fix go (l : list ptree) : option (list bexp) :=
                 match l with
                 | [] => Some []
                 | x :: r => match to_bexp x, go r with Some a, Some b => Some (a :: b) | _, _ => None end
                 end) vs = to_bexp_list vs).
  { induction vs as [|x r IH]; [reflexivity|]. cbn [to_bexp_list]. rewrite <- IH. reflexivity. }
  rewrite H. reflexivity.
Qed.

Lemma to_bexp_lit : forall l, to_bexp (lit_pt l) = Some (lit_bexp l).
Proof. intros [[] n|[] ne a b|isnot a]; reflexivity. Qed.
Lemma to_bexp_list_lits : forall ls, to_bexp_list (map lit_pt ls) = Some (map lit_bexp ls).
Proof. induction ls as [|l r IH]; [reflexivity|]. cbn [map to_bexp_list]. rewrite to_bexp_lit, IH. reflexivity. Qed.

Lemma to_bexp_alt : forall ls, ls <> [] -> to_bexp (alt_pt ls) = Some (mk_and ls).
Proof.
  intros [|l [|l2 r]] H; [congruence| |].
  - apply to_bexp_lit.
  - unfold alt_pt, mk_and. rewrite to_bexp_PBool, to_bexp_list_lits. reflexivity.
Qed.

Lemma to_bexp_list_alts : forall alts, Forall (fun ls => ls <> []) alts -> to_bexp_list (map alt_pt alts) = Some (map mk_and alts).
Proof.
  induction alts as [|ls r IH]; intro H; [reflexivity|]. inversion H; subst.
  cbn [map to_bexp_list]. rewrite to_bexp_alt by assumption. rewrite IH by assumption. reflexivity.
Qed.

Lemma to_bexp_expected : forall alts, wf_alts alts -> to_bexp (expected [] alts) = Some (dnf alts).
Proof.
  intros alts [Hne Hall]. destruct alts as [|ls [|ls2 r]]; [congruence| |].
  - inversion Hall; subst. cbn [expected]. unfold dnf. cbn [map mk_or_of]. apply to_bexp_alt. assumption.
  - unfold expected. cbn [map app]. rewrite to_bexp_PBool.
    change (alt_pt ls :: alt_pt ls2 :: map alt_pt r) with (map alt_pt (ls :: ls2 :: r)).
    rewrite to_bexp_list_alts by assumption. reflexivity.
Qed.

(* no COPY, no value-context jump *)
Fixpoint vj_from (l : list instr) (i : nat) : list nat :=
  match l with [] => [] | x :: r => match x with ICopy => pos_of (S i) :: vj_from r (S i) | _ => vj_from r (S i) end end.

Lemma value_jumps_from : forall code, value_jumps code = vj_from code 0.
Proof.
  intro code. unfold value_jumps. generalize 0 as i. induction code as [|x r IH]; intro i; [reflexivity|].
  destruct x; cbn [vj_from]; rewrite <- (IH (S i)); reflexivity.
Qed.

Lemma vj_from_no_copy : forall l i, ~ In ICopy l -> vj_from l i = [].
Proof.
  induction l as [|x r IH]; intros i H; [reflexivity|].
  cbn [vj_from]. destruct x; try (apply IH; intro H1; apply H; right; exact H1). exfalso. apply H. left. reflexivity.
Qed.

Lemma no_copy_lval : forall l, ~ In ICopy (lval l).
Proof. intros l H. destruct (lval_facts l _ H) as [_ [_ [Hc _]]]. exact (Hc eq_refl). Qed.

Lemma no_copy_chain : forall c tg ls, ~ In ICopy (chain_code c tg ls).
Proof.
  induction ls as [|l r IH]; intro H; [exact H|].
  cbn [chain_code] in H. apply in_app_or in H. destruct H as [H|[H|H]].
  - exact (no_copy_lval l H).
  - destruct (ljmp_facts l c tg) as [Hc _]. exact (Hc H).
  - exact (IH H).
Qed.

Lemma no_copy_and_back : forall ls, ~ In ICopy (and_back ls).
Proof. intro ls. rewrite and_back_chain. apply no_copy_chain. Qed.

Lemma no_copy_alt_fwd : forall ls a b, ~ In ICopy (alt_fwd ls a b).
Proof.
  induction ls as [|l r IH]; intros a b H; [exact H|].
  cbn [alt_fwd] in H. destruct r as [|y s].
  - apply in_app_or in H. destruct H as [H|[H|[]]]; [exact (no_copy_lval l H)|]. destruct (ljmp_facts l true (TAt b)) as [Hc _]. exact (Hc H).
  - apply in_app_or in H. destruct H as [H|[H|H]]; [exact (no_copy_lval l H) | | exact (IH _ _ H)].
    destruct (ljmp_facts l false (TAt a)) as [Hc _]. exact (Hc H).
Qed.

Lemma no_copy_dnf_code : forall alts p body, ~ In ICopy (dnf_code alts p body).
Proof.
  induction alts as [|ls r IH]; intros p body H; [exact H|].
  cbn [dnf_code] in H. destruct r as [|ls2 r2]; [exact (no_copy_and_back _ H)|].
  apply in_app_or in H. destruct H as [H|H]; [exact (no_copy_alt_fwd _ _ _ H) | exact (IH _ _ H)].
Qed.

(* ------------------------------------------------------------------ the round trip *)
Theorem roundtrip_dnf : forall alts, wf_alts alts -> decompile PFilter (dnf alts) = Some (dnf alts).
Proof.
  intros alts Hwf. unfold decompile. rewrite compile_dnf by assumption.
  unfold decompile_code. rewrite or_jumps_dnf by assumption.
  assert (Hvj : value_jumps (dnf_code alts 2 (2 + total_lits alts) ++ [ILoadElt; IYield]) = []).
  { rewrite value_jumps_from. apply vj_from_no_copy. intro H. apply in_app_or in H.
    destruct H as [H|[H|[H|[]]]]; try discriminate H. exact (no_copy_dnf_code _ _ _ H). }
  rewrite Hvj.
  assert (Hce : conditions_end (dnf_code alts 2 (2 + total_lits alts) ++ [ILoadElt; IYield]) = pos_of (0 + total_lits alts)).
  { rewrite conditions_end_from, ce_from_app, ce_from_dnf_code by assumption. reflexivity. }
  rewrite Hce.
  assert (Hcode : dnf_code alts 2 (2 + total_lits alts) = dnf_code alts (pos_of 0) (pos_of (0 + total_lits alts)))
    by (f_equal; unfold pos_of; lia).
  rewrite Hcode.
  destruct (run_dnf_from alts (rev (epos alts 0)) (pos_of (0 + total_lits alts)) 0 (init_state PFilter) [] Hwf eq_refl)
    as [final [Hrun Hstrip]].
  - intros p Hp. rewrite existsb_exists. split.
    + intros [x [Hx He]]. apply Nat.eqb_eq in He. subst x. apply in_rev. assumption.
    + intro H. exists p. split; [apply -> in_rev; assumption | apply Nat.eqb_refl].
  - reflexivity.
  - reflexivity.
  - cbn. lia.
  - split; [constructor | intros k []].
  - rewrite Hrun. cbn [extract map conj]. rewrite Hstrip. apply to_bexp_expected. assumption.
Qed.

(* the statement of the property on this family: the decompiled expression exists and means what the source means *)
Corollary roundtrip_dnf_meaning : forall alts, wf_alts alts ->
  exists e', decompile PFilter (dnf alts) = Some e' /\ forall rho, eval rho e' = eval rho (dnf alts).
Proof. intros alts H. exists (dnf alts). split; [apply roundtrip_dnf; assumption | reflexivity]. Qed.
