(* C03 - round trip decompile (compile e) = e on the model, for the disjunctive-normal-form family of Model/C03Family.v. *)
From Coq Require Import List Bool Arith Lia Sorted.
Import ListNotations.
Require Import PonyV.Model.C03Bexp PonyV.Model.C03Decomp PonyV.Model.C03Family PonyV.Proofs.C03Checker.

(* ------------------------------------------------------------------ named versions of the list walks inside comp / elen *)
Fixpoint comp_and (cnd : bool) (next next2 : tgt) (c : bool) (l : list bexp) (p : nat) : list instr :=
  match l with
  | [] => []
  | x :: r => match r with
              | [] => comp cnd x p next c
              | _ :: _ => if cnd then comp true x p next2 false ++ comp_and cnd next next2 c r (p + elen true x)
                          else comp false x p next c ++ [ICopy; jump_to false next2; IPopTop] ++ comp_and cnd next next2 c r (p + elen false x + 3)
              end
  end.
Fixpoint comp_or (cnd : bool) (next next2 : tgt) (c : bool) (l : list bexp) (p : nat) : list instr :=
  match l with
  | [] => []
  | x :: r => match r with
              | [] => comp cnd x p next c
              | _ :: _ => if cnd then comp true x p next2 true ++ comp_or cnd next next2 c r (p + elen true x)
                          else comp false x p next c ++ [ICopy; jump_to true next2; IPopTop] ++ comp_or cnd next next2 c r (p + elen false x + 3)
              end
  end.

Lemma comp_And : forall cnd l p next c,
  comp cnd (And l) p next c =
  comp_and cnd next (if cnd then (if c then TAt (p + elen cnd (And l)) else next) else TAt (p + elen cnd (And l))) c l p.
Proof.
  intros cnd l p next c. cbn [comp].
  set (n2 := if cnd then (if c then TAt (p + elen cnd (And l)) else next) else TAt (p + elen cnd (And l))).
  clearbody n2. revert p. induction l as [|x r IH]; intro p; [reflexivity|].
  cbn [comp_and]. destruct r as [|y s]; [reflexivity|].
  destruct cnd; rewrite <- IH; reflexivity.
Qed.

Lemma comp_Or : forall cnd l p next c,
  comp cnd (Or l) p next c =
  comp_or cnd next (if cnd then (if c then next else TAt (p + elen cnd (Or l))) else TAt (p + elen cnd (Or l))) c l p.
Proof.
  intros cnd l p next c. cbn [comp].
  set (n2 := if cnd then (if c then next else TAt (p + elen cnd (Or l))) else TAt (p + elen cnd (Or l))).
  clearbody n2. revert p. induction l as [|x r IH]; intro p; [reflexivity|].
  cbn [comp_or]. destruct r as [|y s]; [reflexivity|].
  destruct cnd; rewrite <- IH; reflexivity.
Qed.

Lemma elen_And : forall cnd l, elen cnd (And l) = elen_list cnd l.
Proof.
  intros cnd l. cbn [elen]. induction l as [|x r IH]; [reflexivity|].
  cbn [elen_list]. destruct r as [|y s]; [reflexivity|]. rewrite <- IH. reflexivity.
Qed.
Lemma elen_Or : forall cnd l, elen cnd (Or l) = elen_list cnd l.
Proof.
  intros cnd l. cbn [elen]. induction l as [|x r IH]; [reflexivity|].
  cbn [elen_list]. destruct r as [|y s]; [reflexivity|]. rewrite <- IH. reflexivity.
Qed.

Lemma elen_list_cons2 : forall cnd x y s,
  elen_list cnd (x :: y :: s) = (if cnd then elen true x else elen false x + 3) + elen_list cnd (y :: s).
Proof. reflexivity. Qed.
Lemma comp_and_cons2 : forall next next2 c x y s p,
  comp_and true next next2 c (x :: y :: s) p = comp true x p next2 false ++ comp_and true next next2 c (y :: s) (p + elen true x).
Proof. reflexivity. Qed.
Lemma comp_or_cons2 : forall next next2 c x y s p,
  comp_or true next next2 c (x :: y :: s) p = comp true x p next2 true ++ comp_or true next next2 c (y :: s) (p + elen true x).
Proof. reflexivity. Qed.

(* ------------------------------------------------------------------ literals and groups of literals *)
Lemma elen_lit : forall l, elen true (lit_bexp l) = 2.
Proof. intros [[] n]; reflexivity. Qed.

Lemma comp_lit : forall neg n p next c, comp true (lit_bexp (Lit neg n)) p next c = [ILoad n; jump_to (xorb c neg) next].
Proof. intros [] n p next []; reflexivity. Qed.

Lemma elen_list_lits : forall ls, elen_list true (map lit_bexp ls) = 2 * length ls.
Proof.
  induction ls as [|x r IH]; [reflexivity|].
  destruct r as [|y s].
  - cbn [map elen_list length]. rewrite elen_lit. reflexivity.
  - change (map lit_bexp (x :: y :: s)) with (lit_bexp x :: lit_bexp y :: map lit_bexp s).
    rewrite elen_list_cons2, elen_lit. change (lit_bexp y :: map lit_bexp s) with (map lit_bexp (y :: s)).
    rewrite IH. cbn [length]. lia.
Qed.

Lemma elen_mk_and : forall ls, ls <> [] -> elen true (mk_and ls) = 2 * length ls.
Proof.
  intros ls H. destruct ls as [|x [|y s]]; [congruence| |].
  - cbn [mk_and]. rewrite elen_lit. reflexivity.
  - unfold mk_and. rewrite elen_And. apply elen_list_lits.
Qed.

(* an `and` whose falsity sends control to the loop top: every literal jumps back when false *)
Lemma comp_and_back : forall ls p, comp_and true TTop TTop false (map lit_bexp ls) p = and_back ls.
Proof.
  induction ls as [|[neg n] r IH]; intros p; [reflexivity|].
  destruct r as [|y s].
  - cbn [map comp_and and_back]. rewrite comp_lit. destruct neg; reflexivity.
  - change (map lit_bexp (Lit neg n :: y :: s)) with (lit_bexp (Lit neg n) :: lit_bexp y :: map lit_bexp s).
    rewrite comp_and_cons2, comp_lit. change (lit_bexp y :: map lit_bexp s) with (map lit_bexp (y :: s)).
    rewrite IH. destruct neg; reflexivity.
Qed.

Lemma comp_mk_and_back : forall ls p, ls <> [] -> comp true (mk_and ls) p TTop false = and_back ls.
Proof.
  intros ls p H. destruct ls as [|[neg n] [|y s]]; [congruence| |].
  - cbn [mk_and]. rewrite comp_lit. destruct neg; reflexivity.
  - unfold mk_and. rewrite comp_And. apply comp_and_back.
Qed.

(* an `and` that is a non-last alternative of an `or`: false -> next alternative, true (after the last literal) -> body *)
Lemma comp_and_fwd : forall ls p nextalt body,
  comp_and true (TAt body) (TAt nextalt) true (map lit_bexp ls) p = alt_fwd ls nextalt body.
Proof.
  induction ls as [|[neg n] r IH]; intros p nextalt body; [reflexivity|].
  destruct r as [|y s].
  - cbn [map comp_and alt_fwd]. rewrite comp_lit. destruct neg; reflexivity.
  - change (map lit_bexp (Lit neg n :: y :: s)) with (lit_bexp (Lit neg n) :: lit_bexp y :: map lit_bexp s).
    rewrite comp_and_cons2, comp_lit. change (lit_bexp y :: map lit_bexp s) with (map lit_bexp (y :: s)).
    rewrite IH. destruct neg; reflexivity.
Qed.

Lemma comp_mk_and_fwd : forall ls p body, ls <> [] ->
  comp true (mk_and ls) p (TAt body) true = alt_fwd ls (p + 2 * length ls) body.
Proof.
  intros ls p body H. destruct ls as [|[neg n] [|y s]]; [congruence| |].
  - cbn [mk_and]. rewrite comp_lit. destruct neg; reflexivity.
  - unfold mk_and. rewrite comp_And. rewrite elen_And, elen_list_lits. apply comp_and_fwd.
Qed.

(* the `or` of the alternatives *)
Lemma elen_list_alts : forall alts, Forall (fun ls => ls <> []) alts -> elen_list true (map mk_and alts) = 2 * total_lits alts.
Proof.
  induction alts as [|ls r IH]; intro H; [reflexivity|].
  inversion H as [|? ? Hls Hr]; subst.
  destruct r as [|ls2 r2].
  - cbn [map elen_list total_lits]. rewrite elen_mk_and by assumption. lia.
  - change (map mk_and (ls :: ls2 :: r2)) with (mk_and ls :: mk_and ls2 :: map mk_and r2).
    rewrite elen_list_cons2, elen_mk_and by assumption. change (mk_and ls2 :: map mk_and r2) with (map mk_and (ls2 :: r2)).
    rewrite (IH Hr). cbn [total_lits]. lia.
Qed.

Lemma comp_or_alts : forall alts p body, Forall (fun ls => ls <> []) alts ->
  comp_or true TTop (TAt body) false (map mk_and alts) p = dnf_code alts p body.
Proof.
  induction alts as [|ls r IH]; intros p body H; [reflexivity|].
  inversion H as [|? ? Hls Hr]; subst.
  destruct r as [|ls2 r2].
  - cbn [map comp_or dnf_code]. apply comp_mk_and_back. assumption.
  - change (map mk_and (ls :: ls2 :: r2)) with (mk_and ls :: mk_and ls2 :: map mk_and r2).
    rewrite comp_or_cons2. change (mk_and ls2 :: map mk_and r2) with (map mk_and (ls2 :: r2)).
    rewrite comp_mk_and_fwd by assumption. rewrite elen_mk_and by assumption. rewrite (IH _ _ Hr). reflexivity.
Qed.

Lemma comp_dnf : forall alts p, wf_alts alts ->
  comp true (dnf alts) p TTop false = dnf_code alts p (p + 2 * total_lits alts).
Proof.
  intros alts p [Hne Hall]. destruct alts as [|ls [|ls2 r]]; [congruence| |].
  - unfold dnf. cbn [map mk_or_of dnf_code]. inversion Hall; subst. apply comp_mk_and_back. assumption.
  - unfold dnf. set (es := map mk_and (ls :: ls2 :: r)). 
    assert (Hes : mk_or_of es = Or es) by reflexivity. rewrite Hes. rewrite comp_Or.
    rewrite elen_Or. unfold es. rewrite elen_list_alts by assumption. apply comp_or_alts. assumption.
Qed.


(* ------------------------------------------------------------------ jump threading does nothing without JUMP_FORWARD *)
Definition no_fwd (code : list instr) : Prop := forall t, ~ In (IFwd t) code.

Lemma final_target_no_fwd : forall fuel code t, no_fwd code -> final_target fuel code t = t.
Proof.
  intros fuel code t H. destruct fuel as [|f]; [reflexivity|].
  cbn [final_target]. destruct (nth_error code (t - 2)) as [ins|] eqn:E; [|reflexivity].
  destruct ins; try reflexivity. exfalso. apply (H t0). eapply nth_error_In. exact E.
Qed.

Lemma thread_no_fwd : forall code, no_fwd code -> thread code = code.
Proof.
  intros code H. unfold thread. transitivity (map (fun i : instr => i) code); [|apply map_id]. apply map_ext_in. intros ins Hin.
  destruct (target_of ins) as [t|] eqn:E; [|reflexivity].
  rewrite final_target_no_fwd by assumption.
  destruct ins; try discriminate E; cbn in E; injection E as <-; reflexivity.
Qed.

Lemma no_fwd_app : forall a b, no_fwd a -> no_fwd b -> no_fwd (a ++ b).
Proof. intros a b Ha Hb t Hin. apply in_app_or in Hin. destruct Hin; [eapply Ha | eapply Hb]; eassumption. Qed.

Lemma no_fwd_and_back : forall ls, no_fwd (and_back ls).
Proof.
  induction ls as [|[neg n] r IH]; intros t Hin; [exact Hin|].
  cbn [and_back] in Hin. destruct Hin as [H|[H|H]]; try discriminate. eapply IH; eassumption.
Qed.

Lemma no_fwd_alt_fwd : forall ls a b, no_fwd (alt_fwd ls a b).
Proof.
  induction ls as [|[neg n] r IH]; intros a b t Hin; [exact Hin|].
  cbn [alt_fwd] in Hin. destruct r as [|y s].
  - destruct Hin as [H|[H|H]]; try discriminate. exact H.
  - destruct Hin as [H|[H|H]]; try discriminate. eapply IH; eassumption.
Qed.

Lemma no_fwd_dnf_code : forall alts p body, no_fwd (dnf_code alts p body).
Proof.
  induction alts as [|ls r IH]; intros p body; [intros t H; exact H|].
  cbn [dnf_code]. destruct r as [|ls2 r2]; [apply no_fwd_and_back|].
  apply no_fwd_app; [apply no_fwd_alt_fwd | apply IH].
Qed.

Lemma compile_dnf : forall alts, wf_alts alts ->
  compile PFilter (dnf alts) = dnf_code alts 2 (2 + 2 * total_lits alts) ++ [ILoadElt; IYield].
Proof.
  intros alts H. unfold compile. change (pos_of 0) with 2. rewrite comp_dnf by assumption.
  apply thread_no_fwd. apply no_fwd_app; [apply no_fwd_dnf_code|].
  intros t [Hin|[Hin|[]]]; discriminate.
Qed.

(* ------------------------------------------------------------------ conditions_end *)
Fixpoint ce_from (l : list instr) (i acc : nat) : nat :=
  match l with [] => acc | x :: r => ce_from r (S i) (if is_back x then pos_of (S i) else acc) end.

Lemma conditions_end_from : forall code, conditions_end code = ce_from code 0 0.
Proof. reflexivity. Qed.

Lemma ce_from_app : forall a b i acc, ce_from (a ++ b) i acc = ce_from b (i + length a) (ce_from a i acc).
Proof.
  induction a as [|x r IH]; intros b i acc; cbn [app ce_from length].
  - rewrite Nat.add_0_r. reflexivity.
  - rewrite IH. f_equal. lia.
Qed.

Lemma ce_from_and_back : forall ls i acc, ls <> [] -> ce_from (and_back ls) i acc = pos_of (i + 2 * length ls).
Proof.
  induction ls as [|[neg n] r IH]; intros i acc H; [congruence|].
  cbn [and_back ce_from is_back length]. destruct r as [|y s].
  - cbn [and_back ce_from length]. f_equal. lia.
  - rewrite IH by discriminate. f_equal. cbn [length]. lia.
Qed.

Lemma ce_from_alt_fwd : forall ls a b i acc, ce_from (alt_fwd ls a b) i acc = acc.
Proof.
  induction ls as [|[neg n] r IH]; intros a b i acc; [reflexivity|].
  cbn [alt_fwd]. destruct r as [|y s]; [reflexivity|].
  cbn [ce_from is_back]. apply IH.
Qed.

Lemma length_and_back : forall ls, length (and_back ls) = 2 * length ls.
Proof. induction ls as [|[neg n] r IH]; [reflexivity|]. cbn [and_back length]. rewrite IH. lia. Qed.

Lemma length_alt_fwd : forall ls a b, length (alt_fwd ls a b) = 2 * length ls.
Proof.
  induction ls as [|[neg n] r IH]; intros a b; [reflexivity|].
  cbn [alt_fwd]. destruct r as [|y s]; [reflexivity|].
  cbn [length] in *. rewrite IH. lia.
Qed.

Lemma length_dnf_code : forall alts p body, length (dnf_code alts p body) = 2 * total_lits alts.
Proof.
  induction alts as [|ls r IH]; intros p body; [reflexivity|].
  cbn [dnf_code total_lits]. destruct r as [|ls2 r2].
  - rewrite length_and_back. cbn [total_lits]. lia.
  - rewrite app_length, length_alt_fwd, IH. lia.
Qed.

Lemma ce_from_dnf_code : forall alts p body i acc, wf_alts alts ->
  ce_from (dnf_code alts p body) i acc = pos_of (i + 2 * total_lits alts).
Proof.
  induction alts as [|ls r IH]; intros p body i acc [Hne Hall]; [congruence|].
  inversion Hall as [|? ? Hls Hr]; subst.
  cbn [dnf_code total_lits]. destruct r as [|ls2 r2].
  - rewrite ce_from_and_back by assumption. cbn [total_lits]. f_equal. lia.
  - rewrite ce_from_app, ce_from_alt_fwd, length_alt_fwd.
    rewrite IH by (split; [discriminate|assumption]). f_equal. lia.
Qed.

(* ------------------------------------------------------------------ analyze_jumps *)
Fixpoint jumps_from (l : list instr) (i p : nat) : list nat :=
  match l with
  | [] => []
  | x :: r => match target_of x with
              | Some t => if Nat.eqb t p then pos_of i :: jumps_from r (S i) p else jumps_from r (S i) p
              | None => jumps_from r (S i) p
              end
  end.

Lemma jumps_to_from : forall code p, jumps_to code p = jumps_from code 0 p.
Proof.
  intros code p. unfold jumps_to. generalize 0 as i.
  induction code as [|x r IH]; intro i; [reflexivity|].
  cbn [jumps_from]. rewrite <- IH. reflexivity.
Qed.

Lemma jumps_from_app : forall a b i p, jumps_from (a ++ b) i p = jumps_from a i p ++ jumps_from b (i + length a) p.
Proof.
  induction a as [|x r IH]; intros b i p; cbn [app jumps_from length].
  - rewrite Nat.add_0_r. reflexivity.
  - replace (i + S (length r)) with (S i + length r) by lia.
    destruct (target_of x) as [t|]; [destruct (Nat.eqb t p)|]; rewrite IH; reflexivity.
Qed.

Lemma fold_add_sorted : forall js orj p,
  StronglySorted lt js -> (forall j, In j js -> j <= p) -> (forall o j, In o orj -> In j js -> o < j) ->
  fold_left (add_or_jump p) js orj = rev js ++ orj.
Proof.
  induction js as [|j r IH]; intros orj p Hs Hle Hlt; [reflexivity|].
  inversion Hs as [|? ? Hs' Hall]; subst.
  cbn [fold_left rev]. assert (Hadd : add_or_jump p orj j = j :: orj).
  { unfold add_or_jump. assert (Hj : j <= p) by (apply Hle; left; reflexivity).
    destruct (Nat.ltb p j) eqn:E; [apply Nat.ltb_lt in E; lia|].
    destruct (existsb (fun o => Nat.ltb j o && Nat.ltb o p) orj) eqn:E2; [|reflexivity].
    apply existsb_exists in E2. destruct E2 as [o [Ho Hc]]. apply andb_true_iff in Hc. destruct Hc as [Hc _].
    apply Nat.ltb_lt in Hc. specialize (Hlt o j Ho (or_introl eq_refl)). lia. }
  rewrite Hadd. rewrite IH.
  - rewrite <- app_assoc. reflexivity.
  - assumption.
  - intros j' Hj'. apply Hle. right. assumption.
  - intros o j' [Ho|Ho] Hj'.
    + subst o. rewrite Forall_forall in Hall. apply Hall. assumption.
    + apply Hlt; [assumption | right; assumption].
Qed.

Definition blocked (p : nat) (orj : list nat) (j : nat) : Prop := exists o, In o orj /\ j < o /\ o < p.

Lemma fold_add_blocked : forall js orj p, (forall j, In j js -> blocked p orj j) -> fold_left (add_or_jump p) js orj = orj.
Proof.
  induction js as [|j r IH]; intros orj p H; [reflexivity|].
  cbn [fold_left]. assert (Hadd : add_or_jump p orj j = orj).
  { unfold add_or_jump. destruct (Nat.ltb p j); [reflexivity|].
    destruct (H j (or_introl eq_refl)) as [o [Ho [H1 H2]]].
    assert (E : existsb (fun o => Nat.ltb j o && Nat.ltb o p) orj = true).
    { apply existsb_exists. exists o. split; [assumption|]. apply andb_true_iff. split; apply Nat.ltb_lt; assumption. }
    rewrite E. reflexivity. }
  rewrite Hadd. apply IH. intros j' Hj'. apply H. right. assumption.
Qed.

Lemma analyze_stable : forall code k orj,
  (forall k', k' < k -> forall j, In j (jumps_to code (pos_of k')) -> blocked (pos_of k') orj j) -> analyze code k orj = orj.
Proof.
  induction k as [|k IH]; intros orj H; [reflexivity|].
  cbn [analyze]. rewrite fold_add_blocked by (apply H; lia). apply IH. intros k' Hk. apply H. lia.
Qed.

(* general shape lemma: all or-jumps go to the body; every other forward jump has one of them between itself and its target *)
Lemma or_jumps_body_only : forall code kb es,
  conditions_end code = pos_of kb ->
  jumps_to code (pos_of kb) = es -> StronglySorted lt es -> (forall j, In j es -> j <= pos_of kb) ->
  (forall k', k' < kb -> forall j, In j (jumps_to code (pos_of k')) -> blocked (pos_of k') (rev es) j) ->
  or_jumps code = rev es.
Proof.
  intros code kb es Hce Hes Hs Hle Hbl. unfold or_jumps. rewrite Hce.
  unfold pos_of at 1. replace (kb + 2 =? 0) with false by (symmetry; apply Nat.eqb_neq; lia).
  unfold pos_of. replace (kb + 2 - 2) with kb by lia.
  cbn [analyze]. fold (pos_of kb). rewrite Hes.
  rewrite fold_add_sorted; [|assumption|assumption|intros o j []].
  rewrite app_nil_r. apply analyze_stable. assumption.
Qed.

(* ------------------------------------------------------------------ or_jumps of the DNF stream *)
(* positions of the jumps to the body: the last literal of every alternative but the last *)
Fixpoint epos (alts : list (list lit)) (i : nat) : list nat :=
  match alts with
  | [] => []
  | ls :: r => match r with
               | [] => []
               | _ :: _ => pos_of (i + 2 * length ls - 1) :: epos r (i + 2 * length ls)
               end
  end.

Lemma jf_and_back : forall ls i p, jumps_from (and_back ls) i p = [].
Proof. induction ls as [|[neg n] r IH]; intros i p; [reflexivity|]. cbn [and_back jumps_from target_of]. apply IH. Qed.

Lemma jf_alt_body : forall ls a b i, ls <> [] -> a <> b -> jumps_from (alt_fwd ls a b) i b = [pos_of (i + 2 * length ls - 1)].
Proof.
  induction ls as [|[neg n] r IH]; intros a b i H Hab; [congruence|].
  cbn [alt_fwd]. destruct r as [|y s].
  - cbn [jumps_from target_of]. rewrite Nat.eqb_refl. cbn [length]. do 2 f_equal. lia.
  - cbn [jumps_from target_of]. replace (a =? b) with false by (symmetry; apply Nat.eqb_neq; assumption).
    rewrite IH by (try discriminate; assumption). do 2 f_equal. cbn [length]. lia.
Qed.

Lemma jf_alt_next : forall ls a b i j, a <> b -> In j (jumps_from (alt_fwd ls a b) i a) -> j < pos_of (i + 2 * length ls - 1).
Proof.
  induction ls as [|[neg n] r IH]; intros a b i j Hab Hin; [destruct Hin|].
  cbn [alt_fwd] in Hin. destruct r as [|y s].
  - cbn [jumps_from target_of] in Hin. replace (b =? a) with false in Hin by (symmetry; apply Nat.eqb_neq; congruence). destruct Hin.
  - cbn [jumps_from target_of] in Hin. rewrite Nat.eqb_refl in Hin. destruct Hin as [Hj|Hin].
    + subst j. unfold pos_of. cbn [length]. lia.
    + apply (IH a b (S (S i)) j Hab) in Hin. unfold pos_of in *. cbn [length] in *. lia.
Qed.

Lemma jf_alt_other : forall ls a b i p, p <> a -> p <> b -> jumps_from (alt_fwd ls a b) i p = [].
Proof.
  induction ls as [|[neg n] r IH]; intros a b i p Ha Hb; [reflexivity|].
  cbn [alt_fwd]. destruct r as [|y s].
  - cbn [jumps_from target_of]. replace (b =? p) with false by (symmetry; apply Nat.eqb_neq; congruence). reflexivity.
  - cbn [jumps_from target_of]. replace (a =? p) with false by (symmetry; apply Nat.eqb_neq; congruence). apply IH; assumption.
Qed.

Lemma total_lits_cons : forall ls r, total_lits (ls :: r) = length ls + total_lits r.
Proof. reflexivity. Qed.

Lemma total_lits_pos : forall alts, wf_alts alts -> 1 <= total_lits alts.
Proof.
  intros [|ls r] [Hne Hall]; [congruence|]. inversion Hall; subst. cbn [total_lits]. destruct ls; [congruence|]. cbn [length]. lia.
Qed.

Lemma epos_bounds : forall alts i e, Forall (fun ls => ls <> []) alts -> In e (epos alts i) ->
  pos_of i < e /\ e < pos_of (i + 2 * total_lits alts).
Proof.
  induction alts as [|ls r IH]; intros i e Hall Hin; [destruct Hin|].
  inversion Hall as [|? ? Hls Hr]; subst.
  cbn [epos] in Hin. destruct r as [|ls2 r2]; [destruct Hin|].
  assert (Hl : 1 <= length ls) by (destruct ls; [congruence | cbn [length]; lia]).
  assert (Ht : 1 <= total_lits (ls2 :: r2)) by (apply total_lits_pos; split; [discriminate|assumption]).
  destruct Hin as [He|Hin].
  - subst e. unfold pos_of. cbn [total_lits] in *. lia.
  - apply (IH _ _ Hr) in Hin. unfold pos_of in *. cbn [total_lits] in *. lia.
Qed.

Lemma epos_sorted : forall alts i, Forall (fun ls => ls <> []) alts -> StronglySorted lt (epos alts i).
Proof.
  induction alts as [|ls r IH]; intros i Hall; [constructor|].
  inversion Hall as [|? ? Hls Hr]; subst.
  cbn [epos]. destruct r as [|ls2 r2]; [constructor|].
  constructor; [apply IH; assumption|].
  apply Forall_forall. intros e He. apply (epos_bounds _ _ _ Hr) in He. unfold pos_of in *. lia.
Qed.

(* claim A: the jumps to the body; claim B: every other forward jump is blocked by one of them *)
Lemma jf_dnf_body : forall alts i, wf_alts alts ->
  jumps_from (dnf_code alts (pos_of i) (pos_of (i + 2 * total_lits alts))) i (pos_of (i + 2 * total_lits alts)) = epos alts i.
Proof.
  induction alts as [|ls r IH]; intros i [Hne Hall]; [congruence|].
  inversion Hall as [|? ? Hls Hr]; subst.
  cbn [dnf_code epos]. destruct r as [|ls2 r2]; [apply jf_and_back|].
  assert (Ht : 1 <= total_lits (ls2 :: r2)) by (apply total_lits_pos; split; [discriminate|assumption]).
  rewrite jumps_from_app, length_alt_fwd.
  rewrite jf_alt_body; [|assumption| unfold pos_of; rewrite (total_lits_cons ls); lia].
  cbn [app]. f_equal.
  replace (pos_of i + 2 * length ls) with (pos_of (i + 2 * length ls)) by (unfold pos_of; lia).
  replace (i + 2 * total_lits (ls :: ls2 :: r2)) with ((i + 2 * length ls) + 2 * total_lits (ls2 :: r2)) by (rewrite (total_lits_cons ls); lia).
  apply IH. split; [discriminate|assumption].
Qed.

Lemma jf_dnf_blocked : forall alts i p j, wf_alts alts -> p < pos_of (i + 2 * total_lits alts) ->
  In j (jumps_from (dnf_code alts (pos_of i) (pos_of (i + 2 * total_lits alts))) i p) ->
  exists e, In e (epos alts i) /\ j < e /\ e < p.
Proof.
  induction alts as [|ls r IH]; intros i p j [Hne Hall] Hp Hin; [congruence|].
  inversion Hall as [|? ? Hls Hr]; subst.
  cbn [dnf_code] in Hin. destruct r as [|ls2 r2]; [rewrite jf_and_back in Hin; destruct Hin|].
  assert (Ht : 1 <= total_lits (ls2 :: r2)) by (apply total_lits_pos; split; [discriminate|assumption]).
  assert (Hl : 1 <= length ls) by (destruct ls; [congruence | cbn [length]; lia]).
  rewrite jumps_from_app, length_alt_fwd in Hin. apply in_app_or in Hin.
  replace (pos_of i + 2 * length ls) with (pos_of (i + 2 * length ls)) in Hin by (unfold pos_of; lia).
  replace (i + 2 * total_lits (ls :: ls2 :: r2)) with ((i + 2 * length ls) + 2 * total_lits (ls2 :: r2)) in * by (rewrite (total_lits_cons ls); lia).
  destruct Hin as [Hin|Hin].
  - destruct (Nat.eq_dec p (pos_of (i + 2 * length ls))) as [Hpa|Hpa].
    + subst p. apply jf_alt_next in Hin; [|unfold pos_of; lia].
      exists (pos_of (i + 2 * length ls - 1)). split; [cbn [epos]; left; reflexivity|]. split; [assumption|]. unfold pos_of. lia.
    + rewrite jf_alt_other in Hin; [destruct Hin | assumption | lia].
  - assert (Hwf : wf_alts (ls2 :: r2)) by (split; [discriminate|assumption]).
    destruct (IH (i + 2 * length ls) p j Hwf Hp Hin) as [e [He Hb]].
    exists e. split; [cbn [epos]; right; assumption | assumption].
Qed.

Lemma or_jumps_dnf : forall alts, wf_alts alts ->
  or_jumps (dnf_code alts 2 (2 + 2 * total_lits alts) ++ [ILoadElt; IYield]) = rev (epos alts 0).
Proof.
  intros alts H. assert (Hall : Forall (fun ls => ls <> []) alts) by (destruct H; assumption).
  change 2 with (pos_of 0) at 1. replace (2 + 2 * total_lits alts) with (pos_of (0 + 2 * total_lits alts)) by (unfold pos_of; lia).
  apply (or_jumps_body_only _ (0 + 2 * total_lits alts)).
  - rewrite conditions_end_from, ce_from_app, ce_from_dnf_code by assumption. reflexivity.
  - rewrite jumps_to_from, jumps_from_app, jf_dnf_body by assumption. cbn [jumps_from target_of]. apply app_nil_r.
  - apply epos_sorted. assumption.
  - intros j Hj. apply (epos_bounds _ _ _ Hall) in Hj. lia.
  - intros k' Hk j Hj. rewrite jumps_to_from, jumps_from_app in Hj. apply in_app_or in Hj. destruct Hj as [Hj|Hj].
    + apply jf_dnf_blocked in Hj; [|assumption| unfold pos_of; lia].
      destruct Hj as [e [He Hb]]. exists e. split; [apply -> in_rev; assumption | assumption].
    + cbn [jumps_from target_of] in Hj. destruct Hj.
Qed.

(* ------------------------------------------------------------------ the merge loop of process_target on chains of clauses *)
Definition dlit (l : lit) : dn := match l with Lit false n => DAtom 0 0 n | Lit true n => DNot 0 0 (DAtom 0 0 n) end.

(* one-operand clauses as the conditional jumps push them: (identity, operand) in push order *)
Definition cl (o : bool) (t : nat) (l : list (nat * dn)) : list dn := map (fun x => DBool (fst x) t o [snd x]) l.

(* a node that is appended as ONE operand to a clause of kind o *)
Definition plain_for (o : bool) (d : dn) : Prop :=
  simplify d = d /\ is_comp d = false /\ match d with DBool _ _ o' _ => o' <> o | _ => True end.

Lemma simplify_multi : forall i e o x y vs, simplify (DBool i e o (x :: y :: vs)) = DBool i e o (x :: y :: vs).
Proof. intros i e [] x y vs; reflexivity. Qed.

Definition not_lim (lim : option nat) (i : nat) : Prop := match lim with Some j => i <> j | None => True end.

Lemma same_id_not_lim : forall d lim, not_lim lim (id_of d) -> same_id d lim = false.
Proof.
  intros d [j|] H; [|reflexivity]. unfold same_id. cbn in H.
  replace (id_of d =? j) with false by (symmetry; apply Nat.eqb_neq; assumption). reflexivity.
Qed.

(* a clause with at least two operands swallows a chain of one-operand clauses of the same kind below it *)
Lemma merge_chain : forall o t pos lim l i0 e x y vs below ts,
  not_lim lim i0 ->
  (forall k d, In (k, d) (tl l) -> not_lim lim k) ->
  l <> [] ->
  pt_loop false pos lim (DBool i0 e o (x :: y :: vs)) (rev (cl o t l) ++ below) ts =
  pt_loop false pos lim (DBool (fst (hd (0, x) l)) (Nat.max t e) o (map snd l ++ x :: y :: vs)) below ts.
Proof.
  intros o t pos lim l. induction l as [|[k d] r IH] using rev_ind; intros i0 e x y vs below ts Hi0 Hids Hne; [congruence|].
  unfold cl. rewrite map_app, rev_app_distr. cbn [map rev app fst snd].
  cbn [pt_loop]. rewrite simplify_multi. rewrite same_id_not_lim by assumption.
  cbn [is_comp andb]. rewrite Bool.eqb_reflx.
  destruct r as [|[k1 d1] r1].
  - cbn [app hd fst map snd rev ep_of]. reflexivity.
  - assert (Hk : not_lim lim k).
    { apply (Hids k d). cbn [app tl]. apply in_or_app. right. left. reflexivity. }
    fold (cl o t ((k1, d1) :: r1)).
    cbn [ep_of]. change ([d] ++ x :: y :: vs) with (d :: x :: y :: vs).
    rewrite (IH k (Nat.max t e) d x (y :: vs) below ts Hk); [| |discriminate].
    + cbn [app hd]. change ((k1, d1) :: r1 ++ [(k, d)]) with (((k1, d1) :: r1) ++ [(k, d)]). rewrite map_app. cbn [map snd]. rewrite <- app_assoc. cbn [app].
      rewrite Nat.max_assoc, Nat.max_id. reflexivity.
    + intros k' d' Hin. apply (Hids k' d'). cbn [app tl] in *. apply in_or_app. left. assumption.
Qed.

Lemma pt_stop_lim : forall partial pos lim top stk ts,
  simplify top = top -> same_id top lim = true -> pt_loop partial pos lim top stk ts = Some (top :: stk, ts).
Proof. intros partial pos lim top stk ts Hs Hl. destruct stk; cbn [pt_loop]; rewrite Hs, Hl; reflexivity. Qed.

Lemma pt_stop_comp : forall partial pos lim top a b r ts,
  simplify top = top -> same_id top lim = false -> is_comp top = false ->
  pt_loop partial pos lim top (DComp a b :: r) ts = Some (top :: DComp a b :: r, ts).
Proof. intros partial pos lim top a b r ts Hs Hl Hc. cbn [pt_loop]. rewrite Hs, Hl, Hc. reflexivity. Qed.

(* a plain node on top of a chain of one-operand clauses becomes the last operand of the merged clause *)
Lemma merge_first : forall o t pos lim l top below ts,
  plain_for o top -> same_id top lim = false ->
  (forall k d, In (k, d) (tl l) -> not_lim lim k) ->
  l <> [] ->
  pt_loop false pos lim top (rev (cl o t l) ++ below) ts =
  pt_loop false pos lim (DBool (fst (hd (0, top) l)) (Nat.max t (ep_of top)) o (map snd l ++ [top])) below ts.
Proof.
  intros o t pos lim l top below ts [Hs [Hc Hk]] Hl Hids Hne.
  destruct l as [|x0 l0] using rev_ind; [congruence|]. clear IHl0. destruct x0 as [k d].
  unfold cl. rewrite map_app, rev_app_distr. cbn [map rev app fst snd].
  cbn [pt_loop]. rewrite Hs, Hl, Hc. cbn [is_comp andb].
  assert (Hvs : (match top with
                 | DBool _ _ o' vs2 => if Bool.eqb o o' then [d] ++ vs2 else [d] ++ [top]
                 | _ => [d] ++ [top]
                 end) = [d; top]).
  { destruct top; try reflexivity. destruct (Bool.eqb o isor) eqn:E; [|reflexivity].
    apply eqb_prop in E. subst. congruence. }
  rewrite Hvs.
  destruct l0 as [|[k1 d1] r1].
  - cbn [app hd fst map snd rev]. reflexivity.
  - assert (Hk' : not_lim lim k).
    { apply (Hids k d). cbn [app tl]. apply in_or_app. right. left. reflexivity. }
    fold (cl o t ((k1, d1) :: r1)).
    rewrite (merge_chain o t pos lim ((k1, d1) :: r1) k (Nat.max t (ep_of top)) d top [] below ts Hk'); [| |discriminate].
    + cbn [app hd]. change ((k1, d1) :: r1 ++ [(k, d)]) with (((k1, d1) :: r1) ++ [(k, d)]). rewrite map_app. cbn [map snd].
      rewrite <- app_assoc. cbn [app]. rewrite Nat.max_assoc, Nat.max_id. reflexivity.
    + intros k' d' Hin. apply (Hids k' d'). cbn [app tl] in *. apply in_or_app. left. assumption.
Qed.

(* ------------------------------------------------------------------ single machine steps *)
Lemma run_cons : forall orj ce ins rest i s s',
  is_final ins = false -> step orj ce [] ins i s = Some s' -> run orj ce [] (ins :: rest) i s = run orj ce [] rest (S i) s'.
Proof. intros orj ce ins rest i s s' Hf Hs. cbn [run]. rewrite Hf, Hs. reflexivity. Qed.

Lemma step_load : forall orj ce n i s, has_target s (pos_of i) = false -> step orj ce [] (ILoad n) i s = Some (push (DAtom 0 0 n) s).
Proof. intros orj ce n i s H. unfold step. rewrite H. reflexivity. Qed.

Lemma has_target_push : forall d s p, has_target (push d s) p = has_target s p.
Proof. reflexivity. Qed.

(* a conditional jump that is classified AND (position before conditions_end, not an or-jump), nothing pending at the next
   position: pushes the one-operand clause and registers it for its target *)
Lemma cond_jump_and : forall orj ce p nextp endpos neg n s,
  Nat.leb ce p = false -> existsb (Nat.eqb p) orj = false -> has_target s nextp = false ->
  cond_jump orj ce [] p nextp endpos neg None (push (DAtom 0 0 n) s) =
  Some (mkState (DBool (nextid s) endpos false [dlit (Lit neg n)] :: stack s) (tsetdefault (targets s) endpos (nextid s)) (S (nextid s))).
Proof.
  intros orj ce p nextp endpos neg n s Hce Horj Hnt. unfold cond_jump.
  cbn [pop push stack targets nextid]. rewrite Hce, Horj. cbn [existsb orb].
  cbn [negb].
  match goal with |- context [has_target ?a nextp] => change (has_target a nextp) with (has_target s nextp) end.
  rewrite Hnt. cbn [pop push stack targets nextid]. destruct neg; reflexivity.
Qed.

(* ------------------------------------------------------------------ the `targets` table *)
Lemma tget_tsetdefault : forall ts t i p,
  tget (tsetdefault ts t i) p = match tget ts p with Some x => Some x | None => if Nat.eqb t p then (match tget ts t with Some y => None | None => Some i end) else None end.
Proof.
  intros ts t i p. unfold tsetdefault. destruct (tget ts t) as [y|] eqn:Et.
  - destruct (tget ts p) eqn:Ep; [reflexivity|]. destruct (Nat.eqb t p) eqn:E; reflexivity.
  - induction ts as [|[q j] r IH]; cbn [app tget].
    + rewrite Nat.eqb_sym. destruct (Nat.eqb t p); reflexivity.
    + cbn [tget] in Et. destruct (Nat.eqb q t) eqn:Eq; [discriminate|].
      destruct (Nat.eqb q p); [reflexivity|]. apply IH. assumption.
Qed.

Lemma has_target_setdefault : forall stk ts n t i p, t <> p ->
  has_target (mkState stk (tsetdefault ts t i) n) p = has_target (mkState stk ts n) p.
Proof.
  intros stk ts n t i p H. unfold has_target. cbn [targets]. rewrite tget_tsetdefault.
  destruct (tget ts p); [reflexivity|]. replace (t =? p) with false by (symmetry; apply Nat.eqb_neq; assumption). reflexivity.
Qed.

Lemma tsetdefault_present : forall ts t i x, tget ts t = Some x -> tsetdefault ts t i = ts.
Proof. intros ts t i x H. unfold tsetdefault. rewrite H. reflexivity. Qed.

Lemma tget_tsetdefault_same : forall ts t i, tget ts t = None -> tget (tsetdefault ts t i) t = Some i.
Proof. intros ts t i H. rewrite tget_tsetdefault, H, Nat.eqb_refl. reflexivity. Qed.

Lemma tget_tdel_same : forall ts t, tget (tdel ts t) t = None.
Proof.
  induction ts as [|[q j] r IH]; intro t; [reflexivity|].
  cbn [tdel]. destruct (Nat.eqb q t) eqn:E; [apply IH|]. cbn [tget]. rewrite E. apply IH.
Qed.

Lemma tget_tdel_other : forall ts t p, t <> p -> tget (tdel ts t) p = tget ts p.
Proof.
  induction ts as [|[q j] r IH]; intros t p H; [reflexivity|].
  cbn [tdel tget]. destruct (Nat.eqb q t) eqn:E.
  - apply Nat.eqb_eq in E. subst q. replace (t =? p) with false by (symmetry; apply Nat.eqb_neq; assumption). apply IH. assumption.
  - cbn [tget]. destruct (Nat.eqb q p); [reflexivity|]. apply IH. assumption.
Qed.

Lemma tdel_absent : forall ts t, tget ts t = None -> tdel ts t = ts.
Proof.
  induction ts as [|[q j] r IH]; intros t H; [reflexivity|].
  cbn [tget] in H. cbn [tdel]. destruct (Nat.eqb q t); [discriminate|]. f_equal. apply IH. assumption.
Qed.

Lemma tdel_tsetdefault : forall ts t i, tget ts t = None -> tdel (tsetdefault ts t i) t = ts.
Proof.
  intros ts t i H. unfold tsetdefault. rewrite H.
  induction ts as [|[q j] r IH]; cbn [app tdel].
  - rewrite Nat.eqb_refl. reflexivity.
  - cbn [tget] in H. destruct (Nat.eqb q t); [discriminate|]. f_equal. apply IH. assumption.
Qed.

(* ------------------------------------------------------------------ a run of literals with AND-classified jumps to one target *)
Fixpoint chain_code (mk : bool -> instr) (ls : list lit) : list instr :=
  match ls with [] => [] | Lit neg n :: r => ILoad n :: mk neg :: chain_code mk r end.

Definition chain_items (id0 : nat) (ls : list lit) : list (nat * dn) := combine (seq id0 (length ls)) (map dlit ls).

Lemma chain_items_cons : forall id0 l r, chain_items id0 (l :: r) = (id0, dlit l) :: chain_items (S id0) r.
Proof. reflexivity. Qed.

Lemma map_snd_chain_items : forall ls id0, map snd (chain_items id0 ls) = map dlit ls.
Proof. induction ls as [|l r IH]; intro id0; [reflexivity|]. rewrite chain_items_cons. cbn [map snd]. rewrite IH. reflexivity. Qed.

Lemma chain_items_ids : forall ls id0 k d, In (k, d) (chain_items id0 ls) -> id0 <= k < id0 + length ls.
Proof.
  induction ls as [|l r IH]; intros id0 k d H; [destruct H|].
  rewrite chain_items_cons in H. destruct H as [H|H].
  - injection H as <- _. cbn [length]. lia.
  - apply IH in H. cbn [length]. lia.
Qed.

Definition mk_jump (back : bool) (t : nat) (neg : bool) : instr := if back then IBack neg else IJump neg t.
Definition eff_target (back : bool) (t : nat) : nat := if back then TOP else t.

Lemma run_chain : forall orj ce back t ls rest i s,
  (forall k, k <= 2 * length ls -> has_target s (pos_of (i + k)) = false) ->
  (forall k, k <= 2 * length ls -> eff_target back t <> pos_of (i + k)) ->
  (forall k, k < length ls -> Nat.leb ce (pos_of (i + 2 * k + 1)) = false /\ existsb (Nat.eqb (pos_of (i + 2 * k + 1))) orj = false) ->
  run orj ce [] (chain_code (mk_jump back t) ls ++ rest) i s =
  run orj ce [] rest (i + 2 * length ls)
      (mkState (rev (cl false (eff_target back t) (chain_items (nextid s) ls)) ++ stack s)
               (match ls with [] => targets s | _ => tsetdefault (targets s) (eff_target back t) (nextid s) end)
               (nextid s + length ls)).
Proof.
  intros orj ce back t ls. induction ls as [|[neg n] r IH]; intros rest i s Hnt Htt Hcl.
  - cbn [chain_code app length chain_items combine seq map cl rev]. rewrite !Nat.add_0_r. destruct s; reflexivity.
  - cbn [chain_code app].
    assert (H0 : has_target s (pos_of i) = false) by (rewrite <- (Nat.add_0_r i); apply Hnt; lia).
    assert (H1 : has_target s (pos_of (S i)) = false) by (replace (S i) with (i + 1) by lia; apply Hnt; cbn [length]; lia).
    assert (H2 : has_target s (pos_of (S (S i))) = false) by (replace (S (S i)) with (i + 2) by lia; apply Hnt; cbn [length]; lia).
    rewrite (run_cons orj ce (ILoad n) _ i s (push (DAtom 0 0 n) s) eq_refl (step_load orj ce n i s H0)).
    assert (Hstep : step orj ce [] (mk_jump back t neg) (S i) (push (DAtom 0 0 n) s) =
                    Some (mkState (DBool (nextid s) (eff_target back t) false [dlit (Lit neg n)] :: stack s)
                                  (tsetdefault (targets s) (eff_target back t) (nextid s)) (S (nextid s)))).
    { unfold step. rewrite has_target_push, H1.
      destruct (Hcl 0 ltac:(cbn [length]; lia)) as [Hce Horj]. rewrite Nat.mul_0_r, Nat.add_0_r in Hce, Horj.
      replace (i + 1) with (S i) in Hce, Horj by lia.
      unfold mk_jump, eff_target. destruct back; apply cond_jump_and; assumption. }
    assert (Hfin : is_final (mk_jump back t neg) = false) by (unfold mk_jump; destruct back; reflexivity).
    rewrite (run_cons orj ce _ _ (S i) _ _ Hfin Hstep).
    rewrite IH.
    + cbn [stack targets nextid length]. f_equal; [lia|].
      rewrite chain_items_cons. unfold cl. cbn [map rev fst snd]. rewrite <- app_assoc. cbn [app].
      f_equal.
      * destruct r as [|l2 r2]; [reflexivity|].
        assert (Hg : tget (targets s) (eff_target back t) = None \/ exists x, tget (targets s) (eff_target back t) = Some x)
          by (destruct (tget (targets s) (eff_target back t)); [right; eexists; reflexivity | left; reflexivity]).
        destruct Hg as [Hg|[x Hg]].
        -- apply (tsetdefault_present _ _ _ (nextid s)). apply tget_tsetdefault_same. assumption.
        -- rewrite (tsetdefault_present _ _ _ _ Hg). apply (tsetdefault_present _ _ _ _ Hg).
      * lia.
    + intros k Hk. cbn [stack targets nextid]. rewrite has_target_setdefault.
      * replace (S (S i) + k) with (i + (2 + k)) by lia. destruct s. apply Hnt. cbn [length]. lia.
      * replace (S (S i) + k) with (i + (2 + k)) by lia. apply Htt. cbn [length]. lia.
    + intros k Hk. replace (S (S i) + k) with (i + (2 + k)) by lia. apply Htt. cbn [length]. lia.
    + intros k Hk. replace (S (S i) + 2 * k + 1) with (i + 2 * (S k) + 1) by lia. apply Hcl. cbn [length]. lia.
Qed.

(* ------------------------------------------------------------------ conditional jump followed by a pending target *)
Lemma cond_jump_general : forall orj ce p nextp endpos (c : bool) n s isor d e2 stk' ts',
  Nat.leb ce p = false ->
  (if existsb (Nat.eqb p) orj then (true, if c then DAtom 0 0 n else DNot 0 0 (DAtom 0 0 n))
   else (false, if c then DNot 0 0 (DAtom 0 0 n) else DAtom 0 0 n)) = (isor, d) ->
  (if has_target s nextp then process_target false nextp (push d s) else Some (push d s)) = Some (mkState (e2 :: stk') ts' (nextid s)) ->
  cond_jump orj ce [] p nextp endpos c None (push (DAtom 0 0 n) s) =
  Some (mkState (DBool (nextid s) endpos isor [e2] :: stk') (tsetdefault ts' endpos (nextid s)) (S (nextid s))).
Proof.
  intros orj ce p nextp endpos c n s isor d e2 stk' ts' Hce Hcls Hpt. unfold cond_jump.
  cbn [pop push stack targets nextid]. rewrite Hce. cbn [existsb orb].
  assert (Hs : {| stack := stack s; targets := targets s; nextid := nextid s |} = s) by (destruct s; reflexivity).
  rewrite Hs. rewrite Hcls. cbn [negb].
  change (has_target (push d s) nextp) with (has_target s nextp). rewrite Hpt.
  cbn [pop stack targets nextid]. reflexivity.
Qed.

Lemma process_target_lim : forall pos s top stk lim,
  stack s = top :: stk -> pos <> 0 -> tget (targets s) pos = Some lim ->
  process_target false pos s =
  match pt_loop false pos (Some lim) top stk (tdel (targets s) pos) with
  | Some (stk', ts') => Some (mkState stk' ts' (nextid s))
  | None => None
  end.
Proof.
  intros pos s top stk lim Hst Hpos Hl. unfold process_target. rewrite Hst, Hl.
  replace (pos =? 0) with false by (symmetry; apply Nat.eqb_neq; assumption). reflexivity.
Qed.

Lemma alt_fwd_snoc : forall ls0 neg n a b,
  alt_fwd (ls0 ++ [Lit neg n]) a b = chain_code (mk_jump false a) ls0 ++ [ILoad n; IJump (negb neg) b].
Proof.
  induction ls0 as [|[neg0 n0] r IH]; intros neg n a b; [reflexivity|].
  cbn [app alt_fwd chain_code mk_jump]. destruct (r ++ [Lit neg n]) eqn:E; [destruct r; discriminate|].
  rewrite <- E, IH. reflexivity.
Qed.

Lemma and_back_chain : forall ls t, and_back ls = chain_code (mk_jump true t) ls.
Proof. induction ls as [|[neg n] r IH]; intro t; [reflexivity|]. cbn [and_back chain_code mk_jump]. rewrite (IH t). reflexivity. Qed.

Lemma plain_dlit : forall o l, plain_for o (dlit l).
Proof. intros o [[] n]; repeat split. Qed.

Lemma same_id_dlit : forall l lim, same_id (dlit l) lim = false.
Proof. intros [[] n] [j|]; try reflexivity; unfold same_id; cbn [dlit id_of]; destruct j; reflexivity. Qed.

(* the node an alternative decompiles to *)
Definition alt_node (id0 t : nat) (ls : list lit) : dn :=
  match ls with [l] => dlit l | _ => DBool id0 t false (map dlit ls) end.

Lemma hd_chain_items : forall id0 ls d0, ls <> [] -> fst (hd d0 (chain_items id0 ls)) = id0.
Proof. intros id0 [|l r] d0 H; [congruence|]. reflexivity. Qed.

(* scenario 1: an alternative that is not the last one *)
Lemma run_alt : forall orj ce ls body rest i s,
  ls <> [] -> 1 <= nextid s ->
  (forall k, k <= 2 * length ls -> has_target s (pos_of (i + k)) = false) ->
  (forall k, k <= 2 * length ls -> body <> pos_of (i + k)) ->
  (forall k, k < length ls -> Nat.leb ce (pos_of (i + 2 * k + 1)) = false) ->
  (forall k, k + 1 < length ls -> existsb (Nat.eqb (pos_of (i + 2 * k + 1))) orj = false) ->
  existsb (Nat.eqb (pos_of (i + 2 * length ls - 1))) orj = true ->
  run orj ce [] (alt_fwd ls (pos_of (i + 2 * length ls)) body ++ rest) i s =
  run orj ce [] rest (i + 2 * length ls)
      (mkState (DBool (nextid s + length ls - 1) body true [alt_node (nextid s) (pos_of (i + 2 * length ls)) ls] :: stack s)
               (tsetdefault (targets s) body (nextid s + length ls - 1))
               (nextid s + length ls)).
Proof.
  intros orj ce ls body rest i s Hne Hid Hnt Hbody Hce Hand Hor.
  destruct (exists_last Hne) as [ls0 [[neg n] Hls]]. subst ls.
  rewrite app_length in *. cbn [length] in *.
  set (nextalt := pos_of (i + 2 * (length ls0 + 1))) in *.
  rewrite alt_fwd_snoc, <- app_assoc.
  rewrite run_chain.
  2:{ intros k Hk. apply Hnt. lia. }
  2:{ intros k Hk. unfold eff_target, nextalt, pos_of. lia. }
  2:{ intros k Hk. split; [apply Hce; lia | apply Hand; lia]. }
  set (s1 := {| stack := rev (cl false (eff_target false nextalt) (chain_items (nextid s) ls0)) ++ stack s;
                targets := match ls0 with [] => targets s | _ :: _ => tsetdefault (targets s) (eff_target false nextalt) (nextid s) end;
                nextid := nextid s + length ls0 |}).
  set (i1 := i + 2 * length ls0).
  assert (Hnt1 : forall k, k <= 1 -> has_target s1 (pos_of (i1 + k)) = false).
  { intros k Hk. unfold s1. destruct ls0 as [|l0 r0].
    - unfold has_target in *. cbn [targets] in *. unfold i1. rewrite <- Nat.add_assoc. apply Hnt. cbn [length]. lia.
    - rewrite has_target_setdefault.
      + unfold has_target in *. cbn [targets] in *. unfold i1. rewrite <- Nat.add_assoc. apply Hnt. lia.
      + unfold eff_target, nextalt, i1, pos_of. lia. }
  cbn [app].
  rewrite (run_cons orj ce (ILoad n) _ i1 s1 (push (DAtom 0 0 n) s1) eq_refl
             (step_load orj ce n i1 s1 ltac:(rewrite <- (Nat.add_0_r i1); apply Hnt1; lia))).
  assert (Hstep : step orj ce [] (IJump (negb neg) body) (S i1) (push (DAtom 0 0 n) s1) =
                  Some (mkState (DBool (nextid s + (length ls0 + 1) - 1) body true [alt_node (nextid s) nextalt (ls0 ++ [Lit neg n])] :: stack s)
                                (tsetdefault (targets s) body (nextid s + (length ls0 + 1) - 1))
                                (nextid s + (length ls0 + 1)))).
  { unfold step. rewrite has_target_push. replace (S i1) with (i1 + 1) by lia. rewrite Hnt1 by lia.
    replace (pos_of (S (i1 + 1))) with nextalt by (unfold nextalt, i1, pos_of; lia).
    assert (HE : existsb (Nat.eqb (pos_of (i1 + 1))) orj = true).
    { replace (i1 + 1) with (i + 2 * (length ls0 + 1) - 1) by (unfold i1; lia). assumption. }
    assert (HC : Nat.leb ce (pos_of (i1 + 1)) = false).
    { replace (i1 + 1) with (i + 2 * length ls0 + 1) by (unfold i1; lia). apply Hce. lia. }
    replace (nextid s + (length ls0 + 1) - 1) with (nextid s1) by (unfold s1; cbn [nextid]; lia).
    replace (nextid s + (length ls0 + 1)) with (S (nextid s1)) by (unfold s1; cbn [nextid]; lia).
    apply (cond_jump_general orj ce (pos_of (i1 + 1)) nextalt body (negb neg) n s1 true (dlit (Lit neg n))).
    - assumption.
    - rewrite HE. destruct neg; reflexivity.
    - destruct ls0 as [|l0 r0].
      + (* width 1: nothing pending at the next alternative *)
        assert (Hno : has_target s1 nextalt = false).
        { unfold s1. unfold has_target in *. cbn [targets] in *. unfold nextalt. apply Hnt. cbn [length]. lia. }
        rewrite Hno. unfold s1. cbn [push stack targets nextid chain_items length seq map combine cl rev app alt_node]. reflexivity.
      + (* width >= 2: the pending `and` clauses are merged into the first one, which becomes the operand *)
        assert (Hnone : tget (targets s) nextalt = None).
        { specialize (Hnt (2 * (length (l0 :: r0) + 1)) (le_n _)). unfold has_target in Hnt. fold nextalt in Hnt.
          destruct (tget (targets s) nextalt); [discriminate|reflexivity]. }
        assert (Hyes : tget (targets s1) nextalt = Some (nextid s)).
        { unfold s1. cbn [targets eff_target]. apply tget_tsetdefault_same. assumption. }
        assert (Hht : has_target s1 nextalt = true) by (unfold has_target; rewrite Hyes; reflexivity).
        rewrite Hht.
        rewrite (process_target_lim nextalt (push (dlit (Lit neg n)) s1) (dlit (Lit neg n)) (stack s1) (nextid s) eq_refl
                   ltac:(unfold nextalt, pos_of; lia) Hyes).
        cbn [push targets nextid stack]. unfold s1 at 1 2. cbn [stack targets nextid eff_target].
        rewrite tdel_tsetdefault by assumption.
        rewrite merge_first; [| apply plain_dlit | apply same_id_dlit | | discriminate].
        * rewrite hd_chain_items by discriminate. rewrite map_snd_chain_items.
          assert (Hep : ep_of (dlit (Lit neg n)) = 0) by (destruct neg; reflexivity). rewrite Hep, Nat.max_0_r.
          rewrite pt_stop_lim.
          -- unfold s1. cbn [nextid]. cbn [alt_node app map]. 
             destruct (r0 ++ [Lit neg n]) eqn:E; [destruct r0; discriminate|]. rewrite <- E.
             rewrite map_app. reflexivity.
          -- cbn [map app]. destruct (map dlit r0 ++ [dlit (Lit neg n)]) eqn:E; [destruct r0; discriminate|]. apply simplify_multi.
          -- unfold same_id. cbn [id_of]. rewrite Nat.eqb_refl. destruct (nextid s); [lia|reflexivity].
        * intros k d Hin. rewrite chain_items_cons in Hin. cbn [tl] in Hin. apply chain_items_ids in Hin. cbn [not_lim]. lia. }
  rewrite (run_cons orj ce (IJump (negb neg) body) _ (S i1) _ _ eq_refl Hstep).
  f_equal. unfold i1. lia.
Qed.

(* ------------------------------------------------------------------ the end of the stream: LOAD_FAST x ; YIELD_VALUE *)
Lemma pt_loop_simplify : forall partial pos lim top stk ts,
  simplify (simplify top) = simplify top -> pt_loop partial pos lim top stk ts = pt_loop partial pos lim (simplify top) stk ts.
Proof. intros partial pos lim top stk ts H. destruct stk; cbn [pt_loop]; rewrite H; reflexivity. Qed.

Lemma run_elt_yield : forall orj ce i s final ts n,
  has_target s (pos_of i) = false -> has_target s (pos_of (S i)) = false ->
  2 <= length (stack s) ->
  process_target false 0 s = Some (mkState [final; DComp 0 0] ts n) -> is_comp final = false ->
  run orj ce [] [ILoadElt; IYield] i s = RGen (DElt 0 0) [[final]].
Proof.
  intros orj ce i s final ts n H0 H1 Hlen Hpt Hc.
  assert (Hstep : step orj ce [] ILoadElt i s = Some (push (DElt 0 0) s)) by (unfold step; rewrite H0; reflexivity).
  rewrite (run_cons orj ce ILoadElt _ i s _ eq_refl Hstep).
  cbn [run is_final]. unfold finish. rewrite has_target_push, H1.
  cbn [pop push stack targets nextid].
  assert (Hs : {| stack := stack s; targets := targets s; nextid := nextid s |} = s) by (destruct s; reflexivity).
  rewrite Hs.
  destruct (stack s) as [|a [|b r]] eqn:Est; cbn [length] in Hlen; try lia.
  cbn [length yield_loop]. rewrite Est. rewrite Hpt.
  cbn [pop stack targets nextid]. rewrite Hc. cbn [is_comp]. reflexivity.
Qed.

Definition lit_pt (l : lit) : ptree := match l with Lit false n => PAtom n | Lit true n => PNot (PAtom n) end.
Definition alt_pt (ls : list lit) : ptree := match ls with [l] => lit_pt l | _ => PBool false (map lit_pt ls) end.

Lemma strip_dlit : forall l, strip (dlit l) = lit_pt l.
Proof. intros [[] n]; reflexivity. Qed.
Lemma strip_set_ep : forall d e, strip (set_ep d e) = strip d.
Proof. intros [] e0; reflexivity. Qed.
Lemma map_strip_dlit : forall ls, map strip (map dlit ls) = map lit_pt ls.
Proof. intros ls. rewrite map_map. apply map_ext. apply strip_dlit. Qed.

Lemma strip_alt_node : forall id0 t ls, strip (alt_node id0 t ls) = alt_pt ls.
Proof.
  intros id0 t [|l [|l2 r]]; cbn [alt_node alt_pt strip]; try rewrite map_strip_dlit; try reflexivity. apply strip_dlit.
Qed.

Lemma combine_app' : forall (A B : Type) (a b : list A) (c d : list B),
  length a = length c -> combine (a ++ b) (c ++ d) = combine a c ++ combine b d.
Proof.
  induction a as [|x r IH]; intros b [|y s] d H; try discriminate H; [reflexivity|].
  cbn [app combine]. f_equal. apply IH. injection H as H. exact H.
Qed.

(* scenario 3: the only alternative (a plain `and` of literals, or one literal) *)
Lemma run_single : forall orj ce ls i s,
  ls <> [] -> 1 <= nextid s -> stack s = [DComp 0 0] -> targets s = [] ->
  (forall k, k < length ls -> Nat.leb ce (pos_of (i + 2 * k + 1)) = false /\ existsb (Nat.eqb (pos_of (i + 2 * k + 1))) orj = false) ->
  exists final, run orj ce [] (and_back ls ++ [ILoadElt; IYield]) i s = RGen (DElt 0 0) [[final]] /\ strip final = alt_pt ls.
Proof.
  intros orj ce ls i s Hne Hid Hst Hts Hcl.
  rewrite (and_back_chain ls 0). rewrite run_chain; [| | |assumption].
  2:{ intros k Hk. unfold has_target. rewrite Hts. reflexivity. }
  2:{ intros k Hk. unfold eff_target, TOP, pos_of. lia. }
  cbn [eff_target]. rewrite Hst, Hts.
  destruct (exists_last Hne) as [ls0 [l Hls]]. subst ls.
  set (s1 := {| stack := _; targets := _; nextid := _ |}).
  assert (Hts1 : targets s1 = [(TOP, nextid s)]).
  { unfold s1. cbn [targets]. destruct (ls0 ++ [l]) eqn:E; [destruct ls0; discriminate|]. reflexivity. }
  assert (Hnt : forall p, 2 <= p -> has_target s1 p = false).
  { intros p Hp. unfold has_target. rewrite Hts1. cbn [tget]. unfold TOP. destruct p as [|[|p]]; try lia. reflexivity. }
  assert (Hitems : chain_items (nextid s) (ls0 ++ [l]) = chain_items (nextid s) ls0 ++ [(nextid s + length ls0, dlit l)]).
  { unfold chain_items. rewrite app_length, seq_app, map_app. cbn [length seq map].
    rewrite combine_app' by (rewrite seq_length, map_length; reflexivity). reflexivity. }
  assert (Hstk : stack s1 = DBool (nextid s + length ls0) TOP false [dlit l] :: rev (cl false TOP (chain_items (nextid s) ls0)) ++ [DComp 0 0]).
  { unfold s1. cbn [stack]. rewrite Hitems. unfold cl. rewrite map_app, rev_app_distr. reflexivity. }
  set (top' := set_ep (dlit l) TOP).
  assert (Hsimp : simplify (DBool (nextid s + length ls0) TOP false [dlit l]) = top').
  { cbn [simplify]. assert (Hep : ep_of (dlit l) = 0) by (destruct l as [[] n]; reflexivity). rewrite Hep. reflexivity. }
  assert (Hplain : plain_for false top') by (unfold top'; destruct l as [[] n]; repeat split).
  assert (Hsid : forall lim, same_id top' lim = false).
  { intros [j|]; [|reflexivity]. unfold top'. destruct l as [[] n]; unfold same_id; cbn [dlit set_ep id_of]; destruct j; reflexivity. }
  destruct ls0 as [|l0 r0].
  - (* one literal *)
    exists top'. split.
    + eapply run_elt_yield.
      * apply Hnt. unfold pos_of. lia.
      * apply Hnt. unfold pos_of. lia.
      * rewrite Hstk. cbn [length app rev cl chain_items map combine seq]. lia.
      * unfold process_target. rewrite Hstk. cbn [Nat.eqb orb].
        rewrite pt_loop_simplify; rewrite Hsimp; [|destruct Hplain as [H _]; exact H].
        cbn [app rev cl chain_items map combine seq length].
        rewrite pt_stop_comp; [reflexivity | destruct Hplain as [H _]; exact H | apply Hsid | destruct Hplain as [_ [H _]]; exact H].
      * destruct Hplain as [_ [H _]]; exact H.
    + unfold top'. rewrite strip_set_ep, strip_dlit. reflexivity.
  - (* an `and` of at least two literals *)
    exists (DBool (nextid s) (Nat.max TOP (ep_of top')) false (map dlit (l0 :: r0) ++ [top'])). split.
    + eapply run_elt_yield.
      * apply Hnt. unfold pos_of. lia.
      * apply Hnt. unfold pos_of. lia.
      * rewrite Hstk. cbn [length]. rewrite app_length. cbn [length]. lia.
      * unfold process_target. rewrite Hstk. cbn [Nat.eqb orb].
        rewrite pt_loop_simplify; rewrite Hsimp; [|destruct Hplain as [H _]; exact H].
        rewrite merge_first; [|assumption|apply Hsid|intros; exact I|discriminate].
        rewrite hd_chain_items by discriminate. rewrite map_snd_chain_items.
        rewrite pt_stop_comp; [reflexivity| | reflexivity | reflexivity].
        cbn [map app]. destruct (map dlit r0 ++ [top']) eqn:E; [destruct r0; discriminate|]. apply simplify_multi.
      * reflexivity.
    + cbn [strip]. rewrite map_app, map_strip_dlit. cbn [map]. unfold top'. rewrite strip_set_ep, strip_dlit.
      unfold alt_pt. destruct ((l0 :: r0) ++ [l]) as [|x [|y z]] eqn:E.
      * discriminate.
      * destruct r0; discriminate.
      * rewrite <- E. rewrite map_app. reflexivity.
Qed.

(* scenario 2: the last alternative when earlier alternatives have left their `or` clauses pending at the body *)
Lemma run_last : forall orj ce ls i s ors k1 d1 orest,
  ls <> [] -> ors = (k1, d1) :: orest -> 1 <= k1 -> k1 < nextid s ->
  (forall k d, In (k, d) orest -> k <> k1) ->
  stack s = rev (cl true (pos_of (i + 2 * length ls)) ors) ++ [DComp 0 0] ->
  targets s = [(pos_of (i + 2 * length ls), k1)] ->
  ce = pos_of (i + 2 * length ls) ->
  (forall k, k < length ls -> existsb (Nat.eqb (pos_of (i + 2 * k + 1))) orj = false) ->
  exists final, run orj ce [] (and_back ls ++ [ILoadElt; IYield]) i s = RGen (DElt 0 0) [[final]] /\
                strip final = PBool true (map strip (map snd ors) ++ [alt_pt ls]).
Proof.
  intros orj ce ls i s ors k1 d1 orest Hne Hors Hk1 Hk1n Hrest Hst Hts Hce Horj.
  destruct (exists_last Hne) as [ls0 [[neg n] Hls]]. subst ls.
  rewrite app_length in *. cbn [length] in *.
  set (body := pos_of (i + 2 * (length ls0 + 1))) in *.
  rewrite (and_back_chain _ 0). 
  assert (Hcc : chain_code (mk_jump true 0) (ls0 ++ [Lit neg n]) = chain_code (mk_jump true 0) ls0 ++ [ILoad n; IBack neg]).
  { clear. induction ls0 as [|[a b] r IH]; [reflexivity|]. cbn [app chain_code]. rewrite IH. reflexivity. }
  rewrite Hcc, <- app_assoc.
  assert (Hleb : forall k, k < length ls0 + 1 -> Nat.leb ce (pos_of (i + 2 * k + 1)) = false).
  { intros k Hk. apply Nat.leb_gt. rewrite Hce. unfold body, pos_of. lia. }
  rewrite run_chain.
  2:{ intros k Hk. unfold has_target. rewrite Hts. cbn [tget].
      replace (body =? pos_of (i + k)) with false by (symmetry; apply Nat.eqb_neq; unfold body, pos_of; lia). reflexivity. }
  2:{ intros k Hk. unfold eff_target, TOP, pos_of. lia. }
  2:{ intros k Hk. split; [apply Hleb; lia | apply Horj; lia]. }
  cbn [eff_target]. rewrite Hst, Hts.
  set (s1 := {| stack := _; targets := _; nextid := _ |}).
  set (i1 := i + 2 * length ls0).
  assert (Hb_top : (body =? TOP) = false) by (apply Nat.eqb_neq; unfold body, TOP, pos_of; lia).
  assert (Hgetb : tget (targets s1) body = Some k1).
  { unfold s1. cbn [targets]. destruct ls0.
    - cbn [tget]. rewrite Nat.eqb_refl. reflexivity.
    - rewrite tget_tsetdefault. cbn [tget]. rewrite Nat.eqb_refl. reflexivity. }
  assert (Hnt1 : forall p, p <> body -> 2 <= p -> has_target s1 p = false).
  { intros p Hp Hp2. unfold has_target, s1. cbn [targets]. destruct ls0.
    - cbn [tget]. replace (body =? p) with false by (symmetry; apply Nat.eqb_neq; congruence). reflexivity.
    - rewrite tget_tsetdefault. cbn [tget]. replace (body =? p) with false by (symmetry; apply Nat.eqb_neq; congruence).
      replace (TOP =? p) with false by (symmetry; apply Nat.eqb_neq; unfold TOP; lia). reflexivity. }
  cbn [app].
  rewrite (run_cons orj ce (ILoad n) _ i1 s1 (push (DAtom 0 0 n) s1) eq_refl
             (step_load orj ce n i1 s1 ltac:(apply Hnt1; unfold body, i1, pos_of; lia))).
  (* the merged operand of the last alternative and the complete `or` *)
  set (dl := dlit (Lit neg n)).
  set (lastnode := match ls0 with [] => dl | _ => DBool (nextid s) (Nat.max TOP (ep_of dl)) false (map dlit ls0 ++ [dl]) end).
  set (orall := DBool k1 (Nat.max body (ep_of lastnode)) true (map snd ors ++ [lastnode])).
  assert (Hpl_last : plain_for true lastnode).
  { unfold lastnode. destruct ls0 as [|l0 r0]; [apply plain_dlit|].
    repeat split; [|discriminate]. cbn [map app]. destruct (map dlit r0 ++ [dl]) eqn:E; [destruct r0; discriminate|]. apply simplify_multi. }
  assert (Hsid_last : same_id lastnode (Some k1) = false).
  { unfold lastnode. destruct ls0; [apply same_id_dlit|]. apply same_id_not_lim. cbn [id_of not_lim]. lia. }
  assert (Hsimp_orall : simplify orall = orall).
  { unfold orall. rewrite Hors. cbn [map snd app]. destruct (map snd orest ++ [lastnode]) eqn:E; [destruct orest; discriminate|]. apply simplify_multi. }
  assert (Hloop : pt_loop false body (Some k1) dl (stack s1) (tdel (targets s1) body) = Some ([orall; DComp 0 0], tdel (targets s1) body)).
  { unfold s1 at 1. cbn [stack].
    assert (Hm2 : forall top, plain_for true top -> same_id top (Some k1) = false ->
              pt_loop false body (Some k1) top (rev (cl true body ors) ++ [DComp 0 0]) (tdel (targets s1) body) =
              Some ([DBool k1 (Nat.max body (ep_of top)) true (map snd ors ++ [top]); DComp 0 0], tdel (targets s1) body)).
    { intros top Hp Hs. rewrite merge_first; [|assumption|assumption| |rewrite Hors; discriminate].
      - rewrite Hors. cbn [hd fst]. rewrite pt_stop_lim; [reflexivity| |].
        + cbn [map snd app]. destruct (map snd orest ++ [top]) eqn:E; [destruct orest; discriminate|]. apply simplify_multi.
        + unfold same_id. cbn [id_of]. rewrite Nat.eqb_refl. destruct k1; [lia|reflexivity].
      - rewrite Hors. cbn [tl]. intros k d Hin. cbn [not_lim]. apply (Hrest k d Hin). }
    destruct ls0 as [|l0 r0].
    - cbn [chain_items length seq map combine cl rev app]. unfold orall, lastnode. apply Hm2; [apply plain_dlit | apply same_id_dlit].
    - rewrite merge_first; [|apply plain_dlit|apply same_id_dlit| |discriminate].
      + rewrite hd_chain_items by discriminate. rewrite map_snd_chain_items. fold lastnode. unfold orall. apply Hm2; assumption.
      + intros k d Hin. rewrite chain_items_cons in Hin. cbn [tl] in Hin. apply chain_items_ids in Hin. cbn [not_lim]. lia. }
  assert (Hstep : step orj ce [] (IBack neg) (S i1) (push (DAtom 0 0 n) s1) =
                  Some (mkState [DBool (nextid s1) TOP false [orall]; DComp 0 0] (tsetdefault (tdel (targets s1) body) TOP (nextid s1)) (S (nextid s1)))).
  { unfold step. rewrite has_target_push. rewrite Hnt1 by (unfold body, i1, pos_of; lia).
    replace (pos_of (S (S i1))) with body by (unfold body, i1, pos_of; lia).
    apply (cond_jump_general orj ce (pos_of (S i1)) body TOP neg n s1 false dl).
    - replace (S i1) with (i + 2 * length ls0 + 1) by (unfold i1; lia). apply Hleb. lia.
    - replace (S i1) with (i + 2 * length ls0 + 1) by (unfold i1; lia). rewrite Horj by lia. unfold dl. destruct neg; reflexivity.
    - assert (Hht : has_target s1 body = true) by (unfold has_target; rewrite Hgetb; reflexivity).
      rewrite Hht.
      rewrite (process_target_lim body (push dl s1) dl (stack s1) k1 eq_refl ltac:(unfold body, pos_of; lia) Hgetb).
      cbn [push targets nextid]. rewrite Hloop. reflexivity. }
  rewrite (run_cons orj ce (IBack neg) _ (S i1) _ _ eq_refl Hstep).
  exists orall. split.
  - set (s2 := {| stack := _; targets := _; nextid := _ |}).
    assert (Hnt2 : forall p, 2 <= p -> has_target s2 p = false).
    { intros p Hp. unfold has_target, s2. cbn [targets]. rewrite tget_tsetdefault.
      destruct (Nat.eq_dec p body) as [->|Hpb].
      - rewrite tget_tdel_same. rewrite Nat.eqb_sym, Hb_top. reflexivity.
      - rewrite tget_tdel_other by congruence. specialize (Hnt1 p Hpb Hp). unfold has_target in Hnt1.
        destruct (tget (targets s1) p); [discriminate|]. replace (TOP =? p) with false by (symmetry; apply Nat.eqb_neq; unfold TOP; lia). reflexivity. }
    eapply run_elt_yield.
    + apply Hnt2. unfold pos_of. lia.
    + apply Hnt2. unfold pos_of. lia.
    + unfold s2. cbn [stack length]. lia.
    + unfold process_target, s2. cbn [stack targets nextid Nat.eqb orb].
      rewrite pt_loop_simplify.
      * assert (Hs : simplify (DBool (nextid s1) TOP false [orall]) = orall).
        { cbn [simplify]. unfold orall at 1. cbn [ep_of].
          replace (Nat.max body (ep_of lastnode) <? TOP) with false; [reflexivity|].
          symmetry. apply Nat.ltb_ge. unfold body, TOP, pos_of. lia. }
        rewrite Hs. rewrite pt_stop_comp; [reflexivity | assumption | reflexivity | reflexivity].
      * assert (Hs : simplify (DBool (nextid s1) TOP false [orall]) = orall).
        { cbn [simplify]. unfold orall at 1. cbn [ep_of].
          replace (Nat.max body (ep_of lastnode) <? TOP) with false; [reflexivity|].
          symmetry. apply Nat.ltb_ge. unfold body, TOP, pos_of. lia. }
        rewrite Hs. assumption.
    + reflexivity.
  - unfold orall. cbn [strip]. rewrite map_app. cbn [map]. do 2 f_equal.
    unfold lastnode. destruct ls0 as [|l0 r0].
    + unfold dl. rewrite strip_dlit. reflexivity.
    + cbn [strip]. rewrite map_app, map_strip_dlit. cbn [map]. unfold dl. rewrite strip_dlit.
      unfold alt_pt. destruct ((l0 :: r0) ++ [Lit neg n]) as [|x [|y z]] eqn:E.
      * discriminate.
      * destruct r0; discriminate.
      * rewrite <- E. rewrite map_app. reflexivity.
Qed.

(* ------------------------------------------------------------------ all alternatives *)
Definition expected (ors : list (nat * dn)) (alts : list (list lit)) : ptree :=
  match ors, alts with
  | [], [ls] => alt_pt ls
  | _, _ => PBool true (map strip (map snd ors) ++ map alt_pt alts)
  end.

Definition ors_ok (ors : list (nat * dn)) (n : nat) : Prop :=
  StronglySorted lt (map fst ors) /\ forall k, In k (map fst ors) -> 1 <= k < n.

Lemma existsb_false_of_not_true : forall (f : nat -> bool) l, existsb f l <> true -> existsb f l = false.
Proof. intros f l H. destruct (existsb f l); congruence. Qed.

Lemma run_dnf_from : forall alts orj ce i s ors,
  wf_alts alts ->
  ce = pos_of (i + 2 * total_lits alts) ->
  (forall p, pos_of i <= p -> (existsb (Nat.eqb p) orj = true <-> In p (epos alts i))) ->
  stack s = rev (cl true ce ors) ++ [DComp 0 0] ->
  targets s = match ors with [] => [] | x :: _ => [(ce, fst x)] end ->
  1 <= nextid s -> ors_ok ors (nextid s) ->
  exists final, run orj ce [] (dnf_code alts (pos_of i) ce ++ [ILoadElt; IYield]) i s = RGen (DElt 0 0) [[final]] /\
                strip final = expected ors alts.
Proof.
  induction alts as [|ls r IH]; intros orj ce i s ors [Hne Hall] Hce Horj Hst Hts Hid [Hsorted Hrange]; [congruence|].
  inversion Hall as [|a0 b0 Hls Hr]; subst a0 b0.
  assert (Hl : 1 <= length ls) by (destruct ls; [congruence | cbn [length]; lia]).
  destruct r as [|ls2 r2].
  - (* the last alternative *)
    cbn [dnf_code]. rewrite total_lits_cons in Hce. cbn [total_lits] in Hce. rewrite Nat.add_0_r in Hce.
    assert (Hnor : forall k, k < length ls -> existsb (Nat.eqb (pos_of (i + 2 * k + 1))) orj = false).
    { intros k Hk. apply existsb_false_of_not_true. intro H. apply Horj in H; [destruct H | unfold pos_of; lia]. }
    destruct ors as [|[k1 d1] orest].
    + destruct (run_single orj ce ls i s Hls Hid Hst Hts) as [final [Hrun Hstrip]].
      * intros k Hk. split; [|apply Hnor; assumption]. apply Nat.leb_gt. rewrite Hce. unfold pos_of. lia.
      * exists final. split; assumption.
    + cbn [map fst] in *. inversion Hsorted as [|a1 l1 Hs' Hlt]; subst a1 l1.
      destruct (run_last orj ce ls i s ((k1, d1) :: orest) k1 d1 orest Hls eq_refl) as [final [Hrun Hstrip]].
      * apply Hrange. left. reflexivity.
      * apply Hrange. left. reflexivity.
      * intros k d Hin. rewrite Forall_forall in Hlt. assert (k1 < k); [|lia]. apply Hlt. apply in_map_iff. exists (k, d). split; [reflexivity|assumption].
      * rewrite <- Hce. assumption.
      * rewrite <- Hce. assumption.
      * assumption.
      * assumption.
      * exists final. split; [assumption|]. rewrite Hstrip. reflexivity.
  - (* an alternative followed by others *)
    assert (Hwf2 : wf_alts (ls2 :: r2)) by (split; [discriminate|assumption]).
    assert (Ht : 1 <= total_lits (ls2 :: r2)) by (apply total_lits_pos; assumption).
    rewrite total_lits_cons in Hce.
    change (dnf_code (ls :: ls2 :: r2) (pos_of i) ce) with
      (alt_fwd ls (pos_of i + 2 * length ls) ce ++ dnf_code (ls2 :: r2) (pos_of i + 2 * length ls) ce).
    replace (pos_of i + 2 * length ls) with (pos_of (i + 2 * length ls)) by (unfold pos_of; lia).
    rewrite <- app_assoc.
    assert (HE : In (pos_of (i + 2 * length ls - 1)) (epos (ls :: ls2 :: r2) i)) by (cbn [epos]; left; reflexivity).
    assert (Hin_rest : forall p, In p (epos (ls2 :: r2) (i + 2 * length ls)) -> pos_of (i + 2 * length ls) < p).
    { intros p Hp. apply (epos_bounds _ _ _ Hr) in Hp. lia. }
    rewrite run_alt; try assumption.
    + (* continue with the remaining alternatives *)
      set (newid := nextid s + length ls - 1).
      set (A := alt_node (nextid s) (pos_of (i + 2 * length ls)) ls).
      destruct (IH orj ce (i + 2 * length ls)
                   {| stack := DBool newid ce true [A] :: stack s; targets := tsetdefault (targets s) ce newid; nextid := nextid s + length ls |}
                   (ors ++ [(newid, A)]) Hwf2) as [final [Hrun Hstrip]].
      * rewrite Hce. f_equal. lia.
      * intros p Hp. rewrite Horj by (unfold pos_of in *; lia). cbn [epos]. split.
        -- intros [H|H]; [unfold pos_of in *; lia | assumption].
        -- intro H. right. assumption.
      * cbn [stack]. rewrite Hst. unfold cl. rewrite map_app, rev_app_distr. reflexivity.
      * cbn [targets]. rewrite Hts. destruct ors as [|[k1 d1] orest]; cbn [app fst].
        -- reflexivity.
        -- unfold tsetdefault. cbn [tget]. rewrite Nat.eqb_refl. reflexivity.
      * cbn [nextid]. lia.
      * cbn [nextid]. split.
        -- rewrite map_app. cbn [map fst]. clear - Hsorted Hrange Hl. unfold newid.
           induction (map fst ors) as [|a l IHl]; cbn [app]; [repeat constructor|].
           inversion Hsorted as [|a1 l1 Hs1 Hf1]; subst a1 l1. constructor.
           ++ apply IHl; [assumption|]. intros k Hk. apply Hrange. right. assumption.
           ++ apply Forall_app. split; [assumption|]. constructor; [|constructor].
              assert (1 <= a < nextid s) by (apply Hrange; left; reflexivity). lia.
        -- intros k Hk. rewrite map_app in Hk. apply in_app_or in Hk. destruct Hk as [Hk|[Hk|[]]].
           ++ apply Hrange in Hk. lia.
           ++ subst k. cbn [fst]. unfold newid. lia.
      * exists final. split; [exact Hrun|]. rewrite Hstrip. unfold expected.
        rewrite !map_app. cbn [map snd]. unfold A. rewrite strip_alt_node.
        destruct ors as [|o1 orest]; cbn [app]; [reflexivity|].
        rewrite <- app_assoc. reflexivity.
    + (* nothing pending inside the alternative *)
      intros k Hk. unfold has_target. rewrite Hts. destruct ors as [|[k1 d1] orest]; [reflexivity|].
      cbn [tget fst]. replace (ce =? pos_of (i + k)) with false; [reflexivity|].
      symmetry. apply Nat.eqb_neq. rewrite Hce. unfold pos_of. lia.
    + intros k Hk. rewrite Hce. unfold pos_of. lia.
    + intros k Hk. apply Nat.leb_gt. rewrite Hce. unfold pos_of. lia.
    + intros k Hk. apply existsb_false_of_not_true. intro H. apply Horj in H; [|unfold pos_of; lia].
      cbn [epos] in H. destruct H as [H|H]; [unfold pos_of in H; lia|]. apply Hin_rest in H. unfold pos_of in H. lia.
    + apply Horj; [unfold pos_of; lia | assumption].
Qed.

(* ------------------------------------------------------------------ back to source expressions *)
Fixpoint to_bexp_list (l : list ptree) : option (list bexp) :=
  match l with
  | [] => Some []
  | x :: r => match to_bexp x, to_bexp_list r with Some a, Some b => Some (a :: b) | _, _ => None end
  end.

Lemma to_bexp_PBool : forall o vs,
  to_bexp (PBool o vs) = match to_bexp_list vs with Some l => Some (if o then Or l else And l) | None => None end.
Proof.
  intros o vs. cbn [to_bexp].
  assert (H : (fix go (l : list ptree) : option (list bexp) :=
                 match l with
                 | [] => Some []
                 | x :: r => match to_bexp x, go r with Some a, Some b => Some (a :: b) | _, _ => None end
                 end) vs = to_bexp_list vs).
  { induction vs as [|x r IH]; [reflexivity|]. cbn [to_bexp_list]. rewrite <- IH. reflexivity. }
  rewrite H. reflexivity.
Qed.

Lemma to_bexp_lit : forall l, to_bexp (lit_pt l) = Some (lit_bexp l).
Proof. intros [[] n]; reflexivity. Qed.

Lemma to_bexp_list_lits : forall ls, to_bexp_list (map lit_pt ls) = Some (map lit_bexp ls).
Proof. induction ls as [|l r IH]; [reflexivity|]. cbn [map to_bexp_list]. rewrite to_bexp_lit, IH. reflexivity. Qed.

Lemma to_bexp_alt : forall ls, ls <> [] -> to_bexp (alt_pt ls) = Some (mk_and ls).
Proof.
  intros [|l [|l2 r]] H; [congruence| |].
  - apply to_bexp_lit.
  - unfold alt_pt, mk_and. rewrite to_bexp_PBool, to_bexp_list_lits. reflexivity.
Qed.

Lemma to_bexp_list_alts : forall alts, Forall (fun ls => ls <> []) alts -> to_bexp_list (map alt_pt alts) = Some (map mk_and alts).
Proof.
  induction alts as [|ls r IH]; intro H; [reflexivity|]. inversion H; subst.
  cbn [map to_bexp_list]. rewrite to_bexp_alt by assumption. rewrite IH by assumption. reflexivity.
Qed.

Lemma to_bexp_expected : forall alts, wf_alts alts -> to_bexp (expected [] alts) = Some (dnf alts).
Proof.
  intros alts [Hne Hall]. destruct alts as [|ls [|ls2 r]]; [congruence| |].
  - inversion Hall; subst. cbn [expected]. unfold dnf. cbn [map mk_or_of]. apply to_bexp_alt. assumption.
  - unfold expected. cbn [map app]. rewrite to_bexp_PBool.
    change (alt_pt ls :: alt_pt ls2 :: map alt_pt r) with (map alt_pt (ls :: ls2 :: r)).
    rewrite to_bexp_list_alts by assumption. reflexivity.
Qed.

(* no COPY, no value-context jump *)
Fixpoint vj_from (l : list instr) (i : nat) : list nat :=
  match l with [] => [] | x :: r => match x with ICopy => pos_of (S i) :: vj_from r (S i) | _ => vj_from r (S i) end end.

Lemma value_jumps_from : forall code, value_jumps code = vj_from code 0.
Proof.
  intro code. unfold value_jumps. generalize 0 as i. induction code as [|x r IH]; intro i; [reflexivity|].
  destruct x; cbn [vj_from]; rewrite <- (IH (S i)); reflexivity.
Qed.

Lemma vj_from_no_copy : forall l i, ~ In ICopy l -> vj_from l i = [].
Proof.
  induction l as [|x r IH]; intros i H; [reflexivity|].
  cbn [vj_from]. destruct x; try (apply IH; intro H1; apply H; right; exact H1). exfalso. apply H. left. reflexivity.
Qed.

Lemma no_copy_and_back : forall ls, ~ In ICopy (and_back ls).
Proof. induction ls as [|[neg n] r IH]; intro H; [exact H|]. cbn [and_back] in H. destruct H as [H|[H|H]]; try discriminate. exact (IH H). Qed.
Lemma no_copy_alt_fwd : forall ls a b, ~ In ICopy (alt_fwd ls a b).
Proof.
  induction ls as [|[neg n] r IH]; intros a b H; [exact H|].
  cbn [alt_fwd] in H. destruct r as [|y s].
  - destruct H as [H|[H|H]]; try discriminate. exact H.
  - destruct H as [H|[H|H]]; try discriminate. exact (IH _ _ H).
Qed.
Lemma no_copy_dnf_code : forall alts p body, ~ In ICopy (dnf_code alts p body).
Proof.
  induction alts as [|ls r IH]; intros p body H; [exact H|].
  cbn [dnf_code] in H. destruct r as [|ls2 r2]; [exact (no_copy_and_back _ H)|].
  apply in_app_or in H. destruct H as [H|H]; [exact (no_copy_alt_fwd _ _ _ H) | exact (IH _ _ H)].
Qed.

(* ------------------------------------------------------------------ the round trip *)
Theorem roundtrip_dnf : forall alts, wf_alts alts -> decompile PFilter (dnf alts) = Some (dnf alts).
Proof.
  intros alts Hwf. unfold decompile. rewrite compile_dnf by assumption.
  unfold decompile_code. rewrite or_jumps_dnf by assumption.
  assert (Hvj : value_jumps (dnf_code alts 2 (2 + 2 * total_lits alts) ++ [ILoadElt; IYield]) = []).
  { rewrite value_jumps_from. apply vj_from_no_copy. intro H. apply in_app_or in H.
    destruct H as [H|[H|[H|[]]]]; try discriminate H. exact (no_copy_dnf_code _ _ _ H). }
  rewrite Hvj.
  assert (Hce : conditions_end (dnf_code alts 2 (2 + 2 * total_lits alts) ++ [ILoadElt; IYield]) = pos_of (0 + 2 * total_lits alts)).
  { rewrite conditions_end_from, ce_from_app, ce_from_dnf_code by assumption. reflexivity. }
  rewrite Hce.
  assert (Hcode : dnf_code alts 2 (2 + 2 * total_lits alts) = dnf_code alts (pos_of 0) (pos_of (0 + 2 * total_lits alts)))
    by (f_equal; unfold pos_of; lia).
  rewrite Hcode.
  destruct (run_dnf_from alts (rev (epos alts 0)) (pos_of (0 + 2 * total_lits alts)) 0 (init_state PFilter) [] Hwf eq_refl)
    as [final [Hrun Hstrip]].
  - intros p Hp. rewrite existsb_exists. split.
    + intros [x [Hx He]]. apply Nat.eqb_eq in He. subst x. apply in_rev. assumption.
    + intro H. exists p. split; [apply -> in_rev; assumption | apply Nat.eqb_refl].
  - reflexivity.
  - reflexivity.
  - cbn. lia.
  - split; [constructor | intros k []].
  - rewrite Hrun. cbn [extract map conj]. rewrite Hstrip. apply to_bexp_expected. assumption.
Qed.

(* the statement of the property on this family: the decompiled expression exists and means what the source means *)
Corollary roundtrip_dnf_meaning : forall alts, wf_alts alts ->
  exists e', decompile PFilter (dnf alts) = Some e' /\ forall rho, eval rho e' = eval rho (dnf alts).
Proof. intros alts H. exists (dnf alts). split; [apply roundtrip_dnf; assumption | reflexivity]. Qed.
