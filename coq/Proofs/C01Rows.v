(* C01/C02 - the statements against the reference reading, and their lifting to whole result lists over any table. *)
Require Import PonyV.Base.PyBase PonyV.Model.C01Expr PonyV.Model.C01Sql PonyV.Model.C01Translate PonyV.Model.C01Safe
               PonyV.Model.C01Eqb PonyV.Model.C01Query
               PonyV.Proofs.C01Base PonyV.Proofs.C01Ref PonyV.Proofs.C01Monad PonyV.Proofs.C01Ops PonyV.Proofs.C01Sound.
From Coq Require Import ZifyBool.

Lemma dec_enc : forall d v vt, has_vty v vt = true -> dec (TV vt) (enc d v) = v.
Proof.
  intros d v vt H. destruct v as [|z|s|b], vt; try discriminate H; try reflexivity;
    cbn [enc]; unfold bv; destruct (pg d); cbn; try reflexivity; destruct b; reflexivity.
Qed.

Lemma dec_enc_cond : forall d c, dec TCond (enc d (py_of_tv c)) = py_of_tv c.
Proof. intros d c. destruct c; cbn; unfold bv; destruct (pg d); reflexivity. Qed.

Section Ref.
Variable d : dname.
Hypothesis Hd : modelled d = true.

Theorem filter_ref : forall en e t, ty_of e = Some t -> boolable t = true ->
  env_ok en e = true -> safe d en e = true -> pos_ok en e = true ->
  exists conds, tr_filter d e = Some conds /\ where_truth d (encenv d en) conds = py_truthy e (ref_eval en e).
Proof.
  intros en e t Ht B Hen Hs Hp. destruct (filter_pony d Hd en e t Ht B Hen Hs) as [conds [E W]].
  exists conds. split; [exact E|]. rewrite W. apply pos_ok_same; exact Hp.
Qed.

Theorem project_ref : forall en e vt, ty_of e = Some (TV vt) ->
  env_ok en e = true -> safe d en e = true -> clean en e = true ->
  exists q, tr_project d e = Some q /\ qeval d (encenv d en) q = enc d (ref_eval en e) /\
            dec (TV vt) (qeval d (encenv d en) q) = ref_eval en e.
Proof.
  intros en e vt Ht Hen Hs Hc. destruct (project_pony d Hd en e vt Ht Hen Hs) as [q [E [Q T]]].
  exists q. unfold ref_eval. rewrite <- (clean_same en e Hc). split; [exact E|]. split; [exact Q|]. rewrite Q. apply dec_enc; exact T.
Qed.

Theorem project_cond_ref : forall en e, ty_of e = Some TCond ->
  env_ok en e = true -> safe d en e = true -> clean en e = true ->
  exists q, tr_project d e = Some q /\ qeval d (encenv d en) q = enc d (ref_eval en e) /\
            dec TCond (qeval d (encenv d en) q) = ref_eval en e.
Proof.
  intros en e Ht Hen Hs Hc. destruct (project_cond_pony d Hd en e Ht Hen Hs) as [q [E Q]].
  exists q. unfold ref_eval. rewrite <- (clean_same en e Hc). split; [exact E|]. split; [exact Q|]. rewrite Q.
  destruct (reval_typed true en e TCond Ht Hen) as [c ->]. apply dec_enc_cond.
Qed.

(* ------------------------------------------------------------------------------------------- result lists *)
Lemma filter_ext_in' : forall A (f g : A -> bool) l, (forall x, In x l -> f x = g x) -> filter f l = filter g l.
Proof.
  induction l as [|x l IH]; intro H; [reflexivity|]. cbn. rewrite (H x (or_introl eq_refl)), IH; [reflexivity|].
  intros y Hy. apply H. right. exact Hy.
Qed.

Lemma qv_eqb_enc : forall t x y, has_vty x t = true -> has_vty y t = true -> qv_eqb (enc d x) (enc d y) = pyv_eqb x y.
Proof.
  intros t x y Hx Hy. destruct x as [|a|a|a], y as [|b|b|b], t; try discriminate; cbn [enc]; try reflexivity;
    unfold bv; destruct (pg d); cbn; try reflexivity; destruct a, b; reflexivity.
Qed.

Lemma filter_map_comm : forall A B (f : A -> B) (p : B -> bool) (q : A -> bool) l,
  (forall x, In x l -> p (f x) = q x) -> filter p (map f l) = map f (filter q l).
Proof.
  induction l as [|x l IH]; intro H; [reflexivity|]. cbn. rewrite (H x (or_introl eq_refl)).
  rewrite IH by (intros y Hy; apply H; right; exact Hy). destruct (q x); reflexivity.
Qed.

Lemma dedup_incl : forall A (eqb : A -> A -> bool) l x, In x (dedup eqb l) -> In x l.
Proof.
  induction l as [|y l IH]; intros x H; [exact H|]. cbn in H. destruct H as [->|H]; [left; reflexivity|].
  right. apply IH. apply filter_In in H. tauto.
Qed.

Lemma dedup_enc : forall t l, Forall (fun v => has_vty v t = true) l ->
  dedup qv_eqb (map (enc d) l) = map (enc d) (dedup pyv_eqb l).
Proof.
  intros t l H. induction H as [|v l Hv Hl IH]; [reflexivity|]. cbn [map dedup]. f_equal. rewrite IH.
  apply filter_map_comm. intros y Hy. apply dedup_incl in Hy. rewrite Forall_forall in Hl. f_equal. apply (qv_eqb_enc t); auto.
Qed.

(* every row of the table is in the domain of the theorems *)
Definition row_ok (filt proj : expr) (en : env) : Prop :=
  env_ok en filt = true /\ safe d en filt = true /\ pos_ok en filt = true /\
  env_ok en proj = true /\ safe d en proj = true /\ clean en proj = true.

Theorem rows_ref : forall filt tf proj vt distinct table conds q,
  ty_of filt = Some tf -> boolable tf = true -> ty_of proj = Some (TV vt) ->
  tr_filter d filt = Some conds -> tr_project d proj = Some q ->
  Forall (row_ok filt proj) table ->
  sql_rows d distinct conds q table = map (enc d) (py_rows distinct filt proj table) /\
  map (dec (TV vt)) (sql_rows d distinct conds q table) = py_rows distinct filt proj table.
Proof.
  intros filt tf proj vt distinct table conds q Hf B Hp EC EQ Hall.
  rewrite Forall_forall in Hall.
  assert (FE : filter (fun en => where_truth d (encenv d en) conds) table = filter (fun en => py_truthy filt (ref_eval en filt)) table).
  { apply filter_ext_in'. intros en Hin. destruct (Hall en Hin) as [A1 [A2 [A3 _]]].
    destruct (filter_ref en filt tf Hf B A1 A2 A3) as [c [E' W]]. rewrite EC in E'. inversion E'; subst. exact W. }
  set (kept := filter (fun en => py_truthy filt (ref_eval en filt)) table) in *.
  assert (KIn : forall en, In en kept -> In en table) by (intros en H; apply filter_In in H; tauto).
  assert (ME : map (fun en => qeval d (encenv d en) q) kept = map (enc d) (map (fun en => ref_eval en proj) kept)).
  { rewrite map_map. apply map_ext_in. intros en Hin. destruct (Hall en (KIn en Hin)) as [_ [_ [_ [A4 [A5 A6]]]]].
    destruct (project_ref en proj vt Hp A4 A5 A6) as [q' [E' [Q _]]]. rewrite EQ in E'. inversion E'; subst. exact Q. }
  assert (TY : Forall (fun v => has_vty v vt = true) (map (fun en => ref_eval en proj) kept)).
  { rewrite Forall_map. apply Forall_forall. intros en Hin. destruct (Hall en (KIn en Hin)) as [_ [_ [_ [A4 [A5 A6]]]]].
    unfold ref_eval. rewrite <- (clean_same en proj A6). exact (reval_typed true en proj (TV vt) Hp A4). }
  assert (S : sql_rows d distinct conds q table = map (enc d) (py_rows distinct filt proj table)).
  { unfold sql_rows, py_rows. rewrite FE. fold kept. rewrite ME. destruct distinct; [apply (dedup_enc vt); exact TY|reflexivity]. }
  split; [exact S|]. rewrite S, map_map.
  assert (TY2 : Forall (fun v => has_vty v vt = true) (py_rows distinct filt proj table)).
  { unfold py_rows. fold kept. destruct distinct; [|exact TY]. apply Forall_forall. intros v Hv. apply dedup_incl in Hv.
    rewrite Forall_forall in TY. auto. }
  rewrite <- (map_id (py_rows distinct filt proj table)) at 2. apply map_ext_in. intros v Hv. rewrite Forall_forall in TY2. apply dec_enc; auto.
Qed.
End Ref.

(* ------------------------------------------------------------------------------------------- LIMIT / OFFSET *)
Lemma offset_only_skipn : forall d A (rows : list A) off, modelled d = true ->
  Z.of_nat (length rows) <= 18446744073709551615 -> offset_only d off rows = skipn off rows.
Proof.
  intros d A rows off Hd Hlen. unfold offset_only, unbounded_limit, sem_limit. destruct d; try discriminate; try reflexivity.
  apply firstn_all2. rewrite skipn_length. lia.
Qed.
