(* Lemmas about the string library and the receiving-side lexers / matchers of C06. *)
Require Import PonyV.Base.PyBase PonyV.Model.C06Str PonyV.Model.C06Lex.
From Coq Require Import ZifyBool.

(* ------------------------------------------------------------------------------------------------ replace_all *)

Lemma replace_all_nil : forall c b, replace_all c b [] = [].
Proof. reflexivity. Qed.

Lemma replace_all_cons : forall c b x s,
  replace_all c b (x :: s) = (if x =? c then b else [x]) ++ replace_all c b s.
Proof. reflexivity. Qed.

Lemma replace_all_app : forall c b s t, replace_all c b (s ++ t) = replace_all c b s ++ replace_all c b t.
Proof. intros c b s t. unfold replace_all. apply flat_map_app. Qed.

(* a string without c is unchanged *)
Lemma replace_all_absent : forall c b s, mem_char c s = false -> replace_all c b s = s.
Proof.
  intros c b s. induction s as [|x s IH]; intro H; [reflexivity|].
  cbn [mem_char existsb] in H. apply orb_false_iff in H. destruct H as [Hx Hs].
  rewrite replace_all_cons, Hx. cbn [app]. f_equal. apply IH. exact Hs.
Qed.

(* doubling of two different characters commutes *)
Lemma double_comm : forall a b s, a <> b ->
  replace_all a [a; a] (replace_all b [b; b] s) = replace_all b [b; b] (replace_all a [a; a] s).
Proof.
  intros a b s Hab. induction s as [|x s IH]; [reflexivity|].
  rewrite !replace_all_cons.
  destruct (x =? b) eqn:Exb; destruct (x =? a) eqn:Exa; rewrite !replace_all_app, IH; f_equal.
  - lia.
  - assert (x = b) by lia. subst x. cbn. rewrite Exa, Z.eqb_refl. reflexivity.
  - assert (x = a) by lia. subst x. cbn. rewrite Exb, Z.eqb_refl. reflexivity.
  - cbn. rewrite Exa, Exb. reflexivity.
Qed.

(* ------------------------------------------------------------------------------------------------ quoted literals *)

(* the core fact: after the opening delimiter, the doubled text followed by the delimiter and a continuation that does
   not start with the delimiter reads back exactly s and stops in front of the continuation *)
Lemma lex_body_doubled : forall q s post,
  (forall r, post <> q :: r) ->
  lex_body q (replace_all q [q; q] s ++ q :: post) = Some (s, post).
Proof.
  intros q s post Hpost. induction s as [|x s IH].
  - cbn [replace_all flat_map app lex_body]. rewrite Z.eqb_refl.
    destruct post as [|d post']; [reflexivity|].
    destruct (d =? q) eqn:E; [|reflexivity].
    exfalso. apply (Hpost post'). f_equal. lia.
  - rewrite replace_all_cons. destruct (x =? q) eqn:E.
    + assert (x = q) by lia. subst x. cbn [app lex_body]. rewrite Z.eqb_refl.
      rewrite IH. reflexivity.
    + cbn [app lex_body]. rewrite E, IH. reflexivity.
Qed.

Lemma lex_quoted_doubled : forall q s post,
  (forall r, post <> q :: r) ->
  lex_quoted q (q :: replace_all q [q; q] s ++ q :: post) = Some (s, post).
Proof.
  intros. cbn [lex_quoted]. rewrite Z.eqb_refl. apply lex_body_doubled. assumption.
Qed.

Lemma lex_whole_doubled : forall q s, lex_whole q (q :: replace_all q [q; q] s ++ [q]) = Some s.
Proof.
  intros. unfold lex_whole. rewrite lex_quoted_doubled; [reflexivity|]. intros r H; discriminate H.
Qed.

(* ------------------------------------------------------------------------------------------------ MySQL literal *)

Lemma lex_mysql_body_doubled : forall s post,
  mem_char 92 s = false -> (forall r, post <> 39 :: r) ->
  lex_mysql_body (replace_all 39 [39; 39] s ++ 39 :: post) = Some (s, post).
Proof.
  intros s post Hs Hpost. induction s as [|x s IH].
  - cbn [replace_all flat_map app lex_mysql_body]. cbn.
    destruct post as [|d post']; [reflexivity|].
    destruct (d =? 39) eqn:E; [|reflexivity].
    exfalso. apply (Hpost post'). f_equal. lia.
  - cbn [mem_char existsb] in Hs. apply orb_false_iff in Hs. destruct Hs as [Hx Hs].
    specialize (IH Hs). rewrite replace_all_cons. destruct (x =? 39) eqn:E.
    + assert (x = 39) by lia. subst x. cbn [app lex_mysql_body]. cbn - [lex_mysql_body replace_all].
      change (mem_char 92 s = false) in Hs. rewrite IH. reflexivity.
    + cbn [app lex_mysql_body]. rewrite Hx, E, IH. reflexivity.
Qed.

(* ------------------------------------------------------------------------------------------------ %-substitution *)

Definition opt_app {A} (l : list A) (o : option (list A)) : option (list A) :=
  match o with Some r => Some (l ++ r) | None => None end.

(* text in which every % was doubled comes out of the driver's formatting step as the original characters,
   creates no argument slot, and leaves the scanner in text mode for what follows *)
Lemma fmt_go_doubled : forall s t,
  fmt_go MText (replace_all 37 [37; 37] s ++ t) = opt_app (map FChar s) (fmt_go MText t).
Proof.
  intros s t. induction s as [|x s IH].
  - cbn. destruct (fmt_go MText t); reflexivity.
  - rewrite replace_all_cons. destruct (x =? 37) eqn:E.
    + assert (x = 37) by lia. subst x. cbn [app fmt_go]. cbn - [fmt_go replace_all].
      rewrite IH. destruct (fmt_go MText t); reflexivity.
    + cbn [app fmt_go]. rewrite E, IH. destruct (fmt_go MText t); reflexivity.
Qed.

Lemma ftoks_text_chars : forall s, ftoks_text (map FChar s) = Some s.
Proof. induction s as [|x s IH]; cbn; [reflexivity|]. rewrite IH. reflexivity. Qed.

Lemma fmt_subst_doubled : forall s, fmt_subst (replace_all 37 [37; 37] s) = Some s.
Proof.
  intros s. unfold fmt_subst, fmt_scan. rewrite <- (app_nil_r (replace_all 37 [37; 37] s)), fmt_go_doubled.
  cbn. rewrite app_nil_r. apply ftoks_text_chars.
Qed.

(* ------------------------------------------------------------------------------------------------ LIKE *)

Fixpoint strip_prefix (v s : str) : option str :=
  match v, s with
  | [], _ => Some s
  | x :: v', y :: s' => if y =? x then strip_prefix v' s' else None
  | _ :: _, [] => None
  end.

Lemma strip_prefix_some : forall v s r, strip_prefix v s = Some r <-> s = v ++ r.
Proof.
  induction v as [|x v IH]; intros s r; cbn.
  - split; intro H; [inversion H; reflexivity | subst; reflexivity].
  - destruct s as [|y s]; [split; intro H; discriminate H|].
    destruct (y =? x) eqn:E.
    + rewrite IH. split; intro H; [subst; f_equal; lia | inversion H; reflexivity].
    + split; intro H; [discriminate H | inversion H; lia].
Qed.

Lemma any_suffix_true : forall f s, any_suffix f s = true <-> exists a b, s = a ++ b /\ f b = true.
Proof.
  intros f s. induction s as [|x s IH]; cbn [any_suffix].
  - rewrite orb_false_r. split.
    + intro H. exists [], []. split; [reflexivity|exact H].
    + intros (a & b & Hab & Hf). symmetry in Hab. apply app_eq_nil in Hab. destruct Hab; subst. exact Hf.
  - rewrite orb_true_iff, IH. split.
    + intros [H | (a & b & Hab & Hf)].
      * exists [], (x :: s). split; [reflexivity|exact H].
      * exists (x :: a), b. split; [subst; reflexivity|exact Hf].
    + intros (a & b & Hab & Hf). destruct a as [|y a].
      * left. cbn in Hab. subst b. exact Hf.
      * right. inversion Hab. subst. exists a, b. split; [reflexivity|exact Hf].
Qed.

(* Pony's LIKE escaping, character by character *)
Definition esc1 (c : Z) : str := if (c =? 33) || (c =? 37) || (c =? 95) then [33; c] else [c].
Definition like_escape (v : str) : str := flat_map esc1 v.

Lemma replace_chain_escape : forall v,
  replace_all 95 [33; 95] (replace_all 37 [33; 37] (replace_all 33 [33; 33] v)) = like_escape v.
Proof.
  induction v as [|x v IH]; [reflexivity|].
  unfold like_escape in *. cbn [flat_map]. rewrite replace_all_cons, !replace_all_app, IH. f_equal.
  unfold esc1. destruct (x =? 33) eqn:E1.
  - assert (x = 33) by lia. subst x. reflexivity.
  - destruct (x =? 37) eqn:E2.
    + assert (x = 37) by lia. subst x. reflexivity.
    + destruct (x =? 95) eqn:E3.
      * assert (x = 95) by lia. subst x. reflexivity.
      * cbn. rewrite E2. cbn. rewrite E3. reflexivity.
Qed.

(* an escaped value in front of a pattern matches exactly that value in front of the subject *)
Lemma like_escaped : forall v p s,
  like_match (Some 33) (like_escape v ++ p) s =
  match strip_prefix v s with Some r => like_match (Some 33) p r | None => false end.
Proof.
  induction v as [|x v IH]; intros p s; [reflexivity|].
  unfold like_escape in *. cbn [flat_map strip_prefix]. unfold esc1 at 1.
  destruct ((x =? 33) || (x =? 37) || (x =? 95)) eqn:E.
  - cbn [app like_match is_esc]. rewrite Z.eqb_refl.
    destruct s as [|y s]; [reflexivity|]. destruct (y =? x) eqn:Eyx; cbn [andb]; [apply IH | reflexivity].
  - apply orb_false_iff in E. destruct E as [E E3]. apply orb_false_iff in E. destruct E as [E1 E2].
    cbn [app like_match is_esc]. rewrite E1, E2, E3.
    destruct s as [|y s]; [reflexivity|]. destruct (y =? x) eqn:Eyx; cbn [andb]; [apply IH | reflexivity].
Qed.

(* a value without % and _ (and without the escape character in force) in front of a pattern *)
Lemma like_plain_esc : forall esc v p s,
  mem_char 37 v = false -> mem_char 95 v = false -> existsb (is_esc esc) v = false ->
  like_match esc (v ++ p) s =
  match strip_prefix v s with Some r => like_match esc p r | None => false end.
Proof.
  induction v as [|x v IH]; intros p s H37 H95 He; [reflexivity|].
  cbn [mem_char existsb] in H37, H95, He. apply orb_false_iff in H37, H95, He.
  destruct H37 as [E2 H37], H95 as [E3 H95], He as [E1 He].
  cbn [app like_match strip_prefix]. rewrite E1, E2, E3.
  destruct s as [|y s]; [reflexivity|]. destruct (y =? x) eqn:Eyx; cbn [andb]; [apply IH; assumption | reflexivity].
Qed.

Lemma like_plain : forall v p s,
  mem_char 37 v = false -> mem_char 95 v = false ->
  like_match None (v ++ p) s =
  match strip_prefix v s with Some r => like_match None p r | None => false end.
Proof.
  intros v p s H1 H2. apply like_plain_esc; try assumption.
  clear. induction v as [|x v IH]; [reflexivity | exact IH].
Qed.

Lemma like_percent : forall esc p s, is_esc esc 37 = false ->
  like_match esc (37 :: p) s = any_suffix (like_match esc p) s.
Proof. intros esc p s H. cbn [like_match]. rewrite H. reflexivity. Qed.

Lemma like_percent_end : forall esc s, is_esc esc 37 = false -> like_match esc [37] s = true.
Proof.
  intros esc s H. rewrite like_percent by exact H. apply any_suffix_true. exists s, []. split; [symmetry; apply app_nil_r | reflexivity].
Qed.

Lemma like_nil : forall esc s, like_match esc [] s = true <-> s = [].
Proof. intros esc s. destruct s; cbn; split; intro H; try reflexivity; discriminate H. Qed.

(* the three pattern shapes, for a matcher `m` that strips the value *)
Section Shapes.
Variable esc : option Z.
Variable ev : str.      (* the value as written in the pattern *)
Variable v : str.       (* the value *)
Hypothesis Hesc : is_esc esc 37 = false.
Hypothesis Hstrip : forall p s, like_match esc (ev ++ p) s = match strip_prefix v s with Some r => like_match esc p r | None => false end.

Lemma shape_prefix : forall s, like_match esc (ev ++ [37]) s = true <-> is_prefix v s.
Proof.
  intro s. rewrite Hstrip. unfold is_prefix. split.
  - destruct (strip_prefix v s) as [r|] eqn:E; [|discriminate]. intros _. exists r. apply strip_prefix_some. exact E.
  - intros [b Hb]. apply strip_prefix_some in Hb. rewrite Hb. apply like_percent_end. exact Hesc.
Qed.

Lemma shape_suffix : forall s, like_match esc (37 :: ev) s = true <-> is_suffix v s.
Proof.
  intro s. rewrite like_percent by exact Hesc. rewrite any_suffix_true. unfold is_suffix. split.
  - intros (a & b & Hab & Hm). rewrite <- (app_nil_r ev), Hstrip in Hm.
    destruct (strip_prefix v b) as [r|] eqn:E; [|discriminate]. apply like_nil in Hm. subst r.
    apply strip_prefix_some in E. rewrite app_nil_r in E. subst b. exists a. exact Hab.
  - intros [a Ha]. exists a, v. split; [exact Ha|]. rewrite <- (app_nil_r ev), Hstrip.
    assert (E : strip_prefix v v = Some []) by (apply strip_prefix_some; symmetry; apply app_nil_r).
    rewrite E. reflexivity.
Qed.

Lemma shape_infix : forall s, like_match esc (37 :: ev ++ [37]) s = true <-> is_infix v s.
Proof.
  intro s. rewrite like_percent by exact Hesc. rewrite any_suffix_true. unfold is_infix. split.
  - intros (a & b & Hab & Hm). apply shape_prefix in Hm. destruct Hm as [c Hc]. exists a, c. subst. reflexivity.
  - intros (a & b & Hab). exists a, (v ++ b). split; [exact Hab|]. apply shape_prefix. exists b. reflexivity.
Qed.
End Shapes.

(* ------------------------------------------------------------------------------------------------ hex *)

Lemma hex_val_digit : forall n, 0 <= n < 16 -> hex_val (hex_digit n) = Some n.
Proof.
  intros n H.
  assert (C : n = 0 \/ n = 1 \/ n = 2 \/ n = 3 \/ n = 4 \/ n = 5 \/ n = 6 \/ n = 7 \/ n = 8 \/ n = 9 \/ n = 10 \/ n = 11
              \/ n = 12 \/ n = 13 \/ n = 14 \/ n = 15) by lia.
  repeat (destruct C as [C | C]; [subst n; reflexivity|]). subst n; reflexivity.
Qed.

Lemma unhex_hexlify : forall bs, Forall (fun b => 0 <= b < 256) bs -> unhex (hexlify bs) = Some bs.
Proof.
  induction bs as [|b bs IH]; intro H; [reflexivity|].
  inversion H as [|? ? Hb Hbs]; subst. unfold hexlify in *. cbn [flat_map app unhex].
  rewrite !hex_val_digit.
  - rewrite (IH Hbs). f_equal. f_equal. pose proof (Z.div_mod b 16). lia.
  - apply Z.mod_pos_bound. lia.
  - split; [apply Z.div_pos; lia | apply Z.div_lt_upper_bound; lia].
Qed.
