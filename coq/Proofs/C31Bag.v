(* C31 - Bag.to_dict: every given object is serialised with all its attributes -- always, when related objects that were themselves
   given are left alone (bag_skips_given_related, scanned from /repo); otherwise provided no given object is referred to by another
   given object (the complement is refuted in Findings/C31.v). *)
Require Import PonyV.Base.PyBase PonyV.Model.C31Codec PonyV.Gen.C31Reduce PonyV.Model.C31Bag.

Section Bag.
Variable rel : nat -> list nat.

Lemma set_same o k m : set_mark o k m o = Some k.
Proof. unfold set_mark. now rewrite Nat.eqb_refl. Qed.
Lemma set_other o k m x : x <> o -> set_mark o k m x = m x.
Proof. intros H. unfold set_mark. destruct (Nat.eqb x o) eqn:E; [apply Nat.eqb_eq in E; congruence | reflexivity]. Qed.

Lemma memb_In x l : memb x l = true <-> In x l.
Proof.
  unfold memb. rewrite existsb_exists. split; [intros (y & Hy & E); apply Nat.eqb_eq in E; now subst | intros H; exists x; split; [assumption | apply Nat.eqb_refl]].
Qed.

(* marking related objects: a listed object that is not exempt becomes Partial, every other object keeps its mark *)
Lemma fold_partial skip given l : forall m x,
  fold_left (fun m r => if skip && memb r given then m else set_mark r Partial m) l m x
  = if existsb (Nat.eqb x) l && negb (skip && memb x given) then Some Partial else m x.
Proof.
  induction l as [|r l IH]; intros m x; cbn [fold_left existsb]; [reflexivity|].
  rewrite IH. destruct (existsb (Nat.eqb x) l && negb (skip && memb x given)) eqn:E.
  - apply andb_true_iff in E. destruct E as [E1 E2]. rewrite E1, orb_true_r. cbn. now rewrite E2.
  - destruct (Nat.eqb x r) eqn:Exr.
    + apply Nat.eqb_eq in Exr. subst r. cbn [orb andb]. destruct (skip && memb x given); cbn [negb]; [reflexivity|].
      unfold set_mark. now rewrite Nat.eqb_refl.
    + cbn [orb]. rewrite E. destruct (skip && memb r given); [reflexivity|]. unfold set_mark. now rewrite Exr.
Qed.

Lemma process_spec skip given o m x :
  process_gen skip rel given o m x =
  if Nat.eqb x o then Some Full else if existsb (Nat.eqb x) (rel o) && negb (skip && memb x given) then Some Partial else m x.
Proof. unfold process_gen, set_mark. destruct (Nat.eqb x o); [reflexivity|]. apply fold_partial. Qed.

Definition indep (L : list nat) : Prop := forall o o', In o L -> In o' L -> ~ In o' (rel o).

(* ---- the original code (skip = false) ---- *)
Definition inv (L done : list nat) (m : marks) : Prop :=
  (forall x, In x done -> m x = Some Full) /\
  (forall x, m x = Some Partial -> exists d, In d done /\ In x (rel d)).

Lemma step_inv L done o m : indep L -> incl done L -> In o L -> inv L done m -> inv L (done ++ [o]) (bag_step_gen false rel L m o).
Proof.
  intros Hi Hd Ho [Hf Hp]. unfold bag_step_gen. destruct (m o) as [k|] eqn:E.
  - split.
    + intros x Hx. apply in_app_or in Hx. destruct Hx as [Hx|[<-|[]]]; [now apply Hf|].
      destruct k; [assumption|]. destruct (Hp o E) as (d & Hdd & Hr). exfalso. exact (Hi d o (Hd d Hdd) Ho Hr).
    + intros x Hx. destruct (Hp x Hx) as (d & Hdd & Hr). exists d. split; [apply in_or_app; now left | assumption].
  - split.
    + intros x Hx. rewrite process_spec. cbn [andb negb]. rewrite andb_true_r. destruct (Nat.eqb x o) eqn:Exo; [reflexivity|].
      apply in_app_or in Hx. destruct Hx as [Hx|[<-|[]]]; [|now rewrite Nat.eqb_refl in Exo].
      destruct (existsb (Nat.eqb x) (rel o)) eqn:Ex; [|now apply Hf].
      apply memb_In in Ex. exfalso. exact (Hi o x Ho (Hd x Hx) Ex).
    + intros x. rewrite process_spec. cbn [andb negb]. rewrite andb_true_r. destruct (Nat.eqb x o) eqn:Exo; [discriminate|].
      destruct (existsb (Nat.eqb x) (rel o)) eqn:Ex.
      * intros _. exists o. split; [apply in_or_app; right; now left | now apply memb_In].
      * intros Hx. destruct (Hp x Hx) as (d & Hdd & Hr). exists d. split; [apply in_or_app; now left | assumption].
Qed.

Lemma fold_inv L : indep L -> forall rest done m, incl done L -> incl rest L -> inv L done m ->
  inv L (done ++ rest) (fold_left (bag_step_gen false rel L) rest m).
Proof.
  intros Hi. induction rest as [|o rest IH]; intros done m Hd Hr Hinv; cbn [fold_left].
  - now rewrite app_nil_r.
  - replace (done ++ o :: rest) with ((done ++ [o]) ++ rest) by (rewrite <- app_assoc; reflexivity).
    apply IH.
    + intros x Hx. apply in_app_or in Hx. destruct Hx as [Hx|[<-|[]]]; [now apply Hd | apply Hr; now left].
    + intros x Hx. apply Hr. now right.
    + apply step_inv; auto. apply Hr. now left.
Qed.

Lemma given_full_old order : indep order -> forall o, In o order -> bag_to_dict_gen false rel order o = Some Full.
Proof.
  intros Hi o Ho. unfold bag_to_dict_gen.
  destruct (fold_inv order Hi order [] no_marks) as [Hf _].
  - intros x [].
  - apply incl_refl.
  - split; [intros x [] | intros x Hx; discriminate].
  - apply Hf. exact Ho.
Qed.

(* ---- the repaired code (skip = true): a given object is never stored as a related object ---- *)
Definition inv2 (L done : list nat) (m : marks) : Prop :=
  incl done L /\ (forall x, In x done -> m x = Some Full) /\ (forall x, In x L -> m x = None \/ m x = Some Full).

Lemma step_inv2 L done o m : In o L -> inv2 L done m -> inv2 L (done ++ [o]) (bag_step_gen true rel L m o).
Proof.
  intros Ho (Hd & Hf & Hg).
  assert (Hd' : incl (done ++ [o]) L) by (intros x Hx; apply in_app_or in Hx; destruct Hx as [Hx|[<-|[]]]; auto).
  unfold bag_step_gen. destruct (m o) as [k|] eqn:E.
  - split; [exact Hd'|]. split; [|assumption]. intros x Hx. apply in_app_or in Hx. destruct Hx as [Hx|[<-|[]]]; [now apply Hf|].
    destruct (Hg o Ho) as [H|H]; congruence.
  - assert (Hspec : forall x, In x L -> process_gen true rel L o m x = if Nat.eqb x o then Some Full else m x).
    { intros x Hx. rewrite process_spec. destruct (Nat.eqb x o); [reflexivity|].
      assert (H : memb x L = true) by now apply memb_In. rewrite H. cbn [andb negb]. now rewrite andb_false_r. }
    split; [exact Hd'|]. split.
    + intros x Hx. rewrite (Hspec x (Hd' x Hx)). destruct (Nat.eqb x o) eqn:Exo; [reflexivity|].
      apply in_app_or in Hx. destruct Hx as [Hx|[<-|[]]]; [now apply Hf | now rewrite Nat.eqb_refl in Exo].
    + intros x Hx. rewrite (Hspec x Hx). destruct (Nat.eqb x o); [now right | now apply Hg].
Qed.

Lemma fold_inv2 L : forall rest done m, incl rest L -> inv2 L done m ->
  inv2 L (done ++ rest) (fold_left (bag_step_gen true rel L) rest m).
Proof.
  induction rest as [|o rest IH]; intros done m Hr Hinv; cbn [fold_left].
  - now rewrite app_nil_r.
  - replace (done ++ o :: rest) with ((done ++ [o]) ++ rest) by (rewrite <- app_assoc; reflexivity).
    apply IH; [intros x Hx; apply Hr; now right | apply step_inv2; [apply Hr; now left | assumption]].
Qed.

Lemma given_full_new order : forall o, In o order -> bag_to_dict_gen true rel order o = Some Full.
Proof.
  intros o Ho. unfold bag_to_dict_gen.
  destruct (fold_inv2 order order [] no_marks) as (_ & Hf & _).
  - apply incl_refl.
  - split; [intros x [] | split; [intros x [] | intros x _; now left]].
  - apply Hf. exact Ho.
Qed.

(* whichever code /repo has *)
Theorem bag_given_full order : bag_skips_given_related = true \/ indep order ->
  forall o, In o order -> bag_to_dict rel order o = Some Full.
Proof.
  intros H o Ho. unfold bag_to_dict. destruct bag_skips_given_related eqn:E.
  - now apply given_full_new.
  - destruct H as [H|H]; [discriminate | now apply given_full_old].
Qed.

Theorem bag_given_full_now order o : In o order -> bag_to_dict rel order o = Some Full.
Proof. apply bag_given_full. left. reflexivity. Qed.

End Bag.

(* result keys: pairwise different primary keys give pairwise different dictionary keys, none of them None *)
Theorem bag_keys_nodup {K} (pks : list K) : NoDup pks -> NoDup (bag_keys pks) /\ ~ In None (bag_keys pks).
Proof.
  unfold bag_keys. split.
  - induction H as [|x l Hx Hl IH]; cbn; constructor; [|assumption].
    rewrite in_map_iff. intros (y & E & Hy). inversion E. now subst.
  - rewrite in_map_iff. intros (y & E & _). discriminate.
Qed.
