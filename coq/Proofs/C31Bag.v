(* C31 - Bag.to_dict: every given object is serialised with all its attributes, provided no given object is referred to by another
   given object (the complement is refuted in Findings/C31.v). *)
Require Import PonyV.Base.PyBase PonyV.Model.C31Bag.

Section Bag.
Variable rel : nat -> list nat.

Lemma set_same o k m : set_mark o k m o = Some k.
Proof. unfold set_mark. now rewrite Nat.eqb_refl. Qed.
Lemma set_other o k m x : x <> o -> set_mark o k m x = m x.
Proof. intros H. unfold set_mark. destruct (Nat.eqb x o) eqn:E; [apply Nat.eqb_eq in E; congruence | reflexivity]. Qed.

(* marking a list of objects Partial: listed objects become Partial, the others keep their mark *)
Lemma fold_partial l : forall m x,
  fold_left (fun m r => set_mark r Partial m) l m x = if existsb (Nat.eqb x) l then Some Partial else m x.
Proof.
  induction l as [|r l IH]; intros m x; cbn [fold_left existsb]; [reflexivity|].
  rewrite IH. destruct (existsb (Nat.eqb x) l); [now rewrite orb_true_r|]. rewrite orb_false_r.
  unfold set_mark. reflexivity.
Qed.

Lemma existsb_In x l : existsb (Nat.eqb x) l = true <-> In x l.
Proof.
  rewrite existsb_exists. split; [intros (y & Hy & E); apply Nat.eqb_eq in E; now subst | intros H; exists x; split; [assumption | apply Nat.eqb_refl]].
Qed.

Lemma process_spec o m x :
  process rel o m x = if Nat.eqb x o then Some Full else if existsb (Nat.eqb x) (rel o) then Some Partial else m x.
Proof. unfold process, set_mark. destruct (Nat.eqb x o); [reflexivity|]. apply fold_partial. Qed.

Definition indep (L : list nat) : Prop := forall o o', In o L -> In o' L -> ~ In o' (rel o).

Definition inv (L done : list nat) (m : marks) : Prop :=
  (forall x, In x done -> m x = Some Full) /\
  (forall x, m x = Some Partial -> exists d, In d done /\ In x (rel d)).

Lemma step_inv L done o m : indep L -> incl done L -> In o L -> inv L done m -> inv L (done ++ [o]) (bag_step rel m o).
Proof.
  intros Hi Hd Ho [Hf Hp]. unfold bag_step. destruct (m o) as [k|] eqn:E.
  - split.
    + intros x Hx. apply in_app_or in Hx. destruct Hx as [Hx|[<-|[]]]; [now apply Hf|].
      destruct k; [assumption|]. destruct (Hp o E) as (d & Hdd & Hr). exfalso. exact (Hi d o (Hd d Hdd) Ho Hr).
    + intros x Hx. destruct (Hp x Hx) as (d & Hdd & Hr). exists d. split; [apply in_or_app; now left | assumption].
  - split.
    + intros x Hx. rewrite process_spec. destruct (Nat.eqb x o) eqn:Exo; [reflexivity|].
      apply in_app_or in Hx. destruct Hx as [Hx|[<-|[]]]; [|now rewrite Nat.eqb_refl in Exo].
      destruct (existsb (Nat.eqb x) (rel o)) eqn:Ex; [|now apply Hf].
      apply existsb_In in Ex. exfalso. exact (Hi o x Ho (Hd x Hx) Ex).
    + intros x. rewrite process_spec. destruct (Nat.eqb x o) eqn:Exo; [discriminate|].
      destruct (existsb (Nat.eqb x) (rel o)) eqn:Ex.
      * intros _. exists o. split; [apply in_or_app; right; now left | now apply existsb_In].
      * intros Hx. destruct (Hp x Hx) as (d & Hdd & Hr). exists d. split; [apply in_or_app; now left | assumption].
Qed.

Lemma fold_inv L : indep L -> forall rest done m, incl done L -> incl rest L -> inv L done m ->
  inv L (done ++ rest) (fold_left (bag_step rel) rest m).
Proof.
  intros Hi. induction rest as [|o rest IH]; intros done m Hd Hr Hinv; cbn [fold_left].
  - now rewrite app_nil_r.
  - replace (done ++ o :: rest) with ((done ++ [o]) ++ rest) by (rewrite <- app_assoc; reflexivity).
    apply IH.
    + intros x Hx. apply in_app_or in Hx. destruct Hx as [Hx|[<-|[]]]; [now apply Hd | apply Hr; now left].
    + intros x Hx. apply Hr. now right.
    + apply step_inv; auto. apply Hr. now left.
Qed.

Theorem bag_given_full order : indep order -> forall o, In o order -> bag_to_dict rel order o = Some Full.
Proof.
  intros Hi o Ho. unfold bag_to_dict.
  destruct (fold_inv order Hi order [] no_marks) as [Hf _].
  - intros x [].
  - apply incl_refl.
  - split; [intros x [] | intros x Hx; discriminate].
  - apply Hf. exact Ho.
Qed.

End Bag.

(* result keys: pairwise different primary keys give pairwise different dictionary keys, none of them None *)
Theorem bag_keys_nodup {K} (pks : list K) : NoDup pks -> NoDup (bag_keys pks) /\ ~ In None (bag_keys pks).
Proof.
  unfold bag_keys. split.
  - induction H as [|x l Hx Hl IH]; cbn; constructor; [|assumption].
    rewrite in_map_iff. intros (y & E & Hy). inversion E. now subst.
  - rewrite in_map_iff. intros (y & E & _). discriminate.
Qed.
