(* C25 end to end on the model: StringMixin.__getitem__'s plan composed with the translated builders. *)
Require Import PonyV.Base.PyBase PonyV.Base.Seg PonyV.Sql.SqlAst PonyV.Sql.Dialect PonyV.Gen.StringSlice
               PonyV.Model.GetItem PonyV.Model.GetItemSem PonyV.Proofs.SegLemmas PonyV.Proofs.SliceProofs.
From Coq Require Import ZifyBool.

(* The inputs on which the unchanged code is wrong: start omitted or the constant 0, and a stop that is the constant
   -1 or any non-constant expression (the source uses stop_value = -1 both for "no stop" and for a real -1, and never
   looks at a non-constant stop before returning the whole string). *)
Definition known_bad_plan (start stop : bshape) : Prop :=
  (start = BOmit \/ start = BConst 0) /\ (stop = BConst (-1) \/ exists x, stop = BExpr x).

Lemma py_slice_whole {A} (s : list A) a : a = None \/ a = Some 0 -> py_slice s a None = s.
Proof.
  pose proof (zlen_nonneg s). intros [->| ->]; unfold py_slice, adjust; cbn [Z.ltb Z.compare].
  - rewrite Z.sub_0_r. apply seg_all.
  - replace (Z.min 0 (zlen s)) with 0 by lia. rewrite Z.sub_0_r. apply seg_all.
Qed.

Lemma bval_bound_ok d env b v : bval d env b = Some v -> bound_ok d env (bsql b) v.
Proof.
  destruct b as [|z|x]; cbn; intros H.
  - injection H as <-. exact I.
  - injection H as <-. reflexivity.
  - destruct (eval d env x) eqn:E; try discriminate. injection H as <-. cbn. reflexivity.
Qed.

Lemma bval_bound_ok_null env b v : bval SQLite env b = Some v -> bound_ok_null env (bsql b) v.
Proof.
  destruct b as [|z|x]; cbn; intros H.
  - injection H as <-. exact I.
  - injection H as <-. reflexivity.
  - destruct (eval SQLite env x) eqn:E; try discriminate. injection H as <-. cbn. reflexivity.
Qed.

Lemma plan_cases start stop :
  ~ known_bad_plan start stop ->
  (getitem_plan start stop = PWhole /\ (start = BOmit \/ start = BConst 0) /\ stop = BOmit)
  \/ getitem_plan start stop = PSlice (bsql start) (bsql stop).
Proof.
  unfold known_bad_plan, getitem_plan. intros Hk.
  destruct start as [|z|x]; destruct stop as [|w|y]; cbn [Z.eqb Z.opp Pos.eqb]; auto.
  - destruct (w =? -1) eqn:E; auto. exfalso. apply Hk. split; auto. left. f_equal. lia.
  - exfalso. apply Hk. split; eauto.
  - destruct z; auto.
  - destruct z; auto. destruct (w =? -1) eqn:E; auto. exfalso. apply Hk. split; auto. left. f_equal. lia.
  - destruct z; auto. exfalso. apply Hk. split; eauto.
Qed.

Lemma bval_whole d env start a : (start = BOmit \/ start = BConst 0) -> bval d env start = Some a -> a = None \/ a = Some 0.
Proof. intros [->| ->]; cbn; intros H; injection H as <-; auto. Qed.

Lemma slice_value_pg env expr s start stop a b :
  eval PostgreSQL env expr = VStr s ->
  bval PostgreSQL env start = Some a -> bval PostgreSQL env stop = Some b ->
  ~ known_bad_plan start stop ->
  slice_value PathPg env expr start stop = VStr (py_slice s a b).
Proof.
  intros Hs Ha Hb Hk. unfold slice_value.
  destruct (plan_cases start stop Hk) as [(-> & Hst & ->)| ->].
  - cbn in Hb. injection Hb as <-. rewrite (py_slice_whole s a (bval_whole _ _ _ _ Hst Ha)). exact Hs.
  - apply slice_pg; auto using bval_bound_ok.
Qed.

Lemma slice_value_mysql env expr s start stop a b :
  eval MySQL env expr = VStr s ->
  bval MySQL env start = Some a -> bval MySQL env stop = Some b ->
  ~ known_bad_plan start stop -> generic_ok (zlen s) a b ->
  slice_value PathMySQL env expr start stop = VStr (py_slice s a b).
Proof.
  intros Hs Ha Hb Hk Hok. unfold slice_value.
  destruct (plan_cases start stop Hk) as [(-> & Hst & ->)| ->].
  - cbn in Hb. injection Hb as <-. rewrite (py_slice_whole s a (bval_whole _ _ _ _ Hst Ha)). exact Hs.
  - apply slice_mysql; auto using bval_bound_ok.
Qed.

Lemma slice_value_sqlite env expr s start stop a b :
  eval SQLite env expr = VStr s ->
  bval SQLite env start = Some a -> bval SQLite env stop = Some b ->
  ~ known_bad_plan start stop ->
  slice_value PathSQLite env expr start stop = VStr (py_slice s a b).
Proof.
  intros Hs Ha Hb Hk. unfold slice_value.
  destruct (plan_cases start stop Hk) as [(-> & Hst & ->)| ->].
  - cbn in Hb. injection Hb as <-. rewrite (py_slice_whole s a (bval_whole _ _ _ _ Hst Ha)). exact Hs.
  - apply slice_sqlite; auto using bval_bound_ok_null.
Qed.

(* the two classes of known_bad_plan really fail, on every dialect path (witness: 'ab'[:-1] and 'ab'[:x] with x = 1) *)
Lemma slice_value_refuted_stop_minus_one p :
  slice_value p (env_s [97; 98]) (SExt 0) BOmit (BConst (-1)) <> VStr (py_slice [97; 98] None (Some (-1))).
Proof. destruct p; vm_compute; discriminate. Qed.
Lemma slice_value_refuted_stop_expr p :
  slice_value p (fun i => match i with O => VStr [97; 98] | _ => VInt 1 end) (SExt 0) BOmit (BExpr (SExt 1))
  <> VStr (py_slice [97; 98] None (Some 1)).
Proof. destruct p; vm_compute; discriminate. Qed.

(* s[i]: Python's character when i is in range, '' when it is not (Python raises IndexError there) *)
Definition index_spec (s : str) (i : Z) : str := match py_index s i with Some c => c | None => [] end.

Ltac solve_index sub :=
  repeat (progress (ev; rw));
  repeat (break_bool; repeat (progress (ev; rw)));
  unfold sub, index_spec, py_index;
  repeat (break_bool; try lia);
  try (f_equal; seg_lia);
  try (f_equal; apply seg_nil; lia);
  try (f_equal; symmetry; apply seg_nil; lia).

Lemma index_value_ok p env expr s idx i :
  eval (path_dialect p) env expr = VStr s ->
  bval (path_dialect p) env idx = Some (Some i) ->
  index_value p env expr idx = VStr (index_spec s i).
Proof.
  intros Hs Hi. pose proof (zlen_nonneg s) as Hn. unfold index_value, getitem_index.
  destruct idx as [|z|x]; cbn [bval] in Hi; try discriminate.
  - injection Hi as ->.
    destruct p; cbn [path_dialect andb] in *.
    + solve_index pg_substr.
    + solve_index mysql_substr.
    + solve_index sqlite_substr; unfold sqlite_substr_seg; repeat (break_bool; try lia); cbn [Z.abs]; try (f_equal; seg_lia); try (f_equal; apply seg_nil; lia).
  - destruct (eval (path_dialect p) env x) eqn:Hx; try discriminate. injection Hi as ->.
    destruct p; cbn [path_dialect andb] in *.
    + solve_index pg_substr.
    + solve_index mysql_substr.
    + solve_index sqlite_substr; unfold sqlite_substr_seg; repeat (break_bool; try lia); cbn [Z.abs]; try (f_equal; seg_lia); try (f_equal; apply seg_nil; lia).
Qed.
