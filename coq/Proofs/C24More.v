(* C24 - random(), first() under DISTINCT, count() variants of tuple queries, Oracle's ROWNUM form, and the characterisation of
   when merging a limited subquery into the outer query (what process_query_qual does) agrees with the nested list semantics. *)
Require Import PonyV.Base.PyBase PonyV.Base.Seg PonyV.Gen.C24Window PonyV.Model.C24Query PonyV.Model.C24More
               PonyV.Proofs.SegLemmas PonyV.Proofs.C24Window PonyV.Proofs.C24Query.
From Coq Require Import ZifyBool Permutation.

(* ------------------------------------------------------------------------------------------------ Oracle *)

Theorem ora_limit_sem {A} (w : window) (R : list A) :
  window_ok w = true -> ora_sem (ora_select (ora_section w)) R = win w R.
Proof.
  destruct w as [l o]. unfold window_ok, onat; cbn [fst snd]. intros H.
  unfold ora_section, limit_section, ora_select, falsy, ora_sem, win; cbn [fst snd].
  destruct l as [l|], o as [o|].
  - destruct (o =? 0) eqn:Eo.
    + assert (o = 0) by lia. subst o. reflexivity.
    + cbn [andb]. rewrite Eo. rewrite skipn_firstn_comm. f_equal. lia.
  - reflexivity.
  - destruct (o =? 0) eqn:Eo.
    + assert (o = 0) by lia. subst o. reflexivity.
    + cbn [andb]. rewrite Eo. reflexivity.
  - reflexivity.
Qed.

(* ------------------------------------------------------------------------------------------------ queries *)

Section MoreProofs.
Context {A : Type}.
Variable eqb : A -> A -> bool.
Hypothesis eqb_spec : forall x y, eqb x y = true <-> x = y.
Notation full := (full eqb).
Notation q_list := (q_list eqb).
Notation query := (query (A:=A)).
Implicit Types q : query.

(* random(n): the first n rows of some permutation of R -- a sub-multiset of R of size min(n, |R|) *)
Theorem random_sample rk n q : q_window q = no_window -> 0 <= n ->
  eff_distinct (add_order [rk] q) = eff_distinct q ->
  exists R', Permutation R' (q_list q) /\ q_random eqb rk n q = firstn (Z.to_nat n) R' /\
             length (q_random eqb rk n q) = Nat.min (Z.to_nat n) (length (q_list q)).
Proof.
  intros Hw Hn He. exists (q_list (add_order [rk] q)).
  assert (Hp : Permutation (q_list (add_order [rk] q)) (q_list q)) by (apply order_permutes; assumption).
  assert (E : q_random eqb rk n q = firstn (Z.to_nat n) (q_list (add_order [rk] q))).
  { unfold q_random. rewrite getitem_list by (cbn; rewrite ?Hw; auto; cbn; lia). cbn [ok_list]. now apply py_slice_firstn. }
  split; [exact Hp|]. split; [exact E|]. rewrite E, firstn_length. now rewrite (Permutation_length Hp).
Qed.

(* first() when the ORDER BY keys identify the row (first()'s own default ordering does): DISTINCT does not change the head *)
Definition antisym (ks : list (A -> Z)) : Prop := forall x y, row_leb ks x y = true -> row_leb ks y x = true -> x = y.

Lemma hd_isort_set ks (L1 L2 : list A) : antisym ks -> (forall x, In x L1 <-> In x L2) ->
  hd_error (isort ks L1) = hd_error (isort ks L2).
Proof.
  intros Ha Hs.
  assert (Hmin : forall L m, hd_error (isort ks L) = Some m -> In m L /\ forall y, In y L -> row_leb ks m y = true).
  { intros L m Hm. split.
    - apply (Permutation_in _ (isort_perm ks L)). destruct (isort ks L); cbn in Hm; [discriminate|]. inversion Hm. now left.
    - intros y Hy. eapply ssorted_hd_min; [apply isort_sorted | exact Hm |]. apply (Permutation_in _ (Permutation_sym (isort_perm ks L))). exact Hy. }
  assert (Hnil : forall L, hd_error (isort ks L) = None -> L = []).
  { intros L H. destruct (isort ks L) eqn:E; [|discriminate]. apply Permutation_nil. rewrite <- E. apply isort_perm. }
  destruct (hd_error (isort ks L1)) as [m1|] eqn:E1, (hd_error (isort ks L2)) as [m2|] eqn:E2.
  - destruct (Hmin _ _ E1) as [I1 M1], (Hmin _ _ E2) as [I2 M2]. f_equal. apply Ha; [apply M1, Hs, I2 | apply M2, Hs, I1].
  - apply Hnil in E2. subst L2. destruct (Hmin _ _ E1) as [I1 _]. apply Hs in I1. destruct I1.
  - apply Hnil in E1. subst L1. destruct (Hmin _ _ E2) as [I2 _]. apply Hs in I2. destruct I2.
  - reflexivity.
Qed.

Theorem first_list_distinct dflt q : q_window q = no_window -> has_order q = true -> antisym (q_order q) ->
  q_first eqb dflt q = hd_error (q_list q).
Proof.
  intros Hw Ho Ha. unfold q_first. rewrite Ho.
  rewrite getitem_firstn by (cbn; rewrite ?Hw; auto; lia).
  rewrite !q_list_no_window by (cbn; auto). unfold C24Query.full.
  replace (eff_distinct (set_distinct false q)) with false by reflexivity. cbn [q_order q_keep q_rows set_distinct dedup_if].
  set (L := filter (q_keep q) (q_rows q)).
  transitivity (hd_error (isort (q_order q) L)); [now destruct (isort (q_order q) L)|].
  apply hd_isort_set; [exact Ha|]. intros x. destruct (eff_distinct q); cbn [dedup_if]; [now rewrite In_dedup | tauto].
Qed.

(* ------------------------------------------------------------------------------------------------ merging a limited subquery *)

Lemma full_add_filter p q : full (add_filter p q) = filter p (full q).
Proof.
  unfold C24Query.full. replace (eff_distinct (add_filter p q)) with (eff_distinct q) by reflexivity.
  cbn [q_order q_keep q_rows add_filter]. now rewrite filter_isort, (filter_dedup_if eqb eqb_spec), filter_and.
Qed.

Lemma win_transparent (w : window) (X : list A) : transparent w = true -> win w X = X.
Proof.
  destruct w as [[l|] [o|]]; cbn; try discriminate; [|reflexivity].
  intros H. assert (o = 0) by lia. subst o. reflexivity.
Qed.
Lemma win_empty (w : window) (X : list A) : empty_window w = true -> win w X = [].
Proof.
  destruct w as [[l|] o]; cbn; try discriminate. intros H. assert (l = 0) by lia. subst l. now destruct o.
Qed.

Lemma q_list_as_win q : window_ok (q_window q) = true -> q_list q = win (q_window q) (full q).
Proof. intros H. unfold C24Query.q_list, C24Query.fetch. now apply combine_no_window_r. Qed.

(* what the code does: the outer condition joins the inner WHERE, the combined window is applied afterwards *)
Theorem merged_filter p q w : window_ok (q_window q) = true -> window_ok w = true ->
  q_list (add_filter p (nest q w)) = win (combine (q_window q) w) (filter p (full (nest q w))).
Proof.
  intros Hq Hw. rewrite q_list_as_win by (cbn; auto using combine_ok). cbn [q_window add_filter nest]. now rewrite full_add_filter.
Qed.

(* sufficiency: when the combined window keeps every row (or none), the merged query is the nested list semantics *)
Theorem merged_filter_ok p q w : window_ok (q_window q) = true -> window_ok w = true ->
  transparent (combine (q_window q) w) || empty_window (combine (q_window q) w) = true ->
  q_list (add_filter p (nest q w)) = filter p (q_list (nest q w)).
Proof.
  intros Hq Hw Ht. rewrite merged_filter by assumption.
  rewrite (q_list_as_win (nest q w)) by (cbn; auto using combine_ok). cbn [q_window nest].
  apply orb_true_iff in Ht. destruct Ht as [Ht|Ht].
  - now rewrite !win_transparent.
  - now rewrite !win_empty.
Qed.

Theorem merged_order_ok ks q w : window_ok (q_window q) = true -> window_ok w = true ->
  transparent (combine (q_window q) w) || empty_window (combine (q_window q) w) = true ->
  eff_distinct (add_order ks (nest q w)) = eff_distinct (nest q w) ->
  Permutation (q_list (add_order ks (nest q w))) (q_list (nest q w)).
Proof.
  intros Hq Hw Ht He.
  rewrite !q_list_as_win by (cbn; auto using combine_ok). cbn [q_window nest add_order].
  apply orb_true_iff in Ht. destruct Ht as [Ht|Ht].
  - rewrite !win_transparent by assumption. unfold C24Query.full. rewrite He. cbn [q_order q_keep q_rows add_order]. now rewrite !isort_perm.
  - now rewrite !win_empty.
Qed.

End MoreProofs.

(* necessity: for EVERY other window there are rows and a condition on which merging gives a different answer *)
Definition is_one (x : Z) : bool := x =? 1.
Lemma filter_repeat_ones n : filter is_one (repeat 1 n) = repeat 1 n.
Proof. induction n as [|n IH]; cbn; [reflexivity | now rewrite IH]. Qed.
Lemma filter_zero_cons l : filter is_one (0 :: l) = filter is_one l.
Proof. reflexivity. Qed.
Lemma skipn_repeat_app {B} (x : B) n (l : list B) : skipn n (repeat x n ++ l) = l.
Proof. induction n as [|n IH]; cbn; [reflexivity | exact IH]. Qed.
Lemma filter_length_le {B} (p : B -> bool) l : (length (filter p l) <= length l)%nat.
Proof. induction l as [|x l IH]; cbn; [lia|]. destruct (p x); cbn; lia. Qed.

Definition plainq (rows : list Z) : query (A:=Z) := zquery rows (fun _ => true) false false None no_window.

Lemma filter_true {B} (l : list B) : filter (fun _ => true) l = l.
Proof. induction l as [|x r IH]; cbn; [reflexivity | now rewrite IH]. Qed.

Lemma full_plain_nest rows (w : window) : full Z.eqb (nest (plainq rows) w) = rows.
Proof.
  unfold full. cbn [q_order q_keep q_rows nest plainq zquery]. replace (eff_distinct _) with false by reflexivity.
  cbn [dedup_if]. rewrite isort_nil_keys. apply filter_true.
Qed.

Lemma plain_nest_list rows (w : window) p : window_ok w = true ->
  q_list Z.eqb (add_filter p (nest (plainq rows) w)) = win w (filter p rows) /\
  q_list Z.eqb (nest (plainq rows) w) = win w rows.
Proof.
  intros Hw. split.
  - rewrite (merged_filter Z.eqb Zeqb_spec) by (auto; reflexivity). cbn [q_window plainq zquery].
    rewrite combine_no_window_l by assumption. now rewrite full_plain_nest.
  - rewrite q_list_as_win by (cbn; apply combine_ok; auto). cbn [q_window nest plainq zquery].
    rewrite combine_no_window_l by assumption. now rewrite full_plain_nest.
Qed.

Theorem merged_filter_differs (w : window) : window_ok w = true -> transparent w = false -> empty_window w = false ->
  exists rows p, q_list Z.eqb (add_filter p (nest (plainq rows) w)) <> filter p (q_list Z.eqb (nest (plainq rows) w)).
Proof.
  intros Hw Ht He. destruct w as [l o]. pose proof Hw as Hw0. unfold window_ok, onat in Hw; cbn [fst snd] in Hw.
  destruct l as [l|].
  - (* a real limit l >= 1, offset a: rows = 1^a 0 1^l *)
    assert (Hl : 1 <= l) by (unfold empty_window in He; cbn in He; lia).
    set (a := Z.to_nat (match o with Some v => v | None => 0 end)).
    destruct (Z.to_nat l) as [|b] eqn:Eb; [lia|].
    exists (repeat 1 a ++ 0 :: repeat 1 (S b)), is_one.
    destruct (plain_nest_list (repeat 1 a ++ 0 :: repeat 1 (S b)) (Some l, o) is_one Hw0) as [E1 E2]. rewrite E1, E2. clear E1 E2.
    assert (Hwin : forall X : list Z, win (Some l, o) X = firstn (S b) (skipn a X)).
    { intros X. unfold win; cbn [fst snd]. rewrite Eb. subst a. destruct o; reflexivity. }
    rewrite !Hwin.
    assert (HL : filter is_one (repeat 1 a ++ 0 :: repeat 1 (S b)) = repeat 1 a ++ repeat 1 (S b)).
    { now rewrite filter_app, filter_zero_cons, !filter_repeat_ones. }
    rewrite HL, !skipn_repeat_app.
    intros H. apply (f_equal (@length Z)) in H.
    rewrite firstn_all2 in H by (rewrite repeat_length; lia). rewrite repeat_length in H.
    assert (Hr : (length (filter is_one (firstn (S b) (0%Z :: repeat 1%Z (S b)))) <= b)%nat).
    { rewrite firstn_cons, filter_zero_cons. etransitivity; [apply filter_length_le|]. rewrite firstn_length, repeat_length. lia. }
    lia.
  - (* no limit, a real offset a >= 1: rows = 0 1^a *)
    destruct o as [o|]; [|discriminate].
    assert (Ho : 1 <= o) by (unfold transparent in Ht; lia).
    destruct (Z.to_nat o) as [|a] eqn:Ea; [lia|].
    exists (0 :: repeat 1 (S a)), is_one.
    destruct (plain_nest_list (0 :: repeat 1 (S a)) (None, Some o) is_one Hw0) as [E1 E2]. rewrite E1, E2. clear E1 E2.
    unfold win; cbn [fst snd]. rewrite Ea. rewrite filter_zero_cons, filter_repeat_ones.
    assert (Hf : forall n m, filter is_one (skipn m (repeat 1 n)) = skipn m (repeat 1 n)).
    { induction n as [|n IH]; intros m; [now rewrite skipn_nil|]. destruct m as [|m]; [apply (filter_repeat_ones (S n)) | apply IH]. }
    change (skipn (S a) (0 :: repeat 1 (S a))) with (skipn a (repeat 1 (S a))). rewrite Hf.
    intros H. apply (f_equal (@length Z)) in H. rewrite !skipn_length, !repeat_length in H. lia.
Qed.

(* ------------------------------------------------------------------------------------------------ count() of tuple queries *)

Theorem count_pair_list_gen arg (q : C24Query.query (A:=Z * Z)) : q_window q = no_window -> arg <> Some true ->
  q_count_pair arg q = Ok (zlen (q_list zz_eqb q)).
Proof.
  intros Hw Ha. unfold q_count_pair. rewrite Hw. cbn [combine no_window fst snd combine_limit_and_offset].
  rewrite (q_list_no_window zz_eqb q Hw). unfold full.
  destruct (eff_distinct q), arg as [[|]|]; try congruence; cbn [dedup_if]; f_equal; symmetry; apply zlen_perm, isort_perm.
Qed.
