(* C23 - membership answered from memory: after an in-session add the answer is never False, after a remove never True. *)
Require Import PonyV.Base.PyBase PonyV.Model.C23SetData PonyV.Gen.ContainsOrder.
Open Scope nat_scope.

Lemma memn_head : forall x l, memn x (x :: l) = true.
Proof. intros. unfold memn. cbn. rewrite Nat.eqb_refl. reflexivity. Qed.

Lemma memn_without : forall x l, memn x (without x l) = false.
Proof.
  intros x l. unfold memn, without. induction l as [|y l IH]; cbn; auto.
  destruct (Nat.eqb x y) eqn:E; cbn; auto. rewrite E. cbn. exact IH.
Qed.

Lemma contains_after_add_any : forall order sd x,
  safe_order order = true -> contains_local order (sd_add sd x) x <> Some false.
Proof.
  induction order as [|c r IH]; intros sd x Hs; [cbn; discriminate|].
  destruct c; cbn in Hs; try discriminate.
  - change (contains_local (ChkItems :: r) (sd_add sd x) x)
      with (if memn x (x :: sd_items sd) then Some true else contains_local r (sd_add sd x) x).
    rewrite memn_head. discriminate.
  - change (contains_local (ChkFullExact :: r) (sd_add sd x) x)
      with (if sd_full sd then Some (memn x (x :: sd_items sd)) else contains_local r (sd_add sd x) x).
    destruct (sd_full sd); [rewrite memn_head; discriminate | apply IH; auto].
Qed.

Lemma contains_after_remove_any : forall order sd x, contains_local order (sd_remove sd x) x <> Some true.
Proof.
  induction order as [|c r IH]; intros sd x; [cbn; discriminate|].
  destruct c.
  - change (contains_local (ChkItems :: r) (sd_remove sd x) x)
      with (if memn x (without x (sd_items sd)) then Some true else contains_local r (sd_remove sd x) x).
    rewrite memn_without. apply IH.
  - change (contains_local (ChkFull :: r) (sd_remove sd x) x)
      with (if sd_full sd then Some false else contains_local r (sd_remove sd x) x).
    destruct (sd_full sd); [discriminate | apply IH].
  - change (contains_local (ChkFullExact :: r) (sd_remove sd x) x)
      with (if sd_full sd then Some (memn x (without x (sd_items sd))) else contains_local r (sd_remove sd x) x).
    destruct (sd_full sd); [rewrite memn_without; discriminate | apply IH].
  - change (contains_local (ChkAbsent :: r) (sd_remove sd x) x)
      with (match sd_absent sd with Some a => if memn x a then Some false else contains_local r (sd_remove sd x) x
                                  | None => contains_local r (sd_remove sd x) x end).
    destruct (sd_absent sd) as [a|]; [destruct (memn x a); [discriminate | apply IH] | apply IH].
Qed.

(* the order found in the source is safe *)
Lemma source_order_safe : safe_order contains_checks = true.
Proof. vm_compute. reflexivity. Qed.

Lemma contains_after_add : forall sd x, contains_local contains_checks (sd_add sd x) x <> Some false.
Proof. intros. apply contains_after_add_any. exact source_order_safe. Qed.

Lemma contains_after_remove : forall sd x, contains_local contains_checks (sd_remove sd x) x <> Some true.
Proof. intros. apply contains_after_remove_any. Qed.

(* the reordering "negative cache first" is not safe: witness *)
Lemma absent_first_refuted :
  contains_local [ChkFullExact; ChkAbsent; ChkItems] (sd_add (mksd [] false [] [] (Some [7]) None) 7) 7 = Some false.
Proof. reflexivity. Qed.
