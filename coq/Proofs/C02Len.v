(* C02 - len(g.members) / count(g.members) in a condition: the LEFT JOIN / GROUP BY / HAVING semantics of the model is the same
   on every dialect, so two modelled dialects return the same list whenever every group is in the domain of both. *)
Require Import PonyV.Base.PyBase PonyV.Model.C01Expr PonyV.Model.C01Sql PonyV.Model.C01Translate PonyV.Model.C01Safe
               PonyV.Model.C01Eqb PonyV.Model.C01Query PonyV.Model.C01Join PonyV.Model.C01Coll PonyV.Model.C01Aggr PonyV.Model.C01Len
               PonyV.Proofs.C01Rows PonyV.Proofs.C01Coll PonyV.Proofs.C01Len.

Theorem agree_len_rows : forall d1 d2, modelled d1 = true -> modelled d2 = true ->
  forall params db ws hs proj vt w1 h1 q1 w2 h2 q2,
  pk_ok (tP db) = true -> keys_ok (map (fun g : row => g 0%nat) (tG db)) = true ->
  forallb boolty (ws ++ hs) = true -> forallb g_only ws = true -> ty_of proj = Some (TV vt) ->
  tr_len d1 ws hs = Some (sub_join, w1, h1) -> tr_project d1 proj = Some q1 ->
  tr_len d2 ws hs = Some (sub_join, w2, h2) -> tr_project d2 proj = Some q2 ->
  Forall (fun g => len_ok d1 params db ws hs proj g /\ len_ok d2 params db ws hs proj g) (tG db) ->
  map (dec (TV vt)) (sql_len_rows d1 params db w1 h1 q1) = map (dec (TV vt)) (sql_len_rows d2 params db w2 h2 q2).
Proof.
  intros d1 d2 H1 H2 params db ws hs proj vt w1 h1 q1 w2 h2 q2 PK GK Ty Go Hp L1 P1 L2 P2 Hall. rewrite Forall_forall in Hall.
  destruct (len_rows d1 H1 params db PK GK ws hs proj vt w1 h1 q1 Ty Go Hp L1 P1) as [_ R1].
  { apply Forall_forall. intros g Hg. exact (proj1 (Hall g Hg)). }
  destruct (len_rows d2 H2 params db PK GK ws hs proj vt w2 h2 q2 Ty Go Hp L2 P2) as [_ R2].
  { apply Forall_forall. intros g Hg. exact (proj2 (Hall g Hg)). }
  rewrite R1, R2. reflexivity.
Qed.
