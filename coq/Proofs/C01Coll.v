(* C01/C02 - conditions over a to-many collection: every subquery shape of Model/C01Coll.v (EXISTS / NOT EXISTS, IN / NOT IN
   with the IS NOT NULL checks, the COUNT(DISTINCT pk) scalar subquery) is true for a row g of G exactly when the Python
   atom holds for g over the object graph; hence the rows returned are the Python comprehension. *)
Require Import PonyV.Base.PyBase PonyV.Model.C01Expr PonyV.Model.C01Sql PonyV.Model.C01Translate PonyV.Model.C01Safe
               PonyV.Model.C01Eqb PonyV.Model.C01Query PonyV.Model.C01Join PonyV.Model.C01Coll
               PonyV.Proofs.C01Base PonyV.Proofs.C01Ref PonyV.Proofs.C01Ops PonyV.Proofs.C01Rows PonyV.Proofs.C01Join.
From Coq Require Import ZifyBool.

(* ------------------------------------------------------------------------------------------- list / truth facts *)
Lemma filter_all : forall A (f : A -> bool) l, (forall x, In x l -> f x = true) -> filter f l = l.
Proof.
  induction l as [|x l IH]; intro H; [reflexivity|]. cbn. rewrite (H x (or_introl eq_refl)), IH; [reflexivity|].
  intros y Hy. apply H. right. exact Hy.
Qed.

Lemma filter_filter_and : forall A (f g : A -> bool) l, filter f (filter g l) = filter (fun x => g x && f x) l.
Proof. induction l as [|x l IH]; [reflexivity|]. cbn. destruct (g x); cbn; [destruct (f x)|]; rewrite IH; reflexivity. Qed.

Lemma nonempty_existsb : forall A (f : A -> bool) l, (match filter f l with [] => false | _ => true end) = existsb f l.
Proof. induction l as [|x l IH]; [reflexivity|]. cbn. destruct (f x); [reflexivity|exact IH]. Qed.

Lemma tv_true_or : forall l, tv_true (fold_right or3 F l) = existsb tv_true l.
Proof. induction l as [|t l IH]; [reflexivity|]. cbn [fold_right existsb]. rewrite <- IH. destruct t, (fold_right or3 F l); reflexivity. Qed.

Lemma where_truth_forallb : forall d qe l, where_truth d qe l = forallb (fun c => sql_truth d (qeval d qe c)) l.
Proof.
  intros d qe l. unfold where_truth, qand_list.
  induction l as [|c l IH]; [cbn [map all_some fold_right forallb]; apply (sql_truth_of_tv d T)|].
  cbn [map all_some forallb]. unfold sql_truth at 2.
  destruct (as_tv d (qeval d qe c)) as [t|] eqn:E; [|reflexivity].
  destruct (all_some (map (as_tv d) (map (qeval d qe) l))) as [ts|].
  - rewrite sql_truth_of_tv in *. cbn [fold_right]. rewrite <- IH. destruct t, (fold_right and3 T ts); reflexivity.
  - rewrite <- IH. destruct t; reflexivity.
Qed.

Lemma where_truth_app : forall d qe l1 l2, where_truth d qe (l1 ++ l2) = where_truth d qe l1 && where_truth d qe l2.
Proof. intros. rewrite !where_truth_forallb. apply forallb_app. Qed.

Lemma sql_truth_bv : forall d b, sql_truth d (bv d b) = b.
Proof. intros d b. rewrite bv_of_tv, sql_truth_of_tv. destruct b; reflexivity. Qed.

(* ------------------------------------------------------------------------------------------- IN over a list of values *)
Definition in3 (neg : bool) (x : pyv) (l : list pyv) : tv :=
  let r := fold_right or3 F (map (cmp3 CEq x) l) in if neg then not3 r else r.

Lemma qcmp_enc_same : forall d t v1 v2, has_vty v1 t = true -> has_vty v2 t = true ->
  qcmp d CEq (enc d v1) (enc d v2) = of_tv d (cmp3 CEq v1 v2).
Proof.
  intros d t v1 v2 T1 T2. destruct t.
  - destruct v1 as [|z|x|b], v2 as [|z'|y|b']; try discriminate T1; try discriminate T2; cbn [enc qcmp cmp3 int_of]; rewrite ?bv_of_tv; reflexivity.
  - apply qcmp_str; assumption.
  - apply qcmp_enc_bool; assumption.
Qed.

Lemma qin_enc : forall d neg t x l, has_vty x t = true -> Forall (fun v => has_vty v t = true) l ->
  qin d neg (enc d x) (map (enc d) l) = of_tv d (in3 neg x l).
Proof.
  intros d neg t x l Tx Tl. unfold in3.
  destruct l as [|i l].
  - cbn. rewrite enc_not_bad, bv_of_tv. destruct neg; reflexivity.
  - rewrite qin_nonempty by (cbn [map]; discriminate).
    set (its := i :: l) in *. rewrite map_map.
    assert (E : map (fun v => qcmp d CEq (enc d x) (enc d v)) its = map (of_tv d) (map (cmp3 CEq x) its)).
    { rewrite map_map. apply map_ext_in. intros v Hin. rewrite Forall_forall in Tl. apply (qcmp_enc_same d t); auto. }
    rewrite E, qor_list_of_tvs. destruct neg; rewrite ?qnot_of_tv; reflexivity.
Qed.

Lemma cmp3_none_r : forall op x, cmp3 op x PNone = U.
Proof. intros op x. destruct x; reflexivity. Qed.

Lemma in3_pos_skip_none : forall x l,
  tv_true (in3 false x l) = tv_true (in3 false x (filter (fun i => negb (is_none i)) l)).
Proof.
  intros x l. unfold in3. rewrite !tv_true_or.
  induction l as [|i l IH]; [reflexivity|]. cbn [map existsb filter].
  destruct i; cbn [is_none negb]; [rewrite cmp3_none_r; exact IH| | |]; cbn [map existsb]; rewrite IH; reflexivity.
Qed.

(* ------------------------------------------------------------------------------------------- COUNT(DISTINCT pk) *)
Lemma pk_ok_filter : forall f T, pk_ok T = true -> pk_ok (filter f T) = true.
Proof.
  induction T as [|t r IH]; intro H; [reflexivity|]. cbn [pk_ok] in H.
  apply andb_prop in H. destruct H as [H H3]. apply andb_prop in H. destruct H as [H1 H2].
  cbn [filter]. destruct (f t); [|apply IH; exact H3].
  cbn [pk_ok]. rewrite H1, (IH H3), andb_true_r. cbn [andb].
  rewrite negb_true_iff in *. destruct (existsb (fun u => pyv_eqb (t 0%nat) (u 0%nat)) (filter f r)) eqn:E; [|reflexivity].
  apply existsb_exists in E. destruct E as [u [Hu Eu]]. apply filter_In in Hu.
  assert (X : existsb (fun u => pyv_eqb (t 0%nat) (u 0%nat)) r = true) by (apply existsb_exists; exists u; tauto). congruence.
Qed.

Lemma pk_ok_int : forall T u, pk_ok T = true -> In u T -> exists z, u 0%nat = PInt z.
Proof.
  induction T as [|t r IH]; intros u H Hin; [contradiction|]. cbn [pk_ok] in H.
  apply andb_prop in H. destruct H as [H H3]. apply andb_prop in H. destruct H as [H1 H2].
  destruct Hin as [<-|Hin]; [|apply IH; assumption]. destruct (t 0%nat); try discriminate H1. eauto.
Qed.

Lemma count_pk : forall d l, pk_ok l = true -> count_distinct (map (fun m => enc d (m 0%nat)) l) = length l.
Proof.
  intros d. unfold count_distinct. induction l as [|t r IH]; intro H; [reflexivity|].
  pose proof (pk_ok_int (t :: r) t H (or_introl eq_refl)) as [z Ez].
  assert (Hr : forall u, In u r -> exists z, u 0%nat = PInt z) by (intros u Hu; apply (pk_ok_int (t :: r)); [exact H|right; exact Hu]).
  cbn [pk_ok] in H. apply andb_prop in H. destruct H as [H H3]. apply andb_prop in H. destruct H as [_ H2].
  cbn [map filter]. rewrite Ez. cbn [enc is_null negb dedup length]. f_equal.
  rewrite filter_all; [apply IH; exact H3|].
  intros y Hy. apply dedup_incl in Hy. apply filter_In in Hy. destruct Hy as [Hy _]. apply in_map_iff in Hy. destruct Hy as [u [<- Hu]].
  destruct (Hr u Hu) as [z' Ez']. rewrite Ez'. cbn [enc qv_eqb].
  rewrite negb_true_iff in *. destruct (z =? z') eqn:E; [|reflexivity].
  assert (X : existsb (fun u => pyv_eqb (t 0%nat) (u 0%nat)) r = true).
  { apply existsb_exists. exists u. split; [exact Hu|]. rewrite Ez, Ez'. exact E. }
  congruence.
Qed.

(* ------------------------------------------------------------------------------------------- atoms *)
Section Atoms.
Variable d : dname.
Hypothesis Hd : modelled d = true.
Variable params : nat -> pyv.
Variable db : jdb.
Hypothesis PK : pk_ok (tP db) = true.

Notation genv := (genv params).
Notation menv := (menv params).
Notation members := (members db).

Definition boolty (e : expr) : bool := match ty_of e with Some t => boolable t | None => false end.
Definition cond_typed_ok (c : option expr) : bool := match c with None => true | Some c => boolty c end.
Definition set_cond (s : setform) : option expr := match s with SGen c => c | SAttr => None end.
Definition is_gen (s : setform) : bool := match s with SGen _ => true | SAttr => false end.

Definition atom_typed (x : atom) : bool :=
  match x with
  | APlain e => boolty e
  | AExists _ c => cond_typed_ok c
  | AIn neg over _ a s => (a_id a <? 10)%nat && cond_typed_ok (set_cond s) && (negb over || neg)
  | ACount c e => cond_typed_ok c && boolty e
  end.

(* the domain of the expression theorems, for a condition / for a value *)
Definition cond_dom (en : env) (e : expr) : Prop := env_ok en e = true /\ safe d en e = true /\ pos_ok en e = true.
Definition val_dom (en : env) (e : expr) : Prop := env_ok en e = true /\ safe d en e = true /\ clean en e = true.
Definition conds_dom (g : row) (c : option expr) : Prop :=
  match c with None => True | Some c => forall m, In m (members g) -> cond_dom (menv g m) c end.

Definition atom_dom (g : row) (x : atom) : Prop :=
  match x with
  | APlain e => cond_dom (genv g) e
  | AExists _ c => conds_dom g c
  | AIn _ _ v a s => val_dom (genv g) v /\ conds_dom g (set_cond s) /\ (forall m, In m (members g) -> env_ok (menv g m) (EAttr a) = true)
  | ACount c e =>
      conds_dom g c /\ cond_dom (cenv params g None (PInt (Z.of_nat (length (filter (cond_holds params c g) (members g)))))) e
  end.

Lemma boolty_inv : forall e, boolty e = true -> exists t, ty_of e = Some t /\ boolable t = true.
Proof. intros e H. unfold boolty in H. destruct (ty_of e) as [t|]; [eauto|discriminate]. Qed.

Lemma filter_sound : forall en e conds, boolty e = true -> cond_dom en e -> tr_filter d e = Some conds ->
  where_truth d (encenv d en) conds = py_truthy e (ref_eval en e).
Proof.
  intros en e conds B [A1 [A2 A3]] E. destruct (boolty_inv e B) as [t [Ht Bt]].
  destruct (filter_ref d Hd en e t Ht Bt A1 A2 A3) as [c [E' W]]. rewrite E in E'. inversion E'; subst. exact W.
Qed.

Lemma joined_members : forall g, joined db sub_join g = members g.
Proof. reflexivity. Qed.

Lemma sub_rows_sound : forall g c cs, cond_typed_ok c = true -> conds_dom g c -> tr_conds d c = Some cs ->
  sub_rows d params db g (sub_join, cs) = filter (cond_holds params c g) (members g).
Proof.
  intros g c cs B D E. unfold sub_rows. cbn [fst snd]. rewrite joined_members. apply filter_ext_in'. intros m Hin.
  destruct c as [c|]; cbn [tr_conds cond_holds] in *.
  - apply (filter_sound (menv g m) c cs B (D m Hin) E).
  - inversion E; subst. rewrite where_truth_forallb. reflexivity.
Qed.

Lemma not_null_truth : forall g m a need, (a_id a <? 10)%nat = true ->
  where_truth d (encenv d (menv g m)) (not_null_check a need) = negb (need && a_null a) || negb (is_none (m (a_id a))).
Proof.
  intros g m a need Ha. unfold not_null_check. destruct (need && a_null a).
  - rewrite where_truth_forallb. cbn [forallb qeval qunop encenv col_val]. cbn [menv cenv attr_val]. unfold C01Coll.menv, cenv. cbn [attr_val].
    rewrite Ha, qisnull_enc, sql_truth_bv. destruct (is_none (m (a_id a))); reflexivity.
  - rewrite where_truth_forallb. reflexivity.
Qed.

Lemma item_val : forall g m a, (a_id a <? 10)%nat = true -> qeval d (encenv d (menv g m)) (QCol (a_id a)) = enc d (m (a_id a)).
Proof. intros g m a Ha. cbn [qeval encenv col_val]. unfold C01Coll.menv, cenv. cbn [attr_val]. rewrite Ha. reflexivity. Qed.

Theorem atom_sound : forall g x c, atom_typed x = true -> atom_dom g x -> tr_atom d x = Some c ->
  xtruth d params db g c = holds params db g x.
Proof.
  intros g x c Ty Dom E. destruct x as [e|neg c0|neg over v a s|c0 e]; cbn [tr_atom atom_typed atom_dom holds] in *.
  - (* plain *)
    destruct (tr_filter d e) as [conds|] eqn:F; [|discriminate]. inversion E; subst. cbn [xtruth].
    apply (filter_sound (genv g) e conds Ty Dom F).
  - (* exists *)
    destruct (tr_conds d c0) as [cs|] eqn:F; [|discriminate]. inversion E; subst. cbn [xtruth].
    rewrite (sub_rows_sound g c0 cs Ty Dom F), nonempty_existsb. reflexivity.
  - (* in *)
    apply andb_prop in Ty. destruct Ty as [Ty To]. apply andb_prop in Ty. destruct Ty as [Ha Tc]. destruct Dom as [[V1 [V2 V3]] [Dc Da]].
    destruct (tr_project d v) as [q|] eqn:Q; [|discriminate]. destruct (ty_of v) as [[t| |]|] eqn:Tv; try discriminate.
    destruct (vty_eqb t (a_ty a)) eqn:Et; [|discriminate]. apply vty_eqb_eq in Et.
    destruct (project_ref d Hd (genv g) v t Tv V1 V2 V3) as [q' [Q' [Qv _]]]. rewrite Q in Q'. inversion Q'; subst q'.
    assert (Tx : has_vty (ref_eval (genv g) v) t = true).
    { unfold ref_eval. rewrite <- (clean_same (genv g) v V3). exact (reval_typed true (genv g) v (TV t) Tv V1). }
    set (c1 := set_cond s) in *.
    set (sel := filter (cond_holds params c1 g) (members g)).
    assert (Tl : forall l, (forall m, In m l -> In m (members g)) -> Forall (fun v => has_vty v t = true) (map (fun m => m (a_id a)) l)).
    { intros l Hl. rewrite Forall_map. apply Forall_forall. intros m Hm. specialize (Da m (Hl m Hm)). cbn [env_ok] in Da.
      apply andb_prop in Da. destruct Da as [Da _]. unfold C01Coll.menv, cenv in Da. cbn [attr_val] in Da. rewrite Ha in Da. rewrite Et. exact Da. }
    assert (SelIn : forall m, In m sel -> In m (members g)) by (intros m Hm; apply filter_In in Hm; tauto).
    (* the subquery's rows when the IS NOT NULL check is / is not there *)
    assert (R : forall cs need, tr_conds d c1 = Some cs ->
              sub_rows d params db g (sub_join, cs ++ not_null_check a need)
              = filter (fun m => negb (need && a_null a) || negb (is_none (m (a_id a)))) sel).
    { intros cs need F. unfold sel. rewrite <- (sub_rows_sound g c1 cs Tc Dc F). unfold sub_rows. cbn [fst snd].
      rewrite filter_filter_and. apply filter_ext. intro m. rewrite where_truth_app, (not_null_truth g m a need Ha). reflexivity. }
    assert (Items : forall l, map (fun m => qeval d (encenv d (menv g m)) (QCol (a_id a))) l = map (enc d) (map (fun m => m (a_id a)) l)).
    { intro l. rewrite map_map. apply map_ext. intro m. apply item_val. exact Ha. }
    assert (NN : forall l, map (fun m : row => m (a_id a)) (filter (fun m => negb (is_none (m (a_id a)))) l)
                           = filter (fun i => negb (is_none i)) (map (fun m => m (a_id a)) l)).
    { intro l. induction l as [|m l IH]; [reflexivity|]. cbn. destruct (is_none (m (a_id a))); cbn; rewrite IH; reflexivity. }
    (* the general shape: rows filtered by `need && a_null a` *)
    assert (Main : forall cs need, tr_conds d c1 = Some cs ->
              (need = true \/ neg = false \/ a_null a = false \/ forall m, In m sel -> is_none (m (a_id a)) = false) ->
              xtruth d params db g (XIn neg q (QCol (a_id a)) (sub_join, cs ++ not_null_check a need))
              = tv_true (in_coll neg (ref_eval (genv g) v) (map (fun m => m (a_id a)) sel))).
    { intros cs need F Hneed. cbn [xtruth]. rewrite (R cs need F), Qv, Items.
      destruct (need && a_null a) eqn:NA; cbn [negb orb].
      - rewrite NN. rewrite (qin_enc d neg t); [rewrite sql_truth_of_tv; reflexivity|exact Tx|].
        rewrite <- NN. apply Tl. intros m Hm. apply filter_In in Hm. apply SelIn. tauto.
      - rewrite filter_all by reflexivity.
        rewrite (qin_enc d neg t _ _ Tx (Tl sel SelIn)), sql_truth_of_tv. unfold in_coll. fold (in3 neg (ref_eval (genv g) v)).
        destruct neg.
        + (* NOT IN without a check: the attribute is not nullable, no None among the values *)
          rewrite filter_all; [reflexivity|].
          intros i Hi. apply in_map_iff in Hi. destruct Hi as [m [<- Hm]].
          assert (An : a_null a = false \/ is_none (m (a_id a)) = false).
          { destruct Hneed as [Hn|[H|[An|Hn]]]; [subst need; left; exact NA|discriminate H|left; exact An|right; exact (Hn m Hm)]. }
          destruct An as [An|An]; [|rewrite An; reflexivity].
          specialize (Da m (SelIn m Hm)). cbn [env_ok] in Da.
          apply andb_prop in Da. destruct Da as [_ Da]. rewrite An in Da. cbn [orb] in Da.
          unfold C01Coll.menv, cenv in Da. cbn [attr_val] in Da. rewrite Ha in Da. exact Da.
        + apply (in3_pos_skip_none (ref_eval (genv g) v)). }
    destruct s as [c2|]; cbn [set_cond] in *.
    + destruct (tr_conds d c2) as [cs|] eqn:F; [|discriminate]. inversion E; subst c.
      apply (Main cs true F). left. reflexivity.
    + inversion E; subst c. apply (Main [] true eq_refl). left. reflexivity.
  - (* count *)
    apply andb_prop in Ty. destruct Ty as [Tc Te]. destruct Dom as [Dc De].
    destruct (tr_conds d c0) as [cs|] eqn:F; [|discriminate]. destruct (tr_filter d e) as [conds|] eqn:Fe; [|discriminate].
    inversion E; subst c. cbn [xtruth].
    rewrite (sub_rows_sound g c0 cs Tc Dc F).
    rewrite count_pk by (unfold C01Coll.members; rewrite !(pk_ok_filter _ _ PK) || (apply pk_ok_filter; apply pk_ok_filter; exact PK)).
    apply (filter_sound _ e conds Te De Fe).
Qed.

(* a conjunction of atoms *)
Lemma atoms_sound : forall g atoms xs, forallb atom_typed atoms = true -> Forall (atom_dom g) atoms -> tr_atoms d atoms = Some xs ->
  forallb (xtruth d params db g) xs = forallb (holds params db g) atoms.
Proof.
  intros g atoms. induction atoms as [|x r IH]; intros xs Ty Dom E.
  - inversion E; subst. reflexivity.
  - cbn [tr_atoms] in E. destruct (tr_atom d x) as [c|] eqn:Ex; [|discriminate]. destruct (tr_atoms d r) as [cs|] eqn:Er; [|discriminate].
    inversion E; subst xs. cbn [forallb] in *. apply andb_prop in Ty. destruct Ty as [T1 T2]. inversion Dom; subst.
    rewrite (atom_sound g x c T1 H1 Ex), (IH cs T2 H2 eq_refl). reflexivity.
Qed.

(* ------------------------------------------------------------------------------------------- whole queries *)
Definition group_ok (atoms : list atom) (proj : expr) (g : row) : Prop :=
  Forall (atom_dom g) atoms /\ val_dom (genv g) proj.

Theorem coll_rows : forall distinct atoms proj vt xs q,
  forallb atom_typed atoms = true -> ty_of proj = Some (TV vt) ->
  tr_atoms d atoms = Some xs -> tr_project d proj = Some q ->
  Forall (group_ok atoms proj) (tG db) ->
  sql_coll_rows d params db distinct xs q = map (enc d) (py_coll_rows params db distinct atoms proj) /\
  map (dec (TV vt)) (sql_coll_rows d params db distinct xs q) = py_coll_rows params db distinct atoms proj.
Proof.
  intros distinct atoms proj vt xs q Ty Hp EA EQ Hall. rewrite Forall_forall in Hall.
  assert (FE : filter (fun g => forallb (xtruth d params db g) xs) (tG db) = filter (fun g => forallb (holds params db g) atoms) (tG db)).
  { apply filter_ext_in'. intros g Hin. destruct (Hall g Hin) as [Da _]. apply (atoms_sound g atoms xs Ty Da EA). }
  set (kept := filter (fun g => forallb (holds params db g) atoms) (tG db)) in *.
  assert (KIn : forall g, In g kept -> In g (tG db)) by (intros g H; apply filter_In in H; tauto).
  assert (ME : map (fun g => qeval d (encenv d (genv g)) q) kept = map (enc d) (map (fun g => ref_eval (genv g) proj) kept)).
  { rewrite map_map. apply map_ext_in. intros g Hin. destruct (Hall g (KIn g Hin)) as [_ [A4 [A5 A6]]].
    destruct (project_ref d Hd (genv g) proj vt Hp A4 A5 A6) as [q' [E' [Q _]]]. rewrite EQ in E'. inversion E'; subst. exact Q. }
  assert (TY : Forall (fun v => has_vty v vt = true) (map (fun g => ref_eval (genv g) proj) kept)).
  { rewrite Forall_map. apply Forall_forall. intros g Hin. destruct (Hall g (KIn g Hin)) as [_ [A4 [A5 A6]]].
    unfold ref_eval. rewrite <- (clean_same (genv g) proj A6). exact (reval_typed true (genv g) proj (TV vt) Hp A4). }
  assert (S : sql_coll_rows d params db distinct xs q = map (enc d) (py_coll_rows params db distinct atoms proj)).
  { unfold sql_coll_rows, py_coll_rows. rewrite FE. fold kept. rewrite ME. destruct distinct; [apply (dedup_enc d vt); exact TY|reflexivity]. }
  split; [exact S|]. rewrite S, map_map.
  assert (TY2 : Forall (fun v => has_vty v vt = true) (py_coll_rows params db distinct atoms proj)).
  { unfold py_coll_rows. fold kept. destruct distinct; [|exact TY]. apply Forall_forall. intros v Hv. apply dedup_incl in Hv.
    rewrite Forall_forall in TY. auto. }
  rewrite <- (map_id (py_coll_rows params db distinct atoms proj)) at 2. apply map_ext_in. intros v Hv. rewrite Forall_forall in TY2. apply dec_enc; auto.
Qed.
End Atoms.
