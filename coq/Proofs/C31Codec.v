(* C31 - the composite-key encoding of Bag._reduce_composite_pk (translated: Gen/C31Reduce.v) is injective: an explicit decoder
   reads every encoded key back, for all non-empty lists of parts over all code points. *)
Require Import PonyV.Base.PyBase PonyV.Model.C31Codec PonyV.Gen.C31Reduce.
From Coq Require Import ZifyBool.

Definition prepend (item : list Z) (l : list (list Z)) : list (list Z) :=
  match l with [] => [item] | x :: t => (item ++ x) :: t end.

Lemma decode_nonempty s : decode s <> [].
Proof.
  induction s as [|c r IH]; cbn [decode]; [discriminate|].
  destruct (c =? star).
  - destruct r as [|d r']; [discriminate|]. destruct (decode r'); discriminate.
  - destruct (c =? comma); [discriminate|]. destruct (decode r); discriminate.
Qed.

Lemma encode_part_cons c item :
  encode_part (c :: item) = (if c =? star then [star; star] else if c =? comma then [star; comma] else [c]) ++ encode_part item.
Proof.
  unfold encode_part, replace1, star, comma. cbn [flat_map]. rewrite flat_map_app. f_equal.
  destruct (c =? 42) eqn:E1; [reflexivity|]. cbn [flat_map]. destruct (c =? 44) eqn:E2; reflexivity.
Qed.

Lemma encode_part_nil : encode_part [] = [].
Proof. reflexivity. Qed.

Lemma decode_encode_app item : forall rest, decode (encode_part item ++ rest) = prepend item (decode rest).
Proof.
  induction item as [|c item IH]; intros rest.
  - rewrite encode_part_nil. cbn [app]. pose proof (decode_nonempty rest). destruct (decode rest); [congruence|reflexivity].
  - rewrite encode_part_cons. destruct (c =? star) eqn:E1.
    + assert (c = star) by (unfold star in *; lia). subst c. cbn [app decode]. rewrite Z.eqb_refl. rewrite IH.
      destruct (decode rest); reflexivity.
    + destruct (c =? comma) eqn:E2.
      * assert (c = comma) by (unfold comma in *; lia). subst c. cbn [app decode]. rewrite Z.eqb_refl. rewrite IH.
        destruct (decode rest); reflexivity.
      * cbn [app decode]. rewrite E1, E2, IH. destruct (decode rest); reflexivity.
Qed.

Theorem decode_reduce : forall pk, pk <> [] -> decode (reduce_composite_pk pk) = pk.
Proof.
  unfold reduce_composite_pk, reduce_sep. induction pk as [|x r IH]; [congruence|]. intros _.
  destruct r as [|y r'].
  - cbn [map join]. rewrite <- (app_nil_r (encode_part x)), decode_encode_app. cbn. now rewrite app_nil_r.
  - change (join [44] (map encode_part (x :: y :: r'))) with (encode_part x ++ [44] ++ join [44] (map encode_part (y :: r'))).
    rewrite decode_encode_app. cbn [app]. change (decode (44 :: ?s)) with ([] :: decode s).
    cbn [decode]. change (44 =? star) with false. change (44 =? comma) with true. cbn iota.
    rewrite IH by discriminate. cbn [prepend]. now rewrite app_nil_r.
Qed.

Theorem reduce_injective : forall pk1 pk2, pk1 <> [] -> pk2 <> [] ->
  reduce_composite_pk pk1 = reduce_composite_pk pk2 -> pk1 = pk2.
Proof. intros pk1 pk2 H1 H2 E. rewrite <- (decode_reduce pk1 H1), <- (decode_reduce pk2 H2). now rewrite E. Qed.

(* the only collision: no parts at all and one empty part both give the empty key (composite keys have >= 2 parts) *)
Lemma reduce_empty_collision : reduce_composite_pk [] = reduce_composite_pk [[]].
Proof. reflexivity. Qed.

(* the encoded key never contains a bare separator inside a part: the number of parts is recovered *)
Corollary reduce_parts : forall pk, pk <> [] -> length (decode (reduce_composite_pk pk)) = length pk.
Proof. intros pk H. now rewrite decode_reduce. Qed.

(* Bag.to_dict keys its result by the encoded key: distinct objects (distinct non-empty raw keys) get distinct dictionary keys *)
Theorem reduce_keys_nodup : forall keys : list (list (list Z)),
  (forall k, In k keys -> k <> []) -> NoDup keys -> NoDup (map reduce_composite_pk keys).
Proof.
  induction keys as [|k r IH]; intros Hne Hnd; cbn [map]; [constructor|].
  inversion Hnd as [|? ? Hk Hr]; subst. constructor.
  - rewrite in_map_iff. intros (k' & E & Hin). apply Hk.
    rewrite <- (reduce_injective k' k); auto using in_eq, in_cons.
  - apply IH; auto using in_cons.
Qed.
