(* Normal form for segments: two windows into one list are equal as soon as their effective lengths agree and,
   when that length is not zero, their effective offsets agree.  This turns every equation between two
   substring results into linear arithmetic over (offset, count), which lia closes. *)
Require Import PonyV.Base.PyBase PonyV.Base.Seg.
From Coq Require Import ZifyBool.

Section SegLemmas.
Context {A : Type}.
Implicit Types s : list A.

Lemma firstn_min s (k : nat) : firstn k s = firstn (Nat.min k (length s)) s.
Proof.
  destruct (Nat.le_ge_cases k (length s)) as [H|H].
  - now rewrite Nat.min_l.
  - rewrite Nat.min_r by exact H. rewrite !firstn_all2; auto.
Qed.

Lemma seg_nil s lo cnt : cnt <= 0 \/ zlen s <= lo -> seg s lo cnt = [].
Proof.
  unfold seg, zlen. intros [H|H].
  - replace (Z.to_nat cnt) with 0%nat by lia. reflexivity.
  - rewrite skipn_all2 by lia. now rewrite firstn_nil.
Qed.

Definition eff_cnt (n lo cnt : Z) : Z := Z.max 0 (Z.min cnt (n - Z.max 0 lo)).

Lemma seg_norm s lo cnt : seg s lo cnt = seg s (Z.max 0 lo) (eff_cnt (zlen s) lo cnt).
Proof.
  unfold seg, eff_cnt, zlen.
  replace (Z.to_nat (Z.max 0 lo)) with (Z.to_nat lo) by lia.
  rewrite (firstn_min (skipn (Z.to_nat lo) s) (Z.to_nat cnt)).
  f_equal. rewrite skipn_length. lia.
Qed.

Lemma seg_eq s lo1 c1 lo2 c2 :
  eff_cnt (zlen s) lo1 c1 = eff_cnt (zlen s) lo2 c2 ->
  (eff_cnt (zlen s) lo1 c1 = 0 \/ Z.max 0 lo1 = Z.max 0 lo2) ->
  seg s lo1 c1 = seg s lo2 c2.
Proof.
  intros He Hl. rewrite (seg_norm s lo1 c1), (seg_norm s lo2 c2), <- He.
  destruct Hl as [H0|H]; [rewrite H0, !seg_nil by lia; reflexivity | now rewrite H].
Qed.

Lemma seg_length s lo cnt : zlen (seg s lo cnt) = eff_cnt (zlen s) lo cnt.
Proof.
  unfold seg, eff_cnt, zlen. rewrite firstn_length, skipn_length. lia.
Qed.

Lemma seg_all s : seg s 0 (zlen s) = s.
Proof. unfold seg, zlen. simpl. rewrite Nat2Z.id. apply firstn_all. Qed.

Lemma zlen_nonneg s : 0 <= zlen s.
Proof. unfold zlen. lia. Qed.

End SegLemmas.

(* the tactic used by every substring equation: put both sides in seg form, then *)
Ltac seg_lia := apply seg_eq; unfold eff_cnt; lia.
