(* C01/C02 - formulas over subquery conditions: the SQL value of every subquery of Model/C01Form.v is the stored form of its Python
   value (three-valued for IN), the SQL evaluator only looks at the columns' values, hence the expression theorems apply to the
   whole formula with the subquery columns added to g's row. *)
Require Import PonyV.Base.PyBase PonyV.Model.C01Expr PonyV.Model.C01Sql PonyV.Model.C01Translate PonyV.Model.C01Safe
               PonyV.Model.C01Eqb PonyV.Model.C01Query PonyV.Model.C01Join PonyV.Model.C01Coll PonyV.Model.C01Aggr PonyV.Model.C01Form
               PonyV.Proofs.C01Base PonyV.Proofs.C01Ref PonyV.Proofs.C01Ops PonyV.Proofs.C01Rows PonyV.Proofs.C01Join PonyV.Proofs.C01Coll PonyV.Proofs.C01Aggr.
From Coq Require Import ZifyBool.

(* ------------------------------------------------------------------------------------------- the evaluator is extensional *)
Section QxInd.
Variable P : qx -> Prop.
Hypothesis HVal : forall v, P (QVal v).
Hypothesis HCol : forall i, P (QCol i).
Hypothesis HParam : forall i, P (QParam i).
Hypothesis HBin : forall op a b, P a -> P b -> P (QBin op a b).
Hypothesis HUn : forall op a, P a -> P (QUn op a).
Hypothesis HAnd : forall l, Forall P l -> P (QAnd l).
Hypothesis HOr : forall l, Forall P l -> P (QOr l).
Hypothesis HIn : forall neg a l, P a -> Forall P l -> P (QIn neg a l).
Hypothesis HCase : forall c t f, P c -> P t -> P f -> P (QCase c t f).
Hypothesis HCoalesce : forall l, Forall P l -> P (QCoalesce l).
Hypothesis HMinMax : forall m l, Forall P l -> P (QMinMax m l).

Fixpoint qx_ind' (q : qx) : P q :=
  let fix go (l : list qx) : Forall P l :=
    match l with [] => Forall_nil P | x :: r => Forall_cons x (qx_ind' x) (go r) end in
  match q with
  | QVal v => HVal v | QCol i => HCol i | QParam i => HParam i
  | QBin op a b => HBin op a b (qx_ind' a) (qx_ind' b)
  | QUn op a => HUn op a (qx_ind' a)
  | QAnd l => HAnd l (go l) | QOr l => HOr l (go l)
  | QIn neg a l => HIn neg a l (qx_ind' a) (go l)
  | QCase c t f => HCase c t f (qx_ind' c) (qx_ind' t) (qx_ind' f)
  | QCoalesce l => HCoalesce l (go l)
  | QMinMax m l => HMinMax m l (go l)
  end.
End QxInd.

Lemma qeval_ext : forall d qe1 qe2, (forall i, col_val qe1 i = col_val qe2 i) -> (forall i, par_val qe1 i = par_val qe2 i) ->
  forall q, qeval d qe1 q = qeval d qe2 q.
Proof.
  intros d qe1 qe2 Hc Hp.
  assert (M : forall l, Forall (fun q => qeval d qe1 q = qeval d qe2 q) l -> map (qeval d qe1) l = map (qeval d qe2) l).
  { intros l H. induction H as [|x l Hx _ IH]; [reflexivity|]. cbn [map]. rewrite Hx, IH. reflexivity. }
  induction q using qx_ind'; cbn [qeval]; try reflexivity; auto.
  - rewrite IHq1, IHq2. reflexivity.
  - rewrite IHq. reflexivity.
  - rewrite (M l H). reflexivity.
  - rewrite (M l H). reflexivity.
  - rewrite IHq, (M l H). reflexivity.
  - rewrite IHq1, IHq2, IHq3. reflexivity.
  - rewrite (M l H). reflexivity.
  - rewrite (M l H). reflexivity.
Qed.

Lemma where_truth_ext : forall d qe1 qe2, (forall i, col_val qe1 i = col_val qe2 i) -> (forall i, par_val qe1 i = par_val qe2 i) ->
  forall conds, where_truth d qe1 conds = where_truth d qe2 conds.
Proof.
  intros d qe1 qe2 Hc Hp conds. rewrite !where_truth_forallb. induction conds as [|c r IH]; [reflexivity|]. cbn [forallb]. rewrite (qeval_ext d qe1 qe2 Hc Hp c), IH. reflexivity.
Qed.

Lemma nth_map_enc : forall d k l, nth k (map (enc d) l) NullV = enc d (nth k l PNone).
Proof. intros d k l. revert k. induction l as [|x l IH]; intros [|k]; cbn; auto. Qed.

(* ------------------------------------------------------------------------------------------- subqueries *)
Section Form.
Variable d : dname.
Hypothesis Hd : modelled d = true.
Variable params : nat -> pyv.
Variable db : jdb.
Hypothesis PK : pk_ok (tP db) = true.

Notation genv := (genv params).
Notation menv := (menv params).
Notation members := (members db).

Definition subq_typed (s : subq) : bool :=
  match s with
  | SQExists c | SQCount c => cond_typed_ok c
  | SQIn _ a s => (a_id a <? 10)%nat && cond_typed_ok (set_cond s)
  | SQAgg _ _ c => cond_typed_ok c
  end.

Definition subq_dom (g : row) (s : subq) : Prop :=
  match s with
  | SQExists c | SQCount c => conds_dom d params db g c
  | SQIn v a s => val_dom d (genv g) v /\ conds_dom d params db g (set_cond s) /\ (forall m, In m (members g) -> env_ok (menv g m) (EAttr a) = true)
  | SQAgg f item c =>
      conds_dom d params db g c /\ (forall m, In m (members g) -> val_dom d (menv g m) item) /\
      (* known bad, per dialect: PostgreSQL has no sum of a boolean *)
      match f with FSum => negb (pg d && is_boolty item) = true | _ => True end
  end.

Theorem subq_sound : forall g s x, subq_typed s = true -> subq_dom g s -> tr_subq d s = Some x ->
  xval d params db g x = enc d (pyval params db g s).
Proof.
  intros g s x Ty Dom E. destruct s as [c|v a s|c|f item c]; cbn [tr_subq subq_typed subq_dom pyval] in *.
  - (* exists *)
    destruct (tr_conds d c) as [cs|] eqn:F; [|discriminate]. inversion E; subst. cbn [xval enc].
    rewrite (sub_rows_sound d Hd params db g c cs Ty Dom F), nonempty_existsb. reflexivity.
  - (* in *)
    apply andb_prop in Ty. destruct Ty as [Ha Tc]. destruct Dom as [[V1 [V2 V3]] [Dc Da]].
    destruct (tr_project d v) as [q|] eqn:Q; [|discriminate]. destruct (ty_of v) as [[t| |]|] eqn:Tv; try discriminate.
    destruct (vty_eqb t (a_ty a)) eqn:Et; [|discriminate]. apply vty_eqb_eq in Et.
    destruct (project_ref d Hd (genv g) v t Tv V1 V2 V3) as [q' [Q' [Qv _]]]. rewrite Q in Q'. inversion Q'; subst q'.
    assert (Tx : has_vty (ref_eval (genv g) v) t = true).
    { unfold ref_eval. rewrite <- (clean_same (genv g) v V3). exact (reval_typed true (genv g) v (TV t) Tv V1). }
    set (c1 := set_cond s) in *.
    set (sel := filter (cond_holds params c1 g) (members g)).
    assert (SelIn : forall m, In m sel -> In m (members g)) by (intros m Hm; apply filter_In in Hm; tauto).
    assert (Tl : forall l, (forall m, In m l -> In m (members g)) -> Forall (fun v => has_vty v t = true) (map (fun m => m (a_id a)) l)).
    { intros l Hl. rewrite Forall_map. apply Forall_forall. intros m Hm. specialize (Da m (Hl m Hm)). cbn [env_ok] in Da.
      apply andb_prop in Da. destruct Da as [Da _]. unfold C01Coll.menv, cenv in Da. cbn [attr_val] in Da. rewrite Ha in Da. rewrite Et. exact Da. }
    assert (NN : forall l, map (fun m : row => m (a_id a)) (filter (fun m => negb (is_none (m (a_id a)))) l)
                           = filter (fun i => negb (is_none i)) (map (fun m => m (a_id a)) l)).
    { intro l. induction l as [|m l IH]; [reflexivity|]. cbn. destruct (is_none (m (a_id a))); cbn; rewrite IH; reflexivity. }
    assert (Main : forall cs, tr_conds d c1 = Some cs ->
              xval d params db g (XSIn q (QCol (a_id a)) (sub_join, cs ++ not_null_check a true))
              = enc d (py_of_tv (in_coll false (ref_eval (genv g) v) (map (fun m => m (a_id a)) sel)))).
    { intros cs F. cbn [xval]. rewrite Qv.
      assert (R : sub_rows d params db g (sub_join, cs ++ not_null_check a true)
                  = filter (fun m => negb (true && a_null a) || negb (is_none (m (a_id a)))) sel).
      { unfold sel. rewrite <- (sub_rows_sound d Hd params db g c1 cs Tc Dc F). unfold sub_rows. cbn [fst snd].
        rewrite filter_filter_and. apply filter_ext. intro m. rewrite where_truth_app, (not_null_truth d params g m a true Ha). reflexivity. }
      rewrite R.
      assert (Items : forall l, map (fun m => qeval d (encenv d (menv g m)) (QCol (a_id a))) l = map (enc d) (map (fun m => m (a_id a)) l)).
      { intro l. rewrite map_map. apply map_ext. intro m. apply item_val. exact Ha. }
      rewrite Items, enc_py_of_tv. unfold in_coll. cbn [andb].
      destruct (a_null a) eqn:An; cbn [negb orb].
      - rewrite NN. apply (qin_enc d false t); [exact Tx|]. rewrite <- NN. apply Tl. intros m Hm. apply filter_In in Hm. apply SelIn. tauto.
      - rewrite filter_all by reflexivity.
        assert (E0 : filter (fun i => negb (is_none i)) (map (fun m => m (a_id a)) sel) = map (fun m => m (a_id a)) sel).
        { apply filter_all. intros i Hi. apply in_map_iff in Hi. destruct Hi as [m [<- Hm]]. specialize (Da m (SelIn m Hm)). cbn [env_ok] in Da.
          apply andb_prop in Da. destruct Da as [_ Da]. rewrite An in Da. cbn [orb] in Da.
          unfold C01Coll.menv, cenv in Da. cbn [attr_val] in Da. rewrite Ha in Da. exact Da. }
        rewrite E0. apply (qin_enc d false t _ _ Tx (Tl sel SelIn)). }
    destruct s as [c2|]; cbn [set_cond] in *.
    + destruct (tr_conds d c2) as [cs|] eqn:F; [|discriminate]. inversion E; subst x. apply (Main cs F).
    + inversion E; subst x. apply (Main [] eq_refl).
  - (* count *)
    destruct (tr_conds d c) as [cs|] eqn:F; [|discriminate]. inversion E; subst. cbn [xval enc].
    rewrite (sub_rows_sound d Hd params db g c cs Ty Dom F).
    rewrite count_pk by (apply pk_ok_filter; apply pk_ok_filter; exact PK). reflexivity.
  - (* sum / min / max / count of an item expression *)
    destruct Dom as [Dc [Di Sf]].
    assert (NA : f <> FAvg) by (intro; subst f; discriminate E).
    destruct (ty_of item) as [[t| |]|] eqn:Ti; try (destruct f; discriminate E).
    destruct (tr_project d item) as [q|] eqn:Q; [|destruct f; discriminate E].
    destruct (tr_conds d c) as [cs|] eqn:F; [|destruct f; discriminate E].
    destruct (aggr_ty_ok f t && item_ok q) eqn:Ok2; [|destruct f; discriminate E]. apply andb_prop in Ok2. destruct Ok2 as [Ok _].
    assert (Ex : x = XSAgg f (match f with FCount => true | _ => false end) q (sub_join, cs)) by (destruct f; inversion E; try reflexivity; congruence).
    subst x. cbn [xval]. rewrite (sub_rows_sound d Hd params db g c cs Ty Dc F).
    set (sel := filter (cond_holds params c g) (members g)).
    assert (SelIn : forall m, In m sel -> In m (members g)) by (intros m Hm; apply filter_In in Hm; tauto).
    assert (ME : map (fun m => qeval d (encenv d (menv g m)) q) sel = map (enc d) (map (fun m => ref_eval (menv g m) item) sel)).
    { rewrite map_map. apply map_ext_in. intros m Hm. destruct (Di m (SelIn m Hm)) as [A4 [A5 A6]].
      destruct (project_ref d Hd _ item t Ti A4 A5 A6) as [q' [E' [Qv _]]]. rewrite Q in E'. inversion E'; subst. exact Qv. }
    assert (TY : Forall (fun v => has_vty v t = true) (map (fun m => ref_eval (menv g m) item) sel)).
    { rewrite Forall_map. apply Forall_forall. intros m Hm. destruct (Di m (SelIn m Hm)) as [A4 [A5 A6]].
      unfold ref_eval. rewrite <- (clean_same _ item A6). exact (reval_typed true _ item (TV t) Ti A4). }
    assert (VS : vals_safe d f t = true).
    { destruct f; try reflexivity; [|congruence]. unfold is_boolty in Sf. rewrite Ti in Sf. cbn [vals_safe]. destruct t; cbn in *; try reflexivity; exact Sf. }
    rewrite ME. destruct (vals_sound d f (match f with FCount => true | _ => false end) t _ Hd Ok VS TY) as [R _]. rewrite R.
    destruct (py_aggr_vals f (match f with FCount => true | _ => false end) (map (fun m => ref_eval (menv g m) item) sel)) eqn:PA; [reflexivity|].
    exfalso. unfold py_aggr_vals in PA. destruct f; try discriminate PA. congruence.
Qed.

Lemma subqs_sound : forall g subs xs, forallb subq_typed subs = true -> Forall (subq_dom g) subs -> tr_subqs d subs = Some xs ->
  map (xval d params db g) xs = map (enc d) (map (pyval params db g) subs).
Proof.
  intros g subs. induction subs as [|s r IH]; intros xs Ty Dom E.
  - inversion E; subst. reflexivity.
  - cbn [tr_subqs] in E. destruct (tr_subq d s) as [x|] eqn:Ex; [|discriminate]. destruct (tr_subqs d r) as [xr|] eqn:Er; [|discriminate].
    inversion E; subst xs. cbn [forallb] in Ty. apply andb_prop in Ty. destruct Ty as [T1 T2]. inversion Dom; subst.
    cbn [map]. rewrite (subq_sound g s x T1 H1 Ex), (IH xr T2 H2 eq_refl). reflexivity.
Qed.

(* the SQL row of g is the stored form of its Python row *)
Lemma senv_cols : forall g subs xs, map (xval d params db g) xs = map (enc d) (map (pyval params db g) subs) ->
  forall i, col_val (senv d params db xs g) i = col_val (encenv d (fenv params db subs g)) i.
Proof.
  intros g subs xs E i. cbn [senv fenv encenv col_val attr_val]. rewrite E.
  destruct (sub_base <=? i)%nat; [apply nth_map_enc|]. destruct (i <? 10)%nat; [reflexivity|]. destruct (i <? 20)%nat; reflexivity.
Qed.

(* ------------------------------------------------------------------------------------------- whole queries *)
Definition fgroup_ok (subs : list subq) (filt proj : expr) (g : row) : Prop :=
  Forall (subq_dom g) subs /\ cond_dom d (fenv params db subs g) filt /\ val_dom d (fenv params db subs g) proj.

Theorem form_rows : forall distinct subs filt proj vt xs conds q,
  forallb subq_typed subs = true -> boolty filt = true -> ty_of proj = Some (TV vt) ->
  tr_subqs d subs = Some xs -> tr_filter d filt = Some conds -> tr_project d proj = Some q ->
  Forall (fgroup_ok subs filt proj) (tG db) ->
  sql_form_rows d params db distinct xs conds q = map (enc d) (py_form_rows params db distinct subs filt proj) /\
  map (dec (TV vt)) (sql_form_rows d params db distinct xs conds q) = py_form_rows params db distinct subs filt proj.
Proof.
  intros distinct subs filt proj vt xs conds q Ty Tf Hp ES EC EQ Hall. rewrite Forall_forall in Hall.
  assert (SE : forall g, In g (tG db) -> forall i, col_val (senv d params db xs g) i = col_val (encenv d (fenv params db subs g)) i).
  { intros g Hg. destruct (Hall g Hg) as [Ds _]. apply senv_cols. apply (subqs_sound g subs xs Ty Ds ES). }
  assert (FE : filter (fun g => where_truth d (senv d params db xs g) conds) (tG db)
               = filter (fun g => py_truthy filt (ref_eval (fenv params db subs g) filt)) (tG db)).
  { apply filter_ext_in'. intros g Hg. destruct (Hall g Hg) as [_ [Df _]].
    rewrite (where_truth_ext d _ (encenv d (fenv params db subs g)) (SE g Hg) (fun _ => eq_refl)).
    apply (filter_sound d Hd _ filt conds Tf Df EC). }
  set (kept := filter (fun g => py_truthy filt (ref_eval (fenv params db subs g) filt)) (tG db)) in *.
  assert (KIn : forall g, In g kept -> In g (tG db)) by (intros g H; apply filter_In in H; tauto).
  assert (ME : map (fun g => qeval d (senv d params db xs g) q) kept = map (enc d) (map (fun g => ref_eval (fenv params db subs g) proj) kept)).
  { rewrite map_map. apply map_ext_in. intros g Hin. destruct (Hall g (KIn g Hin)) as [_ [_ [A4 [A5 A6]]]].
    rewrite (qeval_ext d _ (encenv d (fenv params db subs g)) (SE g (KIn g Hin)) (fun _ => eq_refl)).
    destruct (project_ref d Hd _ proj vt Hp A4 A5 A6) as [q' [E' [Q _]]]. rewrite EQ in E'. inversion E'; subst. exact Q. }
  assert (TY : Forall (fun v => has_vty v vt = true) (map (fun g => ref_eval (fenv params db subs g) proj) kept)).
  { rewrite Forall_map. apply Forall_forall. intros g Hin. destruct (Hall g (KIn g Hin)) as [_ [_ [A4 [A5 A6]]]].
    unfold ref_eval. rewrite <- (clean_same _ proj A6). exact (reval_typed true _ proj (TV vt) Hp A4). }
  assert (S : sql_form_rows d params db distinct xs conds q = map (enc d) (py_form_rows params db distinct subs filt proj)).
  { unfold sql_form_rows, py_form_rows. rewrite FE. fold kept. rewrite ME. destruct distinct; [apply (dedup_enc d vt); exact TY|reflexivity]. }
  split; [exact S|]. rewrite S, map_map.
  assert (TY2 : Forall (fun v => has_vty v vt = true) (py_form_rows params db distinct subs filt proj)).
  { unfold py_form_rows. fold kept. destruct distinct; [|exact TY]. apply Forall_forall. intros v Hv. apply dedup_incl in Hv.
    rewrite Forall_forall in TY. auto. }
  rewrite <- (map_id (py_form_rows params db distinct subs filt proj)) at 2. apply map_ext_in. intros v Hv. rewrite Forall_forall in TY2. apply dec_enc; auto.
Qed.
End Form.
