(* C24 - windows (LIMIT/OFFSET): composition of limits, slices, pages.  All statements are for every list and every
   non-negative integer bound; the functions combine_limit_and_offset / query_getitem / query_page / query_limit are the ones
   translated from /repo (Gen/C24Window.v). *)
Require Import PonyV.Base.PyBase PonyV.Base.Seg PonyV.Gen.C24Window PonyV.Model.C24Query PonyV.Proofs.SegLemmas.
From Coq Require Import ZifyBool.

Section WindowProofs.
Context {A : Type}.
Implicit Types R s : list A.

Lemma skipn_skipn_add (n m : nat) s : skipn n (skipn m s) = skipn (m + n) s.
Proof.
  revert s. induction m as [|m IH]; intros s; [reflexivity|].
  destruct s as [|x s]; [now rewrite !skipn_nil|]. cbn [skipn Nat.add]. apply IH.
Qed.

(* a window into a window is a window *)
Lemma seg_seg s lo1 c1 lo2 c2 :
  seg (seg s lo1 c1) lo2 c2 = seg s (Z.max 0 lo1 + Z.max 0 lo2) (Z.min c2 (Z.max 0 c1 - Z.max 0 lo2)).
Proof.
  unfold seg.
  rewrite skipn_firstn_comm, firstn_firstn, skipn_skipn_add.
  f_equal; [lia | f_equal; lia].
Qed.

(* the four shapes of a window as segments *)
Lemma win_SS l o R : win (Some l, Some o) R = seg R o l.
Proof. reflexivity. Qed.
Lemma win_SN l R : win (Some l, None) R = seg R 0 l.
Proof. reflexivity. Qed.
Lemma win_NS o R : win (None, Some o) R = seg R o (zlen R).
Proof.
  unfold win, seg; cbn [fst snd]. symmetry. apply firstn_all2. rewrite skipn_length. unfold zlen. lia.
Qed.
Lemma win_NN R : win (None, None) R = seg R 0 (zlen R).
Proof. unfold win; cbn [fst snd]. now rewrite seg_all. Qed.

Lemma win_no_window R : win no_window R = R.
Proof. reflexivity. Qed.

Lemma zlen_seg s lo c : zlen (seg s lo c) = eff_cnt (zlen s) lo c.
Proof. apply seg_length. Qed.

Ltac win2seg := rewrite ?win_SS, ?win_SN, ?win_NS, ?win_NN.
(* drop `Z.max 0 x` for x known non-negative before handing the goal to lia (keeps the case analysis small) *)
Ltac max0 := repeat match goal with |- context [Z.max 0 ?x] => rewrite (Z.max_r 0 x) by lia end.

(* C24_combine: LIMIT l2 OFFSET o2 applied to the rows of LIMIT l1 OFFSET o1 = one LIMIT/OFFSET with the combined values *)
Theorem combine_win R w1 w2 :
  window_ok w1 = true -> window_ok w2 = true ->
  win (combine w1 w2) R = win w2 (win w1 R).
Proof.
  destruct w1 as [l1 o1], w2 as [l2 o2]. unfold window_ok, onat, combine, combine_limit_and_offset; cbn [fst snd].
  intros H1 H2. pose proof (zlen_nonneg R) as Hn.
  destruct l1 as [l1|], o1 as [o1|], l2 as [l2|], o2 as [o2|];
    repeat match goal with |- context [if ?c then _ else _] => destruct c eqn:? end;
    win2seg; rewrite ?zlen_seg, ?seg_seg; max0; apply seg_eq; unfold eff_cnt; max0; lia.
Qed.

Lemma combine_ok w1 w2 : window_ok w1 = true -> window_ok w2 = true -> window_ok (combine w1 w2) = true.
Proof.
  destruct w1 as [l1 o1], w2 as [l2 o2]. unfold window_ok, onat, combine, combine_limit_and_offset; cbn [fst snd].
  intros H1 H2.
  destruct l1 as [l1|], o1 as [o1|], l2 as [l2|], o2 as [o2|];
    repeat match goal with |- context [if ?c then _ else _] => destruct c eqn:? end; cbn [fst snd]; lia.
Qed.

Lemma combine_pre_ok w1 w2 : window_ok w1 = true -> window_ok w2 = true -> combine_pre (fst w1) (snd w1) (fst w2) (snd w2) = true.
Proof.
  destruct w1 as [l1 o1], w2 as [l2 o2]. unfold window_ok, onat, combine_pre; cbn [fst snd].
  destruct l1, o1, l2, o2; lia.
Qed.

Lemma combine_pre_and_ok w1 w2 : window_ok w1 = true -> window_ok w2 = true ->
  combine_pre (fst w1) (snd w1) (fst w2) (snd w2) = true /\ window_ok (combine w1 w2) = true.
Proof. intros H1 H2. split; [exact (combine_pre_ok w1 w2 H1 H2) | exact (combine_ok w1 w2 H1 H2)]. Qed.

Lemma combine_no_window_r w : window_ok w = true -> forall R, win (combine w no_window) R = win w R.
Proof. intros H R. rewrite combine_win by (auto; reflexivity). apply win_no_window. Qed.

Lemma combine_no_window_l w : window_ok w = true -> forall R, win (combine no_window w) R = win w R.
Proof. intros H R. rewrite combine_win by (auto; reflexivity). now rewrite win_no_window. Qed.

(* C24_slice: Query.__getitem__ turns the slice a:b (non-negative bounds, either may be omitted) into a window that selects R[a:b] *)
Definition bound_ok (x : option Z) : Prop := match x with None => True | Some v => 0 <= v end.

Theorem getitem_slice R a b :
  bound_ok a -> bound_ok b ->
  exists w, query_getitem true a b None = Ok w /\ window_ok w = true /\ win w R = py_slice R a b.
Proof.
  intros Ha Hb. pose proof (zlen_nonneg R) as Hn.
  unfold query_getitem, py_slice, adjust, bound_ok in *.
  destruct a as [a|], b as [b|];
    repeat match goal with |- context [if ?c then _ else _] => destruct c eqn:? end; try lia;
    eexists; (split; [reflexivity|]); (split; [unfold window_ok, onat; cbn [fst snd]; lia|]);
    win2seg; apply seg_eq; unfold eff_cnt; lia.
Qed.

(* step = 1 is accepted and means the same; any other step, a negative start, or a non-slice key is a TypeError *)
Lemma getitem_step_one a b : query_getitem true a b (Some 1) = query_getitem true a b None.
Proof. reflexivity. Qed.
Lemma getitem_bad_step a b k : k <> 1 -> query_getitem true a b (Some k) = Err 0%nat.
Proof. intros H. unfold query_getitem. destruct (k =? 1) eqn:E; [lia|reflexivity]. Qed.
Lemma getitem_negative_start a b k : a < 0 -> query_getitem true (Some a) b k = Err 0%nat.
Proof.
  intros H. unfold query_getitem.
  destruct k as [k|]; [destruct (k =? 1) eqn:E; cbn [negb]|]; try reflexivity;
    destruct (a <? 0) eqn:E2; try lia; reflexivity.
Qed.
Lemma getitem_not_slice a b k : query_getitem false a b k = Err 0%nat.
Proof. reflexivity. Qed.

(* C24_page: page n of size s (pages are numbered from 1) is R[(n-1)*s : n*s] *)
Theorem page_slice R n size :
  1 <= n -> 0 <= size ->
  exists w, query_page n size = Ok w /\ window_ok w = true /\ win w R = py_slice R (Some ((n - 1) * size)) (Some (n * size)).
Proof.
  intros Hn Hs. pose proof (zlen_nonneg R) as Hl.
  assert (Hm : 0 <= (n - 1) * size) by (apply Z.mul_nonneg_nonneg; lia).
  replace (n * size) with ((n - 1) * size + size) by ring.
  unfold query_page. generalize dependent ((n - 1) * size). intros m Hm.
  eexists. split; [reflexivity|]. split; [unfold window_ok, onat; cbn [fst snd]; lia|].
  unfold py_slice, adjust. win2seg.
  repeat match goal with |- context [if ?c then _ else _] => destruct c eqn:? end; try lia;
  apply seg_eq; unfold eff_cnt; lia.
Qed.

(* limit(l, o) / fetch(l, o) pass their arguments through: R[o : o + l], either may be omitted *)
Theorem limit_slice R l o :
  bound_ok l -> bound_ok o ->
  exists w, query_limit l o = Ok w /\ query_fetch l o = Ok w /\ window_ok w = true /\
            win w R = py_slice R (Some (match o with None => 0 | Some v => v end))
                                 (match l with None => None | Some v => Some (match o with None => 0 | Some x => x end + v) end).
Proof.
  intros Hl Ho. pose proof (zlen_nonneg R) as Hn. unfold bound_ok in *.
  eexists. split; [reflexivity|]. split; [reflexivity|].
  split; [unfold window_ok, onat; cbn [fst snd]; destruct l, o; lia|].
  unfold py_slice, adjust.
  destruct l as [l|], o as [o|]; win2seg;
    repeat match goal with |- context [if ?c then _ else _] => destruct c eqn:? end; try lia;
    apply seg_eq; unfold eff_cnt; lia.
Qed.

(* Python slices of slices (both non-negative) are windows of windows: used for nested limited queries *)
Lemma py_slice_win R a b w :
  bound_ok a -> bound_ok b -> query_getitem true a b None = Ok w -> win w R = py_slice R a b.
Proof.
  intros Ha Hb Hw. destruct (getitem_slice R a b Ha Hb) as (w' & E & _ & Hs). rewrite E in Hw. now inversion Hw; subst.
Qed.

(* the LIMIT section construct_sql_ast emits, under each engine's reading of it, selects the window (MySQL: for results
   shorter than its 2^64-1 stand-in for "no limit") *)
Theorem limit_section_sem d w R :
  window_ok w = true -> (d = DMySQL -> zlen R <= mysql_no_limit) ->
  sem_limit_section d (limit_section d w) R = win w R.
Proof.
  destruct w as [l o]. unfold window_ok, onat; cbn [fst snd]. intros H Hd.
  unfold limit_section, sem_limit_section, win; cbn [fst snd].
  destruct l as [l|], o as [o|]; try reflexivity.
  - destruct (o =? 0) eqn:E.
    + assert (o = 0) by lia. subst o. destruct d; try reflexivity; destruct (l <? 0) eqn:E2; try lia; reflexivity.
    + destruct d; try reflexivity. destruct (l <? 0) eqn:E2; try lia; reflexivity.
  - destruct d; try reflexivity. destruct (l <? 0) eqn:E2; try lia; reflexivity.
  - destruct (o =? 0) eqn:E.
    + assert (o = 0) by lia. subst o. cbn [Z.to_nat skipn].
      destruct d; try reflexivity. cbn [Z.ltb Z.compare]. apply firstn_all2.
      specialize (Hd eq_refl). unfold zlen in Hd. lia.
    + destruct d; try reflexivity. cbn [Z.ltb Z.compare]. apply firstn_all2. rewrite skipn_length.
      specialize (Hd eq_refl). unfold zlen in Hd. lia.
Qed.

End WindowProofs.
