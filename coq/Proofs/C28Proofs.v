(* C28 - lemmas over Model/C28Tracked.v (for every wrapped-method table [wr]) and their instances for the tables
   generated from /repo (Model/C28Wrapped.v, Gen/Mutators.v). *)
From Coq Require Import ZArith List Bool Lia ZifyBool.
Require Import PonyV.Base.PyBase PonyV.Base.Seg PonyV.Model.C28Tracked PonyV.Gen.Mutators PonyV.Model.C28Wrapped.
#[local] Open Scope Z_scope.

(* ------------------------------------------------------------------ induction principle for the nested type jv *)
Section JvInd.
  Variable P : jv -> Prop.
  Hypothesis HNull : P JNull.
  Hypothesis HBool : forall b, P (JBool b).
  Hypothesis HNum : forall z, P (JNum z).
  Hypothesis HStr : forall s, P (JStr s).
  Hypothesis HList : forall l, Forall P l -> P (JList l).
  Hypothesis HDict : forall d, Forall (fun kv => P (snd kv)) d -> P (JDict d).
  Fixpoint jv_ind' (v : jv) : P v :=
    match v with
    | JNull => HNull | JBool b => HBool b | JNum z => HNum z | JStr s => HStr s
    | JList l => HList l ((fix go (l : list jv) : Forall P l :=
                             match l with [] => Forall_nil _ | x :: l' => Forall_cons x (jv_ind' x) (go l') end) l)
    | JDict d => HDict d ((fix go (d : list (key * jv)) : Forall (fun kv => P (snd kv)) d :=
                             match d with
                             | [] => Forall_nil _
                             | kx :: d' => Forall_cons kx (jv_ind' (snd kx)) (go d')
                             end) d)
    end.
End JvInd.

(* ------------------------------------------------------------------ wrap / untrack / tagged *)

Lemma owner_eqb_eq a b : owner_eqb a b = true -> a = b.
Proof.
  destruct a as [a1 a2], b as [b1 b2]. unfold owner_eqb. cbn [fst snd]. intros H.
  apply andb_true_iff in H as [H1 H2]. apply Nat.eqb_eq in H1, H2. now subst.
Qed.

Lemma owner_eqb_refl a : owner_eqb a a = true.
Proof. destruct a. unfold owner_eqb. cbn [fst snd]. now rewrite !Nat.eqb_refl. Qed.

Lemma tag_is_eq o tag : tag_is o tag = true -> tag = Some o.
Proof. destruct tag as [o'|]; cbn; [intros H; apply owner_eqb_eq in H; now subst | discriminate]. Qed.

Definition vall (P : tv -> bool) (d : list (key * tv)) : bool := forallb (fun kv => let '(_, x) := kv in P x) d.

Lemma tagged_list o tag l : tagged o (TList tag l) = tag_is o tag && forallb (tagged o) l.
Proof. reflexivity. Qed.
Lemma tagged_dict o tag d : tagged o (TDict tag d) = tag_is o tag && vall (tagged o) d.
Proof. reflexivity. Qed.

Lemma tagged_wrap o v : tagged o (wrap (Some o) v) = true.
Proof.
  induction v using jv_ind'; try reflexivity.
  - cbn [wrap]. rewrite tagged_list. cbn [tag_is]. rewrite owner_eqb_refl. cbn [andb].
    induction H as [|x l Hx Hl IH]; cbn; [reflexivity | now rewrite Hx, IH].
  - cbn [wrap]. rewrite tagged_dict. cbn [tag_is]. rewrite owner_eqb_refl. cbn [andb]. unfold vall.
    induction H as [|[k x] d Hx Hd IH]; cbn; [reflexivity | cbn in Hx; now rewrite Hx, IH].
Qed.

Lemma tagged_scalar o tag v : is_container v = false -> tagged o (wrap tag v) = true.
Proof. destruct v; cbn; congruence. Qed.

Lemma untrack_wrap tag v : untrack (wrap tag v) = v.
Proof.
  induction v using jv_ind'; try reflexivity.
  - cbn [wrap untrack]. f_equal. induction H as [|x l Hx Hl IH]; cbn; [reflexivity | now rewrite Hx, IH].
  - cbn [wrap untrack]. f_equal. induction H as [|[k x] d Hx Hd IH]; cbn; [reflexivity | cbn in Hx; now rewrite Hx, IH].
Qed.

(* ------------------------------------------------------------------ forallb through the list operations *)
Section Forallb.
Variable P : tv -> bool.

Lemma fb_app (a b : list tv) : forallb P (a ++ b) = forallb P a && forallb P b.
Proof. apply forallb_app. Qed.

Lemma fb_firstn k (l : list tv) : forallb P l = true -> forallb P (firstn k l) = true.
Proof.
  revert k; induction l as [|x l IH]; intros [|k] H; cbn in *; try reflexivity.
  apply andb_true_iff in H as [Hx Hl]. now rewrite Hx, IH.
Qed.

Lemma fb_skipn k (l : list tv) : forallb P l = true -> forallb P (skipn k l) = true.
Proof.
  revert k; induction l as [|x l IH]; intros [|k] H; cbn in *; try reflexivity; try assumption.
  apply andb_true_iff in H as [Hx Hl]. now apply IH.
Qed.

Lemma fb_rev (l : list tv) : forallb P l = true -> forallb P (rev l) = true.
Proof.
  induction l as [|x l IH]; cbn; intros H; [reflexivity|].
  apply andb_true_iff in H as [Hx Hl]. rewrite fb_app, IH by assumption. cbn. now rewrite Hx.
Qed.

Lemma fb_removelast (l : list tv) : forallb P l = true -> forallb P (removelast l) = true.
Proof.
  induction l as [|x l IH]; cbn; intros H; [reflexivity|].
  apply andb_true_iff in H as [Hx Hl]. destruct l as [|y l']; [reflexivity|].
  cbn [forallb]. rewrite Hx. cbn [andb]. now apply IH.
Qed.

Lemma fb_set_nth (l : list tv) k x : forallb P l = true -> P x = true -> forallb P (set_nth l k x) = true.
Proof.
  intros Hl Hx. unfold set_nth. rewrite fb_app. cbn [forallb]. now rewrite fb_firstn, Hx, fb_skipn.
Qed.

Lemma fb_del_nth (l : list tv) k : forallb P l = true -> forallb P (del_nth l k) = true.
Proof. intros Hl. unfold del_nth. now rewrite fb_app, fb_firstn, fb_skipn. Qed.

Lemma fb_ins_sorted x (l : list tv) : P x = true -> forallb P l = true -> forallb P (ins_sorted x l) = true.
Proof.
  intros Hx. induction l as [|y l IH]; cbn; intros H; [now rewrite Hx|].
  apply andb_true_iff in H as [Hy Hl]. destruct (tv_leb x y); cbn; [now rewrite Hx, Hy, Hl | now rewrite Hy, IH].
Qed.

Lemma fb_isort (l : list tv) : forallb P l = true -> forallb P (isort l) = true.
Proof.
  induction l as [|x l IH]; cbn; intros H; [reflexivity|].
  apply andb_true_iff in H as [Hx Hl]. apply fb_ins_sorted; auto.
Qed.

Lemma fb_remove_first y (l l' : list tv) : forallb P l = true -> remove_first y l = Some l' -> forallb P l' = true.
Proof.
  revert l'; induction l as [|x l IH]; cbn; intros l' H E; [discriminate|].
  apply andb_true_iff in H as [Hx Hl]. destruct (scalar_eqb x y); [now inversion E; subst|].
  destruct (remove_first y l) as [r|]; [|discriminate]. inversion E; subst. cbn. now rewrite Hx, (IH r).
Qed.

Lemma fb_repeat_app (l : list tv) n : forallb P l = true -> forallb P (repeat_app l n) = true.
Proof. intros H. induction n as [|n IH]; cbn; [reflexivity | now rewrite fb_app, H, IH]. Qed.

Lemma fb_nth (l : list tv) k c : forallb P l = true -> nth_error l k = Some c -> P c = true.
Proof. intros H E. apply nth_error_In in E. rewrite forallb_forall in H. now apply H. Qed.

(* arguments of a list step all satisfy P *)
Definition largs_ok (g : largs) : bool :=
  match g with
  | GSetItem _ x | GAppend x | GInsert _ x => P x
  | GSetSlice _ _ xs | GExtend xs => forallb P xs
  | _ => true
  end.

Lemma list_step_fb g l l' : forallb P l = true -> largs_ok g = true -> list_step g l = Some l' -> forallb P l' = true.
Proof.
  intros Hl Hg E. destruct g; cbn [list_step largs_ok] in *.
  - destruct (norm_index (zlen l) i); inversion E; subst. now apply fb_set_nth.
  - destruct (slice_bounds (zlen l) a b) as [lo hi]. inversion E; subst. now rewrite !fb_app, fb_firstn, Hg, fb_skipn.
  - destruct (norm_index (zlen l) i); inversion E; subst. now apply fb_del_nth.
  - destruct (slice_bounds (zlen l) a b) as [lo hi]. inversion E; subst. now rewrite fb_app, fb_firstn, fb_skipn.
  - inversion E; subst. rewrite fb_app, Hl. cbn. now rewrite Hg.
  - inversion E; subst. now rewrite fb_app, Hl, Hg.
  - inversion E; subst. rewrite fb_app. cbn [forallb]. now rewrite fb_firstn, Hg, fb_skipn.
  - destruct i as [i|].
    + destruct (norm_index (zlen l) i); inversion E; subst. now apply fb_del_nth.
    + destruct l as [|x0 l0]; [discriminate|]. assert (El : l' = removelast (x0 :: l0)) by congruence. rewrite El. now apply fb_removelast.
  - eapply fb_remove_first; eauto.
  - inversion E; subst. now apply fb_rev.
  - destruct (sortable l); inversion E; subst. destruct rev; [apply fb_rev|]; now apply fb_isort.
  - inversion E; subst. reflexivity.
  - inversion E; subst. now apply fb_repeat_app.
Qed.

(* dicts *)
Lemma va_assoc (d : list (key * tv)) k c : vall P d = true -> assoc k d = Some c -> P c = true.
Proof.
  unfold vall. induction d as [|[k' y] d IH]; cbn; intros H E; [discriminate|].
  apply andb_true_iff in H as [Hy Hd]. destruct (zs_eqb k k'); [now inversion E; subst | now apply IH].
Qed.

Lemma va_assoc_set (d : list (key * tv)) k x : vall P d = true -> P x = true -> vall P (assoc_set k x d) = true.
Proof.
  unfold vall. intros H Hx. induction d as [|[k' y] d IH]; cbn in *; [now rewrite Hx|].
  apply andb_true_iff in H as [Hy Hd]. destruct (zs_eqb k k'); cbn; [now rewrite Hx, Hd | now rewrite Hy, IH].
Qed.

Lemma va_assoc_del (d : list (key * tv)) k : vall P d = true -> vall P (assoc_del k d) = true.
Proof.
  unfold vall. intros H. induction d as [|[k' y] d IH]; cbn in *; [reflexivity|].
  apply andb_true_iff in H as [Hy Hd]. destruct (zs_eqb k k'); cbn; [assumption | now rewrite Hy, IH].
Qed.

Lemma va_removelast (d : list (key * tv)) : vall P d = true -> vall P (removelast d) = true.
Proof.
  unfold vall. induction d as [|[k y] d IH]; cbn; intros H; [reflexivity|].
  apply andb_true_iff in H as [Hy Hd]. destruct d as [|z d']; [reflexivity|].
  cbn [forallb]. rewrite Hy. cbn [andb]. now apply IH.
Qed.

Definition dargs_ok (h : dargs) : bool :=
  match h with
  | HSetItem _ x | HSetDefault _ x => P x
  | HUpdate kxs => vall P kxs
  | _ => true
  end.

Lemma dict_step_va h d d' : vall P d = true -> dargs_ok h = true -> dict_step h d = Some d' -> vall P d' = true.
Proof.
  intros Hd Hh E. destruct h; cbn [dict_step dargs_ok] in *.
  - inversion E; subst. now apply va_assoc_set.
  - destruct (assoc k d); inversion E; subst. now apply va_assoc_del.
  - inversion E; subst. clear E. revert d Hd. unfold vall in Hh.
    induction kxs as [|[k x] kxs IH]; cbn in *; intros d Hd; [assumption|].
    apply andb_true_iff in Hh as [Hx Hk]. apply IH; [assumption|]. now apply va_assoc_set.
  - destruct (assoc k d); inversion E; subst; [assumption | now apply va_assoc_set].
  - destruct (assoc k d); [inversion E; subst; now apply va_assoc_del|]. destruct has_default; inversion E; now subst.
  - destruct d as [|x0 d0]; [discriminate|]. assert (El : d' = removelast (x0 :: d0)) by congruence. rewrite El. now apply va_removelast.
  - inversion E; subst. reflexivity.
Qed.
End Forallb.

(* ------------------------------------------------------------------ canonical form: sorting keys twice is sorting once *)

Lemma zs_leb_total a b : zs_leb a b = false -> zs_leb b a = true.
Proof.
  revert b; induction a as [|x a IH]; intros [|y b]; cbn; intros H; try discriminate; try reflexivity.
  destruct (x <? y) eqn:E1; [discriminate|]. destruct (y <? x) eqn:E2; [reflexivity|]. now apply IH.
Qed.

Fixpoint ksorted {A} (d : list (key * A)) : Prop :=
  match d with
  | [] => True
  | x :: d' => match d' with [] => True | y :: _ => zs_leb (fst x) (fst y) = true end /\ ksorted d'
  end.

Lemma kins_sorted {A} (x : key * A) d : ksorted d -> ksorted (kins x d).
Proof.
  induction d as [|y d IH]; cbn [kins]; intros H; [cbn; auto|].
  destruct (zs_leb (fst x) (fst y)) eqn:E; [cbn [ksorted]; auto|].
  destruct H as [H1 H2]. specialize (IH H2). cbn [ksorted]. split; [|assumption].
  destruct d as [|z d']; cbn [kins]; [now apply zs_leb_total|].
  destruct (zs_leb (fst x) (fst z)); [now apply zs_leb_total | assumption].
Qed.

Lemma ksort_sorted {A} (d : list (key * A)) : ksorted (ksort d).
Proof. induction d as [|x d IH]; cbn [ksort]; [exact I | now apply kins_sorted]. Qed.

Lemma ksort_id {A} (d : list (key * A)) : ksorted d -> ksort d = d.
Proof.
  induction d as [|x d IH]; cbn [ksort ksorted]; [reflexivity|]. intros [H1 H2].
  rewrite IH by assumption. destruct d as [|y d']; [reflexivity|]. cbn [kins]. now rewrite H1.
Qed.

Lemma map_kins {A B} (g : key * A -> key * B) (Hg : forall kx, fst (g kx) = fst kx) x d :
  map g (kins x d) = kins (g x) (map g d).
Proof.
  induction d as [|y d IH]; cbn [kins map]; [reflexivity|]. rewrite !Hg.
  destruct (zs_leb (fst x) (fst y)); cbn [map]; [reflexivity | now rewrite IH].
Qed.

Lemma map_ksort {A B} (g : key * A -> key * B) (Hg : forall kx, fst (g kx) = fst kx) d :
  map g (ksort d) = ksort (map g d).
Proof. induction d as [|x d IH]; cbn [ksort map]; [reflexivity | now rewrite map_kins, IH]. Qed.

Lemma canon_idem v : canon (canon v) = canon v.
Proof.
  induction v using jv_ind'; try reflexivity.
  - cbn [canon]. f_equal. rewrite map_map. induction H as [|x l Hx Hl IH]; cbn; [reflexivity | now rewrite Hx, IH].
  - cbn [canon]. f_equal.
    set (g := fun kv : key * jv => let '(k, x) := kv in (k, canon x)).
    assert (Hg : forall kx, fst (g kx) = fst kx) by (now intros [k x]).
    rewrite (map_ksort g Hg), map_map.
    assert (E : map (fun x => g (g x)) d = map g d).
    { induction H as [|[k x] d Hx Hd IH]; cbn; [reflexivity|]. cbn in Hx. now rewrite Hx, IH. }
    rewrite E. apply ksort_id, ksort_sorted.
Qed.

(* ------------------------------------------------------------------ which operations keep everything tracked *)

Section WithWr.
Variable wr : mname -> bool.

Definition act_ok (a : act) : bool :=
  match a with
  | AL la => wr (lact_name la)
  | AD da => wr (dact_name da)
  | ARead => true
  end.

Definition is_read (a : act) : bool := match a with ARead => true | _ => false end.

Lemma conv_items_tagged o aslist items : forallb (tagged o) (conv_items (Some o) aslist items) = true.
Proof. unfold conv_items. induction items as [|v items IH]; cbn; [reflexivity | now rewrite tagged_wrap, IH]. Qed.

Lemma conv_lact_ok o la : largs_ok (tagged o) (conv_lact (Some o) la) = true.
Proof.
  destruct la; cbn [conv_lact largs_ok]; try reflexivity; try apply tagged_wrap; apply conv_items_tagged.
Qed.

Lemma conv_kvs_tagged o kvs : vall (tagged o) (conv_kvs (Some o) kvs) = true.
Proof. unfold vall, conv_kvs. induction kvs as [|[k x] kvs IH]; cbn; [reflexivity | now rewrite tagged_wrap, IH]. Qed.

Lemma conv_dact_ok o da : dargs_ok (tagged o) (conv_dact (Some o) da) = true.
Proof. destruct da; cbn [conv_dact dargs_ok]; try reflexivity; try apply tagged_wrap; apply conv_kvs_tagged. Qed.

(* one action on a tracked container: stays tracked; a wrapped mutator that returns normally reports the change *)
Lemma apply_act_inv o a t t' ch :
  tagged o t = true -> act_ok a = true -> apply_act wr a t = Some (t', ch) ->
  tagged o t' = true /\ ch = negb (is_read a).
Proof.
  intros Ht Ha E. destruct a as [la|da|]; cbn [apply_act act_ok is_read] in *.
  - destruct t as [| | | |tag l|]; try discriminate.
    rewrite tagged_list in Ht. apply andb_true_iff in Ht as [Htag Hl]. apply tag_is_eq in Htag. subst tag.
    rewrite Ha in E.
    destruct (list_step (conv_lact (Some o) la) l) as [l'|] eqn:Es; [|discriminate]. inversion E; subst.
    split; [|reflexivity]. rewrite tagged_list. cbn [tag_is]. rewrite owner_eqb_refl. cbn [andb].
    eapply list_step_fb; eauto. apply conv_lact_ok.
  - destruct t as [| | | | |tag d]; try discriminate.
    rewrite tagged_dict in Ht. apply andb_true_iff in Ht as [Htag Hd]. apply tag_is_eq in Htag. subst tag.
    rewrite Ha in E.
    destruct (dict_step (conv_dact (Some o) da) d) as [d'|] eqn:Es; [|discriminate]. inversion E; subst.
    split; [|reflexivity]. rewrite tagged_dict. cbn [tag_is]. rewrite owner_eqb_refl. cbn [andb].
    eapply dict_step_va; eauto. apply conv_dact_ok.
  - inversion E; subst. now split.
Qed.

Lemma update_at_inv o a : act_ok a = true -> forall p t t' ch,
  tagged o t = true -> update_at wr p a t = Some (t', ch) ->
  tagged o t' = true /\ ch = negb (is_read a).
Proof.
  intros Ha. induction p as [|[i|k] p IH]; intros t t' ch Ht E; cbn [update_at] in E.
  - eapply apply_act_inv; eauto.
  - destruct t as [| | | |tag l|]; try discriminate.
    destruct (norm_index (zlen l) i) as [n|]; [|discriminate].
    destruct (nth_error l n) as [c|] eqn:En; [|discriminate].
    destruct (update_at wr p a c) as [[c' ch']|] eqn:Eu; [|discriminate]. inversion E; subst.
    rewrite tagged_list in Ht. apply andb_true_iff in Ht as [Htag Hl].
    destruct (IH c c' ch) as [Hc' Hch]; [eapply fb_nth; eauto | assumption |].
    split; [|assumption]. rewrite tagged_list, Htag. cbn [andb]. now apply fb_set_nth.
  - destruct t as [| | | | |tag d]; try discriminate.
    destruct (assoc k d) as [c|] eqn:En; [|discriminate].
    destruct (update_at wr p a c) as [[c' ch']|] eqn:Eu; [|discriminate]. inversion E; subst.
    rewrite tagged_dict in Ht. apply andb_true_iff in Ht as [Htag Hd].
    destruct (IH c c' ch) as [Hc' Hch]; [eapply va_assoc; eauto | assumption |].
    split; [|assumption]. rewrite tagged_dict, Htag. cbn [andb]. now apply va_assoc_set.
Qed.

(* reads: nothing changes at all, whatever is tracked or wrapped *)
Lemma set_nth_same {A} (l : list A) k c : nth_error l k = Some c -> set_nth l k c = l.
Proof.
  unfold set_nth. revert k. induction l as [|x l IH]; intros [|k] E; cbn in *; try discriminate.
  - now inversion E.
  - f_equal. now apply IH.
Qed.

Lemma zs_eqb_eq a b : zs_eqb a b = true -> a = b.
Proof.
  revert b; induction a as [|x a IH]; intros [|y b] H; cbn in *; try discriminate; [reflexivity|].
  apply andb_true_iff in H as [H1 H2]. apply Z.eqb_eq in H1. subst. f_equal. now apply IH.
Qed.

Lemma assoc_set_same {A} (d : list (key * A)) k c : assoc k d = Some c -> assoc_set k c d = d.
Proof.
  induction d as [|[k' y] d IH]; cbn; intros E; [discriminate|].
  destruct (zs_eqb k k') eqn:Ek; [now inversion E; subst | f_equal; now apply IH].
Qed.

Lemma update_at_read p : forall t t' ch, update_at wr p ARead t = Some (t', ch) -> t' = t /\ ch = false.
Proof.
  induction p as [|[i|k] p IH]; intros t t' ch E; cbn [update_at] in E.
  - cbn in E. inversion E; now subst.
  - destruct t as [| | | |tag l|]; try discriminate.
    destruct (norm_index (zlen l) i) as [n|]; [|discriminate].
    destruct (nth_error l n) as [c|] eqn:En; [|discriminate].
    destruct (update_at wr p ARead c) as [[c' ch']|] eqn:Eu; [|discriminate]. inversion E; subst.
    destruct (IH _ _ _ Eu) as [-> ->]. split; [|reflexivity]. now rewrite set_nth_same.
  - destruct t as [| | | | |tag d]; try discriminate.
    destruct (assoc k d) as [c|] eqn:En; [|discriminate].
    destruct (update_at wr p ARead c) as [[c' ch']|] eqn:Eu; [|discriminate]. inversion E; subst.
    destruct (IH _ _ _ Eu) as [-> ->]. split; [|reflexivity]. now rewrite assoc_set_same.
Qed.

Lemma state_eta st : {| root := root st; dirty := dirty st; dbval := dbval st |} = st.
Proof. now destruct st. Qed.

Lemma read_clean st p : step wr st (OAct p ARead) = st.
Proof.
  cbn [step]. destruct (update_at wr p ARead (root st)) as [[t' ch]|] eqn:E; [|reflexivity].
  apply update_at_read in E as [-> ->]. rewrite orb_false_r. apply state_eta.
Qed.

(* ------------------------------------------------------------------ sessions *)

Definition well_tracked (st : state) : Prop := exists o, tagged o (root st) = true.

(* the row holds the current value unless the object is queued for UPDATE *)
Definition synced (st : state) : Prop := dirty st = true \/ dbval st = canon (untrack (root st)).

Definition op_ok (x : op) : bool := match x with OAct _ a => act_ok a | _ => true end.

Lemma commit_root st : root (commit st) = root st.
Proof. unfold commit. now destruct (dirty st). Qed.

Lemma commit_synced st : synced st -> dbval (commit st) = canon (untrack (root (commit st))) /\ dirty (commit st) = false.
Proof.
  unfold synced, commit. destruct (dirty st) eqn:Ed; cbn; intros [H|H]; try discriminate; auto.
Qed.

Lemma step_inv st x : op_ok x = true -> well_tracked st -> synced st ->
  well_tracked (step wr st x) /\ synced (step wr st x).
Proof.
  intros Hx [o Ht] Hs. destruct x as [p a| |o']; cbn [step op_ok] in *.
  - destruct (update_at wr p a (root st)) as [[t' ch]|] eqn:E; [|split; [now exists o | assumption]].
    destruct (update_at_inv o a Hx p _ _ _ Ht E) as [Ht' Hch]. split; [now exists o|].
    unfold synced. cbn [dirty root dbval]. destruct a as [la|da|]; cbn in Hch; subst ch.
    + left. apply orb_true_r.
    + left. apply orb_true_r.
    + apply update_at_read in E as [-> _]. rewrite orb_false_r. exact Hs.
  - split; [exists o; now rewrite commit_root|]. right. now apply commit_synced.
  - split; [exists o'; apply tagged_wrap|]. right. cbn [dbval root]. rewrite untrack_wrap.
    destruct (commit_synced st Hs) as [H _]. rewrite H. symmetry. apply canon_idem.
Qed.

Lemma run_inv ops : forall st, forallb op_ok ops = true -> well_tracked st -> synced st ->
  well_tracked (run wr ops st) /\ synced (run wr ops st).
Proof.
  unfold run. induction ops as [|x ops IH]; cbn [fold_left forallb]; intros st H Hw Hs; [now split|].
  apply andb_true_iff in H as [Hx Hops]. destruct (step_inv st x Hx Hw Hs) as [Hw' Hs']. now apply IH.
Qed.

Lemma load_inv o v : well_tracked (load o v) /\ synced (load o v).
Proof.
  split; [exists o; apply tagged_wrap|]. right. cbn [load dbval root]. rewrite untrack_wrap. symmetry. apply canon_idem.
Qed.

(* what the row holds after the final commit is the value the program sees *)
Lemma persisted ops o v : forallb op_ok ops = true ->
  let st := commit (run wr ops (load o v)) in dbval st = canon (untrack (root st)).
Proof.
  intros H. destruct (load_inv o v) as [Hw Hs]. destruct (run_inv ops _ H Hw Hs) as [_ Hs'].
  now apply commit_synced.
Qed.

(* a wrapped mutator at any depth of a tracked value either raises and changes nothing, or marks the object *)
Lemma dirty_or_unchanged st p a : well_tracked st -> act_ok a = true -> is_read a = false ->
  match update_at wr p a (root st) with
  | Some _ => dirty (step wr st (OAct p a)) = true
  | None => step wr st (OAct p a) = st
  end.
Proof.
  intros [o Ht] Ha Hr. cbn [step]. destruct (update_at wr p a (root st)) as [[t' ch]|] eqn:E; [|reflexivity].
  destruct (update_at_inv o a Ha p _ _ _ Ht E) as [_ Hch]. cbn [dirty]. rewrite Hch, Hr. apply orb_true_r.
Qed.

Lemma value_changed_dirty st p a : well_tracked st -> act_ok a = true ->
  untrack (root (step wr st (OAct p a))) <> untrack (root st) -> dirty (step wr st (OAct p a)) = true.
Proof.
  intros Hw Ha Hne. destruct (is_read a) eqn:Hr.
  - destruct a; try discriminate. rewrite read_clean in Hne. now elim Hne.
  - pose proof (dirty_or_unchanged st p a Hw Ha Hr) as H.
    destruct (update_at wr p a (root st)); [assumption|]. rewrite H in Hne. now elim Hne.
Qed.

End WithWr.

(* ------------------------------------------------------------------ instances for the tables generated from /repo *)
From Coq Require String.
#[local] Open Scope Z_scope.

(* the wrapped set read from ormtypes.py covers every method of the model (since fix f0ecc86 also __iadd__, __imul__, __ior__) *)
Lemma wr_gen_table m : wr_gen m = true.
Proof. destruct m; vm_compute; reflexivity. Qed.

Lemma act_ok_gen a : act_ok wr_gen a = true.
Proof. destruct a as [la|da|]; cbn [act_ok]; [apply wr_gen_table | apply wr_gen_table | reflexivity]. Qed.

Lemma ops_ok_gen ops : forallb (op_ok wr_gen) ops = true.
Proof.
  induction ops as [|x ops IH]; cbn; [reflexivity|]. rewrite IH, andb_true_r. destruct x; cbn; try reflexivity. apply act_ok_gen.
Qed.

Lemma smem_In s l : smem s l = true -> In s l.
Proof. unfold smem. rewrite existsb_exists. intros [x [Hx E]]. apply String.eqb_eq in E. now subst. Qed.
Lemma In_smem s l : In s l -> smem s l = true.
Proof. unfold smem. rewrite existsb_exists. intros H. exists s. split; [assumption | apply String.eqb_refl]. Qed.

Lemma table_all (cov : String.string -> bool) all : forallb cov all = true -> forall s, In s all -> cov s = true.
Proof. intros H s Hin. rewrite forallb_forall in H. now apply H. Qed.

Lemma covered_list_all s : In s cpython_list_mutators -> covered_list s = true.
Proof. apply table_all. vm_compute. reflexivity. Qed.
Lemma covered_dict_all s : In s cpython_dict_mutators -> covered_dict s = true.
Proof. apply table_all. vm_compute. reflexivity. Qed.
Lemma covered_array_all s : In s cpython_list_mutators -> covered_array s = true.
Proof. apply table_all. vm_compute. reflexivity. Qed.

(* every mutator CPython has is an operation of the model (the constructor is replaced by the Tracked* classes) *)
Lemma model_complete_list s : In s cpython_list_mutators -> In s modelled_list_names \/ In s tracked_list_overridden.
Proof.
  intros H. assert (E : forallb (fun s => smem s modelled_list_names || smem s tracked_list_overridden) cpython_list_mutators = true)
    by (vm_compute; reflexivity).
  rewrite forallb_forall in E. specialize (E s H). apply orb_true_iff in E as [E|E]; [left|right]; now apply smem_In.
Qed.
Lemma model_complete_dict s : In s cpython_dict_mutators -> In s modelled_dict_names \/ In s tracked_dict_overridden.
Proof.
  intros H. assert (E : forallb (fun s => smem s modelled_dict_names || smem s tracked_dict_overridden) cpython_dict_mutators = true)
    by (vm_compute; reflexivity).
  rewrite forallb_forall in E. specialize (E s H). apply orb_true_iff in E as [E|E]; [left|right]; now apply smem_In.
Qed.

Lemma persisted_gen ops o v :
  let st := commit (run wr_gen ops (load o v)) in dbval st = canon (untrack (root st)).
Proof. apply persisted. apply ops_ok_gen. Qed.

Lemma wrap_inv_gen ops o v : well_tracked (run wr_gen ops (load o v)).
Proof.
  destruct (load_inv o v) as [Hw Hs]. now destruct (run_inv wr_gen ops _ (ops_ok_gen ops) Hw Hs).
Qed.

Lemma dirty_gen st p a : well_tracked st -> is_read a = false ->
  match update_at wr_gen p a (root st) with
  | Some _ => dirty (step wr_gen st (OAct p a)) = true
  | None => step wr_gen st (OAct p a) = st
  end.
Proof. intros Hw Hr. apply dirty_or_unchanged; [assumption | apply act_ok_gen | assumption]. Qed.

Lemma value_changed_dirty_gen st p a : well_tracked st ->
  untrack (root (step wr_gen st (OAct p a))) <> untrack (root st) -> dirty (step wr_gen st (OAct p a)) = true.
Proof. intros Hw. apply value_changed_dirty; [assumption | apply act_ok_gen]. Qed.

(* ------------------------------------------------------------------ sample: the sequences that were lost before fix f0ecc86 now reach the row *)
Definition o1 : owner := (1%nat, 1%nat).
Definition ka : key := [97].
Definition doc1 : jv := JDict [(ka, JList [JNum 1; JNum 2]); ([100], JDict [([120], JNum 1)])].
Definition ops_tuple : list op :=
  [OAct [KKey ka] (AL (LExtend false [JList [JNum 9]])); OCommit; OAct [KKey ka; KIdx (-1)] (AL (LAppend (JNum 10)))].

(* ------------------------------------------------------------------ a value assigned through the Json wrapper: obj.j = Json(v).
   Since fix 50830fa JsonConverter.validate unwraps it first, so the stored value is TrackedValue.make of the wrapped document:
   the same state as any other assignment, covered by the statements above. *)
Definition assigned_through_wrapper (o : owner) (v : jv) (old : jv) : state := {| root := wrap (Some o) v; dirty := true; dbval := old |}.
Lemma wrapper_assignment_inv o v old : well_tracked (assigned_through_wrapper o v old) /\ synced (assigned_through_wrapper o v old).
Proof. split; [exists o; apply tagged_wrap | now left]. Qed.
