(* C23 - the collection core: every loading path keeps the SetData consistent with the rows of the database, and what the
   program observes (iteration, len, count, contains, is_empty) is a function of the abstract collection only. *)
Require Import PonyV.Base.PyBase PonyV.Model.C23SetData PonyV.Gen.ContainsOrder PonyV.Model.C23Load PonyV.Proofs.C23SetProofs.
From Coq Require Import Arith Lia Permutation.
Open Scope nat_scope.

(* ------------------------------------------------------------------ list toolkit *)
Lemma memn_In : forall x l, memn x l = true <-> In x l.
Proof.
  intros. unfold memn. rewrite existsb_exists. split.
  - intros [y [H1 H2]]. apply Nat.eqb_eq in H2. subst. auto.
  - intros H. exists x. split; auto. apply Nat.eqb_refl.
Qed.
Lemma memn_false : forall x l, memn x l = false <-> ~ In x l.
Proof. intros. rewrite <- memn_In. destruct (memn x l); split; intros; try discriminate; auto. exfalso; apply H; auto. Qed.

Lemma In_diff : forall x a b, In x (diff a b) <-> In x a /\ ~ In x b.
Proof. intros. unfold diff. rewrite filter_In, negb_true_iff, memn_false. tauto. Qed.
Lemma NoDup_diff : forall a b, NoDup a -> NoDup (diff a b).
Proof. intros. unfold diff. apply NoDup_filter. auto. Qed.
Lemma diff_nil_r : forall a, diff a [] = a.
Proof. induction a as [|x a IH]; [reflexivity|]. unfold diff in *. cbn. f_equal. exact IH. Qed.
Lemma In_without : forall x y l, In y (without x l) <-> In y l /\ y <> x.
Proof.
  intros. unfold without. rewrite filter_In, negb_true_iff, Nat.eqb_neq. split; intros [H1 H2]; split; auto.
Qed.
Lemma NoDup_without : forall x l, NoDup l -> NoDup (without x l).
Proof. intros. unfold without. apply NoDup_filter. auto. Qed.

Lemma nodup_app : forall (a b : list nat), NoDup a -> NoDup b -> (forall x, In x a -> ~ In x b) -> NoDup (a ++ b).
Proof.
  induction a as [|x a IH]; intros b Ha Hb Hd; cbn; auto.
  inversion Ha; subst. constructor.
  - rewrite in_app_iff. intros [H|H]; [contradiction | apply (Hd x); [left; auto | auto]].
  - apply IH; auto. intros y Hy. apply Hd. right; auto.
Qed.

Lemma same_elems_length : forall (a b : list nat), NoDup a -> NoDup b -> (forall x, In x a <-> In x b) -> length a = length b.
Proof. intros a b Ha Hb H. apply Permutation_length. apply NoDup_Permutation; auto. Qed.

Lemma length_diff_subset : forall a b, NoDup a -> NoDup b -> (forall x, In x b -> In x a) -> length (diff a b) + length b = length a.
Proof.
  intros a b Ha Hb Hs.
  assert (Hp : Permutation a (diff a b ++ b)).
  { apply NoDup_Permutation; auto.
    - apply nodup_app; auto; [apply NoDup_diff; auto | intros x Hx; apply In_diff in Hx; tauto].
    - intros x. rewrite in_app_iff, In_diff. split.
      + intros H. destruct (in_dec Nat.eq_dec x b); tauto.
      + intros [[H _]|H]; auto. }
  apply Permutation_length in Hp. rewrite app_length in Hp. lia.
Qed.

(* ------------------------------------------------------------------ the invariant *)
Lemma In_abstract : forall x rows sd, In x (abstract rows sd) <-> (In x rows /\ ~ In x (sd_removed sd)) \/ In x (sd_added sd).
Proof. intros. unfold abstract. rewrite in_app_iff, In_diff. tauto. Qed.

Record Inv (rows : list nat) (sd : setdata) : Prop := mkInv {
  i_rows : NoDup rows;
  i_items : NoDup (sd_items sd);
  i_added : NoDup (sd_added sd);
  i_removed : NoDup (sd_removed sd);
  i_sound : forall x, In x (sd_items sd) -> In x (abstract rows sd);
  i_added_items : forall x, In x (sd_added sd) -> In x (sd_items sd);
  i_added_new : forall x, In x (sd_added sd) -> ~ In x rows;
  i_removed_rows : forall x, In x (sd_removed sd) -> In x rows;
  i_full : sd_full sd = true -> forall x, In x (abstract rows sd) -> In x (sd_items sd);
  i_absent : forall a, sd_absent sd = Some a -> forall x, In x a -> In x (sd_items sd) \/ ~ In x (abstract rows sd);
  i_count : forall n, sd_count sd = Some n -> n = length (abstract rows sd)
}.

Lemma NoDup_abstract : forall rows sd, Inv rows sd -> NoDup (abstract rows sd).
Proof.
  intros rows sd H. unfold abstract. apply nodup_app.
  - apply NoDup_diff. apply (i_rows _ _ H).
  - apply (i_added _ _ H).
  - intros x Hx Ha. apply In_diff in Hx. apply (i_added_new _ _ H x Ha). tauto.
Qed.

Lemma removed_not_items : forall rows sd, Inv rows sd -> forall x, In x (sd_removed sd) -> ~ In x (sd_items sd).
Proof.
  intros rows sd H x Hr Hi. apply (i_sound _ _ H) in Hi. apply In_abstract in Hi. destruct Hi as [[_ Hn]|Ha]; [contradiction|].
  apply (i_added_new _ _ H x Ha). apply (i_removed_rows _ _ H). auto.
Qed.

Lemma length_abstract : forall rows sd, Inv rows sd ->
  length (abstract rows sd) = length rows + length (sd_added sd) - length (sd_removed sd).
Proof.
  intros rows sd H. unfold abstract. rewrite app_length.
  pose proof (length_diff_subset rows (sd_removed sd) (i_rows _ _ H) (i_removed _ _ H) (i_removed_rows _ _ H)). lia.
Qed.

(* ------------------------------------------------------------------ Set.load (whole collection) *)
Lemma load_full_abstract : forall rows sd, abstract rows (load_full rows sd) = abstract rows sd.
Proof. reflexivity. Qed.

Lemma load_full_items : forall rows sd, Inv rows sd ->
  forall x, In x (sd_items (load_full rows sd)) <-> In x (abstract rows sd).
Proof.
  intros rows sd H x. cbn. rewrite in_app_iff, !In_diff. split.
  - intros [Hi|[[Hr Hni] Hnr]]; [apply (i_sound _ _ H); auto | apply In_abstract; left; auto].
  - intros Ha. apply In_abstract in Ha. destruct Ha as [[Hr Hnr]|Ha].
    + destruct (in_dec Nat.eq_dec x (sd_items sd)); [left; auto | right; auto].
    + left. apply (i_added_items _ _ H). auto.
Qed.

Lemma load_full_Inv : forall rows sd, Inv rows sd -> Inv rows (load_full rows sd).
Proof.
  intros rows sd H.
  assert (Hnd : NoDup (sd_items (load_full rows sd))).
  { cbn. apply nodup_app; [apply (i_items _ _ H) | apply NoDup_diff, NoDup_diff, (i_rows _ _ H) |].
    intros x Hx Hd. apply In_diff in Hd. destruct Hd as [Hd _]. apply In_diff in Hd. tauto. }
  constructor; try (cbn; apply H).
  - exact Hnd.
  - intros x Hx. rewrite load_full_abstract. apply load_full_items; auto.
  - intros x Hx. cbn. apply in_or_app. left. apply (i_added_items _ _ H). auto.
  - intros _ x Hx. apply load_full_items; auto.
  - cbn. intros a Ha. discriminate.
  - intros n Hn. cbn in Hn. inversion Hn; subst. rewrite load_full_abstract.
    apply same_elems_length; [exact Hnd | apply NoDup_abstract; auto | apply load_full_items; auto].
Qed.

Lemma load_full_is_full : forall rows sd, sd_full (load_full rows sd) = true /\
  sd_count (load_full rows sd) = Some (length (sd_items (load_full rows sd))).
Proof. intros; split; reflexivity. Qed.

(* every member of a batch ends up fully loaded, consistent with ITS OWN rows, with ITS OWN count *)
Lemma load_batch_own : forall batch,
  (forall rs, In rs batch -> Inv (fst rs) (snd rs)) ->
  forall rs, In rs batch ->
    In (load_full (fst rs) (snd rs)) (load_batch batch) /\
    Inv (fst rs) (load_full (fst rs) (snd rs)) /\
    sd_count (load_full (fst rs) (snd rs)) = Some (length (abstract (fst rs) (snd rs))).
Proof.
  intros batch H rs Hin. split; [unfold load_batch; apply (in_map (fun rs0 => load_full (fst rs0) (snd rs0))); auto|]. split; [apply load_full_Inv; auto|].
  pose proof (load_full_Inv _ _ (H rs Hin)) as Hi.
  pose proof (i_count _ _ Hi _ eq_refl) as Hc. rewrite load_full_abstract in Hc.
  change (sd_count (load_full (fst rs) (snd rs))) with (Some (length (sd_items (load_full (fst rs) (snd rs))))). f_equal. exact Hc.
Qed.

(* ------------------------------------------------------------------ Set.load(obj, items) *)
Lemma removed_not_added : forall rows sd, Inv rows sd -> forall x, In x (sd_removed sd) -> ~ In x (sd_added sd).
Proof. intros rows sd H x Hr Ha. apply (i_added_new _ _ H x Ha). apply (i_removed_rows _ _ H). auto. Qed.

Lemma items_nil_added_nil : forall rows sd, Inv rows sd -> sd_items sd = [] -> sd_added sd = [].
Proof.
  intros rows sd H Hi. destruct (sd_added sd) as [|a l] eqn:E; auto.
  exfalso. assert (In a (sd_items sd)) by (apply (i_added_items _ _ H); rewrite E; left; auto). rewrite Hi in H0. destruct H0.
Qed.

Lemma load_for_abstract : forall rows xs sd, abstract rows (load_for rows xs sd) = abstract rows sd.
Proof.
  intros. unfold load_for. destruct (diff (diff xs (sd_items sd)) (sd_removed sd)); [reflexivity|].
  destruct (sd_items sd); reflexivity.
Qed.

Lemma load_for_Inv : forall rows xs sd, NoDup xs -> Inv rows sd -> Inv rows (load_for rows xs sd).
Proof.
  intros rows xs sd Hxs H. unfold load_for.
  destruct (diff (diff xs (sd_items sd)) (sd_removed sd)) as [|a ask] eqn:Eask; auto.
  destruct (sd_items sd) as [|i its] eqn:Ei; [|apply load_full_Inv; auto].
  pose proof (items_nil_added_nil _ _ H Ei) as Hadd.
  rewrite <- Eask.
  constructor; cbn [sd_items sd_added sd_removed sd_full sd_absent sd_count].
  - apply H.
  - apply NoDup_filter. apply NoDup_diff, NoDup_diff. auto.
  - apply H.
  - apply H.
  - intros x Hx. apply filter_In in Hx. destruct Hx as [Hx Hr]. apply memn_In in Hr. apply In_diff in Hx.
    apply In_abstract. left. cbn. tauto.
  - intros x Hx. rewrite Hadd in Hx. destruct Hx.
  - apply H.
  - apply H.
  - intros Hf x Hx. exfalso. pose proof (i_full _ _ H Hf x) as Hc. rewrite Ei in Hc. apply Hc. exact Hx.
  - intros ab Hab x Hx. right. destruct (i_absent _ _ H ab Hab x Hx) as [Hc|Hc]; [rewrite Ei in Hc; destruct Hc | exact Hc].
  - apply (i_count _ _ H).
Qed.

Lemma load_for_member : forall rows x sd, Inv rows sd ->
  (In x (sd_items (load_for rows [x] sd)) <-> In x (abstract rows sd)).
Proof.
  intros rows x sd H. unfold load_for.
  destruct (diff (diff [x] (sd_items sd)) (sd_removed sd)) as [|a ask] eqn:Eask.
  - (* nothing to ask: x is a known member or a pending removal *)
    split; [apply (i_sound _ _ H)|]. intros Ha.
    destruct (in_dec Nat.eq_dec x (sd_items sd)) as [|Hni]; auto. exfalso.
    assert (Hr : In x (sd_removed sd)).
    { destruct (in_dec Nat.eq_dec x (sd_removed sd)) as [|Hnr]; auto. exfalso.
      assert (In x (diff (diff [x] (sd_items sd)) (sd_removed sd))) by (rewrite !In_diff; cbn; tauto).
      rewrite Eask in H0. destruct H0. }
    apply In_abstract in Ha. destruct Ha as [[_ Hn]|Ha]; [contradiction | eapply removed_not_added; eauto].
  - destruct (sd_items sd) as [|i its] eqn:Ei.
    + pose proof (items_nil_added_nil _ _ H Ei) as Hadd. cbn [sd_items]. rewrite <- Eask.
      rewrite filter_In, memn_In, !In_diff, In_abstract, Hadd. cbn. rewrite Ei. cbn.
      split; [intros [[[_ _] Hnr] Hr]; left; auto | intros [[Hr Hnr]|[]]; tauto].
    + apply load_full_items. auto.
Qed.

(* ------------------------------------------------------------------ flush *)
Lemma flush_abstract : forall rows sd, abstract (flush_rows rows sd) (flush_sd sd) = abstract rows sd.
Proof. intros. unfold abstract at 1. cbn. rewrite diff_nil_r, app_nil_r. reflexivity. Qed.

Lemma flush_Inv : forall rows sd, Inv rows sd -> Inv (flush_rows rows sd) (flush_sd sd).
Proof.
  intros rows sd H. constructor; cbn; try apply H; try constructor.
  - apply NoDup_abstract; auto.
  - intros x Hx. rewrite flush_abstract. apply (i_sound _ _ H). auto.
  - intros x [].
  - intros x [].
  - intros x [].
  - intros Hf x Hx. rewrite flush_abstract in Hx. apply (i_full _ _ H Hf). auto.
  - intros a Ha. discriminate.
  - intros n Hn. rewrite flush_abstract. apply (i_count _ _ H). auto.
Qed.

Lemma autoflush_spec : forall rows sd, Inv rows sd ->
  let rs := autoflush rows sd in
  Inv (fst rs) (snd rs) /\ abstract (fst rs) (snd rs) = abstract rows sd /\
  sd_added (snd rs) = [] /\ sd_removed (snd rs) = [] /\ sd_items (snd rs) = sd_items sd /\ sd_full (snd rs) = sd_full sd /\
  sd_count (snd rs) = sd_count sd.
Proof.
  intros rows sd H. unfold autoflush. destruct (pending sd) eqn:E; cbn.
  - split; [apply flush_Inv; auto|]. split; [apply flush_abstract|]. repeat split.
  - unfold pending in E. destruct (sd_added sd) eqn:Ea; destruct (sd_removed sd) eqn:Er; try discriminate. repeat split; auto.
Qed.

Lemma abstract_clean : forall rows sd, sd_added sd = [] -> sd_removed sd = [] -> abstract rows sd = rows.
Proof. intros rows sd Ha Hr. unfold abstract. rewrite Ha, Hr, diff_nil_r, app_nil_r. reflexivity. Qed.

(* ------------------------------------------------------------------ observations *)
Definition same_set (a b : list nat) : Prop := forall x, In x a <-> In x b.

(* iteration / len / copy *)
Lemma do_copy_spec : forall rows sd, Inv rows sd ->
  let r := do_copy rows sd in
  same_set (fst r) (abstract rows sd) /\ length (fst r) = length (abstract rows sd) /\
  Inv (fst (snd r)) (snd (snd r)) /\ abstract (fst (snd r)) (snd (snd r)) = abstract rows sd.
Proof.
  intros rows sd H. unfold do_copy. destruct (sd_full sd) eqn:Ef; cbn.
  - assert (Hs : same_set (sd_items sd) (abstract rows sd)) by (intros x; split; [apply (i_sound _ _ H) | apply (i_full _ _ H Ef)]).
    split; auto. split; [apply same_elems_length; auto; [apply (i_items _ _ H) | apply NoDup_abstract; auto]|]. split; auto.
  - destruct (autoflush rows sd) as [rows1 sd1] eqn:Ea.
    pose proof (autoflush_spec rows sd H) as Hs. rewrite Ea in Hs. cbn in Hs. destruct Hs as (Hi1 & Hab & _).
    cbn. pose proof (load_full_Inv _ _ Hi1) as Hi2.
    assert (Hs : same_set (sd_items (load_full rows1 sd1)) (abstract rows sd)) by (intros x; rewrite <- Hab; apply load_full_items; auto).
    split; auto. split.
    + apply same_elems_length; auto; [apply (i_items _ _ Hi2) | rewrite <- Hab; apply NoDup_abstract; auto].
    + split; auto.
Qed.

(* count() *)
Lemma do_count_spec : forall rows sd, Inv rows sd ->
  let r := do_count rows sd in
  fst r = length (abstract rows sd) /\ Inv rows (snd r) /\ abstract rows (snd r) = abstract rows sd.
Proof.
  intros rows sd H. unfold do_count. destruct (sd_count sd) as [n|] eqn:Ec; cbn.
  - split; [apply (i_count _ _ H); auto | auto].
  - split; [symmetry; apply length_abstract; auto|]. split; auto.
    constructor; cbn; try apply H.
    + intros a Ha. apply (i_absent _ _ H a Ha).
    + intros n Hn. inversion Hn; subst. symmetry. apply length_abstract. auto.
Qed.

(* is_empty(): first is the row the LIMIT 1 query happens to return *)
Lemma do_is_empty_spec : forall first rows sd,
  (forall l r, first l = Some r -> In r l) -> (forall l, first l = None -> l = []) ->
  Inv rows sd ->
  let r := do_is_empty first rows sd in
  (fst r = true <-> abstract rows sd = []) /\ Inv (fst (snd r)) (snd (snd r)) /\
  same_set (abstract (fst (snd r)) (snd (snd r))) (abstract rows sd).
Proof.
  intros first rows sd Hf1 Hf2 H. unfold do_is_empty.
  destruct (sd_full sd) eqn:Ef.
  - cbn. split; [|split; [auto | intros x; tauto]].
    destruct (sd_items sd) as [|i its] eqn:Ei; split; intros Hx; try discriminate; auto.
    + destruct (abstract rows sd) as [|a l] eqn:Ea; auto. exfalso.
      assert (In a (sd_items sd)) by (apply (i_full _ _ H Ef); rewrite Ea; left; auto). rewrite Ei in H0. destruct H0.
    + exfalso. assert (In i (abstract rows sd)) by (apply (i_sound _ _ H); rewrite Ei; left; auto). rewrite Hx in H0. destruct H0.
  - destruct (sd_items sd) as [|i its] eqn:Ei.
    + destruct (sd_count sd) as [n|] eqn:Ec.
      * cbn. split; [|split; [auto | intros x; tauto]].
        rewrite Nat.eqb_eq. rewrite (i_count _ _ H n Ec). split; [apply length_zero_iff_nil | intros ->; reflexivity].
      * destruct (autoflush rows sd) as [rows1 sd1] eqn:Ea.
        pose proof (autoflush_spec rows sd H) as Hs. rewrite Ea in Hs. cbn in Hs.
        destruct Hs as (Hi1 & Hab & Hadd & Hrem & Hit & Hfu & Hco).
        pose proof (abstract_clean rows1 sd1 Hadd Hrem) as Hclean.
        destruct (first rows1) as [r|] eqn:Efi; cbn.
        -- assert (Hr : In r rows1) by (apply Hf1; auto).
           split; [split; [discriminate | intros Hx; rewrite <- Hab, Hclean in Hx; rewrite Hx in Hr; destruct Hr]|].
           split; [|unfold abstract; cbn; rewrite <- Hab; unfold abstract; intros x; tauto].
           constructor; cbn; try apply Hi1.
           ++ constructor; [intros [] | constructor].
           ++ intros x [<-|[]]. unfold abstract; cbn. rewrite Hadd, Hrem, diff_nil_r, app_nil_r. auto.
           ++ intros x Hx. rewrite Hadd in Hx. destruct Hx.
           ++ rewrite Hfu, Ef. discriminate.
           ++ intros a Ha x Hx. right. destruct (i_absent _ _ Hi1 a Ha x Hx) as [Hc|Hc]; [rewrite Hit, Ei in Hc; destruct Hc | exact Hc].
           ++ intros n Hn. apply (i_count _ _ Hi1 n Hn).
        -- assert (Hr : rows1 = []) by (apply Hf2; auto).
           split; [split; [intros _; rewrite <- Hab, Hclean; auto | auto]|].
           split; [|unfold abstract; cbn; rewrite <- Hab; unfold abstract; intros x; tauto].
           constructor; cbn; try apply Hi1.
           ++ constructor.
           ++ intros x [].
           ++ intros x Hx. rewrite Hadd in Hx. destruct Hx.
           ++ intros _ x Hx. unfold abstract in Hx; cbn in Hx. rewrite Hadd, Hrem, diff_nil_r, app_nil_r, Hr in Hx. destruct Hx.
           ++ intros a Ha. discriminate.
           ++ intros n Hn. inversion Hn; subst. unfold abstract; cbn. rewrite Hadd, Hrem, diff_nil_r, app_nil_r, Hr. reflexivity.
    + cbn. split; [|split; [auto | intros x; tauto]]. split; [discriminate|].
      intros Hx. exfalso. assert (In i (abstract rows sd)) by (apply (i_sound _ _ H); rewrite Ei; left; auto). rewrite Hx in H0. destruct H0.
Qed.
