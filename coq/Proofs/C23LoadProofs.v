(* C23 - the collection core: every loading path keeps the SetData consistent with the rows of the database, and what the
   program observes (iteration, len, count, contains, is_empty) is a function of the abstract collection only. *)
Require Import PonyV.Base.PyBase PonyV.Model.C23SetData PonyV.Gen.ContainsOrder PonyV.Model.C23Load PonyV.Proofs.C23SetProofs.
From Coq Require Import Arith Lia Permutation.
Open Scope nat_scope.

(* ------------------------------------------------------------------ list toolkit *)
Lemma memn_In : forall x l, memn x l = true <-> In x l.
Proof.
  intros. unfold memn. rewrite existsb_exists. split.
  - intros [y [H1 H2]]. apply Nat.eqb_eq in H2. subst. auto.
  - intros H. exists x. split; auto. apply Nat.eqb_refl.
Qed.
Lemma memn_false : forall x l, memn x l = false <-> ~ In x l.
Proof. intros. rewrite <- memn_In. destruct (memn x l); split; intros; try discriminate; auto. exfalso; apply H; auto. Qed.

Lemma In_diff : forall x a b, In x (diff a b) <-> In x a /\ ~ In x b.
Proof. intros. unfold diff. rewrite filter_In, negb_true_iff, memn_false. tauto. Qed.
Lemma NoDup_diff : forall a b, NoDup a -> NoDup (diff a b).
Proof. intros. unfold diff. apply NoDup_filter. auto. Qed.
Lemma diff_nil_r : forall a, diff a [] = a.
Proof. induction a as [|x a IH]; [reflexivity|]. unfold diff in *. cbn. f_equal. exact IH. Qed.
Lemma In_without : forall x y l, In y (without x l) <-> In y l /\ y <> x.
Proof.
  intros. unfold without. rewrite filter_In, negb_true_iff, Nat.eqb_neq. split; intros [H1 H2]; split; auto.
Qed.
Lemma NoDup_without : forall x l, NoDup l -> NoDup (without x l).
Proof. intros. unfold without. apply NoDup_filter. auto. Qed.

Lemma nodup_app : forall (a b : list nat), NoDup a -> NoDup b -> (forall x, In x a -> ~ In x b) -> NoDup (a ++ b).
Proof.
  induction a as [|x a IH]; intros b Ha Hb Hd; cbn; auto.
  inversion Ha; subst. constructor.
  - rewrite in_app_iff. intros [H|H]; [contradiction | apply (Hd x); [left; auto | auto]].
  - apply IH; auto. intros y Hy. apply Hd. right; auto.
Qed.

Lemma same_elems_length : forall (a b : list nat), NoDup a -> NoDup b -> (forall x, In x a <-> In x b) -> length a = length b.
Proof. intros a b Ha Hb H. apply Permutation_length. apply NoDup_Permutation; auto. Qed.

Lemma length_diff_subset : forall a b, NoDup a -> NoDup b -> (forall x, In x b -> In x a) -> length (diff a b) + length b = length a.
Proof.
  intros a b Ha Hb Hs.
  assert (Hp : Permutation a (diff a b ++ b)).
  { apply NoDup_Permutation; auto.
    - apply nodup_app; auto; [apply NoDup_diff; auto | intros x Hx; apply In_diff in Hx; tauto].
    - intros x. rewrite in_app_iff, In_diff. split.
      + intros H. destruct (in_dec Nat.eq_dec x b); tauto.
      + intros [[H _]|H]; auto. }
  apply Permutation_length in Hp. rewrite app_length in Hp. lia.
Qed.

(* ------------------------------------------------------------------ the invariant *)
Lemma In_abstract : forall x rows sd, In x (abstract rows sd) <-> (In x rows /\ ~ In x (sd_removed sd)) \/ In x (sd_added sd).
Proof. intros. unfold abstract. rewrite in_app_iff, In_diff. tauto. Qed.

Record Inv (rows : list nat) (sd : setdata) : Prop := mkInv {
  i_rows : NoDup rows;
  i_items : NoDup (sd_items sd);
  i_added : NoDup (sd_added sd);
  i_removed : NoDup (sd_removed sd);
  i_sound : forall x, In x (sd_items sd) -> In x (abstract rows sd);
  i_added_items : forall x, In x (sd_added sd) -> In x (sd_items sd);
  i_added_new : forall x, In x (sd_added sd) -> ~ In x rows;
  i_removed_rows : forall x, In x (sd_removed sd) -> In x rows;
  i_full : sd_full sd = true -> forall x, In x (abstract rows sd) -> In x (sd_items sd);
  i_absent : forall a, sd_absent sd = Some a -> forall x, In x a -> In x (sd_items sd) \/ ~ In x (abstract rows sd);
  i_count : forall n, sd_count sd = Some n -> n = Z.of_nat (length (abstract rows sd))
}.

Lemma NoDup_abstract : forall rows sd, Inv rows sd -> NoDup (abstract rows sd).
Proof.
  intros rows sd H. unfold abstract. apply nodup_app.
  - apply NoDup_diff. apply (i_rows _ _ H).
  - apply (i_added _ _ H).
  - intros x Hx Ha. apply In_diff in Hx. apply (i_added_new _ _ H x Ha). tauto.
Qed.

Lemma removed_not_items : forall rows sd, Inv rows sd -> forall x, In x (sd_removed sd) -> ~ In x (sd_items sd).
Proof.
  intros rows sd H x Hr Hi. apply (i_sound _ _ H) in Hi. apply In_abstract in Hi. destruct Hi as [[_ Hn]|Ha]; [contradiction|].
  apply (i_added_new _ _ H x Ha). apply (i_removed_rows _ _ H). auto.
Qed.

Lemma length_abstract : forall rows sd, Inv rows sd ->
  length (abstract rows sd) = length rows + length (sd_added sd) - length (sd_removed sd).
Proof.
  intros rows sd H. unfold abstract. rewrite app_length.
  pose proof (length_diff_subset rows (sd_removed sd) (i_rows _ _ H) (i_removed _ _ H) (i_removed_rows _ _ H)). lia.
Qed.

(* ------------------------------------------------------------------ Set.load (whole collection) *)
Lemma load_full_abstract : forall rows sd, abstract rows (load_full rows sd) = abstract rows sd.
Proof. reflexivity. Qed.

Lemma load_full_items : forall rows sd, Inv rows sd ->
  forall x, In x (sd_items (load_full rows sd)) <-> In x (abstract rows sd).
Proof.
  intros rows sd H x. cbn. rewrite in_app_iff, !In_diff. split.
  - intros [Hi|[[Hr Hni] Hnr]]; [apply (i_sound _ _ H); auto | apply In_abstract; left; auto].
  - intros Ha. apply In_abstract in Ha. destruct Ha as [[Hr Hnr]|Ha].
    + destruct (in_dec Nat.eq_dec x (sd_items sd)); [left; auto | right; auto].
    + left. apply (i_added_items _ _ H). auto.
Qed.

Lemma load_full_Inv : forall rows sd, Inv rows sd -> Inv rows (load_full rows sd).
Proof.
  intros rows sd H.
  assert (Hnd : NoDup (sd_items (load_full rows sd))).
  { cbn. apply nodup_app; [apply (i_items _ _ H) | apply NoDup_diff, NoDup_diff, (i_rows _ _ H) |].
    intros x Hx Hd. apply In_diff in Hd. destruct Hd as [Hd _]. apply In_diff in Hd. tauto. }
  constructor; try (cbn; apply H).
  - exact Hnd.
  - intros x Hx. rewrite load_full_abstract. apply load_full_items; auto.
  - intros x Hx. cbn. apply in_or_app. left. apply (i_added_items _ _ H). auto.
  - intros _ x Hx. apply load_full_items; auto.
  - cbn. intros a Ha. discriminate.
  - intros n Hn. cbn in Hn. inversion Hn; subst. rewrite load_full_abstract. f_equal.
    apply same_elems_length; [exact Hnd | apply NoDup_abstract; auto | apply load_full_items; auto].
Qed.

Lemma load_full_is_full : forall rows sd, sd_full (load_full rows sd) = true /\
  sd_count (load_full rows sd) = Some (Z.of_nat (length (sd_items (load_full rows sd)))).
Proof. intros; split; reflexivity. Qed.

(* every member of a batch ends up fully loaded, consistent with ITS OWN rows, with ITS OWN count *)
Lemma load_batch_own : forall batch,
  (forall rs, In rs batch -> Inv (fst rs) (snd rs)) ->
  forall rs, In rs batch ->
    In (load_full (fst rs) (snd rs)) (load_batch batch) /\
    Inv (fst rs) (load_full (fst rs) (snd rs)) /\
    sd_count (load_full (fst rs) (snd rs)) = Some (Z.of_nat (length (abstract (fst rs) (snd rs)))).
Proof.
  intros batch H rs Hin. split; [unfold load_batch; apply (in_map (fun rs0 => load_full (fst rs0) (snd rs0))); auto|]. split; [apply load_full_Inv; auto|].
  pose proof (load_full_Inv _ _ (H rs Hin)) as Hi.
  pose proof (i_count _ _ Hi _ eq_refl) as Hc. rewrite load_full_abstract in Hc.
  change (sd_count (load_full (fst rs) (snd rs))) with (Some (Z.of_nat (length (sd_items (load_full (fst rs) (snd rs)))))). f_equal. exact Hc.
Qed.

(* ------------------------------------------------------------------ Set.load(obj, items) *)
Lemma removed_not_added : forall rows sd, Inv rows sd -> forall x, In x (sd_removed sd) -> ~ In x (sd_added sd).
Proof. intros rows sd H x Hr Ha. apply (i_added_new _ _ H x Ha). apply (i_removed_rows _ _ H). auto. Qed.

Lemma items_nil_added_nil : forall rows sd, Inv rows sd -> sd_items sd = [] -> sd_added sd = [].
Proof.
  intros rows sd H Hi. destruct (sd_added sd) as [|a l] eqn:E; auto.
  exfalso. assert (In a (sd_items sd)) by (apply (i_added_items _ _ H); rewrite E; left; auto). rewrite Hi in H0. destruct H0.
Qed.

Lemma load_for_abstract : forall rows xs sd, abstract rows (load_for rows xs sd) = abstract rows sd.
Proof.
  intros. unfold load_for. destruct (diff (diff xs (sd_items sd)) (sd_removed sd)); [reflexivity|].
  destruct (sd_items sd); reflexivity.
Qed.

Lemma load_for_Inv : forall rows xs sd, NoDup xs -> Inv rows sd -> Inv rows (load_for rows xs sd).
Proof.
  intros rows xs sd Hxs H. unfold load_for.
  destruct (diff (diff xs (sd_items sd)) (sd_removed sd)) as [|a ask] eqn:Eask; auto.
  destruct (sd_items sd) as [|i its] eqn:Ei; [|apply load_full_Inv; auto].
  pose proof (items_nil_added_nil _ _ H Ei) as Hadd.
  rewrite <- Eask.
  constructor; cbn [sd_items sd_added sd_removed sd_full sd_absent sd_count].
  - apply H.
  - apply NoDup_filter. apply NoDup_diff, NoDup_diff. auto.
  - apply H.
  - apply H.
  - intros x Hx. apply filter_In in Hx. destruct Hx as [Hx Hr]. apply memn_In in Hr. apply In_diff in Hx.
    apply In_abstract. left. cbn. tauto.
  - intros x Hx. rewrite Hadd in Hx. destruct Hx.
  - apply H.
  - apply H.
  - intros Hf x Hx. exfalso. pose proof (i_full _ _ H Hf x) as Hc. rewrite Ei in Hc. apply Hc. exact Hx.
  - intros ab Hab x Hx. right. destruct (i_absent _ _ H ab Hab x Hx) as [Hc|Hc]; [rewrite Ei in Hc; destruct Hc | exact Hc].
  - apply (i_count _ _ H).
Qed.

Lemma load_for_member : forall rows x sd, Inv rows sd ->
  (In x (sd_items (load_for rows [x] sd)) <-> In x (abstract rows sd)).
Proof.
  intros rows x sd H. unfold load_for.
  destruct (diff (diff [x] (sd_items sd)) (sd_removed sd)) as [|a ask] eqn:Eask.
  - (* nothing to ask: x is a known member or a pending removal *)
    split; [apply (i_sound _ _ H)|]. intros Ha.
    destruct (in_dec Nat.eq_dec x (sd_items sd)) as [|Hni]; auto. exfalso.
    assert (Hr : In x (sd_removed sd)).
    { destruct (in_dec Nat.eq_dec x (sd_removed sd)) as [|Hnr]; auto. exfalso.
      assert (In x (diff (diff [x] (sd_items sd)) (sd_removed sd))) by (rewrite !In_diff; cbn; tauto).
      rewrite Eask in H0. destruct H0. }
    apply In_abstract in Ha. destruct Ha as [[_ Hn]|Ha]; [contradiction | eapply removed_not_added; eauto].
  - destruct (sd_items sd) as [|i its] eqn:Ei.
    + pose proof (items_nil_added_nil _ _ H Ei) as Hadd. cbn [sd_items]. rewrite <- Eask.
      rewrite filter_In, memn_In, !In_diff, In_abstract, Hadd. cbn.
      split; [intros [[[_ _] Hnr] Hr]; left; auto | intros [[Hr Hnr]|[]]; tauto].
    + apply load_full_items. auto.
Qed.

(* ------------------------------------------------------------------ flush *)
Lemma flush_abstract : forall rows sd, abstract (flush_rows rows sd) (flush_sd sd) = abstract rows sd.
Proof. intros. unfold abstract at 1. cbn. rewrite diff_nil_r, app_nil_r. reflexivity. Qed.

Lemma flush_Inv : forall rows sd, Inv rows sd -> Inv (flush_rows rows sd) (flush_sd sd).
Proof.
  intros rows sd H. constructor; cbn [flush_sd sd_items sd_added sd_removed sd_full sd_absent sd_count].
  - apply NoDup_abstract; auto.
  - apply H.
  - constructor.
  - constructor.
  - intros x Hx. rewrite flush_abstract. apply (i_sound _ _ H). auto.
  - intros x [].
  - intros x [].
  - intros x [].
  - intros Hf x Hx. rewrite flush_abstract in Hx. apply (i_full _ _ H Hf). auto.
  - intros ab Hab. discriminate.
  - intros n Hn. rewrite flush_abstract. apply (i_count _ _ H). auto.
Qed.

Lemma autoflush_spec : forall rows sd, Inv rows sd ->
  let rs := autoflush rows sd in
  Inv (fst rs) (snd rs) /\ abstract (fst rs) (snd rs) = abstract rows sd /\
  sd_added (snd rs) = [] /\ sd_removed (snd rs) = [] /\ sd_items (snd rs) = sd_items sd /\ sd_full (snd rs) = sd_full sd /\
  sd_count (snd rs) = sd_count sd.
Proof.
  intros rows sd H. unfold autoflush. destruct (pending sd) eqn:E; cbn [fst snd].
  - split; [apply flush_Inv; auto|]. split; [apply flush_abstract|]. cbn. auto 10.
  - unfold pending in E. destruct (sd_added sd) eqn:Ea; destruct (sd_removed sd) eqn:Er; try discriminate. auto 10.
Qed.

Lemma abstract_clean : forall rows sd, sd_added sd = [] -> sd_removed sd = [] -> abstract rows sd = rows.
Proof. intros rows sd Ha Hr. unfold abstract. rewrite Ha, Hr, diff_nil_r, app_nil_r. reflexivity. Qed.

(* ------------------------------------------------------------------ observations *)
Definition same_set (a b : list nat) : Prop := forall x, In x a <-> In x b.

(* iteration / len / copy *)
Lemma do_copy_spec : forall rows sd, Inv rows sd ->
  let r := do_copy rows sd in
  same_set (fst r) (abstract rows sd) /\ length (fst r) = length (abstract rows sd) /\
  Inv (fst (snd r)) (snd (snd r)) /\ abstract (fst (snd r)) (snd (snd r)) = abstract rows sd.
Proof.
  intros rows sd H. unfold do_copy. destruct (sd_full sd) eqn:Ef; cbn.
  - assert (Hs : same_set (sd_items sd) (abstract rows sd)) by (intros x; split; [apply (i_sound _ _ H) | apply (i_full _ _ H Ef)]).
    split; auto. split; [apply same_elems_length; auto; [apply (i_items _ _ H) | apply NoDup_abstract; auto]|]. split; auto.
  - destruct (autoflush rows sd) as [rows1 sd1] eqn:Ea.
    pose proof (autoflush_spec rows sd H) as Hs. rewrite Ea in Hs. cbn [fst snd] in Hs. destruct Hs as (Hi1 & Hab & _).
    cbn. pose proof (load_full_Inv _ _ Hi1) as Hi2.
    assert (Hs : same_set (sd_items (load_full rows1 sd1)) (abstract rows sd)) by (intros x; rewrite <- Hab; apply load_full_items; auto).
    split; auto. split.
    + apply same_elems_length; auto; [apply (i_items _ _ Hi2) | rewrite <- Hab; apply NoDup_abstract; auto].
    + split; auto.
Qed.

(* count() *)
Lemma do_count_spec : forall rows sd, Inv rows sd ->
  let r := do_count rows sd in
  fst r = Z.of_nat (length (abstract rows sd)) /\ Inv rows (snd r) /\ abstract rows (snd r) = abstract rows sd.
Proof.
  intros rows sd H. unfold do_count.
  assert (Hlen : (Z.of_nat (length rows) + Z.of_nat (length (sd_added sd)) - Z.of_nat (length (sd_removed sd)))%Z = Z.of_nat (length (abstract rows sd))).
  { unfold abstract. rewrite app_length.
    pose proof (length_diff_subset rows (sd_removed sd) (i_rows _ _ H) (i_removed _ _ H) (i_removed_rows _ _ H)). lia. }
  destruct (sd_count sd) as [n|] eqn:Ec; cbn [fst snd].
  - split; [apply (i_count _ _ H); auto | auto].
  - split; [exact Hlen|]. split; auto.
    constructor; cbn [sd_items sd_added sd_removed sd_full sd_absent sd_count]; try apply H.
    intros n Hn. inversion Hn; subst. exact Hlen.
Qed.

(* is_empty(): first is the row the LIMIT 1 query happens to return *)
Lemma do_is_empty_spec : forall first rows sd,
  (forall l r, first l = Some r -> In r l) -> (forall l, first l = None -> l = []) ->
  Inv rows sd ->
  let r := do_is_empty first rows sd in
  (fst r = true <-> abstract rows sd = []) /\ Inv (fst (snd r)) (snd (snd r)) /\
  same_set (abstract (fst (snd r)) (snd (snd r))) (abstract rows sd).
Proof.
  intros first rows sd Hf1 Hf2 H. unfold do_is_empty.
  destruct (sd_full sd) eqn:Ef.
  - cbn. split; [|split; [auto | intros x; tauto]].
    destruct (sd_items sd) as [|i its] eqn:Ei; split; intros Hx; try discriminate; auto.
    + destruct (abstract rows sd) as [|a l] eqn:Ea; auto. exfalso.
      assert (In a (sd_items sd)) by (apply (i_full _ _ H Ef); rewrite Ea; left; auto). rewrite Ei in H0. destruct H0.
    + exfalso. assert (In i (abstract rows sd)) by (apply (i_sound _ _ H); rewrite Ei; left; auto). rewrite Hx in H0. destruct H0.
  - destruct (sd_items sd) as [|i its] eqn:Ei.
    + destruct (sd_count sd) as [n|] eqn:Ec.
      * cbn. split; [|split; [auto | intros x; tauto]].
        rewrite Z.eqb_eq. rewrite (i_count _ _ H n Ec). split; [intros Hz; apply length_zero_iff_nil; lia | intros ->; reflexivity].
      * destruct (autoflush rows sd) as [rows1 sd1] eqn:Ea.
        pose proof (autoflush_spec rows sd H) as Hs. rewrite Ea in Hs. cbn [fst snd] in Hs.
        destruct Hs as (Hi1 & Hab & Hadd & Hrem & Hit & Hfu & Hco).
        pose proof (abstract_clean rows1 sd1 Hadd Hrem) as Hclean.
        destruct (first rows1) as [r|] eqn:Efi; cbn [fst snd].
        -- assert (Hr : In r rows1) by (apply Hf1; auto).
           split; [split; [discriminate | intros Hx; rewrite <- Hab, Hclean in Hx; rewrite Hx in Hr; destruct Hr]|].
           split; [|intros x; rewrite <- Hab; unfold abstract; cbn [sd_added sd_removed]; tauto].
           constructor; cbn [sd_items sd_added sd_removed sd_full sd_absent sd_count].
           ++ apply Hi1.
           ++ constructor; [intros [] | constructor].
           ++ apply Hi1.
           ++ apply Hi1.
           ++ intros x [<-|[]]. unfold abstract; cbn [sd_added sd_removed]. rewrite Hadd, Hrem, diff_nil_r, app_nil_r. auto.
           ++ intros x Hx. rewrite Hadd in Hx. destruct Hx.
           ++ apply Hi1.
           ++ apply Hi1.
           ++ rewrite Hfu, Ef. discriminate.
           ++ intros ab Habs x Hx. right. destruct (i_absent _ _ Hi1 ab Habs x Hx) as [Hc|Hc]; [rewrite Hit, Ei in Hc; destruct Hc | exact Hc].
           ++ intros n Hn. apply (i_count _ _ Hi1 n Hn).
        -- assert (Hr : rows1 = []) by (apply Hf2; auto).
           split; [split; [intros _; rewrite <- Hab, Hclean; auto | auto]|].
           split; [|intros x; rewrite <- Hab; unfold abstract; cbn [sd_added sd_removed]; tauto].
           constructor; cbn [sd_items sd_added sd_removed sd_full sd_absent sd_count].
           ++ apply Hi1.
           ++ constructor.
           ++ apply Hi1.
           ++ apply Hi1.
           ++ intros x [].
           ++ intros x Hx. rewrite Hadd in Hx. destruct Hx.
           ++ apply Hi1.
           ++ apply Hi1.
           ++ intros _ x Hx. unfold abstract in Hx; cbn [sd_added sd_removed] in Hx. rewrite Hadd, Hrem, diff_nil_r, app_nil_r in Hx. try rewrite (Hf2 _ Efi) in Hx. destruct Hx.
           ++ intros ab Habs. discriminate.
           ++ intros n Hn. inversion Hn; subst. unfold abstract; cbn [sd_added sd_removed]. rewrite Hadd, Hrem, diff_nil_r, app_nil_r. try rewrite (Hf2 _ Efi). reflexivity.
    + cbn. split; [|split; [auto | intros x; tauto]]. split; [discriminate|].
      intros Hx. exfalso. assert (In i (abstract rows sd)) by (apply (i_sound _ _ H); rewrite Ei; left; auto). rewrite Hx in H0. destruct H0.
Qed.

(* ------------------------------------------------------------------ __contains__ *)
Lemma contains_tail_sound : forall rows sd x, Inv rows sd -> ~ In x (sd_items sd) ->
  forall order b, contains_local order sd x = Some b -> b = false /\ ~ In x (abstract rows sd).
Proof.
  intros rows sd x H Hni. induction order as [|c r IH]; intros b Hc; [discriminate|].
  assert (Hm : memn x (sd_items sd) = false) by (apply memn_false; auto).
  destruct c; cbn in Hc.
  - rewrite Hm in Hc. auto.
  - destruct (sd_full sd) eqn:Ef; [|auto]. inversion Hc; subst. split; auto. intros Ha. apply Hni. apply (i_full _ _ H Ef). auto.
  - destruct (sd_full sd) eqn:Ef; [|auto]. rewrite Hm in Hc. inversion Hc; subst. split; auto. intros Ha. apply Hni. apply (i_full _ _ H Ef). auto.
  - destruct (sd_absent sd) as [a|] eqn:Ea; [|auto]. destruct (memn x a) eqn:Em; [|auto].
    inversion Hc; subst. split; auto. apply memn_In in Em. destruct (i_absent _ _ H a Ea x Em); [contradiction | auto].
Qed.

Lemma contains_local_sound : forall rows sd x, Inv rows sd ->
  forall order b, safe_order order = true -> contains_local order sd x = Some b -> (b = true <-> In x (abstract rows sd)).
Proof.
  intros rows sd x H. induction order as [|c r IH]; intros b Hs Hc; [discriminate|].
  destruct c; cbn in Hs; try discriminate; cbn in Hc.
  - destruct (memn x (sd_items sd)) eqn:Em.
    + inversion Hc; subst. apply memn_In in Em. split; auto. intros _. apply (i_sound _ _ H). auto.
    + apply memn_false in Em. destruct (contains_tail_sound _ _ _ H Em _ _ Hc) as [-> Hn]. split; [discriminate | contradiction].
  - destruct (sd_full sd) eqn:Ef; [|auto]. inversion Hc; subst. rewrite memn_In.
    split; [apply (i_sound _ _ H) | apply (i_full _ _ H Ef)].
Qed.

Lemma do_contains_spec : forall x rows sd, Inv rows sd ->
  let r := do_contains x rows sd in
  (fst r = true <-> In x (abstract rows sd)) /\ Inv (fst (snd r)) (snd (snd r)) /\
  abstract (fst (snd r)) (snd (snd r)) = abstract rows sd.
Proof.
  intros x rows sd H. unfold do_contains.
  destruct (contains_local contains_checks sd x) as [b|] eqn:Ec.
  - cbn. split; [apply (contains_local_sound _ _ _ H _ _ source_order_safe Ec) | auto].
  - assert (Hpre : exists rows1 sd1,
        (match diff (diff [x] (sd_items sd)) (sd_removed sd) with [] => (rows, sd) | _ :: _ => autoflush rows sd end) = (rows1, sd1) /\
        Inv rows1 sd1 /\ abstract rows1 sd1 = abstract rows sd).
    { destruct (diff (diff [x] (sd_items sd)) (sd_removed sd)); [exists rows, sd; auto|].
      destruct (autoflush rows sd) as [r1 s1] eqn:Ea. exists r1, s1. pose proof (autoflush_spec rows sd H) as Hs. rewrite Ea in Hs.
      cbn [fst snd] in Hs. tauto. }
    destruct Hpre as (rows1 & sd1 & -> & Hi1 & Hab1).
    assert (Hnd : NoDup [x]) by (constructor; [intros [] | constructor]).
    pose proof (load_for_Inv rows1 [x] sd1 Hnd Hi1) as Hi2.
    pose proof (load_for_abstract rows1 [x] sd1) as Hab2.
    pose proof (load_for_member rows1 x sd1 Hi1) as Hmem.
    destruct (memn x (sd_items (load_for rows1 [x] sd1))) eqn:Em; cbn [fst snd].
    + apply memn_In in Em. split; [split; auto; intros _; rewrite <- Hab1; apply Hmem; auto|]. split; auto. congruence.
    + apply memn_false in Em.
      assert (Hna : ~ In x (abstract rows1 (load_for rows1 [x] sd1))) by (rewrite Hab2; intros Ha; apply Em, Hmem; auto).
      split; [split; [discriminate | intros Ha; exfalso; apply Em, Hmem; rewrite Hab1; auto]|].
      split; [|unfold abstract in *; cbn [sd_added sd_removed]; congruence].
      constructor; cbn [sd_items sd_added sd_removed sd_full sd_absent sd_count]; try apply Hi2.
      intros ab Hab y Hy. inversion Hab; subst. destruct Hy as [<-|Hy].
      * right. exact Hna.
      * destruct (sd_absent (load_for rows1 [x] sd1)) as [a|] eqn:Ea; [apply (i_absent _ _ Hi2 a Ea y Hy) | destruct Hy].
Qed.

(* ------------------------------------------------------------------ add / remove *)
Lemma NoDup_abstract_raw : forall rows sd, NoDup rows -> NoDup (sd_added sd) -> (forall x, In x (sd_added sd) -> ~ In x rows) ->
  NoDup (abstract rows sd).
Proof.
  intros rows sd Hr Ha Hn. unfold abstract. apply nodup_app; auto; [apply NoDup_diff; auto|].
  intros x Hx Hx2. apply In_diff in Hx. apply (Hn x Hx2). tauto.
Qed.

Lemma sd_add_spec : forall rows sd x, Inv rows sd -> ~ In x (sd_items sd) -> ~ In x (abstract rows sd) ->
  Inv rows (sd_add sd x) /\ (forall y, In y (abstract rows (sd_add sd x)) <-> In y (abstract rows sd) \/ y = x).
Proof.
  intros rows sd x H Hni Hna.
  assert (Hnadd : ~ In x (sd_added sd)) by (intros Hc; apply Hni; apply (i_added_items _ _ H); auto).
  assert (Habs : forall y, In y (abstract rows (sd_add sd x)) <-> In y (abstract rows sd) \/ y = x).
  { intros y. rewrite !In_abstract. cbn [sd_add sd_added sd_removed]. rewrite In_without.
    destruct (memn x (sd_removed sd)) eqn:Er.
    - apply memn_In in Er. pose proof (i_removed_rows _ _ H x Er) as Hxr.
      destruct (Nat.eq_dec y x) as [->|Hne]; [tauto|]. tauto.
    - apply memn_false in Er. cbn. destruct (Nat.eq_dec y x) as [->|Hne]; [tauto|]. split.
      + intros [[Hr Hn]|[He|Ha]]; [left; left; split; auto; intros Hc; apply Hn; auto | congruence | auto].
      + intros [[[Hr Hn]|Ha]|He]; [left; split; auto; intros [Hc _]; auto | auto | congruence]. }
  split; [|exact Habs].
  assert (Hnew : forall y, In y (sd_added (sd_add sd x)) -> ~ In y rows).
  { intros y Hy. cbn in Hy. destruct (memn x (sd_removed sd)) eqn:Er; [apply (i_added_new _ _ H); auto|].
    destruct Hy as [<-|Hy]; [|apply (i_added_new _ _ H); auto].
    apply memn_false in Er. intros Hr. apply Hna. apply In_abstract. left; auto. }
  assert (Hnda : NoDup (sd_added (sd_add sd x))).
  { cbn. destruct (memn x (sd_removed sd)); [apply H|]. constructor; auto. apply H. }
  constructor.
  - apply H.
  - cbn. constructor; auto. apply H.
  - exact Hnda.
  - cbn. apply NoDup_without. apply H.
  - intros y Hy. apply Habs. cbn in Hy. destruct Hy as [<-|Hy]; [right; auto | left; apply (i_sound _ _ H); auto].
  - intros y Hy. cbn in Hy. cbn [sd_add sd_items]. destruct (memn x (sd_removed sd)); [right; apply (i_added_items _ _ H); auto|].
    destruct Hy as [<-|Hy]; [left; auto | right; apply (i_added_items _ _ H); auto].
  - exact Hnew.
  - intros y Hy. cbn in Hy. apply In_without in Hy. apply (i_removed_rows _ _ H). tauto.
  - intros Hf y Hy. apply Habs in Hy. cbn [sd_add sd_items]. destruct Hy as [Hy| ->]; [right; apply (i_full _ _ H Hf); auto | left; auto].
  - intros ab Hab y Hy. cbn in Hab. destruct (i_absent _ _ H ab Hab y Hy) as [Hc|Hc]; [left; right; auto|].
    destruct (Nat.eq_dec y x) as [->|Hne]; [left; left; auto | right; intros Ha; apply Habs in Ha; destruct Ha; auto].
  - intros n Hn. cbn in Hn. destruct (sd_count sd) as [m|] eqn:Ec; [|discriminate]. inversion Hn; subst.
    rewrite (i_count _ _ H m Ec).
    assert (Hl : length (abstract rows (sd_add sd x)) = length (x :: abstract rows sd)); [|rewrite Hl; cbn [length]; lia].
    apply same_elems_length.
    + apply NoDup_abstract_raw; auto. apply H.
    + constructor; auto. apply NoDup_abstract; auto.
    + intros y. rewrite Habs. cbn. split; intros [A|B]; auto.
Qed.

Lemma do_add_spec : forall x rows sd, Inv rows sd ->
  Inv rows (do_add x rows sd) /\ (forall y, In y (abstract rows (do_add x rows sd)) <-> In y (abstract rows sd) \/ y = x).
Proof.
  intros x rows sd H. unfold do_add.
  destruct (memn x (sd_items sd)) eqn:Em.
  - apply memn_In in Em. pose proof (i_sound _ _ H x Em) as Hx.
    destruct (sd_full sd); [split; auto; intros y; split; [auto | intros [A| ->]; auto]|].
    split; [apply load_full_Inv; auto|]. rewrite load_full_abstract. intros y; split; [auto | intros [A| ->]; auto].
  - apply memn_false in Em.
    assert (Hnd : NoDup [x]) by (constructor; [intros [] | constructor]).
    assert (Hsd1 : exists sd1, (if sd_full sd then sd else load_for rows [x] sd) = sd1 /\ Inv rows sd1 /\
                               abstract rows sd1 = abstract rows sd /\ (In x (sd_items sd1) <-> In x (abstract rows sd))).
    { destruct (sd_full sd) eqn:Ef.
      - exists sd. split; auto. split; auto. split; auto. split; [apply (i_sound _ _ H) | apply (i_full _ _ H Ef)].
      - exists (load_for rows [x] sd). split; auto. split; [apply load_for_Inv; auto|]. split; [apply load_for_abstract|].
        apply load_for_member; auto. }
    destruct Hsd1 as (sd1 & -> & Hi1 & Hab1 & Hmem).
    destruct (memn x (sd_items sd1)) eqn:Em1.
    + apply memn_In in Em1. split; auto. rewrite Hab1. intros y; split; [auto | intros [A| ->]; [auto | apply Hmem; auto]].
    + apply memn_false in Em1.
      assert (Hna : ~ In x (abstract rows sd1)) by (rewrite Hab1; intros Ha; apply Em1, Hmem; auto).
      destruct (sd_add_spec rows sd1 x Hi1 Em1 Hna) as [Hi2 Habs]. split; auto. intros y. rewrite Habs, Hab1. tauto.
Qed.

Lemma sd_remove_spec : forall rows sd x, Inv rows sd -> In x (sd_items sd) ->
  Inv rows (sd_remove sd x) /\ (forall y, In y (abstract rows (sd_remove sd x)) <-> In y (abstract rows sd) /\ y <> x).
Proof.
  intros rows sd x H Hi.
  pose proof (i_sound _ _ H x Hi) as Hxa.
  assert (Hnr : ~ In x (sd_removed sd)) by (intros Hc; eapply removed_not_items; eauto).
  assert (Habs : forall y, In y (abstract rows (sd_remove sd x)) <-> In y (abstract rows sd) /\ y <> x).
  { intros y. rewrite !In_abstract. cbn [sd_remove sd_added sd_removed]. rewrite In_without.
    destruct (memn x (sd_added sd)) eqn:Ea.
    - apply memn_In in Ea. pose proof (i_added_new _ _ H x Ea) as Hxr.
      destruct (Nat.eq_dec y x) as [->|Hne]; [tauto|]. tauto.
    - apply memn_false in Ea. cbn. destruct (Nat.eq_dec y x) as [->|Hne]; [tauto|]. split.
      + intros [[Hr Hn]|[Ha _]]; [split; auto; left; split; auto | split; auto].
      + intros [[[Hr Hn]|Ha] _]; [left; split; auto; intros [Hc|Hc]; [congruence | auto] | right; auto]. }
  split; [|exact Habs].
  assert (Hxrows : ~ In x (sd_added sd) -> In x rows).
  { intros Hna. apply In_abstract in Hxa. destruct Hxa as [[Hr _]|Ha]; [auto | contradiction]. }
  constructor.
  - apply H.
  - cbn. apply NoDup_without. apply H.
  - cbn. apply NoDup_without. apply H.
  - cbn. destruct (memn x (sd_added sd)); [apply H|]. constructor; auto. apply H.
  - intros y Hy. cbn in Hy. apply In_without in Hy. apply Habs. split; [apply (i_sound _ _ H); tauto | tauto].
  - intros y Hy. cbn in Hy. apply In_without in Hy. cbn [sd_remove sd_items]. apply In_without. split; [apply (i_added_items _ _ H); tauto | tauto].
  - intros y Hy. cbn in Hy. apply In_without in Hy. apply (i_added_new _ _ H). tauto.
  - intros y Hy. cbn in Hy. destruct (memn x (sd_added sd)) eqn:Ea; [apply (i_removed_rows _ _ H); auto|].
    apply memn_false in Ea. destruct Hy as [<-|Hy]; [auto | apply (i_removed_rows _ _ H); auto].
  - intros Hf y Hy. apply Habs in Hy. cbn [sd_remove sd_items]. apply In_without. split; [apply (i_full _ _ H Hf); tauto | tauto].
  - intros ab Hab y Hy. cbn in Hab. cbn [sd_remove sd_items]. destruct (i_absent _ _ H ab Hab y Hy) as [Hc|Hc].
    + destruct (Nat.eq_dec y x) as [->|Hne]; [right; intros Ha; apply Habs in Ha; tauto | left; apply In_without; auto].
    + right. intros Ha. apply Habs in Ha. tauto.
  - intros n Hn. cbn in Hn. destruct (sd_count sd) as [m|] eqn:Ec; [|discriminate]. inversion Hn; subst.
    rewrite (i_count _ _ H m Ec).
    assert (Hl : length (abstract rows sd) = length (x :: abstract rows (sd_remove sd x))).
    { apply same_elems_length.
      - apply NoDup_abstract; auto.
      - constructor; [intros Hc; apply Habs in Hc; tauto|].
        apply NoDup_abstract_raw; [apply H | cbn; apply NoDup_without; apply H |].
        intros y Hy. cbn in Hy. apply In_without in Hy. apply (i_added_new _ _ H). tauto.
      - intros y. cbn. rewrite Habs. destruct (Nat.eq_dec y x) as [->|Hne]; [tauto|]. split; [intros A; right; auto | intros [A|[A _]]; [congruence | auto]]. }
    rewrite Hl. cbn [length]. lia.
Qed.

Lemma do_remove_spec : forall x rows sd, Inv rows sd ->
  Inv rows (do_remove x rows sd) /\ (forall y, In y (abstract rows (do_remove x rows sd)) <-> In y (abstract rows sd) /\ y <> x).
Proof.
  intros x rows sd H. unfold do_remove.
  destruct (memn x (sd_removed sd)) eqn:Er.
  - apply memn_In in Er. split; auto. intros y. split; [|tauto]. intros Hy. split; auto. intros ->.
    apply In_abstract in Hy. destruct Hy as [[_ Hn]|Ha]; [contradiction | eapply removed_not_added; eauto].
  - assert (Hnd : NoDup [x]) by (constructor; [intros [] | constructor]).
    assert (Hsd1 : exists sd1, (if sd_full sd then sd else load_for rows [x] sd) = sd1 /\ Inv rows sd1 /\
                               abstract rows sd1 = abstract rows sd /\ (In x (sd_items sd1) <-> In x (abstract rows sd))).
    { destruct (sd_full sd) eqn:Ef.
      - exists sd. split; auto. split; auto. split; auto. split; [apply (i_sound _ _ H) | apply (i_full _ _ H Ef)].
      - exists (load_for rows [x] sd). split; auto. split; [apply load_for_Inv; auto|]. split; [apply load_for_abstract|].
        apply load_for_member; auto. }
    destruct Hsd1 as (sd1 & -> & Hi1 & Hab1 & Hmem).
    destruct (memn x (sd_items sd1)) eqn:Em1.
    + apply memn_In in Em1. destruct (sd_remove_spec rows sd1 x Hi1 Em1) as [Hi2 Habs]. split; auto. intros y. rewrite Habs, Hab1. tauto.
    + apply memn_false in Em1. split; auto. rewrite Hab1. intros y. split; [|tauto]. intros Hy. split; auto. intros ->. apply Em1, Hmem; auto.
Qed.

(* ------------------------------------------------------------------ the boolean invariant of the correspondence run implies Inv *)
Lemma nodupb_NoDup : forall l, nodupb l = true -> NoDup l.
Proof.
  induction l as [|x l IH]; cbn; intros H; [constructor|].
  apply andb_true_iff in H as [H1 H2]. apply negb_true_iff, memn_false in H1. constructor; auto.
Qed.
Lemma subsetb_incl : forall a b, subsetb a b = true -> forall x, In x a -> In x b.
Proof. intros a b H x Hx. unfold subsetb in H. rewrite forallb_forall in H. apply memn_In. auto. Qed.
Lemma disjointb_spec : forall a b, disjointb a b = true -> forall x, In x a -> ~ In x b.
Proof. intros a b H x Hx. unfold disjointb in H. rewrite forallb_forall in H. apply memn_false. apply negb_true_iff. auto. Qed.

Lemma inv_b_Inv : forall rows sd, inv_b rows sd = true -> Inv rows sd.
Proof.
  intros rows sd H. unfold inv_b in H. repeat (apply andb_true_iff in H; destruct H as [H ?]).
  constructor.
  - apply nodupb_NoDup; auto.
  - apply nodupb_NoDup; auto.
  - apply nodupb_NoDup; auto.
  - apply nodupb_NoDup; auto.
  - apply subsetb_incl; auto.
  - apply subsetb_incl; auto.
  - apply disjointb_spec; auto.
  - apply subsetb_incl; auto.
  - intros Hf. rewrite Hf in H2. cbn in H2. apply subsetb_incl; auto.
  - intros a Ha x Hx. rewrite Ha in H1. rewrite forallb_forall in H1. specialize (H1 x Hx).
    apply orb_true_iff in H1. destruct H1 as [A|A]; [left; apply memn_In; auto | right; apply memn_false; apply negb_true_iff; auto].
  - intros n Hn. rewrite Hn in H0. apply Z.eqb_eq. auto.
Qed.

(* ------------------------------------------------------------------ path independence *)
Lemma bool_iff_eq : forall (a b : bool) (P : Prop), (a = true <-> P) -> (b = true <-> P) -> a = b.
Proof. intros [] [] P H1 H2; auto; [symmetry; apply H2, H1; auto | apply H1, H2; auto]. Qed.

Lemma same_set_nil : forall a b, same_set a b -> (a = [] <-> b = []).
Proof.
  intros a b H. split; intros ->.
  - destruct b as [|y b]; auto. exfalso. apply (H y). left; auto.
  - destruct a as [|y a]; auto. exfalso. apply (H y). left; auto.
Qed.

(* two consistent views of the same abstract collection (reached through any loading paths, flushed or not) answer alike *)
Lemma observations_path_independent : forall first rows1 sd1 rows2 sd2 x,
  (forall l r, first l = Some r -> In r l) -> (forall l, first l = None -> l = []) ->
  Inv rows1 sd1 -> Inv rows2 sd2 -> same_set (abstract rows1 sd1) (abstract rows2 sd2) ->
  same_set (fst (do_copy rows1 sd1)) (fst (do_copy rows2 sd2)) /\
  length (fst (do_copy rows1 sd1)) = length (fst (do_copy rows2 sd2)) /\
  fst (do_count rows1 sd1) = fst (do_count rows2 sd2) /\
  fst (do_contains x rows1 sd1) = fst (do_contains x rows2 sd2) /\
  fst (do_is_empty first rows1 sd1) = fst (do_is_empty first rows2 sd2).
Proof.
  intros first rows1 sd1 rows2 sd2 x Hf1 Hf2 H1 H2 Hs.
  assert (Hlen : length (abstract rows1 sd1) = length (abstract rows2 sd2))
    by (apply same_elems_length; auto; apply NoDup_abstract; auto).
  destruct (do_copy_spec _ _ H1) as (Hc1 & Hl1 & _). destruct (do_copy_spec _ _ H2) as (Hc2 & Hl2 & _).
  destruct (do_count_spec _ _ H1) as (Hn1 & _). destruct (do_count_spec _ _ H2) as (Hn2 & _).
  destruct (do_contains_spec x _ _ H1) as (Hm1 & _). destruct (do_contains_spec x _ _ H2) as (Hm2 & _).
  destruct (do_is_empty_spec first _ _ Hf1 Hf2 H1) as (He1 & _). destruct (do_is_empty_spec first _ _ Hf1 Hf2 H2) as (He2 & _).
  split; [intros y; rewrite (Hc1 y), (Hc2 y); apply Hs|].
  split; [congruence|]. split; [congruence|]. split.
  - eapply bool_iff_eq; [exact Hm1 | rewrite Hm2; symmetry; apply Hs].
  - eapply bool_iff_eq; [exact He1 | rewrite He2; symmetry; apply same_set_nil; auto].
Qed.

Lemma load_full_spec : forall rows sd, Inv rows sd ->
  Inv rows (load_full rows sd) /\ abstract rows (load_full rows sd) = abstract rows sd /\
  (forall x, In x (sd_items (load_full rows sd)) <-> In x (abstract rows sd)).
Proof. intros rows sd H. split; [apply load_full_Inv; auto|]. split; [reflexivity | apply load_full_items; auto]. Qed.
Lemma load_items_spec : forall rows xs sd, NoDup xs -> Inv rows sd ->
  Inv rows (load_for rows xs sd) /\ abstract rows (load_for rows xs sd) = abstract rows sd.
Proof. intros. split; [apply load_for_Inv; auto | apply load_for_abstract]. Qed.
Lemma flush_spec : forall rows sd, Inv rows sd ->
  Inv (flush_rows rows sd) (flush_sd sd) /\ abstract (flush_rows rows sd) (flush_sd sd) = abstract rows sd.
Proof. intros. split; [apply flush_Inv; auto | apply flush_abstract]. Qed.

(* ------------------------------------------------------------------ one-to-many collections *)
(* when every asked item has its reference attribute loaded, Set.load(obj, items) has nothing to ask *)
Lemma load_for_o_loaded : forall loaded rows xs sd, (forall y, In y xs -> loaded y = true) -> load_for_o loaded rows xs sd = sd.
Proof.
  intros loaded rows xs sd H. unfold load_for_o.
  assert (E : filter (fun y => negb (loaded y)) xs = []).
  { induction xs as [|y xs IH]; cbn; auto. rewrite (H y) by (left; auto). cbn. apply IH. intros; apply H; right; auto. }
  rewrite E. reflexivity.
Qed.

(* add on a one-to-many collection, item x loaded: (its reference is known, so if its row points to this owner it is already a
   known member or a pending removal -- hypothesis Hlink, the reverse-side bookkeeping done by db_reverse_add when x was loaded) *)
Lemma do_add_o_spec : forall loaded x rows sd, Inv rows sd -> loaded x = true ->
  (In x rows -> In x (sd_items sd) \/ In x (sd_removed sd)) ->
  Inv rows (do_add_o loaded x rows sd) /\ (forall y, In y (abstract rows (do_add_o loaded x rows sd)) <-> In y (abstract rows sd) \/ y = x).
Proof.
  intros loaded x rows sd H Hl Hlink. unfold do_add_o.
  destruct (memn x (sd_items sd)) eqn:Em.
  - apply memn_In in Em. pose proof (i_sound _ _ H x Em) as Hx.
    destruct (sd_full sd); [split; auto; intros y; split; [auto | intros [A| ->]; auto]|].
    split; [apply load_full_Inv; auto|]. rewrite load_full_abstract. intros y; split; [auto | intros [A| ->]; auto].
  - apply memn_false in Em.
    assert (Hsame : (if sd_full sd then sd else load_for_o loaded rows [x] sd) = sd).
    { destruct (sd_full sd); auto. apply load_for_o_loaded. intros y [<-|[]]. auto. }
    rewrite Hsame. assert (Em' : memn x (sd_items sd) = false) by (apply memn_false; auto). rewrite Em'.
    assert (Hna : ~ In x (abstract rows sd)).
    { intros Ha. apply In_abstract in Ha. destruct Ha as [[Hr Hnr]|Ha].
      - destruct (Hlink Hr); contradiction.
      - apply Em. apply (i_added_items _ _ H). auto. }
    apply sd_add_spec; auto.
Qed.

(* remove on a one-to-many collection as the code is: a consistent, fully loaded collection {x} with a known count ends with count -1 *)
Lemma do_remove_o_refuted :
  let sd := mksd [7] true [] [] None (Some 1%Z) in
  Inv [7] sd /\ sd_count (do_remove_o (fun _ => true) 7 [7] sd) = Some (-1)%Z /\ abstract [7] (do_remove_o (fun _ => true) 7 [7] sd) = [].
Proof.
  split; [apply inv_b_Inv; reflexivity|]. split; reflexivity.
Qed.

Lemma do_remove_o_fixed_spec : forall loaded x rows sd, Inv rows sd -> loaded x = true ->
  (In x rows -> In x (sd_items sd) \/ In x (sd_removed sd)) ->
  Inv rows (do_remove_o_fixed loaded x rows sd) /\
  (forall y, In y (abstract rows (do_remove_o_fixed loaded x rows sd)) <-> In y (abstract rows sd) /\ y <> x).
Proof.
  intros loaded x rows sd H Hl Hlink. unfold do_remove_o_fixed.
  destruct (memn x (sd_removed sd)) eqn:Er.
  - apply memn_In in Er. split; auto. intros y. split; [|tauto]. intros Hy. split; auto. intros ->.
    apply In_abstract in Hy. destruct Hy as [[_ Hn]|Ha]; [contradiction | eapply removed_not_added; eauto].
  - apply memn_false in Er.
    assert (Hsame : (if sd_full sd then sd else load_for_o loaded rows [x] sd) = sd).
    { destruct (sd_full sd); auto. apply load_for_o_loaded. intros y [<-|[]]. auto. }
    rewrite Hsame. destruct (memn x (sd_items sd)) eqn:Em.
    + apply memn_In in Em. apply sd_remove_spec; auto.
    + apply memn_false in Em. split; auto. intros y. split; [|tauto]. intros Hy. split; auto. intros ->.
      apply In_abstract in Hy. destruct Hy as [[Hr Hnr]|Ha]; [destruct (Hlink Hr); contradiction | apply Em, (i_added_items _ _ H); auto].
Qed.

(* ------------------------------------------------------------------ one-to-many, both sides: the link invariant is maintained *)
Record LInv (st : ostate) : Prop := mkLInv {
  l_inv : Inv (os_rows st) (os_sd st);
  l_link : forall x, In x (os_loaded st) -> In x (os_rows st) -> In x (sd_items (os_sd st)) \/ In x (sd_removed (os_sd st));
  l_added : forall x, In x (sd_added (os_sd st)) -> In x (os_loaded st);
  l_removed : forall x, In x (sd_removed (os_sd st)) -> In x (os_loaded st)
}.

Definition oabstract (st : ostate) : list nat := abstract (os_rows st) (os_sd st).

Lemma load_item_LInv : forall x st, LInv st -> LInv (load_item x st) /\ oabstract (load_item x st) = oabstract st.
Proof.
  intros x st [Hi Hl Ha Hr]. unfold load_item.
  destruct (memn x (os_loaded st)) eqn:El; [split; [constructor; auto | reflexivity]|].
  apply memn_false in El.
  destruct (memn x (os_rows st) && negb (memn x (sd_items (os_sd st)))) eqn:Ec.
  - apply andb_true_iff in Ec as [Er Ei]. apply memn_In in Er. apply negb_true_iff, memn_false in Ei.
    assert (Hnr : ~ In x (sd_removed (os_sd st))) by (intros Hc; apply El, Hr; auto).
    split; [|reflexivity]. constructor; cbn [os_rows os_sd os_loaded sd_items sd_added sd_removed].
    + constructor; cbn [sd_items sd_added sd_removed sd_full sd_absent sd_count].
      * apply Hi.
      * apply nodup_app; [apply Hi | constructor; [intros []|constructor] | intros y Hy [<-|[]]; contradiction].
      * apply Hi.
      * apply Hi.
      * intros y Hy. apply in_app_or in Hy. destruct Hy as [Hy|[<-|[]]]; [apply (i_sound _ _ Hi); auto|].
        apply In_abstract. left; auto.
      * intros y Hy. apply in_or_app. left. apply (i_added_items _ _ Hi). auto.
      * apply Hi.
      * apply Hi.
      * intros Hf y Hy. apply in_or_app. left. apply (i_full _ _ Hi Hf). exact Hy.
      * intros ab Hab y Hy. destruct (i_absent _ _ Hi ab Hab y Hy) as [A|A]; [left; apply in_or_app; left; auto | right; exact A].
      * intros n Hn. apply (i_count _ _ Hi n Hn).
    + intros y [<-|Hy] Hyr; [left; apply in_or_app; right; left; auto|].
      destruct (Hl y Hy Hyr) as [A|A]; [left; apply in_or_app; left; auto | right; auto].
    + intros y Hy. right. apply Ha. auto.
    + intros y Hy. right. apply Hr. auto.
  - split; [|reflexivity]. constructor; cbn [os_rows os_sd os_loaded]; auto.
    + intros y [<-|Hy] Hyr; [|apply Hl; auto].
      apply andb_false_iff in Ec. destruct Ec as [Ec|Ec].
      * apply memn_false in Ec. contradiction.
      * apply negb_false_iff, memn_In in Ec. left; auto.
    + intros y Hy. right. apply Ha; auto.
    + intros y Hy. right. apply Hr; auto.
Qed.

Lemma o_flush_LInv : forall st, LInv st -> LInv (o_flush st) /\ oabstract (o_flush st) = oabstract st.
Proof.
  intros st [Hi Hl Ha Hr]. split; [|apply flush_abstract]. constructor; cbn [o_flush os_rows os_sd os_loaded].
  - apply flush_Inv. auto.
  - intros x Hx Hxr. left. cbn [flush_sd sd_items]. unfold flush_rows in Hxr. apply In_abstract in Hxr.
    destruct Hxr as [[A B]|A]; [destruct (Hl x Hx A); [auto | contradiction] | apply (i_added_items _ _ Hi); auto].
  - intros x [].
  - intros x [].
Qed.

Lemma o_load_full_LInv : forall st, LInv st -> LInv (o_load_full st) /\ oabstract (o_load_full st) = oabstract st.
Proof.
  intros st [Hi Hl Ha Hr]. split; [|reflexivity]. constructor; cbn [o_load_full os_rows os_sd os_loaded].
  - apply load_full_Inv. auto.
  - intros x _ Hxr. destruct (in_dec Nat.eq_dec x (sd_removed (os_sd st))) as [A|A]; [right; exact A|].
    left. apply load_full_items; auto. apply In_abstract. left; auto.
  - intros x Hx. apply in_or_app. left. apply Ha. exact Hx.
  - intros x Hx. apply in_or_app. left. apply Hr. exact Hx.
Qed.

Lemma is_loaded_true : forall st x, In x (os_loaded st) -> is_loaded st x = true.
Proof. intros. unfold is_loaded. apply memn_In. auto. Qed.

Lemma o_add_LInv : forall x st, LInv st -> In x (os_loaded st) ->
  LInv (o_add x st) /\ (forall y, In y (oabstract (o_add x st)) <-> In y (oabstract st) \/ y = x).
Proof.
  intros x st HL Hx. destruct HL as [Hi Hl Ha Hr].
  destruct (do_add_o_spec (is_loaded st) x _ _ Hi (is_loaded_true _ _ Hx) (Hl x Hx)) as [Hi' Habs].
  split; [|exact Habs]. unfold o_add in *. unfold do_add_o in *.
  destruct (memn x (sd_items (os_sd st))) eqn:Em.
  - destruct (sd_full (os_sd st)) eqn:Ef.
    + constructor; auto.
    + destruct (o_load_full_LInv st (mkLInv _ Hi Hl Ha Hr)) as [[A B C D] _]. constructor; auto.
  - assert (Hsame : (if sd_full (os_sd st) then os_sd st else load_for_o (is_loaded st) (os_rows st) [x] (os_sd st)) = os_sd st).
    { destruct (sd_full (os_sd st)); auto. apply load_for_o_loaded. intros y [<-|[]]. apply is_loaded_true; auto. }
    rewrite Hsame in *. rewrite Em in *.
    assert (Hload : (if sd_full (os_sd st) then os_loaded st else os_loaded st) = os_loaded st) by (destruct (sd_full (os_sd st)); auto).
    constructor; cbn [os_rows os_sd os_loaded]; rewrite ?Hload; auto.
    + intros y Hy Hyr. cbn [sd_add sd_items sd_removed]. destruct (Hl y Hy Hyr) as [A|A]; [left; right; auto|].
      destruct (Nat.eq_dec y x) as [->|Hne]; [left; left; auto | right; apply In_without; auto].
    + intros y Hy. cbn [sd_add sd_added] in Hy. destruct (memn x (sd_removed (os_sd st))); [apply Ha; auto|].
      destruct Hy as [<-|Hy]; [auto | apply Ha; auto].
    + intros y Hy. cbn [sd_add sd_removed] in Hy. apply In_without in Hy. apply Hr. tauto.
Qed.

Lemma o_remove_LInv : forall x st, LInv st -> In x (os_loaded st) ->
  LInv (o_remove x st) /\ (forall y, In y (oabstract (o_remove x st)) <-> In y (oabstract st) /\ y <> x).
Proof.
  intros x st HL Hx. destruct HL as [Hi Hl Ha Hr].
  destruct (do_remove_o_fixed_spec (is_loaded st) x _ _ Hi (is_loaded_true _ _ Hx) (Hl x Hx)) as [Hi' Habs].
  split; [|exact Habs]. unfold o_remove in *. unfold do_remove_o_fixed in *.
  destruct (memn x (sd_removed (os_sd st))) eqn:Er; [constructor; auto|].
  assert (Hsame : (if sd_full (os_sd st) then os_sd st else load_for_o (is_loaded st) (os_rows st) [x] (os_sd st)) = os_sd st).
  { destruct (sd_full (os_sd st)); auto. apply load_for_o_loaded. intros y [<-|[]]. apply is_loaded_true; auto. }
  rewrite Hsame in *. destruct (memn x (sd_items (os_sd st))) eqn:Em; [|constructor; auto].
  constructor; cbn [os_rows os_sd os_loaded]; auto.
  - intros y Hy Hyr. cbn [sd_remove sd_items sd_removed].
    destruct (Nat.eq_dec y x) as [->|Hne].
    + right. destruct (memn x (sd_added (os_sd st))) eqn:Ea; [|left; auto].
      exfalso. apply memn_In in Ea. apply (i_added_new _ _ Hi x Ea). exact Hyr.
    + destruct (Hl y Hy Hyr) as [A|A]; [left; apply In_without; auto|].
      right. destruct (memn x (sd_added (os_sd st))); [auto | right; auto].
  - intros y Hy. cbn [sd_remove sd_added] in Hy. apply In_without in Hy. apply Ha. tauto.
  - intros y Hy. cbn [sd_remove sd_removed] in Hy. destruct (memn x (sd_added (os_sd st))); [apply Hr; auto|].
    destruct Hy as [<-|Hy]; [auto | apply Hr; auto].
Qed.

Lemma linv_b_LInv : forall st, linv_b st = true -> LInv st.
Proof.
  intros st H. unfold linv_b in H.
  apply andb_true_iff in H as [H Hrm]. apply andb_true_iff in H as [H Had]. apply andb_true_iff in H as [Hinv Hlk].
  constructor.
  - apply inv_b_Inv; auto.
  - intros x Hx Hxr. rewrite forallb_forall in Hlk. specialize (Hlk x Hx).
    apply orb_true_iff in Hlk. destruct Hlk as [Hlk|Hlk]; [|right; apply memn_In; auto].
    apply orb_true_iff in Hlk. destruct Hlk as [Hlk|Hlk]; [|left; apply memn_In; auto].
    apply negb_true_iff, memn_false in Hlk. contradiction.
  - apply subsetb_incl. exact Had.
  - apply subsetb_incl. exact Hrm.
Qed.
