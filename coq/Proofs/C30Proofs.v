(* C30 lemmas over Model/C30Scan.v and Model/C30Adapt.v. *)
Require Import PonyV.Base.PyBase PonyV.Model.C06Str PonyV.Model.C06Lex PonyV.Model.C06Params PonyV.Model.C30Scan PonyV.Model.C30Adapt
               PonyV.Proofs.C06StrLemmas.
From Coq Require Import ZifyBool.

(* ------------------------------------------------------------------------------------------------ small facts *)

Lemma str_eqb_eq : forall a b, str_eqb a b = true <-> a = b.
Proof.
  induction a as [|x a IH]; destruct b as [|y b]; cbn; split; intro H; try reflexivity; try discriminate H.
  - apply andb_true_iff in H. destruct H as [H1 H2]. apply IH in H2. f_equal; [lia | exact H2].
  - inversion H; subst. rewrite Z.eqb_refl. cbn. apply IH. reflexivity.
Qed.

Lemma style_eqb_eq : forall a b, style_eqb a b = true <-> a = b.
Proof. destruct a, b; cbn; split; intro H; try reflexivity; discriminate H. Qed.

Lemma ckey_eqb_eq : forall a b, ckey_eqb a b = true <-> a = b.
Proof.
  intros [s1 t1] [s2 t2]. unfold ckey_eqb. cbn [fst snd]. rewrite andb_true_iff, str_eqb_eq, style_eqb_eq.
  split; [intros [H1 H2]; subst; reflexivity | intro H; inversion H; split; reflexivity].
Qed.

Lemma mem_char_app : forall c a b, mem_char c (a ++ b) = mem_char c a || mem_char c b.
Proof. intros. unfold mem_char. apply existsb_app. Qed.

Lemma split_dollar_text : forall t, mem_char 36 t = false -> split_dollar t = (t, None).
Proof.
  induction t as [|c t IH]; intro H; [reflexivity|].
  cbn [mem_char existsb] in H. apply orb_false_iff in H. destruct H as [Hc Ht].
  cbn [split_dollar]. rewrite Hc, (IH Ht). reflexivity.
Qed.

Lemma split_dollar_at : forall t r, mem_char 36 t = false -> split_dollar (t ++ 36 :: r) = (t, Some r).
Proof.
  induction t as [|c t IH]; intros r H; [reflexivity|].
  cbn [mem_char existsb] in H. apply orb_false_iff in H. destruct H as [Hc Ht].
  cbn [app split_dollar]. rewrite Hc, (IH r Ht). reflexivity.
Qed.

Lemma strip_semi_snoc : forall e, strip_semi (e ++ [59]) = e.
Proof. intro e. unfold strip_semi. rewrite rev_app_distr. cbn. apply rev_involutive. Qed.

(* ------------------------------------------------------------------------------------------------ $$ *)

Lemma replace_dd_other : forall a x, a =? 36 = false -> replace_dd (a :: x) = a :: replace_dd x.
Proof. intros a x H. destruct x as [|b r]; [reflexivity|]. cbn [replace_dd]. rewrite H. reflexivity. Qed.

Lemma replace_dd_text : forall t rest, mem_char 36 t = false -> replace_dd (t ++ rest) = t ++ replace_dd rest.
Proof.
  induction t as [|a t IH]; intros rest H; [reflexivity|].
  cbn [mem_char existsb] in H. apply orb_false_iff in H. destruct H as [Ha Ht].
  cbn [app]. rewrite replace_dd_other by exact Ha. f_equal. apply IH. exact Ht.
Qed.

Lemma replace_dd_dd : forall rest, replace_dd (36 :: 36 :: rest) = 36 :: replace_dd rest.
Proof. reflexivity. Qed.

Section WithClasses.
Variable is_w : Z -> bool.
Variable is_sp : Z -> bool.

Notation parse_expr := (parse_expr is_w is_sp).
Notation scan_items := (scan_items is_w is_sp).
Notation items_of := (items_of is_w is_sp).
Notation adapt := (adapt is_w is_sp).
Notation cached_adapt := (cached_adapt is_w is_sp).
Notation run_history := (run_history is_w is_sp).

(* ------------------------------------------------------------------------------------------------ segments *)

Definition semi_text (o : option str) : str := match o with Some ws => ws ++ [59] | None => [] end.
Definition seg_expr (e : str) (o : option str) : str := match o with Some ws => e ++ ws | None => e end.

(* the scanner cuts the expression where the author meant it to end *)
Definition cut_ok (e : str) (o : option str) (rest : str) : Prop :=
  parse_expr (e ++ semi_text o ++ rest) = Some (e ++ semi_text o, rest) /\ strip_semi (e ++ semi_text o) = seg_expr e o.

Fixpoint wf_segs (l : list seg) : Prop :=
  match l with
  | [] => True
  | SText t :: r => mem_char 36 t = false /\ wf_segs r
  | SDollar :: r => wf_segs r
  | SExpr e o :: r => cut_ok e o (render r) /\ wf_segs r
  end.

Definition seg_exprs (l : list seg) : list str :=
  flat_map (fun s => match s with SExpr e o => [seg_expr e o] | _ => [] end) l.

Lemma seg_text_expr : forall e o, seg_text (SExpr e o) = 36 :: e ++ semi_text o.
Proof. intros e [ws|]; cbn; [reflexivity | rewrite app_nil_r; reflexivity]. Qed.

Lemma parse_expr_head : forall s x, parse_expr s = Some x -> exists c r, s = c :: r /\ c <> 36.
Proof.
  intros s x H. unfold C30Scan.parse_expr, parse_expr_rest in H. destruct s as [|c r]; [discriminate H|].
  exists c, r. split; [reflexivity|]. intro Hc. subst c. cbn in H. discriminate H.
Qed.

Lemma scan_segs : forall segs pre fuel,
  mem_char 36 pre = false -> wf_segs segs -> (length (pre ++ render segs) < fuel)%nat ->
  exists l, scan_items fuel (pre ++ render segs) = Ok l /\ exprs_of l = seg_exprs segs /\
            forall st n, toks_text (out_toks st n l) = pre ++ toks_text (out_toks st n (map seg_item segs)).
Proof.
  induction segs as [|sg segs IH]; intros pre fuel Hpre Hwf Hfuel.
  - cbn [render flat_map] in *. rewrite app_nil_r in *. destruct fuel as [|f]; [lia|].
    cbn [C30Adapt.scan_items]. rewrite (split_dollar_text pre Hpre).
    exists [IText pre]. split; [reflexivity|]. split; [reflexivity|]. intros st n. cbn. rewrite !app_nil_r. reflexivity.
  - destruct sg as [t| |e o].
    + (* text *)
      cbn [wf_segs] in Hwf. destruct Hwf as [Ht Hwf].
      change (render (SText t :: segs)) with (t ++ render segs) in *. rewrite app_assoc in *.
      destruct (IH (pre ++ t) fuel) as (l & Hl & He & Ho); [rewrite mem_char_app, Hpre, Ht; reflexivity | exact Hwf | exact Hfuel|].
      exists l. split; [exact Hl|]. split; [exact He|]. intros st n. rewrite Ho. cbn [map seg_item out_toks toks_text flat_map otok_text].
      rewrite <- app_assoc. reflexivity.
    + (* $$ *)
      cbn [wf_segs] in Hwf. change (render (SDollar :: segs)) with (36 :: 36 :: render segs) in *.
      destruct fuel as [|f]; [lia|]. cbn [C30Adapt.scan_items]. rewrite (split_dollar_at pre _ Hpre). cbn [Z.eqb Pos.eqb].
      destruct (IH [] f) as (l & Hl & He & Ho); [reflexivity | exact Hwf | repeat (first [rewrite app_length in Hfuel | progress cbn [length] in Hfuel]); cbn [app]; lia|].
      cbn [app] in Hl. rewrite Hl. exists (IText pre :: IText [36] :: l). split; [reflexivity|]. split; [exact He|].
      intros st n. cbn [map seg_item out_toks toks_text flat_map otok_text]. fold (toks_text (out_toks st n l)). rewrite Ho. reflexivity.
    + (* $expr *)
      cbn [wf_segs] in Hwf. destruct Hwf as [[Hcut Hstrip] Hwf].
      change (render (SExpr e o :: segs)) with (seg_text (SExpr e o) ++ render segs) in *. rewrite seg_text_expr in *.
      destruct fuel as [|f]; [lia|]. cbn [C30Adapt.scan_items].
      change ((36 :: e ++ semi_text o) ++ render segs) with (36 :: (e ++ semi_text o) ++ render segs) in *.
      rewrite (split_dollar_at pre _ Hpre). rewrite <- app_assoc in *.
      destruct (parse_expr_head _ _ Hcut) as (c & r & Hcr & Hc36). rewrite Hcr. assert (c =? 36 = false) as -> by lia.
      rewrite <- Hcr, Hcut.
      destruct (IH [] f) as (l & Hl & He & Ho); [reflexivity | exact Hwf | repeat (first [rewrite app_length in Hfuel | progress cbn [length] in Hfuel]); cbn [app]; lia|].
      cbn [app] in Hl. rewrite Hl, Hstrip. exists (IText pre :: IExpr (seg_expr e o) :: l). split; [reflexivity|]. split.
      * cbn [exprs_of flat_map app]. fold (exprs_of l). rewrite He. destruct o; reflexivity.
      * intros st n. destruct o as [ws|]; cbn [map seg_item out_toks toks_text flat_map otok_text seg_expr];
          fold (toks_text (out_toks st (n + 1) l)); rewrite Ho; reflexivity.
Qed.

(* %-doubling of the whole statement is %-doubling of every segment *)
Lemma rewrite_render : forall st segs, rewrite st (render segs) = render (dbl st segs).
Proof.
  intros st segs. unfold rewrite, dbl. destruct (is_fmt st); [|reflexivity].
  induction segs as [|sg segs IH]; [reflexivity|].
  change (render (sg :: segs)) with (seg_text sg ++ render segs). rewrite replace_all_app, IH.
  change (render (map dbl_seg (sg :: segs))) with (seg_text (dbl_seg sg) ++ render (map dbl_seg segs)). f_equal.
  destruct sg as [t| |e [ws|]]; cbn [seg_text dbl_seg]; try reflexivity.
  - rewrite replace_all_cons. cbn [Z.eqb Pos.eqb app]. rewrite !replace_all_app. reflexivity.
Qed.

Definition has_expr (l : list seg) : bool := existsb seg_has_expr l.

Lemma seg_exprs_nil : forall l, has_expr l = false -> seg_exprs l = [].
Proof.
  induction l as [|sg l IH]; intro H; [reflexivity|]. cbn [has_expr existsb] in H. apply orb_false_iff in H. destruct H as [H1 H2].
  destruct sg; try discriminate H1; cbn [seg_exprs flat_map app]; apply IH; exact H2.
Qed.

Lemma seg_exprs_cons : forall l, has_expr l = true -> seg_exprs l <> [].
Proof.
  induction l as [|sg l IH]; intro H; [discriminate H|]. cbn [has_expr existsb] in H.
  destruct sg as [t| |e o]; cbn [seg_has_expr orb] in H; cbn [seg_exprs flat_map app]; try (apply IH; exact H). discriminate.
Qed.

Lemma has_expr_dbl : forall st l, has_expr (dbl st l) = has_expr l.
Proof.
  intros st l. unfold dbl. destruct (is_fmt st); [|reflexivity].
  induction l as [|sg l IH]; [reflexivity|]. cbn [map has_expr existsb]. fold (has_expr (map dbl_seg l)). rewrite IH.
  destruct sg; reflexivity.
Qed.

(* the text of the output tokens for a statement, and its placeholders *)
Definition out_text (st : paramstyle) (l : list seg) : str := toks_text (out_toks st 0 (map seg_item l)).

(* MAIN: for every paramstyle and every well-formed segment list with at least one expression, adapt_sql returns the texts in
   order with one placeholder per expression, and the expressions in order (under format / pyformat: of the %-doubled statement) *)
Lemma adapt_segments : forall st segs, wf_segs (dbl st segs) -> has_expr segs = true ->
  adapt st (render segs) = Ok (out_text st (dbl st segs), argsrc_of st (seg_exprs (dbl st segs))).
Proof.
  intros st segs Hwf Hex. unfold C30Adapt.adapt. rewrite rewrite_render. unfold C30Adapt.items_of.
  destruct (scan_segs (dbl st segs) [] (S (length (render (dbl st segs))))) as (l & Hl & He & Ho); [reflexivity | exact Hwf | cbn; lia|].
  cbn [app] in Hl. rewrite Hl, He.
  assert (Hne : seg_exprs (dbl st segs) <> []) by (apply seg_exprs_cons; rewrite has_expr_dbl; exact Hex).
  destruct (seg_exprs (dbl st segs)) as [|x xs] eqn:E; [congruence|]. rewrite (Ho st 0). reflexivity.
Qed.

(* without expressions: $$ becomes $, the text is passed through unchanged (no %-doubling: no arguments are sent) *)
Lemma replace_dd_render : forall st segs, wf_segs segs -> has_expr segs = false ->
  replace_dd (render segs) = toks_text (out_toks st 0 (map seg_item segs)).
Proof.
  intros st segs. generalize 0. induction segs as [|sg segs IH]; intros n Hwf Hex; [reflexivity|].
  cbn [has_expr existsb] in Hex. apply orb_false_iff in Hex. destruct Hex as [H1 H2].
  destruct sg as [t| |e o]; [| |discriminate H1].
  - cbn [wf_segs] in Hwf. destruct Hwf as [Ht Hwf]. change (render (SText t :: segs)) with (t ++ render segs).
    rewrite replace_dd_text by exact Ht. cbn [map seg_item out_toks toks_text flat_map otok_text]. f_equal. apply IH; assumption.
  - cbn [wf_segs] in Hwf. change (render (SDollar :: segs)) with (36 :: 36 :: render segs). rewrite replace_dd_dd.
    cbn [map seg_item out_toks toks_text flat_map otok_text app]. f_equal. apply IH; assumption.
Qed.

Lemma wf_dbl_noexpr : forall st segs, wf_segs segs -> has_expr segs = false -> wf_segs (dbl st segs).
Proof.
  intros st segs. unfold dbl. destruct (is_fmt st); [|tauto].
  induction segs as [|sg segs IH]; intros Hwf Hex; [exact I|].
  cbn [has_expr existsb] in Hex. apply orb_false_iff in Hex. destruct Hex as [H1 H2].
  destruct sg as [t| |e o]; [| |discriminate H1]; cbn [map dbl_seg wf_segs] in *.
  - destruct Hwf as [Ht Hwf]. split; [|apply IH; assumption].
    clear - Ht. induction t as [|c t IHt]; [reflexivity|]. cbn [mem_char existsb] in Ht. apply orb_false_iff in Ht. destruct Ht as [Hc Ht].
    rewrite replace_all_cons, mem_char_app, (IHt Ht), orb_false_r. destruct (c =? 37) eqn:E; cbn; [reflexivity | rewrite Hc; reflexivity].
  - apply IH; assumption.
Qed.

Lemma adapt_no_expr : forall st segs, wf_segs segs -> has_expr segs = false ->
  adapt st (render segs) = Ok (out_text st segs, SrcNone).
Proof.
  intros st segs Hwf Hex. unfold C30Adapt.adapt. rewrite rewrite_render. unfold C30Adapt.items_of.
  destruct (scan_segs (dbl st segs) [] (S (length (render (dbl st segs))))) as (l & Hl & He & Ho);
    [reflexivity | apply wf_dbl_noexpr; assumption | cbn; lia|].
  cbn [app] in Hl. rewrite Hl, He, seg_exprs_nil by (rewrite has_expr_dbl; exact Hex).
  unfold out_text. rewrite (replace_dd_render st segs Hwf Hex). reflexivity.
Qed.

(* expressions are untouched unless the style is format / pyformat and they contain a % *)
Definition expr_percent_free (s : seg) : Prop :=
  match s with SExpr e o => mem_char 37 e = false /\ (forall ws, o = Some ws -> mem_char 37 ws = false) | _ => True end.

Lemma seg_exprs_dbl : forall st segs, Forall expr_percent_free segs -> seg_exprs (dbl st segs) = seg_exprs segs.
Proof.
  intros st segs H. unfold dbl. destruct (is_fmt st); [|reflexivity].
  induction H as [|sg segs Hsg _ IH]; [reflexivity|].
  cbn [map seg_exprs flat_map]. fold (seg_exprs (map dbl_seg segs)). fold (seg_exprs segs). rewrite IH. f_equal.
  destruct sg as [t| |e [ws|]]; cbn [dbl_seg]; try reflexivity; cbn in Hsg; destruct Hsg as [He Hws].
  - rewrite (replace_all_absent _ _ e He), (replace_all_absent _ _ ws (Hws ws eq_refl)). reflexivity.
  - rewrite (replace_all_absent _ _ e He). reflexivity.
Qed.

Lemma seg_exprs_not_fmt : forall st segs, is_fmt st = false -> dbl st segs = segs.
Proof. intros st segs H. unfold dbl. rewrite H. reflexivity. Qed.

(* ------------------------------------------------------------------------------------------------ a class of well-formed cuts *)

Lemma skip_w_words : forall w rest, forallb is_w w = true -> (forall d r, rest = d :: r -> is_w d = false) ->
  skip_w is_w (w ++ rest) = rest.
Proof.
  induction w as [|c w IH]; intros rest Hw Hr.
  - cbn [app]. destruct rest as [|d r]; [reflexivity|]. cbn [skip_w]. rewrite (Hr d r eq_refl). reflexivity.
  - cbn [forallb] in Hw. apply andb_true_iff in Hw. destruct Hw as [Hc Hw]. cbn [app skip_w]. rewrite Hc. apply IH; assumption.
Qed.

(* $name followed by the end of the statement or by a character that can neither continue a name nor start a trailer *)
Definition stopper (rest : str) : Prop :=
  forall d r, rest = d :: r ->
    is_w d = false /\ is_sp d = false /\ d <> 59 /\ d <> 46 /\ d <> 40 /\ d <> 91.

Lemma trailer_stop : forall rest, stopper rest -> trailer is_w is_sp rest = None.
Proof.
  intros rest Hstop. unfold trailer. destruct rest as [|d r]; [reflexivity|].
  destruct (Hstop d r eq_refl) as (_ & Hsp & H1 & H2 & H3 & H4). cbn [skip_sp]. rewrite Hsp.
  assert (d =? 59 = false) as -> by lia. assert (d =? 46 = false) as -> by lia.
  assert (d =? 40 = false) as -> by lia. assert (d =? 91 = false) as -> by lia. reflexivity.
Qed.

Lemma tails_stop : forall f rest, stopper rest -> tails is_w is_sp (S f) rest = Some rest.
Proof. intros f rest H. cbn [tails]. rewrite trailer_stop by exact H. reflexivity. Qed.

Lemma firstn_prefix : forall (a b : str), firstn (length (a ++ b) - length b) (a ++ b) = a.
Proof.
  intros a b. rewrite app_length. replace (length a + length b - length b)%nat with (length a + 0)%nat by lia.
  rewrite firstn_app_2. cbn [firstn]. apply app_nil_r.
Qed.

Lemma cut_ok_name : forall c w rest, is_id_start c = true -> forallb is_w w = true -> is_w 59 = false -> stopper rest ->
  cut_ok (c :: w) None rest.
Proof.
  intros c w rest Hc Hw H59 Hstop. unfold cut_ok, semi_text, seg_expr. cbn [app]. rewrite app_nil_r. split.
  - unfold C30Scan.parse_expr, parse_expr_rest, head1. rewrite Hc. cbn [Nat.eqb].
    rewrite skip_w_words; [|exact Hw | intros d r E; apply (Hstop d r E)].
    rewrite tails_stop by exact Hstop. f_equal. f_equal.
    change (c :: w ++ rest) with ((c :: w) ++ rest). apply firstn_prefix.
  - unfold strip_semi. destruct (rev (c :: w)) as [|z zs] eqn:E; [reflexivity|].
    destruct (z =? 59) eqn:Ez; [|reflexivity]. exfalso.
    assert (Hin : In z (c :: w)) by (apply in_rev; rewrite E; left; reflexivity).
    assert (z = 59) by lia. subst z. destruct Hin as [Hin|Hin].
    + subst c. cbn in Hc. discriminate Hc.
    + rewrite forallb_forall in Hw. specialize (Hw 59 Hin). congruence.
Qed.

(* $name <white space> ;   -- the semicolon ends the expression explicitly and is consumed; no condition on what follows *)
Lemma skip_sp_spaces : forall ws rest, forallb is_sp ws = true -> (forall d r, rest = d :: r -> is_sp d = false) ->
  skip_sp is_sp (ws ++ rest) = rest.
Proof.
  induction ws as [|c ws IH]; intros rest Hw Hr.
  - cbn [app]. destruct rest as [|d r]; [reflexivity|]. cbn [skip_sp]. rewrite (Hr d r eq_refl). reflexivity.
  - cbn [forallb] in Hw. apply andb_true_iff in Hw. destruct Hw as [Hc Hw]. cbn [app skip_sp]. rewrite Hc. apply IH; assumption.
Qed.

Lemma cut_ok_name_semi : forall c w ws rest,
  is_id_start c = true -> forallb is_w w = true -> forallb is_sp ws = true -> (forall d, In d ws -> is_w d = false) ->
  is_w 59 = false -> is_sp 59 = false ->
  cut_ok (c :: w) (Some ws) rest.
Proof.
  intros c w ws rest Hc Hw Hws Hwsw H59w H59s. unfold cut_ok, semi_text, seg_expr. split.
  - unfold C30Scan.parse_expr, parse_expr_rest, head1. cbn [app]. rewrite Hc. cbn [Nat.eqb].
    rewrite skip_w_words; [|exact Hw|].
    + assert (Ht : forall f, tails is_w is_sp (S f) ((ws ++ [59]) ++ rest) = Some rest).
      { intro f. cbn [tails]. unfold trailer. rewrite <- app_assoc. rewrite skip_sp_spaces; [|exact Hws|].
        - cbn [app]. rewrite Z.eqb_refl. reflexivity.
        - intros d r E. cbn [app] in E. inversion E; subst. exact H59s. }
      rewrite Ht. f_equal. f_equal.
      change (c :: w ++ (ws ++ [59]) ++ rest) with ((c :: w) ++ (ws ++ [59]) ++ rest). rewrite app_assoc. apply firstn_prefix.
    + intros d r E. destruct ws as [|x ws']; cbn [app] in E; inversion E; subst; [exact H59w | apply Hwsw; left; reflexivity].
  - rewrite app_assoc. apply strip_semi_snoc.
Qed.

(* $name(args) with args free of brackets and quotes, followed by a stopper *)
Definition plain_char (c : Z) : bool := negb (is_bracket c || (c =? 39) || (c =? 34)).

Lemma next_tok_plain : forall a c rest, forallb plain_char a = true -> is_bracket c = true ->
  next_tok (a ++ c :: rest) = Some (Some c, rest).
Proof.
  induction a as [|x a IH]; intros c rest Hp Hc.
  - cbn [app next_tok]. rewrite Hc. reflexivity.
  - cbn [forallb] in Hp. apply andb_true_iff in Hp. destruct Hp as [Hx Hp].
    unfold plain_char in Hx. apply negb_true_iff in Hx. apply orb_false_iff in Hx. destruct Hx as [Hx H34].
    apply orb_false_iff in Hx. destruct Hx as [Hbr H39].
    cbn [app next_tok]. rewrite Hbr, H39, H34. cbn [orb]. apply IH; assumption.
Qed.

Lemma scan_br_plain : forall a rest fuel, forallb plain_char a = true -> (0 < fuel)%nat ->
  scan_br fuel 40 41 0 (a ++ 41 :: rest) = Some rest.
Proof.
  intros a rest fuel Hp Hf. destruct fuel as [|f]; [lia|]. cbn [scan_br]. rewrite next_tok_plain by (exact Hp || reflexivity). reflexivity.
Qed.

Lemma cut_ok_call : forall c w a rest,
  is_id_start c = true -> forallb is_w w = true -> forallb plain_char a = true ->
  is_w 40 = false -> is_sp 40 = false -> is_w 59 = false -> stopper rest ->
  cut_ok ((c :: w) ++ 40 :: a ++ [41]) None rest.
Proof.
  intros c w a rest Hc Hw Ha H40w H40s H59 Hstop. unfold cut_ok, semi_text, seg_expr. rewrite app_nil_r. cbn [app]. split.
  - unfold C30Scan.parse_expr, parse_expr_rest, head1. rewrite Hc. cbn [Nat.eqb].
    replace ((w ++ 40 :: a ++ [41]) ++ rest) with (w ++ 40 :: a ++ 41 :: rest) by (rewrite <- !app_assoc; cbn [app]; rewrite <- app_assoc; reflexivity).
    rewrite skip_w_words; [|exact Hw | intros d r E; inversion E; subst; exact H40w].
    set (F := length (c :: w ++ 40 :: a ++ 41 :: rest)).
    assert (Ht : tails is_w is_sp (S F) (40 :: a ++ 41 :: rest) = Some rest).
    { cbn [tails]. unfold trailer. cbn [skip_sp]. rewrite H40s. cbn [Z.eqb Pos.eqb orb]. unfold closer. cbn [Z.eqb Pos.eqb].
      rewrite scan_br_plain; [|exact Ha | rewrite app_length; cbn; lia].
      unfold F. cbn [length]. apply tails_stop. exact Hstop. }
    subst F. rewrite Ht. f_equal. f_equal.
    replace (c :: w ++ 40 :: a ++ 41 :: rest) with ((c :: w ++ 40 :: a ++ [41]) ++ rest)
      by (cbn [app]; rewrite <- !app_assoc; cbn [app]; rewrite <- app_assoc; reflexivity).
    apply firstn_prefix.
  - unfold strip_semi. change (c :: w ++ 40 :: a ++ [41]) with ((c :: w) ++ 40 :: a ++ [41]).
    replace ((c :: w) ++ 40 :: a ++ [41]) with (((c :: w) ++ 40 :: a) ++ [41]) by (rewrite <- app_assoc; reflexivity).
    rewrite rev_app_distr. cbn [rev app]. reflexivity.
Qed.

(* ------------------------------------------------------------------------------------------------ the cache *)

Lemma cache_get_in : forall k c v, cache_get k c = Some v -> In (k, v) c.
Proof.
  intros k c v. induction c as [|[k' v'] c IH]; intro H; [discriminate H|]. cbn [cache_get] in H.
  destruct (ckey_eqb k' k) eqn:E.
  - apply ckey_eqb_eq in E. inversion H; subst. left. reflexivity.
  - right. apply IH. exact H.
Qed.

(* invariant: every entry holds what adapt_sql computes for its own key *)
Definition cache_ok (c : list (ckey * adapted)) : Prop := forall k v, In (k, v) c -> adapt (snd k) (fst k) = Ok v.

Lemma cache_transparent_gen : forall h c, cache_ok c ->
  run_history c h = map (fun rq => adapt (snd rq) (fst rq)) h.
Proof.
  induction h as [|rq h IH]; intros c Hok; [reflexivity|].
  cbn [C30Adapt.run_history map]. unfold C30Adapt.cached_adapt.
  destruct (cache_get rq c) as [v|] eqn:Eg.
  - apply cache_get_in in Eg. rewrite (Hok _ _ Eg). f_equal. apply IH. exact Hok.
  - destruct (adapt (snd rq) (fst rq)) as [v|e] eqn:Ea; f_equal; apply IH; [|exact Hok].
    intros k v' [Hkv|Hkv]; [inversion Hkv; subst; exact Ea | apply Hok; exact Hkv].
Qed.

(* cache transparency over all histories *)
Lemma cache_transparent : forall h, run_history [] h = map (fun rq => adapt (snd rq) (fst rq)) h.
Proof. intro h. apply cache_transparent_gen. intros k v []. Qed.

End WithClasses.

(* ------------------------------------------------------------------------------------------------ binding *)

Section Binding.
Variable V : Type.
Variable ev : str -> V.

Fixpoint znums (n : Z) (k : nat) : list Z := match k with O => [] | S k' => (n + 1) :: znums (n + 1) k' end.

Lemma placeholders_of_items : forall st l n,
  toks_placeholders (out_toks st n l) = map (placeholder st) (znums n (length (exprs_of l))).
Proof.
  intros st l. induction l as [|i l IH]; intro n; [reflexivity|]. destruct i as [t|e].
  - cbn [out_toks toks_placeholders flat_map app exprs_of]. apply IH.
  - cbn [out_toks toks_placeholders flat_map app exprs_of length znums map]. f_equal. apply IH.
Qed.

Lemma bind_pos_vals : forall (p : ptok) (vs : list V) (X : list Z) pre, (p = PQ \/ p = PF) -> length X = length vs ->
  bind_from (ATuple (pre ++ vs)) (length pre) (map (fun _ => p) X) = map Some vs.
Proof.
  intros p vs. induction vs as [|v vs IH]; intros X pre Hp HX.
  - destruct X; [reflexivity|discriminate HX].
  - destruct X as [|x X]; [discriminate HX|]. cbn [map bind_from]. f_equal.
    + assert (E : nth_error (pre ++ v :: vs) (length pre) = Some v) by (rewrite nth_error_app2, Nat.sub_diag by lia; reflexivity).
      destruct Hp; subst p; exact E.
    + replace (S (length pre)) with (length (pre ++ [v])) by (rewrite app_length; cbn; lia).
      replace (pre ++ v :: vs) with ((pre ++ [v]) ++ vs) by (rewrite <- app_assoc; reflexivity).
      apply IH; [exact Hp | cbn in HX; lia].
Qed.

Lemma bind_num_vals : forall (vs : list V) pre pos,
  bind_from (ATuple (pre ++ vs)) pos (map PNum (znums (Z.of_nat (length pre)) (length vs))) = map Some vs.
Proof.
  induction vs as [|v vs IH]; intros pre pos; [reflexivity|].
  cbn [length znums map bind_from]. f_equal.
  - cbn [bind1]. assert (1 <=? Z.of_nat (length pre) + 1 = true) as -> by lia.
    replace (Z.to_nat (Z.of_nat (length pre) + 1 - 1)) with (length pre) by lia.
    rewrite nth_error_app2, Nat.sub_diag by lia. reflexivity.
  - replace (Z.of_nat (length pre) + 1) with (Z.of_nat (length (pre ++ [v]))) by (rewrite app_length; cbn; lia).
    replace (pre ++ v :: vs) with ((pre ++ [v]) ++ vs) by (rewrite <- app_assoc; reflexivity). apply IH.
Qed.

Lemma lookup_nodup : forall (l : list (Z * V)) k v, NoDup (map fst l) -> In (k, v) l -> lookup k l = Some v.
Proof.
  induction l as [|[k' v'] l IH]; intros k v Hnd Hin; [destruct Hin|]. cbn [map fst] in Hnd. inversion Hnd as [|? ? Hnot Hnd']; subst.
  cbn [lookup]. destruct Hin as [Hin|Hin].
  - inversion Hin; subst. rewrite Z.eqb_refl. reflexivity.
  - destruct (k' =? k) eqn:E; [|apply IH; assumption]. exfalso. assert (k' = k) by lia. subst k'.
    apply Hnot. apply in_map_iff. exists (k, v). split; [reflexivity|exact Hin].
Qed.

Lemma number_from_keys : forall es n, map fst (number_from n es) = znums n (length es).
Proof. induction es as [|e es IH]; intro n; [reflexivity|]. cbn. f_equal. apply IH. Qed.

Lemma znums_gt : forall k n x, In x (znums n k) -> n < x.
Proof. induction k as [|k IH]; intros n x H; [destruct H|]. destruct H as [H|H]; [lia|]. apply IH in H. lia. Qed.

Lemma znums_nodup : forall k n, NoDup (znums n k).
Proof.
  induction k as [|k IH]; intro n; [constructor|]. cbn. constructor; [|apply IH].
  intro H. apply znums_gt in H. lia.
Qed.

Definition dict_of (es : list str) (n : Z) : list (Z * V) := map (fun kv => (fst kv, ev (snd kv))) (number_from n es).

Lemma dict_of_keys : forall es n, map fst (dict_of es n) = znums n (length es).
Proof. intros. unfold dict_of. rewrite map_map. cbn [fst]. rewrite <- number_from_keys. apply map_ext. reflexivity. Qed.

Lemma bind_named_vals : forall (mk : Z -> ptok) (all : list (Z * V)), (forall id, mk id = PNam id) \/ (forall id, mk id = PPy id) ->
  NoDup (map fst all) ->
  forall es n pos, (forall kv, In kv (dict_of es n) -> In kv all) ->
  bind_from (ADict all) pos (map mk (znums n (length es))) = map (fun e => Some (ev e)) es.
Proof.
  intros mk all Hmk Hnd. induction es as [|e es IH]; intros n pos Hsub; [reflexivity|].
  cbn [length znums map bind_from]. f_equal.
  - assert (Hd : dict_get (n + 1) all = Some (ev e)).
    { unfold dict_get. apply lookup_nodup.
      - rewrite map_rev. apply NoDup_rev. exact Hnd.
      - apply in_rev. rewrite rev_involutive. apply Hsub. left. reflexivity. }
    destruct Hmk as [Hmk|Hmk]; rewrite Hmk; exact Hd.
  - apply IH. intros kv Hin. apply Hsub. right. exact Hin.
Qed.

(* every placeholder adapt_sql writes is bound, in order, to the value of its own expression *)
Lemma adapt_bound : forall st (l : list item), exprs_of l <> [] ->
  match eval_args V ev (argsrc_of st (exprs_of l)) with
  | Some a => bind_all a (toks_placeholders (out_toks st 0 l)) = map (fun e => Some (ev e)) (exprs_of l)
  | None => False
  end.
Proof.
  intros st l Hne. rewrite placeholders_of_items. generalize (exprs_of l). clear. intro es.
  destruct st; cbn [argsrc_of eval_args]; unfold bind_all.
  - change (map (placeholder Qmark) (znums 0 (length es))) with (map (fun _ : Z => PQ) (znums 0 (length es))).
    rewrite <- (map_map ev Some). apply (bind_pos_vals PQ (map ev es) _ []); [left; reflexivity|].
    rewrite map_length. clear. generalize 0. induction es; intro; cbn; [reflexivity | f_equal; apply IHes].
  - change (map (placeholder Format) (znums 0 (length es))) with (map (fun _ : Z => PF) (znums 0 (length es))).
    rewrite <- (map_map ev Some). apply (bind_pos_vals PF (map ev es) _ []); [right; reflexivity|].
    rewrite map_length. clear. generalize 0. induction es; intro; cbn; [reflexivity | f_equal; apply IHes].
  - change (map (placeholder Numeric) (znums 0 (length es))) with (map PNum (znums 0 (length es))).
    rewrite <- (map_map ev Some). rewrite <- (map_length ev es). apply (bind_num_vals (map ev es) [] 0%nat).
  - change (map (placeholder Named) (znums 0 (length es))) with (map PNam (znums 0 (length es))).
    apply (bind_named_vals PNam); [left; reflexivity | | intros kv H; exact H].
    fold (dict_of es 0). rewrite dict_of_keys. apply znums_nodup.
  - change (map (placeholder Pyformat) (znums 0 (length es))) with (map PPy (znums 0 (length es))).
    apply (bind_named_vals PPy); [right; reflexivity | | intros kv H; exact H].
    fold (dict_of es 0). rewrite dict_of_keys. apply znums_nodup.
Qed.

End Binding.

(* ------------------------------------------------------------------------------------------------ what the server sees *)

(* text pieces under format / pyformat are %-doubled; the driver's %-step gives the original text back (C06's lemma) *)
Lemma text_seg_server : forall st t, server_text st (seg_text (SText (if is_fmt st then replace_all 37 [37; 37] t else t))) = Some t.
Proof.
  intros st t. unfold server_text. fold (is_fmt st). destruct (is_fmt st); cbn [seg_text]; [apply fmt_subst_doubled | reflexivity].
Qed.
