(* C36 - lemmas about the fork model (Model/C36Fork.v) over the generated Pool.connect / OraPool.connect (Gen/C36Pool.v). *)
From Coq Require Import ZArith List Bool Lia.
Import ListNotations.
Require Import PonyV.Model.C36Base PonyV.Gen.C36Pool PonyV.Model.C36Fork.
#[local] Open Scope Z_scope.

Lemma conn_eqb_eq : forall a b, conn_eqb a b = true <-> a = b.
Proof.
  intros [a1 a2] [b1 b2]; unfold conn_eqb; cbn. rewrite andb_true_iff, !Z.eqb_eq.
  split; [intros [-> ->]; reflexivity|intros H; inversion H; auto].
Qed.

Lemma conn_eqb_refl : forall a, conn_eqb a a = true.
Proof. intros a; apply conn_eqb_eq; reflexivity. Qed.

Lemma optz_eqb_some : forall a q, optz_eqb a (Some q) = true <-> a = Some q.
Proof.
  intros [x|] q; cbn.
  - rewrite Z.eqb_eq. split; [intros ->; reflexivity|intros H; inversion H; reflexivity].
  - split; discriminate.
Qed.

(* ------------------------------------------------------------------ Pool.connect, as generated from the source *)

(* Pool.connect, both ways it can end.  Returned normally: what it hands out was created by the calling process (provided the
   recorded pid is the creator of the pooled connection, which Pool.connect itself establishes).  Raised out of pool._connect():
   the pool holds no connection at all afterwards - in particular none created by another process *)
Lemma pool_connect_cases : forall ok q pc pp fk fresh pc' pp' fk' isnew ok',
  (forall c, pc = Some c -> pp = Some (creator c)) ->
  creator fresh = q ->
  pool_connect ok q pc pp fk fresh = (pc', pp', fk', isnew, ok') ->
  (ok' = true /\ exists c, pc' = Some c /\ creator c = q /\ pp' = Some q
                          /\ (isnew = true -> c = fresh) /\ (isnew = false -> pc = Some c /\ fk' = fk))
  \/ (ok' = false /\ ok = false /\ pc' = None).
Proof.
  intros ok q pc pp fk fresh pc' pp' fk' isnew ok' Hinv Hfresh H. unfold pool_connect in H.
  destruct pc as [c1|].
  - destruct (optz_eqb pp (Some q)) eqn:E; cbn in H.
    + inversion H; subst; clear H. left. split; [reflexivity|].
      apply optz_eqb_some in E. specialize (Hinv c1 eq_refl). rewrite E in Hinv. inversion Hinv as [Hc].
      exists c1. repeat split; auto; try discriminate.
    + destruct ok; inversion H; subst; clear H.
      * left. split; [reflexivity|]. exists fresh. repeat split; auto; discriminate.
      * right. auto.
  - destruct ok; inversion H; subst; clear H.
    + left. split; [reflexivity|]. exists fresh. repeat split; auto; discriminate.
    + right. auto.
Qed.

Lemma pool_connect_own : forall q pc pp fk fresh pc' pp' fk' isnew ok',
  (forall c, pc = Some c -> pp = Some (creator c)) ->
  creator fresh = q ->
  pool_connect true q pc pp fk fresh = (pc', pp', fk', isnew, ok') ->
  ok' = true /\ exists c, pc' = Some c /\ creator c = q /\ pp' = Some q
            /\ (isnew = true -> c = fresh) /\ (isnew = false -> pc = Some c /\ fk' = fk).
Proof.
  intros q pc pp fk fresh pc' pp' fk' isnew ok' Hinv Hfresh H.
  destruct (pool_connect_cases true q pc pp fk fresh pc' pp' fk' isnew ok' Hinv Hfresh H) as [R|[_ [Hf _]]]; [exact R|discriminate Hf].
Qed.

(* a failed connect leaves the pool without a connection, whatever it held before (also an inherited one) *)
Lemma pool_connect_failed : forall ok q pc pp fk fresh pc' pp' fk' isnew,
  pool_connect ok q pc pp fk fresh = (pc', pp', fk', isnew, false) -> pc' = None.
Proof.
  intros ok q pc pp fk fresh pc' pp' fk' isnew H. unfold pool_connect in H.
  destruct pc as [c1|]; [destruct (optz_eqb pp (Some q)); cbn in H|]; destruct ok; inversion H; reflexivity.
Qed.

(* in the child of a fork the inherited pooled connection is never handed out: it is parked in forked_connections *)
Lemma pool_connect_after_fork : forall q p c fk fresh,
  p <> q ->
  pool_connect true q (Some c) (Some p) fk fresh = (Some fresh, Some q, fk ++ [(c, Some p)], true, true).
Proof.
  intros q p c fk fresh Hne. unfold pool_connect. cbn.
  destruct (p =? q) eqn:E; [apply Z.eqb_eq in E; contradiction|reflexivity].
Qed.

(* ... and if that first connect of the child fails, the inherited connection is parked all the same and the pool is empty *)
Lemma pool_connect_after_fork_failing : forall q p c fk fresh,
  p <> q ->
  pool_connect false q (Some c) (Some p) fk fresh = (None, None, fk ++ [(c, Some p)], false, false).
Proof.
  intros q p c fk fresh Hne. unfold pool_connect. cbn.
  destruct (p =? q) eqn:E; [apply Z.eqb_eq in E; contradiction|reflexivity].
Qed.

(* in the process that created it the pooled connection is reused; nothing is created (and nothing can fail) *)
Lemma pool_connect_same_process : forall ok q c fk fresh,
  pool_connect ok q (Some c) (Some q) fk fresh = (Some c, Some q, fk, false, true).
Proof. intros ok q c fk fresh. unfold pool_connect. cbn. rewrite Z.eqb_refl. reflexivity. Qed.

(* pool.pid is never read while unset (SQLitePool.__init__ does not set it): it is read only when pool.con is not None *)
Lemma pool_connect_unset_pid_not_read : forall q fk fresh pp,
  pool_connect true q None pp fk fresh = (Some fresh, Some q, fk, true, true).
Proof. reflexivity. Qed.

(* ------------------------------------------------------------------ invariant of one process *)

Definition J (q : Z) (s : proc) : Prop :=
  pid s = q
  /\ (forall c, ccon s = Some c -> pcon s = Some c /\ creator c = q)
  /\ (forall c, pcon s = Some c -> ppid s = Some (creator c))
  /\ (depthc s = 0%nat -> ccon s = None).

(* the stronger invariant of a process that never inherited anything *)
Definition K (q : Z) (s : proc) : Prop := J q s /\ (forall c, pcon s = Some c -> creator c = q).

Lemma J_init : forall p, K p (init p).
Proof. intros p; unfold K, J, init; cbn; repeat split; intros; try discriminate; auto. Qed.

Lemma J_fork : forall p q par, J p par -> ccon par = None -> J q (fork par q).
Proof.
  intros p q par (Hp & Hc & Hpool & Hd) Hnone. unfold J, fork; cbn.
  split; [reflexivity|]. split; [intros c H; rewrite Hnone in H; discriminate|]. split; [exact Hpool|intros _; exact Hnone].
Qed.

Lemma mkJ : forall q s,
  pid s = q ->
  (forall c, ccon s = Some c -> pcon s = Some c /\ creator c = q) ->
  (forall c, pcon s = Some c -> ppid s = Some (creator c)) ->
  (depthc s = 0%nat -> ccon s = None) ->
  J q s.
Proof. intros; unfold J; auto. Qed.

Ltac nolog := exists []; rewrite app_nil_r; split; [reflexivity|constructor].

Lemma step_J : forall q s o,
  J q s -> is_session_op o = true ->
  J q (step s o) /\ exists e, log (step s o) = log s ++ e /\ Forall (own q) e.
Proof.
  intros q [p pc pp fk cc d sr lg] o (Hp & Hc & Hpool & Hd) Hop; cbn in Hp, Hc, Hpool, Hd; subst p.
  assert (Hjj : forall cc' d' pc' sr' lg',
             (forall c, cc' = Some c -> pc' = Some c /\ creator c = q) ->
             (forall c, pc' = Some c -> pp = Some (creator c)) ->
             (d' = 0%nat -> cc' = None) ->
             J q (mkproc q pc' pp fk cc' d' sr' lg')) by (intros; apply mkJ; cbn; auto).
  destruct o; cbn in Hop; try discriminate; cbn [step pid pcon ppid forked ccon depthc serial log].
  - (* OBegin *) split; [apply Hjj; auto; intros Hx; discriminate Hx|nolog].
  - (* OQuery *)
    destruct d as [|d]; [split; [apply Hjj; auto|nolog]|].
    destruct cc as [k|].
    + destruct (Hc k eq_refl) as [Hpc Hcr].
      split; [unfold add; cbn; apply Hjj; auto; intros Hx; discriminate Hx|].
      exists [EUse q k]. split; [reflexivity|]. constructor; [exact Hcr|constructor].
    + destruct (pool_connect true q pc pp fk (q, sr + 1)) as [[[[pc' pp'] fk'] isnew] ok'] eqn:E.
      destruct (pool_connect_own q pc pp fk (q, sr + 1) pc' pp' fk' isnew ok' Hpool eq_refl E) as [_ [k [-> [Hcr [-> [Hnew Hold]]]]]].
      split.
      * apply mkJ; cbn; [reflexivity| | |intros Hx; discriminate Hx].
        -- intros x Hx; inversion Hx; subst x; split; [reflexivity|exact Hcr].
        -- intros x Hx; inversion Hx; subst x. rewrite Hcr; reflexivity.
      * eexists; split; [reflexivity|].
        apply Forall_app; split; [destruct isnew; constructor; [exact Hcr|constructor]|constructor; [exact Hcr|constructor]].
  - (* OQueryFail *)
    destruct d as [|d]; [split; [apply Hjj; auto|nolog]|].
    destruct cc as [k|].
    + destruct (Hc k eq_refl) as [Hpc Hcr].
      split; [unfold add; cbn; apply Hjj; auto; intros Hx; discriminate Hx|].
      exists [EUse q k]. split; [reflexivity|]. constructor; [exact Hcr|constructor].
    + destruct (pool_connect false q pc pp fk (q, sr + 1)) as [[[[pc' pp'] fk'] isnew] ok'] eqn:E.
      destruct (pool_connect_cases false q pc pp fk (q, sr + 1) pc' pp' fk' isnew ok' Hpool eq_refl E)
        as [[-> [k [-> [Hcr [-> _]]]]]|[-> [_ ->]]].
      * split.
        -- apply mkJ; cbn; [reflexivity| | |intros Hx; discriminate Hx].
           ++ intros x Hx; inversion Hx; subst x; split; [reflexivity|exact Hcr].
           ++ intros x Hx; inversion Hx; subst x. rewrite Hcr; reflexivity.
        -- eexists; split; [reflexivity|]. constructor; [exact Hcr|constructor].
      * split; [|nolog]. apply mkJ; cbn; [reflexivity| | |reflexivity]; intros x Hx; discriminate Hx.
  - (* OEnd *)
    destruct d as [|[|d]].
    + split; [apply Hjj; auto|nolog].
    + destruct cc as [k|].
      * destruct (Hc k eq_refl) as [Hpc Hcr]. subst pc. rewrite conn_eqb_refl.
        split; [apply Hjj; auto; intros x Hx; discriminate Hx|].
        eexists; split; [reflexivity|]. repeat constructor; exact Hcr.
      * split; [apply Hjj; auto|nolog].
    + split; [apply Hjj; auto; intros Hx; discriminate Hx|nolog].
  - (* OFail *)
    destruct cc as [k|]; [|split; [apply Hjj; auto|nolog]].
    destruct (Hc k eq_refl) as [Hpc Hcr]. subst pc. rewrite conn_eqb_refl.
    split; [apply Hjj; auto; intros x Hx; discriminate Hx|].
    eexists; split; [reflexivity|]. repeat constructor; exact Hcr.
Qed.

Lemma run_J : forall q ops s,
  J q s -> forallb is_session_op ops = true ->
  J q (run s ops) /\ exists e, log (run s ops) = log s ++ e /\ Forall (own q) e.
Proof.
  intros q ops; induction ops as [|o ops IH]; intros s HJ Hops.
  - cbn. split; [exact HJ|exists []; rewrite app_nil_r; auto].
  - cbn [forallb] in Hops. apply andb_true_iff in Hops as [Ho Hops].
    change (run s (o :: ops)) with (run (step s o) ops).
    destruct (step_J q s o HJ Ho) as [HJ1 [e1 [E1 F1]]].
    destruct (IH (step s o) HJ1 Hops) as [HJ2 [e2 [E2 F2]]].
    split; [exact HJ2|]. exists (e1 ++ e2). rewrite E2, E1, app_assoc. split; [reflexivity|apply Forall_app; auto].
Qed.

(* the never-forked process, all operations including disconnect() *)
Lemma step_K : forall q s o,
  K q s -> K q (step s o) /\ exists e, log (step s o) = log s ++ e /\ Forall (own q) e.
Proof.
  intros q s o [HJ Hown].
  destruct (is_session_op o) eqn:Hop.
  - destruct (step_J q s o HJ Hop) as [HJ1 HE]. split; [|exact HE]. split; [exact HJ1|].
    destruct HJ as (Hp & _ & Hpool0 & _).
    destruct s as [p pc pp fk cc d sr lg]; cbn in Hp, Hpool0, Hown; subst p.
    destruct o; cbn in Hop; try discriminate; cbn [step pid pcon ppid forked ccon depthc serial log]; auto.
    + destruct d as [|d]; [exact Hown|]. destruct cc as [k|]; [unfold add; cbn; exact Hown|].
      destruct (pool_connect true q pc pp fk (q, sr + 1)) as [[[[pc' pp'] fk'] isnew] ok'] eqn:E.
      destruct (pool_connect_own q pc pp fk (q, sr + 1) pc' pp' fk' isnew ok' Hpool0 eq_refl E) as [_ [k [-> [Hcr _]]]].
      cbn. intros x Hx; inversion Hx; subst x; exact Hcr.
    + destruct d as [|d]; [exact Hown|]. destruct cc as [k|]; [unfold add; cbn; exact Hown|].
      destruct (pool_connect false q pc pp fk (q, sr + 1)) as [[[[pc' pp'] fk'] isnew] ok'] eqn:E.
      destruct (pool_connect_cases false q pc pp fk (q, sr + 1) pc' pp' fk' isnew ok' Hpool0 eq_refl E)
        as [[-> [k [-> [Hcr _]]]]|[-> [_ ->]]]; cbn.
      * intros x Hx; inversion Hx; subst x; exact Hcr.
      * intros x Hx; discriminate Hx.
    + destruct d as [|[|d]]; [exact Hown| |exact Hown]. destruct cc; cbn; exact Hown.
    + destruct cc as [k|]; [|exact Hown]. destruct pc as [k'|]; cbn; [|intros x Hx; discriminate Hx].
      destruct (conn_eqb k k'); cbn; [intros x Hx; discriminate Hx|exact Hown].
  - destruct o; cbn in Hop; try discriminate.
    destruct s as [p pc pp fk cc d sr lg]. destruct HJ as (Hp & Hc & Hpool & Hd); cbn in Hp, Hc, Hpool, Hd, Hown; subst p.
    cbn [step pid pcon ppid forked ccon depthc serial log].
    destruct d as [|d]; [|split; [split; [apply mkJ; cbn; auto|exact Hown]|nolog]].
    destruct pc as [k|]; [|split; [split; [apply mkJ; cbn; auto|exact Hown]|nolog]].
    (* in the process that created it the recorded pid is the process' own: Pool.disconnect closes, whatever its spelling *)
    assert (Hsame : optz_eqb pp (Some q) = true).
    { apply optz_eqb_some. rewrite (Hpool k eq_refl), (Hown k eq_refl). reflexivity. }
    rewrite Hsame, andb_false_r.
    split.
    + split; [|cbn; intros x Hx; discriminate Hx].
      apply mkJ; cbn; [reflexivity| |intros x Hx; discriminate Hx|exact Hd].
      intros x Hx. rewrite (Hd eq_refl) in Hx; discriminate Hx.
    + eexists; split; [reflexivity|]. repeat constructor. apply Hown; reflexivity.
Qed.

Lemma run_K : forall q ops s,
  K q s -> K q (run s ops) /\ exists e, log (run s ops) = log s ++ e /\ Forall (own q) e.
Proof.
  intros q ops; induction ops as [|o ops IH]; intros s HK.
  - cbn. split; [exact HK|exists []; rewrite app_nil_r; auto].
  - change (run s (o :: ops)) with (run (step s o) ops).
    destruct (step_K q s o HK) as [HK1 [e1 [E1 F1]]].
    destruct (IH (step s o) HK1) as [HK2 [e2 [E2 F2]]].
    split; [exact HK2|]. exists (e1 ++ e2). rewrite E2, E1, app_assoc. split; [reflexivity|apply Forall_app; auto].
Qed.

(* ------------------------------------------------------------------ the property *)

(* fork anywhere the parent's session does not already hold a connection (no session, session just begun, connection back in
   the pool or never opened): whatever sessions the child then runs, it only ever creates, uses and closes connection objects
   that it created itself, and no assertion of the pool fails *)
Theorem child_safe : forall p q parent_ops child_ops,
  let par := run (init p) parent_ops in
  ccon par = None ->
  forallb is_session_op child_ops = true ->
  Forall (own q) (log (run (fork par q) child_ops)).
Proof.
  intros p q pops cops par Hnone Hops.
  destruct (run_K p pops (init p) (J_init p)) as [[HJ _] _].
  pose proof (J_fork p q par HJ Hnone) as HJq.
  destruct (run_J q cops (fork par q) HJq Hops) as [_ [e [E F]]].
  rewrite E. cbn. exact F.
Qed.

(* every connection object the parent holds at the fork was created by the parent, and the parent - which fork() does not
   change - goes on using only its own connections, reusing the pooled one *)
Theorem parent_safe : forall p ops,
  Forall (own p) (log (run (init p) ops))
  /\ (forall c, pcon (run (init p) ops) = Some c -> creator c = p)
  /\ (forall c, ccon (run (init p) ops) = Some c -> creator c = p).
Proof.
  intros p ops. destruct (run_K p ops (init p) (J_init p)) as [[HJ Hown] [e [E F]]].
  split; [rewrite E; cbn; exact F|]. split; [exact Hown|].
  destruct HJ as (_ & Hc & _ & _). intros c H; apply (Hc c H).
Qed.

(* the child's first connect after the fork creates a connection (it never reuses the inherited pooled one) *)
Theorem child_first_query_creates : forall p q parent_ops c,
  p <> q ->
  let par := run (init p) parent_ops in
  ccon par = None -> pcon par = Some c ->
  log (run (fork par q) [OBegin; OQuery]) = [ECreate q (q, serial par + 1); EUse q (q, serial par + 1)]
  /\ forked (run (fork par q) [OBegin; OQuery]) = forked par ++ [(c, Some p)].
Proof.
  intros p q pops c Hne par Hnone Hpc.
  destruct (run_K p pops (init p) (J_init p)) as [[(Hp & _ & Hpool & _) Hown] _]. fold par in Hp, Hpool, Hown.
  pose proof (Hpool c Hpc) as Hpp. rewrite (Hown c Hpc) in Hpp.
  unfold run, fork; cbn [fold_left step pid pcon ppid forked ccon depthc serial log]. rewrite Hnone, Hpc, Hpp.
  rewrite (pool_connect_after_fork q p c _ _ Hne). cbn. split; reflexivity.
Qed.

(* ------------------------------------------------------------------ OraPool *)

(* OraPool.connect, every way it can end (SessionPool creation or acquire may raise): the recorded pid stays the creator of the
   pool it belongs to, and a connection that is handed out comes from a pool of the calling process *)
Lemma ora_connect_own : forall pool_ok acquire_ok q cx0 pid0 fk fresh,
  creator cx0 = pid0 -> creator fresh = q ->
  let '(c, cx', pid', fk', isnew) := ora_connect pool_ok acquire_ok q cx0 pid0 fk fresh in
  creator cx' = pid' /\ (forall k, c = Some k -> creator k = q /\ pid' = q).
Proof.
  intros pool_ok acquire_ok q cx0 pid0 fk fresh Hcx Hfresh. unfold ora_connect, acquire.
  destruct (pid0 =? q) eqn:E; cbn.
  - apply Z.eqb_eq in E. destruct acquire_ok; (split; [exact Hcx|]); intros k Hk; inversion Hk; subst; auto.
  - destruct pool_ok; [destruct acquire_ok|]; (split; [auto|]); intros k Hk; inversion Hk; subst; auto.
Qed.

Lemma ora_connect_after_fork : forall q p cx0 fk fresh,
  p <> q -> ora_connect true true q cx0 p fk fresh = (Some (acquire fresh), fresh, q, fk ++ [(cx0, p)], true).
Proof.
  intros q p cx0 fk fresh Hne. unfold ora_connect.
  destruct (p =? q) eqn:E; [apply Z.eqb_eq in E; contradiction|reflexivity].
Qed.

(* creating the child's SessionPool fails: the recorded pid stays the parent's, so the next connect tries again - the parent's pool is
   never used by the child *)
Lemma ora_connect_after_fork_pool_fails_then_retry : forall q p cx0 fk fresh acquire_ok,
  p <> q ->
  ora_connect false acquire_ok q cx0 p fk fresh = (None, cx0, p, fk ++ [(cx0, p)], false)
  /\ ora_connect true true q cx0 p (fk ++ [(cx0, p)]) fresh = (Some (acquire fresh), fresh, q, (fk ++ [(cx0, p)]) ++ [(cx0, p)], true).
Proof.
  intros q p cx0 fk fresh acquire_ok Hne. unfold ora_connect.
  destruct (p =? q) eqn:E; [apply Z.eqb_eq in E; contradiction|]. split; reflexivity.
Qed.

(* ------------------------------------------------------------------ the fork point where the property fails *)

(* fork while the parent's session already holds a connection: the child's copy of the session cache still has it, and the
   child's next statement goes out on it - Pool.connect, the only place that compares pids, is not on that path *)
Theorem child_live_session_uses_parent_connection : forall p q parent_ops c,
  let par := run (init p) parent_ops in
  ccon par = Some c ->
  creator c = p
  /\ log (run (fork par q) [OQuery]) = [EUse q c]
  /\ forked (run (fork par q) [OQuery]) = forked par.
Proof.
  intros p q pops c par Hc.
  destruct (parent_safe p pops) as (_ & _ & Hcc). fold par in Hcc.
  split; [apply Hcc; exact Hc|].
  destruct (run_K p pops (init p) (J_init p)) as [[(_ & _ & _ & Hd) _] _]. fold par in Hd.
  unfold run, fork; cbn [fold_left step pid pcon ppid forked ccon depthc serial log].
  destruct (depthc par) as [|d] eqn:E; [rewrite (Hd eq_refl) in Hc; discriminate Hc|].
  rewrite Hc. cbn. split; reflexivity.
Qed.

Lemma live_session_witness :
  let par := run (init 1) [OBegin; OQuery] in
  ccon par = Some (1, 1)
  /\ log (run (fork par 2) [OQuery; OEnd]) = [EUse 2 (1, 1); EUse 2 (1, 1); EUse 2 (1, 1)]
  /\ forallb (ownb 2) (log (run (fork par 2) [OQuery; OEnd])) = false.
Proof. vm_compute. repeat split; reflexivity. Qed.

(* the child's first connect attempt after the fork fails, the child tries again: the retry opens the child's own connection;
   the inherited one was parked at the failed attempt and is neither used nor handed out *)
Theorem child_failed_first_connect : forall p q parent_ops c,
  p <> q ->
  let par := run (init p) parent_ops in
  ccon par = None -> pcon par = Some c ->
  let ch := run (fork par q) [OBegin; OQueryFail] in
  pcon ch = None /\ ccon ch = None /\ log ch = [] /\ forked ch = forked par ++ [(c, Some p)]
  /\ log (run ch [OQuery]) = [ECreate q (q, serial par + 1); EUse q (q, serial par + 1)].
Proof.
  intros p q pops c Hne par Hnone Hpc.
  destruct (run_K p pops (init p) (J_init p)) as [[(Hp & _ & Hpool & _) Hown] _]. fold par in Hp, Hpool, Hown.
  pose proof (Hpool c Hpc) as Hpp. rewrite (Hown c Hpc) in Hpp.
  unfold run, fork; cbn [fold_left step pid pcon ppid forked ccon depthc serial log]. rewrite Hnone, Hpc, Hpp.
  rewrite (pool_connect_after_fork_failing q p c _ _ Hne). cbn. repeat split; reflexivity.
Qed.

(* ------------------------------------------------------------------ db.disconnect() in the child *)

(* with a pid check in Pool.disconnect the child may also call db.disconnect(): the inherited connection is parked, not closed *)
Lemma step_J_disconnect : forall q s,
  disconnect_checks_pid = true -> J q s ->
  J q (step s ODisconnect) /\ exists e, log (step s ODisconnect) = log s ++ e /\ Forall (own q) e.
Proof.
  intros q [p pc pp fk cc d sr lg] Hflag (Hp & Hc & Hpool & Hd); cbn in Hp, Hc, Hpool, Hd; subst p.
  cbn [step pid pcon ppid forked ccon depthc serial log].
  destruct d as [|d]; [|split; [apply mkJ; cbn; auto|nolog]].
  destruct pc as [k|]; [|split; [apply mkJ; cbn; auto|nolog]].
  rewrite Hflag. cbn [andb].
  destruct (optz_eqb pp (Some q)) eqn:E; cbn [negb].
  - apply optz_eqb_some in E. pose proof (Hpool k eq_refl) as Hk. rewrite E in Hk. inversion Hk as [Hcr].
    split.
    + apply mkJ; cbn; [reflexivity| |intros x Hx; discriminate Hx|exact Hd].
      intros x Hx. rewrite (Hd eq_refl) in Hx; discriminate Hx.
    + eexists; split; [reflexivity|]. repeat constructor.
  - split; [|nolog].
    apply mkJ; cbn; [reflexivity| |intros x Hx; discriminate Hx|exact Hd].
    intros x Hx. rewrite (Hd eq_refl) in Hx; discriminate Hx.
Qed.

Lemma run_J_all : forall q ops s,
  disconnect_checks_pid = true -> J q s ->
  J q (run s ops) /\ exists e, log (run s ops) = log s ++ e /\ Forall (own q) e.
Proof.
  intros q ops; induction ops as [|o ops IH]; intros s Hflag HJ.
  - cbn. split; [exact HJ|exists []; rewrite app_nil_r; auto].
  - change (run s (o :: ops)) with (run (step s o) ops).
    assert (H1 : J q (step s o) /\ exists e, log (step s o) = log s ++ e /\ Forall (own q) e).
    { destruct (is_session_op o) eqn:Ho; [apply step_J; assumption|].
      destruct o; cbn in Ho; try discriminate Ho. apply step_J_disconnect; assumption. }
    destruct H1 as [HJ1 [e1 [E1 F1]]].
    destruct (IH (step s o) Hflag HJ1) as [HJ2 [e2 [E2 F2]]].
    split; [exact HJ2|]. exists (e1 ++ e2). rewrite E2, E1, app_assoc. split; [reflexivity|apply Forall_app; auto].
Qed.

Theorem child_safe_with_disconnect : forall p q parent_ops child_ops,
  disconnect_checks_pid = true ->
  let par := run (init p) parent_ops in
  ccon par = None ->
  Forall (own q) (log (run (fork par q) child_ops)).
Proof.
  intros p q pops cops Hflag par Hnone.
  destruct (run_K p pops (init p) (J_init p)) as [[HJ _] _].
  pose proof (J_fork p q par HJ Hnone) as HJq.
  destruct (run_J_all q cops (fork par q) Hflag HJq) as [_ [e [E F]]].
  rewrite E. cbn. exact F.
Qed.

(* Pool.disconnect as read from the source on this run compares pids; if that stops being the case this lemma - and with it the
   property theorem C36_child_with_disconnect - no longer checks *)
Lemma src_disconnect_checks_pid : disconnect_checks_pid = true.
Proof. reflexivity. Qed.

Theorem child_safe_all_ops : forall p q parent_ops child_ops,
  let par := run (init p) parent_ops in
  ccon par = None ->
  Forall (own q) (log (run (fork par q) child_ops)).
Proof. intros p q pops cops. exact (child_safe_with_disconnect p q pops cops src_disconnect_checks_pid). Qed.

(* the child's db.disconnect() right after a fork with a pooled connection: the inherited object is parked, nothing is closed *)
Lemma child_disconnect_parks :
  let par := run (init 1) [OBegin; OQuery; OEnd] in
  log (run (fork par 2) [ODisconnect]) = [] /\ forked (run (fork par 2) [ODisconnect]) = [((1, 1), Some 1)]
  /\ pcon (run (fork par 2) [ODisconnect]) = None.
Proof. vm_compute. repeat split; reflexivity. Qed.

(* what an unchecked Pool.disconnect does (kept as a conditional lemma): *)
(* as Pool.disconnect is now (no pid check): the child's db.disconnect() closes the connection object the parent created *)
Lemma child_disconnect_witness :
  if disconnect_checks_pid then True
  else let par := run (init 1) [OBegin; OQuery; OEnd] in
       ccon par = None /\ log (run (fork par 2) [ODisconnect]) = [EClose 2 (1, 1)].
Proof. vm_compute; first [exact I | split; reflexivity]. Qed.
