(* C09, flush completeness at the level of statuses: if every object that has to be saved (status created / modified /
   marked_to_delete) sits in objects_to_save at its _save_pos_ (Jq), a flush that succeeds leaves no such object behind.
   Jq itself is NOT proved for all histories here: the code violates it at the dirty sites (known findings queue-not-queued@...);
   on the implementation it is checked after every operation of every generated history (oracle queue-not-queued). *)
Require Import PonyV.Model.SessionBase PonyV.Model.SessionDb PonyV.Model.Session.
Require Import PonyV.Proofs.SessionLemmas PonyV.Proofs.SessionState.
From Coq Require Import Arith.

Definition pending (st : status) : bool := match st with SCreated | SModified | SMarked => true | _ => false end.

Definition Jq (s : sess) : Prop :=
  forall o ob, get_obj s o = Some ob -> pending (o_st ob) = true -> exists p, o_pos ob = Some p /\ nth p (s_tosave s) None = Some o.

(* objects that are pending afterwards were pending before, at the same position *)
Definition qb (s s' : sess) : Prop :=
  forall o ob', get_obj s' o = Some ob' -> pending (o_st ob') = true ->
    exists ob, get_obj s o = Some ob /\ pending (o_st ob) = true /\ o_pos ob' = o_pos ob.

Lemma qb_refl : forall s, qb s s.
Proof. intros s o ob G P. exists ob. auto. Qed.

Lemma qb_trans : forall s1 s2 s3, qb s1 s2 -> qb s2 s3 -> qb s1 s3.
Proof.
  intros s1 s2 s3 A B o ob3 G P. destruct (B o ob3 G P) as (ob2 & G2 & P2 & E2). destruct (A o ob2 G2 P2) as (ob1 & G1 & P1 & E1).
  exists ob1. repeat split; auto. congruence.
Qed.

(* what the three save functions do to the object store and the queue *)
Definition leaf (s1 s2 : sess) (o : oid) : Prop :=
  s_tosave s2 = s_tosave s1 /\ (forall o', o' <> o -> get_obj s2 o' = get_obj s1 o') /\
  (forall ob2, get_obj s2 o = Some ob2 -> pending (o_st ob2) = false /\ exists ob1, get_obj s1 o = Some ob1 /\ o_pos ob2 = o_pos ob1).

Lemma leaf_upd : forall s S o g, s_tosave S = s_tosave s -> (forall o', get_obj S o' = get_obj s o') ->
  (forall ob, pending (o_st (g ob)) = false /\ o_pos (g ob) = o_pos ob) -> leaf s (upd_obj S o g) o.
Proof.
  intros s S o g T G H. repeat split.
  - rewrite upd_obj_tosave. exact T.
  - intros o' N. rewrite get_upd_obj_other by auto. apply G.
  - rewrite get_upd_obj_same in H0. rewrite G in H0. destruct (get_obj s o) as [ob|]; [|discriminate]. inversion H0. apply H.
  - rewrite get_upd_obj_same in H0. rewrite G in H0. destruct (get_obj s o) as [ob|] eqn:E; [|discriminate]. inversion H0.
    exists ob. split; auto. apply H.
Qed.

Lemma after_insert_vals_st : forall sch ob, o_st (after_insert_vals sch ob) = o_st ob /\ o_pos (after_insert_vals sch ob) = o_pos ob.
Proof.
  intros sch ob. unfold after_insert_vals. generalize (seq 0 (nattrs sch (o_ent ob))). intro l.
  assert (H : forall acc, o_st (fold_left (fun acc a => if attr_is_set sch (o_ent ob) a then acc else
              match oval acc a with Some VNone => ob_put_dbval (ob_put_val acc a None) a None | Some v => ob_put_dbval acc a (Some v) | None => acc end) l acc) = o_st acc /\
            o_pos (fold_left (fun acc a => if attr_is_set sch (o_ent ob) a then acc else
              match oval acc a with Some VNone => ob_put_dbval (ob_put_val acc a None) a None | Some v => ob_put_dbval acc a (Some v) | None => acc end) l acc) = o_pos acc).
  { induction l as [|a t IH]; intros acc; simpl. auto.
    destruct (attr_is_set sch (o_ent ob) a). apply IH.
    destruct (oval acc a) as [[| | |]|]; try apply IH;
    match goal with |- context [fold_left _ t ?x] => destruct (IH x) as [A B]; rewrite A, B; split; reflexivity end. }
  apply H.
Qed.

Lemma after_update_vals_st : forall sch ob, o_st (after_update_vals sch ob) = o_st ob /\ o_pos (after_update_vals sch ob) = o_pos ob.
Proof.
  intros sch ob. unfold after_update_vals. generalize (seq 0 (nattrs sch (o_ent ob))). intro l.
  assert (H : forall acc, o_st (fold_left (fun acc a => if owbit ob a then match oval acc a with Some v => ob_put_dbval acc a (Some v) | None => acc end else acc) l acc) = o_st acc /\
                          o_pos (fold_left (fun acc a => if owbit ob a then match oval acc a with Some v => ob_put_dbval acc a (Some v) | None => acc end else acc) l acc) = o_pos acc).
  { induction l as [|a t IH]; intros acc; simpl. auto.
    destruct (owbit ob a); [|apply IH]. destruct (oval acc a); [|apply IH].
    match goal with |- context [fold_left _ t ?x] => destruct (IH x) as [A B]; rewrite A, B; split; reflexivity end. }
  apply H.
Qed.

Lemma leaf_save_created : forall sch s o s' u, save_created sch s o = Ok s' u -> leaf s s' o.
Proof.
  intros sch s o s' u H. unfold save_created in H. destruct (get_obj s o) as [ob|] eqn:G; [|discriminate].
  destruct (negb (status_eqb (o_st ob) SCreated)); [discriminate|]. cbv zeta in H.
  destruct (db_insert sch (s_db s) (o_ent ob) (o_pk ob) (row_of_obj sch s ob)) as [[| |]|[d' newpk]]; try discriminate.
  assert (L : forall S, s_tosave S = s_tosave s -> (forall o', get_obj S o' = get_obj s o') ->
            leaf s (upd_obj S o (fun ob2 => after_insert_vals sch (ob_set_wbits (ob_set_st (ob_set_pk ob2 (Some newpk)) SInserted) (repeat false (nattrs sch (o_ent ob)))))) o).
  { intros S T GG. apply leaf_upd; auto. intros ob0. destruct (after_insert_vals_st sch (ob_set_wbits (ob_set_st (ob_set_pk ob0 (Some newpk)) SInserted) (repeat false (nattrs sch (o_ent ob))))) as [A B].
    rewrite A, B. split; reflexivity. }
  destruct (o_pk ob).
  - inversion H. apply L; reflexivity.
  - destruct (idx_get (set_db s d') (o_ent ob) 0 (VInt newpk)) as [o2|].
    + destruct (Nat.eqb o2 o); [|discriminate]. inversion H. apply L; reflexivity.
    + inversion H. apply L; reflexivity.
Qed.

Lemma leaf_save_updated : forall sch s o s' u, save_updated sch s o = Ok s' u -> leaf s s' o.
Proof.
  intros sch s o s' u H. unfold save_updated in H. destruct (get_obj s o) as [ob|] eqn:G; [|discriminate].
  destruct (negb (status_eqb (o_st ob) SModified)); [discriminate|]. cbv zeta in H.
  destruct (existsb _ _); [discriminate|].
  assert (L : forall S, s_tosave S = s_tosave s -> (forall o', get_obj S o' = get_obj s o') ->
            leaf s (upd_obj S o (fun ob2 => ob_set_wbits (ob_set_st (after_update_vals sch ob2) SUpdated) (repeat false (nattrs sch (o_ent ob))))) o).
  { intros S T GG. apply leaf_upd; auto. intros ob0. destruct (after_update_vals_st sch ob0) as [A B]. split. reflexivity. exact B. }
  destruct (written_asg sch s ob) as [|p asg].
  - inversion H. apply L; reflexivity.
  - destruct (o_pk ob) as [pk|]; [|discriminate].
    destruct (db_update sch (s_db s) (o_ent ob) pk (p :: asg)) as [[| |]|d']; try discriminate.
    inversion H. apply L; reflexivity.
Qed.

Lemma leaf_save_deleted : forall sch s o s' u, save_deleted sch s o = Ok s' u -> leaf s s' o.
Proof.
  intros sch s o s' u H. unfold save_deleted in H. destruct (get_obj s o) as [ob|] eqn:G; [|discriminate].
  destruct (negb (status_eqb (o_st ob) SMarked)); [discriminate|].
  destruct (o_pk ob) as [pk|]; [|discriminate].
  destruct (db_delete sch (s_db s) (o_ent ob) pk) as [er|d']; [discriminate|]. inversion H.
  pose proof (leaf_upd s (set_db s d') o (fun ob2 => ob_set_st ob2 SDeleted) eq_refl (fun _ => eq_refl)) as L.
  destruct L as (L1 & L2 & L3). { intros ob0. split; reflexivity. }
  repeat split.
  - exact L1.
  - intros o' N. exact (L2 o' N).
  - exact (proj1 (L3 ob2 H0)).
  - exact (proj2 (L3 ob2 H0)).
Qed.

(* a save function keeps Jq and qb *)
Lemma leaf_Jq : forall s1 s2 o, leaf s1 s2 o -> Jq s1 -> Jq s2 /\ qb s1 s2.
Proof.
  intros s1 s2 o (T & O & N) J. split.
  - intros o' ob' G P. destruct (Nat.eq_dec o' o) as [->|D].
    + destruct (N ob' G) as [X _]. congruence.
    + rewrite (O o' D) in G. rewrite T. apply (J o' ob' G P).
  - intros o' ob' G P. destruct (Nat.eq_dec o' o) as [->|D].
    + destruct (N ob' G) as [X _]. congruence.
    + rewrite (O o' D) in G. exists ob'. auto.
Qed.

Definition nonpending_at (s : sess) (o : oid) : Prop := forall ob, get_obj s o = Some ob -> pending (o_st ob) = false.

Lemma qb_nonpending : forall s s' o, qb s s' -> nonpending_at s o -> nonpending_at s' o.
Proof.
  intros s s' o Q N ob G. destruct (pending (o_st ob)) eqn:P; auto.
  destruct (Q o ob G P) as (ob0 & G0 & P0 & _). rewrite (N ob0 G0) in P0. discriminate.
Qed.

Lemma save_principals_Jq : forall (rec : sess -> oid -> out unit) ob l s0 s1 u,
  (forall s p s' u', Jq s -> rec s p = Ok s' u' -> Jq s' /\ qb s s') ->
  Jq s0 -> save_principals rec ob s0 l = Ok s1 u -> Jq s1 /\ qb s0 s1.
Proof.
  induction l as [|a t IH]; intros s0 s1 u R J H; simpl in H.
  - inversion H; subst. split; auto. apply qb_refl.
  - destruct (oval ob a) as [[| | |p]|]; try (apply (IH s0 s1 u R J H)).
    destruct (status_eqb (obj_st s0 p) SCreated); [|apply (IH s0 s1 u R J H)].
    destruct (rec s0 p) as [s2 u2|s2 er] eqn:E; [|discriminate].
    destruct (R s0 p s2 u2 J E) as [J2 Q2]. destruct (IH s2 s1 u R J2 H) as [J1 Q1].
    split; auto. eapply qb_trans; eauto.
Qed.

Lemma save_obj_Jq : forall sch fuel s o deps s' u, Jq s -> save_obj fuel sch s o deps = Ok s' u ->
  Jq s' /\ qb s s' /\ nonpending_at s' o.
Proof.
  induction fuel as [|f IH]; intros s o deps s' u J H; simpl in H. discriminate.
  destruct (get_obj s o) as [ob|] eqn:G; [|discriminate].
  match type of H with match ?r0 with _ => _ end = _ => destruct r0 as [s1 u1|s1 er] eqn:R0; [|discriminate] end.
  assert (A1 : Jq s1 /\ qb s s1).
  { destruct (status_eqb (o_st ob) SCreated || status_eqb (o_st ob) SModified).
    - destruct (mem_nat o deps); [discriminate|].
      eapply save_principals_Jq; [|exact J|exact R0].
      intros s0 p s0' u0 J0 E0. destruct (IH s0 p (deps ++ [o]) s0' u0 J0 E0) as (X & Y & _). auto.
    - inversion R0; subst. split; auto. apply qb_refl. }
  destruct A1 as [J1 Q1].
  match type of H with match ?r1 with _ => _ end = _ => destruct r1 as [s2 u2|s2 er] eqn:R1; [|discriminate] end.
  assert (L : leaf s1 s2 o).
  { destruct (o_st ob); try discriminate R1.
    - eapply leaf_save_created; eauto.
    - eapply leaf_save_updated; eauto.
    - eapply leaf_save_deleted; eauto. }
  destruct (leaf_Jq s1 s2 o L J1) as [J2 Q2]. destruct L as (T & O & N).
  inversion H; subst s'. clear H.
  set (pos := match get_obj s2 o with Some ob2 => o_pos ob2 | None => None end).
  assert (GO : forall o', o' <> o -> get_obj (set_savedpend (upd_obj (unqueue_slot s2 pos) o (fun ob2 => ob_set_pos ob2 None)) true) o' = get_obj s2 o').
  { intros o' D. change (get_obj (upd_obj (unqueue_slot s2 pos) o (fun ob2 => ob_set_pos ob2 None)) o' = get_obj s2 o').
    rewrite get_upd_obj_other by auto. unfold unqueue_slot. destruct pos; reflexivity. }
  assert (GS : forall ob3, get_obj (set_savedpend (upd_obj (unqueue_slot s2 pos) o (fun ob2 => ob_set_pos ob2 None)) true) o = Some ob3 ->
               exists ob2, get_obj s2 o = Some ob2 /\ o_st ob3 = o_st ob2).
  { intros ob3 G3. change (get_obj (upd_obj (unqueue_slot s2 pos) o (fun ob2 => ob_set_pos ob2 None)) o = Some ob3) in G3.
    rewrite get_upd_obj_same in G3. assert (E : get_obj (unqueue_slot s2 pos) o = get_obj s2 o) by (unfold unqueue_slot; destruct pos; reflexivity).
    rewrite E in G3. destruct (get_obj s2 o) as [ob2|]; [|discriminate]. inversion G3. exists ob2. split; reflexivity. }
  assert (NP : nonpending_at (set_savedpend (upd_obj (unqueue_slot s2 pos) o (fun ob2 => ob_set_pos ob2 None)) true) o).
  { intros ob3 G3. destruct (GS ob3 G3) as (ob2 & G2 & E). rewrite E. apply (N ob2 G2). }
  split; [|split].
  - (* Jq *)
    intros o' ob' G' P'. destruct (Nat.eq_dec o' o) as [->|D]. rewrite (NP ob' G') in P'. discriminate.
    rewrite (GO o' D) in G'. destruct (J2 o' ob' G' P') as (p' & PP & SL). exists p'. split; auto.
    change (nth p' (s_tosave (upd_obj (unqueue_slot s2 pos) o (fun ob2 => ob_set_pos ob2 None))) None = Some o').
    rewrite upd_obj_tosave. unfold unqueue_slot. destruct pos as [p|] eqn:EP; [|exact SL].
    cbn [set_tosave s_tosave]. destruct (Nat.eq_dec p p') as [->|NE]; [|rewrite nth_upd_nth_other by auto; exact SL].
    (* the slot of the saved object is its own: it was pending in s1 *)
    exfalso. unfold pos in EP. destruct (get_obj s2 o) as [ob2|] eqn:G2; [|discriminate].
    destruct (N ob2 eq_refl) as (_ & ob1 & G1 & E1).
    assert (P1 : pending (o_st ob1) = true).
    { destruct (o_st ob) eqn:ST; try discriminate R1.
      - unfold save_created in R1. rewrite G1 in R1. destruct (status_eqb (o_st ob1) SCreated) eqn:X; [|discriminate R1]. destruct (o_st ob1); try discriminate X; reflexivity.
      - unfold save_updated in R1. rewrite G1 in R1. destruct (status_eqb (o_st ob1) SModified) eqn:X; [|discriminate R1]. destruct (o_st ob1); try discriminate X; reflexivity.
      - unfold save_deleted in R1. rewrite G1 in R1. destruct (status_eqb (o_st ob1) SMarked) eqn:X; [|discriminate R1]. destruct (o_st ob1); try discriminate X; reflexivity. }
    destruct (J1 o ob1 G1 P1) as (p1 & PP1 & SL1). rewrite T in SL. rewrite E1 in EP. rewrite PP1 in EP. inversion EP; subst p1. congruence.
  - (* qb *)
    eapply qb_trans; [exact Q1|]. eapply qb_trans; [exact Q2|].
    intros o' ob' G' P'. destruct (Nat.eq_dec o' o) as [->|D]. rewrite (NP ob' G') in P'. discriminate.
    rewrite (GO o' D) in G'. exists ob'. auto.
  - exact NP.
Qed.

(* every pending object sits at a position >= i *)
Definition Done (s : sess) (i : nat) : Prop :=
  forall o ob p, get_obj s o = Some ob -> pending (o_st ob) = true -> o_pos ob = Some p -> (i <= p)%nat.

Lemma qb_Done : forall s s' i, qb s s' -> Done s i -> Done s' i.
Proof.
  intros s s' i Q D o ob p G P E. destruct (Q o ob G P) as (ob0 & G0 & P0 & E0). apply (D o ob0 p G0 P0). congruence.
Qed.

Lemma flush_loop_Done : forall sch n i s s' u, Jq s -> Done s i ->
  flush_loop sch s (seq i n) = Ok s' u -> Jq s' /\ Done s' (i + n).
Proof.
  induction n as [|n IH]; intros i s s' u J D H; cbn [seq flush_loop] in H.
  - inversion H; subst. rewrite Nat.add_0_r. auto.
  - replace (i + S n)%nat with (S i + n)%nat by lia.
    destruct (nth i (s_tosave s) None) as [o|] eqn:SL.
    + destruct (save_obj (S (length (s_objs s))) sch s o []) as [s1 u1|s1 er] eqn:SV; [|discriminate].
      destruct (save_obj_Jq sch _ s o [] s1 u1 J SV) as (J1 & Q1 & NP).
      apply (IH (S i) s1 s' u J1); [|exact H].
      intros o' ob' p G' P' E'. pose proof (qb_Done s s1 i Q1 D o' ob' p G' P' E') as LE.
      destruct (Nat.eq_dec p i) as [->|NE]; [|lia]. exfalso.
      destruct (Q1 o' ob' G' P') as (ob0 & G0 & P0 & E0). destruct (J o' ob0 G0 P0) as (p0 & PP0 & SL0).
      assert (p0 = i) by congruence. subst p0. rewrite SL in SL0. inversion SL0; subst o'.
      rewrite (NP ob' G') in P'. discriminate.
    + apply (IH (S i) s s' u J); [|exact H].
      intros o' ob' p G' P' E'. pose proof (D o' ob' p G' P' E') as LE.
      destruct (Nat.eq_dec p i) as [->|NE]; [|lia]. exfalso.
      destruct (J o' ob' G' P') as (p0 & PP0 & SL0). assert (p0 = i) by congruence. subst p0. congruence.
Qed.

Lemma calc_modcoll_frame : forall s, s_tosave (calc_modcoll s) = s_tosave s /\
  forall o, match get_obj (calc_modcoll s) o, get_obj s o with
            | Some a, Some b => o_st a = o_st b /\ o_pos a = o_pos b
            | None, None => True
            | _, _ => False
            end.
Proof.
  intros s. unfold calc_modcoll. cbn [set_modcoll s_tosave].
  assert (H : forall l acc, s_tosave (fold_left (fun acc p => upd_obj acc (fst p) (fun ob => match oset ob (snd p) with
                 | Some sd => ob_put_set ob (snd p) (Some (mkSd (sd_items sd) [] [] (sd_full sd) (sd_count sd))) | None => ob end)) l acc) = s_tosave acc /\
               forall o, match get_obj (fold_left (fun acc p => upd_obj acc (fst p) (fun ob => match oset ob (snd p) with
                 | Some sd => ob_put_set ob (snd p) (Some (mkSd (sd_items sd) [] [] (sd_full sd) (sd_count sd))) | None => ob end)) l acc) o, get_obj acc o with
                         | Some a, Some b => o_st a = o_st b /\ o_pos a = o_pos b | None, None => True | _, _ => False end).
  { induction l as [|p t IH]; intros acc; simpl.
    - split; auto. intros o. destruct (get_obj acc o); auto.
    - match goal with |- context [fold_left _ t ?x] => destruct (IH x) as [A B] end. split.
      + rewrite A. apply upd_obj_tosave.
      + intros o. specialize (B o). rewrite get_upd_obj in B. destruct (Nat.eqb (fst p) o).
        * destruct (get_obj acc o) as [b|]; simpl in B.
          -- match type of B with match ?x with _ => _ end => destruct x as [a|]; [|contradiction] end.
             destruct B as [B1 B2]. rewrite B1, B2. destruct (oset b (snd p)); split; reflexivity.
          -- exact B.
        * exact B. }
  destruct (H (s_modcoll s) s) as [A B]. split. exact A.
  intros o. change (get_obj (set_modcoll (fold_left (fun acc p => upd_obj acc (fst p) (fun ob => match oset ob (snd p) with
                 | Some sd => ob_put_set ob (snd p) (Some (mkSd (sd_items sd) [] [] (sd_full sd) (sd_count sd))) | None => ob end)) (s_modcoll s) s) []) o)
    with (get_obj (fold_left (fun acc p => upd_obj acc (fst p) (fun ob => match oset ob (snd p) with
                 | Some sd => ob_put_set ob (snd p) (Some (mkSd (sd_items sd) [] [] (sd_full sd) (sd_count sd))) | None => ob end)) (s_modcoll s) s) o).
  apply B.
Qed.

Lemma save_principals_len : forall (rec : sess -> oid -> out unit) ob l s0 s1 u,
  (forall s p s' u', rec s p = Ok s' u' -> length (s_tosave s') = length (s_tosave s)) ->
  save_principals rec ob s0 l = Ok s1 u -> length (s_tosave s1) = length (s_tosave s0).
Proof.
  induction l as [|a t IH]; intros s0 s1 u R H; simpl in H. inversion H; reflexivity.
  destruct (oval ob a) as [[| | |p]|]; try (apply (IH _ _ _ R H)).
  destruct (status_eqb (obj_st s0 p) SCreated); [|apply (IH _ _ _ R H)].
  destruct (rec s0 p) as [sm um|sm em] eqn:E; [|discriminate].
  rewrite (IH _ _ _ R H). apply (R _ _ _ _ E).
Qed.

Lemma save_obj_len : forall sch fuel s o deps s' u, save_obj fuel sch s o deps = Ok s' u -> length (s_tosave s') = length (s_tosave s).
Proof.
  induction fuel as [|f IH]; intros s o deps s' u H; simpl in H. discriminate.
  destruct (get_obj s o) as [ob|]; [|discriminate].
  match type of H with match ?r0 with _ => _ end = _ => destruct r0 as [s1 u1|s1 er] eqn:R0; [|discriminate] end.
  assert (L1 : length (s_tosave s1) = length (s_tosave s)).
  { destruct (status_eqb (o_st ob) SCreated || status_eqb (o_st ob) SModified).
    - destruct (mem_nat o deps); [discriminate|]. eapply save_principals_len; [|exact R0]. intros s0 p s0' u0 E. apply (IH _ _ _ _ _ E).
    - inversion R0; reflexivity. }
  match type of H with match ?r1 with _ => _ end = _ => destruct r1 as [s2 u2|s2 er2] eqn:R1; [|discriminate] end.
  assert (L2 : s_tosave s2 = s_tosave s1).
  { destruct (o_st ob); try discriminate R1.
    - apply (leaf_save_created _ _ _ _ _ R1).
    - apply (leaf_save_updated _ _ _ _ _ R1).
    - apply (leaf_save_deleted _ _ _ _ _ R1). }
  inversion H. cbn [set_savedpend s_tosave]. rewrite upd_obj_tosave. unfold unqueue_slot.
  destruct (match get_obj s2 o with Some ob2 => o_pos ob2 | None => None end); cbn [set_tosave s_tosave]; [rewrite upd_nth_length|]; congruence.
Qed.

Lemma flush_loop_len : forall sch l s0 s1 u0, flush_loop sch s0 l = Ok s1 u0 -> length (s_tosave s1) = length (s_tosave s0).
Proof.
  induction l as [|i t IH]; intros s0 s1 u0 F; cbn [flush_loop] in F. inversion F; reflexivity.
  destruct (nth i (s_tosave s0) None) as [o0|]; [|apply (IH _ _ _ F)].
  destruct (save_obj (S (length (s_objs s0))) sch s0 o0 []) as [sa ua|sa ea] eqn:SV; [|discriminate].
  rewrite (IH _ _ _ F). apply (save_obj_len _ _ _ _ _ _ _ SV).
Qed.

(* C09: a flush that succeeds leaves no object with something to save, provided every such object was queued *)
Theorem flush_saves_every_queued_object : forall sch s s' u, Jq s -> flush sch s = Ok s' u -> s_modified s = true ->
  forall o ob, get_obj s' o = Some ob -> pending (o_st ob) = false.
Proof.
  intros sch s s' u J H M o ob G. unfold flush in H. destruct (s_savedpend s); [discriminate|]. rewrite M in H. cbn [negb] in H.
  match type of H with (if ?c then _ else _) = _ => destruct c; [discriminate|] end. cbv zeta in H.
  destruct (flush_loop sch (calc_modcoll s) (seq 0 (length (s_tosave (calc_modcoll s))))) as [s2 u2|s2 er] eqn:FL; [|discriminate].
  destruct (calc_modcoll_frame s) as [CT CO].
  assert (J0 : Jq (calc_modcoll s)).
  { intros o0 ob0 G0 P0. specialize (CO o0). rewrite G0 in CO. destruct (get_obj s o0) as [b|] eqn:GB; [|contradiction].
    destruct CO as [C1 C2]. rewrite C1 in P0. destruct (J o0 b GB P0) as (p & PP & SL). exists p. rewrite C2, CT. auto. }
  assert (D0 : Done (calc_modcoll s) 0) by (intros ? ? ? ? ? ?; lia).
  destruct (flush_loop_Done sch _ 0 _ s2 u2 J0 D0 FL) as [J2 D2]. rewrite Nat.add_0_l in D2.
  inversion H; subst s'. clear H.
  change (get_obj s2 o = Some ob) in G.
  destruct (pending (o_st ob)) eqn:P; auto. exfalso.
  destruct (J2 o ob G P) as (p & PP & SL). pose proof (D2 o ob p G P PP) as LE.
  assert (LT : (p < length (s_tosave s2))%nat).
  { destruct (lt_dec p (length (s_tosave s2))); auto. rewrite nth_overflow in SL by lia. discriminate. }
  rewrite (flush_loop_len _ _ _ _ _ FL) in LT. lia.
Qed.
