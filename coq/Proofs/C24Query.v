(* C24 - query methods against list semantics, over the model of Model/C24Query.v.  Every statement is for all row lists,
   all predicates, all sort keys, all non-negative windows. *)
Require Import PonyV.Base.PyBase PonyV.Base.Seg PonyV.Gen.C24Window PonyV.Model.C24Query PonyV.Proofs.SegLemmas PonyV.Proofs.C24Window.
From Coq Require Import ZifyBool Permutation.

(* ------------------------------------------------------------------------------------------------ lexicographic order on key vectors *)

Lemma lex_leb_total a : forall b, lex_leb a b = false -> lex_leb b a = true.
Proof.
  induction a as [|x a IH]; intros [|y b] H; cbn [lex_leb] in *; try discriminate; try reflexivity.
  destruct (x <? y) eqn:E1, (x =? y) eqn:E2; cbn [orb andb] in H; try discriminate.
  - assert (y = x) by lia. subst y. rewrite (IH b H). rewrite Z.eqb_refl. cbn. now rewrite orb_true_r.
  - assert (y <? x = true) by lia. now rewrite H0.
Qed.

Lemma lex_leb_trans a : forall b c, lex_leb a b = true -> lex_leb b c = true -> lex_leb a c = true.
Proof.
  induction a as [|x a IH]; intros [|y b] [|z c] H1 H2; cbn [lex_leb] in *; try discriminate; try reflexivity.
  destruct (x <? y) eqn:E1, (y <? z) eqn:E2; cbn [orb] in *.
  - assert (x <? z = true) by lia. now rewrite H.
  - destruct (y =? z) eqn:E3; cbn [andb] in H2; try discriminate. assert (x <? z = true) by lia. now rewrite H.
  - destruct (x =? y) eqn:E3; cbn [andb] in H1; try discriminate. assert (x <? z = true) by lia. now rewrite H.
  - destruct (x =? y) eqn:E3, (y =? z) eqn:E4; cbn [andb] in *; try discriminate.
    assert (x =? z = true) by lia. rewrite H, (IH _ _ H1 H2). cbn. now rewrite orb_true_r.
Qed.

Lemma lex_leb_refl a : lex_leb a a = true.
Proof. induction a as [|x a IH]; cbn; [reflexivity|]. rewrite Z.eqb_refl, IH. cbn. now rewrite orb_true_r. Qed.

(* ------------------------------------------------------------------------------------------------ sorting *)

Section Sorting.
Context {A : Type}.
Variable ks : list (A -> Z).
Notation le := (row_leb ks).
Notation insert := (insert ks).
Notation isort := (isort ks).

Lemma le_total x y : le x y = false -> le y x = true.
Proof. apply lex_leb_total. Qed.
Lemma le_trans x y z : le x y = true -> le y z = true -> le x z = true.
Proof. apply lex_leb_trans. Qed.

Lemma insert_perm x l : Permutation (insert x l) (x :: l).
Proof.
  induction l as [|y l IH]; cbn [C24Query.insert]; [reflexivity|].
  destruct (le x y); [reflexivity|]. rewrite IH. apply perm_swap.
Qed.
Lemma isort_perm l : Permutation (isort l) l.
Proof. induction l as [|x l IH]; cbn [C24Query.isort]; [reflexivity|]. rewrite insert_perm. now constructor. Qed.

(* strongly sorted: every element is <= all later ones *)
Fixpoint ssorted (l : list A) : Prop :=
  match l with [] => True | x :: r => Forall (fun z => le x z = true) r /\ ssorted r end.

Lemma insert_Forall (P : A -> Prop) x l : P x -> Forall P l -> Forall P (insert x l).
Proof. intros Hx Hl. eapply Permutation_Forall; [symmetry; apply insert_perm|]. now constructor. Qed.

Lemma insert_sorted x l : ssorted l -> ssorted (insert x l).
Proof.
  induction l as [|y l IH]; cbn [C24Query.insert ssorted]; [auto|]. intros [Hy Hl].
  destruct (le x y) eqn:E; cbn [ssorted].
  - split; [|auto]. constructor; [exact E|]. eapply Forall_impl; [|exact Hy]. cbn. intros z Hz. eapply le_trans; eauto.
  - split; [|auto]. apply insert_Forall; [now apply le_total | exact Hy].
Qed.
Lemma isort_sorted l : ssorted (isort l).
Proof. induction l as [|x l IH]; cbn [C24Query.isort]; [exact I|]. now apply insert_sorted. Qed.

Lemma insert_le_all x l : Forall (fun z => le x z = true) l -> insert x l = x :: l.
Proof. destruct l as [|y l]; [reflexivity|]. intros H. inversion H; subst. cbn [C24Query.insert]. now rewrite H2. Qed.

Lemma Forall_filter (P : A -> Prop) p l : Forall P l -> Forall P (filter p l).
Proof. induction 1; cbn; [constructor|]. destruct (p x); [constructor|]; auto. Qed.

Lemma filter_insert p x l : ssorted l ->
  filter p (insert x l) = if p x then insert x (filter p l) else filter p l.
Proof.
  induction l as [|y l IH]; cbn [C24Query.insert ssorted].
  - intros _. cbn. now destruct (p x).
  - intros [Hy Hl]. destruct (le x y) eqn:E.
    + cbn [filter]. destruct (p x) eqn:Px; [|reflexivity].
      symmetry. apply insert_le_all.
      assert (Hall : Forall (fun z => le x z = true) (y :: l)).
      { constructor; [exact E|]. eapply Forall_impl; [|exact Hy]. cbn. intros z Hz. eapply le_trans; eauto. }
      change (if p y then y :: filter p l else filter p l) with (filter p (y :: l)). now apply Forall_filter.
    + cbn [filter]. rewrite (IH Hl). destruct (p x) eqn:Px, (p y) eqn:Py; cbn [C24Query.insert]; rewrite ?E; reflexivity.
Qed.

(* a stable sort commutes with filtering *)
Lemma filter_isort p l : filter p (isort l) = isort (filter p l).
Proof.
  induction l as [|x l IH]; cbn [C24Query.isort filter]; [reflexivity|].
  rewrite filter_insert by apply isort_sorted. rewrite IH. now destruct (p x).
Qed.

Lemma ssorted_hd_min l x : ssorted l -> hd_error l = Some x -> forall y, In y l -> le x y = true.
Proof.
  destruct l as [|z l]; [discriminate|]. cbn. intros [Hz _] E y [->|Hy]; inversion E; subst.
  - apply lex_leb_refl.
  - rewrite Forall_forall in Hz. now apply Hz.
Qed.

End Sorting.

Lemma isort_nil_keys {A} (l : list A) : isort [] l = l.
Proof.
  induction l as [|x l IH]; cbn [isort]; [reflexivity|]. rewrite IH. destruct l; reflexivity.
Qed.

(* ------------------------------------------------------------------------------------------------ DISTINCT *)

Section Dedup.
Context {A : Type}.
Variable eqb : A -> A -> bool.
Hypothesis eqb_spec : forall x y, eqb x y = true <-> x = y.
Notation remove_all := (remove_all eqb).
Notation dedup := (dedup eqb).

Lemma eqb_refl x : eqb x x = true.
Proof. now apply eqb_spec. Qed.

Lemma In_remove_all x y l : In y (remove_all x l) <-> In y l /\ y <> x.
Proof.
  induction l as [|z l IH]; cbn; [tauto|]. destruct (eqb x z) eqn:E.
  - apply eqb_spec in E. subst z. rewrite IH. intuition congruence.
  - assert (x <> z) by (intros ->; rewrite eqb_refl in E; discriminate). cbn. rewrite IH. intuition congruence.
Qed.
Lemma In_dedup y l : In y (dedup l) <-> In y l.
Proof.
  induction l as [|x l IH]; cbn; [tauto|]. rewrite In_remove_all, IH.
  split; [tauto|]. intros [->|H]; [tauto|]. destruct (eqb x y) eqn:E; [apply eqb_spec in E; auto|].
  right. split; [assumption|]. intros ->. rewrite eqb_refl in E. discriminate.
Qed.
Lemma NoDup_remove_all x l : NoDup l -> NoDup (remove_all x l).
Proof.
  induction 1 as [|z l Hz Hl IH]; cbn; [constructor|]. destruct (eqb x z); [assumption|].
  constructor; [|assumption]. rewrite In_remove_all. tauto.
Qed.
Lemma NoDup_dedup l : NoDup (dedup l).
Proof.
  induction l as [|x l IH]; cbn; constructor; [|now apply NoDup_remove_all]. rewrite In_remove_all. tauto.
Qed.
Lemma remove_all_notin x l : ~ In x l -> remove_all x l = l.
Proof.
  induction l as [|z l IH]; cbn; [reflexivity|]. intros H. destruct (eqb x z) eqn:E.
  - apply eqb_spec in E. subst z. exfalso. apply H. now left.
  - f_equal. apply IH. tauto.
Qed.
Lemma dedup_NoDup l : NoDup l -> dedup l = l.
Proof.
  induction 1 as [|x l Hx Hl IH]; cbn; [reflexivity|]. rewrite IH. f_equal. now apply remove_all_notin.
Qed.
Lemma filter_remove_all p x l : filter p (remove_all x l) = remove_all x (filter p l).
Proof.
  induction l as [|z l IH]; cbn; [reflexivity|].
  destruct (eqb x z) eqn:E, (p z) eqn:Pz; cbn; rewrite ?E, ?Pz, IH; reflexivity.
Qed.
Lemma filter_dedup p l : filter p (dedup l) = dedup (filter p l).
Proof.
  induction l as [|x l IH]; cbn; [reflexivity|]. rewrite filter_remove_all, IH.
  destruct (p x) eqn:Px; cbn; [reflexivity|].
  apply remove_all_notin. rewrite In_dedup, filter_In. intros [_ H]. congruence.
Qed.
Lemma filter_dedup_if b p l : filter p (dedup_if eqb b l) = dedup_if eqb b (filter p l).
Proof. destruct b; [apply filter_dedup | reflexivity]. Qed.

End Dedup.

Lemma filter_and {A} (p q : A -> bool) l : filter (fun x => p x && q x) l = filter q (filter p l).
Proof.
  induction l as [|x l IH]; cbn; [reflexivity|]. destruct (p x); cbn; [destruct (q x)|]; now rewrite IH.
Qed.

(* ------------------------------------------------------------------------------------------------ the query methods *)

Section QueryProofs.
Context {A : Type}.
Variable eqb : A -> A -> bool.
Hypothesis eqb_spec : forall x y, eqb x y = true <-> x = y.
Notation full := (full eqb).
Notation fetch := (fetch eqb).
Notation q_list := (q_list eqb).
Notation query := (query (A:=A)).
Implicit Types q : query.

Lemma q_list_no_window q : q_window q = no_window -> q_list q = full q.
Proof. unfold C24Query.q_list, C24Query.fetch. intros ->. reflexivity. Qed.

(* every fetch with extra limit/offset is that window of list(q) *)
Lemma fetch_as_list q w :
  window_ok (q_window q) = true -> window_ok w = true -> fetch q w = win w (q_list q).
Proof.
  intros Hq Hw. unfold C24Query.q_list, C24Query.fetch.
  rewrite combine_win by assumption. now rewrite combine_no_window_r.
Qed.

(* q[a:b] = list(q)[a:b] *)
Theorem getitem_list q a b :
  window_ok (q_window q) = true -> bound_ok a -> bound_ok b ->
  q_getitem eqb q a b = Ok (py_slice (q_list q) a b).
Proof.
  intros Hq Ha Hb. unfold q_getitem.
  destruct (getitem_slice (q_list q) a b Ha Hb) as (w & E & Hw & Hs). rewrite E. cbn [fetch_res].
  now rewrite fetch_as_list, Hs.
Qed.

Theorem page_list q n size :
  window_ok (q_window q) = true -> 1 <= n -> 0 <= size ->
  q_page eqb q n size = Ok (py_slice (q_list q) (Some ((n - 1) * size)) (Some (n * size))).
Proof.
  intros Hq Hn Hs. unfold q_page.
  destruct (page_slice (q_list q) n size Hn Hs) as (w & E & Hw & Hsl). rewrite E. cbn [fetch_res].
  now rewrite fetch_as_list, Hsl.
Qed.

Theorem limit_list q l o :
  window_ok (q_window q) = true -> bound_ok l -> bound_ok o ->
  q_limit eqb q l o = Ok (py_slice (q_list q) (Some (match o with None => 0 | Some v => v end))
                                   (match l with None => None | Some v => Some (match o with None => 0 | Some x => x end + v) end)).
Proof.
  intros Hq Hl Ho. unfold q_limit.
  destruct (limit_slice (q_list q) l o Hl Ho) as (w & E & _ & Hw & Hsl). rewrite E. cbn [fetch_res].
  now rewrite fetch_as_list, Hsl.
Qed.

(* iterating over a limited query: select(x for x in q.limit(..)) selects that window of list(q), and windows nest *)
Lemma full_nest q w : q_distinct q = None -> full (nest q w) = full q.
Proof. unfold C24Query.full, eff_distinct, has_order, nest; cbn. now intros ->. Qed.

Theorem nest_list q w1 w2 :
  window_ok (q_window q) = true -> window_ok w1 = true -> window_ok w2 = true -> q_distinct q = None ->
  fetch (nest q w1) w2 = win w2 (win w1 (q_list q)).
Proof.
  intros Hq H1 H2 Hd. unfold C24Query.fetch at 1. rewrite (full_nest q w1 Hd). cbn [q_window nest].
  rewrite combine_win by (auto using combine_ok). rewrite combine_win by assumption.
  unfold C24Query.q_list, C24Query.fetch. now rewrite combine_no_window_r.
Qed.

(* exists / get / first *)
Lemma py_slice_firstn (R : list A) k : 0 <= k -> py_slice R None (Some k) = firstn (Z.to_nat k) R.
Proof.
  intros Hk. pose proof (zlen_nonneg R). unfold py_slice, adjust. destruct (k <? 0) eqn:E; [lia|].
  change (firstn (Z.to_nat k) R) with (seg R 0 k). apply seg_eq; unfold eff_cnt; lia.
Qed.

(* derived from the general slice theorem, so that it does not depend on the shape of Query.__getitem__ *)
Lemma getitem_firstn q k :
  window_ok (q_window q) = true -> 1 <= k ->
  ok_list (q_getitem eqb q None (Some k)) = firstn (Z.to_nat k) (q_list q).
Proof.
  intros Hq Hk. rewrite getitem_list by (auto; cbn; lia). cbn [ok_list]. apply py_slice_firstn. lia.
Qed.

Theorem exists_list q : window_ok (q_window q) = true ->
  q_exists eqb q = match q_list q with [] => false | _ => true end.
Proof. intros Hq. unfold q_exists. rewrite getitem_firstn by (auto; lia). now destruct (q_list q). Qed.

Theorem get_list q : window_ok (q_window q) = true ->
  q_get eqb q = match q_list q with [] => Ok None | [x] => Ok (Some x) | _ => Err 1%nat end.
Proof.
  intros Hq. unfold q_get. rewrite getitem_firstn by (auto; lia).
  destruct (q_list q) as [|x [|y r]]; reflexivity.
Qed.

Lemma full_set_distinct_false q : eff_distinct q = false -> full (set_distinct false q) = full q.
Proof. unfold C24Query.full. intros ->. reflexivity. Qed.

Theorem first_list dflt q :
  window_ok (q_window q) = true -> has_order q = true -> q_distinct q <> Some true ->
  q_first eqb dflt q = hd_error (q_list q).
Proof.
  intros Hq Ho Hd. unfold q_first. rewrite Ho.
  rewrite getitem_firstn by (auto; lia).
  assert (E : eff_distinct q = false).
  { unfold eff_distinct, select_distinct. rewrite Ho. destruct (q_distinct q) as [[|]|]; congruence. }
  unfold C24Query.q_list, C24Query.fetch. cbn [q_window set_distinct]. rewrite (full_set_distinct_false q E).
  now destruct (win _ (full q)).
Qed.

(* first() of an unordered query: a least row (by the default keys) among the rows the query selects *)
Theorem first_unordered_min dflt q x :
  q_window q = no_window -> has_order q = false ->
  q_first eqb dflt q = Some x ->
  In x (filter (q_keep q) (q_rows q)) /\ forall y, In y (filter (q_keep q) (q_rows q)) -> row_leb dflt x y = true.
Proof.
  intros Hw Ho. unfold q_first. rewrite Ho.
  rewrite getitem_firstn by (cbn; rewrite ?Hw; auto; lia).
  rewrite q_list_no_window by (cbn; auto). unfold C24Query.full.
  replace (eff_distinct (set_distinct false (add_order dflt q))) with false by reflexivity.
  cbn [dedup_if q_order q_keep q_rows set_distinct add_order].
  unfold has_order in Ho. destruct (q_order q) eqn:Eo; [|discriminate]. rewrite app_nil_r.
  set (L := filter (q_keep q) (q_rows q)). intros H.
  assert (Hh : hd_error (isort dflt L) = Some x) by (destruct (isort dflt L); cbn in *; [discriminate | exact H]).
  split.
  - apply (Permutation_in _ (isort_perm dflt L)). destruct (isort dflt L); cbn in Hh; [discriminate|]. inversion Hh; subst. cbn. auto.
  - intros y Hy. eapply ssorted_hd_min; [apply isort_sorted | exact Hh |].
    apply (Permutation_in _ (Permutation_sym (isort_perm dflt L))). exact Hy.
Qed.

(* filter()/where() on a query without a window keeps exactly the rows of list(q) that satisfy the predicate, in order *)
Theorem filter_list p q : q_window q = no_window ->
  q_list (add_filter p q) = filter p (q_list q).
Proof.
  intros Hw. rewrite !q_list_no_window by (cbn; auto). unfold C24Query.full.
  replace (eff_distinct (add_filter p q)) with (eff_distinct q) by reflexivity.
  cbn [q_order q_keep q_rows add_filter].
  now rewrite filter_isort, (filter_dedup_if eqb eqb_spec), filter_and.
Qed.

(* order_by(): when it leaves the DISTINCT decision alone, the result is a permutation of list(q), sorted by the new keys *)
Theorem order_permutes ks q : q_window q = no_window ->
  eff_distinct (add_order ks q) = eff_distinct q ->
  Permutation (q_list (add_order ks q)) (q_list q).
Proof.
  intros Hw He. rewrite !q_list_no_window by (cbn; auto). unfold C24Query.full. rewrite He.
  cbn [q_order q_keep q_rows add_order]. now rewrite !isort_perm.
Qed.

Lemma eff_distinct_order_stable ks q :
  has_order q = true \/ q_distinct q <> None \/ q_tdistinct q = false \/ ks = [] ->
  eff_distinct (add_order ks q) = eff_distinct q.
Proof.
  unfold eff_distinct, select_distinct, has_order, add_order; cbn.
  intros [H|[H|[H|H]]].
  - destruct (q_order q); [discriminate|]. now destruct ks.
  - destruct (q_distinct q); congruence.
  - rewrite H. destruct (q_distinct q); [reflexivity|]. now destruct (ks ++ q_order q), (q_order q).
  - now subst ks.
Qed.

Theorem order_permutes_except_known ks q : q_window q = no_window ->
  has_order q = true \/ q_distinct q <> None \/ q_tdistinct q = false \/ ks = [] ->
  Permutation (q_list (add_order ks q)) (q_list q).
Proof. intros Hw H. apply order_permutes; [assumption | now apply eff_distinct_order_stable]. Qed.

(* no duplicate rows to begin with: DISTINCT is invisible and ordering permutes, whatever the flags *)
Theorem order_permutes_nodup ks q : q_window q = no_window -> NoDup (q_rows q) ->
  Permutation (q_list (add_order ks q)) (q_list q).
Proof.
  intros Hw Hn. rewrite !q_list_no_window by (cbn; auto). unfold C24Query.full. cbn [q_order q_keep q_rows add_order].
  assert (Hf : NoDup (filter (q_keep q) (q_rows q))) by now apply NoDup_filter.
  assert (Hd : forall b, dedup_if eqb b (filter (q_keep q) (q_rows q)) = filter (q_keep q) (q_rows q)).
  { intros [|]; [now apply dedup_NoDup | reflexivity]. }
  now rewrite !Hd, !isort_perm.
Qed.

Theorem order_sorted q : q_window q = no_window -> ssorted (q_order q) (q_list q).
Proof. intros Hw. rewrite q_list_no_window by assumption. apply isort_sorted. Qed.

(* distinct(): set semantics *)
Theorem distinct_list q : q_window q = no_window ->
  NoDup (q_list (set_distinct true q)) /\ forall x, In x (q_list (set_distinct true q)) <-> In x (q_list q).
Proof.
  intros Hw. rewrite !q_list_no_window by (cbn; auto). unfold C24Query.full.
  replace (eff_distinct (set_distinct true q)) with true by reflexivity. cbn [q_order q_keep q_rows set_distinct dedup_if].
  split.
  - eapply Permutation_NoDup; [symmetry; apply isort_perm|]. now apply NoDup_dedup.
  - intros x. split; intros H.
    + eapply Permutation_in in H; [|apply isort_perm]. rewrite In_dedup in H by assumption.
      eapply Permutation_in; [symmetry; apply isort_perm|]. destruct (eff_distinct q); cbn; [now rewrite In_dedup|assumption].
    + eapply Permutation_in in H; [|apply isort_perm].
      eapply Permutation_in; [symmetry; apply isort_perm|]. rewrite In_dedup by assumption.
      destruct (eff_distinct q); cbn in H; [now rewrite In_dedup in H|assumption].
Qed.

(* bulk delete removes exactly the selected rows: the DELETE statement removes the WHERE-selected rows of a query without a
   window, and a query with a window is deleted object by object *)
Theorem bulk_delete_exact q : (eff_distinct q = false \/ NoDup (q_rows q)) ->
  Permutation (bulk_deleted eqb q) (q_list q).
Proof.
  intros H. unfold bulk_deleted. destruct (q_window q) as [l o] eqn:Hw.
  destruct l as [l|]; [reflexivity|]. destruct o as [o|]; [reflexivity|].
  rewrite q_list_no_window by exact Hw. unfold C24Query.full. rewrite isort_perm.
  destruct H as [->|Hn]; [reflexivity|]. destruct (eff_distinct q); [|reflexivity]. cbn.
  rewrite dedup_NoDup; auto using NoDup_filter.
Qed.

Theorem bulk_delete_both q : (eff_distinct q = false \/ NoDup (q_rows q)) ->
  Permutation (bulk_deleted eqb q) (q_list q) /\ plain_deleted eqb q = q_list q.
Proof. intros H. split; [exact (bulk_delete_exact q H) | reflexivity]. Qed.

End QueryProofs.

(* ------------------------------------------------------------------------------------------------ aggregates *)

Lemma zsum_perm l1 l2 : Permutation l1 l2 -> zsum l1 = zsum l2.
Proof. unfold zsum. induction 1; cbn in *; lia. Qed.
Lemma zlen_perm {A} (l1 l2 : list A) : Permutation l1 l2 -> zlen l1 = zlen l2.
Proof. intros H. unfold zlen. now rewrite (Permutation_length H). Qed.

Lemma zmin_spec l m : zmin l = Some m <-> In m l /\ forall x, In x l -> m <= x.
Proof.
  revert m. induction l as [|y l IH]; intros m; cbn [zmin].
  - split; [discriminate | intros [[] _]].
  - destruct (zmin l) as [m'|] eqn:E.
    + destruct (proj1 (IH m') eq_refl) as [Hin Hle]. split.
      * intros H. inversion H; subst. split.
        -- destruct (Z.min_spec y m') as [[_ ->]|[_ ->]]; cbn; auto.
        -- intros x [->|Hx]; [lia|]. specialize (Hle x Hx). lia.
      * intros [Hm Hall]. f_equal. destruct Hm as [->|Hm].
        -- pose proof (Hall m' (or_intror Hin)). lia.
        -- pose proof (Hle m Hm). pose proof (Hall y (or_introl eq_refl)). pose proof (Hall m' (or_intror Hin)). lia.
    + assert (l = []) by (destruct l as [|z l']; [reflexivity|]; cbn in E; destruct (zmin l'); discriminate). subst l.
      split.
      * intros H. inversion H; subst. split; [now left|]. intros x [->|[]]. lia.
      * intros [[->|[]] _]. reflexivity.
Qed.
Lemma zmin_none l : zmin l = None <-> l = [].
Proof. destruct l as [|x l]; cbn; [tauto|]. destruct (zmin l); split; discriminate. Qed.
Lemma zmin_set l1 l2 : (forall x, In x l1 <-> In x l2) -> zmin l1 = zmin l2.
Proof.
  intros H. destruct (zmin l1) as [m|] eqn:E.
  - symmetry. apply zmin_spec. apply zmin_spec in E. destruct E as [Hin Hle]. split; [now apply H|].
    intros x Hx. apply Hle. now apply H.
  - apply zmin_none in E. subst l1. symmetry. apply zmin_none. destruct l2 as [|x l2]; [reflexivity|].
    exfalso. apply (H x). now left.
Qed.

Lemma zmax_spec l m : zmax l = Some m <-> In m l /\ forall x, In x l -> x <= m.
Proof.
  revert m. induction l as [|y l IH]; intros m; cbn [zmax].
  - split; [discriminate | intros [[] _]].
  - destruct (zmax l) as [m'|] eqn:E.
    + destruct (proj1 (IH m') eq_refl) as [Hin Hle]. split.
      * intros H. inversion H; subst. split.
        -- destruct (Z.max_spec y m') as [[_ ->]|[_ ->]]; cbn; auto.
        -- intros x [->|Hx]; [lia|]. specialize (Hle x Hx). lia.
      * intros [Hm Hall]. f_equal. destruct Hm as [->|Hm].
        -- pose proof (Hall m' (or_intror Hin)). lia.
        -- pose proof (Hle m Hm). pose proof (Hall y (or_introl eq_refl)). pose proof (Hall m' (or_intror Hin)). lia.
    + assert (l = []) by (destruct l as [|z l']; [reflexivity|]; cbn in E; destruct (zmax l'); discriminate). subst l.
      split.
      * intros H. inversion H; subst. split; [now left|]. intros x [->|[]]. lia.
      * intros [[->|[]] _]. reflexivity.
Qed.
Lemma zmax_none l : zmax l = None <-> l = [].
Proof. destruct l as [|x l]; cbn; [tauto|]. destruct (zmax l); split; discriminate. Qed.
Lemma zmax_set l1 l2 : (forall x, In x l1 <-> In x l2) -> zmax l1 = zmax l2.
Proof.
  intros H. destruct (zmax l1) as [m|] eqn:E.
  - symmetry. apply zmax_spec. apply zmax_spec in E. destruct E as [Hin Hle]. split; [now apply H|].
    intros x Hx. apply Hle. now apply H.
  - apply zmax_none in E. subst l1. symmetry. apply zmax_none. destruct l2 as [|x l2]; [reflexivity|].
    exfalso. apply (H x). now left.
Qed.

Lemma Zeqb_spec x y : Z.eqb x y = true <-> x = y.
Proof. apply Z.eqb_eq. Qed.

Section AggregateProofs.
Implicit Types q : query (A:=Z).
Notation q_list := (q_list Z.eqb).

Lemma aggregate_post_py f l : aggregate_post f (sql_aggregate f l) = py_aggregate f l.
Proof. destruct f, l; reflexivity. Qed.

Lemma py_aggregate_perm f l1 l2 : Permutation l1 l2 -> py_aggregate f l1 = py_aggregate f l2.
Proof.
  intros H. pose proof (zsum_perm _ _ H) as Hs. pose proof (zlen_perm _ _ H) as Hl.
  assert (Hi : forall x, In x l1 <-> In x l2) by (intros x; split; apply Permutation_in; [assumption | now symmetry]).
  destruct f; cbn; rewrite ?Hs, ?Hl, ?(zmin_set _ _ Hi), ?(zmax_set _ _ Hi); try reflexivity.
  destruct l1, l2; try reflexivity; [apply Permutation_nil in H | symmetry in H; apply Permutation_nil in H]; discriminate.
Qed.

(* an aggregate method agrees with the Python operation on list(q) whenever the DISTINCT used inside the aggregate function is
   the DISTINCT the query itself is executed with *)
Theorem aggregate_list f arg q : q_window q = no_window ->
  aggr_distinct f arg q = eff_distinct q ->
  q_aggregate f arg q = Ok (py_aggregate f (q_list q)).
Proof.
  intros Hw Hd. unfold q_aggregate. rewrite Hw. cbn [combine no_window fst snd combine_limit_and_offset].
  rewrite aggregate_post_py, Hd. f_equal.
  rewrite (q_list_no_window Z.eqb q Hw). unfold full. symmetry. apply py_aggregate_perm, isort_perm.
Qed.

(* min() and max() agree in every case: they do not depend on duplicates *)
Theorem aggregate_minmax f arg q : q_window q = no_window -> f = AMin \/ f = AMax ->
  q_aggregate f arg q = Ok (py_aggregate f (q_list q)).
Proof.
  intros Hw Hf. unfold q_aggregate. rewrite Hw. cbn [combine no_window fst snd combine_limit_and_offset].
  rewrite aggregate_post_py. f_equal.
  rewrite (q_list_no_window Z.eqb q Hw). unfold full.
  set (L := filter (q_keep q) (q_rows q)).
  assert (Hi : forall b1 b2 x, In x (dedup_if Z.eqb b1 L) <-> In x (isort (q_order q) (dedup_if Z.eqb b2 L))).
  { intros b1 b2 x. split; intros H.
    - eapply Permutation_in; [symmetry; apply isort_perm|].
      destruct b1, b2; cbn in *; rewrite ?(In_dedup Z.eqb Zeqb_spec) in *; assumption.
    - eapply Permutation_in in H; [|apply isort_perm].
      destruct b1, b2; cbn in *; rewrite ?(In_dedup Z.eqb Zeqb_spec) in *; assumption. }
  destruct Hf as [-> | ->]; cbn [py_aggregate];
    [rewrite (zmin_set _ _ (Hi (aggr_distinct AMin arg q) (eff_distinct q)))
    |rewrite (zmax_set _ _ (Hi (aggr_distinct AMax arg q) (eff_distinct q)))]; reflexivity.
Qed.

(* no selected rows: sum() is 0, min()/max()/avg() are None, count() is 0 *)
Theorem aggregate_empty f arg q : q_window q = no_window -> filter (q_keep q) (q_rows q) = [] ->
  q_aggregate f arg q = Ok (match f with ASum | ACount => VInt 0 | _ => VNone end).
Proof.
  intros Hw He. unfold q_aggregate. rewrite Hw, He. cbn [combine no_window fst snd combine_limit_and_offset].
  destruct f, (aggr_distinct _ arg q); reflexivity.
Qed.

(* count() without arguments = len(list(q)) for every query, when it uses the DISTINCT the query runs with *)
Theorem count_scalar_list q : count_default_follows_query = true -> q_window q = no_window ->
  q_aggregate ACount None q = Ok (py_aggregate ACount (q_list q)).
Proof. intros Hc Hw. apply aggregate_list; [assumption|]. unfold aggr_distinct. now rewrite Hc. Qed.

Theorem count_scalar_list_now q : q_window q = no_window -> q_aggregate ACount None q = Ok (py_aggregate ACount (q_list q)).
Proof. apply count_scalar_list. reflexivity. Qed.

End AggregateProofs.

(* ------------------------------------------------------------------------------------------------ group_concat, count() of tuples *)

Section MoreAggregates.

(* an unordered query whose DISTINCT agrees with the method's: the concatenated values are list(q), in order *)
Theorem group_concat_list arg (q : query (A:=Z)) : q_window q = no_window -> has_order q = false ->
  eff_distinct q = match arg with Some d => d | None => false end ->
  q_group_concat arg q = Ok (q_list Z.eqb q).
Proof.
  intros Hw Ho Hd. unfold q_group_concat. rewrite Hw. cbn [combine no_window fst snd combine_limit_and_offset].
  rewrite (q_list_no_window Z.eqb q Hw). unfold full. rewrite Hd.
  unfold has_order in Ho. destruct (q_order q); [|discriminate]. now rewrite isort_nil_keys.
Qed.

Lemma zz_eqb_spec x y : zz_eqb x y = true <-> x = y.
Proof.
  destruct x as [a b], y as [c d]. unfold zz_eqb; cbn. rewrite andb_true_iff, !Z.eqb_eq.
  split; [intros [-> ->]; reflexivity | intros H; inversion H; auto].
Qed.

(* count() of a tuple query is len(list(q)), with or without DISTINCT *)
Theorem count_pair_list (q : query (A:=Z * Z)) : q_window q = no_window ->
  q_count_pair None q = Ok (zlen (q_list zz_eqb q)).
Proof.
  intros Hw. unfold q_count_pair. rewrite Hw. cbn [combine no_window fst snd combine_limit_and_offset].
  rewrite (q_list_no_window zz_eqb q Hw). unfold full.
  destruct (eff_distinct q); cbn [dedup_if]; f_equal; symmetry; apply zlen_perm, isort_perm.
Qed.

End MoreAggregates.

(* count() of an entity query (rows are distinct objects) is len(list(q)) *)
Theorem count_rows_list {A} (eqb : A -> A -> bool) (eqb_spec : forall x y, eqb x y = true <-> x = y) (q : query (A:=A)) :
  q_window q = no_window -> NoDup (q_rows q) -> q_count_rows q = Ok (zlen (q_list eqb q)).
Proof.
  intros Hw Hn. unfold q_count_rows. rewrite Hw. cbn [combine no_window fst snd combine_limit_and_offset].
  rewrite (q_list_no_window eqb q Hw). unfold full. f_equal. symmetry.
  rewrite (zlen_perm _ _ (isort_perm _ _)).
  destruct (eff_distinct q); cbn [dedup_if]; [|reflexivity].
  rewrite dedup_NoDup; auto using NoDup_filter.
Qed.
