(* C19 / C17 / C35 - symbolic-execution proofs, part 3: the provider.commit step of SessionCache.commit. *)
From Coq Require Import List Bool Arith Lia.
Import ListNotations.
Require Import PonyV.Model.C19Txn PonyV.Proofs.C19Base.

Section S.
Variable oracle : nat -> bool.

Definition commit_step : M := fun s =>
  ((fun s0 => when (k_intxn s0) ((fun s1 => assert_ (k_has s1) s1) ;; (fun s1 => prov_commit oracle (k_id s1) s1)) s0) ;;
   upd (fun s0 => set_k_imm true (set_k_forupd 0 s0))) s.

(* after a failed COMMIT the cache is no longer in_transaction and the lock is free, but the driver-level transaction is
   still open: only WFw holds, and SessionCache.commit goes on to cache.rollback() *)
Lemma commit_step_spec : forall s, WF s -> k_reg s = true -> k_pending s = 0 ->
  match commit_step s with
  | (Blocked, _) => other s = true
  | (Ok, s') => WF s' /\ Ext s s' /\ k_reg s' = true /\ k_pending s' = 0 /\ k_intxn s' = false
  | (Err _, s') => WFw s' /\ Ext s s' /\ k_reg s' = true /\ k_intxn s' = false /\ k_has s' = true
  end.
Proof.
  destruct_st. intros [[? ? ? ? ? ? ? ? ? ? ? ? ?] ? ?] ? ?.
  unfold KF, commit_step. unfold_all. run.
  all: try reflexivity.
  all: split; [first [wf_tac | wfw_tac] | split; [ext_tac | norm; auto]].
  all: finish.
Qed.

(* Database.disconnect() in an idle thread: the pooled connection is closed (exactly once: it was live), nothing else changes *)
Lemma pool_disconnect_spec : forall s, WF s -> k_reg s = false ->
  match pool_disconnect oracle s with
  | (Blocked, _) => False
  | (_, s') => WF s' /\ Ext s s' /\ k_reg s' = false /\ p_has s' = false /\ lock s' = lock s
  end.
Proof.
  destruct_st. intros [[? ? ? ? ? ? ? ? ? ? ? ? ?] ? ?] ?.
  unfold pool_disconnect. unfold_all. run.
  all: try reflexivity.
  all: split; [wf_tac | split; [ext_tac | norm; auto]].
  all: finish.
Qed.
End S.
