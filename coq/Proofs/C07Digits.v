(* C07 (part 1): decimal printing/parsing and str.split lemmas used by the codec round trips. *)
Require Import PonyV.Base.PyBase PonyV.Model.C07Base.
From Coq Require Import DecimalN DecimalPos Decimal ZifyBool.
Open Scope Z_scope.

(* ---- fixed-width fields --------------------------------------------------------------------------------------------------- *)
Ltac euclid := Z.to_euclidean_division_equations; lia.

Lemma d2_digits n : 0 <= n < 100 -> all_digits (d2 n) = true.
Proof. intros H. unfold d2, all_digits, is_digit; cbn [forallb]. euclid. Qed.

Lemma all_digits_app a b : all_digits (a ++ b) = all_digits a && all_digits b.
Proof. unfold all_digits. apply forallb_app. Qed.

(* ---- '%d' through Decimal.uint ------------------------------------------------------------------------------------------- *)
Lemma all_digits_codes u : all_digits (codes_of_uint u) = true.
Proof. induction u; cbn [codes_of_uint all_digits forallb]; try reflexivity; fold (all_digits (codes_of_uint u)); rewrite IHu; reflexivity. Qed.

Definition dv_from (acc : Z) (s : str) : Z := fold_left (fun a c => a * 10 + (c - 48)) s acc.

Lemma dv_from_pos u p : dv_from (Zpos p) (codes_of_uint u) = Zpos (Pos.of_uint_acc u p).
Proof.
  revert p. induction u; intros p; cbn [codes_of_uint dv_from fold_left Pos.of_uint_acc]; try reflexivity;
    fold (dv_from (Z.pos p * 10 + (48 - 48)) (codes_of_uint u)); fold (dv_from (Z.pos p * 10 + (49 - 48)) (codes_of_uint u));
    fold (dv_from (Z.pos p * 10 + (50 - 48)) (codes_of_uint u)); fold (dv_from (Z.pos p * 10 + (51 - 48)) (codes_of_uint u));
    fold (dv_from (Z.pos p * 10 + (52 - 48)) (codes_of_uint u)); fold (dv_from (Z.pos p * 10 + (53 - 48)) (codes_of_uint u));
    fold (dv_from (Z.pos p * 10 + (54 - 48)) (codes_of_uint u)); fold (dv_from (Z.pos p * 10 + (55 - 48)) (codes_of_uint u));
    fold (dv_from (Z.pos p * 10 + (56 - 48)) (codes_of_uint u)); fold (dv_from (Z.pos p * 10 + (57 - 48)) (codes_of_uint u));
    match goal with |- dv_from ?x _ = Zpos (Pos.of_uint_acc _ ?q) => replace x with (Zpos q) by lia end; apply IHu.
Qed.

Lemma dv_from_zero u : dv_from 0 (codes_of_uint u) = Z.of_N (Pos.of_uint u).
Proof.
  induction u; cbn [codes_of_uint dv_from fold_left Pos.of_uint]; try reflexivity;
    try (change (0 * 10 + (48 - 48)) with 0; exact IHu);
    match goal with |- fold_left _ _ ?x = Z.of_N (N.pos (Pos.of_uint_acc _ ?q)) => change x with (Zpos q) end; apply dv_from_pos.
Qed.

Lemma digits_value_codes u : digits_value (codes_of_uint u) = Z.of_N (N.of_uint u).
Proof. exact (dv_from_zero u). Qed.

Lemma to_uint_nonnil n : N.to_uint n <> Nil.
Proof. destruct n; cbn; [discriminate | apply Unsigned.to_uint_nonnil]. Qed.

Lemma codes_nonempty u : u <> Nil -> codes_of_uint u <> [].
Proof. destruct u; cbn; congruence. Qed.

Lemma print_nat_nonempty n : print_nat n <> [].
Proof. apply codes_nonempty, to_uint_nonnil. Qed.

Lemma print_nat_digits n : all_digits (print_nat n) = true.
Proof. apply all_digits_codes. Qed.

(* int('%d' % n) = n *)
Lemma parse_print_nat n : 0 <= n -> parse_digits (print_nat n) = Some n.
Proof.
  intros H. unfold parse_digits. pose proof (print_nat_nonempty n) as Hne.
  destruct (print_nat n) eqn:E; [congruence|]. rewrite <- E, print_nat_digits. f_equal.
  unfold print_nat. rewrite digits_value_codes, DecimalN.Unsigned.of_to. lia.
Qed.

Lemma all_digits_head c s : all_digits (c :: s) = true -> 48 <= c <= 57.
Proof. unfold all_digits, is_digit; cbn [forallb]. lia. Qed.

Lemma parse_int_print_nat n : 0 <= n -> parse_int (print_nat n) = Some n.
Proof.
  intros H. unfold parse_int. pose proof (print_nat_nonempty n) as Hne. pose proof (print_nat_digits n) as Hd.
  destruct (print_nat n) as [|c r] eqn:E; [congruence|].
  apply all_digits_head in Hd. unfold c_minus. destruct (c =? 45) eqn:Ec; [lia|]. rewrite <- E. apply parse_print_nat, H.
Qed.

Lemma parse_int_neg_print_nat n : 0 <= n -> parse_int (c_minus :: print_nat n) = Some (- n).
Proof. intros H. unfold parse_int. rewrite Z.eqb_refl, parse_print_nat by exact H. reflexivity. Qed.

(* a character that is not a digit does not occur in a digit string *)
Lemma digits_not_contain c s : all_digits s = true -> is_digit c = false -> contains c s = false.
Proof.
  unfold all_digits, contains. induction s as [|x s IH]; cbn [forallb existsb]; [reflexivity|].
  intros H Hc. apply andb_true_iff in H. destruct H as [Hx Hs]. rewrite (IH Hs Hc).
  destruct (c =? x) eqn:E; [|reflexivity]. apply Z.eqb_eq in E. subst. congruence.
Qed.

(* ---- str.split ----------------------------------------------------------------------------------------------------------------- *)
Lemma contains_app c a b : contains c (a ++ b) = contains c a || contains c b.
Proof. unfold contains. apply existsb_app. Qed.

Lemma split_all_nonempty c s : split_all c s <> [].
Proof. induction s as [|x r IH]; cbn; [discriminate|]. destruct (x =? c); [discriminate|]. destruct (split_all c r); [congruence | discriminate]. Qed.

Lemma split_all_none c s : contains c s = false -> split_all c s = [s].
Proof.
  unfold contains. induction s as [|x r IH]; cbn [existsb split_all]; [reflexivity|].
  intros H. apply orb_false_iff in H. destruct H as [Hx Hr]. rewrite Z.eqb_sym in Hx. rewrite Hx, (IH Hr). reflexivity.
Qed.

Lemma split_all_app c a b : contains c a = false -> split_all c (a ++ c :: b) = a :: split_all c b.
Proof.
  unfold contains. induction a as [|x r IH]; cbn [existsb split_all app]; intros H.
  - simpl. rewrite Z.eqb_refl. reflexivity.
  - apply orb_false_iff in H. destruct H as [Hx Hr]. rewrite Z.eqb_sym in Hx. simpl. rewrite Hx, (IH Hr). reflexivity.
Qed.
