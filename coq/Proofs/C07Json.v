(* C07: loads (dumps v) = v for the JSON subset Pony stores (Model/C07Json.v). *)
Require Import PonyV.Base.PyBase PonyV.Model.C07Base PonyV.Model.C07Json PonyV.Proofs.C07Digits.
From Coq Require Import ZifyBool.
Open Scope Z_scope.

Ltac euclid := Z.to_euclidean_division_equations; lia.
(* decide comparisons between character literals *)
Ltac closed_eqb :=
  repeat match goal with
         | |- context [Zpos ?a =? Zpos ?b] => let v := eval vm_compute in (Zpos a =? Zpos b) in change (Zpos a =? Zpos b) with v
         end.

(* ------------------------------------------------------------------------------------------------ strings *)
Lemma hexval_hexdigit x : 0 <= x < 16 -> hexval (hexdigit x) = Some x.
Proof.
  intros H. unfold hexval, hexdigit. destruct (x <? 10) eqn:E.
  - replace ((48 <=? 48 + x) && (48 + x <=? 57)) with true by lia. f_equal. lia.
  - replace ((48 <=? 87 + x) && (87 + x <=? 57)) with false by lia.
    replace ((97 <=? 87 + x) && (87 + x <=? 102)) with true by lia. f_equal. lia.
Qed.

Lemma parse_string_body_step c r :
  parse_string_body (c :: r) =
  if c =? 34 then Some ([], r)
  else if c =? 92 then
    match r with
    | [] => None
    | e :: r2 =>
        let cont (ch : Z) (rest : str) (k : option (str * str)) := match k with Some (t, rest') => Some (ch :: t, rest') | None => None end in
        if e =? 34 then cont 34 r2 (parse_string_body r2)
        else if e =? 92 then cont 92 r2 (parse_string_body r2)
        else if e =? 47 then cont 47 r2 (parse_string_body r2)
        else if e =? 110 then cont 10 r2 (parse_string_body r2)
        else if e =? 114 then cont 13 r2 (parse_string_body r2)
        else if e =? 116 then cont 9 r2 (parse_string_body r2)
        else if e =? 98 then cont 8 r2 (parse_string_body r2)
        else if e =? 102 then cont 12 r2 (parse_string_body r2)
        else if e =? 117 then
          match r2 with
          | a :: b :: c2 :: d :: r3 =>
              match hexval a, hexval b, hexval c2, hexval d with
              | Some x1, Some x2, Some x3, Some x4 => cont (((x1 * 16 + x2) * 16 + x3) * 16 + x4) r3 (parse_string_body r3)
              | _, _, _, _ => None
              end
          | _ => None
          end
        else None
    end
  else if c <? 32 then None
  else match parse_string_body r with Some (t, rest) => Some (c :: t, rest) | None => None end.
Proof. reflexivity. Qed.

Lemma parse_escaped s rest : valid_str s -> parse_string_body (flat_map esc_char s ++ 34 :: rest) = Some (s, rest).
Proof.
  induction s as [|c s IH]; intros V.
  - reflexivity.
  - inversion V as [|? ? Hc Vs]; subst. specialize (IH Vs).
    cbn [flat_map]. rewrite <- app_assoc. unfold esc_char at 1.
    destruct (c =? 34) eqn:E1; [apply Z.eqb_eq in E1; subst c; cbn [app]; rewrite parse_string_body_step; closed_eqb; cbv iota zeta; rewrite IH; reflexivity|].
    destruct (c =? 92) eqn:E2; [apply Z.eqb_eq in E2; subst c; cbn [app]; rewrite parse_string_body_step; closed_eqb; cbv iota zeta; rewrite IH; reflexivity|].
    destruct (c =? 10) eqn:E3; [apply Z.eqb_eq in E3; subst c; cbn [app]; rewrite parse_string_body_step; closed_eqb; cbv iota zeta; rewrite IH; reflexivity|].
    destruct (c =? 13) eqn:E4; [apply Z.eqb_eq in E4; subst c; cbn [app]; rewrite parse_string_body_step; closed_eqb; cbv iota zeta; rewrite IH; reflexivity|].
    destruct (c =? 9) eqn:E5; [apply Z.eqb_eq in E5; subst c; cbn [app]; rewrite parse_string_body_step; closed_eqb; cbv iota zeta; rewrite IH; reflexivity|].
    destruct (c =? 8) eqn:E6; [apply Z.eqb_eq in E6; subst c; cbn [app]; rewrite parse_string_body_step; closed_eqb; cbv iota zeta; rewrite IH; reflexivity|].
    destruct (c =? 12) eqn:E7; [apply Z.eqb_eq in E7; subst c; cbn [app]; rewrite parse_string_body_step; closed_eqb; cbv iota zeta; rewrite IH; reflexivity|].
    destruct (c <? 32) eqn:E8.
    + cbn [app]. rewrite parse_string_body_step.
      change (92 =? 34) with false. change (92 =? 92) with true. cbv iota.
      change (117 =? 34) with false. change (117 =? 92) with false. change (117 =? 47) with false. change (117 =? 110) with false.
      change (117 =? 114) with false. change (117 =? 116) with false. change (117 =? 98) with false. change (117 =? 102) with false.
      change (117 =? 117) with true. cbv iota zeta.
      change (hexval 48) with (Some 0).
      rewrite !hexval_hexdigit by euclid. rewrite IH. f_equal. f_equal. f_equal. euclid.
    + cbn [app]. rewrite parse_string_body_step. rewrite E1, E2, E8, IH. reflexivity.
Qed.

Lemma parse_jstring s rest : valid_str s -> parse_string_body (flat_map esc_char s ++ [34] ++ rest) = Some (s, rest).
Proof. intros V. apply parse_escaped, V. Qed.

(* ------------------------------------------------------------------------------------------------ numbers *)
Definition ok_rest (rest : str) : Prop := match rest with [] => True | c :: _ => is_digit c = false end.

Lemma span_digits_app ds rest : all_digits ds = true -> ok_rest rest -> span_digits (ds ++ rest) = (ds, rest).
Proof.
  induction ds as [|c ds IH]; intros Hd Hr.
  - cbn [app]. destruct rest as [|c r]; [reflexivity|]. cbn in Hr. cbn [span_digits]. rewrite Hr. reflexivity.
  - unfold all_digits in Hd. cbn [forallb] in Hd. apply andb_true_iff in Hd. destruct Hd as [Hc Hd].
    cbn [app span_digits]. rewrite Hc, (IH Hd Hr). reflexivity.
Qed.

Lemma print_nat_cons n : exists c r, print_nat n = c :: r /\ 48 <= c <= 57.
Proof.
  pose proof (print_nat_nonempty n) as Hne. pose proof (print_nat_digits n) as Hd.
  destruct (print_nat n) as [|c r]; [congruence|]. exists c, r. split; [reflexivity | apply (all_digits_head _ _ Hd)].
Qed.

Lemma digits_value_print n : 0 <= n -> digits_value (print_nat n) = n.
Proof. intros H. unfold print_nat. rewrite digits_value_codes, DecimalN.Unsigned.of_to. lia. Qed.

Lemma parse_number_print z rest : ok_rest rest -> parse_number (print_int z ++ rest) = Some (z, rest).
Proof.
  intros Hr. unfold print_int. destruct (z <? 0) eqn:E.
  - cbn [app]. unfold parse_number. unfold c_minus at 1. rewrite Z.eqb_refl.
    pose proof (span_digits_app _ _ (print_nat_digits (- z)) Hr) as Sp.
    pose proof (digits_value_print (- z) ltac:(lia)) as D.
    destruct (print_nat_cons (- z)) as (c & r & Ec & _). rewrite Ec in *. rewrite Sp, D. f_equal. f_equal. lia.
  - destruct (print_nat_cons z) as (c & r & Ec & Hc). unfold parse_number.
    pose proof (span_digits_app _ _ (print_nat_digits z) Hr) as Sp.
    pose proof (digits_value_print z ltac:(lia)) as D.
    rewrite Ec in *. cbn [app] in *. replace (c =? c_minus) with false by (unfold c_minus; lia).
    rewrite Sp, D. reflexivity.
Qed.

Lemma print_int_head z : exists c r, print_int z = c :: r /\ (c = 45 \/ 48 <= c <= 57).
Proof.
  unfold print_int. destruct (z <? 0).
  - exists c_minus, (print_nat (- z)). split; [reflexivity | left; reflexivity].
  - destruct (print_nat_cons z) as (c & r & E & H). exists c, r. split; [exact E | right; exact H].
Qed.

(* ------------------------------------------------------------------------------------------------ values *)
Fixpoint ecost (l : list jv) : nat := match l with [] => O | x :: r => S (jcost x + ecost r) end.
Fixpoint mcost (d : list (str * jv)) : nat := match d with [] => O | kv :: r => S (jcost (snd kv) + mcost r) end.
Lemma jcost_list l : jcost (JList l) = S (ecost l).
Proof. reflexivity. Qed.
Lemma jcost_dict d : jcost (JDict d) = S (mcost d).
Proof. reflexivity. Qed.
Lemma jcost_pos v : (1 <= jcost v)%nat.
Proof. destruct v; cbn; lia. Qed.

Fixpoint valid_all (l : list jv) : Prop := match l with [] => True | x :: r => valid_jv x /\ valid_all r end.
Fixpoint valid_members (d : list (str * jv)) : Prop := match d with [] => True | kv :: r => (valid_str (fst kv) /\ valid_jv (snd kv)) /\ valid_members r end.
Lemma valid_list l : valid_jv (JList l) = valid_all l.
Proof. reflexivity. Qed.
Lemma valid_dict d : valid_jv (JDict d) = valid_members d.
Proof. reflexivity. Qed.

Definition mtext (kv : str * jv) : str := jstring (fst kv) ++ 58 :: dumps (snd kv).

Lemma parse_value_step f c r :
  parse_value (S f) (c :: r) =
  if c =? 110 then option_map (fun rest => (JNull, rest)) (starts_with [117; 108; 108] r)
  else if c =? 116 then option_map (fun rest => (JBool true, rest)) (starts_with [114; 117; 101] r)
  else if c =? 102 then option_map (fun rest => (JBool false, rest)) (starts_with [97; 108; 115; 101] r)
  else if c =? 34 then match parse_string_body r with Some (t, rest) => Some (JStr t, rest) | None => None end
  else if c =? 91 then
    match r with
    | c2 :: r2 => if c2 =? 93 then Some (JList [], r2)
                  else match parse_elems f r with Some (l, rest) => Some (JList l, rest) | None => None end
    | [] => None
    end
  else if c =? 123 then
    match r with
    | c2 :: r2 => if c2 =? 125 then Some (JDict [], r2)
                  else match parse_members f r with Some (d, rest) => Some (JDict d, rest) | None => None end
    | [] => None
    end
  else match parse_number (c :: r) with Some (z, rest) => Some (JInt z, rest) | None => None end.
Proof. reflexivity. Qed.

Lemma parse_elems_step f s :
  parse_elems (S f) s =
  match parse_value f s with
  | Some (v, c :: r) =>
      if c =? 44 then match parse_elems f r with Some (vs, rest) => Some (v :: vs, rest) | None => None end
      else if c =? 93 then Some ([v], r)
      else None
  | _ => None
  end.
Proof. reflexivity. Qed.

Lemma parse_members_step f q r0 :
  parse_members (S f) (q :: r0) =
  if q =? 34 then
    match parse_string_body r0 with
    | Some (k, c0 :: r1) =>
        if c0 =? 58 then
          match parse_value f r1 with
          | Some (v, c :: r) =>
              if c =? 44 then match parse_members f r with Some (kvs, rest) => Some ((k, v) :: kvs, rest) | None => None end
              else if c =? 125 then Some ([(k, v)], r)
              else None
          | _ => None
          end
        else None
    | _ => None
    end
  else None.
Proof. reflexivity. Qed.

(* the first character of a printed value is none of  ]  }  *)
Lemma dumps_head v : exists c r, dumps v = c :: r /\ c <> 93 /\ c <> 125.
Proof.
  destruct v as [|[|]|z|s|l|d].
  - exists 110, [117; 108; 108]. repeat split; discriminate.
  - exists 116, [114; 117; 101]. repeat split; discriminate.
  - exists 102, [97; 108; 115; 101]. repeat split; discriminate.
  - cbn [dumps]. destruct (print_int_head z) as (c & r & E & H). exists c, r. split; [exact E | lia].
  - cbn [dumps]. unfold jstring. eexists; eexists; split; [reflexivity | split; discriminate].
  - cbn [dumps]. eexists; eexists; split; [reflexivity | split; discriminate].
  - cbn [dumps]. eexists; eexists; split; [reflexivity | split; discriminate].
Qed.

Lemma join_cons_app (x : str) (l : list str) (rest : str) (close : Z) :
  join 44 (x :: l) ++ close :: rest =
  match l with [] => x ++ close :: rest | _ => x ++ 44 :: (join 44 l ++ close :: rest) end.
Proof. destruct l as [|y l]; cbn [join]; [reflexivity|]. rewrite <- app_assoc. reflexivity. Qed.

Lemma ok_rest_sep c rest : c = 44 \/ c = 93 \/ c = 125 -> ok_rest (c :: rest).
Proof. intros [->|[->| ->]]; reflexivity. Qed.

Lemma parse_all f :
  (forall v rest, valid_jv v -> (jcost v <= f)%nat -> ok_rest rest -> parse_value f (dumps v ++ rest) = Some (v, rest))
  /\ (forall x l rest, valid_all (x :: l) -> (ecost (x :: l) <= f)%nat ->
        parse_elems f (join 44 (map dumps (x :: l)) ++ 93 :: rest) = Some (x :: l, rest))
  /\ (forall kv d rest, valid_members (kv :: d) -> (mcost (kv :: d) <= f)%nat ->
        parse_members f (join 44 (map mtext (kv :: d)) ++ 125 :: rest) = Some (kv :: d, rest)).
Proof.
  induction f as [|f [IHv [IHe IHm]]].
  - split; [|split].
    + intros v rest _ H. pose proof (jcost_pos v). lia.
    + intros x l rest _ H. cbn in H. lia.
    + intros kv d rest _ H. cbn in H. lia.
  - split; [|split].
    + (* a value *)
      intros v rest V C R. destruct v as [|[|]|z|s|l|d].
      * cbn [dumps app]. rewrite parse_value_step. reflexivity.
      * cbn [dumps app]. rewrite parse_value_step. reflexivity.
      * cbn [dumps app]. rewrite parse_value_step. reflexivity.
      * cbn [dumps]. destruct (print_int_head z) as (c & r & E & Hc).
        pose proof (parse_number_print z rest R) as P. rewrite E in *. cbn [app] in *. rewrite parse_value_step.
        replace (c =? 110) with false by lia. replace (c =? 116) with false by lia. replace (c =? 102) with false by lia.
        replace (c =? 34) with false by lia. replace (c =? 91) with false by lia. replace (c =? 123) with false by lia.
        rewrite P. reflexivity.
      * cbn [dumps]. unfold jstring. cbn [app]. rewrite parse_value_step.
        change (34 =? 110) with false. change (34 =? 116) with false. change (34 =? 102) with false. change (34 =? 34) with true. cbv iota.
        rewrite <- app_assoc. cbn [valid_jv] in V. rewrite (parse_jstring s rest V). reflexivity.
      * cbn [dumps]. cbn [app]. rewrite parse_value_step.
        change (91 =? 110) with false. change (91 =? 116) with false. change (91 =? 102) with false. change (91 =? 34) with false.
        change (91 =? 91) with true. cbv iota.
        destruct l as [|x l].
        -- cbn [map join app]. change (93 =? 93) with true. reflexivity.
        -- rewrite <- app_assoc. cbn [app].
           rewrite valid_list in V. rewrite jcost_list in C.
           pose proof (IHe x l rest V ltac:(lia)) as P.
           destruct (dumps_head x) as (c & r & Ex & Hn1 & Hn2).
           assert (Hh : exists t, join 44 (map dumps (x :: l)) ++ 93 :: rest = c :: t).
           { cbn [map]. rewrite join_cons_app. destruct (map dumps l); rewrite Ex; cbn [app]; eexists; reflexivity. }
           destruct Hh as [t Et]. rewrite Et in *. replace (c =? 93) with false by lia. rewrite P. reflexivity.
      * cbn [dumps]. cbn [app]. rewrite parse_value_step.
        change (123 =? 110) with false. change (123 =? 116) with false. change (123 =? 102) with false. change (123 =? 34) with false.
        change (123 =? 91) with false. change (123 =? 123) with true. cbv iota.
        destruct d as [|kv d].
        -- cbn [map join app]. change (125 =? 125) with true. reflexivity.
        -- rewrite <- app_assoc. cbn [app].
           rewrite valid_dict in V. rewrite jcost_dict in C.
           pose proof (IHm kv d rest V ltac:(lia)) as P.
           change (map (fun kv0 => jstring (fst kv0) ++ 58 :: dumps (snd kv0)) (kv :: d)) with (map mtext (kv :: d)).
           assert (Hh : exists t, join 44 (map mtext (kv :: d)) ++ 125 :: rest = 34 :: t).
           { cbn [map]. rewrite join_cons_app. destruct (map mtext d) as [|m0 ms]; unfold mtext, jstring; cbn [app]; eexists; reflexivity. }
           destruct Hh as [t Et]. rewrite Et in *. change (34 =? 125) with false. rewrite P. reflexivity.
    + (* the elements of a non-empty list *)
      intros x l rest [Vx Vl] C. cbn [ecost] in C. rewrite parse_elems_step. cbn [map]. rewrite join_cons_app.
      destruct l as [|y l].
      * cbn [map]. rewrite (IHv x (93 :: rest) Vx ltac:(lia) (ok_rest_sep 93 rest ltac:(auto))).
        change (93 =? 44) with false. change (93 =? 93) with true. reflexivity.
      * cbn [map]. change (dumps y :: map dumps l) with (map dumps (y :: l)).
        rewrite (IHv x (44 :: _) Vx ltac:(lia) (ok_rest_sep 44 _ ltac:(auto))).
        change (44 =? 44) with true. cbv iota.
        rewrite (IHe y l rest Vl ltac:(cbn [ecost] in *; lia)). reflexivity.
    + (* the members of a non-empty dict *)
      intros kv d rest [[Vk Vx] Vd] C. cbn [mcost] in C. cbn [map]. rewrite join_cons_app.
      assert (Hm : forall tail, mtext kv ++ tail = 34 :: flat_map esc_char (fst kv) ++ 34 :: 58 :: dumps (snd kv) ++ tail).
      { intros tail. unfold mtext, jstring. cbn [app]. rewrite <- !app_assoc. reflexivity. }
      destruct d as [|kv2 d].
      * cbn [map]. rewrite Hm. rewrite parse_members_step. rewrite Z.eqb_refl.
        rewrite (parse_escaped (fst kv) _ Vk). change (58 =? 58) with true. cbv iota.
        rewrite (IHv (snd kv) (125 :: rest) Vx ltac:(lia) (ok_rest_sep 125 rest ltac:(auto))).
        change (125 =? 44) with false. change (125 =? 125) with true. destruct kv; reflexivity.
      * cbn [map]. change (mtext kv2 :: map mtext d) with (map mtext (kv2 :: d)). rewrite Hm. rewrite parse_members_step. rewrite Z.eqb_refl.
        rewrite (parse_escaped (fst kv) _ Vk). change (58 =? 58) with true. cbv iota.
        rewrite (IHv (snd kv) (44 :: _) Vx ltac:(lia) (ok_rest_sep 44 _ ltac:(auto))).
        change (44 =? 44) with true. cbv iota.
        rewrite (IHm kv2 d rest Vd ltac:(cbn [mcost] in *; lia)). destruct kv; reflexivity.
Qed.

(* the printed text is long enough to serve as fuel *)
Lemma cost_le_length n :
  (forall v, (jcost v <= n)%nat -> (jcost v <= length (dumps v))%nat).
Proof.
  induction n as [|n IH]; intros v C; [pose proof (jcost_pos v); lia|].
  destruct v as [|[|]|z|s|l|d]; try (cbn; lia).
  - cbn [jcost dumps]. destruct (print_int_head z) as (c & r & E & _). rewrite E. cbn. lia.
  - rewrite jcost_list in *. cbn [dumps]. cbn [length]. rewrite app_length. cbn [length].
    assert (E : (ecost l <= fold_right (fun a m => (length a + m)%nat) O (map dumps l) + length l)%nat).
    { assert (C' : (ecost l <= n)%nat) by lia. clear C. induction l as [|x l IHl]; [cbn; lia|].
      cbn [ecost map fold_right length] in *. pose proof (IH x ltac:(lia)). pose proof (IHl ltac:(lia)). lia. }
    (* each element contributes its text and (all but one) a separator; the brackets make up for the rest *)
    assert (T : (fold_right (fun a m => (length a + m)%nat) O (map dumps l) + length l <= length (join 44 (map dumps l)) + 1)%nat).
    { clear. induction l as [|x l IHl]; [cbn; lia|]. destruct l as [|y l]; [cbn; lia|].
      change (map dumps (x :: y :: l)) with (dumps x :: map dumps (y :: l)).
      change (join 44 (dumps x :: map dumps (y :: l))) with (dumps x ++ 44 :: join 44 (map dumps (y :: l))).
      rewrite app_length. cbn [length fold_right] in *. lia. }
    lia.
  - rewrite jcost_dict in *. cbn [dumps]. cbn [length]. rewrite app_length. cbn [length].
    change (map (fun kv0 => jstring (fst kv0) ++ 58 :: dumps (snd kv0)) d) with (map mtext d).
    assert (E : (mcost d <= fold_right (fun a m => (length a + m)%nat) O (map mtext d) + length d)%nat).
    { assert (C' : (mcost d <= n)%nat) by lia. clear C. induction d as [|x d IHd]; [cbn; lia|].
      cbn [mcost map fold_right length] in *. pose proof (IH (snd x) ltac:(lia)). pose proof (IHd ltac:(lia)).
      assert ((length (dumps (snd x)) <= length (mtext x))%nat) by (unfold mtext; rewrite app_length; cbn [length]; lia). lia. }
    assert (T : (fold_right (fun a m => (length a + m)%nat) O (map mtext d) + length d <= length (join 44 (map mtext d)) + 1)%nat).
    { clear. induction d as [|x d IHd]; [cbn; lia|]. destruct d as [|y d]; [cbn; lia|].
      change (map mtext (x :: y :: d)) with (mtext x :: map mtext (y :: d)).
      change (join 44 (mtext x :: map mtext (y :: d))) with (mtext x ++ 44 :: join 44 (map mtext (y :: d))).
      rewrite app_length. cbn [length fold_right] in *. lia. }
    lia.
Qed.

Theorem loads_dumps v : valid_jv v -> loads (dumps v) = Some v.
Proof.
  intros V. unfold loads.
  pose proof (cost_le_length (jcost v) v (le_n _)) as L.
  destruct (parse_all (S (length (dumps v)))) as [P _].
  specialize (P v [] V ltac:(lia) I). rewrite app_nil_r in P. rewrite P. reflexivity.
Qed.

(* a parsed value followed by other text (what the SQLite helper functions and nested parsing rely on) *)
Theorem parse_dumps_prefix v rest : valid_jv v -> ok_rest rest ->
  parse_value (jcost v) (dumps v ++ rest) = Some (v, rest).
Proof. intros V R. destruct (parse_all (jcost v)) as [P _]. apply P; [exact V | lia | exact R]. Qed.
