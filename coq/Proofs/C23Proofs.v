(* C23 - the batch criteria select exactly the rows whose key is one of the batch keys. *)
Require Import PonyV.Base.PyBase PonyV.Model.C23Batch.
From Coq Require Import Arith Lia.
Open Scope nat_scope.

Lemma zs_eqb_eq : forall a b, zs_eqb a b = true <-> a = b.
Proof.
  induction a as [|x a IH]; destruct b as [|y b]; cbn; split; intros H; try discriminate; auto.
  - apply andb_true_iff in H as [H1 H2]. apply Z.eqb_eq in H1. apply IH in H2. congruence.
  - inversion H; subst. rewrite Z.eqb_refl. cbn. apply IH. reflexivity.
Qed.

Section Key.
  Variable args : list (list Z).
  Variable row : nat -> Z.
  Variable ncols start : nat.

  Definition rowkey : list Z := map row (seq 0 ncols).
  Definition arg (i : nat) : list Z := nth i args [].

  (* the row agrees with key k on every column  <->  its key is k *)
  Lemma cols_agree : forall k, length k = ncols ->
    ((forall j, j < ncols -> row j = nth j k 0%Z) <-> rowkey = k).
  Proof.
    intros k Hl. unfold rowkey. split.
    - intros H. apply nth_ext with (d := 0%Z) (d' := 0%Z).
      + rewrite map_length, seq_length. auto.
      + intros n Hn. rewrite map_length, seq_length in Hn.
        rewrite (nth_indep _ 0%Z (row 0)) by (rewrite map_length, seq_length; auto).
        rewrite map_nth with (d := 0). rewrite seq_nth by auto. cbn. apply H; auto.
    - intros <- j Hj.
      rewrite (nth_indep _ 0%Z (row 0)) by (rewrite map_length, seq_length; auto).
      rewrite map_nth with (d := 0). rewrite seq_nth by auto. reflexivity.
  Qed.

  Lemma forallb_cols : forall (f : nat -> bool), forallb f (seq 0 ncols) = true <-> forall j, j < ncols -> f j = true.
  Proof.
    intros f. rewrite forallb_forall. split.
    - intros H j Hj. apply H. apply in_seq. lia.
    - intros H j Hj. apply in_seq in Hj. apply H. lia.
  Qed.

  Lemma existsb_batch : forall batch (f : nat -> bool), existsb f (seq 0 batch) = true <-> exists i, i < batch /\ f i = true.
  Proof.
    intros batch f. rewrite existsb_exists. split.
    - intros [i [Hi Hf]]. apply in_seq in Hi. exists i. split; [lia | auto].
    - intros [i [Hi Hf]]. exists i. split; auto. apply in_seq. lia.
  Qed.

  (* keys = the batch: args[start .. start+batch) ; all of the right width *)
  Variable keys : list (list Z).
  Hypothesis Hkeys : forall i, i < length keys -> arg (i + start) = nth i keys [].
  Hypothesis Hwidth : forall k, In k keys -> length k = ncols.

  Lemma in_keys_index : forall k, In k keys <-> exists i, i < length keys /\ nth i keys [] = k.
  Proof.
    intros k. split.
    - intros H. destruct (In_nth _ _ [] H) as [i [Hi Hn]]. eauto.
    - intros [i [Hi <-]]. apply nth_In. auto.
  Qed.

  Lemma key_i_width : forall i, i < length keys -> length (nth i keys []) = ncols.
  Proof. intros i Hi. apply Hwidth. apply nth_In. auto. Qed.

  Lemma key_as_map : forall i, i < length keys ->
    map (val args) (map (fun j => (i + start, j)) (seq 0 ncols)) = nth i keys [].
  Proof.
    intros i Hi. rewrite map_map. apply nth_ext with (d := 0%Z) (d' := 0%Z).
    - rewrite map_length, seq_length. symmetry. apply key_i_width. auto.
    - intros n Hn. rewrite map_length, seq_length in Hn.
      rewrite (nth_indep _ 0%Z (val args (i + start, 0))) by (rewrite map_length, seq_length; auto).
      rewrite map_nth with (d := 0). rewrite seq_nth by auto. unfold val; cbn. fold (arg (i + start)). rewrite Hkeys by auto. reflexivity.
  Qed.

  Theorem batch_criteria : forall rvs, 1 <= length keys ->
    sem_all args row (construct ncols (length keys) start rvs) = true <-> In rowkey keys.
  Proof.
    intros rvs Hb. unfold construct, sem_all.
    destruct (Nat.eqb (length keys) 1) eqn:E1.
    - (* one key: '=' per column *)
      apply Nat.eqb_eq in E1. rewrite forallb_forall.
      destruct keys as [|k [|k2 ks]] eqn:Hk; cbn in E1; try lia. 
      assert (Harg : arg start = k) by (specialize (Hkeys 0); cbn in Hkeys; apply Hkeys; lia).
      assert (Hlk : length k = ncols) by (apply Hwidth; left; auto).
      split.
      + intros H. left. symmetry. apply cols_agree; auto. intros j Hj.
        specialize (H (CEq j (start, j))). cbn in H. unfold val in H; cbn in H. fold (arg start) in H. rewrite Harg in H.
        apply Z.eqb_eq. apply H. apply in_map_iff. exists j. split; auto. apply in_seq. lia.
      + intros [H|[]]. intros c Hc. apply in_map_iff in Hc. destruct Hc as [j [<- Hj]]. apply in_seq in Hj.
        cbn. unfold val; cbn. fold (arg start). rewrite Harg. apply Z.eqb_eq.
        symmetry in H. apply (proj2 (cols_agree k Hlk)) with (j := j) in H; [auto | lia].
    - destruct (Nat.eqb ncols 1) eqn:E2.
      + (* one column: IN *)
        apply Nat.eqb_eq in E2. cbn. rewrite andb_true_r. rewrite existsb_exists. rewrite in_keys_index. split.
        * intros [p [Hp Hv]]. apply in_map_iff in Hp. destruct Hp as [i [<- Hi]]. apply in_seq in Hi. exists i. split; [lia|].
          unfold val in Hv; cbn in Hv. fold (arg (i + start)) in Hv. rewrite Hkeys in Hv by lia.
          apply Z.eqb_eq in Hv. symmetry. apply cols_agree; [apply key_i_width; lia|].
          intros j Hj. assert (j = 0) by lia. subst j. auto.
        * intros [i [Hi Hk]]. exists (i + start, 0). split; [apply in_map_iff; exists i; split; auto; apply in_seq; lia|].
          unfold val; cbn. fold (arg (i + start)). rewrite Hkeys by auto. apply Z.eqb_eq.
          symmetry in Hk. apply (proj2 (cols_agree _ (key_i_width i Hi))) with (j := 0) in Hk; [auto | lia].
      + destruct rvs.
        * (* row-value IN *)
          cbn. rewrite andb_true_r. rewrite existsb_exists. rewrite in_keys_index. split.
          -- intros [ps [Hp Hv]]. apply in_map_iff in Hp. destruct Hp as [i [<- Hi]]. apply in_seq in Hi. exists i. split; [lia|].
             apply zs_eqb_eq in Hv. fold rowkey in Hv. rewrite Hv. symmetry. apply key_as_map. lia.
          -- intros [i [Hi Hk]]. exists (map (fun j => (i + start, j)) (seq 0 ncols)). split; [apply in_map_iff; exists i; split; auto; apply in_seq; lia|].
             apply zs_eqb_eq. fold rowkey. rewrite <- Hk. symmetry. apply key_as_map. auto.
        * (* OR of ANDs *)
          cbn. rewrite andb_true_r. rewrite existsb_exists. rewrite in_keys_index. split.
          -- intros [conj [Hc Hv]]. apply in_map_iff in Hc. destruct Hc as [i [<- Hi]]. apply in_seq in Hi. exists i. split; [lia|].
             symmetry. apply cols_agree; [apply key_i_width; lia|]. intros j Hj.
             rewrite forallb_forall in Hv. specialize (Hv (j, (i + start, j))). cbn in Hv. unfold val in Hv; cbn in Hv.
             fold (arg (i + start)) in Hv. rewrite Hkeys in Hv by lia. apply Z.eqb_eq. apply Hv.
             apply in_map_iff. exists j. split; auto. apply in_seq. lia.
          -- intros [i [Hi Hk]]. exists (map (fun j => (j, (i + start, j))) (seq 0 ncols)). split; [apply in_map_iff; exists i; split; auto; apply in_seq; lia|].
             rewrite forallb_forall. intros jp Hjp. apply in_map_iff in Hjp. destruct Hjp as [j [<- Hj]]. apply in_seq in Hj. cbn.
             unfold val; cbn. fold (arg (i + start)). rewrite Hkeys by auto. apply Z.eqb_eq.
             symmetry in Hk. apply (proj2 (cols_agree _ (key_i_width i Hi))) with (j := j) in Hk; [auto | lia].
  Qed.
End Key.
