(* C14 (and the database frame used by C09), part 2: every function of the session model keeps a predicate over the two databases
   of a session,  Pd s := Q (s_db s) (s_committed s),  whenever the three writing statements of the database model keep Q.
   Only _save_created_ / _save_updated_ / _save_deleted_ write s_db (through db_insert / db_update / db_delete); commit copies
   s_db to s_committed; rollback and a failed commit copy s_committed back.  Everything else leaves both databases alone,
   which the tactic pdauto checks function by function (the lemma statements follow the signatures in Model/Session.v).
   Instances at the end: Q = both databases satisfy their key constraints (C14); Q = the committed database is a given one. *)
Require Import PonyV.Model.SessionBase PonyV.Model.SessionDb PonyV.Model.Session.
Require Import PonyV.Proofs.SessionLemmas PonyV.Proofs.SessionState PonyV.Proofs.SessionIdx PonyV.Proofs.SessionDbInv.
From Coq Require Import Arith.

Section WithSchemaPd.
Variable sch : schema.

Section Generic.
(* Q also sees the dirty flag (third argument), so that "a dirty session stays dirty" is an instance too *)
Variable Q : db -> db -> nat -> Prop.
(* (the INSERT of the model always carries one column per attribute: instances may rely on it) *)
Hypothesis Q_ins : forall d c n e pk cols d' pk', Q d c n -> length cols = nattrs sch e -> db_insert sch d e pk cols = inr (d', pk') -> Q d' c n.
Hypothesis Q_upd : forall d c n e pk asg d', Q d c n -> db_update sch d e pk asg = inr d' -> Q d' c n.
Hypothesis Q_del : forall d c n e pk d', Q d c n -> db_delete sch d e pk = inr d' -> Q d' c n.
Hypothesis Q_dirty : forall d c n site, Q d c n -> Q d c (match n with O => site | S m => S m end).

Definition Pd (s : sess) : Prop := Q (s_db s) (s_committed s) (s_dirty s).
Definition Pdo {A} (r : out A) : Prop := Pd (out_state r).
Definition Pdp {A} (r : sess * A) : Prop := Pd (fst r).
Definition Pdp3 {A B} (r : sess * A * B) : Prop := Pd (fst (fst r)).

Lemma Pdo_Ok_i : forall A s (x : A), Pd s -> Pdo (Ok s x). Proof. auto. Qed.
Lemma Pdo_Err_i : forall A s e, Pd s -> Pdo (@Err A s e). Proof. auto. Qed.
Lemma Pdp_i : forall A s (x : A), Pd s -> Pdp (s, x). Proof. auto. Qed.
Lemma Pdp3_i : forall A B s (x : A) (y : B), Pd s -> Pdp3 (s, x, y). Proof. auto. Qed.
Lemma Pdo_ok : forall A (r : out A) s x, Pdo r -> r = Ok s x -> Pd s. Proof. intros; subst; auto. Qed.
Lemma Pdo_err : forall A (r : out A) s e, Pdo r -> r = Err s e -> Pd s. Proof. intros; subst; auto. Qed.
Lemma Pdp_ok : forall A (r : sess * A) s x, Pdp r -> r = (s, x) -> Pd s. Proof. intros; subst; auto. Qed.
Lemma Pdp3_ok : forall A B (r : sess * A * B) s x y, Pdp3 r -> r = (s, x, y) -> Pd s. Proof. intros; subst; auto. Qed.

Lemma Pd_set_objs : forall s x, Pd s -> Pd (set_objs s x). Proof. intros s x H; exact H. Qed.
Lemma Pd_set_idx : forall s x, Pd s -> Pd (set_idx s x). Proof. intros s x H; exact H. Qed.
Lemma Pd_set_tosave : forall s x, Pd s -> Pd (set_tosave s x). Proof. intros s x H; exact H. Qed.
Lemma Pd_set_modcoll : forall s x, Pd s -> Pd (set_modcoll s x). Proof. intros s x H; exact H. Qed.
Lemma Pd_set_modified : forall s x, Pd s -> Pd (set_modified s x). Proof. intros s x H; exact H. Qed.
Lemma Pd_set_savedpend : forall s x, Pd s -> Pd (set_savedpend s x). Proof. intros s x H; exact H. Qed.
Lemma Pd_set_handles : forall s x, Pd s -> Pd (set_handles s x). Proof. intros s x H; exact H. Qed.
Lemma Pd_mark_dirty : forall s x, Pd s -> Pd (mark_dirty s x). Proof. intros s x H. change (Q (s_db s) (s_committed s) (match s_dirty s with O => x | S m => S m end)). exact (Q_dirty (s_db s) (s_committed s) (s_dirty s) x H). Qed.
Lemma Pd_set_collstat : forall s x, Pd s -> Pd (set_collstat s x). Proof. intros s x H; exact H. Qed.
Lemma Pd_set_ordsens : forall s x, Pd s -> Pd (set_ordsens s x). Proof. intros s x H; exact H. Qed.
Lemma Pd_mark_declined : forall s, Pd s -> Pd (mark_declined s). Proof. intros s H; exact H. Qed.

Hint Resolve Pdo_Ok_i Pdo_Err_i Pdp_i Pdp3_i Pd_set_objs Pd_set_idx Pd_set_tosave Pd_set_modcoll Pd_set_modified Pd_set_savedpend
  Pd_set_handles Pd_mark_dirty Pd_set_collstat Pd_set_ordsens Pd_mark_declined : pd.
Ltac is_not_var r := tryif is_var r then fail else idtac.
Hint Extern 1 (Pd ?s) => match goal with
  | H : ?r = Ok s ?x |- _ => is_not_var r; apply (@Pdo_ok _ r s x); [|exact H]
  | H : ?r = Err s ?x |- _ => is_not_var r; apply (@Pdo_err _ r s x); [|exact H]
  | H : ?r = (s, ?x) |- _ => is_not_var r; apply (@Pdp_ok _ r s x); [|exact H]
  | H : ?r = (s, ?x, ?y) |- _ => is_not_var r; apply (@Pdp3_ok _ _ r s x y); [|exact H]
  end : pd.
Hint Extern 1 => progress cbv zeta : pd.
Hint Extern 20 => match goal with |- context [match ?x with _ => _ end] => destruct x eqn:? end : pd.
Ltac pdauto := auto 60 with pd.

Lemma Pd_fold_left : forall A (f : sess -> A -> sess) l s, (forall s0 x, Pd s0 -> Pd (f s0 x)) -> Pd s -> Pd (fold_left f l s).
Proof. induction l as [|x l IH]; intros s F H; simpl; auto. Qed.
Hint Resolve Pd_fold_left : pd.

Lemma Pd_put_obj : forall (s : sess) (o : oid) (ob : obj), Pd s -> Pd (put_obj s o ob).
Proof. intros. unfold put_obj. pdauto. Qed.
Hint Resolve Pd_put_obj : pd.

Lemma Pd_upd_obj : forall (s : sess) (o : oid) (f : obj -> obj), Pd s -> Pd (upd_obj s o f).
Proof. intros. unfold upd_obj. pdauto. Qed.
Hint Resolve Pd_upd_obj : pd.

Lemma Pd_push_obj : forall (s : sess) (ob : obj), Pd s -> Pdp (push_obj s ob).
Proof. intros. unfold push_obj. pdauto. Qed.
Hint Resolve Pd_push_obj : pd.

Lemma Pd_idx_put : forall (s : sess) (e : nat) (k : nat) (v : val) (o : oid), Pd s -> Pd (idx_put s e k v o).
Proof. intros. unfold idx_put. pdauto. Qed.
Hint Resolve Pd_idx_put : pd.

Lemma Pd_idx_del : forall (s : sess) (e : nat) (k : nat) (v : val), Pd s -> Pd (idx_del s e k v).
Proof. intros. unfold idx_del. pdauto. Qed.
Hint Resolve Pd_idx_del : pd.

Lemma Pd_queue : forall (s : sess) (o : oid), Pd s -> Pd (queue s o).
Proof. intros. unfold queue. pdauto. Qed.
Hint Resolve Pd_queue : pd.

Lemma Pd_unqueue_slot : forall (s : sess) (pos : option nat), Pd s -> Pd (unqueue_slot s pos).
Proof. intros. unfold unqueue_slot. pdauto. Qed.
Hint Resolve Pd_unqueue_slot : pd.

Lemma Pd_mark_written : forall (s : sess) (o : oid) (a : nat), Pd s -> Pd (mark_written s o a).
Proof. intros. unfold mark_written. pdauto. Qed.
Hint Resolve Pd_mark_written : pd.

Lemma Pd_modcoll_add : forall (s : sess) (o : oid) (a : nat), Pd s -> Pd (modcoll_add s o a).
Proof. intros. unfold modcoll_add. pdauto. Qed.
Hint Resolve Pd_modcoll_add : pd.

Lemma Pd_rev_add : forall (s : sess) (owner : oid) (a : nat) (item : oid), Pd s -> Pd (rev_add s owner a item).
Proof. intros. unfold rev_add. pdauto. Qed.
Hint Resolve Pd_rev_add : pd.

Lemma Pd_rev_remove : forall (s : sess) (owner : oid) (a : nat) (item : oid), Pd s -> Pd (rev_remove s owner a item).
Proof. intros. unfold rev_remove. pdauto. Qed.
Hint Resolve Pd_rev_remove : pd.

Lemma Pd_get_or_seed : forall (s : sess) (e : nat) (pk : Z), Pd s -> Pdp (get_or_seed sch s e pk).
Proof. intros. unfold get_or_seed. pdauto. Qed.
Hint Resolve Pd_get_or_seed : pd.

Lemma Pd_parse_cols : forall cols s e a, Pd s -> Pdp (parse_cols sch s e a cols).
Proof.
  induction cols as [|c t IH]; intros s e a H; simpl. pdauto.
  destruct (ref_info sch e a) as [[tgt r]|]; [destruct c|].
  all: try (specialize (IH s e (S a) H); destruct (parse_cols sch s e (S a) t) eqn:?; exact IH).
  pose proof (Pd_get_or_seed s tgt z H) as G. destruct (get_or_seed sch s tgt z) as [s1 o] eqn:?.
  specialize (IH s1 e (S a) G). destruct (parse_cols sch s1 e (S a) t) eqn:?. exact IH.
Qed.
Hint Resolve Pd_parse_cols : pd.


Lemma Pd_db_rev_add : forall (s : sess) (owner : oid) (a : nat) (item : oid), Pd s -> Pdo (db_rev_add s owner a item).
Proof. intros. unfold db_rev_add. pdauto. Qed.
Hint Resolve Pd_db_rev_add : pd.

Lemma Pd_db_rev_remove : forall (s : sess) (owner : oid) (a : nat) (item : oid), Pd s -> Pd (db_rev_remove s owner a item).
Proof. intros. unfold db_rev_remove. pdauto. Qed.
Hint Resolve Pd_db_rev_remove : pd.

Lemma Pd_dbset_index : forall (s : sess) (o : oid) (e : nat) (a : nat) (v : val), Pd s -> Pd (dbset_index sch s o e a v).
Proof. intros. unfold dbset_index. pdauto. Qed.
Hint Resolve Pd_dbset_index : pd.

Lemma Pd_dbset_attr : forall (s : sess) (o : oid) (e : nat) (a : nat) (v : val), Pd s -> Pdo (dbset_attr sch s o e a v).
Proof. intros. unfold dbset_attr. pdauto. Qed.
Hint Resolve Pd_dbset_attr : pd.

Lemma Pd_dbset_loop : forall vals s o e a, Pd s -> Pdo (dbset_loop sch s o e a vals).
Proof.
  induction vals as [|v t IH]; intros s o e a H; simpl. pdauto.
  pose proof (Pd_dbset_attr s o e a v H) as G. destruct (dbset_attr sch s o e a v) as [s1 u|s1 er]. apply IH. exact G. exact G.
Qed.
Hint Resolve Pd_dbset_loop : pd.


Lemma Pd_db_set_obj : forall (s : sess) (o : oid) (e : nat) (vals : list val), Pd s -> Pdo (db_set_obj sch s o e vals).
Proof. intros. unfold db_set_obj. pdauto. Qed.
Hint Resolve Pd_db_set_obj : pd.

Lemma Pd_load_row : forall (s : sess) (e : nat) (r : row), Pd s -> Pdo (load_row sch s e r).
Proof. intros. unfold load_row. pdauto. Qed.
Hint Resolve Pd_load_row : pd.

Lemma Pd_load_rows : forall rows s e, Pd s -> Pdo (load_rows sch s e rows).
Proof.
  induction rows as [|r t IH]; intros s e H; simpl. pdauto.
  pose proof (Pd_load_row s e r H) as G. destruct (load_row sch s e r) as [s1 x|s1 er]; [|exact G].
  specialize (IH s1 e G). destruct (load_rows sch s1 e t); exact IH.
Qed.
Hint Resolve Pd_load_rows : pd.


Lemma Pd_load_obj_noflush : forall (s : sess) (o : oid), Pd s -> Pdo (load_obj_noflush sch s o).
Proof. intros. unfold load_obj_noflush. pdauto. Qed.
Hint Resolve Pd_load_obj_noflush : pd.

Lemma Pd_coll_mark_full : forall (s : sess) (o : oid) (a : nat), Pd s -> Pd (coll_mark_full s o a).
Proof. intros. unfold coll_mark_full. pdauto. Qed.
Hint Resolve Pd_coll_mark_full : pd.

Lemma Pd_coll_ensure : forall (s : sess) (o : oid) (a : nat), Pd s -> Pd (coll_ensure s o a).
Proof. intros. unfold coll_ensure. pdauto. Qed.
Hint Resolve Pd_coll_ensure : pd.

Lemma Pd_coll_load_noflush : forall (s : sess) (o : oid) (a : nat), Pd s -> Pdo (coll_load_noflush sch s o a).
Proof. intros. unfold coll_load_noflush. pdauto. Qed.
Hint Resolve Pd_coll_load_noflush : pd.

Lemma Pd_save_created : forall s o, Pd s -> Pdo (save_created sch s o).
Proof.
  intros s o H. unfold save_created. destruct (get_obj s o) as [ob|]; [|pdauto].
  destruct (negb (status_eqb (o_st ob) SCreated)). pdauto.
  cbv zeta. destruct (db_insert sch (s_db s) (o_ent ob) (o_pk ob) (row_of_obj sch s ob)) as [er|[d' newpk]] eqn:I.
  destruct er; pdauto.
  assert (H1 : Pd (set_db s d')). { refine (Q_ins _ _ _ _ _ _ _ _ H _ I). unfold row_of_obj. rewrite map_length, seq_length. reflexivity. }
  pdauto.
Qed.
Hint Resolve Pd_save_created : pd.


Lemma Pd_save_updated : forall s o, Pd s -> Pdo (save_updated sch s o).
Proof.
  intros s o H. unfold save_updated. destruct (get_obj s o) as [ob|]; [|pdauto].
  destruct (negb (status_eqb (o_st ob) SModified)). pdauto.
  cbv zeta. destruct (existsb _ _). pdauto.
  destruct (written_asg sch s ob) as [|p asg]. pdauto. destruct (o_pk ob) as [pk|]; [|pdauto].
  destruct (db_update sch (s_db s) (o_ent ob) pk (p :: asg)) as [er|d'] eqn:I. destruct er; pdauto.
  assert (H1 : Pd (set_db s d')). { exact (Q_upd _ _ _ _ _ _ _ H I). }
  pdauto.
Qed.
Hint Resolve Pd_save_updated : pd.


Lemma Pd_save_deleted : forall s o, Pd s -> Pdo (save_deleted sch s o).
Proof.
  intros s o H. unfold save_deleted. destruct (get_obj s o) as [ob|]; [|pdauto].
  destruct (negb (status_eqb (o_st ob) SMarked)). pdauto.
  destruct (o_pk ob) as [pk|]; [|pdauto].
  destruct (db_delete sch (s_db s) (o_ent ob) pk) as [er|d'] eqn:I. pdauto.
  assert (H1 : Pd (set_db s d')). { exact (Q_del _ _ _ _ _ _ H I). }
  pdauto.
Qed.
Hint Resolve Pd_save_deleted : pd.


Lemma Pd_save_principals : forall (rec : sess -> oid -> out unit) ob l s0,
  (forall s1 p, Pd s1 -> Pdo (rec s1 p)) -> Pd s0 -> Pdo (save_principals rec ob s0 l).
Proof.
  induction l as [|a t IH]; intros s0 R H; simpl. pdauto.
  destruct (oval ob a) as [[| | |p]|]; auto.
  destruct (status_eqb (obj_st s0 p) SCreated); auto.
  pose proof (R s0 p H) as G. destruct (rec s0 p) as [s1 u|s1 er]; [apply IH; [exact R|exact G]|exact G].
Qed.
Hint Resolve Pd_save_principals : pd.


Lemma Pd_save_obj : forall fuel s o deps, Pd s -> Pdo (save_obj fuel sch s o deps).
Proof.
  induction fuel as [|f IH]; intros s o deps H; simpl. pdauto.
  destruct (get_obj s o) as [ob|]; [|pdauto].
  match goal with |- Pdo (match ?r0 with _ => _ end) => assert (G : Pdo r0); [|destruct r0 as [s1 u|s1 er]; [|exact G]] end.
  { destruct (status_eqb (o_st ob) SCreated || status_eqb (o_st ob) SModified); [|pdauto].
    destruct (mem_nat o deps). pdauto. apply Pd_save_principals; auto. }
  match goal with |- Pdo (match ?r1 with _ => _ end) => assert (G1 : Pdo r1); [|destruct r1 as [s2 u2|s2 er]; [|exact G1]] end.
  { destruct (o_st ob); pdauto. }
  pdauto.
Qed.
Hint Resolve Pd_save_obj : pd.


Lemma Pd_calc_modcoll : forall (s : sess), Pd s -> Pd (calc_modcoll s).
Proof. intros. unfold calc_modcoll. pdauto. Qed.
Hint Resolve Pd_calc_modcoll : pd.

Lemma Pd_flush_loop : forall l s, Pd s -> Pdo (flush_loop sch s l).
Proof.
  induction l as [|i t IH]; intros s H; cbn [flush_loop]. pdauto.
  destruct (nth i (s_tosave s) None) as [o|]; auto.
  pose proof (Pd_save_obj (S (length (s_objs s))) s o [] H) as G. destruct (save_obj (S (length (s_objs s))) sch s o []) as [s1 u|s1 er]; [apply IH; exact G|exact G].
Qed.
Hint Resolve Pd_flush_loop : pd.


Lemma Pd_flush : forall (s : sess), Pd s -> Pdo (flush sch s).
Proof. intros. unfold flush. pdauto. Qed.
Hint Resolve Pd_flush : pd.

Lemma Pd_auto_flush : forall (s : sess), Pd s -> Pdo (auto_flush sch s).
Proof. intros. unfold auto_flush. pdauto. Qed.
Hint Resolve Pd_auto_flush : pd.

Lemma Pd_handle_of : forall (s : sess) (o : oid), Pd s -> Pdp (handle_of s o).
Proof. intros. unfold handle_of. pdauto. Qed.
Hint Resolve Pd_handle_of : pd.

Lemma Pd_handles_of : forall os s, Pd s -> Pdp (handles_of s os).
Proof.
  induction os as [|o t IH]; intros s H; simpl. pdauto.
  pose proof (Pd_handle_of s o H) as G. destruct (handle_of s o) as [s1 h]. specialize (IH s1 G). destruct (handles_of s1 t). exact IH.
Qed.
Hint Resolve Pd_handles_of : pd.


Lemma Pd_objs_res : forall (s : sess) (os : list oid), Pd s -> Pdp (objs_res s os).
Proof. intros. unfold objs_res. pdauto. Qed.
Hint Resolve Pd_objs_res : pd.

Lemma Pd_ref_set_rev : forall (s : sess) (item : oid) (a : nat) (newv : val), Pd s -> Pd (ref_set_rev sch s item a newv).
Proof. intros. unfold ref_set_rev. pdauto. Qed.
Hint Resolve Pd_ref_set_rev : pd.

Lemma Pd_ref_set_direct : forall (s : sess) (o : oid) (a : nat) (newv : val), Pd s -> Pd (ref_set_direct sch s o a newv).
Proof. intros. unfold ref_set_direct. pdauto. Qed.
Hint Resolve Pd_ref_set_direct : pd.

Lemma Pd_put_sd : forall (s : sess) (o : oid) (a : nat) (sd : setdata), Pd s -> Pd (put_sd s o a sd).
Proof. intros. unfold put_sd. pdauto. Qed.
Hint Resolve Pd_put_sd : pd.

Lemma Pd_sd_add_item : forall (s : sess) (o : oid) (a : nat) (item : oid), Pd s -> Pd (sd_add_item s o a item).
Proof. intros. unfold sd_add_item. pdauto. Qed.
Hint Resolve Pd_sd_add_item : pd.

Lemma Pd_item_link : forall (s : sess) (o : oid) (a : nat) (r : nat) (item : oid), Pd s -> Pd (item_link sch s o a r item).
Proof. intros. unfold item_link. pdauto. Qed.
Hint Resolve Pd_item_link : pd.

Lemma Pd_coll_load_items : forall (s : sess) (o : oid) (a : nat) (items : list oid), Pd s -> Pdo (coll_load_items sch s o a items).
Proof. intros. unfold coll_load_items. pdauto. Qed.
Hint Resolve Pd_coll_load_items : pd.

Lemma Pd_note_order : forall A (s : sess) (l : list A), Pd s -> Pd (note_order s l).
Proof. intros. unfold note_order. pdauto. Qed.
Hint Resolve Pd_note_order : pd.

Lemma Pd_coll_add : forall (s : sess) (o : oid) (a : nat) (items : list oid), Pd s -> Pdo (coll_add sch s o a items).
Proof. intros. unfold coll_add. pdauto. Qed.
Hint Resolve Pd_coll_add : pd.

Lemma Pd_coll_nonzero : forall (s : sess) (o : oid) (a : nat), Pd s -> Pdo (coll_nonzero sch s o a).
Proof. intros. unfold coll_nonzero. pdauto. Qed.
Hint Resolve Pd_coll_nonzero : pd.

Lemma Pd_fold_out : forall A (f : sess -> A -> out unit) l s, (forall s0 x, Pd s0 -> Pdo (f s0 x)) -> Pd s -> Pdo (fold_out f s l).
Proof.
  induction l as [|x t IH]; intros s F H; simpl. pdauto.
  pose proof (F s x H) as G. destruct (f s x) as [s1 u|s1 er]; [apply IH; [exact F|exact G]|exact G].
Qed.
Hint Resolve Pd_fold_out : pd.


Lemma Pd_coll_assign_gen : forall (del : sess -> oid -> out unit) (s : sess) (o : oid) (a : nat) (items : list oid), (forall s0 x0, Pd s0 -> Pdo (del s0 x0)) -> Pd s -> Pdo (coll_assign_gen del sch s o a items).
Proof. intros. unfold coll_assign_gen. pdauto. Qed.
Hint Resolve Pd_coll_assign_gen : pd.

Lemma Pd_coll_remove_gen : forall (del : sess -> oid -> out unit) (s : sess) (o : oid) (a : nat) (items : list oid), (forall s0 x0, Pd s0 -> Pdo (del s0 x0)) -> Pd s -> Pdo (coll_remove_gen del sch s o a items).
Proof. intros. unfold coll_remove_gen. pdauto. Qed.
Hint Resolve Pd_coll_remove_gen : pd.

Lemma Pd_del_unlink : forall (s : sess) (o : oid) (e : nat) (l : list nat), Pd s -> Pd (del_unlink sch s o e l).
Proof. intros. unfold del_unlink. pdauto. Qed.
Hint Resolve Pd_del_unlink : pd.

Lemma Pd_del_keys : forall (s : sess) (o : oid) (e : nat) (l : list nat), Pd s -> Pd (del_keys sch s o e l).
Proof. intros. unfold del_keys. pdauto. Qed.
Hint Resolve Pd_del_keys : pd.

Lemma Pd_delete_tail : forall (s1 : sess) (o : oid) (ob : obj), Pd s1 -> Pdo (delete_tail sch s1 o ob).
Proof. intros. unfold delete_tail. pdauto. Qed.
Hint Resolve Pd_delete_tail : pd.

Lemma Pd_delete_obj : forall fuel s o, Pd s -> Pdo (delete_obj fuel sch s o).
Proof.
  induction fuel as [|f IH]; intros s o H; simpl. pdauto.
  destruct (get_obj s o) as [ob|]; [|pdauto]. destruct (is_del (o_st ob)). pdauto.
  match goal with |- Pdo (match ?r0 with _ => _ end) => assert (G : Pdo r0); [|destruct r0 as [s1 u|s1 er]; [|exact G]] end.
  { apply Pd_fold_out; [|exact H]. intros s0 a H0. pdauto. }
  pdauto.
Qed.
Hint Resolve Pd_delete_obj : pd.


Lemma Pd_coll_assign : forall s o a items, Pd s -> Pdo (coll_assign sch s o a items).
Proof. intros. unfold coll_assign. pdauto. Qed.
Lemma Pd_coll_remove : forall s o a items, Pd s -> Pdo (coll_remove sch s o a items).
Proof. intros. unfold coll_remove. pdauto. Qed.
Hint Resolve Pd_coll_assign Pd_coll_remove : pd.


Lemma Pd_put_keys : forall (s : sess) (o : oid) (e : nat) (l : list nat), Pd s -> Pd (put_keys sch s o e l).
Proof. intros. unfold put_keys. pdauto. Qed.
Hint Resolve Pd_put_keys : pd.

Lemma Pd_new_op : forall (s : sess) (e : nat) (pk : option Z) (kw : list (nat * arg)), Pd s -> Pdp (new_op sch s e pk kw).
Proof. intros. unfold new_op. pdauto. Qed.
Hint Resolve Pd_new_op : pd.

Lemma Pd_key_set : forall (s : sess) (o : oid) (e : nat) (a : nat) (nv : val), Pd s -> Pd (key_set s o e a nv).
Proof. intros. unfold key_set. pdauto. Qed.
Hint Resolve Pd_key_set : pd.

Lemma Pd_key_set_index_only : forall (s : sess) (o : oid) (e : nat) (a : nat) (nv : val), Pd s -> Pd (key_set_index_only s o e a nv).
Proof. intros. unfold key_set_index_only. pdauto. Qed.
Hint Resolve Pd_key_set_index_only : pd.

Lemma Pd_key_set_checked : forall (s : sess) (o : oid) (e : nat) (a : nat) (nv : val), Pd s -> Pd (key_set_checked sch s o e a nv).
Proof. intros. unfold key_set_checked. pdauto. Qed.
Hint Resolve Pd_key_set_checked : pd.

Lemma Pd_set_op : forall (s : sess) (h : nat) (a : nat) (v : arg), Pd s -> Pdp (set_op sch s h a v).
Proof. intros. unfold set_op. pdauto. Qed.
Hint Resolve Pd_set_op : pd.

Lemma Pd_setmany_scan : forall l o e acc changed, Pd acc -> Pdp3 (setmany_scan o e acc changed l).
Proof.
  induction l as [|[a v] t IH]; intros o e acc changed H; simpl. pdauto.
  destruct (key_conflict acc o e a v). pdauto. apply IH. pdauto.
Qed.
Hint Resolve Pd_setmany_scan : pd.


Lemma Pd_setmany_apply : forall (o : oid) (e : nat) (acc : sess) (p : nat * val), Pd acc -> Pd (setmany_apply sch o e acc p).
Proof. intros. unfold setmany_apply. pdauto. Qed.
Hint Resolve Pd_setmany_apply : pd.

Lemma Pd_setmany_op : forall (s : sess) (h : nat) (kw : list (nat * arg)), Pd s -> Pdp (setmany_op sch s h kw).
Proof. intros. unfold setmany_op. pdauto. Qed.
Hint Resolve Pd_setmany_op : pd.

Lemma Pd_lift_unit : forall (r : out unit), Pdo r -> Pdp (lift_unit r).
Proof. intros [s u|s e] H; exact H. Qed.
Hint Resolve Pd_lift_unit : pd.

Lemma Pd_delete_op : forall (s : sess) (h : nat), Pd s -> Pdp (delete_op sch s h).
Proof. intros. unfold delete_op. pdauto. Qed.
Hint Resolve Pd_delete_op : pd.

Lemma Pd_coll_op : forall (s : sess) (k : collop) (h : nat) (a : nat) (hs : list nat), Pd s -> Pdp (coll_op sch s k h a hs).
Proof. intros. unfold coll_op. pdauto. Qed.
Hint Resolve Pd_coll_op : pd.

Lemma Pd_read_op : forall (s : sess) (h : nat) (a : nat), Pd s -> Pdp (read_op sch s h a).
Proof. intros. unfold read_op. pdauto. Qed.
Hint Resolve Pd_read_op : pd.

Lemma Pd_pk_op : forall (s : sess) (h : nat), Pd s -> Pdp (pk_op s h).
Proof. intros. unfold pk_op. pdauto. Qed.
Hint Resolve Pd_pk_op : pd.

Lemma Pd_with_set_attr : forall (s : sess) (h : nat) (a : nat) (k : oid -> nat -> nat -> sess * res), Pd s -> (forall x0 y0 z0, Pdp (k x0 y0 z0)) -> Pdp (with_set_attr sch s h a k).
Proof. intros. unfold with_set_attr. pdauto. Qed.
Hint Resolve Pd_with_set_attr : pd.

Lemma Pd_count_op : forall (s : sess) (h : nat) (a : nat), Pd s -> Pdp (count_op sch s h a).
Proof. intros. unfold count_op. pdauto. Qed.
Hint Resolve Pd_count_op : pd.

Lemma Pd_isempty_op : forall (s : sess) (h : nat) (a : nat), Pd s -> Pdp (isempty_op sch s h a).
Proof. intros. unfold isempty_op. pdauto. Qed.
Hint Resolve Pd_isempty_op : pd.

Lemma Pd_contains_op : forall (s : sess) (h : nat) (a : nat) (h2 : nat), Pd s -> Pdp (contains_op sch s h a h2).
Proof. intros. unfold contains_op. pdauto. Qed.
Hint Resolve Pd_contains_op : pd.

Lemma Pd_getpk_op : forall (s : sess) (e : nat) (v : arg), Pd s -> Pdp (getpk_op sch s e v).
Proof. intros. unfold getpk_op. pdauto. Qed.
Hint Resolve Pd_getpk_op : pd.

Lemma Pd_getby_op : forall (s : sess) (e : nat) (a : nat) (v : arg), Pd s -> Pdp (getby_op sch s e a v).
Proof. intros. unfold getby_op. pdauto. Qed.
Hint Resolve Pd_getby_op : pd.

Lemma Pd_select_op : forall (s : sess) (e : nat) (a : nat) (v : arg), Pd s -> Pdp (select_op sch s e a v).
Proof. intros. unfold select_op. pdauto. Qed.
Hint Resolve Pd_select_op : pd.

Lemma Pd_selectall_op : forall (s : sess) (e : nat), Pd s -> Pdp (selectall_op sch s e).
Proof. intros. unfold selectall_op. pdauto. Qed.
Hint Resolve Pd_selectall_op : pd.

Lemma Pd_flush_op : forall s, Pd s -> Pdp (flush_op sch s).
Proof. intros. unfold flush_op. pdauto. Qed.
Hint Resolve Pd_flush_op : pd.

Lemma Pd_flushobj_op : forall (s : sess) (h : nat), Pd s -> Pdp (flushobj_op sch s h).
Proof. intros. unfold flushobj_op, flushobj_go. pdauto. Qed.
Hint Resolve Pd_flushobj_op : pd.

Lemma Pd_keep_declined : forall s0 s1, Pd s1 -> Pd (keep_declined s0 s1).
Proof. intros. unfold keep_declined. pdauto. Qed.

Definition is_txn_op (o : op) : bool := match o with OCommit | ORollback | ONewSession => true | _ => false end.

Lemma Pd_step_plain : forall s op, is_txn_op op = false -> Pd s -> Pd (fst (step sch s op)).
Proof.
  intros s op T H. change (Pdp (step sch s op)). unfold step. destruct (s_declined s). pdauto. destruct op; try discriminate T; pdauto.
Qed.

(* a uniform package, so that every instance takes the same arguments *)
Lemma Pd_generic : (forall s, Pd s -> Pdo (flush sch s)) /\ (forall s op, is_txn_op op = false -> Pd s -> Pd (fst (step sch s op))) /\ (forall s0 s1, Pd s1 -> Pd (keep_declined s0 s1)).
Proof. split. exact Pd_flush. split. exact Pd_step_plain. exact Pd_keep_declined. Qed.
End Generic.

(* ---------------------------------------------------------------- instance 1: the key constraints hold in both databases *)
Definition Qok (d c : db) (_ : nat) : Prop := db_ok sch d /\ db_ok sch c.
Definition Pd_ok (s : sess) : Prop := Pd Qok s.

Lemma Qok_generic : (forall s, Pd_ok s -> Pd_ok (out_state (flush sch s))) /\ (forall s op, is_txn_op op = false -> Pd_ok s -> Pd_ok (fst (step sch s op))) /\ (forall s0 s1, Pd_ok s1 -> Pd_ok (keep_declined s0 s1)).
Proof.
  apply (Pd_generic Qok).
  - intros d c n e pk cols d' pk' [A B] _ I. split; [|exact B]. exact (db_insert_ok _ _ _ _ _ _ _ A I).
  - intros d c n e pk asg d' [A B] I. split; [|exact B]. exact (db_update_ok _ _ _ _ _ _ A I).
  - intros d c n e pk d' [A B] I. split; [|exact B]. exact (db_delete_ok _ _ _ _ _ A I).
  - intros d c n site H. exact H.
Qed.

Lemma Pd_ok_reset : forall d, db_ok sch d -> Pd_ok (reset_sess d).
Proof. intros d H. split; exact H. Qed.

Lemma Pd_ok_step : forall s op, Pd_ok s -> Pd_ok (fst (step sch s op)).
Proof.
  intros s op H. destruct Qok_generic as (F & S & K). destruct (is_txn_op op) eqn:T; [|apply S; assumption].
  unfold step. destruct (s_declined s). exact H.
  destruct op; try discriminate T.
  - unfold commit_op. pose proof (F s H) as G. destruct (flush sch s) as [s1 u|s1 er]; cbn [fst].
    + split; apply G.
    + apply K. apply Pd_ok_reset. apply G.
  - unfold rollback_op. cbn [fst]. apply K. apply Pd_ok_reset. apply H.
  - unfold newsession_op. pose proof (F s H) as G. destruct (flush sch s) as [s1 u|s1 er]; cbn [fst]; apply K; apply Pd_ok_reset; apply G.
Qed.

Lemma Pd_ok_init : Pd_ok (init_sess sch).
Proof. split; apply db_ok_init. Qed.

Lemma Pd_ok_run : forall ops, Pd_ok (run sch ops).
Proof.
  intros ops. unfold run. generalize (init_sess sch) Pd_ok_init. induction ops as [|op t IH]; intros s P; simpl. exact P.
  apply IH. apply Pd_ok_step. exact P.
Qed.

(* C14: whatever the program did, no two committed rows share a primary key or a non-NULL unique-column value *)
Theorem committed_keys_unique_all_histories : forall ops, db_ok sch (s_committed (run sch ops)).
Proof. intros ops. apply (Pd_ok_run ops). Qed.

Theorem transaction_keys_unique_all_histories : forall ops, db_ok sch (s_db (run sch ops)).
Proof. intros ops. apply (Pd_ok_run ops). Qed.

(* ---------------------------------------------------------------- instance 2: the committed database is not touched *)
Definition Qc (c0 : db) (d c : db) (_ : nat) : Prop := c = c0.

Lemma Qc_generic : forall c0, (forall s, s_committed s = c0 -> s_committed (out_state (flush sch s)) = c0) /\ (forall s op, is_txn_op op = false -> s_committed s = c0 -> s_committed (fst (step sch s op)) = c0) /\ (forall s0 s1, s_committed s1 = c0 -> s_committed (keep_declined s0 s1) = c0).
Proof. intros c0. apply (Pd_generic (Qc c0)); unfold Qc; intros; assumption. Qed.

(* only commit (and leaving the db_session, which commits) changes the committed database *)
Theorem committed_changes_only_at_commit : forall s op, op <> OCommit -> op <> ONewSession -> s_committed (fst (step sch s op)) = s_committed s.
Proof.
  intros s op N1 N2. destruct (Qc_generic (s_committed s)) as (F & S & K). destruct (is_txn_op op) eqn:T; [|apply S; auto].
  destruct op; try discriminate T; try congruence.
  unfold step. destruct (s_declined s). reflexivity. unfold rollback_op. cbn [fst]. apply K. reflexivity.
Qed.

(* a commit that fails (a conflict found at flush time, for instance) leaves the committed database as it was and the session
   starts over from it; a commit that succeeds makes the committed database equal to the transaction's database *)
Theorem failed_commit_keeps_database : forall s e, s_declined s = false -> snd (commit_op sch s) = RErr e ->
  s_committed (fst (commit_op sch s)) = s_committed s /\ s_db (fst (commit_op sch s)) = s_committed s.
Proof.
  intros s e D R. destruct (Qc_generic (s_committed s)) as (F & _ & _). specialize (F s eq_refl).
  unfold commit_op in *. destruct (flush sch s) as [s1 u|s1 er]; cbn [fst snd out_state] in *. discriminate R.
  unfold keep_declined. destruct (s_declined s1); cbn; auto.
Qed.
(* ---------------------------------------------------------------- instance 3: a dirty session stays dirty (until the cache is reset) *)
Definition Qd (_ _ : db) (n : nat) : Prop := n <> O.

Lemma dirty_sticky : (forall s, s_dirty s <> O -> s_dirty (out_state (flush sch s)) <> O) /\
  (forall s o, is_txn_op o = false -> s_dirty s <> O -> s_dirty (fst (step sch s o)) <> O).
Proof.
  assert (G : (forall s, Pd Qd s -> Pdo Qd (flush sch s)) /\ (forall s o, is_txn_op o = false -> Pd Qd s -> Pd Qd (fst (step sch s o))) /\
              (forall s0 s1, Pd Qd s1 -> Pd Qd (keep_declined s0 s1))).
  { apply (Pd_generic Qd); unfold Qd; intros; auto. destruct n; [contradiction|discriminate]. }
  destruct G as (F & S & _). split. exact F. exact S.
Qed.
End WithSchemaPd.

(* ---------------------------------------------------------------- conflicts inside the session are reported when the change is made *)
Lemma new_taken_pk_reported : forall sch s e z kw o, idx_get s e O (VInt z) = Some o ->
  forall h, snd (new_op sch s e (Some z) kw) <> RObj h.
Proof.
  intros sch s e z kw o I h. unfold new_op. destruct (nth_error sch e) as [en|]; [|discriminate].
  destruct (negb (kw_handles_ok s kw)); [discriminate|].
  destruct (existsb _ kw); [discriminate|].
  destruct (negb (e_auto en) && false); [discriminate|].
  destruct (validate_all s (e_attrs en) 0 kw) as [cs|er|]; try discriminate.
  cbv zeta. destruct (key_conflicts sch s e _ _); [discriminate|]. rewrite I. discriminate.
Qed.

Theorem duplicate_pk_creation_reported : forall sch, wf_schema sch = true -> forall ops o ob z kw,
  s_dirty (run sch ops) = O -> get_obj (run sch ops) o = Some ob -> o_pk ob = Some z -> is_gone (o_st ob) = false ->
  forall h, snd (new_op sch (run sch ops) (o_ent ob) (Some z) kw) <> RObj h.
Proof.
  intros sch WF ops o ob z kw D G P L. pose proof (idx_invariant_all_histories sch WF ops D) as I.
  apply (new_taken_pk_reported sch _ (o_ent ob) z kw o).
  apply (I (o_ent ob) O (VInt z) o). exists ob. repeat split; auto. unfold kview. simpl. rewrite L, P. reflexivity.
Qed.
