(* C05 - the session result cache AS CODED: the two flags of the session model are read from pony/orm/core.py on every
   run (Gen/C05Flags.v).  Query._aggregate now flushes before its lookup (repo commit 2af0689), so the only remaining
   exclusion is the raw SQL write.  If that flush is removed from the source again, Gen/C05Flags.v changes and the proof
   below no longer type-checks (aggr_flushes_in_source = true is proved by reflexivity). *)
Require Import PonyV.Base.PyBase PonyV.Model.C05Memo PonyV.Gen.C05Flags PonyV.Proofs.C05Memo.

Lemma aggregate_flushes_in_source : aggr_flushes_in_source = true.
Proof. reflexivity. Qed.

Theorem results_as_coded : forall DB W Q R (qeqb : Q -> Q -> bool) (exec : DB -> Q -> R) (apply : DB -> W -> DB),
  (forall a b, qeqb a b = true -> a = b) ->
  forall db h, forallb (fun o => negb (is_raw W Q o)) h = true ->
  srun DB W Q R qeqb exec apply raw_clears_in_source aggr_flushes_in_source (mksess DB W Q R db [] []) h
  = cold_run DB W Q R exec apply db [] h.
Proof.
  intros DB W Q R qeqb exec apply Hq db h Hraw.
  apply results_transparent; [exact Hq|right; exact Hraw|left; exact aggregate_flushes_in_source].
Qed.
