(* C20, serial formulation: a commit that passes the optimistic check leaves the row exactly as if the session had run
   ALONE, from start to end, on the row as it is at the moment of the commit - provided everything the session read
   from the database is protected by the check. *)
From Coq Require Import ZArith List Bool Lia Arith.
Import ListNotations.
Require Import PonyV.Model.C20Opt PonyV.Proofs.C20OptProofs.

(* a session state that was loaded (if at all) from row d *)
Definition wf (d : row) (x : sess) : Prop :=
  (loaded x = true -> (forall a, dbvals x a = d a) /\ (forall a, wbits x a = false -> vals x a = d a))
  /\ (loaded x = false -> forall a, wbits x a = false /\ rbits x a = false).

(* two session states that differ at most in the values of attributes not written *)
Definition sim (x1 x2 : sess) : Prop :=
  loaded x1 = loaded x2 /\ st x1 = st x2 /\ (forall a, wbits x1 a = wbits x2 a) /\ (forall a, rbits x1 a = rbits x2 a)
  /\ (forall a, wbits x1 a = true -> vals x1 a = vals x2 a).

Lemma wf_sess0 d : wf d sess0.
Proof. split; cbn; [discriminate | auto]. Qed.

Lemma wf_load d x : wf d x -> wf d (do_load d x) /\ loaded (do_load d x) = true.
Proof.
  intros W. unfold do_load. destruct (loaded x) eqn:L.
  - split; [exact W | exact L].
  - split; [|reflexivity]. split; cbn; [|discriminate]. intros _. split; auto.
Qed.

Lemma wf_get sch d x a x' v f : wf d x -> loaded x = true -> do_get sch x a = (x', v, f) ->
  wf d x' /\ loaded x' = true /\ st x' = st x /\ v = vals x a /\ (forall b, wbits x' b = wbits x b) /\ (forall b, vals x' b = vals x b)
  /\ (forall b, rbits x b = true -> rbits x' b = true)
  /\ (wbits x a = false -> a_vol (sch a) = false -> rbits x' a = true).
Proof.
  intros W L E. unfold do_get in E. destruct (wbits x a || a_vol (sch a)) eqn:C; injection E as <- <- <-.
  - split; [exact W|]. split; [exact L|]. split; [reflexivity|]. split; [reflexivity|]. split; [reflexivity|].
    split; [reflexivity|]. split; [auto|]. intros Hw Hv. rewrite Hw, Hv in C. discriminate.
  - destruct W as [W1 W2]. split.
    { split; cbn; [exact W1 | intros F; congruence]. }
    cbn. split; [exact L|]. split; [reflexivity|]. split; [reflexivity|]. split; [reflexivity|]. split; [reflexivity|]. split.
    + intros b Hb. unfold upd. destruct (Nat.eqb b a); auto.
    + intros _ _. apply upd_same.
Qed.

Lemma wf_set d x a v : wf d x -> loaded x = true -> wf d (do_set x a v) /\ loaded (do_set x a v) = true.
Proof.
  intros [W1 W2] L. split; [|exact L]. split; cbn; [|congruence]. intros _. destruct (W1 L) as [D V]. split; [exact D|].
  intros b Hb. unfold upd in *. destruct (Nat.eqb b a); [discriminate | now apply V].
Qed.

Lemma wf_status d x r : wf d x -> wf d (set_status x r).
Proof. intros [W1 W2]. split; cbn; auto. Qed.

Lemma wf_op sch d x o : wf d x -> wf d (sess_op sch d x o).
Proof.
  intros W. unfold sess_op. destruct (st x); auto. destruct (wf_load d x W) as [Wl Ll].
  destruct o as [a | a [v | b dl] | ]; auto.
  - destruct (do_get sch (do_load d x) a) as [[x2 v] f] eqn:G. cbn. eapply wf_get; eauto.
  - now apply wf_set.
  - destruct (do_get sch (do_load d x) b) as [[x2 v] f] eqn:G.
    destruct (wf_get sch d _ b _ _ _ Wl Ll G) as (Wg & Lg & _).
    destruct v; [now apply wf_set | now apply wf_status].
Qed.

Lemma wf_fold sch d p : forall x, wf d x -> wf d (sess_fold sch d x p).
Proof. induction p as [|o p IH]; intros x W; cbn; auto. apply IH. now apply wf_op. Qed.

(* read bits only grow *)
Lemma op_rbits_mono sch d x o a : wf d x -> rbits x a = true -> rbits (sess_op sch d x o) a = true.
Proof.
  intros W R. unfold sess_op. destruct (st x); auto. destruct (wf_load d x W) as [Wl Ll].
  assert (rbits (do_load d x) a = true) as Rl by (unfold do_load; destruct (loaded x); auto).
  destruct o as [a0 | a0 [v | b dl] | ]; auto.
  - destruct (do_get sch (do_load d x) a0) as [[x2 v] f] eqn:G. cbn.
    destruct (wf_get sch d _ a0 _ _ _ Wl Ll G) as (_ & _ & _ & _ & _ & _ & M & _). now apply M.
  - destruct (do_get sch (do_load d x) b) as [[x2 v] f] eqn:G.
    destruct (wf_get sch d _ b _ _ _ Wl Ll G) as (_ & _ & _ & _ & _ & _ & M & _).
    destruct v; cbn; now apply M.
Qed.

Lemma sim_load d1 d2 x1 x2 : sim x1 x2 -> wf d1 x1 -> sim (do_load d1 x1) (do_load d2 x2).
Proof.
  intros S0 [_ W2]. pose proof S0 as (L & S & Wb & Rb & V). unfold do_load. rewrite <- L. destruct (loaded x1) eqn:E; [exact S0|].
  split; [reflexivity|]. split; [exact S|]. split; [exact Wb|]. split; [exact Rb|]. cbn. intros a Ha.
  destruct (W2 eq_refl a). congruence.
Qed.

(* one operation on two simulating states loaded from rows that agree on everything that ends up with a read bit *)
Lemma sim_op sch d1 d2 x1 x2 o :
  sim x1 x2 -> wf d1 x1 -> wf d2 x2 ->
  (forall a, rbits (sess_op sch d1 x1 o) a = true -> d1 a = d2 a) ->
  (forall a b dl, o = Write a (EPlus b dl) -> a_vol (sch b) = false) ->
  sim (sess_op sch d1 x1 o) (sess_op sch d2 x2 o).
Proof.
  intros S W1 W2 H Hsrc. pose proof S as (L & St & Wb & Rb & V). unfold sess_op in *. rewrite <- St. destruct (st x1) eqn:E; auto.
  destruct (wf_load d1 x1 W1) as [Wl1 Ll1]. destruct (wf_load d2 x2 W2) as [Wl2 Ll2].
  pose proof (sim_load d1 d2 x1 x2 S W1) as (L' & St' & Wb' & Rb' & V').
  destruct o as [a | a [v | b dl] | ]; auto.
  - destruct (do_get sch (do_load d1 x1) a) as [[y1 v1] f1] eqn:G1. destruct (do_get sch (do_load d2 x2) a) as [[y2 v2] f2] eqn:G2. cbn.
    unfold do_get in G1, G2. rewrite <- Wb' in G2.
    destruct (wbits (do_load d1 x1) a || a_vol (sch a)); injection G1 as <- _ _; injection G2 as <- _ _.
    + repeat split; auto.
    + repeat split; cbn; auto. intros b. unfold upd. destruct (Nat.eqb b a); auto.
  - repeat split; cbn; auto.
    + intros b. unfold upd. now rewrite Wb'.
    + intros b Hb. unfold upd in *. destruct (Nat.eqb b a); auto.
  - destruct (do_get sch (do_load d1 x1) b) as [[y1 v1] f1] eqn:G1. destruct (do_get sch (do_load d2 x2) b) as [[y2 v2] f2] eqn:G2.
    destruct (wf_get sch d1 _ b _ _ _ Wl1 Ll1 G1) as (Wg1 & Lg1 & Sg1 & Ev1 & Wg1b & Vg1 & M1 & Rn1).
    destruct (wf_get sch d2 _ b _ _ _ Wl2 Ll2 G2) as (Wg2 & Lg2 & Sg2 & Ev2 & Wg2b & Vg2 & M2 & Rn2).
    assert (sim y1 y2) as Sy.
    { unfold do_get in G1, G2. rewrite <- Wb' in G2.
      destruct (wbits (do_load d1 x1) b || a_vol (sch b)); injection G1 as <- _ _; injection G2 as <- _ _.
      - repeat split; auto.
      - repeat split; cbn; auto. intros c. unfold upd. destruct (Nat.eqb c b); auto. }
    assert (v1 = v2) as <-.
    { subst v1 v2. destruct (wbits (do_load d1 x1) b) eqn:Wbb.
      - now apply V'.
      - destruct Wl1 as [Wl1a _]. destruct Wl2 as [Wl2a _]. destruct (Wl1a Ll1) as [_ U1]. destruct (Wl2a Ll2) as [_ U2].
        rewrite U1 by exact Wbb. rewrite U2 by (rewrite <- Wb'; exact Wbb).
        apply H. assert (rbits y1 b = true) as Rb1 by (apply Rn1; [first [exact Wbb | reflexivity] | exact (Hsrc a b dl eq_refl)]).
        destruct (vals (do_load d1 x1) b); cbn; exact Rb1. }
    destruct Sy as (Ly & Sty & Wy & Ry & Vy).
    destruct v1 as [z|].
    + repeat split; cbn; auto.
      * intros c. unfold upd. now rewrite Wy.
      * intros c Hc. unfold upd in *. destruct (Nat.eqb c a); auto.
    + repeat split; cbn; auto.
Qed.

Lemma fold_snoc sch d x p o : sess_fold sch d x (p ++ [o]) = sess_op sch d (sess_fold sch d x p) o.
Proof. unfold sess_fold. now rewrite fold_left_app. Qed.

Lemma sim_fold sch d1 d2 p :
  (forall a b dl, In (Write a (EPlus b dl)) p -> a_vol (sch b) = false) ->
  (forall a, rbits (sess_fold sch d1 sess0 p) a = true -> d1 a = d2 a) ->
  sim (sess_fold sch d1 sess0 p) (sess_fold sch d2 sess0 p).
Proof.
  induction p as [|o p IH] using rev_ind; intros Hsrc H.
  - cbn. repeat split; auto.
  - rewrite !fold_snoc in *. apply sim_op.
    + apply IH.
      * intros a b dl Hin. eapply Hsrc. apply in_or_app. left. exact Hin.
      * intros a Ha. apply H. apply op_rbits_mono; [apply wf_fold, wf_sess0 | exact Ha].
    + apply wf_fold, wf_sess0.
    + apply wf_fold, wf_sess0.
    + exact H.
    + intros a b dl ->. eapply Hsrc. apply in_or_app. right. left. reflexivity.
Qed.

(* ------------------------------------------------------------------------------------------ link with the global run *)

Lemma op_load_indep sch d d' x o : loaded x = true -> sess_op sch d x o = sess_op sch d' x o.
Proof. intros L. unfold sess_op, do_load. now rewrite L. Qed.

Lemma op_loaded sch d x o : st x = Active -> is_commit o = false -> loaded (sess_op sch d x o) = true.
Proof.
  intros S C. unfold sess_op. rewrite S.
  assert (loaded (do_load d x) = true) as Ll by (unfold do_load; destruct (loaded x) eqn:E; auto).
  destruct o as [a | a [v | b dl] | ]; [| | |discriminate].
  - unfold do_get. destruct (_ || _); cbn; exact Ll.
  - exact Ll.
  - unfold do_get. destruct (_ || _); cbn; destruct (vals (do_load d x) b); cbn; exact Ll.
Qed.

Lemma step_is_sess_op k sch stt s o rest :
  st (ss stt s) = Active -> progs stt s = o :: rest -> is_commit o = false ->
  ss (step k sch stt s) s = sess_op sch (sdb stt) (ss stt s) o /\ progs (step k sch stt s) s = rest.
Proof.
  intros S P C. unfold step, sess_op. rewrite S, P.
  destruct o as [a | a [v | b dl] | ]; [| | |discriminate].
  - destruct (do_get sch (do_load (sdb stt) (ss stt s)) a) as [[x2 v] f]. cbn. now rewrite !upd_same.
  - cbn. now rewrite !upd_same.
  - destruct (do_get sch (do_load (sdb stt) (ss stt s)) b) as [[x2 v] f]. destruct v; cbn; now rewrite !upd_same.
Qed.

Lemma step_other k sch stt s u : u <> s -> ss (step k sch stt s) u = ss stt u /\ progs (step k sch stt s) u = progs stt u.
Proof.
  intros N. unfold step. destruct (st (ss stt s)); auto. destruct (progs stt s) as [|o rest]; auto.
  destruct o as [a | a [v | b dl] | ].
  - destruct (do_get _ _ a) as [[x2 v] f]. cbn. now rewrite !upd_other.
  - cbn. now rewrite !upd_other.
  - destruct (do_get _ _ b) as [[x2 v] f]. destruct v; cbn; now rewrite !upd_other.
  - destruct (set_list k (ss stt s)); [cbn; now rewrite !upd_other|].
    destruct (matches _ _); cbn; now rewrite !upd_other.
Qed.

(* an active session's state is the fold of the operations it has executed so far, loaded from some row *)
Definition hist (sch : schema) (pr : nat -> list op) (stt : state) : Prop :=
  forall s, st (ss stt s) = Active ->
    exists dl p, pr s = p ++ progs stt s /\ forallb (fun o => negb (is_commit o)) p = true
                 /\ ss stt s = sess_fold sch dl sess0 p /\ (loaded (ss stt s) = false -> p = []).

Lemma hist_init sch d pr : hist sch pr (init d pr).
Proof. intros s _. exists d, []. cbn. auto. Qed.

Lemma hist_step k sch pr stt t : hist sch pr stt -> hist sch pr (step k sch stt t).
Proof.
  intros Hh s S'. destruct (Nat.eq_dec s t) as [->|N].
  2:{ destruct (step_other k sch stt t s N) as [E1 E2]. rewrite E1 in *. rewrite E2. now apply Hh. }
  destruct (st (ss stt t)) eqn:S.
  2,3: rewrite inactive_step in * by congruence; apply Hh; congruence.
  destruct (progs stt t) as [|o rest] eqn:P.
  { rewrite no_ops_step in * by exact P. now apply Hh. }
  destruct (is_commit o) eqn:C.
  { destruct o; try discriminate. exfalso.
    destruct (commit_step k sch stt t rest S P) as (C1 & C2 & C3).
    destruct (set_list k (ss stt t)) eqn:SL; [destruct (C1 eq_refl); congruence|].
    destruct (matches (sdb stt) (criteria k sch (ss stt t))) eqn:M; [destruct C2; congruence | destruct C3; congruence]. }
  destruct (step_is_sess_op k sch stt t o rest S P C) as [E1 E2].
  destruct (Hh t S) as (dl & p & Hp & Hc & Hx & Hl).
  destruct (loaded (ss stt t)) eqn:L.
  - exists dl, (p ++ [o]). repeat split.
    + rewrite E2, Hp, P. now rewrite <- app_assoc.
    + rewrite forallb_app, Hc. cbn. now rewrite C.
    + rewrite E1, fold_snoc, <- Hx. now apply op_load_indep.
    + intros F. rewrite E1, op_loaded in F by auto. discriminate.
  - specialize (Hl eq_refl). subst p. cbn in Hx. exists (sdb stt), [o]. repeat split.
    + rewrite E2, Hp, P. reflexivity.
    + cbn. now rewrite C.
    + rewrite E1, Hx. reflexivity.
    + intros F. rewrite E1, op_loaded in F by auto. discriminate.
Qed.

Lemma hist_run k sch pr sched : forall stt, hist sch pr stt -> hist sch pr (run k sch stt sched).
Proof. induction sched as [|t r IH]; intros stt H; cbn; auto. apply IH. now apply hist_step. Qed.

(* the serial theorem *)
Lemma commit_is_serial k sch d pr sched s rest :
  let stt := run k sch (init d pr) sched in
  let stt' := step k sch stt s in
  st (ss stt s) = Active -> progs stt s = Commit :: rest -> st (ss stt' s) = Committed -> has_writes k (ss stt s) ->
  (* everything the session read from the database is protected by the check *)
  (forall a, rbits (ss stt s) a = true -> (a < k)%nat /\ a_opt (sch a) = true) ->
  (* no value of a volatile attribute flows into a write *)
  (forall a b dl, In (Write a (EPlus b dl)) (pr s) -> a_vol (sch b) = false) ->
  exists p, pr s = p ++ Commit :: rest /\ forall a, sdb stt' a = serial_row k sch (sdb stt) p a.
Proof.
  cbn zeta. set (stt := run k sch (init d pr) sched). intros S P S' HW Hchk Hsrc.
  destruct (hist_run k sch pr sched _ (hist_init sch d pr) s S) as (dl & p & Hp & Hc & Hx & Hl).
  fold stt in Hp, Hx, Hl. exists p. split; [now rewrite Hp, P|].
  destruct (commit_step k sch stt s rest S P) as (C1 & C2 & C3).
  assert (wf dl (ss stt s)) as Wx by (rewrite Hx; apply wf_fold, wf_sess0).
  apply has_writes_set_list in HW.
  assert (matches (sdb stt) (criteria k sch (ss stt s)) = true) as M.
  { destruct (matches (sdb stt) (criteria k sch (ss stt s))) eqn:M; auto. destruct (C3 HW eq_refl); congruence. }
  assert (forall b, rbits (sess_fold sch dl sess0 p) b = true -> dl b = sdb stt b) as Ag.
  { intros b Rb. rewrite <- Hx in Rb. destruct (Hchk b Rb) as [Hk Ho].
    destruct Wx as [W1 W2]. destruct (loaded (ss stt s)) eqn:L; [|destruct (W2 eq_refl b); congruence].
    destruct (W1 eq_refl) as [Db _]. rewrite <- Db. symmetry.
    apply (proj1 (matches_spec _ _) M). apply in_criteria. auto. }
  assert (forall a0 b dl0, In (Write a0 (EPlus b dl0)) p -> a_vol (sch b) = false) as Hsrc'
    by (intros a0 b dl0 Hin; eapply Hsrc; rewrite Hp; apply in_or_app; left; exact Hin).
  destruct (sim_fold sch dl (sdb stt) p Hsrc' Ag) as (_ & St & Wb & _ & V). rewrite <- Hx in St, Wb, V.
  destruct (C2 HW M) as [_ E]. intros a. rewrite E. unfold serial_row. rewrite <- St, S.
  rewrite !apply_set_list. rewrite <- Wb. destruct ((a <? k)%nat && wbits (ss stt s) a) eqn:Ew; auto.
  apply andb_true_iff in Ew. destruct Ew as [_ Ew]. now apply V.
Qed.
