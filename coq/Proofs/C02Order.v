(* C02 - ordering: two modelled dialects return the same ordered list when they put NULL at the same end, or when no key of a kept row
   is None; otherwise they differ (Findings/C02.v). *)
Require Import PonyV.Base.PyBase PonyV.Model.C01Expr PonyV.Model.C01Sql PonyV.Model.C01Translate PonyV.Model.C01Safe
               PonyV.Model.C01Eqb PonyV.Model.C01Query PonyV.Model.C01Aggr PonyV.Model.C01Order
               PonyV.Proofs.C01Rows PonyV.Proofs.C01Aggr PonyV.Proofs.C01Order.

Theorem agree_order_rows : forall d1 d2, modelled d1 = true -> modelled d2 = true ->
  forall table filt ks proj vt k1 c1 q1 k2 c2 q2,
  filt_typed filt = true -> ty_of proj = Some (TV vt) ->
  tr_where d1 filt = Some c1 -> tr_order d1 ks = Some k1 -> tr_project d1 proj = Some q1 ->
  tr_where d2 filt = Some c2 -> tr_order d2 ks = Some k2 -> tr_project d2 proj = Some q2 ->
  Forall (fun en => orow_ok d1 filt ks proj en /\ orow_ok d2 filt ks proj en) table ->
  (* known bad: a None key where the dialects sort NULL to different ends *)
  nulls_first d1 = nulls_first d2 \/ keys_not_none ks filt table = true ->
  map (dec (TV vt)) (sql_order_rows d1 k1 c1 q1 table) = map (dec (TV vt)) (sql_order_rows d2 k2 c2 q2 table).
Proof.
  intros d1 d2 H1 H2 table filt ks proj vt k1 c1 q1 k2 c2 q2 Tf Hp W1 O1 P1 W2 O2 P2 Hall NF. rewrite Forall_forall in Hall.
  destruct (order_sound d1 H1 table filt ks proj vt k1 c1 q1 Tf Hp W1 O1 P1) as [_ R1].
  { apply Forall_forall. intros en Hin. exact (proj1 (Hall en Hin)). }
  destruct (order_sound d2 H2 table filt ks proj vt k2 c2 q2 Tf Hp W2 O2 P2) as [_ R2].
  { apply Forall_forall. intros en Hin. exact (proj2 (Hall en Hin)). }
  rewrite R1, R2. destruct NF as [E|K]; [rewrite E; reflexivity|apply py_order_nf; exact K].
Qed.
