(* Many-to-many link sets (coq/Model/SessionM2M.v): the transaction structure, for every state and every operation.
   (The both-ends invariant of the two SetData views is NOT proved for this model; the correspondence run compares every read.) *)
Require Import PonyV.Model.SessionBase PonyV.Model.SessionM2M.
Open Scope nat_scope.

Definition Cm (c : list (nat * nat)) (st : mst) : Prop := m_committed st = c.

Lemma Cm_putsd : forall c st side o sd, Cm c st -> Cm c (putsd st side o sd). Proof. intros; assumption. Qed.
Lemma Cm_mdirty : forall c st n, Cm c st -> Cm c (mdirty st n). Proof. intros; assumption. Qed.
Lemma Cm_modc_add : forall c st side o, Cm c st -> Cm c (modc_add st side o). Proof. intros c st [|side] o H; exact H. Qed.
Lemma Cm_fold : forall A c (f : mst -> A -> mst) l st, (forall s x, Cm c s -> Cm c (f s x)) -> Cm c st -> Cm c (fold_left f l st).
Proof. induction l as [|x l IH]; intros st F H; simpl; auto. Qed.
Hint Resolve Cm_putsd Cm_mdirty Cm_modc_add Cm_fold : cm.
Hint Extern 1 => progress cbv zeta : cm.
Hint Extern 20 => match goal with |- context [match ?y with _ => _ end] => destruct y eqn:? end : cm.
Ltac cmauto := auto 30 with cm.

Lemma Cm_reverse_add : forall c st side objs item, Cm c st -> Cm c (reverse_add st side objs item).
Proof. intros. unfold reverse_add. apply Cm_fold; auto. intros. cmauto. Qed.
Lemma Cm_reverse_remove : forall c st side objs item, Cm c st -> Cm c (reverse_remove st side objs item).
Proof. intros. unfold reverse_remove. apply Cm_fold; auto. intros. cmauto. Qed.
Lemma Cm_db_reverse_add : forall c st side objs item, Cm c st -> Cm c (db_reverse_add st side objs item).
Proof. intros. unfold db_reverse_add. apply Cm_fold; auto. intros. cmauto. Qed.
Hint Resolve Cm_reverse_add Cm_reverse_remove Cm_db_reverse_add : cm.
Lemma Cm_load_merge : forall c st side o its, Cm c st -> Cm c (load_merge st side o its).
Proof. intros. unfold load_merge. cmauto. Qed.
Hint Resolve Cm_load_merge : cm.
Lemma Cm_set_stat : forall c st x y, Cm c st -> Cm c (set_stat st x y). Proof. intros; assumption. Qed.
Hint Resolve Cm_set_stat : cm.

Lemma Cm_prefetch : forall c side o l st acc, Cm c st -> Cm c (fst
  (fold_left (fun (acc : mst * list nat) o2 => let '(stx, l) := acc in
     if Nat.eqb o2 o then acc else match getsd stx side o2 with
       | None => (putsd stx side o2 msd0, l ++ [o2]) | Some sd2 => if m_full sd2 then acc else (stx, l ++ [o2]) end) l (st, acc))).
Proof.
  intros c side o l. induction l as [|x l IH]; intros st acc H; simpl. exact H.
  destruct (Nat.eqb x o). apply IH; auto. destruct (getsd st side x) as [sd2|]. destruct (m_full sd2); apply IH; auto. apply IH. cmauto.
Qed.

Lemma Cm_load : forall c st side o items, Cm c st -> Cm c (load st side o items).
Proof.
  intros c st side o items H. unfold load.
  set (st0 := match getsd st side o with Some _ => st | None => putsd st side o msd0 end).
  assert (H0 : Cm c st0) by (unfold st0; destruct (getsd st side o); cmauto). clearbody st0.
  destruct (m_full (getsd' st0 side o)); [exact H0|]. cbv zeta.
  assert (FL : Cm c (let '(st1, objects) :=
        if Nat.leb 1 (stat st0 side) then
          fold_left (fun (acc : mst * list nat) o2 => let '(stx, l) := acc in
             if Nat.eqb o2 o then acc else match getsd stx side o2 with
               | None => (putsd stx side o2 msd0, l ++ [o2]) | Some sd2 => if m_full sd2 then acc else (stx, l ++ [o2]) end) (seq 1 (nobjs st0 side)) (st0, [o])
        else (st0, [o]) in
      let single := match objects with [_] => true | _ => false end in
      let st2 := st1 in
      let st3 := fold_left (fun st o2 => let its := dbitems st side o2 in match its, single with [], false => st | _, _ => load_merge st side o2 its end) objects st2 in
      let st4 := fold_left (fun st o2 => let sd2 := getsd' st side o2 in
                    putsd st side o2 (mkMsd (m_items sd2) (m_added sd2) (m_removed sd2) true (Some (length (m_items sd2))))) objects st3 in
      match side with O => set_stat st4 (S (m_stat0 st4)) (m_stat1 st4) | _ => set_stat st4 (m_stat0 st4) (S (m_stat1 st4)) end)).
  { destruct (Nat.leb 1 (stat st0 side)).
    - pose proof (Cm_prefetch c side o (seq 1 (nobjs st0 side)) st0 [o] H0) as P.
      destruct (fold_left _ (seq 1 (nobjs st0 side)) (st0, [o])) as [st1 objects]. cbn [fst] in P. cbv zeta.
      assert (C3 : Cm c (fold_left (fun st o2 => let its := dbitems st side o2 in match its, (match objects with [_] => true | _ => false end) with [], false => st | _, _ => load_merge st side o2 its end) objects st1)).
      { apply Cm_fold; auto. intros. cmauto. }
      destruct side; apply Cm_set_stat; apply Cm_fold; auto; intros; cmauto.
    - cbv zeta. destruct side; apply Cm_set_stat; apply Cm_fold; try (intros; cmauto); apply Cm_fold; auto; intros; cmauto. }
  destruct items as [|i0 items0]; [exact FL|].
  destruct (diff_nat (diff_nat (dedup_nat (i0 :: items0)) (m_items (getsd' st0 side o))) (m_removed (getsd' st0 side o))); [exact H0|].
  destruct (m_items (getsd' st0 side o)); [|exact FL]. apply Cm_fold; auto. intros. cmauto.
Qed.
Hint Resolve Cm_load : cm.

Lemma Cm_finish_mod : forall c st side o, Cm c st -> Cm c (finish_mod st side o).
Proof. intros c st [|side] o H; exact H. Qed.
Hint Resolve Cm_finish_mod : cm.

Lemma Cm_madd : forall c st side o items, Cm c st -> Cm c (madd st side o items).
Proof. intros. unfold madd. destruct (dedup_nat items); auto. cbv zeta. apply Cm_finish_mod. apply Cm_putsd. apply Cm_fold. intros; cmauto. destruct (getsd st side o) as [sd|]; [destruct (m_full sd)|]; cmauto. Qed.
Lemma Cm_mremove : forall c st side o items, Cm c st -> Cm c (mremove st side o items).
Proof.
  intros. unfold mremove. cbv zeta. match goal with |- context [match ?y with [] => st | _ => _ end] => destruct y end; auto.
  apply Cm_finish_mod. apply Cm_putsd. apply Cm_fold. intros; cmauto. destruct (getsd st side o) as [sd|]; [destruct (m_full sd)|]; cmauto.
Qed.
Lemma Cm_massign : forall c st side o items, Cm c st -> Cm c (massign st side o items).
Proof.
  intros. unfold massign. cbv zeta.
  assert (H1 : Cm c (match getsd st side o with Some sd => if m_full sd then st else load st side o [] | None => load st side o [] end))
    by (destruct (getsd st side o) as [sd|]; [destruct (m_full sd)|]; cmauto).
  match goal with |- context [if ?b then _ else _] => destruct b end; [exact H1|].
  repeat match goal with |- context [let '(_, _) := ?p in _] => destruct p end.
  apply Cm_finish_mod. apply Cm_putsd. apply Cm_fold. intros; cmauto. apply Cm_fold. intros; cmauto. exact H1.
Qed.
Lemma Cm_mread : forall c st side o, Cm c st -> Cm c (fst (mread st side o)).
Proof. intros. unfold mread. cbn [fst]. destruct (getsd st side o) as [sd|]; [destruct (m_full sd)|]; cmauto. Qed.
Lemma Cm_mflush : forall c st, Cm c st -> Cm c (mflush st).
Proof.
  intros c st H. unfold mflush. destruct (negb (m_modified st)); auto. cbv zeta.
  match goal with |- context [if ?b then mdirty ?x 18 else ?y] => assert (K : Cm c x); [|destruct b; exact K] end.
  apply Cm_fold. intros; cmauto. apply Cm_fold; auto. intros; cmauto.
Qed.

(* only commit changes the committed link rows *)
Theorem m2m_committed_changes_only_at_commit : forall st op, op <> MCommit -> m_committed (fst (mstep st op)) = m_committed st.
Proof.
  intros st op N. change (Cm (m_committed st) (fst (mstep st op))). assert (H : Cm (m_committed st) st) by reflexivity.
  destruct op; try congruence; unfold mstep.
  - match goal with |- context [if ?b then _ else _] => destruct b end; cbn [fst]; auto. apply Cm_madd; auto.
  - match goal with |- context [if ?b then _ else _] => destruct b end; cbn [fst]; auto. apply Cm_mremove; auto.
  - match goal with |- context [if ?b then _ else _] => destruct b end; cbn [fst]; auto. apply Cm_massign; auto.
  - match goal with |- context [if ?b then _ else _] => destruct b end; cbn [fst]; auto.
    pose proof (Cm_mread (m_committed st) st side o H) as R. destruct (mread st side o). exact R.
  - cbn [fst]. apply Cm_mflush; auto.
  - reflexivity.
Qed.

(* a commit publishes exactly the flushed link rows; a rollback discards the transaction's rows and the whole cache *)
Theorem m2m_commit_publishes : forall st, m_committed (fst (mstep st MCommit)) = m_db (fst (mstep st MCommit)) /\ m_db (fst (mstep st MCommit)) = m_db (mflush st).
Proof. intros. split; reflexivity. Qed.
Theorem m2m_rollback_discards : forall st, let st' := fst (mstep st MRollback) in
  m_db st' = m_committed st /\ m_committed st' = m_committed st /\ m_sd st' = [] /\ m_modified st' = false.
Proof. intros. repeat split; reflexivity. Qed.

(* what a flush writes: the removed pairs of the A.bs views go, the added ones are inserted *)
Theorem m2m_flush_rows : forall st, m_modified st = true ->
  let added := flat_map (fun a => map (fun b => (a, b)) (m_added (getsd' st 0 a))) (m_modc0 st) in
  let removed := flat_map (fun a => map (fun b => (a, b)) (m_removed (getsd' st 0 a))) (m_modc0 st) in
  m_db (mflush st) = filter (fun p => negb (existsb (key_eqb p) removed)) (m_db st) ++ added /\ m_modified (mflush st) = false /\
  m_modc0 (mflush st) = [] /\ m_modc1 (mflush st) = [].
Proof.
  intros st M. unfold mflush. rewrite M. cbv zeta. cbn [negb].
  assert (D : forall (f : mst -> nat -> mst) l s, (forall s x, m_db (f s x) = m_db s) -> m_db (fold_left f l s) = m_db s).
  { intros f l. induction l as [|x l IH]; intros s F; simpl; auto. rewrite IH by exact F. apply F. }
  match goal with |- context [if ?b then mdirty ?x 18 else ?y] => assert (K : m_db x = m_db st) end.
  { rewrite D. rewrite D. reflexivity. intros s x. destruct (getsd s 0 x); reflexivity. intros s x. destruct (getsd s 1 x); reflexivity. }
  match goal with |- context [if ?b then _ else _] => destruct b end; cbn; rewrite K; auto.
Qed.

(* non-vacuity / illustration: both sides see an unflushed add and remove; the flush writes them; a rollback forgets them *)
Example m2m_nonvacuous :
  let st0 := minit 2 2 [(1, 1)] in
  let ops := [MRead 0 1; MAdd 0 1 [2]; MRead 1 2; MRemove 1 1 [1]; MRead 0 1; MFlush] in
  m_dirty (mrun st0 ops) = 0 /\
  snd (mstep (mrun st0 [MRead 0 1; MAdd 0 1 [2]]) (MRead 1 2)) = MList [1] /\
  snd (mstep (mrun st0 [MRead 0 1; MAdd 0 1 [2]; MRead 1 2; MRemove 1 1 [1]]) (MRead 0 1)) = MList [2] /\
  m_db (mrun st0 ops) = [(1, 2)] /\ m_committed (mrun st0 ops) = [(1, 1)] /\
  m_db (fst (mstep (mrun st0 ops) MRollback)) = [(1, 1)].
Proof. vm_compute. repeat split; reflexivity. Qed.
