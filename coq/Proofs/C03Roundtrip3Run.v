(* C03 - round trip on the model for expressions of nesting depth 3 (continued): the run of the decompiler over the
   stream of an `or` of `and`s of (literal | `or`-clause).  Uses the or_jumps characterisation of C03Roundtrip3.v. *)
From Coq Require Import List Bool Arith Lia Sorted.
Import ListNotations.
Require Import PonyV.Model.C03Bexp PonyV.Model.C03Decomp PonyV.Model.C03Family PonyV.Proofs.C03Checker
               PonyV.Proofs.C03Roundtrip PonyV.Proofs.C03RoundtripCnf PonyV.Proofs.C03Roundtrip3.

(* ------------------------------------------------------------------ what the run needs to know about or_jumps *)
Definition orj_ok (orj : list nat) (J : list jentry) : Prop := forall j t b, In (j, t, b) J -> existsb (Nat.eqb j) orj = b.

Lemma orj_ok_app : forall orj A B, orj_ok orj (A ++ B) -> orj_ok orj A /\ orj_ok orj B.
Proof. intros orj A B H. split; intros j t b Hin; apply (H j t b); apply in_or_app; [left|right]; exact Hin. Qed.

Definition nojump_ok (orj : list nat) (code : list instr) (i : nat) : Prop :=
  forall q ins, nth_error code q = Some ins -> target_of ins = None -> existsb (Nat.eqb (pos_of (i + q))) orj = false.

Lemma nojump_ok_app : forall orj a b i, nojump_ok orj (a ++ b) i -> nojump_ok orj a i /\ nojump_ok orj b (i + length a).
Proof.
  intros orj a b i H. split; intros q ins Hn Ht.
  - apply (H q ins); [|exact Ht]. rewrite nth_error_app1; [exact Hn|]. apply nth_error_Some. congruence.
  - replace (i + length a + q) with (i + (length a + q)) by lia. apply (H (length a + q) ins); [|exact Ht].
    rewrite nth_error_app2 by lia. replace (length a + q - length a) with q by lia. exact Hn.
Qed.

Lemma chainJ_mem : forall c t pre l post i,
  In (pos_of (i + lws pre + length (lval l)), t, c) (chainJ c t (pre ++ l :: post) i).
Proof.
  induction pre as [|x r IH]; intros l post i.
  - cbn [app lws chainJ]. left. rewrite Nat.add_0_r. reflexivity.
  - cbn [app lws chainJ]. right. replace (i + (lw x + lws r)) with (i + lw x + lws r) by lia. apply IH.
Qed.

Lemma clauseJ_mem_nonlast : forall pre l post a tg i, post <> [] ->
  In (pos_of (i + lws pre + length (lval l)), a, true) (clauseJ (pre ++ l :: post) a tg i).
Proof.
  induction pre as [|x r IH]; intros l post a tg i Hp.
  - cbn [app lws clauseJ]. destruct post as [|y s]; [congruence|]. left. rewrite Nat.add_0_r. reflexivity.
  - cbn [app lws clauseJ]. destruct (r ++ l :: post) eqn:E; [destruct r; discriminate|]. rewrite <- E.
    right. replace (i + (lw x + lws r)) with (i + lw x + lws r) by lia. apply IH. exact Hp.
Qed.

Lemma clauseJ_mem_last : forall ls0 l a s i,
  In (pos_of (i + lws ls0 + length (lval l)), s, false) (clauseJ (ls0 ++ [l]) a (TAt s) i).
Proof.
  induction ls0 as [|x r IH]; intros l a s i.
  - cbn [app lws clauseJ]. left. rewrite Nat.add_0_r. reflexivity.
  - cbn [app lws clauseJ]. destruct (r ++ [l]) eqn:E; [destruct r; discriminate|]. rewrite <- E.
    right. replace (i + (lw x + lws r)) with (i + lw x + lws r) by lia. apply IH.
Qed.

(* the last literal of every conjunct is an and-jump (or a backward jump) *)
Fixpoint lasts_ok (orj : list nat) (cs : list (list lit)) (i : nat) : Prop :=
  match cs with
  | [] => True
  | c :: r => existsb (Nat.eqb (pos_of (i + lws c - 1))) orj = false /\ lasts_ok orj r (i + lws c)
  end.

Lemma lasts_ok_at : forall orj cs s i, Forall (fun c => c <> []) cs -> orj_ok orj (conjJ cs i (TAt s)) -> lasts_ok orj cs i.
Proof.
  induction cs as [|c r IH]; intros s i Hall H; [exact I|].
  inversion Hall as [|x0 l0 Hc Hr]; subst x0 l0. cbn [conjJ] in H. apply orj_ok_app in H. destruct H as [H1 H2].
  split; [|apply (IH s); assumption].
  destruct (exists_last Hc) as [ls0 [l E]]. subst c.
  apply (H1 _ s false).
  replace (i + lws (ls0 ++ [l]) - 1) with (i + lws ls0 + length (lval l)) by (rewrite lws_app; cbn [lws]; unfold lw; lia).
  apply clauseJ_mem_last.
Qed.

Lemma lasts_ok_top : forall orj cs i, Forall (fun c => c <> []) cs -> nojump_ok orj (conj_code cs (pos_of i) TTop) i -> lasts_ok orj cs i.
Proof.
  induction cs as [|c r IH]; intros i Hall H; [exact I|].
  inversion Hall as [|x0 l0 Hc Hr]; subst x0 l0. cbn [conj_code] in H. apply nojump_ok_app in H. destruct H as [H1 H2].
  rewrite length_or_fwd_to in H2. replace (pos_of i + lws c) with (pos_of (i + lws c)) in H2 by (unfold pos_of; lia).
  split; [|apply IH; assumption].
  destruct (exists_last Hc) as [ls0 [l E]]. subst c.
  replace (i + lws (ls0 ++ [l]) - 1) with (i + (lws (ls0 ++ [l]) - 1)) by (pose proof (lws_pos (ls0 ++ [l]) Hc); lia).
  apply (H1 _ (ljmp l false TTop)).
  - rewrite <- or_fwd_is_to. apply or_fwd_nth_last.
  - destruct (ljmp_facts l false TTop) as [_ [_ [_ [Ht _]]]]. exact Ht.
Qed.

Lemma sorted_snoc : forall l n, StronglySorted lt l -> (forall k, In k l -> k < n) -> StronglySorted lt (l ++ [n]).
Proof.
  induction l as [|a r IH]; intros n Hs Hlt; cbn [app]; [repeat constructor|].
  inversion Hs as [|a1 l1 Hs1 Hf1]; subst a1 l1. constructor.
  - apply IH; [assumption|]. intros k Hk. apply Hlt. right. exact Hk.
  - apply Forall_app. split; [assumption|]. constructor; [apply Hlt; left; reflexivity | constructor].
Qed.

(* ------------------------------------------------------------------ one clause whose last literal jumps to tg when false *)
Lemma run_clause_to : forall orj ce ls tg rest i s,
  ls <> [] -> 1 <= nextid s ->
  (forall k, k <= lws ls -> has_target s (pos_of (i + k)) = false) ->
  (forall k, k < lws ls -> Nat.leb ce (pos_of (i + k)) = false) ->
  (forall pre l post, ls = pre ++ l :: post -> post <> [] -> existsb (Nat.eqb (pos_of (i + lws pre + length (lval l)))) orj = true) ->
  existsb (Nat.eqb (pos_of (i + lws ls - 1))) orj = false ->
  run orj ce [] (or_fwd_to ls (pos_of (i + lws ls)) tg ++ rest) i s =
  run orj ce [] rest (i + lws ls)
      (mkState (DBool (nextid s + length ls - 1) (tpos tg) false [clause_node (nextid s) (pos_of (i + lws ls)) ls] :: stack s)
               (tsetdefault (targets s) (tpos tg) (nextid s + length ls - 1))
               (nextid s + length ls)).
Proof.
  intros orj ce ls tg rest i s Hne Hid Hnt Hce Hor Hand.
  destruct (exists_last Hne) as [ls0 [l Hls]]. subst ls.
  rewrite app_length, lws_app in *. cbn [length lws] in *. rewrite Nat.add_0_r in *.
  assert (Hlw : lw l = length (lval l) + 1) by reflexivity.
  set (nextcl := pos_of (i + (lws ls0 + lw l))) in *.
  rewrite or_fwd_to_snoc, <- app_assoc.
  rewrite run_chain.
  2:{ intros k Hk. apply Hnt. lia. }
  2:{ intros k Hk. cbn [tpos]. unfold nextcl, pos_of. lia. }
  2:{ intros k Hk. apply Hce. lia. }
  2:{ intros pre l0 post Heq. apply (Hor pre l0 (post ++ [l])); [rewrite Heq, <- app_assoc; reflexivity | destruct post; discriminate]. }
  cbn [tpos].
  set (s1 := {| stack := rev (cl true nextcl (chain_items (nextid s) ls0)) ++ stack s;
                targets := match ls0 with [] => targets s | _ :: _ => tsetdefault (targets s) nextcl (nextid s) end;
                nextid := nextid s + length ls0 |}).
  set (i1 := i + lws ls0).
  assert (Hnt1 : forall k, k < lw l -> has_target s1 (pos_of (i1 + k)) = false).
  { intros k Hk. unfold s1. destruct ls0 as [|l0 r0].
    - unfold has_target in *. cbn [targets] in *. unfold i1. rewrite <- Nat.add_assoc. apply Hnt. lia.
    - rewrite has_target_setdefault.
      + unfold has_target in *. cbn [targets] in *. unfold i1. rewrite <- Nat.add_assoc. apply Hnt. lia.
      + unfold nextcl, i1, pos_of. lia. }
  rewrite <- app_assoc. rewrite run_lval by (intros k Hk; apply Hnt1; lia).
  set (q := i1 + length (lval l)).
  assert (Hq : S q = i + (lws ls0 + lw l)) by (unfold q, i1; lia).
  assert (Hstep : step orj ce [] (ljmp l false tg) q (push (dval l) s1) =
                  Some (mkState (DBool (nextid s + (length ls0 + 1) - 1) (tpos tg) false [clause_node (nextid s) nextcl (ls0 ++ [l])] :: stack s)
                                (tsetdefault (targets s) (tpos tg) (nextid s + (length ls0 + 1) - 1))
                                (nextid s + (length ls0 + 1)))).
  { replace (nextid s + (length ls0 + 1) - 1) with (nextid s1) by (unfold s1; cbn [nextid]; lia).
    replace (nextid s + (length ls0 + 1)) with (S (nextid s1)) by (unfold s1; cbn [nextid]; lia).
    apply (lit_jump orj ce l false tg q s1).
    - unfold q. apply Hnt1. lia.
    - replace q with (i + (lws ls0 + length (lval l))) by (unfold q, i1; lia). apply Hce. lia.
    - replace q with (i + (lws ls0 + lw l) - 1) by (unfold q, i1; lia). exact Hand.
    - rewrite Hq. fold nextcl.
      destruct ls0 as [|l0 r0].
      + assert (Hno : has_target s1 nextcl = false).
        { unfold s1. unfold has_target in *. cbn [targets] in *. unfold nextcl. apply Hnt. cbn [lws]. lia. }
        rewrite Hno. unfold s1. cbn [push stack targets nextid chain_items length seq map combine cl rev app clause_node]. reflexivity.
      + assert (Hnone : tget (targets s) nextcl = None).
        { specialize (Hnt (lws (l0 :: r0) + lw l) (le_n _)). unfold has_target in Hnt. fold nextcl in Hnt.
          destruct (tget (targets s) nextcl); [discriminate|reflexivity]. }
        assert (Hyes : tget (targets s1) nextcl = Some (nextid s)).
        { unfold s1. cbn [targets]. apply tget_tsetdefault_same. assumption. }
        assert (Hht : has_target s1 nextcl = true) by (unfold has_target; rewrite Hyes; reflexivity).
        rewrite Hht.
        rewrite (process_target_lim nextcl (push (dlit l) s1) (dlit l) (stack s1) (nextid s) eq_refl
                   ltac:(unfold nextcl, pos_of; lia) Hyes).
        cbn [push targets nextid stack]. unfold s1 at 1 2. cbn [stack targets nextid].
        rewrite tdel_tsetdefault by assumption.
        rewrite merge_first; [| apply plain_dlit | apply same_id_dlit | | discriminate].
        * rewrite hd_chain_items by discriminate. rewrite map_snd_chain_items.
          rewrite ep_dlit, Nat.max_0_r.
          rewrite pt_stop_lim.
          -- unfold s1. cbn [nextid]. cbn [clause_node app map].
             destruct (r0 ++ [l]) eqn:E; [destruct r0; discriminate|]. rewrite <- E.
             rewrite map_app. reflexivity.
          -- cbn [map app]. destruct (map dlit r0 ++ [dlit l]) eqn:E; [destruct r0; discriminate|]. apply simplify_multi.
          -- unfold same_id. cbn [id_of]. rewrite Nat.eqb_refl. destruct (nextid s); [lia|reflexivity].
        * intros k d Hin. rewrite chain_items_cons in Hin. cbn [tl] in Hin. apply chain_items_ids in Hin. cbn [not_lim]. lia. }
  destruct (ljmp_facts l false tg) as [_ [_ [Hfin _]]].
  cbn [app].
  rewrite (run_cons orj ce (ljmp l false tg) _ q _ _ Hfin Hstep).
  f_equal. lia.
Qed.

(* ------------------------------------------------------------------ a run of conjuncts: `and` clauses pending at T *)
Definition and_state (s : state) (T : nat) (items : list (nat * dn)) (below : list dn) (ts0 : list (nat * nat)) (lo : nat) : Prop :=
  stack s = rev (cl false T items) ++ below /\
  (forall p, tget (targets s) p = match items with x :: _ => if Nat.eqb p T then Some (fst x) else tget ts0 p | [] => tget ts0 p end) /\
  StronglySorted lt (map fst items) /\ (forall k, In k (map fst items) -> lo <= k < nextid s).

Lemma run_conjs : forall cs orj ce tg rest i s items below ts0 lo,
  Forall (fun c => c <> []) cs -> 1 <= nextid s -> lo <= nextid s ->
  and_state s (tpos tg) items below ts0 lo ->
  tget ts0 (tpos tg) = None ->
  (forall k, k <= total_lits cs -> tget ts0 (pos_of (i + k)) = None /\ tpos tg <> pos_of (i + k)) ->
  (forall k, k < total_lits cs -> Nat.leb ce (pos_of (i + k)) = false) ->
  orj_ok orj (conjJ cs i tg) -> lasts_ok orj cs i ->
  exists s' items', run orj ce [] (conj_code cs (pos_of i) tg ++ rest) i s = run orj ce [] rest (i + total_lits cs) s' /\
     and_state s' (tpos tg) items' below ts0 lo /\ nextid s <= nextid s' /\
     map strip (map snd items') = map strip (map snd items) ++ map clause_pt cs /\
     length items' = length items + length cs.
Proof.
  induction cs as [|c r IH]; intros orj ce tg rest i s items below ts0 lo Hall Hid Hlo Hst HT Hpos Hce Hj Hl.
  - exists s, items. cbn [conj_code total_lits app map length]. rewrite !Nat.add_0_r, app_nil_r.
    split; [reflexivity|]. split; [exact Hst|]. split; [apply le_n|]. split; reflexivity.
  - inversion Hall as [|x0 l0 Hc Hr]; subst x0 l0.
    assert (Hlc : 2 <= lws c) by (apply lws_pos; assumption).
    cbn [conj_code]. cbn [total_lits] in *. replace (pos_of i + lws c) with (pos_of (i + lws c)) by (unfold pos_of; lia).
    rewrite <- app_assoc.
    destruct Hst as [Hstk [Htg [Hsort Hrange]]].
    cbn [conjJ] in Hj. apply orj_ok_app in Hj. destruct Hj as [Hj1 Hj2]. destruct Hl as [Hl1 Hl2].
    assert (Hnt : forall k, k <= lws c -> has_target s (pos_of (i + k)) = false).
    { intros k Hk. unfold has_target. rewrite Htg. destruct (Hpos k ltac:(lia)) as [Hn Hne]. destruct items as [|x xs]; [rewrite Hn; reflexivity|].
      replace (pos_of (i + k) =? tpos tg) with false by (symmetry; apply Nat.eqb_neq; congruence). rewrite Hn. reflexivity. }
    assert (Hce1 : forall k, k < lws c -> Nat.leb ce (pos_of (i + k)) = false) by (intros k Hk; apply Hce; lia).
    assert (Hor : forall pre l post, c = pre ++ l :: post -> post <> [] ->
                    existsb (Nat.eqb (pos_of (i + lws pre + length (lval l)))) orj = true).
    { intros pre l post Heq Hp. apply (Hj1 _ (pos_of (i + lws c)) true). rewrite Heq. apply clauseJ_mem_nonlast. exact Hp. }
    rewrite (run_clause_to orj ce c tg _ i s Hc Hid Hnt Hce1 Hor Hl1).
    set (newid := nextid s + length c - 1). set (A := clause_node (nextid s) (pos_of (i + lws c)) c).
    assert (Hlen1 : 1 <= length c) by (destruct c; [congruence | cbn [length]; lia]).
    set (s1 := {| stack := DBool newid (tpos tg) false [A] :: stack s; targets := tsetdefault (targets s) (tpos tg) newid; nextid := nextid s + length c |}).
    destruct (IH orj ce tg rest (i + lws c) s1 (items ++ [(newid, A)]) below ts0 lo Hr) as [s' [items' [Hrun [Hst' [Hid' [Hstrip Hlen]]]]]].
    + unfold s1. cbn [nextid]. lia.
    + unfold s1. cbn [nextid]. lia.
    + unfold s1. split; [|split; [|split]].
      * cbn [stack]. rewrite Hstk. unfold cl. rewrite map_app, rev_app_distr. reflexivity.
      * intro p. cbn [targets]. rewrite tget_tsetdefault, !Htg. destruct items as [|x xs]; cbn [app fst].
        -- rewrite HT. destruct (tget ts0 p) eqn:E.
           ++ destruct (Nat.eqb p (tpos tg)) eqn:E2; [apply Nat.eqb_eq in E2; subst p; congruence | reflexivity].
           ++ rewrite (Nat.eqb_sym (tpos tg) p). destruct (Nat.eqb p (tpos tg)); reflexivity.
        -- rewrite Nat.eqb_refl. destruct (Nat.eqb p (tpos tg)) eqn:E2; [reflexivity|].
           destruct (tget ts0 p); [reflexivity|]. rewrite (Nat.eqb_sym (tpos tg) p), E2. reflexivity.
      * rewrite map_app. cbn [map fst]. apply sorted_snoc; [exact Hsort|]. intros k Hk. apply Hrange in Hk. unfold newid. lia.
      * cbn [nextid]. intros k Hk. rewrite map_app in Hk. apply in_app_or in Hk. destruct Hk as [Hk|[Hk|[]]].
        -- apply Hrange in Hk. lia.
        -- subst k. cbn [fst]. unfold newid. lia.
    + exact HT.
    + intros k Hk. replace (i + lws c + k) with (i + (lws c + k)) by lia. apply Hpos. lia.
    + intros k Hk. replace (i + lws c + k) with (i + (lws c + k)) by lia. apply Hce. lia.
    + exact Hj2.
    + exact Hl2.
    + exists s', items'. split; [rewrite Hrun; f_equal; lia|]. split; [exact Hst'|]. split; [unfold s1 in Hid'; cbn [nextid] in Hid'; lia|]. split.
      * rewrite Hstrip. rewrite !map_app. cbn [map snd]. unfold A. rewrite strip_clause_node. rewrite <- app_assoc. reflexivity.
      * rewrite Hlen, app_length. cbn [length]. lia.
Qed.

(* ------------------------------------------------------------------ small facts *)
Lemma total_lits_snoc : forall cpre c, total_lits (cpre ++ [c]) = total_lits cpre + lws c.
Proof. induction cpre as [|x r IH]; intro c; cbn [app total_lits]; [lia|]. rewrite IH. lia. Qed.

Lemma chain_code_snoc : forall c tg ls0 l, chain_code c tg (ls0 ++ [l]) = chain_code c tg ls0 ++ lval l ++ [ljmp l c tg].
Proof. induction ls0 as [|a r IH]; intro l; [reflexivity|]. cbn [app chain_code]. rewrite IH, <- app_assoc. reflexivity. Qed.

Lemma alt3_fwd_snoc : forall cpre clast p na body,
  alt3_fwd (cpre ++ [clast]) p na body = conj_code cpre p (TAt na) ++ chain_code true (TAt body) clast.
Proof.
  induction cpre as [|c r IH]; intros clast p na body; [reflexivity|].
  cbn [app alt3_fwd conj_code]. destruct (r ++ [clast]) eqn:E; [destruct r; discriminate|]. rewrite <- E, IH, app_assoc. reflexivity.
Qed.

Lemma alt3J_snoc : forall cpre clast i na body,
  alt3J (cpre ++ [clast]) i na body = conjJ cpre i (TAt na) ++ chainJ true body clast (i + total_lits cpre).
Proof.
  induction cpre as [|c r IH]; intros clast i na body.
  - cbn [app alt3J conjJ total_lits]. rewrite Nat.add_0_r. reflexivity.
  - cbn [app alt3J conjJ total_lits]. destruct (r ++ [clast]) eqn:E; [destruct r; discriminate|]. rewrite <- E, IH, <- app_assoc.
    replace (i + lws c + total_lits r) with (i + (lws c + total_lits r)) by lia. reflexivity.
Qed.

Lemma pt_stop_any : forall partial pos lim top a b r ts,
  simplify top = top -> is_comp top = false ->
  pt_loop partial pos lim top (DComp a b :: r) ts = Some (top :: DComp a b :: r, ts).
Proof. intros partial pos lim top a b r ts H H0. cbn [pt_loop]. rewrite H. destruct (same_id top lim); [reflexivity|]. rewrite H0. reflexivity. Qed.

Lemma tget_tsetdefault_other : forall ts t i p, t <> p -> tget (tsetdefault ts t i) p = tget ts p.
Proof.
  intros ts t i p H. rewrite tget_tsetdefault. destruct (tget ts p); [reflexivity|].
  replace (t =? p) with false by (symmetry; apply Nat.eqb_neq; exact H). reflexivity.
Qed.

Lemma tget_tsetdefault_at : forall ts t i, tget (tsetdefault ts t i) t = match tget ts t with Some x => Some x | None => Some i end.
Proof. intros ts t i. rewrite tget_tsetdefault, Nat.eqb_refl. destruct (tget ts t); reflexivity. Qed.

Lemma has_target_none : forall s p, tget (targets s) p = None -> has_target s p = false.
Proof. intros s p H. unfold has_target. rewrite H. reflexivity. Qed.

(* ------------------------------------------------------------------ the state between alternatives *)
(* `or` clauses of the finished alternatives pending at the body; the registered identity x for the body may be stale (the
   clause it named was merged into a larger one) but then it names no clause that is still on the stack *)
Definition inv3 (s : state) (ors : list (nat * dn)) (body : nat) : Prop :=
  stack s = rev (cl true body ors) ++ [DComp 0 0] /\
  (forall p, p <> body -> tget (targets s) p = None) /\
  (ors = [] -> tget (targets s) body = None) /\
  (ors <> [] -> exists x, tget (targets s) body = Some x) /\
  (forall x, tget (targets s) body = Some x -> x < nextid s /\ forall k d, In (k, d) (tl ors) -> k <> x) /\
  1 <= nextid s.

Lemma inv3_push : forall s ors body ts' n' newid A,
  inv3 s ors body -> nextid s <= newid -> newid < n' ->
  (forall p, p <> body -> tget ts' p = None) ->
  (exists x, tget ts' body = Some x) ->
  (forall x, tget ts' body = Some x -> tget (targets s) body = Some x \/ (tget (targets s) body = None /\ x <= newid)) ->
  inv3 (mkState (DBool newid body true [A] :: stack s) ts' n') (ors ++ [(newid, A)]) body.
Proof.
  intros s ors body ts' n' newid A [Hstk [Hoth [Hnone [Hsome [Hx Hid]]]]] Hlo Hhi Hoth' Hex Hcases.
  split; [|split; [|split; [|split; [|split]]]]; cbn [stack targets nextid].
  - rewrite Hstk. unfold cl. rewrite map_app, rev_app_distr. reflexivity.
  - exact Hoth'.
  - intro H. destruct ors; discriminate H.
  - intros _. exact Hex.
  - intros x Hget. destruct (Hcases x Hget) as [Hold|[Hnew Hle]].
    + destruct (Hx x Hold) as [Hlt Hne]. split; [lia|].
      destruct ors as [|o1 orest]; [rewrite (Hnone eq_refl) in Hold; discriminate Hold|].
      cbn [app tl]. intros k d Hin. apply in_app_or in Hin. destruct Hin as [Hin|[Hin|[]]].
      * apply (Hne k d Hin).
      * injection Hin as <- _. lia.
    + split; [lia|]. destruct ors as [|o1 orest].
      * cbn [app tl]. intros k d [].
      * destruct (Hsome ltac:(discriminate)) as [y Hy]. rewrite Hy in Hnew. discriminate Hnew.
  - lia.
Qed.

Definition alt3_pt (cs : list (list lit)) : ptree := all_or_one (map clause_pt cs).

(* ------------------------------------------------------------------ an alternative that is not the last one *)
Lemma run_alt3 : forall orj ce cs body rest i s ors,
  wf_alt3 cs -> inv3 s ors body ->
  pos_of (i + total_lits cs) < body ->
  (forall k, k < total_lits cs -> Nat.leb ce (pos_of (i + k)) = false) ->
  orj_ok orj (alt3J cs i (pos_of (i + total_lits cs)) body) ->
  exists s' newid A,
    run orj ce [] (alt3_fwd cs (pos_of i) (pos_of (i + total_lits cs)) body ++ rest) i s = run orj ce [] rest (i + total_lits cs) s' /\
    inv3 s' (ors ++ [(newid, A)]) body /\ strip A = alt3_pt cs.
Proof.
  intros orj ce cs body rest i s ors [Hne [Hall Hone]] Hinv Hbody Hce Hj.
  pose proof Hinv as [Hstk [Hoth [Hnone [Hsome [Hx Hid]]]]].
  destruct (exists_last Hne) as [cpre [clast E]]. subst cs.
  apply Forall_app in Hall. destruct Hall as [Hallpre Hlast]. inversion Hlast as [|x0 l0 Hcl _]; subst x0 l0.
  destruct (exists_last Hcl) as [ls0 [l El]]. subst clast.
  rewrite alt3_fwd_snoc. rewrite alt3J_snoc in Hj. apply orj_ok_app in Hj. destruct Hj as [Hj1 Hj2].
  rewrite total_lits_snoc, lws_app in *. cbn [lws] in *. rewrite Nat.add_0_r in *.
  assert (Hlw : lw l = length (lval l) + 1) by reflexivity.
  set (tp := total_lits cpre) in *.
  set (na := pos_of (i + (tp + (lws ls0 + lw l)))) in *.
  assert (Hna_body : na <> body) by lia.
  (* positions below the end of the alternative carry no target in s *)
  assert (Hfree : forall k, k < tp + (lws ls0 + lw l) -> tget (targets s) (pos_of (i + k)) = None).
  { intros k Hk. apply Hoth. unfold na, pos_of in *. lia. }
  destruct cpre as [|c1 cr].
  - (* a single literal *)
    cbn [app] in Hone. rewrite app_length in Hone. cbn [length] in Hone.
    assert (ls0 = []) by (destruct ls0; [reflexivity | cbn [length] in Hone; lia]). subst ls0.
    unfold tp in *. cbn [total_lits lws app conj_code chain_code length] in *. cbn [Nat.add] in *.
    rewrite <- app_assoc. rewrite run_lval.
    2:{ intros k Hk. apply has_target_none. apply Hfree. lia. }
    set (q := i + length (lval l)).
    assert (Hstep : step orj ce [] (ljmp l true (TAt body)) q (push (dval l) s) =
              Some (mkState (DBool (nextid s) body true [dlit l] :: stack s) (tsetdefault (targets s) body (nextid s)) (S (nextid s)))).
    { apply (lit_jump_plain orj ce l true (TAt body) q s).
      - apply has_target_none. apply Hfree. unfold q. lia.
      - apply has_target_none. apply Hoth. unfold q, na, pos_of in *. lia.
      - apply Hce. unfold q. lia.
      - apply (Hj2 _ body true). replace (pos_of q) with (pos_of (i + 0 + lws [] + length (lval l))) by (unfold q; cbn [lws]; f_equal; lia).
        apply (chainJ_mem true body [] l [] (i + 0)). }
    destruct (ljmp_facts l true (TAt body)) as [_ [_ [Hfin _]]].
    cbn [app]. rewrite (run_cons orj ce _ _ q _ _ Hfin Hstep).
    exists (mkState (DBool (nextid s) body true [dlit l] :: stack s) (tsetdefault (targets s) body (nextid s)) (S (nextid s))), (nextid s), (dlit l).
    split; [f_equal; unfold q; lia|]. split.
    + apply inv3_push; [exact Hinv | apply le_n | lia | | |].
      * intros p Hp. rewrite tget_tsetdefault_other by congruence. apply Hoth. exact Hp.
      * rewrite tget_tsetdefault_at. destruct (tget (targets s) body); eexists; reflexivity.
      * intros x Hget. rewrite tget_tsetdefault_at in Hget. destruct (tget (targets s) body) eqn:E.
        -- left. exact Hget.
        -- right. split; [reflexivity|]. injection Hget as <-. apply le_n.
    + apply strip_dlit.
  - (* conjuncts, the last of which sends every literal to the body *)
    set (cpre := c1 :: cr) in *.
    assert (Htp : 2 <= tp) by (apply total_lits_pos; split; [discriminate | exact Hallpre]).
    rewrite <- app_assoc.
    destruct (run_conjs cpre orj ce (TAt na) (chain_code true (TAt body) (ls0 ++ [l]) ++ rest) i s [] (stack s) (targets s) (nextid s)
                Hallpre Hid (le_n _)) as [s1 [anditems [Hrun1 [Hst1 [Hid1 [Hstrip1 Hlen1]]]]]].
    + split; [reflexivity|]. split; [intro p; reflexivity|]. split; [constructor | intros k []].
    + cbn [tpos]. apply Hoth. exact Hna_body.
    + intros k Hk. split; [apply Hfree; lia | cbn [tpos]; unfold na, pos_of; lia].
    + intros k Hk. apply Hce. lia.
    + exact Hj1.
    + apply (lasts_ok_at orj cpre na i Hallpre Hj1).
    + rewrite Hrun1. clear Hrun1. cbn [tpos] in Hst1. destruct Hst1 as [Hstk1 [Htg1 [Hsort1 Hrange1]]].
      destruct anditems as [|[a1 d1] arest]; [cbn [length] in Hlen1; discriminate Hlen1|].
      cbn [fst] in Htg1.
      assert (Ha1 : nextid s <= a1 < nextid s1) by (apply Hrange1; left; reflexivity).
      assert (Harest : forall k d, In (k, d) arest -> a1 < k /\ k < nextid s1).
      { intros k d Hin. cbn [map fst] in Hsort1. inversion Hsort1 as [|x1 l1 _ Hf]; subst x1 l1. rewrite Forall_forall in Hf. split.
        - apply Hf. apply in_map_iff. exists (k, d). split; [reflexivity | exact Hin].
        - apply Hrange1. right. apply in_map_iff. exists (k, d). split; [reflexivity | exact Hin]. }
      set (i1 := i + tp).
      assert (Hts1 : forall p, p <> na -> tget (targets s1) p = tget (targets s) p).
      { intros p Hp. rewrite Htg1. replace (p =? na) with false by (symmetry; apply Nat.eqb_neq; exact Hp). reflexivity. }
      assert (Hts1na : tget (targets s1) na = Some a1) by (rewrite Htg1, Nat.eqb_refl; reflexivity).
      rewrite chain_code_snoc, <- !app_assoc.
      rewrite run_chain.
      2:{ intros k Hk. apply has_target_none. rewrite Hts1 by (unfold na, i1, pos_of; lia). unfold i1. rewrite <- Nat.add_assoc. apply Hfree. lia. }
      2:{ intros k Hk. cbn [tpos]. unfold na, i1, pos_of in *. lia. }
      2:{ intros k Hk. unfold i1. rewrite <- Nat.add_assoc. apply Hce. lia. }
      2:{ intros pre l0 post Heq. apply (Hj2 _ body true). rewrite Heq, <- app_assoc. cbn [app]. apply chainJ_mem. }
      cbn [tpos].
      set (oritems := chain_items (nextid s1) ls0).
      set (s2 := {| stack := rev (cl true body oritems) ++ stack s1;
                    targets := match ls0 with [] => targets s1 | _ :: _ => tsetdefault (targets s1) body (nextid s1) end;
                    nextid := nextid s1 + length ls0 |}).
      set (i2 := i1 + lws ls0).
      assert (Hts2 : forall p, p <> body -> tget (targets s2) p = tget (targets s1) p).
      { intros p Hp. unfold s2. cbn [targets]. destruct ls0; [reflexivity|]. apply tget_tsetdefault_other. congruence. }
      rewrite run_lval.
      2:{ intros k Hk. apply has_target_none. rewrite Hts2 by (unfold i2, i1, na, pos_of in *; lia).
          rewrite Hts1 by (unfold na, i2, i1, pos_of; lia). unfold i2, i1. rewrite <- !Nat.add_assoc. apply Hfree. lia. }
      set (q := i2 + length (lval l)).
      assert (Hq : pos_of (S q) = na) by (unfold q, i2, i1, na, pos_of; lia).
      set (lastnode := match ls0 with [] => dlit l | _ :: _ => DBool (nextid s1) body true (map dlit ls0 ++ [dlit l]) end).
      set (andnode := DBool a1 (Nat.max na (ep_of lastnode)) false (map snd ((a1, d1) :: arest) ++ [lastnode])).
      assert (Hm_and : forall top ts, plain_for false top -> same_id top (Some a1) = false ->
                pt_loop false na (Some a1) top (rev (cl false na ((a1, d1) :: arest)) ++ stack s) ts =
                Some (DBool a1 (Nat.max na (ep_of top)) false (map snd ((a1, d1) :: arest) ++ [top]) :: stack s, ts)).
      { intros top ts Hp Hs. rewrite merge_first; [|exact Hp|exact Hs| |discriminate].
        - cbn [hd fst]. rewrite pt_stop_lim; [reflexivity| |].
          + cbn [map snd app]. destruct (map snd arest ++ [top]) eqn:E; [destruct arest; discriminate|]. apply simplify_multi.
          + unfold same_id. cbn [id_of]. rewrite Nat.eqb_refl. destruct a1; [lia|reflexivity].
        - cbn [tl]. intros k d Hin. cbn [not_lim]. destruct (Harest k d Hin). lia. }
      assert (Hloop : pt_loop false na (Some a1) (dlit l) (stack s2) (tdel (targets s2) na) = Some (andnode :: stack s, tdel (targets s2) na)).
      { unfold s2 at 1. cbn [stack]. rewrite Hstk1. unfold oritems, andnode, lastnode. destruct ls0 as [|l0 r0].
        - cbn [chain_items length seq map combine cl rev app]. apply Hm_and; [apply plain_dlit | apply same_id_dlit].
        - rewrite merge_first; [|apply plain_dlit|apply same_id_dlit| |discriminate].
          + rewrite hd_chain_items by discriminate. rewrite map_snd_chain_items, ep_dlit, Nat.max_0_r.
            apply Hm_and.
            * repeat split; [|discriminate]. cbn [map app]. destruct (map dlit r0 ++ [dlit l]) eqn:E; [destruct r0; discriminate|]. apply simplify_multi.
            * apply same_id_not_lim. cbn [id_of not_lim]. lia.
          + intros k d Hin. rewrite chain_items_cons in Hin. cbn [tl] in Hin. apply chain_items_ids in Hin. cbn [not_lim]. lia. }
      assert (Hstep : step orj ce [] (ljmp l true (TAt body)) q (push (dval l) s2) =
                Some (mkState (DBool (nextid s2) body true [andnode] :: stack s) (tsetdefault (tdel (targets s2) na) body (nextid s2)) (S (nextid s2)))).
      { apply (lit_jump orj ce l true (TAt body) q s2).
        - apply has_target_none. rewrite Hts2 by (unfold q, i2, i1, na, pos_of in *; lia).
          rewrite Hts1 by (unfold na, q, i2, i1, pos_of; lia). unfold q, i2, i1. rewrite <- !Nat.add_assoc. apply Hfree. lia.
        - unfold q, i2, i1. rewrite <- !Nat.add_assoc. apply Hce. lia.
        - apply (Hj2 _ body true). unfold q, i2, i1. apply (chainJ_mem true body ls0 l [] (i + tp)).
        - rewrite Hq.
          assert (Hget : tget (targets s2) na = Some a1) by (rewrite Hts2 by exact Hna_body; exact Hts1na).
          assert (Hht : has_target s2 na = true) by (unfold has_target; rewrite Hget; reflexivity).
          rewrite Hht.
          rewrite (process_target_lim na (push (dlit l) s2) (dlit l) (stack s2) a1 eq_refl ltac:(unfold na, pos_of; lia) Hget).
          cbn [push targets nextid]. rewrite Hloop. reflexivity. }
      destruct (ljmp_facts l true (TAt body)) as [_ [_ [Hfin _]]].
      cbn [app]. rewrite (run_cons orj ce _ _ q _ _ Hfin Hstep).
      exists (mkState (DBool (nextid s2) body true [andnode] :: stack s) (tsetdefault (tdel (targets s2) na) body (nextid s2)) (S (nextid s2))),
             (nextid s2), andnode.
      split; [f_equal; unfold q, i2, i1; lia|]. split.
      * apply inv3_push; [exact Hinv | unfold s2; cbn [nextid]; lia | lia | | |].
        -- intros p Hp. rewrite tget_tsetdefault_other by congruence.
           destruct (Nat.eq_dec p na) as [->|Hpn]; [apply tget_tdel_same|].
           rewrite tget_tdel_other by congruence. rewrite Hts2 by exact Hp. rewrite Hts1 by exact Hpn. apply Hoth. exact Hp.
        -- rewrite tget_tsetdefault_at. destruct (tget (tdel (targets s2) na) body); eexists; reflexivity.
        -- intros x Hget. rewrite tget_tsetdefault_at in Hget. rewrite tget_tdel_other in Hget by exact Hna_body.
           assert (H2b : tget (targets s2) body = match ls0 with
                          | [] => tget (targets s) body
                          | _ :: _ => match tget (targets s) body with Some y => Some y | None => Some (nextid s1) end end).
           { unfold s2. cbn [targets]. destruct ls0; [apply Hts1; congruence|]. rewrite tget_tsetdefault_at. rewrite Hts1 by congruence. reflexivity. }
           rewrite H2b in Hget. destruct (tget (targets s) body) eqn:E.
           ++ left. destruct ls0; exact Hget.
           ++ right. split; [reflexivity|]. destruct ls0; injection Hget as <-; unfold s2; cbn [nextid length]; lia.
      * unfold andnode. cbn [strip]. rewrite map_app. rewrite Hstrip1. cbn [map snd app].
        assert (Hl : strip lastnode = clause_pt (ls0 ++ [l])).
        { unfold lastnode. destruct ls0 as [|l0 r0]; [apply strip_dlit|].
          cbn [strip]. rewrite map_app, map_strip_dlit. cbn [map]. rewrite strip_dlit.
          unfold clause_pt. destruct ((l0 :: r0) ++ [l]) as [|x [|y z]] eqn:E.
          - discriminate.
          - destruct r0; discriminate.
          - rewrite <- E. rewrite map_app. reflexivity. }
        rewrite Hl. unfold alt3_pt. rewrite map_app. cbn [map]. unfold cpre. cbn [map app all_or_one].
        destruct (map clause_pt cr ++ [clause_pt (ls0 ++ [l])]) eqn:E; [destruct cr; discriminate|]. reflexivity.
Qed.

(* ------------------------------------------------------------------ merging a plain node into a (possibly empty) run of clauses *)
Definition mnode (o : bool) (t : nat) (l : list (nat * dn)) (top : dn) : dn :=
  match l with [] => top | x :: _ => DBool (fst x) (Nat.max t (ep_of top)) o (map snd l ++ [top]) end.

Lemma merge_opt : forall o t pos lim l top below ts,
  plain_for o top -> same_id top lim = false -> (forall k d, In (k, d) (tl l) -> not_lim lim k) ->
  pt_loop false pos lim top (rev (cl o t l) ++ below) ts = pt_loop false pos lim (mnode o t l top) below ts.
Proof.
  intros o t pos lim l top below ts Hp Hs Hids. destruct l as [|x r]; [reflexivity|].
  rewrite merge_first; [reflexivity | exact Hp | exact Hs | exact Hids | discriminate].
Qed.

Lemma mnode_plain : forall o t l top, l <> [] -> plain_for (negb o) (mnode o t l top).
Proof.
  intros o t [|x r] top H; [congruence|]. unfold mnode. repeat split.
  - cbn [map snd app]. destruct (map snd r ++ [top]) eqn:E; [destruct r; discriminate|]. apply simplify_multi.
  - destruct o; discriminate.
Qed.

Lemma mnode_same_id : forall o t l top lim, same_id top lim = false -> (forall k d, In (k, d) l -> not_lim lim k) ->
  same_id (mnode o t l top) lim = false.
Proof.
  intros o t [|[k d] r] top lim Hs Hids; [exact Hs|]. unfold mnode. apply same_id_not_lim. cbn [id_of fst]. apply (Hids k d). left. reflexivity.
Qed.

Lemma mnode_strip : forall o t l top,
  strip (mnode o t l top) = match l with [] => strip top | _ :: _ => PBool o (map strip (map snd l) ++ [strip top]) end.
Proof. intros o t [|x r] top; [reflexivity|]. unfold mnode. cbn [strip]. rewrite map_app. reflexivity. Qed.

Lemma conj_code_snoc : forall cpre c p tg,
  conj_code (cpre ++ [c]) p tg = conj_code cpre p tg ++ or_fwd_to c (p + total_lits cpre + lws c) tg.
Proof.
  induction cpre as [|x r IH]; intros c p tg.
  - cbn [app conj_code total_lits]. rewrite Nat.add_0_r, app_nil_r. reflexivity.
  - cbn [app conj_code total_lits]. rewrite IH, <- app_assoc.
    replace (p + (lws x + total_lits r) + lws c) with (p + lws x + total_lits r + lws c) by lia. reflexivity.
Qed.

Lemma conjJ_snoc : forall cpre c i tg,
  conjJ (cpre ++ [c]) i tg = conjJ cpre i tg ++ clauseJ c (pos_of (i + total_lits cpre + lws c)) tg (i + total_lits cpre).
Proof.
  induction cpre as [|x r IH]; intros c i tg.
  - cbn [app conjJ total_lits]. rewrite Nat.add_0_r, app_nil_r. reflexivity.
  - cbn [app conjJ total_lits]. rewrite IH, <- app_assoc.
    replace (i + (lws x + total_lits r)) with (i + lws x + total_lits r) by lia. reflexivity.
Qed.

(* ------------------------------------------------------------------ the last alternative, then the yield *)
Lemma run_last3 : forall orj ce cs i s ors,
  wf_alt3 cs -> inv3 s ors ce -> ors <> [] ->
  ce = pos_of (i + total_lits cs) ->
  orj_ok orj (conjJ cs i TTop) ->
  nojump_ok orj (conj_code cs (pos_of i) TTop) i ->
  exists final, run orj ce [] (conj_code cs (pos_of i) TTop ++ [ILoadElt; IYield]) i s = RGen (DElt 0 0) [[final]] /\
      strip final = PBool true (map strip (map snd ors) ++ [alt3_pt cs]).
Proof.
  intros orj ce cs i s ors [Hne [Hall Hone]] Hinv Hors Hce Hj Hn.
  pose proof Hinv as [Hstk [Hoth [Hnone [Hsome [Hx Hid]]]]].
  destruct (Hsome Hors) as [x Hxget]. destruct (Hx x Hxget) as [Hxlt Hxne].
  destruct (exists_last Hne) as [cpre [clast E]]. subst cs.
  apply Forall_app in Hall. destruct Hall as [Hallpre Hlast]. inversion Hlast as [|x0 l0 Hcl _]; subst x0 l0.
  destruct (exists_last Hcl) as [ls0 [l El]]. subst clast.
  rewrite conj_code_snoc in Hn. rewrite conj_code_snoc. rewrite conjJ_snoc in Hj.
  apply orj_ok_app in Hj. destruct Hj as [Hj1 Hj2]. apply nojump_ok_app in Hn. destruct Hn as [Hn1 Hn2].
  rewrite length_conj_code in Hn2.
  rewrite total_lits_snoc, lws_app in *. cbn [lws] in *. rewrite Nat.add_0_r in *.
  assert (Hlw : lw l = length (lval l) + 1) by reflexivity.
  set (tp := total_lits cpre) in *.
  set (body := pos_of (i + (tp + (lws ls0 + lw l)))) in *.
  replace (pos_of i + tp + (lws ls0 + lw l)) with body in * by (unfold body, pos_of; lia).
  replace (pos_of (i + tp + (lws ls0 + lw l))) with body in * by (unfold body, pos_of; lia).
  subst ce.
  assert (Hb2 : 2 <= body) by (unfold body, pos_of; lia).
  assert (Htop_body : TOP <> body) by (unfold TOP; lia).
  assert (Hfree : forall k, k < tp + (lws ls0 + lw l) -> tget (targets s) (pos_of (i + k)) = None).
  { intros k Hk. apply Hoth. unfold body, pos_of in *. lia. }
  assert (Hleb : forall k, k < tp + (lws ls0 + lw l) -> Nat.leb body (pos_of (i + k)) = false).
  { intros k Hk. apply Nat.leb_gt. unfold body, pos_of. lia. }
  rewrite <- app_assoc.
  destruct (run_conjs cpre orj body TTop (or_fwd_to (ls0 ++ [l]) body TTop ++ [ILoadElt; IYield]) i s [] (stack s) (targets s) (nextid s)
              Hallpre Hid (le_n _)) as [s1 [anditems [Hrun1 [Hst1 [Hid1 [Hstrip1 Hlen1]]]]]].
  - split; [reflexivity|]. split; [intro p; reflexivity|]. split; [constructor | intros k []].
  - cbn [tpos]. apply Hoth. exact Htop_body.
  - intros k Hk. split; [apply Hfree; pose proof (lw_pos l); lia | cbn [tpos]; unfold TOP, pos_of; lia].
  - intros k Hk. apply Hleb. lia.
  - exact Hj1.
  - apply (lasts_ok_top orj cpre i Hallpre Hn1).
  - rewrite Hrun1. clear Hrun1. cbn [tpos] in Hst1. destruct Hst1 as [Hstk1 [Htg1 [Hsort1 Hrange1]]].
    assert (Hts1 : forall p, p <> TOP -> tget (targets s1) p = tget (targets s) p).
    { intros p Hp. rewrite Htg1. destruct anditems as [|a0 ar]; [reflexivity|].
      replace (p =? TOP) with false by (symmetry; apply Nat.eqb_neq; exact Hp). reflexivity. }
    assert (Hand_ids : forall k d, In (k, d) anditems -> nextid s <= k < nextid s1).
    { intros k d Hin. apply Hrange1. apply in_map_iff. exists (k, d). split; [reflexivity | exact Hin]. }
    set (i1 := i + tp).
    rewrite or_fwd_to_snoc, <- !app_assoc.
    rewrite run_chain.
    2:{ intros k Hk. apply has_target_none. rewrite Hts1 by (unfold TOP, pos_of; lia). unfold i1. rewrite <- Nat.add_assoc. apply Hfree. pose proof (lw_pos l). lia. }
    2:{ intros k Hk. cbn [tpos]. unfold body, i1, pos_of in *. pose proof (lw_pos l). lia. }
    2:{ intros k Hk. unfold i1. rewrite <- Nat.add_assoc. apply Hleb. lia. }
    2:{ intros pre l0 post Heq. apply (Hj2 _ body true). rewrite Heq, <- app_assoc. cbn [app]. apply clauseJ_mem_nonlast. destruct post; discriminate. }
    cbn [tpos].
    set (oritems := chain_items (nextid s1) ls0).
    assert (Hxget1 : tget (targets s1) body = Some x) by (rewrite Hts1 by congruence; exact Hxget).
    assert (Htgs2 : match ls0 with [] => targets s1 | _ :: _ => tsetdefault (targets s1) body (nextid s1) end = targets s1).
    { destruct ls0; [reflexivity|]. apply (tsetdefault_present _ _ _ x). exact Hxget1. }
    rewrite Htgs2.
    set (s2 := {| stack := rev (cl true body oritems) ++ stack s1; targets := targets s1; nextid := nextid s1 + length ls0 |}).
    set (i2 := i1 + lws ls0).
    assert (Hfree2 : forall k, k < tp + (lws ls0 + lw l) -> has_target s2 (pos_of (i + k)) = false).
    { intros k Hk. apply has_target_none. unfold s2. cbn [targets]. rewrite Hts1 by (unfold TOP, pos_of; lia). apply Hfree. exact Hk. }
    rewrite run_lval.
    2:{ intros k Hk. unfold i2, i1. rewrite <- !Nat.add_assoc. apply Hfree2. lia. }
    set (q := i2 + length (lval l)).
    assert (Hq : pos_of (S q) = body) by (unfold q, i2, i1, body, pos_of; lia).
    set (n1 := mnode true body oritems (dlit l)).
    set (n2 := mnode false TOP anditems n1).
    set (n3 := mnode true body ors n2).
    assert (Hor_ids : forall k d, In (k, d) oritems -> not_lim (Some x) k).
    { intros k d Hin. apply chain_items_ids in Hin. cbn [not_lim]. lia. }
    assert (Hn1s : same_id n1 (Some x) = false) by (apply mnode_same_id; [apply same_id_dlit | exact Hor_ids]).
    assert (Hn2s : same_id n2 (Some x) = false).
    { apply mnode_same_id; [exact Hn1s|]. intros k d Hin. cbn [not_lim]. apply Hand_ids in Hin. lia. }
    assert (Hcase : cpre = [] -> ls0 = []).
    { intro Hc. subst cpre. cbn [app] in Hone. rewrite app_length in Hone. cbn [length] in Hone. destruct ls0; [reflexivity | cbn [length] in Hone; lia]. }
    assert (Hn1p : plain_for false n1).
    { unfold n1, oritems. destruct ls0 as [|l0 r0]; [apply plain_dlit|]. apply (mnode_plain true). rewrite chain_items_cons. discriminate. }
    assert (Hn2p : plain_for true n2).
    { unfold n2. destruct anditems as [|a0 ar] eqn:Ea.
      - cbn [mnode]. assert (cpre = []) by (destruct cpre; [reflexivity | cbn [length] in Hlen1; discriminate Hlen1]).
        specialize (Hcase H). unfold n1, oritems. rewrite Hcase. cbn [chain_items length seq map combine mnode]. apply plain_dlit.
      - apply (mnode_plain false). discriminate. }
    assert (Hn3 : n3 = DBool (fst (hd (0, n2) ors)) (Nat.max body (ep_of n2)) true (map snd ors ++ [n2])).
    { unfold n3. destruct ors; [congruence | reflexivity]. }
    assert (Hn3simp : simplify n3 = n3).
    { rewrite Hn3. destruct ors as [|o1 orest]; [congruence|]. cbn [map snd app].
      destruct (map snd orest ++ [n2]) eqn:E; [destruct orest; discriminate|]. apply simplify_multi. }
    assert (Hloop : pt_loop false body (Some x) (dlit l) (stack s2) (tdel (targets s2) body) = Some ([n3; DComp 0 0], tdel (targets s2) body)).
    { unfold s2 at 1. cbn [stack]. rewrite Hstk1, Hstk.
      rewrite merge_opt; [|apply plain_dlit|apply same_id_dlit|].
      2:{ intros k d Hin. apply Hor_ids with d. destruct oritems; [destruct Hin | right; exact Hin]. }
      fold n1. rewrite merge_opt; [|exact Hn1p|exact Hn1s|].
      2:{ intros k d Hin. cbn [not_lim]. assert (In (k, d) anditems) by (destruct anditems; [destruct Hin | right; exact Hin]). apply Hand_ids in H. lia. }
      fold n2. rewrite merge_opt; [|exact Hn2p|exact Hn2s|].
      2:{ intros k d Hin. cbn [not_lim]. apply (Hxne k d Hin). }
      fold n3. apply pt_stop_any; [exact Hn3simp | rewrite Hn3; reflexivity]. }
    assert (Hstep : step orj body [] (ljmp l false TTop) q (push (dval l) s2) =
              Some (mkState [DBool (nextid s2) TOP false [n3]; DComp 0 0] (tsetdefault (tdel (targets s2) body) TOP (nextid s2)) (S (nextid s2)))).
    { apply (lit_jump orj body l false TTop q s2).
      - unfold q, i2, i1. rewrite <- !Nat.add_assoc. apply Hfree2. lia.
      - unfold q, i2, i1. rewrite <- !Nat.add_assoc. apply Hleb. lia.
      - replace q with (i + tp + (lws ls0 + lw l - 1)) by (unfold q, i2, i1; lia).
        apply (Hn2 _ (ljmp l false TTop)).
        + rewrite <- or_fwd_is_to. replace (lws ls0 + lw l - 1) with (lws (ls0 ++ [l]) - 1) by (rewrite lws_app; cbn [lws]; lia).
          apply or_fwd_nth_last.
        + destruct (ljmp_facts l false TTop) as [_ [_ [_ [Ht _]]]]. exact Ht.
      - rewrite Hq.
        assert (Hget : tget (targets s2) body = Some x) by exact Hxget1.
        assert (Hht : has_target s2 body = true) by (unfold has_target; rewrite Hget; reflexivity).
        rewrite Hht.
        rewrite (process_target_lim body (push (dlit l) s2) (dlit l) (stack s2) x eq_refl ltac:(lia) Hget).
        cbn [push targets nextid]. rewrite Hloop. reflexivity. }
    destruct (ljmp_facts l false TTop) as [_ [_ [Hfin _]]].
    cbn [app]. rewrite (run_cons orj body _ _ q _ _ Hfin Hstep).
    exists n3. split.
    + set (s3 := {| stack := _; targets := _; nextid := _ |}).
      assert (Hnt3 : forall p, 2 <= p -> has_target s3 p = false).
      { intros p Hp. apply has_target_none. unfold s3. cbn [targets]. rewrite tget_tsetdefault_other by (unfold TOP; lia).
        destruct (Nat.eq_dec p body) as [->|Hpb]; [apply tget_tdel_same|].
        rewrite tget_tdel_other by congruence. unfold s2. cbn [targets]. rewrite Hts1 by (unfold TOP; lia). apply Hoth. exact Hpb. }
      eapply run_elt_yield.
      * apply Hnt3. unfold pos_of. lia.
      * apply Hnt3. unfold pos_of. lia.
      * unfold s3. cbn [stack length]. lia.
      * unfold process_target, s3. cbn [stack targets nextid Nat.eqb orb].
        assert (Hs : simplify (DBool (nextid s2) TOP false [n3]) = n3).
        { cbn [simplify]. rewrite Hn3 at 1. cbn [ep_of].
          replace (Nat.max body (ep_of n2) <? TOP) with false; [reflexivity|].
          symmetry. apply Nat.ltb_ge. unfold TOP. lia. }
        rewrite pt_loop_simplify; rewrite Hs; [|exact Hn3simp].
        rewrite pt_stop_any; [reflexivity | exact Hn3simp | rewrite Hn3; reflexivity].
      * rewrite Hn3. reflexivity.
    + rewrite Hn3. cbn [strip]. rewrite map_app. cbn [map]. do 2 f_equal.
      assert (Hl : strip n1 = clause_pt (ls0 ++ [l])).
      { unfold n1, oritems. rewrite mnode_strip. destruct ls0 as [|l0 r0]; [apply strip_dlit|].
        rewrite chain_items_cons. rewrite <- chain_items_cons. rewrite map_snd_chain_items, map_strip_dlit, strip_dlit.
        unfold clause_pt. destruct ((l0 :: r0) ++ [l]) as [|y [|y2 z]] eqn:E.
        - discriminate.
        - destruct r0; discriminate.
        - rewrite <- E. rewrite map_app. reflexivity. }
      unfold n2. rewrite mnode_strip, Hl. unfold alt3_pt. rewrite map_app. cbn [map].
      destruct anditems as [|a0 ar].
      * assert (cpre = []) by (destruct cpre; [reflexivity | cbn [length] in Hlen1; discriminate Hlen1]). subst cpre. reflexivity.
      * rewrite Hstrip1. cbn [map snd app]. destruct cpre as [|c1 cr]; [cbn [length] in Hlen1; discriminate Hlen1|].
        cbn [map app all_or_one]. destruct (map clause_pt cr ++ [clause_pt (ls0 ++ [l])]) eqn:E; [destruct cr; discriminate|]. reflexivity.
Qed.

(* ------------------------------------------------------------------ all alternatives *)
Definition expected3 (ors : list (nat * dn)) (alts : list (list (list lit))) : ptree :=
  PBool true (map strip (map snd ors) ++ map alt3_pt alts).

Lemma run_dnf3_from : forall alts orj ce i s ors,
  alts <> [] -> Forall wf_alt3 alts -> (ors <> [] \/ 2 <= length alts) ->
  ce = pos_of (i + tot3 alts) ->
  orj_ok orj (dnf3J alts i ce) ->
  nojump_ok orj (dnf3_code alts (pos_of i) ce) i ->
  inv3 s ors ce ->
  exists final, run orj ce [] (dnf3_code alts (pos_of i) ce ++ [ILoadElt; IYield]) i s = RGen (DElt 0 0) [[final]] /\
                strip final = expected3 ors alts.
Proof.
  induction alts as [|cs r IH]; intros orj ce i s ors Hne Hall Hsome Hce Hj Hn Hinv; [congruence|].
  inversion Hall as [|x0 l0 Hcs Hr]; subst x0 l0.
  destruct r as [|cs2 r2].
  - assert (Hors : ors <> []) by (destruct Hsome as [H|H]; [exact H | cbn [length] in H; lia]).
    cbn [dnf3_code dnf3J tot3] in *. rewrite Nat.add_0_r in Hce.
    destruct (run_last3 orj ce cs i s ors Hcs Hinv Hors Hce Hj Hn) as [final [Hrun Hstrip]].
    exists final. split; [exact Hrun|]. rewrite Hstrip. reflexivity.
  - change (dnf3_code (cs :: cs2 :: r2) (pos_of i) ce) with
      (alt3_fwd cs (pos_of i) (pos_of i + total_lits cs) ce ++ dnf3_code (cs2 :: r2) (pos_of i + total_lits cs) ce) in *.
    change (dnf3J (cs :: cs2 :: r2) i ce) with
      (alt3J cs i (pos_of (i + total_lits cs)) ce ++ dnf3J (cs2 :: r2) (i + total_lits cs) ce) in Hj.
    change (tot3 (cs :: cs2 :: r2)) with (total_lits cs + tot3 (cs2 :: r2)) in Hce.
    replace (pos_of i + total_lits cs) with (pos_of (i + total_lits cs)) in * by (unfold pos_of; lia).
    apply orj_ok_app in Hj. destruct Hj as [Hj1 Hj2]. apply nojump_ok_app in Hn. destruct Hn as [_ Hn2]. rewrite length_alt3_fwd in Hn2.
    assert (Hpos : 2 <= tot3 (cs2 :: r2)) by (apply tot3_pos; [discriminate|exact Hr]).
    rewrite <- app_assoc.
    destruct (run_alt3 orj ce cs ce (dnf3_code (cs2 :: r2) (pos_of (i + total_lits cs)) ce ++ [ILoadElt; IYield]) i s ors Hcs Hinv)
      as [s' [newid [A [Hrun [Hinv' HA]]]]].
    + rewrite Hce. unfold pos_of. lia.
    + intros k Hk. apply Nat.leb_gt. rewrite Hce. unfold pos_of. lia.
    + exact Hj1.
    + rewrite Hrun. destruct (IH orj ce (i + total_lits cs) s' (ors ++ [(newid, A)])) as [final [Hrun2 Hstrip]].
      * discriminate.
      * exact Hr.
      * left. destruct ors; discriminate.
      * rewrite Hce. f_equal. lia.
      * exact Hj2.
      * exact Hn2.
      * exact Hinv'.
      * exists final. split; [exact Hrun2|]. rewrite Hstrip. unfold expected3. rewrite !map_app. cbn [map snd]. rewrite HA, <- app_assoc. reflexivity.
Qed.

(* ------------------------------------------------------------------ back to source expressions; the round trip *)
Lemma to_bexp_alt3 : forall cs, wf_alt3 cs -> to_bexp (alt3_pt cs) = Some (mk_alt3 cs).
Proof. intros cs H. destruct (wf_alt3_parts cs H) as [H1 H2]. apply (to_bexp_all_or_one cs). split; assumption. Qed.

Lemma to_bexp_list_alts3 : forall alts, Forall wf_alt3 alts -> to_bexp_list (map alt3_pt alts) = Some (map mk_alt3 alts).
Proof.
  induction alts as [|cs r IH]; intro H; [reflexivity|]. inversion H; subst.
  cbn [map to_bexp_list]. rewrite to_bexp_alt3 by assumption. rewrite IH by assumption. reflexivity.
Qed.

Lemma no_copy_or_fwd_to : forall ls a tg, ~ In ICopy (or_fwd_to ls a tg).
Proof.
  intros ls a tg H. destruct ls as [|x r]; [exact H|].
  destruct (exists_last (l := x :: r) ltac:(discriminate)) as [ls0 [l E]]. rewrite E, or_fwd_to_snoc in H.
  apply in_app_or in H. destruct H as [H|H]; [exact (no_copy_chain _ _ _ H)|].
  apply in_app_or in H. destruct H as [H|[H|[]]]; [exact (no_copy_lval l H)|]. destruct (ljmp_facts l false tg) as [Hn _]. exact (Hn H).
Qed.

Lemma no_copy_conj_code : forall cs p tg, ~ In ICopy (conj_code cs p tg).
Proof.
  induction cs as [|c r IH]; intros p tg H; [exact H|].
  cbn [conj_code] in H. apply in_app_or in H. destruct H as [H|H]; [exact (no_copy_or_fwd_to _ _ _ H) | exact (IH _ _ H)].
Qed.

Lemma no_copy_alt3_fwd : forall cs p a b, ~ In ICopy (alt3_fwd cs p a b).
Proof.
  induction cs as [|c r IH]; intros p a b H; [exact H|].
  cbn [alt3_fwd] in H. destruct r as [|c2 r2]; [exact (no_copy_chain _ _ _ H)|].
  apply in_app_or in H. destruct H as [H|H]; [exact (no_copy_or_fwd_to _ _ _ H) | exact (IH _ _ _ H)].
Qed.

Lemma no_copy_dnf3_code : forall alts p body, ~ In ICopy (dnf3_code alts p body).
Proof.
  induction alts as [|cs r IH]; intros p body H; [exact H|].
  cbn [dnf3_code] in H. destruct r as [|cs2 r2]; [exact (no_copy_conj_code _ _ _ H)|].
  apply in_app_or in H. destruct H as [H|H]; [exact (no_copy_alt3_fwd _ _ _ _ H) | exact (IH _ _ H)].
Qed.

Lemma stream3_eq : forall alts, stream3 alts = dnf3_code alts (pos_of 0) (pos_of (tot3 alts)) ++ [ILoadElt; IYield].
Proof. intro alts. unfold stream3. replace (2 + tot3 alts) with (pos_of (tot3 alts)) by (unfold pos_of; lia). reflexivity. Qed.

Theorem roundtrip_dnf3 : forall alts, wf3 alts -> decompile PFilter (dnf3 alts) = Some (dnf3 alts).
Proof.
  intros alts Hwf. pose proof Hwf as [Hlen Hall].
  assert (Hne : alts <> []) by (intro; subst; cbn in Hlen; lia).
  unfold decompile. rewrite compile_dnf3 by assumption. unfold decompile_code.
  assert (Hce : conditions_end (stream3 alts) = pos_of (tot3 alts)).
  { unfold stream3. rewrite conditions_end_from, ce_from_app, ce_from_dnf3_code by assumption. reflexivity. }
  rewrite Hce.
  assert (Hvj : value_jumps (stream3 alts) = []).
  { rewrite value_jumps_from. apply vj_from_no_copy. unfold stream3. intro H. apply in_app_or in H.
    destruct H as [H|[H|[H|[]]]]; try discriminate H. exact (no_copy_dnf3_code _ _ _ H). }
  rewrite Hvj.
  pose proof (or_jumps_stream3 alts Hwf) as HJ.
  destruct (inv_dnf3J alts 0 (pos_of (tot3 alts)) (pos_of (tot3 alts)) (le_n _) (le_n _)) as [_ [_ U]].
  destruct (run_dnf3_from alts (or_jumps (stream3 alts)) (pos_of (tot3 alts)) 0 (init_state PFilter) [] Hne Hall (or_intror Hlen) eq_refl)
    as [final [Hrun Hstrip]].
  - intros j t b Hin. destruct b.
    + apply existsb_exists. exists j. split; [apply HJ; exists t; exact Hin | apply Nat.eqb_refl].
    + apply existsb_false_of_not_true. intro H. apply existsb_exists in H. destruct H as [y [Hy He]]. apply Nat.eqb_eq in He. subst y.
      apply HJ in Hy. destruct Hy as [t' Ht']. destruct (U _ _ _ _ _ Hin Ht') as [_ Hb]. discriminate Hb.
  - intros q ins Hnth Htgt. apply existsb_false_of_not_true. intro H. apply existsb_exists in H. destruct H as [y [Hy He]].
    apply Nat.eqb_eq in He. subst y. apply HJ in Hy. destruct Hy as [t' Ht'].
    assert (Hja : jump_at (stream3 alts) (pos_of (0 + q)) t') by (apply jump_at_stream3; exists true; exact Ht').
    destruct Hja as [k [ins' [Hk [Hn' Ht2]]]]. assert (k = q) by (unfold pos_of in Hk; lia). subst k.
    rewrite stream3_eq in Hn'. rewrite nth_error_app1 in Hn' by (apply nth_error_Some; rewrite Hnth; discriminate).
    rewrite Hnth in Hn'. injection Hn' as <-. rewrite Htgt in Ht2. discriminate Ht2.
  - split; [reflexivity|]. split; [intros p _; reflexivity|]. split; [intros _; reflexivity|]. split; [intro H; congruence|].
    split; [intros x H; discriminate H | apply le_n].
  - rewrite <- stream3_eq in Hrun. rewrite Hrun. cbn [extract map conj]. rewrite Hstrip. unfold expected3. cbn [map snd app].
    rewrite to_bexp_PBool, to_bexp_list_alts3 by assumption.
    unfold dnf3. destruct alts as [|a [|b r]]; cbn [length] in Hlen; try lia. reflexivity.
Qed.

Corollary roundtrip_dnf3_meaning : forall alts, wf3 alts ->
  exists e', decompile PFilter (dnf3 alts) = Some e' /\ forall rho, eval rho e' = eval rho (dnf3 alts).
Proof. intros alts H. exists (dnf3 alts). split; [apply roundtrip_dnf3; assumption | reflexivity]. Qed.
