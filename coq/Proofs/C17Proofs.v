(* C17 - bracketing of writes and the all-or-nothing consequence over the abstract database semantics (Model/C17Db.v). *)
From Coq Require Import List Bool Arith Lia.
Import ListNotations.
Require Import PonyV.Model.C19Txn PonyV.Model.C17Db PonyV.Proofs.C19Base PonyV.Proofs.C19Proofs2.

(* ---- the semantic lemma: in a bracketed trace the committed content changes only at a successful COMMIT ---- *)
Lemma comm_step : forall e older, flags_ok (e :: older) = true -> bracketed (e :: older) = true -> ok_commit e = false ->
  crash_db (e :: older) = crash_db older.
Proof.
  intros e older Hf Hb Hc. unfold crash_db. cbn [db_of flags_ok bracketed forallb] in *.
  apply andb_prop in Hf. destruct Hf as (Hf & _). apply andb_prop in Hb. destruct Hb as (Hb & _).
  apply eqb_prop in Hf. unfold ok_commit, is_write in *.
  destruct (db_of older) as [comm pend].
  destruct (e_call e) as [| |q|q| | |]; try destruct q; cbn in *; try reflexivity.
  all: try (rewrite <- Hf, Hb); try (rewrite Hc); destruct (e_ok e); reflexivity.
Qed.

Lemma comm_at_commit : forall e older, ok_commit e = true ->
  crash_db (e :: older) = if txn_of (scan older) (e_con e) then fst (db_of older) ++ snd (db_of older) else fst (db_of older).
Proof.
  intros e older Hc. unfold crash_db, ok_commit in *. cbn [db_of].
  destruct (db_of older) as [comm pend]. destruct (e_call e); try discriminate. rewrite Hc.
  destruct (txn_of (scan older) (e_con e)); reflexivity.
Qed.

Lemma flags_ok_app : forall after before, flags_ok (after ++ before) = true -> flags_ok before = true.
Proof. induction after as [|e a IH]; intros b H; auto. cbn in H. apply andb_prop in H. apply IH. apply H. Qed.
Lemma bracketed_app : forall after before, bracketed (after ++ before) = true -> bracketed before = true.
Proof. unfold bracketed. intros a b H. rewrite forallb_app in H. apply andb_prop in H. apply H. Qed.
Lemma commit_points_app : forall after before x, In x (commit_points before) -> In x (commit_points (after ++ before)).
Proof. induction after as [|e a IH]; intros b x H; auto. cbn [app commit_points]. apply in_or_app. right. auto. Qed.

Lemma crash_in_points_whole : forall tr, flags_ok tr = true -> bracketed tr = true -> In (crash_db tr) (commit_points tr).
Proof.
  induction tr as [|e older IH]; intros Hf Hb.
  - left. reflexivity.
  - cbn [commit_points]. destruct (ok_commit e) eqn:Hc.
    + left. reflexivity.
    + cbn [app]. rewrite (comm_step e older Hf Hb Hc). apply IH.
      * apply (flags_ok_app [e] older Hf).
      * apply (bracketed_app [e] older Hb).
Qed.

(* crash after any prefix of the calls: the file holds the content of one of the commit points *)
Lemma crash_in_points : forall tr after before, flags_ok tr = true -> bracketed tr = true -> tr = after ++ before ->
  In (crash_db before) (commit_points tr).
Proof.
  intros tr after before Hf Hb ->. apply commit_points_app. apply crash_in_points_whole.
  - eapply flags_ok_app; eauto.
  - eapply bracketed_app; eauto.
Qed.

(* ---- the model: every trace it produces is bracketed, its COMMITs come after the flush ---- *)
Lemma good_ev_c17 : forall sh oth e, good_ev sh oth e = true ->
  (if is_write e then e_txn e else true) = true /\
  (match e_call e with KCommit => e_txn e && (e_pend e =? 0) | _ => true end) = true.
Proof.
  intros sh oth e H. unfold good_ev in H. apply andb_prop in H. destruct H as (H & _). apply andb_prop in H. destruct H as (H1 & H2).
  split; [|exact H2].
  destruct (is_write e); auto. cbn in H1. apply andb_prop in H1. destruct H1 as (H1 & _). apply andb_prop in H1. apply H1.
Qed.

Lemma suffix_c17 : forall sh oth tr tr', Suffix sh oth tr tr' ->
  bracketed tr = true -> commits_flushed tr = true -> bracketed tr' = true /\ commits_flushed tr' = true.
Proof.
  intros sh oth tr tr' H Hb Hc. induction H as [|e t He _ IH]; auto.
  destruct IH as (IH1 & IH2). destruct (good_ev_c17 _ _ _ He) as (G1 & G2).
  unfold bracketed, commits_flushed in *. cbn [forallb]. rewrite G1, G2, IH1, IH2. auto.
Qed.

Lemma sessions_c17 : forall oracle l s, WF s -> k_reg s = false -> lock s = false ->
  bracketed (trace s) = true -> commits_flushed (trace s) = true ->
  exists r s', run_sessions oracle l s = (r, s') /\ r <> Blocked /\
    bracketed (trace s') = true /\ commits_flushed (trace s') = true /\ flags_ok (trace s') = true.
Proof.
  intros oracle l. induction l as [|[sh b] l IH]; intros s Hwf Hreg Hlock Hb Hc.
  - exists Ok, s. cbn. repeat split; auto; try discriminate. apply Hwf.
  - cbn [run_sessions].
    destruct (released_lemma oracle sh b s Hwf Hreg Hlock) as (r & s1 & -> & Hr & Hwf1 & Hreg1 & Hlock1 & _ & _ & _ & _ & _ & _ & _ & Hsuf).
    destruct (suffix_c17 _ _ _ _ Hsuf Hb Hc) as (Hb1 & Hc1).
    destruct l as [|p l'].
    + exists r, s1. destruct r; try congruence; repeat split; auto; try discriminate; apply Hwf1.
    + destruct (IH s1 Hwf1 Hreg1 Hlock1 Hb1 Hc1) as (r2 & s2 & E2 & ?).
      exists r2, s2. destruct r; try congruence; rewrite E2; auto.
Qed.
